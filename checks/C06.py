"""C06 — UDP keeps datagram boundaries and the peer-to-session mapping.

  1. TLC checks spec/transport/UdpPeers.tla (Impl: one action per handler of UdpEngine's I/O thread, kernel EAGAIN as an
     environment action) exhaustively for 2 peers x 2 listeners, <= 4 sessions, with and without a session cap:
     Inv_Sticky, Inv_RxPeer, Inv_OneDatagram, Inv_Addressed, Inv_Index, Inv_IndexOwner, Inv_NoStrand; and, with bursts
     (several datagrams waiting in one socket queue while the I/O thread is busy, edge- and level-triggered epoll, the
     read loop "until EAGAIN" as its own actions), the same invariants for a smaller configuration.
  2. Regression probe: with Dev_ForeignCloseErasesIndex = TRUE (closeNow erases the peer index unconditionally, F-06a)
     TLC must find the Via/Close counterexample; that behaviour is replayed on the real engine like every other one.
     Dev_ReadBudget = TRUE (the read loop stops after a per-wake-up budget) must violate Inv_NoStrand under edge-triggered
     epoll; that counterexample is replayed too (as a burst of >= 200 datagrams).
  3. Behaviours = a transition cover sample + random walks of the dumped state graph (3 datagram size classes) + TLC
     -simulate behaviours of a deeper configuration.  Each is replayed on the real UdpEngine over loopback by
     harness/drv_udp (raw UDP peers, EAGAIN/error injection at send()/sendto(), virtual idle time, GC timer on demand;
     sequential, quiescence after every step).  Burst behaviours park the I/O thread inside a callback, let the raw peers
     queue 1 / 70 / 100 datagrams per model arrival on a listener or connected client socket, release it and then send
     nothing any more.  A third of the behaviours run on dual-stack IPv6 listeners (bind "::") with the peers
     ::ffff:127.0.0.1, ::ffff:127.0.0.2 (16-character numeric text) and ::1.
  4. The recorded events are validated against the Abs oracle spec/transport/UdpTrace.tla.  A rejection is re-run before
     it is reported.  Differences between the outcome the Impl model predicted and the observed one are model drift (noted).
"""
import os, re, json, glob, concurrent.futures as cf
import vf

SPECDIR = os.path.join(vf.SPEC, "transport")
IMPL = os.path.join(SPECDIR, "UdpPeers.tla")
TRACE_TLA = os.path.join(SPECDIR, "UdpTrace.tla")
TRACE_CFG = os.path.join(SPECDIR, "UdpTrace.cfg")
INVS = ["Inv_Sticky", "Inv_RxPeer", "Inv_OneDatagram", "Inv_Addressed", "Inv_Index", "Inv_IndexOwner", "Inv_NoStrand"]
BURST_ACTIONS = ["ArriveL", "ArriveC", "EpollInL", "EpollInC", "ReadKnown", "ReadAccept", "ReadCapDrop", "ReadC", "ReadStopL",
                 "ReadStopC"]
ACTIONS = ["DgKnown", "DgAccept", "DgCapDrop", "Connect", "CliDg", "Via", "ViaCapClose", "Close", "Advance", "GcRun",
           "SendOk", "SendEagain", "SendEagainBp", "SendErr", "SendClosed", "BlockL", "UnblockL", "FlushL", "BlockC",
           "UnblockC", "FlushC"]
# parameter order of every action (for counterexample JSON contexts) and its driver step
PARAMS = {"DgKnown": "plz", "DgAccept": "plz", "DgCapDrop": "plz", "Connect": "p", "CliDg": "psz", "Via": "lp",
          "ViaCapClose": "lp", "Close": "s", "Advance": "", "GcRun": "", "SendOk": "sz", "SendEagain": "sz",
          "SendEagainBp": "sz", "SendErr": "sz", "SendClosed": "sz", "BlockL": "l", "UnblockL": "l", "FlushL": "l",
          "BlockC": "s", "UnblockC": "s", "FlushC": "s", "ArriveL": "plz", "ArriveC": "pcz", "EpollInL": "l", "EpollInC": "c",
          "ReadKnown": "l", "ReadAccept": "l", "ReadCapDrop": "l", "ReadC": "c", "ReadStopL": "l", "ReadStopC": "c"}
STEP = {"DgKnown": "DG {0} {1} {2}", "DgAccept": "DG {0} {1} {2}", "DgCapDrop": "DG {0} {1} {2}", "Connect": "CONNECT {0}",
        "CliDg": "CDG {0} {1} {2}", "Via": "VIA {0} {1}", "ViaCapClose": "VIA {0} {1}", "Close": "CLOSE {0}",
        "Advance": "ADV", "GcRun": "GC", "SendOk": "SEND {0} {1}", "SendEagain": "SEND {0} {1}",
        "SendEagainBp": "SEND {0} {1}", "SendErr": "SENDERR {0} {1}", "SendClosed": "SEND {0} {1}", "BlockL": "BLOCKL {0}",
        "UnblockL": "UNBLOCKL {0}", "BlockC": "BLOCKC {0}", "UnblockC": "UNBLOCKC {0}", "FlushL": None, "FlushC": None}
NONTRIVIAL = {"Via", "ViaCapClose", "Close", "GcRun", "SendEagain", "SendEagainBp", "SendErr", "DgCapDrop", "CliDg"}


def consts(max_sid, max_steps, sizes, cap, dev=False, model_values=False, wq=1, burst=0, et=True, budget_dev=False, listeners=None):
    return {"Peers": "{p1, p2}" if model_values else '{"p1", "p2"}',
            "Listeners": listeners or ("{l1, l2}" if model_values else "{1, 2}"),
            "MaxSid": max_sid, "MaxSteps": max_steps, "Sizes": "{" + ", ".join('"%s"' % z for z in sizes) + "}",
            "Cap": cap, "MaxWq": wq, "MaxBurst": burst, "Budget": 2, "ET": et, "Dev_ForeignCloseErasesIndex": dev,
            "Dev_ReadBudget": budget_dev}


def mc_module(ck, name):
    """MC module with the symmetry set (peers and listeners are interchangeable)"""
    d = os.path.join(ck.work, name)
    os.makedirs(d, exist_ok=True)
    with open(os.path.join(d, "MCUdp.tla"), "w") as f:
        f.write("---- MODULE MCUdp ----\nEXTENDS UdpPeers\nSymm == Permutations(Peers) \\cup Permutations(Listeners)\n====\n")
    return d, os.path.join(d, "MCUdp.tla")


FOCUS_PREFIX = ["DgAccept(p1,1,s)", "DgAccept(p2,1,s)"]


def focus_module(ck):
    """generation configuration focused on the listener out-queue: starts in the state reached by FOCUS_PREFIX (two
    accepted sessions of different peers on listener 1) and takes only send / kernel-writability / flush / close /
    datagram actions, so that several datagrams with different destinations wait in one queue within the depth bound"""
    d = os.path.join(ck.work, "focus")
    os.makedirs(d, exist_ok=True)
    with open(os.path.join(d, "MCUdpOut.tla"), "w") as f:
        f.write("""---- MODULE MCUdpOut ----
EXTENDS UdpPeers
InitOut ==
    /\\ sess = [s \\in Sids |-> IF s = 1 THEN [st |-> "open", role |-> "srv", peer |-> "p1", owner |-> 1]
                             ELSE IF s = 2 THEN [st |-> "open", role |-> "srv", peer |-> "p2", owner |-> 1] ELSE NoSess]
    /\\ nextSid = 3 /\\ peerIndex = [p \\in Peers |-> IF p = "p1" THEN 1 ELSE 2]
    /\\ lq = [l \\in Listeners |-> <<>>] /\\ cq = [s \\in Sids |-> <<>>]
    /\\ blockedL = {} /\\ blockedC = {} /\\ stale = {} /\\ nextId = 1 /\\ sent = <<>> /\\ wire = {}
    /\\ owner = [k \\in Peers \\X Listeners |-> IF k = <<"p1", 1>> THEN 1 ELSE IF k = <<"p2", 1>> THEN 2 ELSE 0]
    /\\ stickyOk = TRUE /\\ rxOk = TRUE /\\ steps = 0
    /\\ rq = [k \\in RSocks |-> <<>>] /\\ inEvt = {} /\\ rd = None /\\ cnt = 0
NextOut == \\/ \\E s \\in Sids, z \\in Sizes : SendOk(s, z) \\/ SendEagain(s, z) \\/ SendEagainBp(s, z) \\/ SendErr(s, z) \\/ SendClosed(s, z)
           \\/ \\E l \\in Listeners : BlockL(l) \\/ UnblockL(l) \\/ FlushL(l)
           \\/ \\E s \\in Sids : Close(s)
           \\/ \\E p \\in Peers, l \\in Listeners, z \\in Sizes : DgKnown(p, l, z) \\/ DgAccept(p, l, z)
SpecOut == InitOut /\\ [][NextOut]_vars
====
""")
    cfg = os.path.join(d, "focus.cfg")
    vf.write_cfg(cfg, spec="SpecOut", constants=consts(3, 5, "sl", 0, wq=2), invariants=INVS)
    return os.path.join(d, "MCUdpOut.tla"), cfg, os.path.join(d, "focus.dot")


def label_to_step(label):
    name, args = vf.label_thread(label)
    if name not in STEP:
        raise vf.Infra("unknown Impl action in behaviour: " + label)
    fmt = STEP[name]
    return name, (fmt.format(*args) if fmt else None)


SID_ARG = {"CliDg": 1, "Close": 0, "SendOk": 0, "SendEagain": 0, "SendEagainBp": 0, "SendErr": 0, "SendClosed": 0, "BlockC": 0,
           "UnblockC": 0, "ArriveC": 1}
CREATES = {"DgAccept": "a", "ReadAccept": "a", "Connect": "c", "Via": "c", "ViaCapClose": "c"}


def behaviour(labels, cap, i, wq=1, mult=None):
    """labels -> (case line, action names).  Sessions are named by how they come into being - a<n> = the n-th implicit accept,
    c<n> = the n-th connect / connectViaListener call - because the model numbers them in the order of its own steps, which
    the real engine need not follow when datagrams wait in a socket queue.  Burst actions (mult given): the I/O thread is
    parked before the first arrival, every model arrival is `mult` datagrams, and it is released where the behaviour starts
    reading (or does anything else)."""
    steps, names = [], []
    parked = False
    sidname, made = {}, {"a": 0, "c": 0}
    for lab in labels:
        name, args = vf.label_thread(lab)
        names.append(name)
        if name in CREATES:
            made[CREATES[name]] += 1
            sidname[str(len(sidname) + 1)] = "%s%d" % (CREATES[name], made[CREATES[name]])
        if name in SID_ARG:
            args = list(args)
            args[SID_ARG[name]] = sidname.get(args[SID_ARG[name]], args[SID_ARG[name]])
        if name in ("ArriveL", "ArriveC"):
            if not parked:
                steps.append("PARK")
                parked = True
            steps.append(("RAW %s %s %s %d" if name == "ArriveL" else "RAWC %s %s %s %d") % (args[0], args[1], args[2], mult or 1))
            continue
        if parked:
            steps.append("RELEASE")
            parked = False
        if name in BURST_ACTIONS:
            continue
        if name not in STEP:
            raise vf.Infra("unknown Impl action in behaviour: " + lab)
        if STEP[name]:
            steps.append(STEP[name].format(*args))
    if parked:
        steps.append("RELEASE")
    et = 0 if i % 4 == 3 else 1
    batch = 1 if i % 3 == 2 else 0
    # every third behaviour runs on dual-stack IPv6 listeners: p1 / p2 reach the engine as ::ffff:127.0.0.1 / ::ffff:127.0.0.2
    # (numeric text of 16 characters); in half of those p2 is replaced by p3 = ::1
    v6 = 1 if i % 3 == 1 else 0
    text = " ; ".join(steps)
    if v6 and i % 6 == 4:
        text = re.sub(r"\bp2\b", "p3", text)
    # on IPv4, behaviours that open sessions from the engine's side give the peers' hosts in other spellings in two runs of
    # five ("127.1" / "127.2", "localhost"): the session is still the one datagrams from that address belong to
    sp = (i % 5 if i % 5 in (1, 2) else 0) if not v6 and re.search(r"\b(VIA|CONNECT)\b", text) else 0
    return "cap=%d et=%d batch=%d wq=%d v6=%d sp=%d ; %s" % (cap, et, batch, wq, v6, sp, text), names


def action_cover(g, rng, per_action, maxlen=12):
    """for every Impl action: up to per_action behaviours that take an edge of that action (shortest prefix from the
    initial state, then a random walk) — so that rare actions (flushes, backpressure) are replayed, not only sampled"""
    from collections import deque
    parent = {i: None for i in g.init}
    dq = deque(g.init)
    order = []
    while dq:
        n = dq.popleft()
        order.append(n)
        for lab, d in g.edges[n]:
            if d not in parent:
                parent[d] = (n, lab)
                dq.append(d)

    def prefix(n):
        p = []
        while parent[n] is not None:
            n, lab = parent[n]
            p.append(lab)
        p.reverse()
        return p
    found = {}
    for n in order:
        for lab, d in g.edges[n]:
            name = lab.split("(")[0]
            lst = found.setdefault(name, [])
            if len(lst) < per_action * 4:
                lst.append((n, lab, d))
    out = []
    for name, lst in sorted(found.items()):
        rng.shuffle(lst)
        for n, lab, d in lst[:per_action]:
            out.append(prefix(n) + [lab] + g.walk_to_end(d, rng, maxlen))
    return out


# maxWriteQueue per generation configuration: 1 reaches the backpressure close within the depth bound, 2 lets two
# datagrams with different destinations wait in one listener queue
GRAPH_WQ = {0: 1, 2: 2}
SIM_WQ = {0: 2, 2: 1}


def directed(g, rng, names):
    """a behaviour of the graph whose first actions have the given names (any arguments), then a short random continuation"""
    node, path = g.init[0], []
    for want in names:
        cands = [(lab, d) for lab, d in g.edges[node] if lab.split("(")[0] == want]
        if path and want in ("ArriveL", "ArriveC") and path[-1].split("(")[0] == want:      # keep hitting the same socket
            same = [(lab, d) for lab, d in cands if vf.label_thread(lab)[1][1] == vf.label_thread(path[-1])[1][1]]
            cands = same or cands
        if not cands:
            return None
        lab, node = rng.choice(cands)
        path.append(lab)
    return path + g.walk_to_end(node, rng, 8)


def sim_behaviours(ck, cap, num, seed, depth=16, max_steps=10):
    d = os.path.join(ck.work, "sim%d" % cap)
    os.makedirs(d, exist_ok=True)
    cfg = os.path.join(d, "sim.cfg")
    vf.write_cfg(cfg, constants=consts(4, max_steps, "sml", cap, wq=SIM_WQ[cap]), invariants=INVS[:5])
    workers = 2
    r = vf.run_tlc(IMPL, cfg, tag="C06_sim%d" % cap, workers=workers, simulate="file=%s/b,num=%d" % (d, (num + workers - 1) // workers),
                   depth=depth, seed=seed)
    if r.error or r.violated:
        return r, []
    out = []
    for fn in sorted(glob.glob(os.path.join(d, "b_*"))):
        labs = re.findall(r"^\\\* <(\w+(?:\([^)]*\))?) line ", open(fn).read(), re.M)
        labs = [x for x in labs if not x.startswith("Init")]
        if labs:
            out.append(labs)
        os.remove(fn)
    return r, out[:num]


def run(ck):
    thorough = ck.tier == "thorough"
    ck.make("drv_udp")
    ck.rule = ("behaviours of UdpPeers.tla (2 peers, 2 listeners): a sample of the transition cover of the dumped state graph "
               "(<=3 sessions, depth 4, every edge labelled with one of the datagram size classes 1/1472/65507), random walks, "
               "TLC -simulate behaviours of a deeper configuration (<=4 sessions, 10 steps, with and without maxSessions=2) "
               "and the TLC counterexamples of the F-06a and read-budget deviations; each replayed step by step on the real UdpEngine "
               "over loopback (edge/level triggered, batching on/off; every third behaviour on dual-stack IPv6 listeners with the peers "
               "::ffff:127.0.0.1, ::ffff:127.0.0.2, ::1).  Burst behaviours (graphs with socket receive queues): the I/O thread is parked "
               "in a callback, each model arrival is 1/8/70/100 raw datagrams (>= 200 on one listener or client socket in the big ones), "
               "then it is released and nothing is sent any more.  Non-trivial = the behaviour contains a connect-via-listener, a burst, "
               "a close / idle expiry, an injected EAGAIN or send error, a session-cap drop, or traffic on a client session.")
    # exhaustive runs: (cap, MaxSteps, with coverage statistics).  The coverage runs (self-test: every action taken) use a
    # smaller depth because -coverage slows TLC down considerably.
    mc_keys = [(0, 4, True), (2, 4, True)] + ([(0, 7, False), (2, 7, False)] if thorough else [(0, 6, False), (2, 5, False)])

    def job_mc(key):
        cap, steps, cov = key
        d, mod = mc_module(ck, "mc%d_%d" % (cap, steps))
        cfg = os.path.join(d, "mc.cfg")
        vf.write_cfg(cfg, constants=consts(4, steps, "m", cap, model_values=True), invariants=INVS, symmetry="Symm")
        return vf.run_tlc(mod, cfg, tag="C06_mc%d_%d" % (cap, steps), workers=4, coverage=cov, lib_dirs=[SPECDIR], timeout=1500)

    def job_probe():
        cfg = os.path.join(ck.work, "probe.cfg")
        vf.write_cfg(cfg, constants=consts(4, 6, "m", 0, dev=True), invariants=["Inv_Sticky"])
        return vf.run_tlc(IMPL, cfg, tag="C06_probe", workers=1, dump_trace=os.path.join(ck.work, "cex.json"))

    def job_graph(cap):
        cfg = os.path.join(ck.work, "gen%d.cfg" % cap)
        vf.write_cfg(cfg, constants=consts(3, 4, "sml", cap, wq=GRAPH_WQ[cap]), invariants=INVS)
        return vf.run_tlc(IMPL, cfg, tag="C06_gen%d" % cap, workers=2, dump_dot=os.path.join(ck.work, "gen%d.dot" % cap))

    def job_focus():
        mod, cfg, dot = focus_module(ck)
        return vf.run_tlc(mod, cfg, tag="C06_focus", workers=2, dump_dot=dot, lib_dirs=[SPECDIR])

    # bursts: one listener, <= 2 sessions, up to 3 datagrams waiting per socket queue; edge- and level-triggered; with a cap
    bl = '{1}'
    burst_keys = [("et", dict(et=True)), ("lt", dict(et=False)), ("etcap", dict(et=True, cap=1))]

    def job_burst(key):
        name, kw = key
        cfg = os.path.join(ck.work, "burst_%s.cfg" % name)
        vf.write_cfg(cfg, constants=consts(2, 7 if thorough else 5, "m", kw.get("cap", 0), burst=3, et=kw["et"], listeners=bl), invariants=INVS)
        return vf.run_tlc(IMPL, cfg, tag="C06_burst_" + name, workers=3, timeout=1500)

    def job_budget(et):
        cfg = os.path.join(ck.work, "budget_%d.cfg" % et)
        vf.write_cfg(cfg, constants=consts(2, 6, "m", 0, burst=3, et=bool(et), budget_dev=True, listeners=bl), invariants=["Inv_NoStrand"])
        return vf.run_tlc(IMPL, cfg, tag="C06_budget%d" % et, workers=2, timeout=900, dump_trace=os.path.join(ck.work, "cex_budget%d.json" % et))

    def job_burstgraph(key):
        et, cap = key
        cfg = os.path.join(ck.work, "bgen%d%d.cfg" % key)
        vf.write_cfg(cfg, constants=consts(2, 4, "sm", cap, burst=3, et=bool(et), listeners=bl), invariants=INVS)
        return vf.run_tlc(IMPL, cfg, tag="C06_bgen%d%d" % key, workers=2, timeout=900, coverage=True,
                          dump_dot=os.path.join(ck.work, "bgen%d%d.dot" % key))

    nsim = 1500 if thorough else 120
    with cf.ThreadPoolExecutor(max_workers=10) as ex:
        f_burst = {k[0]: ex.submit(job_burst, k) for k in burst_keys}
        f_budget = {et: ex.submit(job_budget, et) for et in (1, 0)}
        f_bgen = {k: ex.submit(job_burstgraph, k) for k in ((1, 0), (0, 0), (1, 1))}
        f_mc = {k: ex.submit(job_mc, k) for k in mc_keys}
        f_probe = ex.submit(job_probe)
        f_graph = {cap: ex.submit(job_graph, cap) for cap in (0, 2)}
        f_sim = {cap: ex.submit(sim_behaviours, ck, cap, nsim, ck.seed * 7 + cap) for cap in (0, 2)}
        f_focus = ex.submit(job_focus)
        mc = {c: f.result() for c, f in f_mc.items()}
        probe = f_probe.result()
        graphs = {c: f.result() for c, f in f_graph.items()}
        sims = {c: f.result() for c, f in f_sim.items()}
        focus = f_focus.result()
        bursts = {k: f.result() for k, f in f_burst.items()}
        budget = {k: f.result() for k, f in f_budget.items()}
        bgen = {k: f.result() for k, f in f_bgen.items()}

    # ---- 1. exhaustive runs of the repaired design
    for (cap, steps, cov), r in mc.items():
        if r.error:
            raise vf.Infra("TLC failed on UdpPeers (cap=%d, MaxSteps=%d): %s" % (cap, steps, r.error))
        ck.states += r.distinct
        ck.transitions += r.generated
        for a, (tk, gn) in r.coverage.items():
            ck.cov[a] = ck.cov.get(a, 0) + gn      # successor states generated by the action (taken = only NEW states)
        ck.note("TLC UdpPeers cap=%d MaxSid=4 MaxSteps=%d (symmetry on peers, listeners): %s" % (cap, steps, r.summary()))
        if r.violated:
            rp = ck.save_replay("impl_spec_cap%d_%d" % (cap, steps), {"tlc.out": r.out})
            ck.violation("UdpPeers.tla (all deviation flags FALSE) violates %s" % r.violated, rp)
    for name, r in bursts.items():
        if r.error:
            raise vf.Infra("TLC failed on UdpPeers with bursts (%s): %s" % (name, r.error))
        ck.states += r.distinct
        ck.transitions += r.generated
        ck.note("TLC UdpPeers with bursts (%s; 1 listener, <=2 sessions, <=3 datagrams per socket queue): %s" % (name, r.summary()))
        if r.violated:
            rp = ck.save_replay("impl_spec_burst_" + name, {"tlc.out": r.out})
            ck.violation("UdpPeers.tla with bursts (all deviation flags FALSE) violates %s" % r.violated, rp)
    for (et, bcap), r in bgen.items():
        if r.error or r.violated:
            raise vf.Infra("TLC failed on the burst generation graph (ET=%d cap=%d): %s %s" % (et, bcap, r.violated, r.error))
        for a, (tk, gn) in r.coverage.items():
            ck.cov[a] = ck.cov.get(a, 0) + gn
    ck.exhaustive = True
    for a in ACTIONS + BURST_ACTIONS:
        if ck.cov.get(a, 0) == 0:
            raise vf.Infra("self-test: Impl action %s never taken in the exhaustive runs" % a)

    cases = []   # (line, names, kind)
    # ---- 2. the deviation must be visible to the specification; its counterexample becomes a behaviour
    if probe.error or probe.violated != "Inv_Sticky" or not probe.trace_json:
        raise vf.Infra("self-test: UdpPeers with Dev_ForeignCloseErasesIndex=TRUE should violate Inv_Sticky, got %r %s" % (
            probe.violated, probe.error))
    ck.states += probe.distinct
    ck.transitions += probe.generated
    cex = []
    for a in probe.trace_json["counterexample"]["action"]:
        name, ctx = a[1]["name"], a[1].get("context", {})
        if name not in PARAMS:
            continue
        cex.append("%s(%s)" % (name, ",".join(str(ctx[k]) for k in PARAMS[name])))
    ck.note("deviation probe: TLC finds %s in %d steps: %s" % (probe.violated, len(cex), " -> ".join(cex)))
    for i in range(4):
        line, names = behaviour(cex, 0, i)
        cases.append((line, names, "probe"))
    ck.sample({"kind": "TLC counterexample of Dev_ForeignCloseErasesIndex (F-06a), replayed on the real engine", "steps": cex})

    # ---- 3. behaviours from the state graphs and from simulation
    for cap, r in graphs.items():
        if r.error or r.violated:
            raise vf.Infra("TLC failed on the generation graph (cap=%d): %s %s" % (cap, r.violated, r.error))
        ck.states += r.distinct
        ck.transitions += r.generated
        dot = os.path.join(ck.work, "gen%d.dot" % cap)
        g = vf.Graph.load(dot)
        os.remove(dot)
        limit = (2500 if thorough else 200) if cap == 0 else (800 if thorough else 80)
        paths, covered, total = g.transition_cover(ck.rng, maxlen=12, limit=limit)
        walks = g.random_walks(ck.rng, 300 if thorough else 40, maxlen=12)
        acov = action_cover(g, ck.rng, 12 if thorough else 3)
        ck.note("generation graph cap=%d: %d states, %d edges; %d cover behaviours (%d/%d edges) + %d per-action behaviours + %d random walks" % (
            cap, r.distinct, g.n_edges(), len(paths), covered, total, len(acov), len(walks)))
        for pth in acov + paths + walks:
            line, names = behaviour(pth, cap, len(cases), GRAPH_WQ[cap])
            cases.append((line, names, "graph"))
    if focus.error or focus.violated:
        raise vf.Infra("TLC failed on the out-queue generation graph: %s %s" % (focus.violated, focus.error))
    ck.states += focus.distinct
    ck.transitions += focus.generated
    dot = os.path.join(ck.work, "focus", "focus.dot")
    g = vf.Graph.load(dot)
    os.remove(dot)
    paths, covered, total = g.transition_cover(ck.rng, maxlen=12, limit=1500 if thorough else 150)
    acov = action_cover(g, ck.rng, 12 if thorough else 4)
    walks = g.random_walks(ck.rng, 300 if thorough else 60, maxlen=12)
    ck.note("out-queue generation graph (after %s; maxWriteQueue=2): %d states, %d edges; %d cover (%d/%d edges) + %d per-action "
            "+ %d random-walk behaviours" % (" ".join(FOCUS_PREFIX), focus.distinct, g.n_edges(), len(paths), covered, total,
                                            len(acov), len(walks)))
    for pth in acov + paths + walks:
        line, names = behaviour(FOCUS_PREFIX + pth, 0, len(cases), 2)
        cases.append((line, names, "focus"))
    # ---- 3b. bursts: the read-budget deviation must strand datagrams under edge-triggered epoll (and only there)
    r = budget[1]
    if r.error or r.violated != "Inv_NoStrand" or not r.trace_json:
        raise vf.Infra("self-test: UdpPeers with Dev_ReadBudget=TRUE (ET) should violate Inv_NoStrand, got %r %s" % (r.violated, r.error))
    if budget[0].error or budget[0].violated:
        raise vf.Infra("self-test: Dev_ReadBudget under level-triggered epoll is expected to satisfy Inv_NoStrand, got %r %s" % (
            budget[0].violated, budget[0].error))
    ck.states += r.distinct + budget[0].distinct
    ck.transitions += r.generated + budget[0].generated
    bcex = []
    for a in r.trace_json["counterexample"]["action"]:
        name, ctx = a[1]["name"], a[1].get("context", {})
        if name in PARAMS:
            bcex.append("%s(%s)" % (name, ",".join(str(ctx[k]) for k in PARAMS[name])))
    ck.note("deviation probe: with Dev_ReadBudget TLC finds Inv_NoStrand violated (edge-triggered) after %s; level-triggered: holds" % " -> ".join(bcex))
    nburst = 0
    for i in range(8):                      # et/lt x batching x IPv4/IPv6, 100 datagrams per model arrival (3 arrivals = 300)
        line, names = behaviour(bcex, 0, len(cases), mult=100 if i % 2 == 0 else 70)
        cases.append((line, names, "burst-probe"))
        nburst += 1
    ck.sample({"kind": "TLC counterexample of Dev_ReadBudget, replayed as a burst", "case": cases[-1][0]})
    big = 0
    for (et, bcap), r in bgen.items():
        ck.states += r.distinct
        ck.transitions += r.generated
        dot = os.path.join(ck.work, "bgen%d%d.dot" % (et, bcap))
        g = vf.Graph.load(dot)
        os.remove(dot)
        paths, covered, total = g.transition_cover(ck.rng, maxlen=16, limit=1200 if thorough else 60)
        acov = action_cover(g, ck.rng, 10 if thorough else 3, maxlen=10)
        walks = g.random_walks(ck.rng, 200 if thorough else 30, maxlen=16)
        n0 = len(cases)
        dirs = [directed(g, ck.rng, nm) for nm in (["Connect", "ArriveC", "ArriveC", "ArriveC"], ["ArriveL", "ArriveL", "ArriveL"],
                                                     ["DgAccept", "ArriveL", "ArriveL", "ArriveL"], ["Connect", "ArriveC", "ArriveC", "ArriveC"])]
        for pth in [d for d in dirs if d] + acov + paths + walks:
            if not any(x.startswith("Arrive") for x in pth):
                continue
            # a socket with 3 model arrivals gets >= 200 datagrams in some behaviours; the others stay small
            per_sock = {}
            for x in pth:
                nm, ar = vf.label_thread(x)
                if nm in ("ArriveL", "ArriveC"):
                    per_sock[(nm, ar[1])] = per_sock.get((nm, ar[1]), 0) + 1
            heavy = max(per_sock.values()) >= 3 and big < (60 if thorough else 10)
            mult = (70 if big % 2 else 100) if heavy else (1 if len(cases) % 3 else 8)
            big += 1 if heavy else 0
            line, names = behaviour(pth, bcap, len(cases), mult=mult)
            if "et=%d" % et not in line:
                line = re.sub(r"et=\d", "et=%d" % et, line)      # the graph was generated for this notification mode
            cases.append((line, names, "burst"))
        ck.note("burst generation graph ET=%d cap=%d: %d states, %d edges; %d behaviours with arrivals (cover %d/%d edges)" % (
            et, bcap, r.distinct, g.n_edges(), len(cases) - n0, covered, total))
    if big < 4:
        raise vf.Infra("self-test: no behaviour with >= 200 datagrams on one socket was generated")
    heavy_cases = [c[0] for c in cases if c[2].startswith("burst") and re.search(r"RAWC? \S+ \S+ \S+ (70|100)", c[0])]
    if not any(" RAW " in c for c in heavy_cases) or not any(" RAWC " in c for c in heavy_cases):
        raise vf.Infra("self-test: the big bursts must hit a listener socket and a connected client socket")
    for cap, (r, behs) in sims.items():
        if r.error or r.violated:
            raise vf.Infra("TLC -simulate failed (cap=%d): %s %s" % (cap, r.violated, r.error))
        if not behs:
            raise vf.Infra("TLC -simulate produced no behaviours (cap=%d)" % cap)
        ck.note("simulation cap=%d: %d behaviours (<=4 sessions, <=10 steps)" % (cap, len(behs)))
        for pth in behs:
            line, names = behaviour(pth, cap, len(cases), SIM_WQ[cap])
            cases.append((line, names, "sim"))
    seen_actions = set(n for _, names, _ in cases for n in names)
    missing = [a for a in ACTIONS + BURST_ACTIONS if a not in seen_actions]
    if missing:
        raise vf.Infra("self-test: the generated behaviours never take Impl action(s) %s" % missing)
    ck.sample({"kind": "behaviour (case line for drv_udp)", "case": cases[len(cases) // 2][0]})

    # ---- 4. replay on the real engine and judge
    execs, events = run_cases(ck, [c[0] for c in cases], "udp")
    ck.evaluations += len(execs)
    ck.nontrivial = len(set(line.split(";", 1)[1] for line, names, _ in cases if NONTRIVIAL & set(names)))
    drift = 0
    for (line, names, kind), (start, evs) in zip(cases, execs):
        pred = sum(1 for n in names if n in ("DgAccept", "ReadAccept"))
        obs = sum(1 for e in evs if e["e"] == "Accept")
        if any(n in ("ArriveL", "ArriveC") for n in names):
            pred = obs          # (a behaviour may end with datagrams still queued in the model; the engine reads them)
        if pred != obs or any(e["e"] == "Skip" for e in evs):
            drift += 1
    if getattr(ck, "no_ipv6", 0):
        ck.note("IPv6 is not available in this sandbox: %d dual-stack behaviours were NOT run (gap (e) of C06 is not exercised)" % ck.no_ipv6)
    else:
        ck.note("dual-stack IPv6 listeners: %d behaviours (peers ::ffff:127.0.0.1, ::ffff:127.0.0.2, ::1)" % sum(1 for c in cases if " v6=1 " in c[0]))
    ck.note("%d behaviours replayed; outcome differs from the Impl prediction (accept count / step not performable) in %d" % (
        len(execs), drift))
    ck.sample({"kind": "recorded execution", "case": cases[-1][0], "events": execs[-1][1][:14]})
    rejected = judge(ck, cases, execs, "udp")
    oracle_selftest(ck, cases, execs, rejected)


def run_cases(ck, lines, name):
    cp = os.path.join(ck.work, name + "_cases.txt")
    with open(cp, "w") as f:
        f.write("\n".join(lines) + "\n")
    outp = os.path.join(ck.work, name + ".ndjson")
    rc, out = vf.run_driver("drv_udp", ["run", cp, outp, 8], timeout=1500)
    if rc != 0:
        raise vf.Infra("drv_udp failed: " + out[-2000:])
    events = vf.read_ndjson(outp)
    execs = vf.split_executions(events)
    if len(execs) != len(lines):
        raise vf.Infra("drv_udp returned %d executions for %d cases" % (len(execs), len(lines)))
    for i, (start, evs) in enumerate(execs):
        if any(e["e"] == "Lost" for e in evs) and not name.endswith("_again"):
            # "one datagram per send reaches the session's peer": decided by the kernel's own answer (send succeeded, nothing
            # arrived on loopback).  Re-run the single case; reported only when it repeats.
            again, _ = run_cases(ck, [lines[i]], name + "_%d_again" % i)
            if any(e["e"] == "Lost" for e in again[0][1]):
                rp = ck.save_replay(name + "_lost_%d" % i, {"case.txt": lines[i] + "\n", "trace.ndjson": "\n".join(json.dumps(e) for e in evs) + "\n"})
                ck.violation("a datagram the engine sent (send call successful) never reached the peer socket, twice in a row (%s)" % lines[i], rp)
            else:
                ck.note("execution %d: a sent datagram did not arrive within 5 s, not repeated by an immediate re-run: treated as load noise" % i)
            execs[i] = (start, [] if any(e["e"] == "Lost" for e in again[0][1]) else again[0][1])
            continue
        for e in evs:
            if e["e"] in ("Infra", "HarnessTimeout"):
                raise vf.Infra("execution %d (%s): %s" % (i, lines[i], json.dumps(e)))
        if len(evs) == 1 and evs[0]["e"] == "NoIPv6":          # no IPv6 in this sandbox: the dual-stack behaviour was not run
            ck.no_ipv6 = getattr(ck, "no_ipv6", 0) + 1
            execs[i] = (start, [])
    return execs, events


def write_trace(path, execs):
    with open(path, "w") as f:
        for start, evs in execs:
            for e in evs:
                f.write(json.dumps(e) + "\n")
            f.write('{"e":"Reset"}\n')


def first_rejected(ck, execs, tag):
    """validate a batch; returns (index of the first rejected execution or None, ValResult)"""
    p = os.path.join(ck.work, tag + ".ndjson")
    write_trace(p, execs)
    v = ck.validate(TRACE_TLA, TRACE_CFG, p, n_exec=len(execs))
    if v.accepted:
        return None, v
    events = vf.read_ndjson(p)
    return vf.exec_index_of_line(events, v.maxl), v


def judge(ck, cases, execs, name):
    """validate all executions; every rejected one is re-run before it is reported.  Returns the rejected indices."""
    rejected = []
    base = 0
    rest = list(execs)
    crashed = [i for i, (s, evs) in enumerate(execs) if any(e["e"] == "Crashed" for e in evs)]
    for i in crashed:
        rp = ck.save_replay("%s_crash_%d" % (name, i), {"case.txt": cases[i][0] + "\n",
                                                        "trace.ndjson": "\n".join(json.dumps(e) for e in execs[i][1]) + "\n"})
        ck.violation("the engine crashed while replaying %s" % cases[i][0], rp)
    while rest and len(rejected) < 6:
        x, v = first_rejected(ck, rest, "%s_val%d" % (name, len(rejected)))
        if x is None:
            break
        gi = base + x
        start, evs = rest[x]
        # position of the first unmatched event inside the execution
        off = v.maxl - sum(len(e[1]) + 1 for e in rest[:x])
        bad = evs[off - 1] if 0 < off <= len(evs) else {"e": "?"}
        # re-run the behaviour alone (twice) before reporting
        confirmed = None
        for attempt in range(2):
            ex2, _ = run_cases(ck, [cases[gi][0]], "%s_rerun" % name)
            x2, v2 = first_rejected(ck, ex2, "%s_rerun_val" % name)
            if x2 is not None:
                confirmed = (ex2[0][1], v2)
                break
        files = {"case.txt": cases[gi][0] + "\n", "trace.ndjson": "\n".join(json.dumps(e) for e in evs) + "\n",
                 "why.txt": "UdpTrace.tla cannot match event %d of the execution: %s\nImpl actions: %s\n" % (
                     off, json.dumps(bad), " ".join(cases[gi][1]))}
        rp = ck.save_replay("%s_reject_%d" % (name, gi), files)
        if confirmed:
            ck.violation("UDP execution not explainable by the Abs oracle: first unmatched event %s; behaviour: %s" % (
                json.dumps(bad), cases[gi][0]), rp)
            rejected.append(gi)
        else:
            ck.note("rejection of behaviour %d (%s) did not repeat in 2 re-runs — not reported; kept in %s" % (gi, cases[gi][0], rp))
            rejected.append(gi)
        rest = rest[x + 1:]
        base = gi + 1
    return rejected


def oracle_selftest(ck, cases, execs, rejected):
    """the oracle must reject corrupted copies of accepted executions (no vacuity)"""
    def pick(pred):
        for i, (start, evs) in enumerate(execs):
            if i not in rejected and pred(evs):
                return [dict(e) for e in evs]
        return None
    muts = []
    evs = pick(lambda E: sum(1 for e in E if e["e"] == "Data") >= 1)
    if evs:                                                     # a datagram that is never delivered
        k = [i for i, e in enumerate(evs) if e["e"] == "Data"][-1]
        muts.append(("dropped data event", evs[:k] + evs[k + 1:]))
        m = [dict(e) for e in evs]
        m[k]["len"] -= 1 if m[k]["len"] > 1 else -1             # truncated / padded payload
        muts.append(("data event with a different length", m))
        m = [dict(e) for e in evs]
        m.insert(k, dict(m[k]))                                 # delivered twice
        muts.append(("duplicated data event", m))
    evs = pick(lambda E: len(set(e["p"] for e in E if e["e"] == "Accept")) >= 2 and any(e["e"] == "Data" for e in E))
    if evs:                                                     # delivered on a session of the other peer
        peer = {e["sid"]: e["p"] for e in evs if e["e"] == "Accept"}
        k = [i for i, e in enumerate(evs) if e["e"] == "Data" and e["sid"] in peer][-1]
        other = [s for s, p in peer.items() if p != peer[evs[k]["sid"]]]
        if other:
            m = [dict(e) for e in evs]
            m[k]["sid"] = other[0]
            muts.append(("data event on a session of a different peer", m))
    evs = pick(lambda E: any(e["e"] == "Out" for e in E))
    if evs:
        k = [i for i, e in enumerate(evs) if e["e"] == "Out"][-1]
        m = [dict(e) for e in evs]
        m.insert(k, dict(m[k]))                                 # two datagrams for one send
        muts.append(("duplicated outgoing datagram", m))
        m = [dict(e) for e in evs]
        m[k]["to"] = "p2" if m[k]["to"] == "p1" else "p1"       # wrong destination
        muts.append(("outgoing datagram addressed to the other peer", m))
        m = [dict(e) for e in evs]
        m[k]["ok"] = False                                      # bytes differ
        muts.append(("outgoing datagram with different bytes", m))
    if len(muts) < 7:
        raise vf.Infra("self-test: not enough accepted executions to build the corrupted traces (%d)" % len(muts))
    for what, m in muts:
        p = os.path.join(ck.work, "selftest.ndjson")
        write_trace(p, [(0, m)])
        v = vf.validate_trace(TRACE_TLA, TRACE_CFG, p, tag="C06_self")
        if v.error:
            raise vf.Infra("self-test validation error: " + v.error)
        if v.accepted:
            raise vf.Infra("self-test: UdpTrace.tla accepts a corrupted trace (%s)" % what)
    ck.note("oracle self-test: %d corrupted traces rejected (%s)" % (len(muts), "; ".join(w for w, _ in muts)))


def replay(ck, path):
    """re-run one saved behaviour against the current tree and re-validate it"""
    ck.make("drv_udp")
    line = open(os.path.join(path, "case.txt")).read().strip()
    execs, events = run_cases(ck, [line], "replay")
    for e in execs[0][1]:
        print(json.dumps(e))
    judge(ck, [(line, [], "replay")], execs, "replay")
