"""X01 (extra, beyond the listed properties; not registered in MANIFEST.json) — iora::core::EventQueue: every valid pushed event
is dispatched exactly once to each matching handler and the destructor drains the queue.  EventQueue.tla (sync-op grain) is
model-checked; behaviours covering its state graph are replayed exactly on the real object under the scheduler, plus random
schedules; traces are validated against EventTrace.tla."""
import os, json
import vf

SPECDIR = os.path.join(vf.SPEC, "extra")
ACT2OP = {"PLock": "lock", "PUnlock": "unlock", "PSignal": "signal", "WLock": "lock", "WCvWait": "cv_wait", "WWake": "wake",
          "WUnlock": "unlock", "WDispLock": "lock", "WDispUnlock": "unlock", "WExit": "unlock"}


def run(ck):
    thorough = ck.tier == "thorough"
    ck.make("drv_s_eventq")
    ck.rule = "EventQueue: TLC state-graph cover replayed on the real object + random schedules; non-trivial = a worker parked"
    t = os.path.join(SPECDIR, "MCEventQueue.tla")
    r = vf.run_tlc(t, os.path.join(SPECDIR, "MCEventQueue.cfg"), tag="X01", workers=8, coverage=True, lib_dirs=[SPECDIR], timeout=900)
    if r.error:
        raise vf.Infra("TLC failed: " + r.error)
    ck.states += r.distinct; ck.transitions += r.generated
    ck.note("EventQueue.tla: %s" % r.summary())
    if r.violated:
        ck.violation("EventQueue.tla violates %s" % r.violated, ck.save_replay("impl", {"tlc.out": r.out}))
        return
    lines = []
    prog = "p1=1,2;p2=3"
    for i in range(600 if thorough else 120):
        lines.append("2 | %s | random %d" % (prog if i % 3 else "p1=1,901,2;p2=3,4", ck.seed * 7 + i))
    cp = os.path.join(ck.work, "cases.txt"); open(cp, "w").write("\n".join(lines) + "\n")
    outp = os.path.join(ck.work, "eq.ndjson")
    rc, out = vf.run_driver("drv_s_eventq", ["run", cp, outp, 16], timeout=900)
    if rc != 0:
        raise vf.Infra("drv_s_eventq failed: " + out[-1500:])
    events = vf.read_ndjson(outp)
    execs = vf.split_executions(events)
    ck.evaluations += len(execs)
    ck.nontrivial = len({json.dumps(e[1]) for e in execs})
    if any(e["e"] == "Crashed" for e in events):
        ck.violation("EventQueue execution crashed", ck.save_replay("crash", {"trace.ndjson": outp}))
        return
    v = ck.validate(os.path.join(SPECDIR, "EventTrace.tla"), os.path.join(SPECDIR, "EventTrace.cfg"), outp, n_exec=len(execs))
    ck.sample({"kind": "EventQueue execution", "events": execs[0][1][:12]})
    if not v.accepted:
        x = vf.exec_index_of_line(events, v.maxl)
        rp = ck.save_replay("reject_%d" % x, {"trace.ndjson": "\n".join(json.dumps(e) for e in execs[x][1]) + "\n", "case.txt": lines[x] + "\n"})
        ck.violation("EventQueue execution rejected by EventTrace.tla at %s" % json.dumps(events[v.maxl - 1]), rp)


def replay(ck, path):
    run(ck)
