"""C18 — WebSocket framing round-trips and reassembles under any segmentation.

  1. spec/ws/WsFraming.tla (Impl: protocol-aware frame generator + the receive path of server/client at framing-step
     grain) is model-checked exhaustively per profile: every stream of <= MaxFrames frames, EVERY segmentation at the
     structural cut points (VIEW without the cut history): InvDelivers (messages and pongs = oracle WsAbs!Judge),
     InvNoThrow, InvBounded, InvNoDataAfterClose.  spec/ws/WsCodec.tla does the same for serialize/parse over all frame
     fact tuples and raw headers, spec/ws/WsClose.tla for all interleavings of application sends with the close
     handshake.  Each Dev_* flag (the defects of DESIGN section 5, F-18a..e) must make TLC report a violation (self-test).
  2. The same specifications with the history kept are the case generators: every terminal state is printed as JSON
     (stream, endpoint, segment sizes / frame facts / script) and rendered to bytes by the fixed table below.
  3. harness/drv_ws.cpp executes the cases on the real WebSocketFrame (exact-size heap buffers, also ASan+UBSan), on a
     real WebSocketServer (real upgrade over loopback, segments handed to onUpgradedData by a subclass, written to the
     socket, or glued to the upgrade request) and on a real WebSocketClient (friend hook into handleData, or a scripted
     raw server) and records what was delivered / answered / allocated.  harness/drv_s_wsclose.cpp runs the racing sends
     under the deterministic scheduler (seeded random schedules + DFS with <= 2 preemptions).
  4. TLC validates the recording against spec/ws/WsFramingTrace.tla (Abs); deviations it recognises are classified
     through known_findings.json by (deviation action, arguments); everything else is a VIOLATION.
"""
import os, json, re, time, concurrent.futures as cf
import vf

SPECDIR = os.path.join(vf.SPEC, "ws")
P, B = 32749, 263
HERE = os.path.dirname(os.path.abspath(__file__))

DEV_IMPL = ["Dev_LenOverflowThrows", "Dev_UnboundedSessionBuffer", "Dev_ControlLen126Stalls", "Dev_ClientNoUtf8Check",
            "Dev_RsvSwallows", "Dev_OversizeKeepsSession"]
ALL_BAD = ["flood", "rsv", "ctl126", "ctl127", "ctlfrag", "closefrag", "giant_all1", "giant_2p63", "giant_2p32", "over", "nonmin16",
           "nonmin64", "contnostart", "startopen", "unknown3", "unknown11", "afterclose"]
TEXT_ALL = ["ascii", "u2", "u3", "u4", "H1", "H2", "T2", "T1", "bad_ff", "bad_overlong", "bad_surr", "bad_big"]


def q(s):
    return '"%s"' % s


def sset(xs):
    return "{" + ", ".join(q(x) for x in xs) + "}"


def profile(**kw):
    d = dict(MaxFrames=3, MaxCuts=1, MaxMsg=1024, Emit=False, DataOps="{1, 2}", DataLens=sset(["1"]),
             TextClasses=sset(["ascii"]), CtlOps="{8, 9, 10}", CtlLens=sset(["1"]), Fragments=True, BadKinds="{}",
             JunkLen=0, JunkSeg=16384, Eps=sset(["s", "c"]))
    for f in DEV_IMPL:
        d[f] = False
    d.update(kw)
    return d


def profiles(thorough):
    """name -> (constants of the exhaustive run, list of overrides for the generation runs)"""
    ps = {}
    # structure: fragments, control frames in between, close
    ps["shape"] = (profile(MaxFrames=4 if thorough else 3),
                   [dict(MaxCuts=1), dict(MaxCuts=2, MaxFrames=3, CtlLens=sset(["0", "1"]))] if thorough else [dict(MaxCuts=1)])
    # every length encoding, one message of <= 2 frames (+ a ping), cuts inside header / extended length / mask / payload
    lens = ["0", "1", "125", "126", "65535", "65536"]
    ps["len"] = (profile(MaxFrames=2, MaxMsg=262144, DataLens=sset(lens), CtlOps="{9}", CtlLens=sset(["0", "125"])),
                 [dict(MaxCuts=1), dict(MaxCuts=2, MaxFrames=1)] if thorough else [dict(MaxCuts=1, MaxFrames=1)])
    # UTF-8 over fragment boundaries (validated on the complete message: fed whole and byte by byte)
    ps["utf8"] = (profile(MaxFrames=3 if thorough else 2, MaxCuts=0, DataOps="{1}", DataLens=sset(["0", "1", "5"]),
                          TextClasses=sset(TEXT_ALL), CtlOps="{}"), [dict(MaxCuts=0)])
    # the configured maximum: messages of exactly Max and beyond (single frame and fragmented)
    ps["limit"] = (profile(MaxFrames=3, DataOps="{2}", DataLens=sset(["1", "Max"]), CtlOps="{}", BadKinds=sset(["over"])),
                   [dict(MaxCuts=1 if thorough else 0)])
    # invalid frames after <= 1 valid frame, junk behind them
    ps["bad"] = (profile(MaxFrames=3 if thorough else 2, CtlOps="{8, 9}", BadKinds=sset(ALL_BAD), JunkLen=2000000),
                 [dict(MaxCuts=1 if thorough else 0)])
    return ps


INVS = ["InvDelivers", "InvNoThrow", "InvNoDataAfterClose", "InvBounded", "InvGenValid"]


def mc_module(ck, base, name, body=""):
    p = os.path.join(ck.work, name + ".tla")
    with open(p, "w") as f:
        f.write("---- MODULE %s ----\nEXTENDS %s\n%s\n====\n" % (name, base, body))
    return p


def cfg_for(ck, name, consts, invariants, view=None):
    p = os.path.join(ck.work, name + ".cfg")
    c = {k: (v if isinstance(v, str) else vf.tla(v)) for k, v in consts.items()}
    vf.write_cfg(p, constants=c, invariants=invariants, view=view)
    return p


def cases_of(r):
    out = []
    for ln in r.prints:
        if ln.startswith('"'):
            try:
                out.append(json.loads(json.loads(ln)))
            except Exception:
                pass
    return out


# --------------------------------------------------------------------------------------------- rendering table
def H(bs):
    h = 0
    for b in bs:
        h = (h * B + b + 1) % P
    return h


def ascii_fill(n, idx, off=0):
    return bytes(97 + ((i + off) * 7 + idx * 3) % 26 for i in range(n))


def payload(pc, n, idx):
    if n <= 0:
        return b""
    a = lambda k, off=0: ascii_fill(max(k, 0), idx, off)
    if pc in ("ascii", "ctl"):
        return a(n)
    if pc == "u2":
        return (b"\xc3\xa9" * (n // 2) + a(n % 2))[:n]
    if pc == "u3":
        return b"\xe2\x82\xac" * (n // 3) + a(n % 3)
    if pc == "u4":
        return b"\xf0\x9f\x98\x80" * (n // 4) + a(n % 4)
    if pc == "H1":
        return a(n - 1) + b"\xe2"
    if pc == "H2":
        return a(n - 2) + b"\xe2\x82"
    if pc == "T2":
        return b"\x82\xac" + a(n - 2)
    if pc == "T1":
        return b"\xac" + a(n - 1)
    if pc == "bad_ff":
        x = bytearray(a(n)); x[n // 2] = 0xFF; return bytes(x)
    if pc == "bad_overlong":
        return b"\xc0\xaf" + a(n - 2)
    if pc == "bad_surr":
        return b"\xed\xa0\x80" + a(n - 3)
    if pc == "bad_big":
        return b"\xf4\x90\x80\x80" + a(n - 4)
    if pc == "code1000":
        return b"\x03\xe8"[:n]
    if pc == "bin":
        return bytes((i * 31 + idx * 17 + 0x80) & 0xFF if i % 5 else (0xFF if i % 2 else 0x00) for i in range(n))
    raise vf.Infra("no rendering for payload class %r" % pc)


GIANT = {"2p32": 1 << 32, "2p63": 1 << 63, "all1": (1 << 64) - 1}


def header(op, fin, rsv, enc, declared, masked, idx):
    b0 = (0x80 if fin else 0) | ((rsv & 7) << 4) | (op & 0x0F)
    out = bytearray([b0])
    m = 0x80 if masked else 0
    if enc == 7:
        out.append(m | (declared & 0x7F))
    elif enc == 16:
        out.append(m | 126); out += (declared & 0xFFFF).to_bytes(2, "big")
    else:
        out.append(m | 127); out += (declared & ((1 << 64) - 1)).to_bytes(8, "big")
    key = bytes([0x37 ^ idx, 0xFA, 0x21 ^ (idx * 5 & 0xFF), 0x3D]) if masked else b""
    return bytes(out) + key, key


def mask(data, key):
    if not key:
        return data
    k = key * (len(data) // 4 + 1)
    return bytes(a ^ b for a, b in zip(data, k))


def render_frame(f, idx, masked):
    """-> (data spec for the driver, payload bytes or None)"""
    if f["op"] == -1:
        return "r%dx61" % f["len"], None
    if f["op"] == -2:
        # a flood of non-final continuation frames of 1000 bytes; the model's length is the total number of bytes
        hdr, key = header(0, False, 0, 16, 1000, masked, idx)
        unit = hdr + mask(b"a" * 1000, key)
        return "R%dx%s" % (f["len"] // len(unit), unit.hex()), None
    n = f["len"]
    declared = GIANT[f["lc"]] if f["lc"] in GIANT else n
    pl = payload(f["pc"], n, idx) if n > 0 else b""
    hdr, key = header(f["op"], f["fin"], f["rsv"], f["enc"], declared, masked, idx)
    return (hdr + mask(pl, key)).hex(), pl


def stream_facts(frames):
    """the frame facts of the Case event: the model's facts with the real hash facts substituted"""
    out = []
    for i, f in enumerate(frames):
        g = {k: f[k] for k in ("op", "fin", "lc", "len", "enc", "rsv", "pc")}
        if f["op"] < 0:
            g["h"], g["bl"] = 0, 1
        else:
            pl = payload(f["pc"], f["len"], i) if f["len"] > 0 else b""
            g["h"], g["bl"] = H(pl), pow(B, len(pl), P)
        out.append(g)
    return out


def jd(x):
    return json.dumps(x, separators=(",", ":"))


# --------------------------------------------------------------------------------------------- running the driver
class Exec:
    """one execution = one case (X .. E block of the driver's input)"""
    def __init__(self, kind, lines, info=None, nruns=1):
        self.kind, self.lines, self.info, self.nruns = kind, lines, info, nruns

    def text(self):
        return "X\n" + "\n".join(self.lines) + "\nE\n"


def run_driver(ck, binary, execs, tag, par=16, timeout=1500):
    """run the executions; returns the list of event lists (one per execution, in order), re-running what a crashed batch
    left unexecuted; crashes are returned as executions that contain a Crashed event"""
    results = [None] * len(execs)
    todo = list(range(len(execs)))
    rounds = 0
    while todo and rounds < 12:
        rounds += 1
        cpath = os.path.join(ck.work, "%s_%d.cases" % (tag, rounds))
        opath = os.path.join(ck.work, "%s_%d.ndjson" % (tag, rounds))
        with open(cpath, "w") as f:
            for i in todo:
                f.write(execs[i].text())
        env = {"ASAN_OPTIONS": "detect_leaks=0:abort_on_error=1:allocator_may_return_null=1", "UBSAN_OPTIONS": "print_stacktrace=1"}
        rc, out = vf.run_driver(binary, ["run", cpath, opath, par if len(todo) > 4 else 1], timeout=timeout, env=env)
        if rc != 0:
            raise vf.Infra("%s failed (rc=%d): %s" % (binary, rc, out[-1500:]))
        evs = vf.read_ndjson(opath)
        # walk the output: executions in order; a Crashed/HarnessTimeout event tells which range was cut short
        k = 0
        cur = []
        nxt = []
        for e in evs:
            if e["e"] in ("Crashed", "HarnessTimeout"):
                # the execution that was running is todo[k] (its events so far are in cur); the rest up to hi was never run
                lo, hi = e["lo"], e["hi"]
                cur.append(e)
                if k < hi:
                    results[todo[k]] = cur
                    nxt += todo[k + 1:hi]
                    k = hi
                cur = []
                continue
            if e["e"] == "Reset":
                if cur:
                    if k < len(todo):
                        results[todo[k]] = cur
                    k += 1
                    cur = []
                continue
            cur.append(e)
        if not os.environ.get("VERIF_KEEP"):
            os.remove(cpath)
        todo = nxt
    if todo:
        raise vf.Infra("driver %s kept crashing on re-runs (%d executions left)" % (binary, len(todo)))
    missing = [i for i, r in enumerate(results) if r is None]
    if missing:
        raise vf.Infra("driver %s returned no events for %d executions (first %d)" % (binary, len(missing), missing[0]))
    return results


def write_trace(path, results):
    with open(path, "w") as f:
        for evs in results:
            for e in evs:
                f.write(jd(e) + "\n")
            f.write('{"e":"Reset"}\n')


DEV_RE = re.compile(r'^<<"DEV", (\d+), "(\w+)", \[(.*)\]>>$')


def validate_chunk(ck, path, allow_dev=True):
    cfg = os.path.join(SPECDIR, "WsFramingTrace.cfg" if allow_dev else "WsFramingTraceStrict.cfg")
    v = vf.validate_trace(os.path.join(SPECDIR, "WsFramingTrace.tla"), cfg, path, tag="C18_val", timeout=1500)
    if v.error:
        raise vf.Infra("trace validation error: " + v.error)
    devs = []
    for ln in v.out.splitlines():
        m = DEV_RE.match(ln.strip())
        if m:
            args = dict(re.findall(r'(\w+) \|-> "([^"]*)"', m.group(3)))
            devs.append((int(m.group(1)), m.group(2), args))
    return v, devs


def judge(ck, execs, results, name, allow_dev=True, rerun_binary="drv_ws"):
    """validate all executions (in parallel chunks); returns (rejected executions [(index, why)], dev hits [(index, action, args)])"""
    n = len(results)
    nchunks = max(1, min(12, n // 400))
    bounds = [n * i // nchunks for i in range(nchunks + 1)]
    rejected, devhits = [], []

    def work(ci):
        lo, hi = bounds[ci], bounds[ci + 1]
        rej, dev = [], []
        idx = list(range(lo, hi))
        guard = 0
        while idx and guard < 8:
            guard += 1
            path = os.path.join(ck.work, "%s_c%d_%d.ndjson" % (name, ci, guard))
            write_trace(path, [results[i] for i in idx])
            v, devs = validate_chunk(ck, path, allow_dev)
            # map trace lines to executions
            starts, line = [], 1
            for i in idx:
                starts.append(line)
                line += len(results[i]) + 1

            def exec_of(l):
                k = 0
                while k + 1 < len(starts) and starts[k + 1] <= l:
                    k += 1
                return k
            upto = v.maxl if not v.accepted else line
            seen = set()
            for (l, act, args) in devs:
                if l < upto and (l, act) not in seen:      # DEV lines of abandoned branches beyond the rejection point are ignored
                    seen.add((l, act))
                    dev.append((idx[exec_of(l)], act, args))
            if v.accepted:
                ck.traces += len(idx)
                os.remove(path)
                break
            k = exec_of(v.maxl)
            off = v.maxl - starts[k]
            ev = results[idx[k]][off] if off < len(results[idx[k]]) else {"e": "?"}
            rej.append((idx[k], "event %d not accepted by WsFramingTrace: %s" % (off + 1, jd(ev)[:700])))
            ck.traces += k
            idx = idx[k + 1:]
            os.remove(path)
        return rej, dev
    with cf.ThreadPoolExecutor(max_workers=6) as ex:
        for rej, dev in ex.map(work, range(nchunks)):
            rejected += rej
            devhits += dev
    # a driver process that died while executing a case (assertion, signal, sanitizer report, uncaught exception) is a
    # verdict of its own: the trace specification passes over the Crashed marker, the check reports it
    have = {i for i, _ in rejected}
    for i, evs in enumerate(results):
        if i not in have and any(e["e"] == "Crashed" for e in evs):
            rejected.append((i, "the driver process died while executing this case"))
    return rejected, devhits


def signature(act, args):
    return {"spec": "WsFramingTrace", "deviation_action": act, "args": args}


def report(ck, execs, results, rejected, devhits, name, binary="drv_ws"):
    """re-run what was rejected / explained by a deviation once more before reporting it (no verdict from a single run)"""
    seen_sig = ck.__dict__.setdefault("sigs_reported", set())
    for (i, act, args) in devhits:
        sig = signature(act, args)
        key = jd(sig)
        if key in seen_sig:
            continue
        seen_sig.add(key)
        rp = ck.save_replay("%s_dev_%s_%d" % (name, act, i), {
            "cases.txt": execs[i].text(), "trace.ndjson": "\n".join(jd(e) for e in results[i]) + "\n", "binary.txt": binary,
            "why.txt": "WsFramingTrace accepted this execution only through deviation action %s%s\n" % (act, jd(args))})
        ck.classify(sig, "deviation %s %s (%s)" % (act, jd(args), describe(execs[i])), rp)
    done = 0
    for (i, why) in rejected:
        if done >= 6:
            ck.note("%s: %d more rejected executions not reported individually" % (name, len(rejected) - done))
            break
        crashed = any(e["e"] == "Crashed" for e in results[i])
        again = run_driver(ck, binary, [execs[i]], name + "_rerun", par=1)
        rej2, dev2 = judge(ck, [execs[i]], again, name + "_rerunv")
        crashed2 = any(e["e"] == "Crashed" for e in again[0])
        if not rej2 and not crashed2 and not dev2:
            ck.note("%s: a rejection did not repeat on re-run (not reported): %s" % (name, why[:200]))
            continue
        done += 1
        rp = ck.save_replay("%s_reject_%d" % (name, i), {
            "cases.txt": execs[i].text(), "trace.ndjson": "\n".join(jd(e) for e in again[0]) + "\n", "binary.txt": binary,
            "why.txt": why + "\n"})
        if crashed or crashed2:
            ck.violation("the driver process died (signal / sanitizer report / uncaught exception) on %s" % describe(execs[i]), rp)
        else:
            ck.violation("%s — %s" % (describe(execs[i]), why), rp)


def describe(x):
    return "%s case %s" % (x.kind, jd(x.info)[:300] if x.info is not None else "")


def check_infra(results, what):
    for evs in results:
        for e in evs:
            if e["e"] == "Infra":
                raise vf.Infra("%s: harness could not set the case up: %s" % (what, e.get("why")))
            if e["e"] == "HarnessTimeout":
                raise vf.Infra("%s: a driver batch exceeded the wall-clock limit" % what)
            if e["e"] in ("Run", "Script") and e.get("to") and not (e.get("feed") == "w" and e.get("ep") == "c") and e.get("feed") != "g":
                raise vf.Infra("%s: timeout while reading the endpoint's answers (%s)" % (what, jd(e)[:200]))


# --------------------------------------------------------------------------------------------- building executions
def stream_execs(ck, cases, thorough):
    """group the model's (stream, endpoint, segments) cases by stream: one execution per stream, one Run per case,
    plus byte-by-byte and through-the-socket runs of the same stream"""
    groups = {}
    for c in cases:
        key = jd(c["fr"]) + "|%d" % c["max"]
        groups.setdefault(key, []).append(c)
    execs = []
    for key, cs in groups.items():
        frames = cs[0]["fr"]
        mx = cs[0]["max"]
        facts = stream_facts(frames)
        lines = ["C " + jd({"k": "stream", "max": mx, "fr": facts})]
        data = {}
        for ep in ("s", "c"):
            parts = [render_frame(f, i, ep == "s")[0] for i, f in enumerate(frames)]
            data[ep] = "+".join(parts) if parts else "-"
        nbytes = {ep: sum(HdrLenPy(f, ep == "s") + (0 if f["lc"] in GIANT else max(f["len"], 0)) if f["op"] >= 0 else f["len"]
                          for f in frames) for ep in ("s", "c")}     # (only used to choose byte-by-byte runs)
        for ep in sorted({c["ep"] for c in cs}):
            lines.append("D %s %s" % (ep, data[ep]))
        seen = set()
        nruns = 0
        preds = []
        has_junk = any(f["op"] < 0 for f in frames)
        for c in cs:
            ep = c["ep"]
            segs = c["segs"]
            spec = ",".join(str(x) for x in segs)
            if (ep, spec) in seen:
                continue
            seen.add((ep, spec))
            lines.append("R %s d %d %s =" % (ep, mx, spec))
            preds.append(c)
            nruns += 1
        eps_here = sorted({c["ep"] for c in cs})
        for ep in eps_here:
            if nbytes[ep] <= 600 and not has_junk:
                lines.append("R %s d %d b =" % (ep, mx)); preds.append(None); nruns += 1
            elif not has_junk and nbytes[ep] > 60000:
                lines.append("R %s d %d c997 =" % (ep, mx)); preds.append(None); nruns += 1
            # through the real socket (only streams of valid frames: the end of a run is detected by an answered ping)
            # (client: only where the model says it is still answering at the end - the end of such a run is an answered ping)
            alive = all(c.get("judged") and not (c["gone"] or c["stalled"] or c["lost"] or c["thrown"]) for c in cs if c["ep"] == ep)
            if (ep == "s" and all(c.get("judged") for c in cs) or ep == "c" and alive) and ck.rng.random() < (0.25 if thorough else 0.12):
                c = ck.rng.choice([x for x in cs if x["ep"] == ep])
                lines.append("R %s w %d %s =" % (ep, mx, ",".join(str(x) for x in c["segs"]))); preds.append(c); nruns += 1
            # in the same write as the upgrade request (http_server.hpp buffer-drain path)
            if ep == "s" and all(c.get("judged") for c in cs) and nbytes[ep] <= 1200 and ck.rng.random() < (0.3 if thorough else 0.2):
                lines.append("R s g %d w =" % mx); preds.append(None); nruns += 1
        x = Exec("stream", lines, {"frames": [[f["op"], f["fin"], f["lc"], f["pc"], f.get("kind", "")] for f in frames]}, nruns)
        x.preds = preds
        x.frames = frames
        execs.append(x)
    return execs


def HdrLenPy(f, masked):
    return 2 + {7: 0, 16: 2, 64: 8}[f["enc"]] + (4 if masked else 0)


def codec_execs(cases):
    execs = []
    for i, c in enumerate(cases):
        if c["kind"] == "codec":
            pl = payload(c["pc"], c["len"], i % 7)
            key = "%02x%02x%02x%02x" % (0xA5 ^ (i & 0xFF), 0x5A, (i * 7) & 0xFF, 0xC3)
            lines = ["C " + jd({"k": "codec", "op": c["op"], "fin": c["fin"], "masked": c["masked"], "len": c["len"], "lc": c["lc"],
                                "pc": c["pc"]}),
                     "F %d %d %d %s %s" % (c["op"], 1 if c["fin"] else 0, 1 if c["masked"] else 0, key, pl.hex() if pl else "-")]
            execs.append(Exec("codec", lines, {k: c[k] for k in ("op", "fin", "masked", "lc", "pc")}))
        else:
            n = c["havelen"]
            declared = GIANT[c["lc"]] if c["lc"] in GIANT else c["len"]
            hdr, key = header(c["op"], c["fin"], c["rsv"], c["enc"], declared, c["masked"], i % 7)
            pl = payload("bin", n, i % 7) if n > 0 else b""
            lines = ["C " + jd({"k": "parse", "lc": c["lc"], "op": c["op"], "enc": c["enc"], "rsv": c["rsv"], "fin": c["fin"],
                                "masked": c["masked"], "have": c["have"], "pred": c["pred"]}),
                     "P " + ((hdr + mask(pl, key)).hex())]
            execs.append(Exec("parse", lines, {k: c[k] for k in ("op", "fin", "rsv", "enc", "lc", "masked", "have")}))
    return execs


def script_execs(cases):
    """the model's sequential scripts, plus the callback variants of the same script: a send that directly follows the
    inbound close is also issued from inside the close callback (cbT) and from a second thread while the close callback
    runs (rCg); a send that follows an inbound text is also issued from the message callback (rTe)"""
    execs = []
    for c in cases:
        ep, steps = c["ep"], c["steps"]
        variants = [steps]
        for i in range(len(steps) - 1):
            if steps[i] == "rC" and steps[i + 1] == "T":
                variants.append(steps[:i] + ["cbT", "rC"] + steps[i + 2:])
                variants.append(steps[:i] + ["rCg"] + steps[i + 2:])
        for i in range(len(steps)):
            if steps[i] == "T":
                variants.append(steps[:i] + ["rTe"] + steps[i + 1:])
        lines = ["C " + jd({"k": "script"})] + ["S %s 1024 %s" % (ep, ",".join(v)) for v in variants]
        x = Exec("script", lines, {"ep": ep, "steps": steps}, len(variants))
        x.pred = c["wire"]
        execs.append(x)
    return execs


def crosscheck_rendering(cases):
    """set-up cross-check (never a verdict): the payload classes are an abstraction of bytes; for every generated text stream
    the rendered bytes of each complete text message must be UTF-8 exactly when the specification's class model says so
    (python's strict decoder is the reference here)"""
    seen = set()
    for c in cases:
        if not c.get("judged"):
            continue
        key = jd(c["fr"])
        if key in seen:
            continue
        seen.add(key)
        cur, kind, nvalid = None, None, 0
        for i, f in enumerate(c["fr"]):
            if f["op"] in (1, 2):
                cur, kind = bytearray(), f["op"]
            if f["op"] in (0, 1, 2) and cur is not None:
                cur += payload(f["pc"], f["len"], i)
                if f["fin"]:
                    if kind == 1:
                        try:
                            bytes(cur).decode("utf-8", "strict")
                            nvalid += 1
                        except UnicodeDecodeError:
                            pass
                    cur = None
            if f["op"] == 8:
                break
        model = len([m for m in c["pmsgs"] if m["k"] == "t"])
        if model != nvalid:
            raise vf.Infra("rendering table and the UTF-8 class model of WsAbs.tla disagree on %s: %d valid text messages by the "
                           "bytes, %d by the model" % (jd([[f["op"], f["fin"], f["lc"], f["pc"]] for f in c["fr"]]), nvalid, model))
    return len(seen)


# --------------------------------------------------------------------------------------------- the check
def tlc_jobs(ck, jobs, max_workers=6):
    """jobs: (tag, module, cfg, kwargs) -> results in order"""
    def go(j):
        tag, mod, cfg, kw = j
        return vf.run_tlc(mod, cfg, tag="C18_" + tag, lib_dirs=[SPECDIR], **kw)
    with cf.ThreadPoolExecutor(max_workers=max_workers) as ex:
        return list(ex.map(go, jobs))


def account(ck, r, prefix=None):
    ck.states += r.distinct
    ck.transitions += r.generated
    if prefix:
        for a, (tk, gn) in r.coverage.items():
            ck.cov[prefix + a] = ck.cov.get(prefix + a, 0) + gn


def load_local_known(ck):
    """before checks/C18.meta.json is merged into known_findings.json the known findings of this check are read from it"""
    p = os.path.join(HERE, "C18.meta.json")
    if os.path.exists(p):
        have = {k["id"] for k in ck.known}
        for k in json.load(open(p)).get("findings", []):
            if k.get("property") == "C18" and k.get("id") not in have and k not in ck.known:
                ck.known.append(k)


def run(ck):
    try:
        run_all(ck)
    except vf.Infra as e:
        # an infrastructure problem in a later phase must not hide violations found before it
        if not ck.violations:
            raise
        ck.note("stopped early after violations had been found: %s" % str(e)[:300])
    ck.nontrivial = len(getattr(ck, "nontrivial_keys", ()))


def run_all(ck):
    thorough = ck.tier == "thorough"
    load_local_known(ck)
    ck.have_race = os.path.exists(os.path.join(vf.HARNESS, "drv_s_wsclose.cpp"))
    ck.make(*(["drv_ws", "drv_ws.asan"] + (["drv_s_wsclose"] if ck.have_race else [])))
    ck.rule = ("cases = terminal states of the TLA+ generators: (a) WsCodec.tla: every frame fact tuple [opcode, fin, masked, "
               "length class 0/1/125/126/127/65535/65536, payload class] and raw headers (giant / truncated / non-minimal / "
               "reserved bits / long control frames); (b) WsFraming.tla per profile (shape, len, utf8, limit, bad): every stream "
               "of <= MaxFrames frames of the protocol-aware generator x endpoint x every segmentation with <= MaxCuts cuts at "
               "the structural cut points (inside header, extended length, mask, payload, at boundaries), plus byte-by-byte and "
               "through-the-socket runs; (c) WsClose.tla: every sequential script of <= N calls and every interleaving "
               "(deterministic scheduler) of application sends with the close handshake.  A stream case is non-trivial when it "
               "is cut inside a frame or has fragments / control frames in between / an invalid frame; measured as distinct "
               "(stream, endpoint, segmentation).")
    mod = mc_module(ck, "WsFraming", "MCWsFraming")
    modc = mc_module(ck, "WsCodec", "MCWsCodec")
    profs = profiles(thorough)

    # ---- 1. exhaustive model checking (all segmentations) + generation runs + self-tests, all in parallel
    jobs = []
    for name, (consts, gover) in profs.items():
        c = dict(consts)
        if name != "utf8":
            c["MaxCuts"] = 99                    # exhaustive runs: every segmentation
        same = len(gover) == 1 and dict(c, **gover[0]) == c      # generation = the exhaustive run itself (no free cuts)
        if same:
            jobs.append(("mcgen_" + name, mod, cfg_for(ck, "mcgen_" + name, dict(c, Emit=True), INVS + ["InvEmit"]),
                         dict(workers=3, coverage=True, timeout=1500)))
            continue
        jobs.append(("mc_" + name, mod, cfg_for(ck, "mc_" + name, c, INVS, view="ViewNoHist"), dict(workers=3, coverage=True, timeout=1500)))
        for gi, go in enumerate(gover):
            g = dict(consts); g.update(go); g["Emit"] = True
            jobs.append(("gen_%s.%d" % (name, gi), mod, cfg_for(ck, "gen_%s_%d" % (name, gi), g, ["InvEmit"]), dict(workers=2, timeout=1500)))
    codec_consts = dict(Emit=False, MaxMsg=1024, SerT7=125, SerT16=65535, Dev_LenOverflowThrows=False)
    jobs.append(("mc_codec", modc, cfg_for(ck, "mc_codec", dict(codec_consts, Emit=True), ["RoundTrip", "Robust", "InvEmit"]),
                 dict(workers=1, timeout=600)))
    # self-tests: every deviation flag must be visible to TLC as a violated invariant
    dev_expect = {
        "Dev_LenOverflowThrows": ("bad", {"Dev_UnboundedSessionBuffer": True}, "InvNoThrow"),
        "Dev_UnboundedSessionBuffer": ("bad", {}, "InvBounded"),
        "Dev_ControlLen126Stalls": ("bad", {}, "InvBounded"),
        "Dev_ClientNoUtf8Check": ("utf8", {}, "InvDelivers"),
        "Dev_OversizeKeepsSession": ("bad", {}, "InvBounded"),
    }
    for flag, (pname, extra, inv) in dev_expect.items():
        c = dict(profs[pname][0]); c[flag] = True; c.update(extra)
        c["MaxCuts"], c["MaxFrames"] = (0, 2) if pname == "utf8" else (99, min(c["MaxFrames"], 2 if pname == "bad" else 3))
        jobs.append(("dev_" + flag, mod, cfg_for(ck, "dev_" + flag, c, [inv], view="ViewNoHist"), dict(workers=2, timeout=900)))
    for k, v in (("SerT7", 124), ("SerT7", 126), ("SerT16", 65536), ("Dev_LenOverflowThrows", True)):
        c = dict(codec_consts); c[k] = v
        jobs.append(("devc_%s_%s" % (k, v), modc, cfg_for(ck, "devc_%s_%s" % (k, v), c, ["RoundTrip", "Robust"]), dict(workers=1, timeout=300)))
    cjobs = close_jobs(ck, thorough)
    t_tlc = time.time()
    res_all = tlc_jobs(ck, jobs + cjobs, max_workers=10)
    res, cres = res_all[:len(jobs)], res_all[len(jobs):]
    ck.note("phase TLC (model checking, generation, self-tests): %.0fs" % (time.time() - t_tlc))
    stream_cases = {}
    codec_cases = []
    for (tag, _, _, _), r in zip(jobs, res):
        if tag.startswith("dev_") or tag.startswith("devc_"):
            if r.error or not r.violated:
                raise vf.Infra("self-test: %s should violate its invariant, TLC says %r %s" % (tag, r.violated, (r.error or "")[-300:]))
            account(ck, r)
            continue
        if r.error:
            raise vf.Infra("TLC failed on %s: %s" % (tag, r.error[-1500:]))
        if r.violated:
            rp = ck.save_replay("impl_" + tag, {"tlc.out": r.out[-20000:]})
            ck.violation("the Impl specification (design with all deviation flags off) violates %s in %s" % (r.violated, tag), rp)
            continue
        if tag.startswith("mcgen_"):
            account(ck, r, "WsFraming.")
            stream_cases.setdefault(tag[6:], []).extend(cases_of(r))
            ck.note("TLC exhaustive + generator %s: %s, %d cases" % (tag, r.summary(), len(stream_cases[tag[6:]])))
        elif tag.startswith("mc_") and tag != "mc_codec":
            account(ck, r, "WsFraming.")
            ck.note("TLC exhaustive %s: %s" % (tag, r.summary()))
        elif tag == "mc_codec":
            account(ck, r)
            codec_cases = cases_of(r)
            ck.note("TLC codec: %d fact tuples / raw headers, RoundTrip and Robust hold on the model" % len(codec_cases))
        else:
            account(ck, r)
            got = cases_of(r)
            stream_cases.setdefault(tag[4:].split(".")[0], []).extend(got)
            ck.note("TLC generator %s: %d cases (%d states)" % (tag, len(got), r.distinct))
    if ck.violations:
        return
    need = ["GenStart", "GenCont", "GenCtl", "GenClose", "GenBad", "GenJunk", "Seal", "Feed", "ParseDrained", "ParseJunk", "ParseFlood", "GenFlood",
            "ParseNeedBase", "ParseRsv", "ParseCtlViolation", "ParseNeedExt", "ParseTooLarge", "ParseNeedMask", "ParseNeedPayload",
            "ParseFrame", "HandleStart", "HandleCont", "HandlePing", "HandlePong", "HandleClose", "HandleUnknown"]
    for a in need:
        if ck.cov.get("WsFraming." + a, 0) == 0:
            raise vf.Infra("self-test: Impl action %s never taken in any profile" % a)
    for name in profs:
        if not stream_cases.get(name):
            raise vf.Infra("generator produced no cases for profile " + name)
    if not [c for c in codec_cases if c["kind"] == "codec"] or not [c for c in codec_cases if c["kind"] == "parse"]:
        raise vf.Infra("codec generator produced no cases")
    kinds = {f["kind"] for c in stream_cases["bad"] for f in c["fr"]}
    for k in ALL_BAD + ["junk", "ok"]:
        if k not in kinds:
            raise vf.Infra("generator produced no stream with an invalid frame of kind " + k)
    lcs = {f["lc"] for c in stream_cases["len"] for f in c["fr"]} | {c["lc"] for c in codec_cases}
    for k in ["0", "1", "125", "126", "127", "65535", "65536", "2p32", "2p63", "all1"]:
        if k not in lcs:
            raise vf.Infra("generator produced no frame of length class " + k)
    pcs = {f["pc"] for c in stream_cases["utf8"] for f in c["fr"]}
    for k in TEXT_ALL:
        if k not in pcs:
            raise vf.Infra("generator produced no text frame of payload class " + k)

    nx = sum(crosscheck_rendering(stream_cases[n]) for n in ("utf8", "shape"))
    ck.note("set-up cross-check: rendered bytes of %d text streams agree with the UTF-8 class model" % nx)
    # ---- 2. codec + raw parse on the real WebSocketFrame (plain and ASan+UBSan)
    t_ph = time.time()
    cx = codec_execs(codec_cases)
    for binary in ("drv_ws", "drv_ws.asan"):
        res_c = run_driver(ck, binary, cx, "codec_" + binary.replace(".", "_"))
        check_infra(res_c, "codec")
        ck.evaluations += len(cx)
        rej, dev = judge(ck, cx, res_c, "codec_" + binary.replace(".", "_"))
        report(ck, cx, res_c, rej, dev, "codec", binary)
    ck.sample({"kind": "codec", "case": cx[0].lines, "events": res_c[0]})
    ck.nontrivial_keys = set()
    for x in cx:
        if x.kind == "parse" or x.info["lc"] not in ("0", "1"):
            ck.nontrivial_keys.add(jd(x.info))

    ck.note("phase codec: %.0fs" % (time.time() - t_ph))
    # ---- 3. streams x segmentations on the real server and client
    t_ph = time.time()
    all_sx = []
    for name, cases in stream_cases.items():
        sx = stream_execs(ck, cases, thorough)
        for x in sx:
            x.profile = name
        all_sx += sx
    # big payloads last so that the parallel batches are balanced
    all_sx.sort(key=lambda x: sum(len(l) for l in x.lines))
    inter = []
    nb = 64
    for b in range(nb):
        inter += all_sx[b::nb]
    all_sx = inter
    res_s = run_driver(ck, "drv_ws", all_sx, "stream")
    check_infra(res_s, "stream")
    # a through-the-socket run on the client ends with a ping the client answers; if it does not (it failed the connection
    # where the model did not expect it) the run is inconclusive: the same stream is judged in its direct runs
    # (likewise a glued run in which the bytes behind the upgrade request did not reach the upgraded handler in one piece)
    inconcl = 0
    nglued = 0

    def inconclusive(e):
        return e["e"] == "Run" and e["to"] and (e["feed"] == "g" or (e["feed"] == "w" and e["ep"] == "c"))
    for x, evs in zip(all_sx, res_s):
        runs = [e for e in evs if e["e"] == "Run"]
        nglued += sum(1 for e in runs if e["feed"] == "g" and not e["to"])
        bad = [k for k, e in enumerate(runs) if inconclusive(e)]
        if bad:
            inconcl += len(bad)
            evs[:] = [e for e in evs if not inconclusive(e)]
            x.preds = [p for k, p in enumerate(x.preds) if k not in bad]
    ck.note("streams: %d runs glued to the upgrade request; %d through-the-socket / glued runs were inconclusive (no answer to the "
            "final ping / bytes not handed over in one piece) and are not judged" % (nglued, inconcl))
    nruns = sum(1 for evs in res_s for e in evs if e["e"] == "Run")
    ck.evaluations += nruns
    drift = 0
    for x, evs in zip(all_sx, res_s):
        runs = [e for e in evs if e["e"] == "Run"]
        nfr = len(x.frames)
        interesting = nfr > 1 or any(f["lc"] not in ("0", "1") for f in x.frames)
        for e, pr in zip(runs, x.preds):
            if e["segs"] > 1 and interesting:
                ck.nontrivial_keys.add(jd(x.info) + e["ep"] + e["feed"] + str(e["segs"]) + str(e["maxseg"]))
            if pr is not None and pr.get("judged") and e["ep"] == pr["ep"]:
                got = [[m["k"], m["n"]] for m in e["msgs"]]
                exp = [[m["k"], m["n"]] for m in pr["pmsgs"]]
                gout = [[o["op"], o["code"]] for o in e["outs"]]
                eout = [[o["op"], o["code"]] for o in pr["pouts"]]
                if got != exp or gout != eout:
                    drift += 1
                    if drift <= 3:
                        ck.note("model drift (%s): Impl predicted msgs %s outs %s, the code did %s %s" % (describe(x)[:160], exp, eout, got, gout))
    ck.note("streams: %d executions (streams), %d runs on the code (%s); Impl prediction differs in %d runs (drift, not a verdict)" % (
        len(all_sx), nruns, ", ".join("%s=%d" % (n, len(c)) for n, c in stream_cases.items()), drift))
    ck.note("phase streams, driver: %.0fs" % (time.time() - t_ph))
    rej, dev = judge(ck, all_sx, res_s, "stream")
    report(ck, all_sx, res_s, rej, dev, "stream")
    ck.note("phase streams, driver + validation: %.0fs" % (time.time() - t_ph))
    for x, evs in zip(all_sx, res_s):
        if getattr(x, "profile", "") == "shape" and len(x.frames) >= 3 and len(ck.samples) < 3:
            ck.sample({"kind": "stream", "case": [l[:200] for l in x.lines[:4]], "events": [jd(e)[:400] for e in evs[:3]]})
            break
    # a sample of the streams again under ASan+UBSan (exact-size segment buffers)
    asx = [x for x in all_sx if sum(len(l) for l in x.lines) < 20000]
    ck.rng.shuffle(asx)
    asx = asx[: (1500 if thorough else 250)]
    res_a = run_driver(ck, "drv_ws.asan", asx, "stream_asan")
    check_infra(res_a, "stream(asan)")
    ck.evaluations += sum(1 for evs in res_a for e in evs if e["e"] == "Run")
    rej, dev = judge(ck, asx, res_a, "stream_asan")
    report(ck, asx, res_a, rej, dev, "stream_asan", "drv_ws.asan")

    ck.note("phase streams incl. ASan sample: %.0fs" % (time.time() - t_ph))
    # ---- 4. close handshake: sequential scripts (TLC enumerates them), then racing sends under the scheduler
    t_ph = time.time()
    close_part(ck, thorough, cjobs, cres)
    ck.note("phase close handshake: %.0fs" % (time.time() - t_ph))

    # ---- 5. self-test of the oracle: corrupted recordings must be rejected
    oracle_selftest(ck, all_sx, res_s, cx, res_c)
    ck.nontrivial = len(ck.nontrivial_keys)
    ck.exhaustive = False


RACE_PROGS = [
    ("r1", {"a": ["T", "T"], "b": ["C", "T"], "io": ["rC"]}),
    ("r2", {"a": ["T", "B"], "b": ["C"], "io": ["rP", "rC"]}),
    ("r3", {"a": ["T"], "b": ["T", "C"], "io": ["rC", "rP"]}),
]


def close_jobs(ck, thorough):
    jobs = []
    n = 4 if thorough else 3
    for ep in ("s", "c"):
        alpha = ["T", "B", "P", "C", "rC", "rP"] + (["D"] if ep == "c" else [])
        body = ('MCThreads == {"a"}\nAlphabet == %s\nMCProg == ("a" :> UNION {[1..k -> Alphabet] : k \\in 1..%d})\n' % (sset(alpha), n))
        m = mc_module(ck, "WsClose", "MCWsCloseSeq_" + ep, body)
        consts = dict(Threads="<- MCThreads", ProgChoices="<- MCProg", Ep=q(ep), Emit=True, Dev_NoRecheck=False,
                      Dev_CheckOutsideLock=False, Dev_UserCloseNoFlag=False, Dev_EchoNoFlag=False)
        jobs.append(("closeseq_" + ep, m, cfg_for(ck, "closeseq_" + ep, consts, ["NoDataAfterClose", "InvEmit"]), dict(workers=1, timeout=600)))
    # interleavings: three threads
    progs = RACE_PROGS
    for tag, pr in progs:
        body = "MCThreads == %s\nMCProg == (%s)\n" % (vf.tla(set(pr.keys())), " @@ ".join('%s :> {%s}' % (q(t), vf.tla(p)) for t, p in pr.items()))
        m = mc_module(ck, "WsClose", "MCWsClose_" + tag, body)
        for flags in ({}, {"Dev_NoRecheck": True}, {"Dev_CheckOutsideLock": True}, {"Dev_UserCloseNoFlag": True}, {"Dev_EchoNoFlag": True}):
            consts = dict(Threads="<- MCThreads", ProgChoices="<- MCProg", Ep=q("c" if flags else "s"), Emit=False, Dev_NoRecheck=False,
                          Dev_CheckOutsideLock=False, Dev_UserCloseNoFlag=False, Dev_EchoNoFlag=False)
            consts.update(flags)
            name = "close_%s_%s" % (tag, "_".join(flags) or "design")
            if flags and tag != "r1":
                continue
            jobs.append((name, m, cfg_for(ck, name, consts, ["NoDataAfterClose"]), dict(workers=1, coverage=not flags, timeout=600)))
    return jobs


def close_part(ck, thorough, jobs, res):
    scripts = []
    for (tag, _, _, _), r in zip(jobs, res):
        if "Dev_" in tag:
            if r.error or r.violated != "NoDataAfterClose":
                raise vf.Infra("self-test: %s should violate NoDataAfterClose, TLC says %r" % (tag, r.violated))
            account(ck, r)
            continue
        if r.error:
            raise vf.Infra("TLC failed on %s: %s" % (tag, r.error[-1500:]))
        if r.violated:
            rp = ck.save_replay("impl_" + tag, {"tlc.out": r.out[-20000:]})
            ck.violation("WsClose.tla (design) violates %s in %s" % (r.violated, tag), rp)
            continue
        account(ck, r, "WsClose." if tag.startswith("close_r") else None)
        if tag.startswith("closeseq_"):
            scripts += cases_of(r)
    for a in ("SendAtomic", "CloseSetFlag", "CloseEmit", "EchoClose", "InPing"):
        if ck.cov.get("WsClose." + a, 0) == 0:
            raise vf.Infra("self-test: WsClose action %s never taken" % a)
    if not scripts:
        raise vf.Infra("the close-script generator produced nothing")
    kx = script_execs(scripts)
    res_k = run_driver(ck, "drv_ws", kx, "script")
    check_infra(res_k, "script")
    nscripts = sum(1 for evs in res_k for e in evs if e["e"] == "Script")
    ck.evaluations += nscripts
    drift = 0
    racy = 0
    for x, evs in zip(kx, res_k):
        st = x.info["steps"]
        firstclose = min([i for i, s in enumerate(st) if s in ("C", "rC", "D")] or [99])
        if any(s in ("T", "B") for s in st[firstclose + 1:]):
            racy += 1
            ck.nontrivial_keys.add("script" + jd(x.info))
        e0 = [e for e in evs if e["e"] == "Script"]
        if e0:
            got = ["close" if o["op"] == 8 else "data" if o["op"] in (0, 1, 2) else "ctl" for o in e0[0]["outs"]]
            if got != x.pred:
                drift += 1
                if drift <= 3:
                    ck.note("model drift (script %s on %s): WsClose predicted wire %s, the code sent %s" % (st, x.info["ep"], x.pred, got))
    if racy == 0:
        raise vf.Infra("no script sends data after a close")
    ck.note("close scripts: %d model scripts, %d runs with callback variants, %d with a data send after a close call; wire image differs "
            "from the model in %d (drift)" % (len(kx), nscripts, racy, drift))
    rej, dev = judge(ck, kx, res_k, "script")
    report(ck, kx, res_k, rej, dev, "script")
    ck.sample({"kind": "close script", "case": kx[len(kx) // 2].lines[:3], "events": [jd(e)[:300] for e in res_k[len(kx) // 2][:3]]})
    if ck.have_race:
        race_part(ck, thorough)


def race_part(ck, thorough):
    """application sends racing the close handshake on the real endpoints under the deterministic scheduler"""
    nrand = 300 if thorough else 30
    dfs = 3000 if thorough else 150
    outp = os.path.join(ck.work, "race.ndjson")
    specs = ["%s|%s" % (ep, ";".join("%s=%s" % (t, ",".join(c)) for t, c in pr.items())) for ep in ("s", "c") for _, pr in RACE_PROGS]
    rc, out = vf.run_driver("drv_s_wsclose", ["explore", ck.seed, nrand, dfs, outp, 16] + specs, timeout=1500)
    if rc != 0:
        raise vf.Infra("drv_s_wsclose failed: " + out[-1500:])
    evs = vf.read_ndjson(outp)
    execs = vf.split_executions(evs)
    results = [e for (_, e) in execs]
    check_infra(results, "race")
    xs = []
    for r in results:
        prog = next((e for e in r if e["e"] == "Case"), {})
        x = Exec("race", ["# " + jd(prog)], {"prog": prog.get("prog"), "ep": prog.get("ep"), "policy": prog.get("policy")})
        xs.append(x)
    ck.evaluations += len(results)
    inconclusive = sum(1 for r in results for e in r if e["e"] == "Script" and e.get("outcome") not in (None, "done"))
    distinct = {jd([e.get("sched") for e in r if e["e"] == "Script"]) + jd(x.info) for r, x in zip(results, xs)}
    for d in distinct:
        ck.nontrivial_keys.add("race" + d)
    ck.note("racing sends: %s; %d executions, %d distinct schedules, %d inconclusive" % (out.strip()[-200:], len(results), len(distinct), inconclusive))
    if len(distinct) < 10:
        raise vf.Infra("the scheduler explored only %d distinct schedules" % len(distinct))
    rejected, devhits = judge(ck, xs, results, "race")
    seen = ck.__dict__.setdefault("sigs_reported", set())
    for (i, act, args) in devhits:
        sig = signature(act, args)
        if jd(sig) in seen:
            continue
        seen.add(jd(sig))
        rp = ck.save_replay("race_dev_%s_%d" % (act, i), {"trace.ndjson": "\n".join(jd(e) for e in results[i]) + "\n", "binary.txt": "drv_s_wsclose",
                                                           "case.json": next((e for e in results[i] if e["e"] == "Case"), {}),
                                                           "why.txt": "deviation %s %s under schedule\n" % (act, jd(args))})
        ck.classify(sig, "deviation %s %s in a racing schedule %s" % (act, jd(args), jd(xs[i].info)[:200]), rp)
    for (i, why) in rejected[:4]:
        case = next((e for e in results[i] if e["e"] == "Case"), {})
        # re-run exactly this schedule
        outp2 = os.path.join(ck.work, "race_rerun.ndjson")
        rc, out = vf.run_driver("drv_s_wsclose", ["replay", jd(case), outp2], timeout=300)
        ev2 = vf.read_ndjson(outp2) if rc == 0 and os.path.exists(outp2) else []
        r2 = [e for (_, e) in vf.split_executions(ev2)]
        rej2 = judge(ck, [xs[i]], r2, "race_rerunv")[0] if r2 else [(0, "re-run failed")]
        if not rej2:
            ck.note("race: a rejection did not repeat when its schedule was replayed (not reported): " + why[:200])
            continue
        rp = ck.save_replay("race_reject_%d" % i, {"trace.ndjson": "\n".join(jd(e) for e in results[i]) + "\n", "case.json": case,
                                                   "binary.txt": "drv_s_wsclose", "why.txt": why + "\n"})
        ck.violation("racing sends: %s — %s" % (jd(xs[i].info)[:300], why), rp)
    if results:
        ck.sample({"kind": "racing sends", "events": [jd(e)[:300] for e in results[0][:3]]})


def oracle_selftest(ck, sx, res_s, cx, res_c):
    """corrupt accepted recordings in the ways the property cares about: every corruption must be rejected"""
    import copy
    muts = []
    # a stream execution with >= 1 delivered message and a pong
    pick = None
    for x, evs in zip(sx, res_s):
        runs = [e for e in evs if e["e"] == "Run"]
        if x.profile == "shape" and runs and len(runs[0]["msgs"]) >= 1 and any(o["op"] == 10 for o in runs[0]["outs"]) and len(runs) >= 2:
            pick = (x, evs)
            break
    if pick is None:
        raise vf.Infra("self-test: no stream execution with a message and a pong")
    x, evs = pick

    def mutate(fn, label):
        e2 = copy.deepcopy(evs)
        k = next(i for i, e in enumerate(e2) if e["e"] == "Run")
        fn(e2[k])
        muts.append((label, e2))
    mutate(lambda e: e["msgs"].pop(), "message lost")
    mutate(lambda e: e["msgs"][0].update(h=(e["msgs"][0]["h"] + 1) % P), "message bytes differ")
    mutate(lambda e: e["msgs"][0].update(n=e["msgs"][0]["n"] + 1), "message length differs")
    mutate(lambda e: e["msgs"].append(dict(e["msgs"][0])), "message duplicated")
    mutate(lambda e: [o.update(h=(o["h"] + 1) % P) for o in e["outs"] if o["op"] == 10], "pong payload differs")
    mutate(lambda e: e.update(outs=[o for o in e["outs"] if o["op"] != 10]), "ping not answered")
    mutate(lambda e: e.update(thrown=True), "exception")
    mutate(lambda e: e.update(peak=Bpy(e["max"], e["maxseg"]) + 1), "buffer beyond the bound")
    mutate(lambda e: e["outs"].extend([{"op": 8, "fin": True, "n": 2, "h": 0, "m": e["ep"] == "c", "code": 1000},
                                       {"op": 1, "fin": True, "n": 1, "h": 98, "m": e["ep"] == "c", "code": 0}]), "data frame after close")
    mutate(lambda e: [o.update(m=not o["m"]) for o in e["outs"]], "wrong masking direction")
    # codec
    ci = next((i for i, x in enumerate(cx) if x.kind == "codec" and x.info["lc"] == "126" and x.info["op"] == 2
               and any(e["e"] == "Codec" for e in res_c[i])), None)
    if ci is None:
        raise vf.Infra("self-test: no executed codec case to corrupt")
    for label, fn in (("consumed differs", lambda e: e.update(consumed=e["consumed"] + 1)),
                      ("frame not equal", lambda e: e.update(eq=False)),
                      ("trailing bytes swallowed", lambda e: e.update(tconsumed=e["tconsumed"] + 3)),
                      ("a prefix is not incomplete", lambda e: e.update(pfxinc=e["pfxinc"] - 1)),
                      ("non-minimal encoding", lambda e: e.update(enc=64, wire=e["wire"] + 6)),
                      ("parse throws", lambda e: e.update(st="throw"))):
        e2 = copy.deepcopy(res_c[ci])
        k = next(i for i, e in enumerate(e2) if e["e"] == "Codec")
        fn(e2[k])
        muts.append(("codec: " + label, e2))
    paths = []
    for i, (label, e2) in enumerate(muts):
        p = os.path.join(ck.work, "selftest_%d.ndjson" % i)
        write_trace(p, [e2])
        paths.append(p)

    def go(p):
        return validate_chunk(ck, p, allow_dev=False)
    with cf.ThreadPoolExecutor(max_workers=8) as ex:
        outs = list(ex.map(go, paths))
    for (label, _), (v, devs) in zip(muts, outs):
        if v.accepted:
            raise vf.Infra("self-test: a recording corrupted by '%s' was accepted by WsFramingTrace" % label)
    ck.note("oracle self-test: %d corrupted recordings, all rejected" % len(muts))


def Bpy(mx, seg):
    return 8 * (mx + seg) + 262144


def replay(ck, path):
    """re-run one saved case against the current tree and re-validate it"""
    load_local_known(ck)
    binary = open(os.path.join(path, "binary.txt")).read().strip() if os.path.exists(os.path.join(path, "binary.txt")) else "drv_ws"
    ck.make(binary)
    if binary == "drv_s_wsclose":
        case = json.load(open(os.path.join(path, "case.json")))
        outp = os.path.join(ck.work, "replay.ndjson")
        rc, out = vf.run_driver(binary, ["replay", jd(case), outp], timeout=300)
        results = [e for (_, e) in vf.split_executions(vf.read_ndjson(outp))]
        xs = [Exec("race", [], case)]
    else:
        text = open(os.path.join(path, "cases.txt")).read()
        lines = [l for l in text.splitlines() if l and l not in ("X", "E")]
        xs = [Exec("replay", lines, None)]
        results = run_driver(ck, binary, xs, "replay", par=1)
    for e in results[0]:
        print(jd(e)[:1500])
    rej, dev = judge(ck, xs, results, "replay")
    seen = set()
    for (i, act, args) in dev:
        if jd([act, args]) not in seen:
            seen.add(jd([act, args]))
            ck.classify(signature(act, args), "deviation %s %s" % (act, jd(args)), path)
    for (i, why) in rej:
        ck.violation(why, path)
