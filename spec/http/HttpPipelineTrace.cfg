\* strict blocking configuration (no deviation accepted); checks/C16.py generates the two it uses:
\*   pass 1  Eval = TRUE,  DevAllowed = {}                       which executions does the property explain?
\*   pass 2  Eval = FALSE, DevAllowed = the known findings       the others: known deviation, or violation
SPECIFICATION Spec
CONSTANT DevAllowed = {}
CONSTANT Eval = FALSE
INVARIANT TraceChk
POSTCONDITION TracePost
CHECK_DEADLOCK FALSE
