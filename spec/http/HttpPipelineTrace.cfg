\* strict configuration (no deviation accepted); checks/C16.py generates the one with DevAllowed = the known findings
SPECIFICATION Spec
CONSTANT DevAllowed = {}
INVARIANT TraceChk
POSTCONDITION TracePost
CHECK_DEADLOCK FALSE
