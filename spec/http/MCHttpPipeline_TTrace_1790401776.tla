---- MODULE MCHttpPipeline_TTrace_1790401776 ----
EXTENDS Sequences, TLCExt, Toolbox, Naturals, TLC, MCHttpPipeline

_expression ==
    LET MCHttpPipeline_TEExpression == INSTANCE MCHttpPipeline_TEExpression
    IN MCHttpPipeline_TEExpression!expression
----

_trace ==
    LET MCHttpPipeline_TETrace == INSTANCE MCHttpPipeline_TETrace
    IN MCHttpPipeline_TETrace!trace
----

_inv ==
    ~(
        TLCGet("level") = Len(_TETrace)
        /\
        relOrder = (<<>>)
        /\
        closedBy = ({})
        /\
        nextIn = (1)
        /\
        finished = ({})
        /\
        headed = ({})
        /\
        sent = ({})
        /\
        running = ({})
        /\
        wire = (<<>>)
        /\
        ioStop = (TRUE)
        /\
        lock = (0)
        /\
        closed = (FALSE)
        /\
        pipe = (<<[k |-> "U", n |-> 2, close |-> FALSE]>>)
        /\
        ioClosed = (FALSE)
        /\
        queue = (<<>>)
    )
----

_init ==
    /\ headed = _TETrace[1].headed
    /\ ioClosed = _TETrace[1].ioClosed
    /\ relOrder = _TETrace[1].relOrder
    /\ closedBy = _TETrace[1].closedBy
    /\ wire = _TETrace[1].wire
    /\ running = _TETrace[1].running
    /\ nextIn = _TETrace[1].nextIn
    /\ finished = _TETrace[1].finished
    /\ lock = _TETrace[1].lock
    /\ pipe = _TETrace[1].pipe
    /\ ioStop = _TETrace[1].ioStop
    /\ queue = _TETrace[1].queue
    /\ sent = _TETrace[1].sent
    /\ closed = _TETrace[1].closed
----

_next ==
    /\ \E i,j \in DOMAIN _TETrace:
        /\ \/ /\ j = i + 1
              /\ i = TLCGet("level")
        /\ headed  = _TETrace[i].headed
        /\ headed' = _TETrace[j].headed
        /\ ioClosed  = _TETrace[i].ioClosed
        /\ ioClosed' = _TETrace[j].ioClosed
        /\ relOrder  = _TETrace[i].relOrder
        /\ relOrder' = _TETrace[j].relOrder
        /\ closedBy  = _TETrace[i].closedBy
        /\ closedBy' = _TETrace[j].closedBy
        /\ wire  = _TETrace[i].wire
        /\ wire' = _TETrace[j].wire
        /\ running  = _TETrace[i].running
        /\ running' = _TETrace[j].running
        /\ nextIn  = _TETrace[i].nextIn
        /\ nextIn' = _TETrace[j].nextIn
        /\ finished  = _TETrace[i].finished
        /\ finished' = _TETrace[j].finished
        /\ lock  = _TETrace[i].lock
        /\ lock' = _TETrace[j].lock
        /\ pipe  = _TETrace[i].pipe
        /\ pipe' = _TETrace[j].pipe
        /\ ioStop  = _TETrace[i].ioStop
        /\ ioStop' = _TETrace[j].ioStop
        /\ queue  = _TETrace[i].queue
        /\ queue' = _TETrace[j].queue
        /\ sent  = _TETrace[i].sent
        /\ sent' = _TETrace[j].sent
        /\ closed  = _TETrace[i].closed
        /\ closed' = _TETrace[j].closed

\* Uncomment the ASSUME below to write the states of the error trace
\* to the given file in Json format. Note that you can pass any tuple
\* to `JsonSerialize`. For example, a sub-sequence of _TETrace.
    \* ASSUME
    \*     LET J == INSTANCE Json
    \*         IN J!JsonSerialize("MCHttpPipeline_TTrace_1790401776.json", _TETrace)

=============================================================================

 Note that you can extract this module `MCHttpPipeline_TEExpression`
  to a dedicated file to reuse `expression` (the module in the 
  dedicated `MCHttpPipeline_TEExpression.tla` file takes precedence 
  over the module `MCHttpPipeline_TEExpression` below).

---- MODULE MCHttpPipeline_TEExpression ----
EXTENDS Sequences, TLCExt, Toolbox, Naturals, TLC, MCHttpPipeline

expression == 
    [
        \* To hide variables of the `MCHttpPipeline` spec from the error trace,
        \* remove the variables below.  The trace will be written in the order
        \* of the fields of this record.
        headed |-> headed
        ,ioClosed |-> ioClosed
        ,relOrder |-> relOrder
        ,closedBy |-> closedBy
        ,wire |-> wire
        ,running |-> running
        ,nextIn |-> nextIn
        ,finished |-> finished
        ,lock |-> lock
        ,pipe |-> pipe
        ,ioStop |-> ioStop
        ,queue |-> queue
        ,sent |-> sent
        ,closed |-> closed
        
        \* Put additional constant-, state-, and action-level expressions here:
        \* ,_stateNumber |-> _TEPosition
        \* ,_headedUnchanged |-> headed = headed'
        
        \* Format the `headed` variable as Json value.
        \* ,_headedJson |->
        \*     LET J == INSTANCE Json
        \*     IN J!ToJson(headed)
        
        \* Lastly, you may build expressions over arbitrary sets of states by
        \* leveraging the _TETrace operator.  For example, this is how to
        \* count the number of times a spec variable changed up to the current
        \* state in the trace.
        \* ,_headedModCount |->
        \*     LET F[s \in DOMAIN _TETrace] ==
        \*         IF s = 1 THEN 0
        \*         ELSE IF _TETrace[s].headed # _TETrace[s-1].headed
        \*             THEN 1 + F[s-1] ELSE F[s-1]
        \*     IN F[_TEPosition - 1]
    ]

=============================================================================



Parsing and semantic processing can take forever if the trace below is long.
 In this case, it is advised to uncomment the module below to deserialize the
 trace from a generated binary file.

\*
\*---- MODULE MCHttpPipeline_TETrace ----
\*EXTENDS IOUtils, TLC, MCHttpPipeline
\*
\*trace == IODeserialize("MCHttpPipeline_TTrace_1790401776.bin", TRUE)
\*
\*=============================================================================
\*

---- MODULE MCHttpPipeline_TETrace ----
EXTENDS TLC, MCHttpPipeline

trace == 
    <<
    ([relOrder |-> <<>>,closedBy |-> {},nextIn |-> 1,finished |-> {},headed |-> {},sent |-> {},running |-> {},wire |-> <<>>,ioStop |-> FALSE,lock |-> 0,closed |-> FALSE,pipe |-> <<[k |-> "U", n |-> 2, close |-> FALSE]>>,ioClosed |-> FALSE,queue |-> <<>>]),
    ([relOrder |-> <<>>,closedBy |-> {},nextIn |-> 1,finished |-> {},headed |-> {},sent |-> {},running |-> {},wire |-> <<>>,ioStop |-> TRUE,lock |-> 0,closed |-> FALSE,pipe |-> <<[k |-> "U", n |-> 2, close |-> FALSE]>>,ioClosed |-> FALSE,queue |-> <<>>])
    >>
----


=============================================================================

---- CONFIG MCHttpPipeline_TTrace_1790401776 ----
CONSTANTS
    Variants <- MCVariants
    MaxLen = 2
    Workers = 3
    Dev_CompletionOrder = FALSE
    Dev_BadFramingWaits = TRUE
    Dev_SplitSendUnlocked = FALSE
    Dev_ExtractOnlyFirst = FALSE

INVARIANT
    _inv

CHECK_DEADLOCK
    \* CHECK_DEADLOCK off because of PROPERTY or INVARIANT above.
    FALSE

INIT
    _init

NEXT
    _next

CONSTANT
    _TETrace <- _trace

ALIAS
    _expression
=============================================================================
\* Generated on Sat Sep 26 05:49:37 UTC 2026