\* small stand-alone configuration (the check generates its own MC modules with larger alphabets)
SPECIFICATION Spec
CONSTANTS
  Callers <- MCCallers
  NReq = 2
  MethodSet <- MCMethods
  BudgetSet <- MCBudgets
  StepSet <- MCSteps
  LaterMethods <- MCMethods
  LaterSteps <- MCSteps
  OkTail <- MCOkTail
  MaxFaultKinds = 1
  ReuseCfg = TRUE
  AllowIdle = FALSE
  EmitCases = FALSE
  Dev_RetryNonIdempotent = FALSE
  Dev_RetryFraming = FALSE
  Dev_KeepAfterCloseSignal = FALSE
  Dev_KeepAfterSurplus = FALSE
  Dev_KeepAfterFailure = FALSE
  Dev_BudgetOffByOne = FALSE
  Dev_PossiblySentIsNotSent = FALSE
  Dev_CaseFoldMethod = FALSE
  Dev_NoRecvTimeout = FALSE
  Dev_ClampedBodyRead = FALSE
  Dev_IdleBytesKept = FALSE
  Dev_CloseLastOnly = FALSE
  Dev_LeaseWaitRestarts = FALSE
  LeaseTO = FALSE
  Stagger = FALSE
  Dev_ZeroLengthFastPath = FALSE
  ConnHdr <- MCConnHdr
  Dev_BackoffClampsAttempt = FALSE
INVARIANT AtMostOnce
INVARIANT AttemptBound
INVARIANT FramingNotRetried
INVARIANT NoReuse
INVARIANT OwnResponse
INVARIANT LeaseExclusive
INVARIANT LeaseWaitBounded
INVARIANT NoStuck
CHECK_DEADLOCK FALSE
