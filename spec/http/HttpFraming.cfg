\* exhaustive configuration used by checks/C15.py for the request side, quick tier (the check generates the other ones)
SPECIFICATION Spec
CONSTANTS
  Side = "req"
  MaxPipe = 2
  MaxCuts = 2
  Rich = FALSE
  Dev_ChunkPosWraps = FALSE
  Dev_ChunkedBodyNotDecoded = FALSE
  Dev_TrailerLeavesCrlf = FALSE
  Dev_LenientContentLength = FALSE
  Dev_BadChunkSizeWaitsForever = FALSE
  Dev_LenientChunkSize = FALSE
INVARIANT Exact
INVARIANT Complete
INVARIANT Terminates
INVARIANT Bounded
CHECK_DEADLOCK FALSE
