---------------------------- MODULE MCHttpRetry ----------------------------
(* small stand-alone configuration of HttpRetry (checks/C17.py generates larger ones) *)
EXTENDS HttpRetry
S(k, v, p) == [k |-> k, v |-> v, p |-> p]
MCCallers == {1}
MCMethods == {"GET", "POST", "get"}
MCBudgets == {0, 1, 2}
MCConnHdr == ("1~close,_X-Hop-Token" :> [ver |-> "1.1", toks |-> <<"close", "X-Hop-Token">>]) @@
             ("1~X-Close-Hint,_keep-alive" :> [ver |-> "1.1", toks |-> <<"X-Close-Hint", "keep-alive">>])
MCOkTail == {S("ok", "cl", "-")}
MCSteps == {S("ok", "cl", "-"), S("ok_connclose", "-", "-"), S("ok_surplus", "cl", "-"), S("ok_surplus", "cl0", "-"),
            S("ok_conn", "1~close,_X-Hop-Token", "-"), S("ok_conn", "1~X-Close-Hint,_keep-alive", "-"), S("ok_closedelim", "-", "-"),
            S("ok_then_fin", "-", "-"), S("ok_surplus", "cl", "h_bs"), S("ok_latesurplus", "cl", "h_b_s"), S("ok_idle", "stale", "-"), S("refused", "-", "-"), S("acc_rst", "-", "-"), S("send_fail", "-", "zero"),
            S("req_close", "-", "first"), S("full_close", "-", "-"), S("silence", "-", "-"),
            S("resp_close", "cl", "body"), S("bad", "cl_te", "-")}
=============================================================================
