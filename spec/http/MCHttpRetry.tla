---------------------------- MODULE MCHttpRetry ----------------------------
(* small stand-alone configuration of HttpRetry (checks/C17.py generates larger ones) *)
EXTENDS HttpRetry
S(k, v, p) == [k |-> k, v |-> v, p |-> p]
MCCallers == {1}
MCMethods == {"GET", "POST", "get"}
MCBudgets == {0, 1, 2}
MCOkTail == {S("ok", "cl", "-")}
MCSteps == {S("ok", "cl", "-"), S("ok_connclose", "-", "-"), S("ok_surplus", "cl", "-"), S("ok_closedelim", "-", "-"),
            S("ok_then_fin", "-", "-"), S("ok_surplus", "cl", "h_bs"), S("ok_latesurplus", "cl", "h_b_s"), S("ok_idle", "stale", "-"), S("refused", "-", "-"), S("acc_rst", "-", "-"), S("send_fail", "-", "zero"),
            S("req_close", "-", "first"), S("full_close", "-", "-"), S("silence", "-", "-"),
            S("resp_close", "cl", "body"), S("bad", "cl_te", "-")}
=============================================================================
