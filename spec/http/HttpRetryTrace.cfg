SPECIFICATION Spec
INVARIANT TraceChk
INVARIANT AtMostOnce
INVARIANT AttemptBound
INVARIANT FramingNotRetried
INVARIANT NoReuse
INVARIANT OwnResponse
INVARIANT LeaseBound
INVARIANT TimeBound
POSTCONDITION TracePost
CHECK_DEADLOCK FALSE
