------------------------------- MODULE HttpAbs -------------------------------
(* C15 - the Abs oracle: RFC 9112 section 6.3 message framing over a stream of LEXEMES.                    *)
(*                                                                                                        *)
(* A lexeme is a pair <<kind, arg>> (kind a string, arg a natural number).  The byte image of every        *)
(* lexeme is fixed by the rendering table of checks/C15.py; this module knows only what a lexeme MEANS.    *)
(*   start lines   <<"REQ", 10*id + m>>   m = 1 GET, 2 POST; target /m<id>; the image includes "Host: x"   *)
(*                 <<"RESP", status>>     status line of a response (1xx = interim)                        *)
(*   header fields <<"CL", n>>  Content-Length: n          <<"CLL", n>>  Content-Length: n, n  (valid list) *)
(*                 <<"CLX", 100*v + n>>   invalid Content-Length whose numeral still "looks like" n:       *)
(*                      v = 1 "<n>abc"  2 "+<n>"  3 "<n>, <n+1>"  4 "18446744073709551616"  5 ""  6 "-<n>"  *)
(*                 <<"CLBIG", 0>>         Content-Length larger than every configured cap                  *)
(*                 <<"TE", v>>   1 chunked  2 gzip, chunked  3 chunked, gzip  4 gzip  5 Chunked            *)
(*                 <<"CONN", 1>> Connection: close          <<"HDR", i>>  an ordinary field (i = 2: OWS)   *)
(*                 <<"EOH", 0>>  the empty line that ends the header section                               *)
(*   body          <<"DATA", d>> body octets  d = 1 "a", 2 "bc", 3 CR LF "0" CR LF CR LF (looks like an     *)
(*                               end of a chunked body)                                                    *)
(*                 <<"CSZ", 100*e + n>>  chunk-size line for n data octets; e = extension/spelling variant *)
(*                 <<"CSX", 100*v + n>>  invalid chunk-size line that still "looks like" n:                *)
(*                      v = 1 "zz"  2 "ffffffffffffffec" (fits 64 bits, wraps position arithmetic)          *)
(*                          3 "10000000000000000" (2^64)  4 ""  5 "0x<n>"  6 "-<n>"                         *)
(*                 <<"CEND", 0>> CRLF after chunk data      <<"CENDX", 0>> two other octets instead        *)
(*                 <<"LAST", e>> last-chunk                 <<"TRL", i>>   trailer field                   *)
(*                 <<"EOC", 0>>  the empty line that ends a chunked body                                   *)
(*   other         <<"EOF", 0>>  the peer closes            <<"FLOOD", 0>> more octets than any cap allows *)
(*                 <<"JUNK", i>> octets that are no HTTP at all                                            *)
(*   BIG lexemes   a lexeme is a few octets unless its argument says otherwise: <<"HDR", 10 + w>>,         *)
(*                 <<"TRL", 10 + w>>, <<"LAST", 10 + w>> and <<"CSZ", 100*(10 + w) + n>> are a header      *)
(*                 field, a trailer field, a last-chunk and a chunk-size line (for n data octets) whose    *)
(*                 value / chunk extension is so long that the image of the lexeme is w QUARTERS of the    *)
(*                 cap it counts against (w = 3: fits; w = 5: alone larger than the cap) - perfectly       *)
(*                 well-formed HTTP that carries almost no payload                                         *)
(*                                                                                                        *)
(* AbsOut(side, rm, s) is the sequence of OUTCOMES the application must see, whatever the segmentation:    *)
(*   [t |-> "msg", start, hdrs, trls, body]   handed over: start line, header lexemes, body data lexemes   *)
(*   [t |-> "msgopt", ...]  the same, but the recipient MAY also reject it (RFC 9112 6.3 rule 5: a Content-Length  *)
(*                       that is a list of / a repetition of one valid number; RFC 9112 7: a transfer coding the   *)
(*                       recipient need not implement before the final chunked).  Handed over exactly or rejected; *)
(*                       nothing is demanded for what follows it                                                   *)
(*   [t |-> "reject"]    invalid length information / over the cap: not handed over, nothing after it is,  *)
(*                       and the endpoint signals an error (status >= 400, a close, a framing exception)   *)
(*   [t |-> "over"]      (server) the message is larger than the buffer cap: the endpoint signals an error (a      *)
(*                       close); nothing else is demanded.  The server does not buffer the segment that would      *)
(*                       exceed the cap - it drops it and asks the transport to close - so it is BOUNDED whatever  *)
(*                       it does with segments that still arrive before the close is carried out                   *)
(*   [t |-> "stall"]     a size that is a valid number but can never be satisfied within the caps: not     *)
(*                       handed over, nothing after it; rejecting at once or waiting for the cap are both  *)
(*                       fine                                                                              *)
(*   [t |-> "any"]       the stream leaves HTTP here (malformed beyond what the property talks about):     *)
(*                       nothing is demanded from here on except termination / no exception / caps         *)
(* A stream that simply ends inside a message yields no outcome for that message (it is never handed over).*)
(* Readings taken (weaker where the statement is open):                                                    *)
(*   - Content-Length together with Transfer-Encoding is "conflicting length information" -> reject        *)
(*   - request whose Transfer-Encoding does not end in chunked has no determinable length -> reject;       *)
(*     response: close-delimited (RFC 9112 6.3 rule 4)                                                     *)
(*   - trailer fields may be dropped or merged into the header fields                                      *)
(*   - a wrong CRLF after chunk data (CENDX) is malformed but not "length information": outcome "any"      *)
(*   - BOUNDED ("can never make the endpoint buffer beyond its configured caps").  Both endpoints are      *)
(*     store-and-forward framers: a message is handed over only after all its octets sit in the receive    *)
(*     buffer (server: SessionInfo::buffer, client: the raw accumulation buffer of executeRequest).  Hence  *)
(*     EVERY octet of the message image counts against the cap, whatever it encodes - start line, header   *)
(*     fields, chunk-size lines and their extensions, chunk data, CRLFs, the trailer section - and a        *)
(*     message whose image is larger than the cap can only be handed over by buffering beyond the cap: it  *)
(*     must be answered with an error / a close and never handed over (outcome "reject"; on the server,    *)
(*     which has a path that DROPS input instead of buffering it, only the error is demanded: "over").     *)
(*     A message that                                                                                      *)
(*     stays within every cap is an ordinary valid message (outcome "msg").  Caps: the client has ONE cap  *)
(*     on the whole response (interim responses already discarded do not count); the server has a cap on   *)
(*     the head (request line + header fields, MAX_HEADER_SIZE) and a cap on everything buffered and not   *)
(*     yet dispatched (MAX_BUFFER_SIZE; the head is at most 1/16 of it and is neglected there).            *)
EXTENDS Naturals, Sequences, FiniteSets

Kind(x) == x[1]
Arg(x) == x[2]

DLen(d) == CASE d = 1 -> 1 [] d = 2 -> 2 [] d = 3 -> 7 [] OTHER -> 0

HdrKinds == {"CL", "CLL", "CLX", "CLBIG", "TE", "CONN", "HDR"}
ClKinds == {"CL", "CLL", "CLX", "CLBIG"}
\* field name class of a header lexeme (two lexemes of the same class occupy one entry of a single-valued map)
HName(x) == CASE Kind(x) \in ClKinds -> "content-length"
              [] Kind(x) = "TE" -> "transfer-encoding"
              [] Kind(x) = "CONN" -> "connection"
              [] Kind(x) = "HDR" -> (IF Arg(x) = 1 THEN "x-a" ELSE IF Arg(x) = 2 THEN "x-b" ELSE "x-big")
              [] Kind(x) = "TRL" -> (IF Arg(x) = 1 THEN "t" ELSE IF Arg(x) = 2 THEN "u" ELSE "t-big")
              [] OTHER -> "?"

\* ------------------------------------------------------------------ sizes and caps (in quarters of a cap)
BigBase == 10
CapQ == 4
Wt(x) == CASE Kind(x) \in {"HDR", "TRL", "LAST"} /\ Arg(x) >= BigBase -> Arg(x) - BigBase
           [] Kind(x) = "CSZ" /\ Arg(x) \div 100 >= BigBase -> (Arg(x) \div 100) - BigBase
           [] OTHER -> 0
RECURSIVE SumWt(_, _, _)
SumWt(s, a, b) == IF a > b THEN 0 ELSE Wt(s[a]) + SumWt(s, a + 1, b)
\* the message that starts at lexeme i, whose header section ends with lexeme he (0: not yet) and whose last lexeme so
\* far is `last`, is larger than a cap of the receiving side
HeadOver(s, i, he) == SumWt(s, i, he) > CapQ
OverCap(side, s, i, he, last) ==
    IF side = "resp" THEN SumWt(s, i, last) > CapQ
    ELSE IF he = 0 THEN FALSE
    ELSE HeadOver(s, i, he) \/ SumWt(s, he + 1, last) > CapQ

FinalChunked == {1, 2, 5}      \* TE variants whose final coding is chunked
MentionsChunked == {1, 2, 3, 5}
CsxHuge == {2}                 \* a valid 64-bit number, merely unsatisfiable

Dummy == <<"-", 0>>
Out(t, st, H, T, b) == [t |-> t, start |-> st, hdrs |-> H, trls |-> T, body |-> b]
Reject == Out("reject", Dummy, {}, {}, <<>>)
Stall == Out("stall", Dummy, {}, {}, <<>>)
OverOut == Out("over", Dummy, {}, {}, <<>>)
AnyOut == Out("any", Dummy, {}, {}, <<>>)
Msg(st, H, T, b) == Out("msg", st, H, T, b)

RangeOf(f) == {f[k] : k \in DOMAIN f}

\* ------------------------------------------------------------------ framing decision (RFC 9112 6.3, rule order)
ClValid(H) == {Arg(H[k]) : k \in {j \in DOMAIN H : Kind(H[j]) \in {"CL", "CLL"}}}
HasKind(H, K) == \E k \in DOMAIN H : Kind(H[k]) \in K
TeOf(H) == {Arg(H[k]) : k \in {j \in DOMAIN H : Kind(H[j]) = "TE"}}

Fr(m, n) == [m |-> m, n |-> n, opt |-> FALSE]
FrOpt(m, n) == [m |-> m, n |-> n, opt |-> TRUE]
\* the Content-Length part of the decision
ClFraming(H) ==
    IF HasKind(H, {"CLX", "CLBIG"}) \/ Cardinality(ClValid(H)) > 1 THEN Fr("reject", 0)
    ELSE IF HasKind(H, {"CLL"}) \/ Cardinality({k \in DOMAIN H : Kind(H[k]) \in ClKinds}) > 1
         THEN FrOpt("cl", CHOOSE n \in ClValid(H) : TRUE)
    ELSE Fr("cl", CHOOSE n \in ClValid(H) : TRUE)

Framing(side, rm, st, H) ==
    IF side = "resp" /\ Arg(st) >= 100 /\ Arg(st) < 200 THEN Fr("interim", 0)
    ELSE IF side = "resp" /\ (rm = "HEAD" \/ Arg(st) \in {204, 304}) THEN Fr("none", 0)
    ELSE IF HasKind(H, {"TE"}) /\ HasKind(H, ClKinds) THEN Fr("reject", 0)
    ELSE IF HasKind(H, {"TE"}) THEN
            (IF TeOf(H) \subseteq FinalChunked THEN (IF 2 \in TeOf(H) THEN FrOpt("chunked", 0) ELSE Fr("chunked", 0))
             ELSE IF side = "req" THEN Fr("reject", 0) ELSE Fr("close", 0))
    ELSE IF HasKind(H, ClKinds) THEN ClFraming(H)
    ELSE IF side = "req" THEN Fr("none", 0) ELSE Fr("close", 0)

\* ------------------------------------------------------------------ body scanners over lexemes
Res(r, next, body, trls) == [r |-> r, next |-> next, body |-> body, trls |-> trls]

\* exactly n octets of DATA lexemes starting at j, looking no further than lexeme `lim`
RECURSIVE TakeData(_, _, _, _, _)
TakeData(s, lim, j, n, acc) ==
    IF n = 0 THEN Res("done", j, acc, {})
    ELSE IF j > lim THEN Res("short", j, acc, {})
    ELSE IF Kind(s[j]) = "DATA" /\ DLen(Arg(s[j])) <= n
         THEN TakeData(s, lim, j + 1, n - DLen(Arg(s[j])), Append(acc, Arg(s[j])))
    ELSE IF Kind(s[j]) = "FLOOD" THEN Res("reject", j, acc, {})
    ELSE IF Kind(s[j]) = "EOF" THEN Res("short", j, acc, {})
    ELSE Res("any", j, acc, {})

RECURSIVE TakeTrailers(_, _, _, _, _)
TakeTrailers(s, lim, j, body, T) ==
    IF j > lim THEN Res("short", j, body, T)
    ELSE IF Kind(s[j]) = "TRL" THEN TakeTrailers(s, lim, j + 1, body, T \cup {s[j]})
    ELSE IF Kind(s[j]) = "EOC" THEN Res("done", j + 1, body, T)
    ELSE IF Kind(s[j]) = "FLOOD" THEN Res("reject", j, body, T)
    ELSE IF Kind(s[j]) = "EOF" THEN Res("short", j, body, T)
    ELSE Res("any", j, body, T)

RECURSIVE TakeChunks(_, _, _, _)
TakeChunks(s, lim, j, acc) ==
    IF j > lim THEN Res("short", j, acc, {})
    ELSE LET x == s[j] IN
         CASE Kind(x) = "CSZ" ->
                LET d == TakeData(s, lim, j + 1, Arg(x) % 100, acc) IN
                IF d.r # "done" THEN d
                ELSE IF d.next > lim THEN Res("short", d.next, d.body, {})
                ELSE IF Kind(s[d.next]) = "CEND" THEN TakeChunks(s, lim, d.next + 1, d.body)
                ELSE IF Kind(s[d.next]) = "EOF" THEN Res("short", d.next, d.body, {})
                ELSE Res("any", d.next, d.body, {})
           [] Kind(x) = "CSX" -> IF (Arg(x) \div 100) \in CsxHuge THEN Res("stall", j, acc, {})
                                 ELSE Res("reject", j, acc, {})
           [] Kind(x) = "LAST" -> TakeTrailers(s, lim, j + 1, acc, {})
           [] Kind(x) = "FLOOD" -> Res("reject", j, acc, {})
           [] Kind(x) = "EOF" -> Res("short", j, acc, {})
           [] OTHER -> Res("any", j, acc, {})

\* close-delimited: every DATA lexeme up to the peer's close
RECURSIVE TakeToEof(_, _, _, _)
TakeToEof(s, lim, j, acc) ==
    IF j > lim THEN Res("short", j, acc, {})
    ELSE IF Kind(s[j]) = "DATA" THEN TakeToEof(s, lim, j + 1, Append(acc, Arg(s[j])))
    ELSE IF Kind(s[j]) = "EOF" THEN Res("done", j, acc, {})
    ELSE IF Kind(s[j]) = "FLOOD" THEN Res("reject", j, acc, {})
    ELSE Res("any", j, acc, {})

\* first EOH at or after i (0: none); first lexeme in i..lim that is not a header field
HdrEnd(s, lim, i) == LET E == {j \in i..lim : Kind(s[j]) = "EOH"} IN
                     IF E = {} THEN 0 ELSE CHOOSE j \in E : \A k \in E : j <= k
StartKind(side) == IF side = "req" THEN "REQ" ELSE "RESP"

BodyOf(side, rm, s, lim, st, H, j) ==
    LET f == Framing(side, rm, st, H) IN
    CASE f.m = "interim" -> Res("interim", j, <<>>, {})
      [] f.m = "reject" -> Res("reject", j, <<>>, {})
      [] f.m = "none" -> Res("done", j, <<>>, {})
      [] f.m = "cl" -> TakeData(s, lim, j, f.n, <<>>)
      [] f.m = "chunked" -> TakeChunks(s, lim, j, <<>>)
      [] f.m = "close" -> TakeToEof(s, lim, j, <<>>)

\* the outcomes of the lexemes 1..lim of s, starting at lexeme i
RECURSIVE Parse(_, _, _, _, _, _)
Parse(side, rm, s, lim, i, acc) ==
    IF i > lim \/ Kind(s[i]) = "EOF" THEN acc
    ELSE IF Kind(s[i]) # StartKind(side) THEN Append(acc, AnyOut)
    ELSE LET he == HdrEnd(s, lim, i + 1) IN
         IF he = 0 THEN (IF (\E j \in (i + 1)..lim : Kind(s[j]) = "FLOOD") \/ OverCap(side, s, i, 0, lim)
                         THEN Append(acc, Reject) ELSE acc)
         ELSE LET H == SubSeq(s, i + 1, he - 1) IN
              IF \E k \in DOMAIN H : Kind(H[k]) = "FLOOD" THEN Append(acc, Reject)
              ELSE IF \E k \in DOMAIN H : Kind(H[k]) \notin HdrKinds THEN Append(acc, AnyOut)
              ELSE IF HeadOver(s, i, he) THEN Append(acc, Reject)
              ELSE LET b0 == BodyOf(side, rm, s, lim, s[i], H, he + 1)
                       \* a complete message larger than the cap, an incomplete one that already is: over the cap
                       over == \/ b0.r = "done" /\ OverCap(side, s, i, he, b0.next - 1)
                               \/ b0.r = "short" /\ OverCap(side, s, i, he, lim)
                       b == IF over THEN Res(IF side = "req" THEN "over" ELSE "reject", b0.next, <<>>, {}) ELSE b0 IN
                   CASE b.r = "interim" -> Parse(side, rm, s, lim, he + 1, acc)
                     [] b.r = "done" -> IF Framing(side, rm, s[i], H).opt THEN Append(acc, Out("msgopt", s[i], RangeOf(H), b.trls, b.body))
                                        ELSE IF side = "resp" THEN Append(acc, Msg(s[i], RangeOf(H), b.trls, b.body))
                                        ELSE Parse(side, rm, s, lim, b.next, Append(acc, Msg(s[i], RangeOf(H), b.trls, b.body)))
                     [] b.r = "short" -> acc
                     [] b.r = "reject" -> Append(acc, Reject)
                     [] b.r = "stall" -> Append(acc, Stall)
                     [] b.r = "over" -> Append(acc, OverOut)
                     [] OTHER -> Append(acc, AnyOut)

AbsOut(side, rm, s) == Parse(side, rm, s, Len(s), 1, <<>>)

\* ------------------------------------------------------------------ comparing what was handed over with Abs
\* the header lexemes the application may report for a handed-over message: all header fields, optionally trailers
HdrsOk(o, seen) == o.hdrs \subseteq seen /\ seen \subseteq (o.hdrs \cup o.trls)
NamesOf(S) == {HName(x) : x \in S}
IsTerminal(o) == o.t \in {"reject", "stall", "any", "msgopt", "over"}
MsgsOf(E) == SelectSeq(E, LAMBDA o : o.t = "msg")
LastT(E) == IF E = <<>> THEN "msg" ELSE E[Len(E)].t
==============================================================================
