------------------------------ MODULE HttpRetry ------------------------------
(* C17 - Impl specification of iora::network::HttpClient's retry loop, connection cache and per-host lease           *)
(* (include/iora/network/http_client.hpp performRequest / executeRequest / acquireConnection / dropConnection).       *)
(*                                                                                                                    *)
(* One logical request = performRequest(method, url, body, headers, budget).  Per attempt (executeRequest):           *)
(*   AcquireLease -> CacheLookup {Reuse | EvictIdle | miss} -> Connect{ok, refused, timeout, closed-at-accept}         *)
(*   -> SetSyncMode -> Send (the scripted peer's step decides how many request bytes are seen on the wire)            *)
(*   -> Receive (cut / stall / malformed / success variants) -> [Classify: err in {NotSent, Framing, Other}]          *)
(*   -> RetryDecision {give up | Backoff}.   The lease is released whenever executeRequest is left.                   *)
(* The environment (peer) is the fault alphabet StepSet: one record [k, v, p] (kind, variant, position class) per     *)
(* server-visible attempt.  The specification is used in two roles:                                                    *)
(*   1. model checking: the property as invariants over all (method, budget, fault, position class) combinations,     *)
(*      request sequences on a kept-alive connection and two callers sharing the client;                              *)
(*   2. generator: every terminal state carries the case (script) that led to it together with the outcome the model  *)
(*      predicts; Emit prints it, the check turns it into a fault script for the scripted server of drv_httpretry.    *)
(* Known deviations are Dev_* constants (all FALSE: the design the code is meant to follow).                          *)
EXTENDS Integers, Sequences, FiniteSets, TLC, Json

CONSTANTS Callers,        \* {1}: one thread; {1, 2}: two threads sharing one client (same host:port)
          NReq,           \* logical requests per caller
          MethodSet, BudgetSet,
          StepSet,        \* fault alphabet (records [k, v, p])
          LaterMethods, LaterSteps,  \* methods / steps of the 2nd, 3rd request of a caller (subsets of MethodSet / StepSet)
          OkTail,         \* success steps allowed after a fault within one logical request
          MaxFaultKinds,  \* distinct non-success steps within one logical request
          ReuseCfg,       \* Config::reuseConnections
          AllowIdle,      \* a caller may sleep longer than connectionIdleTimeout before a request
          EmitCases,      \* TRUE: print every terminal case (generator role)
          ConnHdr,        \* spellings of the Connection field of a success response (kind ok_conn): variant name ->
                          \* [ver |-> "1.0" | "1.1", toks |-> the list elements as sent (sequence of strings)]
          Dev_RetryNonIdempotent,   \* retry loop ignores the method class
          Dev_RetryFraming,         \* framing errors fall into the generic retry branch
          Dev_KeepAfterCloseSignal, \* responseRequestsClose ignored
          Dev_KeepAfterSurplus,     \* forceEvict ignored
          Dev_KeepAfterFailure,     \* no dropConnection on a failed exchange
          Dev_BudgetOffByOne,       \* attempt > retries instead of attempt >= retries
          Dev_PossiblySentIsNotSent,\* a failure after the pre-send region is classified NotSent
          Dev_CaseFoldMethod,       \* method classified case-insensitively
          Dev_NoRecvTimeout,        \* receive waits for ever on a silent peer
          Dev_ClampedBodyRead,      \* once the headers are parsed the receive size is clamped to the missing Content-Length
                                    \* bytes: surplus that arrives after the header block is never pulled in (no forceEvict)
          Dev_BackoffClampsAttempt, \* the attempt counter is clamped (min(attempt + 1, 4), "cap the back-off") although it is
                                    \* also compared with the budget: for budgets >= 5 the loop never gives up
          LeaseTO,        \* Config::leaseAcquireTimeout > 0 (and shorter than requestTimeout): a wait for the lease times out
          Stagger,        \* caller c > 1 starts once caller c - 1 has sent its request (or has finished): the driver's order
          Dev_LeaseWaitRestarts,    \* the lease wait starts a fresh time-out at every wake-up of the shared condition variable
          Dev_CloseLastOnly,        \* only the LAST element of the Connection list is compared with close / keep-alive
          Dev_ZeroLengthFastPath,   \* a zero-length body completes the response before the surplus check
          Dev_IdleBytesKept         \* bytes that arrive on a cached connection stay buffered (connection left in Sync mode)

Idem(m) == m \in {"GET", "HEAD", "PUT", "DELETE", "OPTIONS", "TRACE"}
Fold(m) == IF m = "get" THEN "GET" ELSE m
RetryClass(m) == Idem(m) \/ (Dev_CaseFoldMethod /\ Idem(Fold(m)))

\* ------------------------------------------------------------------------------------------------ the peer's alphabet
HeadBad == {"cl_conflict", "obsfold", "badversion", "badstatus", "nocolon"}   \* header-syntax violations (no body framing)
Class(s) ==
  CASE s.k \in {"refused", "ctimeout"}                   -> "connfail"
    [] s.k \in {"acc_close", "acc_rst"}                  -> "accfail"
    [] s.k = "send_fail"                                 -> "sendfail"
    [] s.k \in {"req_close", "req_rst"}                  -> "reqcut"
    [] s.k \in {"full_close", "full_rst"}                -> "noresp"
    [] s.k \in {"silence", "resp_silence"}               -> "stall"
    [] s.k \in {"resp_close", "resp_rst"}                -> "respcut"
    [] s.k = "bad"                                       -> "malformed"
    [] OTHER                                             -> "success"
Applicable(m, s) ==
  /\ (m = "HEAD" /\ s.k \in {"resp_close", "resp_rst", "resp_silence", "ok_split"}) => (s.p \in {"status", "hdr", "last"} /\ s.v = "cl")
  /\ (m = "HEAD" /\ s.k = "bad") => s.v \in HeadBad
  /\ (m = "HEAD") => s.k # "ok_closedelim"
  /\ (m = "HEAD" /\ s.k \in {"ok", "ok_surplus"}) => (s.v = "cl" /\ s.p = "-")
  /\ (m = "HEAD") => s.k # "ok_latesurplus"
FreshOnly(s) == Class(s) \in {"connfail", "accfail", "sendfail"} \/ s.k \in {"send_short", "send_eagain"}
Stale == [k |-> "stale", v |-> "-", p |-> "-"]

VARIABLES pc, ri, meth, pre, bud, att, cur, fresh, stp, err, idle,  \* per caller
          unread, foreign,      \* connections holding bytes nobody consumed; ghost: such bytes were read as a response
          lease, cache, conns,                                 \* shared: the client's lease / cache, the connections
          atts, fk, steps, script,                             \* history: attempts of the current request, the case
          age, waited, total    \* time (only with LeaseTO): ticks of the current stall; of each lease wait (see Tick)
vars == <<age, waited, total, pc, ri, meth, pre, bud, unread, foreign, att, cur, fresh, stp, err, idle, lease, cache, conns, atts, fk, steps, script>>

None == [k |-> "-", v |-> "-", p |-> "-"]
Init == /\ pc = [c \in Callers |-> "idle"] /\ ri = [c \in Callers |-> 1]
        /\ meth = [c \in Callers |-> "-"] /\ pre = [c \in Callers |-> 0] /\ unread = {} /\ foreign = FALSE /\ bud = [c \in Callers |-> 0] /\ att = [c \in Callers |-> 0]
        /\ cur = [c \in Callers |-> 0] /\ fresh = [c \in Callers |-> FALSE] /\ stp = [c \in Callers |-> None]
        /\ err = [c \in Callers |-> "none"] /\ idle = [c \in Callers |-> FALSE]
        /\ lease = 0 /\ cache = 0 /\ conns = <<>>
        /\ atts = [c \in Callers |-> <<>>] /\ fk = [c \in Callers |-> {}] /\ steps = [c \in Callers |-> <<>>]
        /\ script = [c \in Callers |-> <<>>]
        /\ age = 0 /\ waited = [c \in Callers |-> 0] /\ total = [c \in Callers |-> 0]

\* ------------------------------------------------------------------------------------------------ helpers
StepOK(c, s) == /\ Applicable(meth[c], s)
                /\ (ri[c] > 1) => s \in LaterSteps
                /\ IF Class(s) = "success" THEN fk[c] = {} \/ s \in OkTail
                   ELSE Cardinality(fk[c] \cup {s}) <= MaxFaultKinds
Note(c, s) == /\ steps' = [steps EXCEPT ![c] = Append(@, s)]
              /\ fk' = [fk EXCEPT ![c] = IF Class(s) = "success" THEN @ ELSE @ \cup {s}]
Attempt(c, conn, isFresh, visible, wire, e, unsent, taintAtUse) ==
  atts' = [atts EXCEPT ![c] = Append(@, [conn |-> conn, fresh |-> isFresh, visible |-> visible, wire |-> wire, err |-> e,
                                         unsent |-> unsent, taint |-> taintAtUse])]
\* executeRequest is left with an exception: the lease guard releases, the retry loop classifies
Fail(c, e) == /\ err' = [err EXCEPT ![c] = IF Dev_PossiblySentIsNotSent /\ e = "Other" THEN "NotSent" ELSE e]
              /\ pc' = [pc EXCEPT ![c] = "decide"] /\ lease' = 0
\* dropConnection: forget the cache entry if it is this connection
Dropped(n) == IF cache = n THEN 0 ELSE cache
KeepOnFailure(n) == IF Dev_KeepAfterFailure THEN cache ELSE Dropped(n)
SetConn(n, open, taint) == conns' = [conns EXCEPT ![n] = [open |-> open, taint |-> @.taint \cup taint]]

\* ------------------------------------------------------------------------------------------------ the caller
Start_(c) == /\ pc[c] = "idle" /\ ri[c] <= NReq
             /\ \E m \in (IF ri[c] = 1 THEN MethodSet ELSE LaterMethods), b \in BudgetSet, sl \in (IF AllowIdle /\ ri[c] > 1 THEN {FALSE, TRUE} ELSE {FALSE}) :
                  /\ meth' = [meth EXCEPT ![c] = m] /\ bud' = [bud EXCEPT ![c] = b] /\ idle' = [idle EXCEPT ![c] = sl]
                  /\ pre' = [pre EXCEPT ![c] = IF sl THEN 1 ELSE 0]
             /\ att' = [att EXCEPT ![c] = 0] /\ atts' = [atts EXCEPT ![c] = <<>>] /\ fk' = [fk EXCEPT ![c] = {}]
             /\ steps' = [steps EXCEPT ![c] = <<>>] /\ err' = [err EXCEPT ![c] = "none"]
             /\ pc' = [pc EXCEPT ![c] = "lease"]
             /\ UNCHANGED <<ri, cur, fresh, stp, lease, cache, conns, script, unread, foreign>>

AcquireLease_(c) == /\ pc[c] = "lease" /\ lease = 0
                    /\ lease' = c /\ pc' = [pc EXCEPT ![c] = "cache"]
                    /\ UNCHANGED <<ri, meth, pre, bud, unread, foreign, att, cur, fresh, stp, err, idle, cache, conns, atts, fk, steps, script>>

\* acquireConnection (1): reuse a cached, non-idle connection
Reuse_(c) == /\ pc[c] = "cache" /\ cache # 0 /\ ~idle[c]
             /\ cur' = [cur EXCEPT ![c] = cache] /\ fresh' = [fresh EXCEPT ![c] = FALSE]
             /\ pc' = [pc EXCEPT ![c] = "sync"]
             /\ UNCHANGED <<ri, meth, pre, bud, unread, foreign, att, stp, err, idle, lease, cache, conns, atts, fk, steps, script>>
EvictIdle_(c) == /\ pc[c] = "cache" /\ cache # 0 /\ idle[c]
                 /\ SetConn(cache, FALSE, {}) /\ cache' = 0 /\ idle' = [idle EXCEPT ![c] = FALSE]
                 /\ pc' = [pc EXCEPT ![c] = "connect"]
                 /\ UNCHANGED <<ri, meth, pre, bud, unread, foreign, att, cur, fresh, stp, err, lease, atts, fk, steps, script>>
Miss_(c) == /\ pc[c] = "cache" /\ cache = 0
            /\ idle' = [idle EXCEPT ![c] = FALSE] /\ pc' = [pc EXCEPT ![c] = "connect"]
            /\ UNCHANGED <<ri, meth, pre, bud, unread, foreign, att, cur, fresh, stp, err, lease, cache, conns, atts, fk, steps, script>>

NewConn == Len(conns) + 1
\* acquireConnection (3): connectSync fails (refused / timed out): pre-send region -> HttpRequestNotSentError
\* (the peer's step is chosen inside the action, behind the pc guard: TLC then has one action instance per caller, not
\* one per element of StepSet - the byte-offset sweep uses alphabets of ~1000 steps)
ConnectFails_(c) == /\ pc[c] = "connect" /\ \E s \in StepSet :
                       /\ StepOK(c, s) /\ Class(s) = "connfail"
                       /\ conns' = Append(conns, [open |-> FALSE, taint |-> {"failure"}])
                       /\ Note(c, s) /\ Attempt(c, NewConn, TRUE, TRUE, FALSE, "NotSent", TRUE, {})
                       /\ err' = [err EXCEPT ![c] = "NotSent"] /\ pc' = [pc EXCEPT ![c] = "decide"] /\ lease' = 0
                       /\ UNCHANGED <<ri, meth, pre, bud, unread, foreign, att, cur, fresh, stp, idle, cache, script>>
\* the peer closes / resets the connection right at accept and the engine notices it (HUP / SO_ERROR) while completing the
\* connect: connectSync fails, also NotSent (observed on the real client for both; which branch is taken is a race)
ConnectResetEarly_(c) == /\ pc[c] = "connect" /\ \E s \in StepSet :
                            /\ StepOK(c, s) /\ Class(s) = "accfail"
                            /\ conns' = Append(conns, [open |-> FALSE, taint |-> {"failure"}])
                            /\ Note(c, s) /\ Attempt(c, NewConn, TRUE, TRUE, FALSE, "NotSent", TRUE, {})
                            /\ err' = [err EXCEPT ![c] = "NotSent"] /\ pc' = [pc EXCEPT ![c] = "decide"] /\ lease' = 0
                            /\ UNCHANGED <<ri, meth, pre, bud, unread, foreign, att, cur, fresh, stp, idle, cache, script>>
\* acquireConnection (3)+(4): connected and published in the cache
ConnectOk_(c) == /\ pc[c] = "connect" /\ \E s \in StepSet :
                    /\ StepOK(c, s) /\ Class(s) # "connfail"
                    /\ conns' = Append(conns, [open |-> TRUE, taint |-> {}])
                    /\ cache' = NewConn /\ cur' = [cur EXCEPT ![c] = NewConn] /\ fresh' = [fresh EXCEPT ![c] = TRUE]
                    /\ stp' = [stp EXCEPT ![c] = s] /\ Note(c, s)
                    /\ pc' = [pc EXCEPT ![c] = "sync"]
                    /\ UNCHANGED <<ri, meth, pre, bud, unread, foreign, att, err, idle, lease, atts, script>>

\* setReadMode(Sync): succeeds for every session id (even one the engine has already closed)
SetSyncMode_(c) == /\ pc[c] = "sync" /\ pc' = [pc EXCEPT ![c] = "send"]
                   /\ UNCHANGED <<ri, meth, pre, bud, unread, foreign, att, cur, fresh, stp, err, idle, lease, cache, conns, atts, fk, steps, script>>

\* sendSync on a cached connection the peer has closed in the meantime: nothing reaches the peer; the failure shows
\* up in the receive loop and is NOT provably unsent
SendStale_(c) == /\ pc[c] = "send" /\ ~fresh[c] /\ ~conns[cur[c]].open
                 /\ Note(c, Stale) /\ Attempt(c, cur[c], FALSE, FALSE, FALSE, "Other", FALSE, conns[cur[c]].taint)
                 /\ SetConn(cur[c], FALSE, {"failure"}) /\ cache' = KeepOnFailure(cur[c])
                 /\ Fail(c, "Other")
                 /\ UNCHANGED <<ri, meth, pre, bud, unread, foreign, att, cur, fresh, stp, idle, script>>
\* a request arriving on a kept-alive connection: the peer picks its step now
PickCached_(c) == /\ pc[c] = "send" /\ ~fresh[c] /\ conns[cur[c]].open /\ stp[c] = None /\ \E s \in StepSet :
                     /\ StepOK(c, s) /\ ~FreshOnly(s)
                     /\ stp' = [stp EXCEPT ![c] = s] /\ Note(c, s)
                     /\ UNCHANGED <<pc, ri, meth, pre, bud, unread, foreign, att, cur, fresh, err, idle, lease, cache, conns, atts, script>>
\* the request is handed to the engine; what the peer's step lets through
Send_(c) == /\ pc[c] = "send" /\ stp[c] # None
            /\ LET s == stp[c]  n == cur[c]  t == conns[n].taint IN
               CASE Class(s) = "accfail"  -> /\ Attempt(c, n, fresh[c], TRUE, FALSE, "Other", FALSE, t)
                                             /\ SetConn(n, FALSE, {"failure"}) /\ cache' = KeepOnFailure(n) /\ Fail(c, "Other")
                                             /\ stp' = [stp EXCEPT ![c] = None] /\ UNCHANGED <<steps, fk>>
                 [] Class(s) = "sendfail" -> /\ Attempt(c, n, fresh[c], TRUE, s.p \notin {"zero", "#0"}, "Other", FALSE, t)
                                             /\ SetConn(n, FALSE, {"failure"}) /\ cache' = KeepOnFailure(n) /\ Fail(c, "Other")
                                             /\ stp' = [stp EXCEPT ![c] = None] /\ UNCHANGED <<steps, fk>>
                 [] Class(s) = "reqcut"   -> /\ Attempt(c, n, fresh[c], TRUE, TRUE, "Other", FALSE, t)
                                             /\ SetConn(n, FALSE, {"failure"}) /\ cache' = KeepOnFailure(n) /\ Fail(c, "Other")
                                             /\ stp' = [stp EXCEPT ![c] = None] /\ UNCHANGED <<steps, fk>>
                 [] OTHER                 -> /\ pc' = [pc EXCEPT ![c] = "recv"]
                                             /\ UNCHANGED <<err, lease, cache, conns, atts, stp, steps, fk>>
            \* bytes left over on the connection would be read as (the beginning of) this request's response
            /\ foreign' = (foreign \/ (Class(stp[c]) \notin {"accfail", "sendfail", "reqcut"} /\ cur[c] \in unread))
            /\ unread' = unread \ {cur[c]}
            /\ UNCHANGED <<ri, meth, pre, bud, att, cur, fresh, idle, script>>

\* receive loop: the response is cut, the peer stalls (receiveSync times out), the response is malformed, or complete
RecvFails_(c) == /\ pc[c] = "recv" /\ Class(stp[c]) \in {"noresp", "respcut", "stall", "malformed"}
                 /\ (Class(stp[c]) = "stall") => ~Dev_NoRecvTimeout
                 /\ LET s == stp[c]  n == cur[c]  cl == Class(s)
                        e == IF cl = "malformed" THEN "Framing" ELSE "Other"
                        open == cl \in {"stall", "malformed"}   \* the peer keeps these connections open
                    IN /\ Attempt(c, n, fresh[c], TRUE, TRUE, e, FALSE, conns[n].taint)
                       /\ SetConn(n, open, {"failure"}) /\ cache' = KeepOnFailure(n)
                       /\ IF e = "Framing" THEN /\ err' = [err EXCEPT ![c] = e] /\ pc' = [pc EXCEPT ![c] = "decide"] /\ lease' = 0
                                           ELSE Fail(c, e)
                 /\ stp' = [stp EXCEPT ![c] = None]
                 /\ UNCHANGED <<ri, meth, pre, bud, unread, foreign, att, cur, fresh, idle, fk, steps, script>>
\* The close signal of a response (RFC 9110 7.6.1, RFC 9112 9.3/9.6): Connection is a comma-separated list of
\* case-insensitive tokens (connection options next to the names of hop-by-hop fields), given in one field line or in
\* several; the response announces the close iff SOME element is "close" - wherever it stands in the list, whatever
\* its case and the white space around it - or, for HTTP/1.0, iff no element is "keep-alive".
LowerTok(t) == CASE t \in {"close", "Close", "CLOSE", "cLoSe"}             -> "close"
                 [] t \in {"keep-alive", "Keep-Alive", "KEEP-ALIVE"}        -> "keep-alive"
                 [] OTHER                                                   -> t
SignalsClose(h) == LET f == {LowerTok(h.toks[i]) : i \in DOMAIN h.toks}
                   IN "close" \in f \/ (h.ver = "1.0" /\ "keep-alive" \notin f)
SuccessTaint(s) == CASE s.k \in {"ok_connclose", "ok_http10"} -> {"close_signal"}
                     [] s.k = "ok_conn"                       -> IF SignalsClose(ConnHdr[s.v]) THEN {"close_signal"} ELSE {}
                     [] s.k = "ok_surplus"                    -> {"surplus"}
                     [] s.k = "ok_closedelim"                 -> {"close_delim"}
                     [] OTHER                                 -> {}
Seen(h) == IF Dev_CloseLastOnly /\ Len(h.toks) > 1 THEN [ver |-> h.ver, toks |-> <<h.toks[Len(h.toks)]>>] ELSE h
ZeroLength(s) == s.v \in {"cl0", "chunked0"}
Kept(s) == /\ ReuseCfg
           /\ \/ SuccessTaint(s) = {}
              \/ s.k = "ok_conn" /\ ~SignalsClose(Seen(ConnHdr[s.v]))
              \/ Dev_ZeroLengthFastPath /\ s.k = "ok_surplus" /\ ZeroLength(s)
              \/ Dev_KeepAfterCloseSignal /\ SuccessTaint(s) = {"close_signal"}
              \/ Dev_KeepAfterSurplus /\ SuccessTaint(s) = {"surplus"}
              \/ Dev_ClampedBodyRead /\ s.k = "ok_surplus" /\ s.v = "cl" /\ s.p \in {"h_bs", "hb_bs_s"}
RecvOk_(c) == /\ pc[c] = "recv" /\ Class(stp[c]) = "success"
              /\ LET s == stp[c]  n == cur[c]
                     open == s.k \notin {"ok_then_fin", "ok_closedelim"}   \* peer closed / half-closed afterwards
                 IN /\ Attempt(c, n, fresh[c], TRUE, TRUE, "none", FALSE, conns[n].taint)
                    /\ SetConn(n, open, SuccessTaint(s))
                    \* ok_latesurplus: the surplus comes in a segment of its own after the complete response; whether the
                    \* client still sees it before it completes the exchange is a race (weaker reading: no taint)
                    /\ IF s.k = "ok_latesurplus" /\ ReuseCfg THEN cache' \in {cache, Dropped(n)}
                       ELSE cache' = IF Kept(s) THEN cache ELSE Dropped(n)
                    \* ok_idle: bytes arrive while the connection sits in the cache; nobody reads them: they are discarded
                    /\ unread' = IF s.k = "ok_idle" /\ s.v = "stale" /\ Dev_IdleBytesKept /\ Kept(s) THEN unread \cup {n} ELSE unread
              /\ err' = [err EXCEPT ![c] = "none"] /\ pc' = [pc EXCEPT ![c] = "finish"] /\ lease' = 0
              /\ stp' = [stp EXCEPT ![c] = None]
              /\ UNCHANGED <<ri, meth, pre, bud, foreign, att, cur, fresh, idle, fk, steps, script>>

\* performRequest's catch blocks
GiveUp(c) == LET e == err[c] IN
             \/ (e = "Framing" /\ ~Dev_RetryFraming)
             \/ ~(RetryClass(meth[c]) \/ e = "NotSent" \/ Dev_RetryNonIdempotent)
             \/ (IF Dev_BudgetOffByOne THEN att[c] > bud[c] ELSE att[c] >= bud[c])
RetryDecision_(c) == /\ pc[c] = "decide"
                     /\ IF GiveUp(c) THEN pc' = [pc EXCEPT ![c] = "finish"] /\ UNCHANGED att
                        ELSE /\ pc' = [pc EXCEPT ![c] = "lease"]                                      \* Backoff
                             /\ att' = [att EXCEPT ![c] = IF Dev_BackoffClampsAttempt /\ @ + 1 > 4 THEN 4 ELSE @ + 1]
                     /\ UNCHANGED <<ri, meth, pre, bud, unread, foreign, cur, fresh, stp, err, idle, lease, cache, conns, atts, fk, steps, script>>

Result(c) == CASE err[c] = "none" -> "ok" [] err[c] = "Framing" -> "framing" [] err[c] = "NotSent" -> "notsent" [] OTHER -> "other"
Finish_(c) == /\ pc[c] = "finish"
              /\ script' = [script EXCEPT ![c] = Append(@, [m |-> meth[c], b |-> bud[c],
                               pre |-> pre[c],
                               steps |-> steps[c], res |-> Result(c),
                               \* what the model decides about each step's response (the scripted server announces a
                               \* taint exactly where the model sees one: the driver does not interpret header values)
                               tn |-> [i \in 1..Len(steps[c]) |-> SuccessTaint(steps[c][i])],
                               conns |-> [i \in 1..Len(atts[c]) |-> IF atts[c][i].visible THEN atts[c][i].conn ELSE 0]])]
              /\ ri' = [ri EXCEPT ![c] = @ + 1] /\ pc' = [pc EXCEPT ![c] = "idle"]
              /\ UNCHANGED <<meth, pre, bud, unread, foreign, att, cur, fresh, stp, err, idle, lease, cache, conns, atts, fk, steps>>

\* ------------------------------------------------------------------------------------------------ the lease wait in time
\* acquireLease waits on a condition variable shared by all hosts, with ONE deadline (leaseAcquireTimeout) for the whole
\* wait.  Time is abstracted to what the property needs, in ticks of leaseAcquireTimeout: a stall of the peer lasts
\* StallTicks (requestTimeout = StallTicks * leaseAcquireTimeout, then the receive time-out ends it), a waiter's deadline
\* is reached after one tick, everything else takes no time.  Time cannot pass a deadline (urgency: Tick is disabled while
\* a waiter has reached its deadline, or the stall its end).  waited = ticks since the wait's (current) deadline was set,
\* total = ticks since the wait began; they differ only when a wake-up (another host's release: notify_all) starts a
\* fresh time-out (Dev_LeaseWaitRestarts).
StallTicks == 2
LeaseTo == [k |-> "leaseto", v |-> "-", p |-> "-"]     \* marker in the case (like Stale): an attempt the server cannot see
Stalled(c) == pc[c] = "recv" /\ Class(stp[c]) = "stall"
\* (the time variables only move in Tick / Wakeup / LeaseTimeout, when a wait ends and when a receive begins or ends;
\* written without primed variables of the wrapped action: TLC evaluates ENABLED Next for NoStuck)
NoTime == UNCHANGED <<age, waited, total>>
Tick == /\ LeaseTO /\ \E h \in Callers : Stalled(h)
        /\ age < StallTicks /\ \A w \in Callers : pc[w] = "lease" => waited[w] < 1
        /\ age' = age + 1
        /\ waited' = [w \in Callers |-> IF pc[w] = "lease" THEN waited[w] + 1 ELSE waited[w]]
        /\ total' = [w \in Callers |-> IF pc[w] = "lease" THEN total[w] + 1 ELSE total[w]]
        /\ UNCHANGED <<pc, ri, meth, pre, bud, unread, foreign, att, cur, fresh, stp, err, idle, lease, cache, conns, atts, fk, steps, script>>
Wakeup(c) == /\ Dev_LeaseWaitRestarts /\ pc[c] = "lease" /\ waited[c] > 0
             /\ waited' = [waited EXCEPT ![c] = 0]
             /\ UNCHANGED <<age, total, pc, ri, meth, pre, bud, unread, foreign, att, cur, fresh, stp, err, idle, lease, cache, conns, atts, fk, steps, script>>
\* the wait for the lease times out: std::runtime_error thrown by acquireLease BEFORE the pre-send wrap (not NotSent:
\* a non-idempotent request is not retried, an idempotent one is, within its budget); nothing was put on the wire
LeaseTimeout(c) == /\ LeaseTO /\ pc[c] = "lease" /\ lease # 0 /\ waited[c] >= 1
                   /\ Note(c, LeaseTo) /\ Attempt(c, 0, TRUE, FALSE, FALSE, "Other", TRUE, {})
                   /\ err' = [err EXCEPT ![c] = "Other"] /\ pc' = [pc EXCEPT ![c] = "decide"]
                   /\ waited' = [waited EXCEPT ![c] = 0] /\ total' = [total EXCEPT ![c] = 0] /\ UNCHANGED age
                   /\ UNCHANGED <<ri, meth, pre, bud, unread, foreign, att, cur, fresh, stp, idle, lease, cache, conns, script>>
StartOrder(c) == (Stagger /\ c > 1) => (pc[c - 1] = "recv" \/ (pc[c - 1] = "idle" /\ ri[c - 1] > NReq))
Start(c) == StartOrder(c) /\ Start_(c) /\ NoTime
AcquireLease(c) == AcquireLease_(c) /\ waited' = [waited EXCEPT ![c] = 0] /\ total' = [total EXCEPT ![c] = 0] /\ UNCHANGED age
Reuse(c) == Reuse_(c) /\ NoTime
EvictIdle(c) == EvictIdle_(c) /\ NoTime
Miss(c) == Miss_(c) /\ NoTime
ConnectFails(c) == ConnectFails_(c) /\ NoTime
ConnectResetEarly(c) == ConnectResetEarly_(c) /\ NoTime
ConnectOk(c) == ConnectOk_(c) /\ NoTime
SetSyncMode(c) == SetSyncMode_(c) /\ NoTime
SendStale(c) == SendStale_(c) /\ NoTime
PickCached(c) == PickCached_(c) /\ NoTime
Send(c) == Send_(c) /\ age' = 0 /\ UNCHANGED <<waited, total>>
RecvFails(c) == ((Stalled(c) /\ LeaseTO) => age = StallTicks) /\ RecvFails_(c) /\ age' = 0 /\ UNCHANGED <<waited, total>>
RecvOk(c) == RecvOk_(c) /\ age' = 0 /\ UNCHANGED <<waited, total>>
RetryDecision(c) == RetryDecision_(c) /\ NoTime
Finish(c) == Finish_(c) /\ NoTime

Step(c) == \/ LeaseTimeout(c) \/ Wakeup(c)
          \/ Start(c) \/ AcquireLease(c) \/ Reuse(c) \/ EvictIdle(c) \/ Miss(c)
          \/ ConnectFails(c) \/ ConnectResetEarly(c) \/ ConnectOk(c) \/ PickCached(c)
          \/ SetSyncMode(c) \/ SendStale(c) \/ Send(c) \/ RecvFails(c) \/ RecvOk(c) \/ RetryDecision(c) \/ Finish(c)
Next == Tick \/ \E c \in Callers : Step(c)
Spec == Init /\ [][Next]_vars

\* ------------------------------------------------------------------------------------------------ the property
\* non-idempotent: at most one attempt puts a byte on the wire, and every earlier attempt provably failed unsent
AtMostOnce == \A c \in Callers : ~Idem(meth[c]) =>
                 /\ Cardinality({i \in DOMAIN atts[c] : atts[c][i].wire}) <= 1
                 /\ \A i \in 1..(Len(atts[c]) - 1) : atts[c][i].unsent
\* at most budget + 1 attempts (stated for idempotent methods; the design gives it for every method)
AttemptBound == \A c \in Callers : Len(atts[c]) <= bud[c] + 1
\* a deterministic framing error ends the logical request
FramingNotRetried == \A c \in Callers : \A i \in 1..(Len(atts[c]) - 1) : atts[c][i].err # "Framing"
\* a connection that saw a failure, a close signal, surplus bytes or a close-delimited body is never used again
NoReuse == \A c \in Callers : \A i \in DOMAIN atts[c] : ~atts[c][i].fresh => atts[c][i].taint = {}
\* weaker reading for bytes that arrive while a connection is idle (the client cannot know): they are never taken as
\* (part of) the response to the next request
OwnResponse == ~foreign
\* the lease: one exchange at a time
LeaseExclusive == Cardinality({c \in Callers : pc[c] \in {"cache", "connect", "sync", "send", "recv"}}) <= 1
                  /\ \A c \in Callers : pc[c] \in {"cache", "connect", "sync", "send", "recv"} => lease = c
\* a configured lease time-out bounds the wait for the lease: no wait lasts longer than leaseAcquireTimeout (one tick)
LeaseWaitBounded == \A c \in Callers : total[c] <= 1
\* every attempt ends: nobody waits for ever (a silent peer ends in a receive timeout)
Terminal == \A c \in Callers : pc[c] = "idle" /\ ri[c] = NReq + 1
NoStuck == ~Terminal => ENABLED Next

\* generator role: the case and the outcome the model predicts for it
Emit == (EmitCases /\ Terminal) => PrintT(ToJson(script))
===============================================================================
