----------------------------- MODULE HttpPipeline -----------------------------
(* C16 - one persistent connection of HttpServer: requests extracted in order by the I/O thread, handlers    *)
(* running on a worker pool, responses and closes entering the connection's command queue.                   *)
(*                                                                                                          *)
(* A request is a record [k, n, close]:                                                                      *)
(*   k = "G" GET handler with set_content(n octets)   "H" HEAD on that route        "P" POST echo (CL body)    *)
(*       "C" POST echo, chunked request body          "T" handler throws            "R" raw body + manual CL   *)
(*       "S204" / "S304" GET handler that sets content (n octets) and then picks the bodiless status 204 / 304;  *)
(*       "HS204" / "HS304" HEAD on those routes                                                              *)
(*       "L" GET handler with a LARGE body (n KiB: 64, 1024, 4096) - too large for one write step            *)
(*       "N" no route (404)   "M" method not allowed (405)   "O" OPTIONS (204, no body, no Content-Length)    *)
(*       "B" request line / header section that cannot be parsed (400/501/505 + close, decided by the worker) *)
(*       "U" message length that cannot be decided (bad chunk size, bad Content-Length, CL+TE: the I/O thread *)
(*           gives the connection up)                                                                        *)
(*   sp = how the request spells its Connection field (field values are case-insensitive token lists, RFC     *)
(*        9110 7.6.1): 0 none, 1 close, 2 Close, 3 CLOSE, 4 cLoSe, 5 "keep-alive, Close", 6 close surrounded by *)
(*        white space, 7 Keep-Alive, 8 keep-alive.  close = the request asks for the connection to be closed =  *)
(*        its Connection field contains the token close in ANY of these spellings (CloseSpellings)             *)
(* Impl actions: IoExtract (handleIncomingData loop, one request per step: dispatch to the pool, or give up), *)
(* Start (a worker takes the oldest task), Finish (the handler returns - gated handlers return when the       *)
(* harness / the environment lets them, in ANY order), Send (one send command = one whole response, atomic    *)
(* with respect to other responses), Close (the close command of a closing request, a separate step).         *)
(* A response is a sequence of >= 1 write steps inside ONE critical section (the send lock): small responses  *)
(* are one step, large ones two (SendHead, SendBody); a handler may return while a large response is between *)
(* its steps (exported as a negative entry of the return order: the harness then lets that handler return as *)
(* soon as the first octets of the large response are on the wire).  Dev_SplitSendUnlocked = TRUE: head and  *)
(* body are two separate critical sections - another response can land between them (NoInterleave).          *)
(* Dev_ExtractOnlyFirst = TRUE: of several complete requests that arrive in one segment only the first is    *)
(* extracted, the others wait in the session buffer for bytes that never come (AllAnswered).                 *)
(* Dev_CloseDropsQueued = TRUE: the close command discards what is still queued for writing - a large         *)
(* response that was the last thing sent is cut inside its body (Transport::close is abortive; F-16c).        *)
(* Dev_CompletionOrder = TRUE is the code as it was when this check was written (F-16a): a worker sends as    *)
(* soon as its handler returns.  FALSE is the design the property describes: the responses of one connection  *)
(* are sequenced.  Dev_BadFramingWaits = TRUE: an undecidable length is "need more data" for ever (F-15e).    *)
(* The terminal states of this specification are the CASES checks/C16.py runs on the real server:            *)
(* (pipeline, cuts, order in which the gated handlers return).                                               *)
(*                                                                                                          *)
(* Round 3 - the alphabet: tr = number of trailer fields after the last chunk of a chunked request ("C": 0..3; a *)
(* trailer section ends at the first EMPTY line, RFC 9112 7.1.2 - the number of field lines before it changes    *)
(* nothing: the request is complete there and nothing of it is left behind).  HEAD on every kind of target:     *)
(*   "H" routed (the GET handler sets n octets)      "HD" NO route, the server has a DEFAULT handler that picks   *)
(*   404 and sets n octets ("D" = GET on that target) "HM" the path exists under another method only (405)       *)
(*   "HN" no route, no default handler (built-in 404)                                                            *)
(* a response to a HEAD request carries no body octets whichever path produced it (HeadNoBody).  The default     *)
(* handler is configuration of the server: a pipeline is run on ONE server, so "N"/"HN" (no default handler) and  *)
(* "D"/"HD" never share a pipeline.                                                                              *)
(* The connection: the octets of the pipeline reach the server in 1 + |cuts| SEGMENTS, with a pause before each  *)
(* further segment (Deliver is enabled when the I/O thread has consumed what it could).  A cut <<i, o>> lies in   *)
(* request i, o octets after the START of the CRLFCRLF that ends its header section (o = -1: inside the last      *)
(* header line, 0: just before the terminator, 1..3: INSIDE the terminator, 4: just after it = before the body / *)
(* the next request).  Request j can be extracted once every octet of it has been delivered - how the octets     *)
(* were cut into segments changes nothing else.  Dev_ScanResumeSkips = TRUE: the search for the terminator       *)
(* resumes behind the octets of the earlier segments, a terminator that straddles a cut is never found          *)
(* (AllAnswered).  Dev_OneTrailerOnly = TRUE: the end of a chunked request is taken to be behind its FIRST       *)
(* trailer field; what is left over ruins the rest of the stream (AllAnswered).  Dev_HeadBodyAfterHandler = TRUE: *)
(* the HEAD body strip is skipped when a user handler ran for an unrouted target (HeadNoBody).                   *)
EXTENDS Integers, Sequences, FiniteSets, TLC, Json

CONSTANTS Variants,      \* set of request records
          MaxLen,        \* requests per pipeline
          Workers,       \* worker threads available to this connection
          Dev_CompletionOrder, Dev_BadFramingWaits, Dev_SplitSendUnlocked, Dev_ExtractOnlyFirst, Dev_CloseDropsQueued,
          MaxCuts,       \* segment boundaries per pipeline (0: one write)
          CutOffsets,    \* subset of -1..4: positions relative to the start of the header terminator
          SameReqCuts,   \* TRUE: two cuts lie in the same request
          Dev_ScanResumeSkips, Dev_OneTrailerOnly, Dev_HeadBodyAfterHandler

VARIABLES pipe, nextIn, ioStop, ioClosed, queue, running, finished, sent, closedBy, wire, closed, relOrder,
          lock,        \* holder of the send lock (0: free)
          headed,      \* large responses whose head has been written and whose body has not
          cuts,        \* segment boundaries <<i, o>> (chosen with the pipeline, constant afterwards)
          delivered,   \* segments that have reached the server
          bodied       \* HEAD requests whose response was written WITH body octets
vars == <<pipe, nextIn, ioStop, ioClosed, queue, running, finished, sent, closedBy, wire, closed, relOrder, lock, headed, cuts, delivered, bodied>>
seg == <<cuts, delivered, bodied>>

Gated(r) == r.k \in {"G", "H", "P", "C", "T", "R", "L", "S204", "S304", "HS204", "HS304", "D", "HD"}
IsHead(r) == r.k \in {"H", "HS204", "HS304", "HD", "HM", "HN"}
HasBody(r) == r.k = "C" \/ (r.k = "P" /\ r.n > 0)
NeedsDefault(r) == r.k \in {"D", "HD"}
NeedsNoDefault(r) == r.k \in {"N", "HN"}
CloseSpellings == 1..6
ASSUME \A v \in Variants : v.close = (v.sp \in CloseSpellings)
Closing(r) == r.close \/ r.k \in {"B", "U"}
RespOptional(r) == r.k \in {"B", "U"}          \* "an error status or a closed connection"
Big(r) == r.k = "L"
N == Len(pipe)
RECURSIVE SeqsUpTo(_)
SeqsUpTo(n) == IF n = 0 THEN {<<>>} ELSE LET S == SeqsUpTo(n - 1) IN S \cup {Append(q, v) : q \in {x \in S : Len(x) = n - 1}, v \in Variants}

\* ---- segmentation
NC == Cardinality(cuts)
CutKey(c) == c[1] * 10 + c[2] + 1
CutAt(s) == CHOOSE c \in cuts : Cardinality({d \in cuts : CutKey(d) < CutKey(c)}) = s - 1
\* every octet of request j lies before the cut c
EndsBefore(j, c) == j < c[1] \/ (j = c[1] /\ c[2] = 4 /\ ~HasBody(pipe[j]))
Available(j) == IF delivered > NC THEN TRUE ELSE EndsBefore(j, CutAt(delivered))
SplitTerm(j) == \E c \in cuts : c[1] = j /\ c[2] \in 1..3
CutSets(p) == LET P == {<<i, o>> \in (1..Len(p)) \X CutOffsets :
                            /\ p[i].k # "U"                                             \* no cut inside an undecidable message
                            /\ ~(i = Len(p) /\ o = 4 /\ ~HasBody(p[i]))} IN             \* the end of the stream is no cut
              {S \in SUBSET P : Cardinality(S) <= MaxCuts /\ (SameReqCuts => \A a, b \in S : a[1] = b[1])}
OneServer(p) == ~((\E i \in 1..Len(p) : NeedsDefault(p[i])) /\ (\E i \in 1..Len(p) : NeedsNoDefault(p[i])))

Init == /\ pipe \in {p \in (SeqsUpTo(MaxLen) \ {<<>>}) : OneServer(p)}
        /\ cuts \in CutSets(pipe) /\ delivered = 1 /\ bodied = {}
        /\ nextIn = 1 /\ ioStop = FALSE /\ ioClosed = FALSE /\ queue = <<>> /\ running = {} /\ finished = {} /\ sent = {} /\ closedBy = {}
        /\ wire = <<>> /\ closed = FALSE /\ relOrder = <<>> /\ lock = 0 /\ headed = {}

\* handleIncomingData: the next complete request in the buffer (the whole pipeline arrived in one segment)
IoCan == /\ ~ioStop /\ nextIn <= N /\ Available(nextIn)
         /\ Dev_ExtractOnlyFirst => nextIn = 1
         /\ Dev_ScanResumeSkips => ~SplitTerm(nextIn)
IoExtract ==
    /\ IoCan
    /\ IF pipe[nextIn].k = "U"
       THEN ioStop' = TRUE /\ UNCHANGED <<queue, nextIn>>
       ELSE /\ queue' = Append(queue, nextIn) /\ nextIn' = nextIn + 1
            /\ ioStop' = (Dev_OneTrailerOnly /\ pipe[nextIn].k = "C" /\ pipe[nextIn].tr >= 2)
    /\ UNCHANGED <<pipe, ioClosed, running, finished, sent, closedBy, wire, closed, relOrder, lock, headed, seg>>

\* the next segment reaches the server, after a pause: the I/O thread has consumed what it could
Deliver == /\ delivered <= NC /\ ~IoCan
           /\ delivered' = delivered + 1
           /\ UNCHANGED <<pipe, nextIn, ioStop, ioClosed, queue, running, finished, sent, closedBy, wire, closed, relOrder, lock, headed, cuts, bodied>>

\* closeSession from the I/O thread for a message whose length cannot be decided.  The code closes at once; the
\* design the property describes lets the responses of the earlier requests out first
IoGiveUp ==
    /\ ioStop /\ ~ioClosed /\ ~Dev_BadFramingWaits
    /\ Dev_CompletionOrder \/ \A j \in 1..(nextIn - 1) : j \in sent /\ (Closing(pipe[j]) => j \in closedBy)
    /\ ioClosed' = TRUE /\ closed' = TRUE
    /\ UNCHANGED <<pipe, nextIn, ioStop, queue, running, finished, sent, closedBy, wire, relOrder, lock, headed, seg>>

Start == /\ queue # <<>> /\ Cardinality(running) < Workers
         /\ running' = running \cup {Head(queue)} /\ queue' = Tail(queue)
         /\ UNCHANGED <<pipe, nextIn, ioStop, ioClosed, finished, sent, closedBy, wire, closed, relOrder, lock, headed, seg>>

\* the handler (or the built-in 404/405/204/parse-error path) has produced its response object; a return while a
\* large response is between its write steps is recorded as a negative entry
Finish(i) == /\ i \in running /\ i \notin finished
             /\ finished' = finished \cup {i}
             /\ relOrder' = IF Gated(pipe[i]) THEN Append(relOrder, IF headed # {} THEN 0 - i ELSE i) ELSE relOrder
             /\ UNCHANGED <<pipe, nextIn, ioStop, ioClosed, queue, running, sent, closedBy, wire, closed, lock, headed, seg>>

\* sequenced design: response i may be written once every earlier request of the connection is completely done
EarlierDone(i) == \A j \in 1..(i - 1) : j \in sent /\ (Closing(pipe[j]) => j \in closedBy)
Put(x) == wire' = IF closed THEN wire ELSE Append(wire, x)          \* a send on a closed session is dropped
\* a response that fits one write step: one critical section
Send(i) == /\ i \in finished /\ i \notin sent /\ ~Big(pipe[i]) /\ lock = 0
           /\ Dev_CompletionOrder \/ EarlierDone(i)
           /\ sent' = sent \cup {i} /\ Put(<<i, "w">>)
           /\ bodied' = IF ~closed /\ Dev_HeadBodyAfterHandler /\ pipe[i].k = "HD" THEN bodied \cup {i} ELSE bodied
           /\ running' = IF Closing(pipe[i]) THEN running ELSE running \ {i}
           /\ UNCHANGED <<pipe, nextIn, ioStop, ioClosed, queue, finished, closedBy, closed, relOrder, lock, headed, cuts, delivered>>
\* a large response: two write steps.  The lock is kept between them - unless Dev_SplitSendUnlocked
SendHead(i) == /\ i \in finished /\ i \notin sent /\ i \notin headed /\ Big(pipe[i]) /\ lock = 0
               /\ Dev_CompletionOrder \/ EarlierDone(i)
               /\ headed' = headed \cup {i} /\ Put(<<i, "h">>)
               /\ lock' = IF Dev_SplitSendUnlocked THEN 0 ELSE i
               /\ UNCHANGED <<pipe, nextIn, ioStop, ioClosed, queue, running, finished, sent, closedBy, closed, relOrder, seg>>
SendBody(i) == /\ i \in headed /\ (lock = i \/ (Dev_SplitSendUnlocked /\ lock = 0))
               /\ headed' = headed \ {i} /\ sent' = sent \cup {i} /\ Put(<<i, "b">>) /\ lock' = 0
               /\ running' = IF Closing(pipe[i]) THEN running ELSE running \ {i}
               /\ UNCHANGED <<pipe, nextIn, ioStop, ioClosed, queue, finished, closedBy, closed, relOrder, seg>>

\* the close command that follows the response of a closing request (not atomic with the send)
\* (a large body that is the last thing on the wire may still be in the write queue: "t" = truncated body)
Close(i) == /\ i \in sent /\ Closing(pipe[i]) /\ i \notin closedBy
            /\ closedBy' = closedBy \cup {i} /\ closed' = TRUE /\ running' = running \ {i}
            /\ \/ UNCHANGED wire
               \/ /\ Dev_CloseDropsQueued /\ ~closed /\ wire # <<>> /\ wire[Len(wire)][2] = "b"
                  /\ wire' = [wire EXCEPT ![Len(wire)] = <<wire[Len(wire)][1], "t">>]
            /\ UNCHANGED <<pipe, nextIn, ioStop, ioClosed, queue, finished, sent, relOrder, lock, headed, seg>>

FinishStep == \E i \in 1..N : Finish(i)
SendStep == \E i \in 1..N : Send(i)
SendHeadStep == \E i \in 1..N : SendHead(i)
SendBodyStep == \E i \in 1..N : SendBody(i)
CloseStep == \E i \in 1..N : Close(i)
Next == IoExtract \/ Deliver \/ IoGiveUp \/ Start \/ FinishStep \/ SendStep \/ SendHeadStep \/ SendBodyStep \/ CloseStep
Spec == Init /\ [][Next]_vars

\* ============================================================================================ the property
Dispatched == 1..(nextIn - 1)
Quiescent == /\ (ioStop \/ nextIn > N \/ (Dev_ExtractOnlyFirst /\ nextIn > 1) \/ (Dev_ScanResumeSkips /\ SplitTerm(nextIn)))
             /\ delivered > NC
             /\ queue = <<>> /\ (ioStop => ioClosed \/ Dev_BadFramingWaits \/ Dev_OneTrailerOnly)
             /\ \A i \in Dispatched : i \in sent /\ (Closing(pipe[i]) => i \in closedBy)
FirstClosing == IF \E i \in 1..N : Closing(pipe[i]) THEN CHOOSE i \in 1..N : Closing(pipe[i]) /\ \A j \in 1..(i - 1) : ~Closing(pipe[j])
                ELSE N + 1
Upto(n) == [i \in 1..n |-> i]
IsPrefix(a, b) == Len(a) <= Len(b) /\ \A i \in 1..Len(a) : a[i] = b[i]
\* the requests whose response STARTS at each response start on the wire / whose response is complete
Starts == LET H == SelectSeq(wire, LAMBDA e : e[2] \in {"w", "h"}) IN [k \in 1..Len(H) |-> H[k][1]]
Completed == LET H == SelectSeq(wire, LAMBDA e : e[2] \in {"w", "b"}) IN [k \in 1..Len(H) |-> H[k][1]]
\* octets of different responses never interleave: a head is followed by its own body and by nothing else
NoInterleave == \A p \in 1..Len(wire) :
                   /\ (wire[p][2] = "h" /\ p < Len(wire)) => (wire[p + 1][1] = wire[p][1] /\ wire[p + 1][2] \in {"b", "t"})
                   /\ wire[p][2] \in {"b", "t"} => (p > 1 /\ wire[p - 1] = <<wire[p][1], "h">>)
\* responses are written in request order, each at most once, none after the response of the closing request
InOrder == IsPrefix(Starts, Upto(IF FirstClosing > N THEN N ELSE FirstClosing))
\* at the end every request up to the closing one has its response (the closing one may be answered by the close
\* alone if it could not be parsed), and a closing request has closed the connection: never silence, never a
\* complete request left waiting
AllAnswered == Quiescent =>
    LET c == FirstClosing IN
    IF c > N THEN Completed = Upto(N)
    ELSE /\ closed
         /\ Completed = Upto(c) \/ (RespOptional(pipe[c]) /\ Completed = Upto(c - 1))

\* responses to HEAD carry no body
HeadNoBody == \A i \in bodied : ~IsHead(pipe[i])

\* export of the cases: printed once per terminal state (the check removes duplicates)
ReqJson(r) == [k |-> r.k, n |-> r.n, close |-> r.close, sp |-> r.sp, tr |-> r.tr]
WantResp == LET c == FirstClosing IN IF c > N THEN N ELSE IF pipe[c].k = "U" THEN c - 1 ELSE c
CaseOut == Quiescent => PrintT(ToJson([pipe |-> [i \in 1..N |-> ReqJson(pipe[i])], order |-> relOrder,
                                       wantResp |-> WantResp, wantClose |-> (FirstClosing <= N),
                                       cuts |-> [s \in 1..NC |-> <<CutAt(s)[1], CutAt(s)[2]>>]]))
==============================================================================
