----------------------------- MODULE HttpPipeline -----------------------------
(* C16 - one persistent connection of HttpServer: requests extracted in order by the I/O thread, handlers    *)
(* running on a worker pool, responses and closes entering the connection's command queue.                   *)
(*                                                                                                          *)
(* A request is a record [k, n, close]:                                                                      *)
(*   k = "G" GET handler with set_content(n octets)   "H" HEAD on that route        "P" POST echo (CL body)    *)
(*       "C" POST echo, chunked request body          "T" handler throws            "R" raw body + manual CL   *)
(*       "S204" / "S304" GET handler that sets content (n octets) and then picks the bodiless status 204 / 304;  *)
(*       "HS204" / "HS304" HEAD on those routes                                                              *)
(*       "L" GET handler with a LARGE body (n KiB: 64, 1024, 4096) - too large for one write step            *)
(*       "N" no route (404)   "M" method not allowed (405)   "O" OPTIONS (204, no body, no Content-Length)    *)
(*       "B" request line / header section that cannot be parsed (400/501/505 + close, decided by the worker) *)
(*       "U" message length that cannot be decided (bad chunk size, bad Content-Length, CL+TE: the I/O thread *)
(*           gives the connection up)                                                                        *)
(*   sp = how the request spells its Connection field (field values are case-insensitive token lists, RFC     *)
(*        9110 7.6.1): 0 none, 1 close, 2 Close, 3 CLOSE, 4 cLoSe, 5 "keep-alive, Close", 6 close surrounded by *)
(*        white space, 7 Keep-Alive, 8 keep-alive.  close = the request asks for the connection to be closed =  *)
(*        its Connection field contains the token close in ANY of these spellings (CloseSpellings)             *)
(* Impl actions: IoExtract (handleIncomingData loop, one request per step: dispatch to the pool, or give up), *)
(* Start (a worker takes the oldest task), Finish (the handler returns - gated handlers return when the       *)
(* harness / the environment lets them, in ANY order), Send (one send command = one whole response, atomic    *)
(* with respect to other responses), Close (the close command of a closing request, a separate step).         *)
(* A response is a sequence of >= 1 write steps inside ONE critical section (the send lock): small responses  *)
(* are one step, large ones two (SendHead, SendBody); a handler may return while a large response is between *)
(* its steps (exported as a negative entry of the return order: the harness then lets that handler return as *)
(* soon as the first octets of the large response are on the wire).  Dev_SplitSendUnlocked = TRUE: head and  *)
(* body are two separate critical sections - another response can land between them (NoInterleave).          *)
(* Dev_ExtractOnlyFirst = TRUE: of several complete requests that arrive in one segment only the first is    *)
(* extracted, the others wait in the session buffer for bytes that never come (AllAnswered).                 *)
(* Dev_CloseDropsQueued = TRUE: the close command discards what is still queued for writing - a large         *)
(* response that was the last thing sent is cut inside its body (Transport::close is abortive; F-16c).        *)
(* Dev_CompletionOrder = TRUE is the code as it was when this check was written (F-16a): a worker sends as    *)
(* soon as its handler returns.  FALSE is the design the property describes: the responses of one connection  *)
(* are sequenced.  Dev_BadFramingWaits = TRUE: an undecidable length is "need more data" for ever (F-15e).    *)
(* The terminal states of this specification are the CASES checks/C16.py runs on the real server:            *)
(* (pipeline, order in which the gated handlers return).                                                     *)
EXTENDS Integers, Sequences, FiniteSets, TLC, Json

CONSTANTS Variants,      \* set of request records
          MaxLen,        \* requests per pipeline
          Workers,       \* worker threads available to this connection
          Dev_CompletionOrder, Dev_BadFramingWaits, Dev_SplitSendUnlocked, Dev_ExtractOnlyFirst, Dev_CloseDropsQueued

VARIABLES pipe, nextIn, ioStop, ioClosed, queue, running, finished, sent, closedBy, wire, closed, relOrder,
          lock,        \* holder of the send lock (0: free)
          headed       \* large responses whose head has been written and whose body has not
vars == <<pipe, nextIn, ioStop, ioClosed, queue, running, finished, sent, closedBy, wire, closed, relOrder, lock, headed>>

Gated(r) == r.k \in {"G", "H", "P", "C", "T", "R", "L", "S204", "S304", "HS204", "HS304"}
CloseSpellings == 1..6
ASSUME \A v \in Variants : v.close = (v.sp \in CloseSpellings)
Closing(r) == r.close \/ r.k \in {"B", "U"}
RespOptional(r) == r.k \in {"B", "U"}          \* "an error status or a closed connection"
Big(r) == r.k = "L"
N == Len(pipe)
RECURSIVE SeqsUpTo(_)
SeqsUpTo(n) == IF n = 0 THEN {<<>>} ELSE LET S == SeqsUpTo(n - 1) IN S \cup {Append(q, v) : q \in {x \in S : Len(x) = n - 1}, v \in Variants}

Init == /\ pipe \in (SeqsUpTo(MaxLen) \ {<<>>})
        /\ nextIn = 1 /\ ioStop = FALSE /\ ioClosed = FALSE /\ queue = <<>> /\ running = {} /\ finished = {} /\ sent = {} /\ closedBy = {}
        /\ wire = <<>> /\ closed = FALSE /\ relOrder = <<>> /\ lock = 0 /\ headed = {}

\* handleIncomingData: the next complete request in the buffer (the whole pipeline arrived in one segment)
IoExtract ==
    /\ ~ioStop /\ nextIn <= N
    /\ Dev_ExtractOnlyFirst => nextIn = 1
    /\ IF pipe[nextIn].k = "U"
       THEN ioStop' = TRUE /\ UNCHANGED <<queue, nextIn>>
       ELSE queue' = Append(queue, nextIn) /\ nextIn' = nextIn + 1 /\ UNCHANGED ioStop
    /\ UNCHANGED <<pipe, ioClosed, running, finished, sent, closedBy, wire, closed, relOrder, lock, headed>>

\* closeSession from the I/O thread for a message whose length cannot be decided.  The code closes at once; the
\* design the property describes lets the responses of the earlier requests out first
IoGiveUp ==
    /\ ioStop /\ ~ioClosed /\ ~Dev_BadFramingWaits
    /\ Dev_CompletionOrder \/ \A j \in 1..(nextIn - 1) : j \in sent /\ (Closing(pipe[j]) => j \in closedBy)
    /\ ioClosed' = TRUE /\ closed' = TRUE
    /\ UNCHANGED <<pipe, nextIn, ioStop, queue, running, finished, sent, closedBy, wire, relOrder, lock, headed>>

Start == /\ queue # <<>> /\ Cardinality(running) < Workers
         /\ running' = running \cup {Head(queue)} /\ queue' = Tail(queue)
         /\ UNCHANGED <<pipe, nextIn, ioStop, ioClosed, finished, sent, closedBy, wire, closed, relOrder, lock, headed>>

\* the handler (or the built-in 404/405/204/parse-error path) has produced its response object; a return while a
\* large response is between its write steps is recorded as a negative entry
Finish(i) == /\ i \in running /\ i \notin finished
             /\ finished' = finished \cup {i}
             /\ relOrder' = IF Gated(pipe[i]) THEN Append(relOrder, IF headed # {} THEN 0 - i ELSE i) ELSE relOrder
             /\ UNCHANGED <<pipe, nextIn, ioStop, ioClosed, queue, running, sent, closedBy, wire, closed, lock, headed>>

\* sequenced design: response i may be written once every earlier request of the connection is completely done
EarlierDone(i) == \A j \in 1..(i - 1) : j \in sent /\ (Closing(pipe[j]) => j \in closedBy)
Put(x) == wire' = IF closed THEN wire ELSE Append(wire, x)          \* a send on a closed session is dropped
\* a response that fits one write step: one critical section
Send(i) == /\ i \in finished /\ i \notin sent /\ ~Big(pipe[i]) /\ lock = 0
           /\ Dev_CompletionOrder \/ EarlierDone(i)
           /\ sent' = sent \cup {i} /\ Put(<<i, "w">>)
           /\ running' = IF Closing(pipe[i]) THEN running ELSE running \ {i}
           /\ UNCHANGED <<pipe, nextIn, ioStop, ioClosed, queue, finished, closedBy, closed, relOrder, lock, headed>>
\* a large response: two write steps.  The lock is kept between them - unless Dev_SplitSendUnlocked
SendHead(i) == /\ i \in finished /\ i \notin sent /\ i \notin headed /\ Big(pipe[i]) /\ lock = 0
               /\ Dev_CompletionOrder \/ EarlierDone(i)
               /\ headed' = headed \cup {i} /\ Put(<<i, "h">>)
               /\ lock' = IF Dev_SplitSendUnlocked THEN 0 ELSE i
               /\ UNCHANGED <<pipe, nextIn, ioStop, ioClosed, queue, running, finished, sent, closedBy, closed, relOrder>>
SendBody(i) == /\ i \in headed /\ (lock = i \/ (Dev_SplitSendUnlocked /\ lock = 0))
               /\ headed' = headed \ {i} /\ sent' = sent \cup {i} /\ Put(<<i, "b">>) /\ lock' = 0
               /\ running' = IF Closing(pipe[i]) THEN running ELSE running \ {i}
               /\ UNCHANGED <<pipe, nextIn, ioStop, ioClosed, queue, finished, closedBy, closed, relOrder>>

\* the close command that follows the response of a closing request (not atomic with the send)
\* (a large body that is the last thing on the wire may still be in the write queue: "t" = truncated body)
Close(i) == /\ i \in sent /\ Closing(pipe[i]) /\ i \notin closedBy
            /\ closedBy' = closedBy \cup {i} /\ closed' = TRUE /\ running' = running \ {i}
            /\ \/ UNCHANGED wire
               \/ /\ Dev_CloseDropsQueued /\ ~closed /\ wire # <<>> /\ wire[Len(wire)][2] = "b"
                  /\ wire' = [wire EXCEPT ![Len(wire)] = <<wire[Len(wire)][1], "t">>]
            /\ UNCHANGED <<pipe, nextIn, ioStop, ioClosed, queue, finished, sent, relOrder, lock, headed>>

FinishStep == \E i \in 1..N : Finish(i)
SendStep == \E i \in 1..N : Send(i)
SendHeadStep == \E i \in 1..N : SendHead(i)
SendBodyStep == \E i \in 1..N : SendBody(i)
CloseStep == \E i \in 1..N : Close(i)
Next == IoExtract \/ IoGiveUp \/ Start \/ FinishStep \/ SendStep \/ SendHeadStep \/ SendBodyStep \/ CloseStep
Spec == Init /\ [][Next]_vars

\* ============================================================================================ the property
Dispatched == 1..(nextIn - 1)
Quiescent == /\ (ioStop \/ nextIn > N \/ (Dev_ExtractOnlyFirst /\ nextIn > 1)) /\ queue = <<>> /\ (ioStop => ioClosed \/ Dev_BadFramingWaits)
             /\ \A i \in Dispatched : i \in sent /\ (Closing(pipe[i]) => i \in closedBy)
FirstClosing == IF \E i \in 1..N : Closing(pipe[i]) THEN CHOOSE i \in 1..N : Closing(pipe[i]) /\ \A j \in 1..(i - 1) : ~Closing(pipe[j])
                ELSE N + 1
Upto(n) == [i \in 1..n |-> i]
IsPrefix(a, b) == Len(a) <= Len(b) /\ \A i \in 1..Len(a) : a[i] = b[i]
\* the requests whose response STARTS at each response start on the wire / whose response is complete
Starts == LET H == SelectSeq(wire, LAMBDA e : e[2] \in {"w", "h"}) IN [k \in 1..Len(H) |-> H[k][1]]
Completed == LET H == SelectSeq(wire, LAMBDA e : e[2] \in {"w", "b"}) IN [k \in 1..Len(H) |-> H[k][1]]
\* octets of different responses never interleave: a head is followed by its own body and by nothing else
NoInterleave == \A p \in 1..Len(wire) :
                   /\ (wire[p][2] = "h" /\ p < Len(wire)) => (wire[p + 1][1] = wire[p][1] /\ wire[p + 1][2] \in {"b", "t"})
                   /\ wire[p][2] \in {"b", "t"} => (p > 1 /\ wire[p - 1] = <<wire[p][1], "h">>)
\* responses are written in request order, each at most once, none after the response of the closing request
InOrder == IsPrefix(Starts, Upto(IF FirstClosing > N THEN N ELSE FirstClosing))
\* at the end every request up to the closing one has its response (the closing one may be answered by the close
\* alone if it could not be parsed), and a closing request has closed the connection: never silence, never a
\* complete request left waiting
AllAnswered == Quiescent =>
    LET c == FirstClosing IN
    IF c > N THEN Completed = Upto(N)
    ELSE /\ closed
         /\ Completed = Upto(c) \/ (RespOptional(pipe[c]) /\ Completed = Upto(c - 1))

\* export of the cases: printed once per terminal state (the check removes duplicates)
ReqJson(r) == [k |-> r.k, n |-> r.n, close |-> r.close, sp |-> r.sp]
WantResp == LET c == FirstClosing IN IF c > N THEN N ELSE IF pipe[c].k = "U" THEN c - 1 ELSE c
CaseOut == Quiescent => PrintT(ToJson([pipe |-> [i \in 1..N |-> ReqJson(pipe[i])], order |-> relOrder,
                                       wantResp |-> WantResp, wantClose |-> (FirstClosing <= N)]))
==============================================================================
