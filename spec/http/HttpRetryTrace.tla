---------------------------- MODULE HttpRetryTrace ----------------------------
(* Abs oracle of C17 as a trace specification over the events of harness/drv_httpretry.cpp.                         *)
(* It states ONLY the property, over facts the scripted server / the interposed connect() / the calling thread      *)
(* observed themselves (see the event list in the driver):                                                            *)
(*   AtMostOnce         a non-idempotent request is seen on the wire (>= 1 byte read by the server) on at most one    *)
(*                      connection.  An attempt that provably sent nothing leaves no SReq, so "unless every earlier    *)
(*                      attempt failed before sending a byte" needs no extra clause.                                   *)
(*   AttemptBound       an idempotent request is attempted at most budget + 1 times; observed attempts = connect()     *)
(*                      calls for the request + arrivals of the request on an already open connection (a lower bound   *)
(*                      of the real number: an attempt on a dead cached connection is invisible).                      *)
(*   FramingNotRetried  once the server has sent a deterministically malformed response to request r (STaint why =    *)
(*                      framing) no further attempt of r is observed (not judged when the server itself was late).      *)
(*   NoReuse            after STaint{c} (failure, close signal, surplus bytes, close-delimited body) no request         *)
(*                      arrives on c (bytes that were already pending at the taint, flag pre, were sent before it).    *)
(*   OwnResponse        a call that returns a response returns the response to ITS OWN request (Ret.rt = the X-Resp tag   *)
(*                      the scripted server put into the response = r).  This is the weaker reading for surplus that      *)
(*                      arrives where the client cannot see it while it frames the response: in a segment of its own     *)
(*                      after the complete response (SLateSurplus) or while the connection sits idle in the cache (SIdle, *)
(*                      a complete foreign response tagged 99 or junk).  Such a connection may be reused; the bytes must   *)
(*                      never be taken as (part of) the response to the next request: that request fails or is answered   *)
(*                      by its own response only.  The strong reading (NoReuse, STaint why = surplus) is kept for surplus  *)
(*                      in the SAME write as the last byte of the response, whatever the segmentation before it.           *)
(*   LeaseBound         with leaseAcquireTimeout configured, the first attempt of a call is observed within the lease     *)
(*                      time-out(s) after the Call (an attempt fails rather than waits past its configured time-out).      *)
(*   TimeBound          every call returns within (budget+1)*(connectTimeout + 2*requestTimeout) + back-off + slack.   *)
(* Choices where the statement is ambiguous (weaker reading): a method token that RFC 9110 does not register (e.g.     *)
(* lower-case "get") may be treated as either class: (wire <= 1) \/ (attempts <= budget + 1).                          *)
(* Events always match (the state only counts); the judgement is in the invariants, evaluated on every state.          *)
EXTENDS TraceBase, Integers, FiniteSets

VARIABLES cfg, rq, cn, late
vars == <<l, cfg, rq, cn, late>>

Idem(m) == m \in {"GET", "HEAD", "PUT", "DELETE", "OPTIONS", "TRACE"}
NonIdem(m) == m \in {"POST", "PATCH", "CONNECT"}
Slack == 4000

LeaseSlack == 1500
NoCfg == [ct |-> 0, rt |-> 0, bo |-> 1, lat |-> 0]
Init == l = 1 /\ cfg = NoCfg /\ rq = <<>> /\ cn = <<>> /\ late = FALSE

Known(r) == r \in DOMAIN rq
KnownC(c) == c \in DOMAIN cn
Upd(f, k, v) == (k :> v) @@ f

EvBegin == /\ IsEv("Begin") /\ cfg' = [ct |-> Ev.ct, rt |-> Ev.rt, bo |-> Fld("bo", 1), lat |-> Fld("lat", 0)] /\ rq' = <<>> /\ cn' = <<>> /\ late' = FALSE
EvReset == /\ IsEv("Reset") /\ cfg' = NoCfg /\ rq' = <<>> /\ cn' = <<>> /\ late' = FALSE
EvCall == /\ IsEv("Call")
          /\ rq' = Upd(rq, Ev.r, [m |-> Ev.m, b |-> Ev.b, att |-> 0, wire |-> 0, framed |-> FALSE, after |-> 0, ms |-> 0, own |-> TRUE,
                                 t0 |-> Fld("t", 0), fw |-> -1])
          /\ UNCHANGED <<cfg, cn, late>>
\* one more observed attempt of request r
Bump(r, isWire) == IF Known(r)
                   THEN rq' = [rq EXCEPT ![r] = [@ EXCEPT !.att = @ + 1, !.wire = @ + (IF isWire THEN 1 ELSE 0),
                                                              \* fw: ms from the Call to its first observed attempt
                                                              !.fw = IF @ < 0 THEN Fld("t", 0) - rq[r].t0 ELSE @,
                                                              !.after = @ + (IF rq[r].framed THEN 1 ELSE 0)]]
                   ELSE UNCHANGED rq
EvCConn == /\ IsEv("CConn")
           /\ cn' = Upd(cn, Ev.c, [by |-> Ev.r, virgin |-> TRUE, taint |-> FALSE, reused |-> FALSE])
           /\ Bump(Ev.r, FALSE)
           /\ UNCHANGED <<cfg, late>>
EvSReq == /\ IsEv("SReq")
          /\ LET c == Ev.c  r == Ev.r
                 sameAttempt == KnownC(c) /\ cn[c].virgin /\ cn[c].by = r /\ r > 0   \* the attempt that called connect()
             IN /\ cn' = IF KnownC(c) THEN [cn EXCEPT ![c] = [@ EXCEPT !.virgin = FALSE, !.reused = @ \/ (cn[c].taint /\ ~Fld("pre", FALSE))]]
                                      ELSE cn
                /\ IF ~Known(r) THEN UNCHANGED rq
                   ELSE IF sameAttempt THEN rq' = [rq EXCEPT ![r] = [@ EXCEPT !.wire = @ + 1]]
                   ELSE Bump(r, TRUE)
          /\ UNCHANGED <<cfg, late>>
EvSTaint == /\ IsEv("STaint")
            /\ cn' = IF KnownC(Ev.c) THEN [cn EXCEPT ![Ev.c] = [@ EXCEPT !.taint = TRUE]] ELSE cn
            /\ rq' = IF Ev.why = "framing" /\ Known(Ev.r) THEN [rq EXCEPT ![Ev.r] = [@ EXCEPT !.framed = TRUE]] ELSE rq
            /\ UNCHANGED <<cfg, late>>
EvSLate == IsEv("SLate") /\ late' = TRUE /\ UNCHANGED <<cfg, rq, cn>>
EvRet == /\ IsEv("Ret")
         /\ rq' = IF Known(Ev.r) THEN [rq EXCEPT ![Ev.r] = [@ EXCEPT !.ms = Ev.ms, !.own = (Ev.res # "ok" \/ Fld("rt", Ev.r) = Ev.r)]] ELSE rq
         /\ UNCHANGED <<cfg, cn, late>>
\* Crashed / HarnessTimeout / HarnessError are handled by the check itself (violation resp. infrastructure error)
EvOther == /\ (IsEv("SOverlap") \/ IsEv("SLateSurplus") \/ IsEv("SIdle") \/ IsEv("End") \/ IsEv("Crashed") \/ IsEv("HarnessTimeout") \/ IsEv("HarnessError")) /\ UNCHANGED <<cfg, rq, cn, late>>

Next == EvBegin \/ EvReset \/ EvCall \/ EvCConn \/ EvSReq \/ EvSTaint \/ EvSLate \/ EvRet \/ EvOther
Spec == Init /\ [][Next]_vars

\* ------------------------------------------------------------------------------------------------ the property
RECURSIVE Pow2(_)
Pow2(n) == IF n <= 0 THEN 1 ELSE 2 * Pow2(n - 1)
RECURSIVE Backoff(_)
Backoff(b) == IF b <= 0 THEN 0 ELSE Backoff(b - 1) + 100 * Pow2(b - 1) + 100
\* bo: the driver divides the back-off sleeps of the calling thread by cfg.bo (large budgets in affordable real time)
Bound(r) == (rq[r].b + 1) * (cfg.lat + cfg.ct + 2 * cfg.rt) + (Backoff(rq[r].b) \div cfg.bo) + Slack

AtMostOnce == \A r \in DOMAIN rq :
                 /\ NonIdem(rq[r].m) => rq[r].wire <= 1
                 /\ (~NonIdem(rq[r].m) /\ ~Idem(rq[r].m)) => (rq[r].wire <= 1 \/ rq[r].att <= rq[r].b + 1)
AttemptBound == \A r \in DOMAIN rq : Idem(rq[r].m) => rq[r].att <= rq[r].b + 1
FramingNotRetried == late \/ \A r \in DOMAIN rq : rq[r].after = 0
NoReuse == \A c \in DOMAIN cn : ~cn[c].reused
OwnResponse == \A r \in DOMAIN rq : rq[r].own
\* With a lease time-out configured (Begin.lat > 0) an attempt that has to wait for the lease fails with an error after lat
\* instead of waiting on: before the FIRST observed attempt of a call (its connect() or its request bytes on a cached
\* connection) there is nothing but lease waits of at most lat each (at most budget + 1 of them, with the back-off between
\* them), so it is observed no later than that after the Call.  (A call whose lease waits all time out makes no attempt:
\* nothing to judge here; TimeBound bounds its duration.)  lat is configured far below requestTimeout, so a waiter that
\* sits out the stall of the lease holder's peer and then transmits is late by more than LeaseSlack.
LeaseBound == cfg.lat > 0 => \A r \in DOMAIN rq :
                 rq[r].fw <= (rq[r].b + 1) * cfg.lat + (Backoff(rq[r].b) \div cfg.bo) + LeaseSlack
TimeBound == \A r \in DOMAIN rq : rq[r].ms <= Bound(r)
===============================================================================
