-------------------------- MODULE HttpFramingTrace --------------------------
(* C15 - trace specification: what the real framers handed to the application, judged by the Abs framer.   *)
(*                                                                                                        *)
(* One execution = one generated stream run under many segmentations (harness/drv_httpframe.cpp):          *)
(*   Begin{side, rm, mode, lex}     the stream as lexemes (HttpAbs.tla); mode = direct | sock | e2e | fuzz *)
(*   Obs{n, seg, msgs, err, hang, threw}  one DISTINCT observation and the number n of segmentations that  *)
(*                                  produced it (seg = one of them, for the replay)                        *)
(*         msgs = the messages the application was handed: start line lexeme, the generated header lexemes *)
(*                found in its header map (h) and the size of that map (nh), the body as DATA lexemes (b;  *)
(*                99 = octets that are no sequence of the generated DATA lexemes)                          *)
(*         err  = the endpoint signalled an error (server: a status >= 400 or a close; client: exception)  *)
(*         hang = a framing call did not return within the watchdog limit                                  *)
(*         threw = an exception escaped the data callback (server)                                         *)
(*   End, Reset                                                                                            *)
(* Every Obs must conform to AbsOut(stream) - so all segmentations of a stream agree with the one result   *)
(* the encoding determines (segmentation independence), what was handed over is exactly what was encoded,  *)
(* invalid length information was rejected, a message larger than a cap was answered with an error / a    *)
(* close and (client; server head) never handed over, and no call hung or threw.  mode = fuzz (mutated streams whose *)
(* meaning is unknown) demands only the last part.                                                         *)
EXTENDS TraceBase, HttpAbs

VARIABLES exp, side, mode
vars == <<l, exp, side, mode>>

Init == l = 1 /\ exp = <<>> /\ side = "-" /\ mode = "-"

ToSet(q) == {q[k] : k \in DOMAIN q}
SameMsg(d, o) == /\ d.start = o.start
                 /\ HdrsOk(o, ToSet(d.h))
                 /\ d.nh = Cardinality(NamesOf(ToSet(d.h))) + (IF side = "req" THEN 1 ELSE 0)   \* requests carry Host
                 /\ d.b = o.body
Conforms(ev) ==
    /\ ~ev.hang /\ ~ev.threw
    /\ mode # "fuzz" =>
         LET M == MsgsOf(exp)  D == ev.msgs IN
         /\ Len(D) >= Len(M)
         /\ \A k \in 1..Len(M) : SameMsg(D[k], M[k])
         /\ (Len(D) > Len(M) => \/ LastT(exp) \in {"any", "over"}
                                \/ LastT(exp) = "msgopt" /\ SameMsg(D[Len(M) + 1], exp[Len(exp)]))
         /\ (LastT(exp) \in {"reject", "over"} => ev.err)
         /\ (LastT(exp) = "msgopt" /\ Len(D) = Len(M) => ev.err)

EvBegin == /\ IsEv("Begin")
           /\ exp' = (IF Ev.mode = "fuzz" THEN <<>> ELSE AbsOut(Ev.side, Ev.rm, Ev.lex))
           /\ side' = Ev.side /\ mode' = Ev.mode
EvObs == IsEv("Obs") /\ mode # "-" /\ Conforms(Ev) /\ UNCHANGED <<exp, side, mode>>
EvEnd == IsEv("End") /\ mode # "-" /\ UNCHANGED <<exp, side, mode>>
EvReset == IsEv("Reset") /\ exp' = <<>> /\ side' = "-" /\ mode' = "-"

Next == EvBegin \/ EvObs \/ EvEnd \/ EvReset
Spec == Init /\ [][Next]_vars
=============================================================================
