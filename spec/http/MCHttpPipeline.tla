---- MODULE MCHttpPipeline ----
(* stand-alone exhaustive configuration of HttpPipeline.tla (quick-tier request variants); checks/C16.py generates *)
(* the same module with the variant set of the tier and adds the CaseOut "invariant" that exports the cases        *)
EXTENDS HttpPipeline
V(k, n, c) == [k |-> k, n |-> n, close |-> c, sp |-> IF c THEN 1 ELSE 0]
W(k, n, sp) == [k |-> k, n |-> n, close |-> (sp \in 1..6), sp |-> sp]
MCVariants == { V("G", 5, FALSE), V("G", 0, FALSE), V("G", 5, TRUE), V("H", 5, FALSE), V("P", 3, FALSE), V("C", 3, FALSE),
                V("T", 0, FALSE), V("R", 3, FALSE), V("N", 0, FALSE), V("M", 0, FALSE), V("O", 0, FALSE), V("B", 1, FALSE),
                V("B", 3, FALSE), V("U", 1, FALSE), V("U", 2, FALSE), V("U", 4, FALSE), V("L", 64, FALSE), V("L", 4096, FALSE), V("L", 4096, TRUE),
                W("G", 5, 2), W("G", 5, 5), W("G", 5, 7), V("S204", 5, FALSE), V("S304", 5, FALSE), V("HS304", 5, FALSE) }
====
