SPECIFICATION Spec
CONSTANTS
  Variants <- MCVariants
  MaxLen = 2
  Workers = 3
  Dev_CompletionOrder = FALSE
  Dev_BadFramingWaits = FALSE
INVARIANT InOrder
INVARIANT AllAnswered
CHECK_DEADLOCK FALSE
