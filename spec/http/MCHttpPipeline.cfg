SPECIFICATION Spec
CONSTANTS
  Variants <- MCVariants
  MaxLen = 2
  Workers = 3
  Dev_CompletionOrder = FALSE
  Dev_BadFramingWaits = FALSE
  Dev_SplitSendUnlocked = FALSE
  Dev_ExtractOnlyFirst = FALSE
  Dev_CloseDropsQueued = FALSE
INVARIANT InOrder
INVARIANT AllAnswered
INVARIANT NoInterleave
CHECK_DEADLOCK FALSE
