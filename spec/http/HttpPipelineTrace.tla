-------------------------- MODULE HttpPipelineTrace --------------------------
(* C16 - trace specification: the byte stream a raw socket client read from the real HttpServer, split into *)
(* responses by the harness' strict reference splitter (harness/drv_httppipe.cpp), judged against what the   *)
(* property demands of one persistent connection.                                                            *)
(*   Begin{reqs}     the pipeline that was written (in one send, or cut into two or three segments with a     *)
(*                   pause - the property does not depend on it): records [k, n, close, sp, tr]               *)
(*                   (HttpPipeline.tla; close = the Connection field contains the token close in whatever     *)
(*                   spelling sp; tr = trailer fields of a chunked request - one complete request whatever tr) *)
(*   Release{i}      the harness lets the (gated) handler of request i return                                 *)
(*   Resp{for, st, cl, bl, fill}   the next complete response on the wire: for = request id echoed by the     *)
(*                   handler in X-Req (0: a response the server produced without a handler), status, the      *)
(*                   Content-Length field (-1: none), the body octets that followed, fill = they are the      *)
(*                   octets that handler wrote                                                                *)
(*                   octets that handler wrote (large bodies: a position-dependent pattern), alien = the body *)
(*                   contains what looks like the head of another response                                    *)
(*   End{closed, left, garbage, invoked, pfor, pcl, pgot}   (pfor/pcl/pgot: request, Content-Length and body octets *)
(*                   received of an INCOMPLETE response at the end, pfor = 0: none / head incomplete)          *)
(*   End{closed, left, garbage, invoked}   the server closed the connection; octets left over that are no     *)
(*                   complete response; octets that do not start a response where one must start (interleaving*)
(*                   or a Content-Length that is not the body length); the requests whose handler was entered *)
(* Abs: the k-th response answers the k-th request (exactly one each, request order, nothing after the        *)
(* response of the first closing request), is well-formed for it (status class, Content-Length = body length, *)
(* HEAD without body, throw => 500, unparsable => status >= 400 or just the close), and the closing request   *)
(* is followed by the close; a handler's response never appears before the handler was released; a request     *)
(* that cannot be parsed / whose length cannot be decided never reaches a handler.  Well-formedness of every   *)
(* single response (Content-Length = the body octets that follow, the body is that handler's and nobody        *)
(* else's octets, nothing between responses) is demanded by Fits and by End.left / End.garbage - also from the *)
(* deviation actions, i.e. independent of the ORDER of the responses.                                          *)
(* The check validates in two passes.  Eval = TRUE: the Abs actions only, but an event that Abs cannot take    *)
(* marks the execution (ok = FALSE) instead of blocking, and Reset prints <<"NOTABS", execution number>> - a   *)
(* deterministic pass that tells which executions the property does not explain.  Eval = FALSE (only those     *)
(* executions): Abs actions and the deviation actions in DevAllowed (known findings), blocking; the deviation  *)
(* actions an accepted execution needed are recorded in `used` and printed at Reset:                           *)
(*   DevRespOutOfOrder   a well-formed response of ANOTHER unanswered request is written first - responses    *)
(*                       leave in handler completion order (F-16a)                                            *)
(*   DevCloseTruncates   the server's close cuts a LARGE response (>= 64 KiB, a handler's, cut inside its body) that   *)
(*                       was still being written: Transport::close() discards the write queue (F-16c)         *)
(*   DevCloseOvertakes   a close (after the response of a later closing request, or by the I/O thread for an  *)
(*                       undecidable message) ends the connection while earlier requests are unanswered       *)
EXTENDS TraceBase, FiniteSets, Integers

CONSTANTS DevAllowed,   \* subset of {"DevRespOutOfOrder", "DevCloseOvertakes", "DevCloseTruncates"}
          Eval          \* TRUE: first pass (see above)

VARIABLES reqs, released, answered, used, xn, ok
vars == <<l, reqs, released, answered, used, xn, ok>>

Init == l = 1 /\ reqs = <<>> /\ released = {} /\ answered = <<>> /\ used = {} /\ xn = 0 /\ ok = TRUE

Gated(r) == r.k \in {"G", "H", "P", "C", "T", "R", "L", "S204", "S304", "HS204", "HS304", "D", "HD"}
Closing(r) == r.close \/ r.k \in {"B", "U"}
RespOptional(r) == r.k \in {"B", "U"}
N == Len(reqs)
FirstClosing == IF \E i \in 1..N : Closing(reqs[i]) THEN CHOOSE i \in 1..N : Closing(reqs[i]) /\ \A j \in 1..(i - 1) : ~Closing(reqs[j])
                ELSE N + 1
Answered == {answered[i] : i \in 1..Len(answered)}
InOrderSoFar == \A i \in 1..Len(answered) : answered[i] = i

\* is ev a well-formed response to request j ?
Fits(ev, j) ==
    LET r == reqs[j] IN
    /\ IF Gated(r) THEN ev.for = j ELSE ev.for = 0
    /\ ~ev.alien
    /\ CASE r.k \in {"G", "P", "C", "R"} -> ev.st = 200 /\ ev.cl = r.n /\ ev.bl = r.n /\ ev.fill
         [] r.k = "L" -> ev.st = 200 /\ ev.cl = r.n * 1024 /\ ev.bl = r.n * 1024 /\ ev.fill
         [] r.k = "H" -> ev.st = 200 /\ ev.cl = r.n /\ ev.bl = 0
         \* no route, the default handler picks 404 and sets n octets: GET gets them, HEAD gets no body octets
         [] r.k = "D" -> ev.st = 404 /\ ev.cl = r.n /\ ev.bl = r.n /\ ev.fill
         [] r.k = "HD" -> ev.st = 404 /\ ev.bl = 0
         \* HEAD answered without a handler (405: the path exists under another method; built-in 404): no body octets
         [] r.k = "HM" -> ev.st = 405 /\ ev.bl = 0
         [] r.k = "HN" -> ev.st = 404 /\ ev.bl = 0
         \* content set through the response API, then a bodiless status: either no body octets at all, or a
         \* Content-Length that is exactly the octets that follow (the property's wording) - never stray octets
         [] r.k \in {"S204", "S304"} -> (ev.st = (IF r.k = "S204" THEN 204 ELSE 304))
                                         /\ (ev.bl = 0 \/ (ev.cl = r.n /\ ev.bl = r.n /\ ev.fill))
         [] r.k \in {"HS204", "HS304"} -> ev.st = (IF r.k = "HS204" THEN 204 ELSE 304) /\ ev.bl = 0
         [] r.k = "T" -> ev.st = 500 /\ ev.cl = ev.bl
         [] r.k = "N" -> ev.st = 404 /\ ev.cl = ev.bl
         [] r.k = "M" -> ev.st = 405 /\ ev.cl = ev.bl
         [] r.k = "O" -> ev.st = 204 /\ ev.bl = 0
         [] r.k \in {"B", "U"} -> ev.st >= 400 /\ ev.cl = ev.bl
         [] OTHER -> FALSE
    /\ Gated(r) => j \in released

EvBegin == /\ IsEv("Begin") /\ reqs' = Ev.reqs /\ released' = {} /\ answered' = <<>> /\ used' = {} /\ ok' = TRUE /\ UNCHANGED xn
EvRelease == /\ IsEv("Release") /\ Ev.i \in 1..N /\ released' = released \cup {Ev.i} /\ UNCHANGED <<reqs, answered, used, xn, ok>>

AbsRespOk(ev) == LET k == Len(answered) + 1 IN
    InOrderSoFar /\ k <= N /\ k <= FirstClosing /\ Fits(ev, k)
EvResp == /\ IsEv("Resp") /\ AbsRespOk(Ev)
          /\ answered' = Append(answered, Len(answered) + 1) /\ UNCHANGED <<reqs, released, used, xn, ok>>
DevRespOutOfOrder ==
    /\ IsEv("Resp") /\ ~Eval /\ "DevRespOutOfOrder" \in DevAllowed
    /\ \E j \in (1..N) \ Answered :
         /\ Fits(Ev, j)
         /\ ~(InOrderSoFar /\ j = Len(answered) + 1 /\ j <= FirstClosing)      \* not what Abs would do
         /\ answered' = Append(answered, j)
    /\ used' = used \cup {"DevRespOutOfOrder"} /\ UNCHANGED <<reqs, released, xn, ok>>

\* no handler was entered for a request that cannot be parsed / has no route / needs none
InvokedOk(ev) == \A k \in DOMAIN ev.invoked : ev.invoked[k] \in 1..N /\ Gated(reqs[ev.invoked[k]])
AbsEndOk(ev) ==
    LET c == FirstClosing IN
    /\ ev.left = 0 /\ ~ev.garbage /\ InvokedOk(ev)
    /\ IF c > N THEN Answered = 1..N
       ELSE /\ ev.closed
            /\ Answered = 1..c \/ (RespOptional(reqs[c]) /\ Answered = 1..(c - 1))
EvEnd == IsEv("End") /\ AbsEndOk(Ev) /\ UNCHANGED <<reqs, released, answered, used, xn, ok>>
DevCloseOvertakes ==
    /\ IsEv("End") /\ ~Eval /\ ~AbsEndOk(Ev) /\ "DevCloseOvertakes" \in DevAllowed
    /\ Ev.left = 0 /\ ~Ev.garbage /\ Ev.closed /\ InvokedOk(Ev)
    /\ \E j \in 1..N : Closing(reqs[j]) /\ (j \in Answered \/ RespOptional(reqs[j]))     \* somebody did close
    /\ used' = used \cup {"DevCloseOvertakes"} /\ UNCHANGED <<reqs, released, answered, xn, ok>>

DevCloseTruncates ==
    /\ IsEv("End") /\ ~Eval /\ "DevCloseTruncates" \in DevAllowed
    /\ Ev.closed /\ ~Ev.garbage /\ Ev.left > 0 /\ InvokedOk(Ev)
    /\ Ev.pfor \in (1..N) \ Answered /\ Ev.pfor \in released           \* a handler's response, begun after it returned
    /\ reqs[Ev.pfor].k = "L" /\ Ev.pcl = reqs[Ev.pfor].n * 1024           \* a large one, with the right head,
    /\ Ev.pgot < Ev.pcl                                                    \* cut inside its body
    \* somebody did close (a closing handler that has returned: its own response may have been queued behind the cut one)
    /\ \E j \in 1..N : Closing(reqs[j]) /\ (j \in Answered \/ RespOptional(reqs[j]) \/ j = Ev.pfor \/ j \in released)
    /\ used' = used \cup {"DevCloseTruncates"} /\ UNCHANGED <<reqs, released, answered, xn, ok>>

\* first pass only: an event the property does not explain marks the execution and is skipped
EvalSkip == /\ Eval
            /\ \/ IsEv("Resp") /\ ~AbsRespOk(Ev)
               \/ IsEv("End") /\ ~AbsEndOk(Ev)
            /\ ok' = FALSE /\ UNCHANGED <<reqs, released, answered, used, xn>>

EvReset == /\ IsEv("Reset")
           /\ (used # {} => PrintT(<<"DEVS", xn, used>>))
           /\ (~ok => PrintT(<<"NOTABS", xn>>))
           /\ reqs' = <<>> /\ released' = {} /\ answered' = <<>> /\ used' = {} /\ xn' = xn + 1 /\ ok' = TRUE

Next == EvBegin \/ EvRelease \/ EvResp \/ DevRespOutOfOrder \/ EvEnd \/ DevCloseOvertakes \/ DevCloseTruncates \/ EvalSkip \/ EvReset
Spec == Init /\ [][Next]_vars
==============================================================================
