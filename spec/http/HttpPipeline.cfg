\* the exhaustive configuration of the design the property describes is generated by checks/C16.py (the request
\* variants are records, which a cfg file cannot hold); this file documents the constants of the quick tier
\*   Variants = G5 G0 G5c H5 P3 C3 T0 R3 N0 M0 O0 B1 B3 U1 U2   MaxLen = 3 (2 in the quick tier)   Workers = 3
\*   Dev_CompletionOrder = FALSE   Dev_BadFramingWaits = FALSE   INVARIANTS InOrder AllAnswered
