----------------------------- MODULE HttpFraming -----------------------------
(* C15 - HTTP/1.1 message framing: generator of message streams + code-shaped Impl models of the two       *)
(* framers, judged against the Abs framer of HttpAbs.tla.                                                  *)
(*                                                                                                        *)
(* GENERATOR.  `Cases` is the set of generated streams (records [side, rm, s]): every body-length form of  *)
(* RFC 9112 6.3 (none / Content-Length in three spellings / chunked with extensions, odd spellings,        *)
(* trailers, one or several chunks / close-delimited), every class of invalid length information, streams  *)
(* that exceed the caps, interim 1xx heads, surplus bytes, truncations followed by the peer's close and    *)
(* pipelines of requests; messages whose image is dominated by octets that never become payload (a long    *)
(* header field, chunk extension, last-chunk extension, trailer field: BigForms) just under and over the   *)
(* caps.  The reachable initial states of this specification ARE the cases that           *)
(* checks/C15.py renders to bytes and executes on the real code (exported by GenCases below).              *)
(*                                                                                                        *)
(* SEGMENTATIONS.  The arrival position `arr` counts half lexemes: lexemes 1..arr \div 2 have arrived      *)
(* completely, and if arr is odd the next one has arrived partially.  A Recv step may jump to any later    *)
(* position (at most MaxCuts cuts per stream), so TLC explores every segmentation at lexeme granularity;   *)
(* the check refines "inside lexeme k" into every byte offset of its image.                                *)
(*                                                                                                        *)
(* IMPL.  Server: handleIncomingData (append, cap, header terminator search, length decision, extraction   *)
(* loop) and findChunkedRequestEnd (one step per chunk-size line).  Client: the receive loop of            *)
(* executeRequest with frameResponse / determineFraming / advanceChunked.  The places where the server     *)
(* code departed from the property when this check was written are deviation actions guarded by Dev_*      *)
(* constants (all FALSE = the repaired design; see DESIGN.md section 5, F-15a..e).                         *)
EXTENDS HttpAbs, TLC

CONSTANTS Side,        \* "req": requests arriving at the server, "resp": responses arriving at the client
          MaxPipe,     \* requests per stream (server side)
          MaxCuts,     \* cut points per stream
          Rich,        \* TRUE: the full form set (thorough tier); FALSE: the reduced one
          Dev_ChunkPosWraps,             \* F-15a  pos += chunkSize + 2 wraps: the scan never ends
          Dev_ChunkedBodyNotDecoded,     \* F-15b  the handler gets the chunk framing instead of the body
          Dev_TrailerLeavesCrlf,         \* F-15c  a chunked body ends at the first CRLF after the last-chunk
          Dev_LenientContentLength,      \* F-15d  stoull, last Content-Length wins, CL+TE accepted, "chunked" anywhere
          Dev_BadChunkSizeWaitsForever,  \* F-15e  an unparsable chunk size is "need more data"
          Dev_LenientChunkSize,          \* F-15d' stoul accepts "0x3", "-3"
          Dev_CapSkipsFraming,           \* (class of seeded changes) client: once the body is known to be chunked the cap counts
                                         \*   head + decoded payload only - size lines, extensions, trailers escape it
          Dev_NoHeadCap                  \* (class of seeded changes) server: the head is not held against MAX_HEADER_SIZE

\* ============================================================================================ generator
L1(x) == << x >>
EOH == <<"EOH", 0>>
RECURSIVE NBytes(_)
NBytes(B) == IF B = <<>> THEN 0 ELSE DLen(Head(B)) + NBytes(Tail(B))
DataLex(B) == [k \in DOMAIN B |-> <<"DATA", B[k]>>]
RECURSIVE PerLexChunks(_, _)
PerLexChunks(B, e) == IF B = <<>> THEN <<>>
                      ELSE << <<"CSZ", 100 * e + DLen(Head(B))>>, <<"DATA", Head(B)>>, <<"CEND", 0>> >> \o PerLexChunks(Tail(B), e)
OneChunk(B, e) == IF B = <<>> THEN <<>> ELSE L1(<<"CSZ", 100 * e + NBytes(B)>>) \o DataLex(B) \o L1(<<"CEND", 0>>)
ChunkTail(le, T) == L1(<<"LAST", le>>) \o T \o L1(<<"EOC", 0>>)
T0 == <<>>
T1 == << <<"TRL", 1>> >>
T2 == << <<"TRL", 1>>, <<"TRL", 2>> >>

Form(h, b) == [h |-> h, b |-> b]
ChunkedForm(B, te, e, le, T, per) ==
    Form(L1(<<"TE", te>>), (IF per THEN PerLexChunks(B, e) ELSE OneChunk(B, e)) \o ChunkTail(le, T))
\* one dimension varied at a time from the base form, plus one form with everything at once
ChunkParams == { <<1, 0, 0, T0, FALSE>>, <<2, 0, 0, T0, FALSE>>, <<5, 0, 0, T0, FALSE>>,
                 <<1, 1, 0, T0, FALSE>>, <<1, 2, 0, T0, FALSE>>, <<1, 3, 0, T0, FALSE>>,
                 <<1, 0, 1, T0, FALSE>>, <<1, 0, 2, T0, FALSE>>,
                 <<1, 0, 0, T1, FALSE>>, <<1, 0, 0, T2, FALSE>>,
                 <<1, 0, 0, T0, TRUE>>, <<2, 1, 1, T2, TRUE>> }
ChunkedForms(B) == { ChunkedForm(B, p[1], p[2], p[3], p[4], p[5]) : p \in ChunkParams }
ClForms(B) == LET n == NBytes(B) IN
    { Form(L1(<<"CL", n>>), DataLex(B)), Form(L1(<<"CLL", n>>), DataLex(B)),
      Form(<< <<"CL", n>>, <<"CL", n>> >>, DataLex(B)) }
NoLenForms(side, B) ==
    IF side = "req" THEN (IF B = <<>> THEN {Form(<<>>, <<>>)} ELSE {})
    ELSE { Form(<<>>, DataLex(B) \o L1(<<"EOF", 0>>)), Form(L1(<<"TE", 3>>), DataLex(B) \o L1(<<"EOF", 0>>)),
           Form(L1(<<"TE", 4>>), DataLex(B) \o L1(<<"EOF", 0>>)) }
ValidForms(side, B) == ClForms(B) \cup ChunkedForms(B) \cup NoLenForms(side, B)

InvalidForms(side, B) == LET n == NBytes(B) IN
    { Form(L1(<<"CLX", 100 * v + n>>), DataLex(B)) : v \in 1..6 }
    \cup { Form(<< <<"CL", n>>, <<"CL", n + 1>> >>, DataLex(B)), Form(<< <<"CL", n + 1>>, <<"CL", n>> >>, DataLex(B)) }
    \cup { Form(<< <<"CL", n>>, <<"TE", 1>> >>, OneChunk(B, 0) \o ChunkTail(0, T0)),
           Form(<< <<"TE", 1>>, <<"CL", n>> >>, OneChunk(B, 0) \o ChunkTail(0, T0)),
           Form(<< <<"TE", 1>>, <<"CL", n>> >>, DataLex(B)) }
    \cup (IF side = "req" THEN { Form(L1(<<"TE", 3>>), OneChunk(B, 0) \o ChunkTail(0, T0)),
                                 Form(L1(<<"TE", 4>>), OneChunk(B, 0) \o ChunkTail(0, T0)) } ELSE {})
    \cup (IF B = <<>> THEN {} ELSE
            { Form(L1(<<"TE", 1>>), L1(<<"CSX", 100 * v + n>>) \o DataLex(B) \o L1(<<"CEND", 0>>) \o ChunkTail(0, T0)) : v \in 1..6 }
            \cup { Form(L1(<<"TE", 1>>), PerLexChunks(<<1>>, 0) \o L1(<<"CSX", 100 * v + n>>) \o DataLex(B) \o L1(<<"CEND", 0>>) \o ChunkTail(0, T0)) : v \in {1, 2} }
            \cup { Form(L1(<<"TE", 1>>), L1(<<"CSZ", n>>) \o DataLex(B) \o L1(<<"CENDX", 0>>) \o ChunkTail(0, T0)) })
CapForms(side) ==
    { Form(L1(<<"CLBIG", 0>>), <<>>),
      Form(L1(<<"TE", 1>>), L1(<<"FLOOD", 0>>)),                         \* a chunk-size line that never ends
      Form(L1(<<"TE", 1>>), L1(<<"LAST", 0>>) \o L1(<<"FLOOD", 0>>)) }   \* a trailer section that never ends
    \cup (IF side = "resp" THEN { Form(<<>>, L1(<<"FLOOD", 0>>)) } ELSE {})    \* close-delimited body without end

\* ---- BOUNDED: which octets count against which cap.  One big lexeme per category (header field / chunk extension /
\* last-chunk extension / trailer field) of 3 quarters of the cap (fits: an ordinary valid message) and of 5 quarters
\* (over the cap although the payload is one octet), and two categories that fit one by one but (client: one cap for
\* everything; server: head cap and buffer cap) not together.
BigOr0(w) == IF w > 0 THEN BigBase + w ELSE 0
BigForm(hw, cw, lw, tw) ==
    Form((IF hw > 0 THEN L1(<<"HDR", BigBase + hw>>) ELSE <<>>) \o L1(<<"TE", 1>>),
         OneChunk(<<1>>, BigOr0(cw)) \o ChunkTail(BigOr0(lw), IF tw > 0 THEN L1(<<"TRL", BigBase + tw>>) ELSE T0))
BigWeights == { <<3, 0, 0, 0>>, <<5, 0, 0, 0>>, <<0, 3, 0, 0>>, <<0, 5, 0, 0>>, <<0, 0, 3, 0>>, <<0, 0, 5, 0>>,
                <<0, 0, 0, 3>>, <<0, 0, 0, 5>>,
                <<3, 3, 0, 0>>, <<3, 0, 0, 3>>, <<0, 3, 0, 3>>, <<0, 3, 3, 0>>, <<0, 0, 3, 3>> }
BigForms == { BigForm(p[1], p[2], p[3], p[4]) : p \in BigWeights }
            \cup { Form(<< <<"HDR", BigBase + w>>, <<"CL", 1>> >>, DataLex(<<1>>)) : w \in {3, 5} }

Bodies == IF Rich THEN { <<>>, <<1>>, <<2>>, <<1, 2>>, <<3>>, <<2, 3>> } ELSE { <<>>, <<1>>, <<1, 2>>, <<3>> }
PipeBodies == IF Rich THEN { <<>>, <<1, 2>>, <<3>> } ELSE { <<1, 2>> }
Extras(side) == { <<>>, L1(<<"HDR", 1>>), L1(<<"HDR", 2>>) } \cup (IF side = "resp" THEN { L1(<<"CONN", 1>>) } ELSE {})
BaseForms(side, B) == { Form(L1(<<"CL", NBytes(B)>>), DataLex(B)), ChunkedForm(B, 1, 0, 0, T0, FALSE) } \cup NoLenForms(side, B)

\* ---- requests
ReqMsg(k, x, f) == L1(<<"REQ", 10 * k + (IF f.h = <<>> /\ f.b = <<>> THEN 1 ELSE 2)>>) \o x \o f.h \o L1(EOH) \o f.b
ReqSingleForms ==
    UNION { ValidForms("req", B) \cup InvalidForms("req", B) : B \in Bodies } \cup CapForms("req") \cup BigForms
\* the forms that follow or precede another request in a pipeline
ReqPipeForms ==
    UNION { { Form(<<>>, <<>>), Form(L1(<<"CL", NBytes(B)>>), DataLex(B)), Form(L1(<<"CL", 0>>), <<>>),
              ChunkedForm(B, 1, 0, 0, T0, FALSE), ChunkedForm(B, 1, 0, 0, T1, FALSE), ChunkedForm(B, 1, 0, 0, T2, FALSE),
              ChunkedForm(B, 2, 1, 1, T2, TRUE), ChunkedForm(<<3>>, 1, 0, 0, T0, FALSE),
              Form(L1(<<"CLX", 100 + NBytes(B)>>), DataLex(B)),
              Form(<< <<"CL", NBytes(B)>>, <<"CL", NBytes(B) + 1>> >>, DataLex(B)),
              Form(<< <<"CL", NBytes(B)>>, <<"TE", 1>> >>, OneChunk(B, 0) \o ChunkTail(0, T0)),
              Form(L1(<<"TE", 3>>), OneChunk(B, 0) \o ChunkTail(0, T0)),
              Form(L1(<<"TE", 1>>), L1(<<"CSX", 100 + NBytes(B)>>) \o DataLex(B) \o L1(<<"CEND", 0>>) \o ChunkTail(0, T0)),
              Form(L1(<<"TE", 1>>), L1(<<"CSX", 500 + NBytes(B)>>) \o DataLex(B) \o L1(<<"CEND", 0>>) \o ChunkTail(0, T0)) }
            : B \in PipeBodies }
    \cup (IF Rich THEN UNION { ValidForms("req", B) : B \in PipeBodies } ELSE {})
ReqStreams ==
    { ReqMsg(1, <<>>, f) : f \in ReqSingleForms }
    \cup { ReqMsg(1, x, f) : x \in Extras("req") \ {<<>>}, f \in UNION { BaseForms("req", B) : B \in {<<>>, <<1, 2>>} } }
    \cup { L1(<<"JUNK", j>>) \o ReqMsg(1, <<>>, Form(<<>>, <<>>)) : j \in {1, 2} }
    \cup { ReqMsg(1, <<>>, Form(L1(<<"HDR", 1>>), <<>>)) \o L1(<<"JUNK", 2>>) }
    \cup { SubSeq(ReqMsg(1, <<>>, Form(L1(<<"HDR", 1>>), <<>>)), 1, 2) \o L1(<<"FLOOD", 0>>) }   \* header section without end
    \cup (IF MaxPipe >= 2 THEN { ReqMsg(1, <<>>, f) \o ReqMsg(2, <<>>, g) : f \in ReqPipeForms, g \in ReqPipeForms } ELSE {})
    \cup (IF MaxPipe >= 3 THEN
            LET P3 == { Form(<<>>, <<>>), Form(L1(<<"CL", 3>>), DataLex(<<1, 2>>)), ChunkedForm(<<1, 2>>, 1, 0, 0, T1, TRUE),
                        ChunkedForm(<<3>>, 2, 1, 1, T0, FALSE), Form(L1(<<"CLX", 103>>), DataLex(<<1, 2>>)) } IN
            { ReqMsg(1, <<>>, f) \o ReqMsg(2, <<>>, g) \o ReqMsg(3, <<>>, h) : f \in P3, g \in P3, h \in P3 }
          ELSE {})

\* ---- responses
RespMsg(st, x, f) == L1(<<"RESP", st>>) \o x \o f.h \o L1(EOH) \o f.b
Interims == { <<>>, << <<"RESP", 100>>, EOH >>, << <<"RESP", 100>>, EOH, <<"RESP", 103>>, <<"HDR", 1>>, EOH >> }
Surplus == << <<"RESP", 200>>, <<"CL", 1>>, EOH, <<"DATA", 1>> >>
RespSuffixes == { <<>>, L1(<<"EOF", 0>>), Surplus }
RespFinals ==     \* [rm, s]
    { [rm |-> "GET", s |-> RespMsg(200, <<>>, f)] :
          f \in UNION { ValidForms("resp", B) \cup InvalidForms("resp", B) : B \in Bodies } \cup CapForms("resp") \cup BigForms }
    \cup { [rm |-> "GET", s |-> RespMsg(404, x, f)] : x \in Extras("resp") \ {<<>>}, f \in UNION { BaseForms("resp", B) : B \in {<<>>, <<1, 2>>} } }
    \cup { [rm |-> "GET", s |-> RespMsg(st, <<>>, Form(h, <<>>))] : st \in {204, 304}, h \in { <<>>, L1(<<"CL", 3>>), L1(<<"TE", 1>>) } }
    \cup { [rm |-> "HEAD", s |-> RespMsg(200, <<>>, Form(h, <<>>))] :
              h \in { <<>>, L1(<<"CL", 3>>), L1(<<"TE", 1>>), << <<"CL", 3>>, <<"TE", 1>> >>, L1(<<"CLX", 103>>) } }
EndsWithEof(s) == s # <<>> /\ Kind(s[Len(s)]) = "EOF"
HasFlood(s) == \E k \in DOMAIN s : Kind(s[k]) = "FLOOD"
\* interim heads / surplus / a close right after the message are added to the base forms only
RespDecorated ==
    { [rm |-> "GET", s |-> i \o RespMsg(200, <<>>, f) \o x] :
          i \in Interims, x \in RespSuffixes,
          f \in { g \in UNION { BaseForms("resp", B) : B \in {<<>>, <<1, 2>>} } : ~EndsWithEof(g.b) } }
    \cup { [rm |-> "GET", s |-> i \o RespMsg(200, <<>>, f)] :
          i \in Interims \ {<<>>}, f \in { g \in UNION { BaseForms("resp", B) : B \in {<<1, 2>>} } : EndsWithEof(g.b) } }
    \cup { [rm |-> "GET", s |-> L1(<<"JUNK", 2>>) \o RespMsg(200, <<>>, Form(L1(<<"CL", 0>>), <<>>))] }
\* the peer closes inside the message: every proper lexeme prefix of a valid single response, then EOF
RespTruncated ==
    UNION { { [rm |-> "GET", s |-> SubSeq(m, 1, k) \o L1(<<"EOF", 0>>)] : k \in 1..(Len(m) - 1) } :
            m \in { RespMsg(200, <<>>, f) : f \in { g \in UNION { ValidForms("resp", B) : B \in {<<1, 2>>} } : ~EndsWithEof(g.b) } } }
RespCases == RespFinals \cup RespDecorated \cup RespTruncated

Cases == IF Side = "req" THEN { [side |-> "req", rm |-> "-", s |-> s] : s \in ReqStreams }
         ELSE { [side |-> "resp", rm |-> c.rm, s |-> c.s] : c \in RespCases }

\* what the check exports for every case: the lexemes, and how long the driver has to wait (never the verdict)
Expected(c) == AbsOut(c.side, c.rm, c.s)
CaseRec(c) == LET E == Expected(c) IN
    [side |-> c.side, rm |-> c.rm, lex |-> c.s,
     wantMsgs |-> Len(MsgsOf(E)) + (IF LastT(E) = "msgopt" THEN 1 ELSE 0), wantEnd |-> LastT(E), complete |-> (E # <<>>)]

\* ================================================================================================ Impl
VARIABLES c,       \* the case
          arr,     \* arrival position in half lexemes
          ncuts,
          base,    \* lexemes consumed from the front of the buffer
          pc, hend, cpos, cbody, hdone, mode, fn,
          out,     \* outcomes so far
          closed   \* the endpoint gave up on the connection (server: close, client: exception)
vars == <<c, arr, ncuts, base, pc, hend, cpos, cbody, hdone, mode, fn, out, closed>>

s == c.s
LenS == Len(c.s)
avail == arr \div 2
Garbage == Msg(Dummy, {}, {}, <<99>>)       \* something was handed over that is not what was encoded
RawBody == <<98>>                           \* the undecoded chunk framing

Init == /\ c \in Cases
        /\ arr = 0 /\ ncuts = 0 /\ base = 0 /\ pc = "idle" /\ hend = 0 /\ cpos = 0 /\ cbody = <<>>
        /\ hdone = FALSE /\ mode = "-" /\ fn = 0 /\ out = <<>> /\ closed = FALSE

EofIdx == LET E == {k \in 1..LenS : Kind(s[k]) = "EOF"} IN IF E = {} THEN 0 ELSE CHOOSE k \in E : \A j \in E : k <= j
LastData == IF EofIdx # 0 THEN 2 * (EofIdx - 1) ELSE 2 * LenS     \* the close itself carries no octets
FloodArrived(p) == \E j \in (base + 1)..(p \div 2) : Kind(s[j]) = "FLOOD"
GiveUp == out' = Append(out, Reject) /\ closed' = TRUE

\* ---- what the cap checks of the code count (quarters of the cap, HttpAbs.tla).  Client: every octet appended to the raw
\* accumulation buffer (interim responses already erased do not count any more).  Server: every octet in the session
\* buffer against MAX_BUFFER_SIZE (the head, at most 1/16 of it, is neglected), the head against MAX_HEADER_SIZE in SrvScan.
RECURSIVE SumF(_, _, _)
SumF(f, a, b) == IF a > b THEN 0 ELSE f[a] + SumF(f, a + 1, b)
TrueCounts == [k \in 1..LenS |-> IF c.side = "req" /\ Kind(s[k]) = "HDR" THEN 0 ELSE Wt(s[k])]
Counted == [k \in 1..LenS |->
              IF c.side = "resp" /\ Dev_CapSkipsFraming /\ hdone /\ mode = "chunked" /\ k > hend THEN 0 ELSE TrueCounts[k]]
\* does the check that follows a read up to position p see more than the cap?  A big lexeme that has arrived partially
\* may or may not tip it.
OverAt(p) == LET full == SumF(Counted, base + 1, p \div 2)
                 part == IF p % 2 = 1 THEN Counted[(p \div 2) + 1] ELSE 0 IN
             IF full > CapQ THEN {TRUE} ELSE IF full + part > CapQ THEN {TRUE, FALSE} ELSE {FALSE}
Deliver(m) == out' = Append(out, m)

\* ---------------------------------------------------------------------------------------- server
\* handleIncomingData: append the segment; over MAX_BUFFER_SIZE -> close
SrvRecv(p) ==
    /\ c.side = "req" /\ pc = "idle" /\ p \in (arr + 1)..(2 * LenS) /\ (p = 2 * LenS \/ ncuts < MaxCuts)
    /\ arr' = p /\ ncuts' = IF p < 2 * LenS THEN ncuts + 1 ELSE ncuts
    /\ \E ov \in OverAt(p) :
         IF closed THEN UNCHANGED <<pc, out, closed>>
         ELSE IF FloodArrived(p) \/ ov THEN GiveUp /\ UNCHANGED pc
         ELSE pc' = "scan" /\ UNCHANGED <<out, closed>>
    /\ UNCHANGED <<c, base, hend, cpos, cbody, hdone, mode, fn>>

\* the length decision as the code took it before the repair (stoull, last Content-Length wins, "chunked" anywhere)
LenientCl(x) == LET v == Arg(x) \div 100  n == Arg(x) % 100 IN
    CASE Kind(x) \in {"CL", "CLL"} -> Fr("cl", Arg(x))
      [] Kind(x) = "CLX" /\ v \in {1, 2, 3} -> Fr("cl", n)
      [] OTHER -> Fr("reject", 0)
LenientFraming(H) ==
    IF \E k \in DOMAIN H : Kind(H[k]) = "TE" /\ Arg(H[k]) \in MentionsChunked THEN Fr("chunked", 0)
    ELSE LET K == {k \in DOMAIN H : Kind(H[k]) \in ClKinds} IN
         IF \E k \in K : LenientCl(H[k]).m = "reject" THEN Fr("reject", 0)
         ELSE IF K = {} THEN Fr("none", 0)
         ELSE LenientCl(H[CHOOSE k \in K : \A j \in K : j <= k])
SrvFraming(H) == IF Dev_LenientContentLength THEN LenientFraming(H) ELSE Framing("req", "-", s[base + 1], H)

\* one turn of the extraction loop: header terminator, length decision, complete body?
SrvScan ==
    /\ c.side = "req" /\ pc = "scan"
    /\ IF base + 1 > avail THEN pc' = "idle" /\ UNCHANGED <<base, hend, cpos, cbody, out, closed>>
       ELSE IF Kind(s[base + 1]) # "REQ" THEN
            \* bytes that are no request line: stray CRLF / trailer lines left by Dev_TrailerLeavesCrlf, junk.  As soon
            \* as a CRLF CRLF follows they are dispatched as a "request" and answered 400 + close
            LET E == {j \in (base + 2)..avail : Kind(s[j]) \in {"EOH", "EOC"}} IN
            IF E = {} THEN pc' = "idle" /\ UNCHANGED <<base, hend, cpos, cbody, out, closed>>
            ELSE GiveUp /\ pc' = "idle" /\ UNCHANGED <<base, hend, cpos, cbody>>
       ELSE LET he == HdrEnd(s, avail, base + 2) IN
            IF he = 0 THEN pc' = "idle" /\ UNCHANGED <<base, hend, cpos, cbody, out, closed>>
            ELSE IF ~Dev_NoHeadCap /\ HeadOver(s, base + 1, he)        \* headerEnd > MAX_HEADER_SIZE
                 THEN GiveUp /\ pc' = "idle" /\ UNCHANGED <<base, hend, cpos, cbody>>
            ELSE LET H == SubSeq(s, base + 2, he - 1) IN
                 IF \E k \in DOMAIN H : Kind(H[k]) \notin HdrKinds
                 THEN GiveUp /\ pc' = "idle" /\ UNCHANGED <<base, hend, cpos, cbody>>
                 ELSE LET f == SrvFraming(H) IN
                      CASE f.m = "reject" -> GiveUp /\ pc' = "idle" /\ UNCHANGED <<base, hend, cpos, cbody>>
                        [] f.m = "chunked" -> pc' = "chunk" /\ hend' = he /\ cpos' = he + 1 /\ cbody' = <<>>
                                              /\ UNCHANGED <<base, out, closed>>
                        [] OTHER ->
                            LET d == TakeData(s, avail, he + 1, f.n, <<>>) IN
                            CASE d.r = "done" -> Deliver(Msg(s[base + 1], RangeOf(H), {}, d.body)) /\ base' = d.next - 1
                                                 /\ pc' = "scan" /\ UNCHANGED <<hend, cpos, cbody, closed>>
                              [] d.r = "short" -> pc' = "idle" /\ UNCHANGED <<base, hend, cpos, cbody, out, closed>>
                              [] OTHER -> Deliver(Garbage) /\ closed' = TRUE /\ pc' = "idle"   \* framed by a guessed length
                                          /\ UNCHANGED <<base, hend, cpos, cbody>>
    /\ UNCHANGED <<c, arr, ncuts, hdone, mode, fn>>

SrvHdrs == RangeOf(SubSeq(s, base + 2, hend - 1))
SrvDeliverChunked(endLex, body) ==
    /\ Deliver(Msg(s[base + 1], SrvHdrs, {}, IF Dev_ChunkedBodyNotDecoded THEN RawBody ELSE body))
    /\ base' = endLex /\ pc' = "scan" /\ UNCHANGED <<hend, cpos, cbody, closed>>
SrvNeedMore == pc' = "idle" /\ UNCHANGED <<base, hend, cpos, cbody, out, closed>>
SrvBad == GiveUp /\ pc' = "idle" /\ UNCHANGED <<base, hend, cpos, cbody>>

\* findChunkedRequestEnd: one chunk-size line per step
SrvChunk ==
    /\ c.side = "req" /\ pc = "chunk"
    /\ IF cpos > avail THEN SrvNeedMore
       ELSE LET x == s[cpos]  v == Arg(x) \div 100  n == Arg(x) % 100 IN
            CASE Kind(x) = "CSZ" \/ (Kind(x) = "CSX" /\ v = 5 /\ Dev_LenientChunkSize) ->
                    LET d == TakeData(s, avail, cpos + 1, n, cbody) IN
                    IF d.r = "done" /\ d.next <= avail /\ Kind(s[d.next]) \in {"CEND", "CENDX"}
                    THEN (IF Kind(s[d.next]) = "CEND" \/ Dev_LenientChunkSize
                          THEN cpos' = d.next + 1 /\ cbody' = d.body /\ UNCHANGED <<base, hend, pc, out, closed>>
                          ELSE SrvBad)
                    ELSE IF d.r \in {"done", "short"} THEN SrvNeedMore ELSE SrvBad
              [] Kind(x) = "CSX" /\ v = 2 ->      \* 2^64 - 20: pos + size + 2 comes back to pos
                    IF Dev_ChunkPosWraps THEN pc' = "spin" /\ UNCHANGED <<base, hend, cpos, cbody, out, closed>> ELSE SrvBad
              [] Kind(x) = "CSX" /\ v \in {1, 3, 4} ->
                    IF Dev_BadChunkSizeWaitsForever THEN SrvNeedMore ELSE SrvBad
              [] Kind(x) = "CSX" /\ v = 6 ->      \* "-n" wraps to a huge size: the scan continues somewhere else
                    IF Dev_LenientChunkSize THEN Deliver(Garbage) /\ closed' = TRUE /\ pc' = "idle" /\ UNCHANGED <<base, hend, cpos, cbody>>
                    ELSE SrvBad
              [] Kind(x) = "LAST" ->
                    IF Dev_TrailerLeavesCrlf
                    THEN (IF cpos + 1 <= avail THEN SrvDeliverChunked(cpos + 1, cbody) ELSE SrvNeedMore)
                    ELSE LET t == TakeTrailers(s, avail, cpos + 1, cbody, {}) IN
                         CASE t.r = "done" -> SrvDeliverChunked(t.next - 1, cbody)
                           [] t.r = "short" -> SrvNeedMore
                           [] OTHER -> SrvBad
              [] OTHER -> SrvBad
    /\ UNCHANGED <<c, arr, ncuts, hdone, mode, fn>>

\* the defect F-15a as a state: the scan position never advances again
SrvSpin == c.side = "req" /\ pc = "spin" /\ UNCHANGED vars

\* ---------------------------------------------------------------------------------------- client
CliLive == c.side = "resp" /\ ~closed /\ pc # "done"
\* receive loop of executeRequest: append, cap, frameResponse
CliRecv(p) ==
    /\ CliLive /\ pc = "idle" /\ p \in (arr + 1)..LastData /\ (p = LastData \/ ncuts < MaxCuts)
    /\ arr' = p /\ ncuts' = IF p < LastData THEN ncuts + 1 ELSE ncuts
    /\ \E ov \in OverAt(p) :
         IF FloodArrived(p) \/ ov THEN GiveUp /\ UNCHANGED pc ELSE pc' = "frame" /\ UNCHANGED <<out, closed>>
    /\ UNCHANGED <<c, base, hend, cpos, cbody, hdone, mode, fn>>

\* receiveSync reports PeerClosed (after everything buffered was drained)
CliEof ==
    /\ CliLive /\ pc = "idle" /\ EofIdx # 0 /\ arr = 2 * (EofIdx - 1)
    /\ arr' = 2 * LenS
    /\ IF hdone /\ mode = "close"
       THEN LET d == TakeToEof(s, EofIdx, hend + 1, <<>>) IN
            Deliver(Msg(s[base + 1], RangeOf(SubSeq(s, base + 2, hend - 1)), {}, d.body)) /\ pc' = "done" /\ UNCHANGED closed
       ELSE closed' = TRUE /\ UNCHANGED <<out, pc>>         \* "connection closed before receiving complete response"
    /\ UNCHANGED <<c, ncuts, base, hend, cpos, cbody, hdone, mode, fn>>

\* frameResponse, header part: terminator search, parseHeaderBlock, interim responses, determineFraming
CliFrameHead ==
    /\ CliLive /\ pc = "frame" /\ ~hdone
    /\ IF base + 1 > avail THEN pc' = "idle" /\ UNCHANGED <<base, hend, cpos, cbody, hdone, mode, fn, out, closed>>
       ELSE LET he == HdrEnd(s, avail, base + 1) IN
            IF he = 0 THEN pc' = "idle" /\ UNCHANGED <<base, hend, cpos, cbody, hdone, mode, fn, out, closed>>
            ELSE LET H == SubSeq(s, base + 2, he - 1) IN
                 IF Kind(s[base + 1]) # "RESP" \/ \E k \in DOMAIN H : Kind(H[k]) \notin HdrKinds
                 THEN GiveUp /\ UNCHANGED <<base, hend, cpos, cbody, hdone, mode, fn, pc>>
                 ELSE LET f == Framing("resp", c.rm, s[base + 1], H) IN
                      CASE f.m = "interim" -> base' = he /\ UNCHANGED <<hend, cpos, cbody, hdone, mode, fn, out, closed, pc>>
                        [] f.m = "reject" -> GiveUp /\ UNCHANGED <<base, hend, cpos, cbody, hdone, mode, fn, pc>>
                        [] OTHER -> hdone' = TRUE /\ hend' = he /\ mode' = f.m /\ fn' = f.n /\ cpos' = he + 1 /\ cbody' = <<>>
                                    /\ UNCHANGED <<base, out, closed, pc>>
    /\ UNCHANGED <<c, arr, ncuts>>

CliHdrs == RangeOf(SubSeq(s, base + 2, hend - 1))
CliDone(body) == Deliver(Msg(s[base + 1], CliHdrs, {}, body)) /\ pc' = "done" /\ UNCHANGED <<cpos, cbody, closed>>
CliNeedMore == pc' = "idle" /\ UNCHANGED <<cpos, cbody, out, closed>>
CliBad == GiveUp /\ UNCHANGED <<cpos, cbody, pc>>
\* frameResponse, body part; advanceChunked one chunk-size line per step
CliFrameBody ==
    /\ CliLive /\ pc = "frame" /\ hdone
    /\ CASE mode = "none" -> CliDone(<<>>)
         [] mode = "cl" -> LET d == TakeData(s, avail, hend + 1, fn, <<>>) IN
                           IF d.r = "done" THEN CliDone(d.body) ELSE CliNeedMore
         [] mode = "close" -> CliNeedMore
         [] mode = "chunked" ->
              IF cpos > avail THEN CliNeedMore
              ELSE LET x == s[cpos] IN
                   CASE Kind(x) = "CSZ" ->
                          LET d == TakeData(s, avail, cpos + 1, Arg(x) % 100, cbody) IN
                          IF d.r = "done" /\ d.next <= avail
                          THEN (IF Kind(s[d.next]) = "CEND" THEN cpos' = d.next + 1 /\ cbody' = d.body /\ UNCHANGED <<pc, out, closed>>
                                ELSE CliBad)
                          ELSE IF d.r \in {"done", "short"} THEN CliNeedMore ELSE CliBad
                     [] Kind(x) = "LAST" ->
                          LET t == TakeTrailers(s, avail, cpos + 1, cbody, {}) IN
                          CASE t.r = "done" -> CliDone(cbody) [] t.r = "short" -> CliNeedMore [] OTHER -> CliBad
                     [] OTHER -> CliBad
    /\ UNCHANGED <<c, arr, ncuts, base, hend, hdone, mode, fn>>

SrvRecvStep == \E p \in 1..(2 * LenS) : SrvRecv(p)
CliRecvStep == \E p \in 1..(2 * LenS) : CliRecv(p)
Next == SrvRecvStep \/ SrvScan \/ SrvChunk \/ SrvSpin \/ CliRecvStep \/ CliEof \/ CliFrameHead \/ CliFrameBody
Spec == Init /\ [][Next]_vars

\* ============================================================================================ the property
Exp == Expected(c)
Need == IF LastT(Exp) \in {"any", "stall", "msgopt", "over"} THEN Len(Exp) - 1 ELSE Len(Exp)
SameM(a, b) == a.start = b.start /\ a.hdrs = b.hdrs /\ a.body = b.body
Same(a, b) == a.t = b.t /\ SameM(a, b)
\* whatever has been handed over so far is exactly what was encoded, in every state of every segmentation
Exact == \A k \in 1..Len(out) :
            IF k <= Need THEN Same(out[k], Exp[k])
            ELSE \/ LastT(Exp) = "any"
                 \/ LastT(Exp) \in {"stall", "over"} /\ k = Len(Exp) /\ out[k].t = "reject"
                 \/ LastT(Exp) = "msgopt" /\ k = Len(Exp) /\ (out[k].t = "reject" \/ (out[k].t = "msg" /\ SameM(out[k], Exp[k])))
                 \/ LastT(Exp) = "msgopt" /\ k > Len(Exp) /\ out[Len(Exp)].t = "msg"
Quiescent == \/ arr = 2 * LenS /\ pc \in {"idle", "done"}
             \/ c.side = "resp" /\ (closed \/ pc = "done")
\* ... and once the whole stream has arrived nothing is missing (with Exact: independent of the cuts), invalid
\* length information has been rejected, the caps have been enforced
Complete == Quiescent => (Len(out) >= Need /\ (LastT(Exp) = "over" => closed))
\* termination: no framing call stays in its loop
Terminates == pc # "spin"
\* buffered bytes never exceed the cap: a stream that is longer than the cap has been given up when it has arrived
\* - and likewise when what sits in the buffer weighs more than the cap, whatever those octets encode
BufOver == \/ SumF(TrueCounts, base + 1, avail) > CapQ
           \/ /\ c.side = "req" /\ base + 1 <= avail /\ Kind(s[base + 1]) = "REQ"
              /\ LET he == HdrEnd(s, avail, base + 2) IN he # 0 /\ HeadOver(s, base + 1, he)
Bounded == (pc \in {"idle", "done"} /\ (BufOver \/ \E j \in (base + 1)..avail : Kind(s[j]) = "FLOOD")) => closed
==============================================================================
