--------------------------- MODULE XmlBalanceTrace ---------------------------
(* Abs oracle of C14 as a trace specification.                                                                        *)
(*                                                                                                                    *)
(* Balance clause (stateful; holds for ARBITRARY input bytes, the oracle never looks at the input): the driver logs   *)
(* Doc, then one Tok per token the pull interface reported, then End with the verdict.  The oracle keeps the stack of *)
(* reported open elements and the observed maxima.                                                                    *)
(*   - every reported string_view lies inside the input (Tok.in)                                                      *)
(*   - accepted  =>  no end tag failed to match the top of the stack, the stack is empty, Balanced() by reduction     *)
(*                   agrees, and depth / attributes per element / name length / text span / token count as REPORTED   *)
(*                   are within the configured limits                                                                 *)
(*   - rejected  =>  0 <= error offset <= size of the input                                                           *)
(* Dec: Parser::decodeEntities on one reported slice, judged by XmlText!Decode: "yes" => succeeds with exactly that   *)
(*   value; "undef" (reference to an entity that is not predefined) => fails or leaves the reference as it stands;    *)
(*   "either" => no demand.                                                                                           *)
(* Api: the three interfaces on the same bytes.  SAX = pull (verdict and tokens); a DOM exists only if pull accepted  *)
(*   and then holds exactly the decoded pull tokens (a DOM builder that is STRICTER than the tokenizer on documents    *)
(*   that are not well-formed is allowed); nothing contains the replacement text of an internal or external entity.  If the event carries the generator's fields    *)
(*   (cls, xptoks, xdtoks, domcls, measures - copied from XmlDoc's case file) the document-level clauses are judged   *)
(*   too:  "wf" within the limits => accepted, pull tokens = xptoks, DOM = xdtoks (domcls "yes"; for "undef" the DOM   *)
(*   may also fail);  "unbal" => rejected by all three;  "wf" beyond a limit => rejected.                             *)
(* Limits: Doc / Api carry the five limits as the oracle compares them - exact below 2^30, 2^30 for every larger value    *)
(*   (TLC integers are 32-bit; every measure of a document is far below; see XmlLimits.tla, which generates the extreme  *)
(*   settings: 0, 1, 2^31, 2^32, 2^57..2^63, SIZE_MAX ...).  A document within the limits must be accepted under EVERY   *)
(*   such setting, and no exception may escape any interface (field exc of End / Api).                                   *)
(* Weak readings (recorded in C14.meta.json): token limit - the Eof token may or may not count (cntHi/cntLo);         *)
(*   white-space-only text may or may not be reported; text span may or may not include leading white space; a PI      *)
(*   target may or may not be subject to the name limit.                                                              *)
EXTENDS TraceBase, XmlText

CONSTANT Cap
VARIABLES bad, stack, unbal, hist, cnt, mx, doc
vars == <<l, bad, stack, unbal, hist, cnt, mx, doc>>

Mx0 == [d |-> 0, a |-> 0, nl |-> 0, tl |-> 0]
Doc0 == [n |-> 0, ld |-> 0, la |-> 0, ln |-> 0, lt |-> 0, lk |-> 0]
Init == l = 1 /\ bad = <<>> /\ stack = <<>> /\ unbal = FALSE /\ hist = <<>> /\ cnt = 0 /\ mx = Mx0 /\ doc = Doc0

Note(w) == IF w = "" THEN bad' = bad ELSE Len(bad) < Cap /\ bad' = Append(bad, <<l, w>>)
Keep == UNCHANGED <<stack, unbal, hist, cnt, mx, doc>>

EvDoc == /\ IsEv("Doc") /\ bad' = bad
         /\ stack' = <<>> /\ unbal' = FALSE /\ hist' = <<>> /\ cnt' = 0 /\ mx' = Mx0
         /\ doc' = [n |-> Ev.n, ld |-> Ev.ld, la |-> Ev.la, ln |-> Ev.ln, lt |-> Ev.lt, lk |-> Ev.lk]

EvTok ==
  /\ IsEv("Tok")
  /\ LET k == Ev.k
         match == stack # <<>> /\ stack[Len(stack)] = Ev.name
         depth == IF k \in {"S", "M"} THEN Len(stack) + 1 ELSE Len(stack)
     IN /\ stack' = IF k = "S" THEN Append(stack, Ev.name)
                    ELSE IF k = "E" /\ match THEN SubSeq(stack, 1, Len(stack) - 1) ELSE stack
        /\ unbal' = (unbal \/ (k = "E" /\ ~match))
        /\ hist' = CASE k = "S" -> Append(hist, <<"S", Ev.name>>)
                     [] k = "E" -> Append(hist, <<"E", Ev.name>>)
                     [] OTHER -> hist
        /\ mx' = [d |-> Max(mx.d, depth), a |-> Max(mx.a, Ev.na), nl |-> Max(mx.nl, Ev.nl), tl |-> Max(mx.tl, Ev.tl)]
  /\ cnt' = cnt + 1 /\ doc' = doc
  /\ Note(IF Ev.in THEN "" ELSE "a reported slice lies outside the input")

\* "terminates": the parser reports errors through error(); an exception that escapes next() / runSax / DomBuilder::build
\* (std::length_error, std::bad_alloc ... - e.g. a limit value used as an allocation size) is an abnormal end, whatever the
\* input and whatever the setting of the limits.  The driver catches it and names it in `exc` ("" = none).
Threw(e) == "exc" \in DOMAIN e /\ e.exc # ""
ExcWhy == "an exception escaped the parser (abnormal termination)"
EndWhy(e) ==
  IF Threw(e) THEN ExcWhy
  ELSE IF e.ok
  THEN IF unbal \/ stack # <<>> \/ ~Balanced(hist) THEN "accepted although the reported start/end tags are not balanced"
       ELSE IF mx.d > doc.ld THEN "accepted beyond the depth limit"
       ELSE IF mx.a > doc.la THEN "accepted beyond the attribute limit"
       ELSE IF mx.nl > doc.ln THEN "accepted beyond the name-length limit"
       ELSE IF mx.tl > doc.lt THEN "accepted beyond the text-span limit"
       ELSE IF doc.lk # 0 /\ cnt > doc.lk THEN "accepted beyond the token limit"
       ELSE ""
  ELSE IF e.off >= 0 /\ e.off <= doc.n THEN "" ELSE "error offset outside the input"
EvEnd == IsEv("End") /\ Note(EndWhy(Ev)) /\ Keep

DecWhy(e) == LET d == Decode(e.raw) IN
  IF d.cls = "yes" /\ (~e.ok \/ e.out # d.out) THEN "entity / character reference decoded to other bytes"
  ELSE IF d.cls = "undef" /\ e.ok /\ e.out # d.out THEN "a reference to an entity that is not predefined was replaced"
  ELSE ""
EvDec == IsEv("Dec") /\ Note(DecWhy(Ev)) /\ Keep

Gen(e) == "cls" \in DOMAIN e
Within(e) == e.dmax <= e.ld /\ e.amax <= e.la /\ e.nameHi <= e.ln /\ e.textHi <= e.lt /\ (e.lk = 0 \/ e.cntHi <= e.lk)
Beyond(e) == e.dmax > e.ld \/ e.amax > e.la \/ e.nameLo > e.ln \/ e.textLo > e.lt \/ (e.lk # 0 /\ e.cntLo > e.lk)
ApiWhy(e) ==
  IF Threw(e) THEN ExcWhy
  ELSE IF e.expanded THEN "an internal or external entity was expanded"
  ELSE IF e.sok # e.pok \/ e.stoks # e.ptoks THEN "SAX reports something else than the pull interface"
  ELSE IF e.dok /\ ~e.pok THEN "DOM built from a document the pull interface rejects"
  ELSE IF e.dok /\ e.decok /\ e.dtoks # e.pdtoks THEN "DOM differs from the decoded pull tokens"
  ELSE IF ~e.pok /\ ~(e.off >= 0 /\ e.off <= e.n) THEN "error offset outside the input"
  ELSE IF ~Gen(e) THEN ""
  ELSE IF e.cls = "unbal" /\ (e.pok \/ e.sok \/ e.dok) THEN "unbalanced document accepted"
  ELSE IF e.cls = "wf" /\ Beyond(e) /\ e.pok THEN "document beyond a limit accepted"
  ELSE IF e.cls = "wf" /\ Within(e) /\ ~e.pok THEN "well-formed document within the limits rejected"
  ELSE IF e.cls = "wf" /\ e.pok /\ e.ptoks # e.xptoks THEN "pull interface does not report the document's tokens"
  ELSE IF e.cls = "wf" /\ Within(e) /\ e.domcls = "yes" /\ (~e.dok \/ e.dtoks # e.xdtoks) THEN "DOM differs from the document"
  ELSE IF e.cls = "wf" /\ e.domcls = "undef" /\ e.dok /\ e.dtoks # e.xdtoks THEN "DOM replaced a reference to an entity that is not predefined"
  ELSE ""
EvApi == IsEv("Api") /\ Note(ApiWhy(Ev)) /\ Keep

EvReset == IsEv("Reset") /\ bad' = bad /\ stack' = <<>> /\ unbal' = FALSE /\ hist' = <<>> /\ cnt' = 0 /\ mx' = Mx0 /\ doc' = Doc0

Next == EvDoc \/ EvTok \/ EvEnd \/ EvDec \/ EvApi \/ EvReset
Spec == Init /\ [][Next]_vars

BadOut == /\ TLCSet(2, bad)
          /\ (l > Len(Log) /\ bad # <<>>) => PrintT("BADLINES " \o ToString(bad))
Post == TracePost /\ PrintT("BADLINES " \o ToString(TLCGet(2)))
\* evaluated on every step: the oracle's own stack never disagrees with balance-by-reduction
StackIsReduction == unbal <=> (\E i \in 1..Len(Reduce(hist)) : Reduce(hist)[i][1] = "E")
==============================================================================
