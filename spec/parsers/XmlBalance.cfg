SPECIFICATION Spec
CONSTANTS
  Names = {"a", "b"}
  MaxLen = 6
  MaxDepth = 2
  Dev_EndNoCompare = FALSE
  Dev_EofNoCheck = FALSE
  Dev_EndOnEmpty = FALSE
  Dev_DepthAfter = FALSE
INVARIANT AcceptedIsBalanced
INVARIANT AcceptedWithinDepth
INVARIANT ReportedIsInput
INVARIANT RejectedIsHopeless
CHECK_DEADLOCK FALSE
