------------------------------ MODULE JsonBatch ------------------------------
(* Evaluates JsonEval!Eval on a list of byte strings that did not come from the generator (seeded byte-level          *)
(* mutations): InFile is ndjson, one {"b":[bytes]} per line; line i of OutFile is  i|cls|val|exact|finite|measures.    *)
(* The check cross-checks these results against Python's json (set-up, infrastructure only) before it uses them as    *)
(* the expectation of the corresponding Parse events - the same path the generator's cases take.                      *)
EXTENDS JsonEval, CSV, Json, IOUtils

CONSTANTS InFile, OutFile
In == ndJsonDeserialize(InFile)

VARIABLE i
Init == i = 1
Next == i <= Len(In) /\ i' = i + 1
Spec == Init /\ [][Next]_i

Out == i <= Len(In) =>
       LET r == Eval(In[i].b) IN
       CSVWrite("%1$s|%2$s|%3$s|%4$s|%5$s|%6$s|%7$s|%8$s|%9$s|%10$s|%11$s|%12$s|%13$s",
                <<i, r.cls, r.val, r.exact, r.finite, r.vdepth, r.cdepth, r.amax, r.mmax, r.dmax, r.sHi, r.sLo, r.nstr>>, OutFile)
=============================================================================
