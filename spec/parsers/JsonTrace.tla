------------------------------ MODULE JsonTrace ------------------------------
(* Abs oracle of C13 as a trace specification.  One event per line, no state is carried between events (the cursor   *)
(* apart); an event is consumed only if it satisfies what the property statement demands:                             *)
(*                                                                                                                    *)
(*  Parse  - the real parser on one input with one setting of the limits.  The expected verdict / value / measures    *)
(*           are those of the generator state the input came from (fields cls, val, ... copied from JsonGrammar's     *)
(*           case file) or, for inputs the generator did not produce (field `bytes`), Eval(bytes) of JsonEval.        *)
(*             valid and within every limit          => accepted                                                      *)
(*             not derivable from RFC 8259, or valid but beyond a limit => rejected                                   *)
(*             accepted and valid                    => decoded value = the specification's value                     *)
(*             rejected                              => 0 <= reported offset <= size of the input                     *)
(*             parseOrThrow throws exactly when parse reports an error, and returns the same value                    *)
(*           Weak reading of the limit clauses (recorded in DESIGN/C13.meta): "within" uses the LARGER of the         *)
(*           plausible measures (open containers, members counted with duplicates, string length in source bytes),    *)
(*           "beyond" the SMALLER one (containers enclosing a value, distinct keys, code points).                     *)
(*  Dump   - the serializer on one value (`of` = its canonical form) with one setting of the options; `bytes` is the  *)
(*           output.  For values made of finite numbers and valid UTF-8: Eval(bytes) must be "yes" (RFC 8259-valid),  *)
(*           denote the same value (whenever the number forms in it are decided by JsonEval), and the real parser     *)
(*           must read it back to the same value.                                                                     *)
(*  Build  - a value constructed through the C++ API equals the value asked for (harness sanity).                     *)
(*  Store  - JsonFileStore: set, flush, reopen, get returns the value that was set.                                   *)
EXTENDS TraceBase, JsonEval

CONSTANT Cap      \* up to Cap events that break a clause are consumed and recorded in `bad` (reported together); the next
                  \* one blocks the trace.  Cap = 0: the first such event blocks.
VARIABLE bad      \* <<line, clause>> of the recorded events

Exp(e) == IF "cls" \in DOMAIN e THEN e ELSE Eval(e.bytes)

Within(x, e) == x.cdepth <= e.ld /\ x.amax <= e.la /\ x.mmax <= e.lm /\ x.sHi <= e.ls
Beyond(x, e) == x.vdepth > e.ld \/ x.amax > e.la \/ x.dmax > e.lm \/ x.sLo > e.ls

ParseWhy(e) == LET x == Exp(e) IN
  IF x.cls = "yes" /\ Within(x, e) /\ ~e.ok THEN "valid text within the limits rejected"
  ELSE IF x.cls = "no" /\ e.ok THEN "invalid text accepted"
  ELSE IF x.cls = "yes" /\ Beyond(x, e) /\ e.ok THEN "text beyond a limit accepted"
  ELSE IF e.ok /\ x.cls = "yes" /\ x.exact /\ e.oval # x.val THEN "wrong value"
  ELSE IF ~e.ok /\ ~(e.off >= 0 /\ e.off <= e.n) THEN "error offset outside the input"
  ELSE IF e.thr # ~e.ok \/ (e.ok /\ ~e.tsame) THEN "parseOrThrow disagrees with parse"
  ELSE ""

DumpWhy(e) ==
  IF ~(e.fin /\ e.u8) THEN ""
  ELSE LET r == Eval(e.bytes) IN
       IF r.cls # "yes" THEN "serializer output is not RFC 8259-valid"
       ELSE IF r.exact /\ r.val # e.of THEN "serializer output denotes another value"
       ELSE IF ~e.rok \/ e.rval # e.of THEN "serializer output does not parse back to an equal value"
       ELSE ""

Note(w) == IF w = "" THEN bad' = bad ELSE Len(bad) < Cap /\ bad' = Append(bad, <<l, w>>)

Next == \/ IsEv("Parse") /\ Note(ParseWhy(Ev))
        \/ IsEv("Dump") /\ Note(DumpWhy(Ev))
        \/ IsEv("Build") /\ Note(IF Ev.got = Ev.want THEN "" ELSE "value built through the API differs (harness)")
        \/ IsEv("Store") /\ Note(IF Ev.got = Ev.want THEN "" ELSE "JsonFileStore does not return the value that was set")
        \/ IsEv("Reset") /\ bad' = bad
Spec == l = 1 /\ bad = <<>> /\ [][Next]_<<l, bad>>

\* `bad` is printed when the whole trace has been consumed (before TraceChk stops TLC) or, if an event blocked, by Post
BadOut == /\ TLCSet(2, bad)
          /\ (l > Len(Log) /\ bad # <<>>) => PrintT("BADLINES " \o ToString(bad))
Post == TracePost /\ PrintT("BADLINES " \o ToString(TLCGet(2)))
=============================================================================
