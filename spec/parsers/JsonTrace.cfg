SPECIFICATION Spec
CONSTANTS
  Dev_UPlaceholder = FALSE
  Dev_CtlAccepted = FALSE
  Dev_VtFfSpace = FALSE
  Cap = 40
INVARIANT BadOut
INVARIANT TraceChk
POSTCONDITION Post
CHECK_DEADLOCK FALSE
