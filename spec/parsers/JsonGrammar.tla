----------------------------- MODULE JsonGrammar -----------------------------
(* C13 generator.  A state is a text under construction: `lex` is the list of lexemes emitted so far and `p` is the  *)
(* RFC 8259 evaluator state (JsonEval) after their bytes.  Any lexeme of the configured Alphabet may be emitted at   *)
(* any time, so the reachable states are ALL lexeme strings up to MaxLen - the valid texts, and the whole negative   *)
(* token space around them (missing colon, trailing comma, leading zero, bare minus, raw control characters, bad     *)
(* escapes, truncated \u, VT/FF, ...).  After the evaluator has died at most MaxDead lexemes are emitted (the killing *)
(* one included) - enough for a lenient parser to see its closing tokens.  EVERY reachable state is a case: its text  *)
(* is the byte string of `lex`, its expected verdict / value / measures are Result(p).  Cases are written to OutFile  *)
(* by the CaseOut "invariant" (evaluated once per distinct state).                                                    *)
(* A lexeme is a NAMED BYTE STRING; since the evaluator works on bytes the expected result is right whatever the      *)
(* concatenation happens to spell (D1 D7 is the number 17, BU2 D1 D7 is the escape ሗ).                           *)
EXTENDS JsonEval, CSV

CONSTANTS Alphabet,   \* set of lexeme names (subset of DOMAIN Lexeme)
          MaxLen,     \* lexemes per text
          MaxDead,    \* lexemes emitted at or after the first syntax error
          OutFile     \* case file written by CaseOut

Lexeme == [
  \* structural characters
  LB |-> <<91>>, RB |-> <<93>>, LC |-> <<123>>, RC |-> <<125>>, CM |-> <<44>>, CL |-> <<58>>,
  \* white space; VT, FF, NBSP and a byte-order mark are NOT JSON white space
  SP |-> <<32>>, HT |-> <<9>>, LF |-> <<10>>, CR |-> <<13>>, VT |-> <<11>>, FF |-> <<12>>,
  NBSP |-> <<194, 160>>, BOM |-> <<239, 187, 191>>,
  \* literals and near misses: true false null tru nul True NaN Infinity nulll
  T |-> <<116, 114, 117, 101>>, F |-> <<102, 97, 108, 115, 101>>, N |-> <<110, 117, 108, 108>>,
  Ltru |-> <<116, 114, 117>>, Lnul |-> <<110, 117, 108>>, LTrue |-> <<84, 114, 117, 101>>,
  LNaN |-> <<78, 97, 78>>, LInf |-> <<73, 110, 102, 105, 110, 105, 116, 121>>, Lnulll |-> <<110, 117, 108, 108, 108>>,
  \* number characters  - + 0 1 7 . e E
  MN |-> <<45>>, PL |-> <<43>>, D0 |-> <<48>>, D1 |-> <<49>>, D7 |-> <<55>>, DOT |-> <<46>>, Ee |-> <<101>>, EE |-> <<69>>,
  \* number forms: 12 -12 0.5 1e2 1E-7 1.5e+3 -0 -0.0 0e0 1e400 -1e400 1e-400
  n12 |-> <<49, 50>>, nm12 |-> <<45, 49, 50>>, n0_5 |-> <<48, 46, 53>>, n1e2 |-> <<49, 101, 50>>,
  n1Em7 |-> <<49, 69, 45, 55>>, n1_5ep3 |-> <<49, 46, 53, 101, 43, 51>>, nm0 |-> <<45, 48>>, nm0_0 |-> <<45, 48, 46, 48>>,
  n0e0 |-> <<48, 101, 48>>, n1e400 |-> <<49, 101, 52, 48, 48>>, nm1e400 |-> <<45, 49, 101, 52, 48, 48>>,
  n1em400 |-> <<49, 101, 45, 52, 48, 48>>,
  \* 123456789012345678901   0.1234567890123456789   9007199254740993 (2^53+1)
  nbig21 |-> <<49, 50, 51, 52, 53, 54, 55, 56, 57, 48, 49, 50, 51, 52, 53, 54, 55, 56, 57, 48, 49>>,
  nfrac19 |-> <<48, 46, 49, 50, 51, 52, 53, 54, 55, 56, 57, 48, 49, 50, 51, 52, 53, 54, 55, 56, 57>>,
  n2p53p1 |-> <<57, 48, 48, 55, 49, 57, 57, 50, 53, 52, 55, 52, 48, 57, 57, 51>>,
  \* 9223372036854775807  9223372036854775808  -9223372036854775808
  ni64max |-> <<57, 50, 50, 51, 51, 55, 50, 48, 51, 54, 56, 53, 52, 55, 55, 53, 56, 48, 55>>,
  ni64maxp1 |-> <<57, 50, 50, 51, 51, 55, 50, 48, 51, 54, 56, 53, 52, 55, 55, 53, 56, 48, 56>>,
  ni64min |-> <<45, 57, 50, 50, 51, 51, 55, 50, 48, 51, 54, 56, 53, 52, 55, 55, 53, 56, 48, 56>>,
  \* 1.7976931348623157e308  5e-324  2.2250738585072014e-308  1e308  0.30000000000000004
  ndblmax |-> <<49, 46, 55, 57, 55, 54, 57, 51, 49, 51, 52, 56, 54, 50, 51, 49, 53, 55, 101, 51, 48, 56>>,
  ndenmin |-> <<53, 101, 45, 51, 50, 52>>,
  ndblmin |-> <<50, 46, 50, 50, 53, 48, 55, 51, 56, 53, 56, 53, 48, 55, 50, 48, 49, 52, 101, 45, 51, 48, 56>>,
  n1e308 |-> <<49, 101, 51, 48, 56>>,
  n0_3x |-> <<48, 46, 51, 48, 48, 48, 48, 48, 48, 48, 48, 48, 48, 48, 48, 48, 48, 48, 52>>,
  \* 1.0  100  1e0007  0.1  0.3333333333333333
  n1_0 |-> <<49, 46, 48>>, n100 |-> <<49, 48, 48>>, n1e0007 |-> <<49, 101, 48, 48, 48, 55>>, n0_1 |-> <<48, 46, 49>>,
  nthird |-> <<48, 46, 51, 51, 51, 51, 51, 51, 51, 51, 51, 51, 51, 51, 51, 51, 51, 51>>,
  \* malformed numbers: 01  1.  .5  1e  1e+  +1  0x1  1.e1  -01
  b01 |-> <<48, 49>>, b1dot |-> <<49, 46>>, bdot5 |-> <<46, 53>>, b1e |-> <<49, 101>>, b1ep |-> <<49, 101, 43>>,
  bp1 |-> <<43, 49>>, b0x1 |-> <<48, 120, 49>>, b1_e1 |-> <<49, 46, 101, 49>>, bm01 |-> <<45, 48, 49>>,
  \* string pieces: quote  x  k  /  DEL
  Q |-> <<34>>, X |-> <<120>>, K |-> <<107>>, SL |-> <<47>>, DEL |-> <<127>>,
  \* two-character escapes  \" \\ \/ \b \f \n \r \t
  EQ |-> <<92, 34>>, EB |-> <<92, 92>>, ES |-> <<92, 47>>, Eb |-> <<92, 98>>, Ef |-> <<92, 102>>, En |-> <<92, 110>>,
  Er |-> <<92, 114>>, Et |-> <<92, 116>>,
  \* A é é € \u0000 \u001f \u007f \u0080 ߿ ࠀ ퟿  ￿ k
  uA |-> <<92, 117, 48, 48, 52, 49>>, ue9 |-> <<92, 117, 48, 48, 101, 57>>, uE9 |-> <<92, 117, 48, 48, 69, 57>>,
  u20ac |-> <<92, 117, 50, 48, 97, 99>>, u0000 |-> <<92, 117, 48, 48, 48, 48>>, u001f |-> <<92, 117, 48, 48, 49, 102>>,
  u007f |-> <<92, 117, 48, 48, 55, 102>>, u0080 |-> <<92, 117, 48, 48, 56, 48>>, u07ff |-> <<92, 117, 48, 55, 102, 102>>,
  u0800 |-> <<92, 117, 48, 56, 48, 48>>, ud7ff |-> <<92, 117, 100, 55, 102, 102>>, ue000 |-> <<92, 117, 101, 48, 48, 48>>,
  uffff |-> <<92, 117, 102, 102, 102, 102>>, u006b |-> <<92, 117, 48, 48, 54, 98>>,
  \* surrogate pairs 😀 𐀀 􏿿 and the halves \ud83d, \ude00 on their own
  uPair |-> <<92, 117, 100, 56, 51, 100, 92, 117, 100, 101, 48, 48>>,
  uPairLo |-> <<92, 117, 100, 56, 48, 48, 92, 117, 100, 99, 48, 48>>,
  uPairHi |-> <<92, 117, 100, 98, 102, 102, 92, 117, 100, 102, 102, 102>>,
  uHi |-> <<92, 117, 100, 56, 51, 100>>, uLo |-> <<92, 117, 100, 101, 48, 48>>,
  \* raw UTF-8: e-acute, euro sign, U+1F600
  Re9 |-> <<195, 169>>, Reur |-> <<226, 130, 172>>, Remo |-> <<240, 159, 152, 128>>,
  \* raw control characters
  C00 |-> <<0>>, C01 |-> <<1>>, C1F |-> <<31>>,
  \* bad escapes  \x  \'  \u12  \u00g1  \U0041  a lone backslash  \u
  BX |-> <<92, 120>>, BA |-> <<92, 39>>, BU2 |-> <<92, 117, 49, 50>>, BUg |-> <<92, 117, 48, 48, 103, 49>>,
  BUU |-> <<92, 85, 48, 48, 52, 49>>, BS |-> <<92>>, BU0 |-> <<92, 117>>,
  \* bytes that are not UTF-8: ff  c0 80 (overlong)  e2 82 (truncated)  ed a0 80 (encoded surrogate)  80
  Iff |-> <<255>>, Ic080 |-> <<192, 128>>, Ie282 |-> <<226, 130>>, Ieda080 |-> <<237, 160, 128>>, I80 |-> <<128>>,
  \* whole strings and members  ""  "k"  "x"  "k":  "x":  "k":  "":
  SE |-> <<34, 34>>, SK |-> <<34, 107, 34>>, SX |-> <<34, 120, 34>>, SKC |-> <<34, 107, 34, 58>>,
  SXC |-> <<34, 120, 34, 58>>, SUKC |-> <<34, 92, 117, 48, 48, 54, 98, 34, 58>>, SEC |-> <<34, 34, 58>>
]

ASSUME Alphabet \subseteq DOMAIN Lexeme

VARIABLES lex, p, dead
vars == <<lex, p, dead>>

Init == lex = <<>> /\ p = P0 /\ dead = 0

Emit(a) == /\ Len(lex) < MaxLen
           /\ p.st = "X" => dead < MaxDead
           /\ lex' = Append(lex, a)
           /\ p' = Feed(p, Lexeme[a])
           /\ dead' = IF p'.st = "X" THEN dead + 1 ELSE 0

Next == \E a \in Alphabet : Emit(a)
Spec == Init /\ [][Next]_vars

RECURSIVE Bytes(_)
Bytes(s) == IF s = <<>> THEN <<>> ELSE Lexeme[Head(s)] \o Bytes(Tail(s))

\* ---------------------------------------------------------------------------------------------- invariants
R == Result(p)
TypeOK == p.st \in States /\ dead \in 0..MaxDead /\ Len(lex) <= MaxLen
\* the relations between the measures that the weak reading of the limit clauses relies on
MeasuresOK == /\ R.vdepth <= R.cdepth /\ R.cdepth <= R.vdepth + 1
              /\ R.dmax <= R.mmax /\ R.sLo <= R.sHi
\* a verdict other than "no" needs every container closed; a dead evaluator never recovers
VerdictOK == /\ R.cls # "no" => (Finish(p).stack = <<>> /\ p.st # "X" /\ R.val # "")
             /\ p.st = "X" => R.cls = "no"
\* the evaluator is a function of the bytes, not of how they were grouped into lexemes
ByteLevel == Eval(Bytes(lex)) = R

CaseOut == CSVWrite("%1$s|%2$s|%3$s|%4$s|%5$s|%6$s|%7$s|%8$s|%9$s|%10$s|%11$s|%12$s|%13$s|%14$s",
                    <<lex, Bytes(lex), R.cls, R.val, R.exact, R.finite, R.vdepth, R.cdepth, R.amax, R.mmax, R.dmax,
                      R.sHi, R.sLo, R.nstr>>, OutFile)
=============================================================================
