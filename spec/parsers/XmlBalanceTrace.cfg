SPECIFICATION Spec
CONSTANTS
  Cap = 40
INVARIANT BadOut
INVARIANT StackIsReduction
INVARIANT TraceChk
POSTCONDITION Post
CHECK_DEADLOCK FALSE
