----------------------------- MODULE XmlBalance -----------------------------
(* C14, tag-balance clause: "a document is accepted only if every start tag is closed by a matching end tag in       *)
(* proper nesting and the depth limit holds".                                                                         *)
(* Impl-shaped: the element stack of xml.hpp (readStartOrEmptyTag pushes, readEndTag compares with the top and pops,  *)
(* emitEof checks for leftovers, the depth limit is tested before the push), driven by an arbitrary token sequence of *)
(* at most MaxLen tokens over Names.  `hist` records the Start/End tokens that were REPORTED.  The property is stated *)
(* on `hist` with the reduction-based Balanced() of XmlText - not with the stack - so the stack machine is checked     *)
(* against an independent definition.  Dev_* are the realistic ways to get it wrong (self-test: each must be seen).    *)
EXTENDS XmlText

CONSTANTS Names, MaxLen, MaxDepth,
          Dev_EndNoCompare,     \* end tag pops without comparing the name
          Dev_EofNoCheck,       \* end of input accepted with open elements
          Dev_EndOnEmpty,       \* an end tag on an empty stack is ignored instead of rejected
          Dev_DepthAfter        \* depth limit compared with > instead of >= (one level too many)

VARIABLES stack, hist, verdict, n,
          input                 \* ghost: the Start/End tokens of the document read so far (Empty(x) = Start(x) End(x))
vars == <<stack, hist, verdict, n, input>>

Init == stack = <<>> /\ hist = <<>> /\ verdict = "run" /\ n = 0 /\ input = <<>>

Running == verdict = "run" /\ n < MaxLen
TooDeep == IF Dev_DepthAfter THEN Len(stack) + 1 > MaxDepth + 1 ELSE Len(stack) + 1 > MaxDepth

Start(x) == /\ Running /\ n' = n + 1 /\ input' = Append(input, <<"S", x>>)
            /\ IF TooDeep THEN verdict' = "reject" /\ UNCHANGED <<stack, hist>>
               ELSE stack' = Append(stack, x) /\ hist' = Append(hist, <<"S", x>>) /\ UNCHANGED verdict
Empty(x) == /\ Running /\ n' = n + 1 /\ input' = input \o <<<<"S", x>>, <<"E", x>>>>
            /\ IF TooDeep THEN verdict' = "reject" /\ UNCHANGED <<stack, hist>>
               ELSE hist' = hist \o <<<<"S", x>>, <<"E", x>>>> /\ UNCHANGED <<stack, verdict>>
End(x) == /\ Running /\ n' = n + 1 /\ input' = Append(input, <<"E", x>>)
          /\ IF stack = <<>>
             THEN IF Dev_EndOnEmpty THEN UNCHANGED <<stack, hist, verdict>> ELSE verdict' = "reject" /\ UNCHANGED <<stack, hist>>
             ELSE IF stack[Len(stack)] = x \/ Dev_EndNoCompare
                  THEN stack' = SubSeq(stack, 1, Len(stack) - 1) /\ hist' = Append(hist, <<"E", x>>) /\ UNCHANGED verdict
                  ELSE verdict' = "reject" /\ UNCHANGED <<stack, hist>>
Other == Running /\ n' = n + 1 /\ UNCHANGED <<stack, hist, verdict, input>>     \* text, CDATA, comment, PI, doctype
Eof == /\ verdict = "run"
       /\ verdict' = IF stack = <<>> \/ Dev_EofNoCheck THEN "accept" ELSE "reject"
       /\ UNCHANGED <<stack, hist, n, input>>

Next == Other \/ Eof \/ \E x \in Names : Start(x) \/ End(x) \/ Empty(x)
Spec == Init /\ [][Next]_vars

\* the property, on the document and on what was reported
AcceptedIsBalanced == verdict = "accept" => (Balanced(input) /\ Balanced(hist))
AcceptedWithinDepth == verdict = "accept" => Nesting(input, 0, 0) <= MaxDepth
ReportedIsInput == verdict # "reject" => hist = input
\* no false rejection: a rejected prefix cannot be completed to a balanced document within the depth limit
Hopeless(s) == (\E i \in 1..Len(Reduce(s)) : Reduce(s)[i][1] = "E") \/ Nesting(s, 0, 0) > MaxDepth
RejectedIsHopeless == verdict = "reject" => (Hopeless(input) \/ (n <= MaxLen /\ Reduce(input) # <<>>))
=============================================================================
