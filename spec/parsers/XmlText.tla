------------------------------ MODULE XmlText ------------------------------
(* Pure definitions shared by the C14 specifications (no variables):                                                 *)
(*   - hex rendering of byte strings (the canonical form in which slices and decoded values are compared)            *)
(*   - Decode(raw): XML 1.0 character data with references -> bytes.  Only the five predefined entities and numeric   *)
(*     character references to legal XML Chars have a value; a reference to any other named entity is "undef" - it    *)
(*     must never be replaced (the decoder either fails or leaves the reference as it stands); everything that is not *)
(*     well-formed character data (a bare '&', a reference to U+0000, a surrogate, > U+10FFFF, an empty digit string,   *)
(*     more than 7 SIGNIFICANT digits) is "either": the property makes no demand on it.  Leading zeros are legal in   *)
(*     any number and do not change the value (&#x0001F4A9; &#00008364;); hex digits may be of either case.           *)
(*   - Balanced(toks): the tag-balance clause defined by REDUCTION (delete adjacent Start(n) End(n) pairs), i.e.      *)
(*     independently of the stack machines in XmlBalance.tla / XmlBalanceTrace.tla that are checked against it.       *)
EXTENDS Integers, Sequences, FiniteSets, TLC

Max(a, b) == IF a > b THEN a ELSE b
HexD == <<"0", "1", "2", "3", "4", "5", "6", "7", "8", "9", "a", "b", "c", "d", "e", "f">>
HexByte(b) == HexD[(b \div 16) + 1] \o HexD[(b % 16) + 1]
RECURSIVE HexOf(_)
HexOf(s) == IF s = <<>> THEN "" ELSE HexByte(Head(s)) \o HexOf(Tail(s))
RECURSIVE JoinWith(_, _)
JoinWith(s, sep) == IF s = <<>> THEN "" ELSE IF Len(s) = 1 THEN s[1] ELSE s[1] \o sep \o JoinWith(Tail(s), sep)

Utf8(v) == IF v < 128 THEN <<v>>
           ELSE IF v < 2048 THEN <<192 + (v \div 64), 128 + (v % 64)>>
           ELSE IF v < 65536 THEN <<224 + (v \div 4096), 128 + ((v \div 64) % 64), 128 + (v % 64)>>
           ELSE <<240 + (v \div 262144), 128 + ((v \div 4096) % 64), 128 + ((v \div 64) % 64), 128 + (v % 64)>>

IsXmlWs(b) == b \in {32, 9, 10, 13}
AllWs(s) == \A i \in 1..Len(s) : IsXmlWs(s[i])
RECURSIVE StripLeadWs(_)
StripLeadWs(s) == IF s # <<>> /\ IsXmlWs(Head(s)) THEN StripLeadWs(Tail(s)) ELSE s

\* XML 1.0 production [2] Char
LegalChar(c) == c \in {9, 10, 13} \/ (c >= 32 /\ c <= 55295) \/ (c >= 57344 /\ c <= 65533) \/ (c >= 65536 /\ c <= 1114111)

HexVal(b) == IF b \in 48..57 THEN b - 48 ELSE IF b \in 65..70 THEN b - 55 ELSE IF b \in 97..102 THEN b - 87 ELSE -1
RECURSIVE NumVal(_, _)
NumVal(s, base) == IF s = <<>> THEN 0 ELSE NumVal(SubSeq(s, 1, Len(s) - 1), base) * base + HexVal(s[Len(s)])

RECURSIVE StripZeros(_)
StripZeros(s) == IF s # <<>> /\ Head(s) = 48 THEN StripZeros(Tail(s)) ELSE s

\* the entity body between '&' and ';'  ->  [cls, out]
EntityValue(ent) ==
  CASE ent = <<108, 116>> -> [cls |-> "yes", out |-> <<60>>]                     \* lt
    [] ent = <<103, 116>> -> [cls |-> "yes", out |-> <<62>>]                     \* gt
    [] ent = <<97, 109, 112>> -> [cls |-> "yes", out |-> <<38>>]                 \* amp
    [] ent = <<97, 112, 111, 115>> -> [cls |-> "yes", out |-> <<39>>]            \* apos
    [] ent = <<113, 117, 111, 116>> -> [cls |-> "yes", out |-> <<34>>]           \* quot
    [] ent # <<>> /\ ent[1] = 35 ->                                              \* #...
         LET hex == Len(ent) >= 2 /\ ent[2] = 120                                \* 'x' (XML allows the lower-case x only)
             digs == IF hex THEN SubSeq(ent, 3, Len(ent)) ELSE SubSeq(ent, 2, Len(ent))
             sig == StripZeros(digs)                                             \* leading zeros carry no value: any number is legal
             okdig == digs # <<>> /\ Len(sig) <= 7                               \* (CharRef ::= '&#' [0-9]+ ';' | '&#x' [0-9a-fA-F]+ ';')
                      /\ \A i \in 1..Len(digs) : IF hex THEN HexVal(digs[i]) >= 0 ELSE digs[i] \in 48..57
             v == NumVal(sig, IF hex THEN 16 ELSE 10)
         IN IF okdig /\ LegalChar(v) THEN [cls |-> "yes", out |-> Utf8(v)] ELSE [cls |-> "either", out |-> <<>>]
    [] OTHER -> [cls |-> "undef", out |-> <<38>> \o ent \o <<59>>]               \* &name; stays as it is

RECURSIVE FindByte(_, _, _)
FindByte(s, b, i) == IF i > Len(s) THEN 0 ELSE IF s[i] = b THEN i ELSE FindByte(s, b, i + 1)

Worse(a, b) == IF a = "either" \/ b = "either" THEN "either" ELSE IF a = "undef" \/ b = "undef" THEN "undef" ELSE "yes"
RECURSIVE DecodeFrom(_, _, _, _)
DecodeFrom(s, i, out, cls) ==
  IF i > Len(s) THEN [cls |-> cls, out |-> out]
  ELSE IF s[i] # 38 THEN DecodeFrom(s, i + 1, Append(out, s[i]), cls)
  ELSE LET j == FindByte(s, 59, i + 1) IN
       IF j = 0 THEN [cls |-> "either", out |-> out]                             \* '&' without ';'
       ELSE LET r == EntityValue(SubSeq(s, i + 1, j - 1)) IN DecodeFrom(s, j + 1, out \o r.out, Worse(cls, r.cls))
Decode(s) == DecodeFrom(s, 1, <<>>, "yes")

\* ---------------------------------------------------------------------------------------------- balance by reduction
\* toks: sequence of <<"S", name>> / <<"E", name>> (everything else removed by the caller)
RECURSIVE Reduce(_)
Reduce(s) == LET I == {i \in 1..(Len(s) - 1) : s[i][1] = "S" /\ s[i + 1][1] = "E" /\ s[i][2] = s[i + 1][2]} IN
             IF I = {} THEN s
             ELSE LET i == CHOOSE x \in I : \A y \in I : x <= y IN Reduce(SubSeq(s, 1, i - 1) \o SubSeq(s, i + 2, Len(s)))
Balanced(s) == Reduce(s) = <<>>
\* deepest nesting of a balanced sequence: longest run of unmatched starts over all prefixes
RECURSIVE Nesting(_, _, _)
Nesting(s, cur, best) == IF s = <<>> THEN best
                         ELSE IF Head(s)[1] = "S" THEN Nesting(Tail(s), cur + 1, Max(best, cur + 1))
                         ELSE Nesting(Tail(s), cur - 1, best)
=============================================================================
