------------------------------ MODULE JsonEval ------------------------------
(* RFC 8259 as an evaluator over BYTES (0..255): Step(p, b) consumes one byte, Result(p) is the verdict and the    *)
(* decoded value of the text consumed so far.  The module is pure (no variables): JsonGrammar.tla drives it as a    *)
(* generator (lexemes are named byte strings), JsonTrace.tla uses it as the oracle for byte strings that did not    *)
(* come from the generator (serializer output, mutated inputs).  Working on bytes means there is no tokenisation    *)
(* ambiguity: whatever lexemes are concatenated, the verdict is that of the resulting byte string.                  *)
(*                                                                                                                  *)
(* Verdict classes:  "yes"    RFC 8259-valid, value defined                                                         *)
(*                   "no"     not derivable from the grammar of RFC 8259 sect. 2-7                                  *)
(*                   "either" the RFC leaves the outcome open or the property makes no demand: a string holds bytes *)
(*                            that are not well-formed UTF-8, an unpaired \uD800-\uDFFF escape, or a leading BOM    *)
(* Canonical value (a string, also produced by the driver from the real Json object):                               *)
(*   null n   true t   false f   number #<digits>e<exp> (decimal mantissa without leading/trailing zeros, #0 for any *)
(*   zero, #inf / #-inf beyond the double range, #? = not decided here)   string '<hex of the UTF-8 bytes>'         *)
(*   array [v,v]   object {'<hexkey>':v,...} keys in byte order, last duplicate wins                                *)
(* Measures for the limit clauses (weak reading, see JsonTrace): vdepth = largest number of containers enclosing a  *)
(* value, cdepth = largest number of open containers, amax = longest array, mmax/dmax = most members / distinct     *)
(* keys of an object, sHi/sLo = longest string in source bytes between the quotes / in code points.                 *)
(* Dev_* : the deviations of the unrepaired parser (DESIGN sect.5 F-13a/c); FALSE in every judging configuration,   *)
(* TRUE only in the self-test that shows the oracle tells the difference.                                           *)
EXTENDS Integers, Sequences, FiniteSets, TLC

CONSTANTS Dev_UPlaceholder,   \* \uXXXX decodes to '?' (one per escape)
          Dev_CtlAccepted,    \* raw bytes < 0x20 accepted inside strings
          Dev_VtFfSpace       \* VT and FF skipped as white space

Max(a, b) == IF a > b THEN a ELSE b
HexD == <<"0", "1", "2", "3", "4", "5", "6", "7", "8", "9", "a", "b", "c", "d", "e", "f">>
HexByte(b) == HexD[(b \div 16) + 1] \o HexD[(b % 16) + 1]
RECURSIVE HexOf(_)
HexOf(s) == IF s = <<>> THEN "" ELSE HexByte(Head(s)) \o HexOf(Tail(s))
RECURSIVE DigStr(_)
DigStr(s) == IF s = <<>> THEN "" ELSE HexD[Head(s) + 1] \o DigStr(Tail(s))
RECURSIVE JoinC(_)
JoinC(s) == IF s = <<>> THEN "" ELSE IF Len(s) = 1 THEN s[1] ELSE s[1] \o "," \o JoinC(Tail(s))

Utf8(v) == IF v < 128 THEN <<v>>
           ELSE IF v < 2048 THEN <<192 + (v \div 64), 128 + (v % 64)>>
           ELSE IF v < 65536 THEN <<224 + (v \div 4096), 128 + ((v \div 64) % 64), 128 + (v % 64)>>
           ELSE <<240 + (v \div 262144), 128 + ((v \div 4096) % 64), 128 + ((v \div 64) % 64), 128 + (v % 64)>>

HexVal(b) == IF b \in 48..57 THEN b - 48 ELSE IF b \in 65..70 THEN b - 55 ELSE IF b \in 97..102 THEN b - 87 ELSE -1

\* ---------------------------------------------------------------------------------------------- objects
RECURSIVE SeqLess(_, _)
SeqLess(a, b) == IF a = <<>> THEN b # <<>>
                 ELSE IF b = <<>> THEN FALSE
                 ELSE IF Head(a) # Head(b) THEN Head(a) < Head(b)
                 ELSE SeqLess(Tail(a), Tail(b))
RECURSIVE SortKeys(_)
SortKeys(S) == IF S = {} THEN <<>>
               ELSE LET m == CHOOSE x \in S : \A y \in S \ {x} : SeqLess(x, y) IN <<m>> \o SortKeys(S \ {m})
LastVal(ms, k) == LET i == CHOOSE i \in 1..Len(ms) : ms[i].k = k /\ \A j \in (i + 1)..Len(ms) : ms[j].k # k IN ms[i].v
ObjCanon(ms) == LET ks == SortKeys({ms[i].k : i \in 1..Len(ms)}) IN
                "{" \o JoinC([i \in 1..Len(ks) |-> "'" \o HexOf(ks[i]) \o "':" \o LastVal(ms, ks[i])]) \o "}"

\* ---------------------------------------------------------------------------------------------- numbers
\* Decimal forms that are longer than 15 significant digits or near the ends of the double range: the value a decoder
\* based on IEEE-754 binary64 yields, as the shortest decimal that identifies it (key and value: <digits>e<exponent>).
LongForms == ( "123456789012345678901e0" :> "12345678901234568e4" ) @@
             ( "1234567890123456789e-19" :> "12345678901234568e-17" ) @@
             ( "9223372036854775807e0" :> "9223372036854776e3" ) @@
             ( "9223372036854775808e0" :> "9223372036854776e3" ) @@
             ( "-9223372036854775808e0" :> "-9223372036854776e3" ) @@
             ( "17976931348623157e292" :> "17976931348623157e292" ) @@
             ( "-17976931348623157e292" :> "-17976931348623157e292" ) @@
             ( "5e-324" :> "5e-324" ) @@
             ( "22250738585072014e-324" :> "22250738585072014e-324" ) @@
             ( "1e308" :> "1e308" ) @@
             ( "30000000000000004e-17" :> "30000000000000004e-17" ) @@
             ( "3333333333333333e-16" :> "3333333333333333e-16" )
\* 19-digit INTEGER literals (no fraction, no exponent) that fit a signed 64-bit integer keep their exact value
LongInts == {"9223372036854775807e0", "-9223372036854775808e0"}

RECURSIVE LeadZ(_)
LeadZ(s) == IF s # <<>> /\ Head(s) = 0 THEN 1 + LeadZ(Tail(s)) ELSE 0
RECURSIVE TrailZ(_)
TrailZ(s) == IF s # <<>> /\ s[Len(s)] = 0 THEN 1 + TrailZ(SubSeq(s, 1, Len(s) - 1)) ELSE 0
RECURSIVE SeqInt(_)
SeqInt(s) == IF s = <<>> THEN 0 ELSE 10 * SeqInt(SubSeq(s, 1, Len(s) - 1)) + s[Len(s)]
ExpVal(s) == LET t == SubSeq(s, LeadZ(s) + 1, Len(s)) IN IF Len(t) > 6 THEN 999999 ELSE SeqInt(t)

NumCanon(p) ==
  LET D == p.idig \o p.fdig
      ev == ExpVal(p.edig)
      e0 == (IF p.eneg THEN 0 - ev ELSE ev) - Len(p.fdig)
      lz == LeadZ(D)
      D1 == SubSeq(D, lz + 1, Len(D))
      tz == TrailZ(D1)
      M == SubSeq(D1, 1, Len(D1) - tz)
      e1 == e0 + tz
      X == e1 + Len(M) - 1                                   \* exponent in scientific notation
      sign == IF p.neg THEN "-" ELSE ""
      isint == p.fdig = <<>> /\ ~p.hasexp
      form == sign \o DigStr(M) \o "e" \o ToString(e1)
  IN IF M = <<>> THEN [c |-> "#0", exact |-> TRUE, finite |-> TRUE]
     ELSE IF X >= 309 THEN [c |-> "#" \o sign \o "inf", exact |-> TRUE, finite |-> FALSE]
     ELSE IF X <= -325 THEN [c |-> "#0", exact |-> TRUE, finite |-> TRUE]
     ELSE IF (Len(M) <= 15 /\ X >= -300 /\ X <= 300) \/ (isint /\ (Len(p.idig) <= 18 \/ form \in LongInts))
          THEN [c |-> "#" \o form, exact |-> TRUE, finite |-> TRUE]
     ELSE IF form \in DOMAIN LongForms THEN [c |-> "#" \o LongForms[form], exact |-> TRUE, finite |-> TRUE]
     ELSE [c |-> "#?", exact |-> FALSE, finite |-> TRUE]

\* ---------------------------------------------------------------------------------------------- parser state
NoFrame == [k |-> "a", items |-> <<>>, ms |-> <<>>, key |-> <<>>]
P0 == [st |-> "B", stack |-> <<>>, top |-> "", unspec |-> FALSE, exact |-> TRUE, finite |-> TRUE,
       vdepth |-> 0, cdepth |-> 0, amax |-> 0, mmax |-> 0, dmax |-> 0, sHi |-> 0, sLo |-> 0, nstr |-> 0,
       iskey |-> FALSE, sbuf |-> <<>>, ssrc |-> 0, scp |-> 0, u8n |-> 0, u8lo |-> 128, u8hi |-> 191,
       hi |-> -1, un |-> 0, uv |-> 0,
       neg |-> FALSE, idig |-> <<>>, fdig |-> <<>>, hasexp |-> FALSE, eneg |-> FALSE, edig |-> <<>>,
       lit |-> <<>>, litv |-> ""]

States == {"B", "B1", "B2", "V", "VA", "KO", "K", "C", "A", "S", "SB", "SU", "SH", "SHB", "L",
           "Nm", "Nz", "Ni", "Nd", "Nf", "Ne", "Ns", "Nx", "X"}
StructStates == {"B", "B1", "B2", "V", "VA", "KO", "K", "C", "A"}
StrStates == {"S", "SB", "SU", "SH", "SHB"}
NumStates == {"Nm", "Nz", "Ni", "Nd", "Nf", "Ne", "Ns", "Nx"}
NumDone == {"Nz", "Ni", "Nf", "Nx"}

Dead(p) == [p EXCEPT !.st = "X"]

Deliver(p, c) ==
  IF p.stack = <<>> THEN [p EXCEPT !.top = c, !.st = "A"]
  ELSE LET n == Len(p.stack)
           f == p.stack[n]
       IN IF f.k = "a"
          THEN [p EXCEPT !.stack[n].items = Append(f.items, c), !.amax = Max(p.amax, Len(f.items) + 1), !.st = "A"]
          ELSE [p EXCEPT !.stack[n].ms = Append(f.ms, [k |-> f.key, v |-> c]), !.mmax = Max(p.mmax, Len(f.ms) + 1),
                         !.st = "A"]

Pop(p) == [p EXCEPT !.stack = SubSeq(p.stack, 1, Len(p.stack) - 1)]
CloseArr(p) == Deliver(Pop(p), "[" \o JoinC(p.stack[Len(p.stack)].items) \o "]")
CloseObj(p) == LET ms == p.stack[Len(p.stack)].ms IN
               Deliver([Pop(p) EXCEPT !.dmax = Max(p.dmax, Cardinality({ms[i].k : i \in 1..Len(ms)}))], ObjCanon(ms))

StrBegin(p, key) == [p EXCEPT !.st = "S", !.iskey = key, !.sbuf = <<>>, !.ssrc = 0, !.scp = 0, !.u8n = 0,
                              !.u8lo = 128, !.u8hi = 191, !.hi = -1, !.un = 0, !.uv = 0]
NumBegin(p, st, neg, idig) == [p EXCEPT !.st = st, !.neg = neg, !.idig = idig, !.fdig = <<>>, !.hasexp = FALSE,
                                        !.eneg = FALSE, !.edig = <<>>]

StartValue(p, b) ==
  LET q == [p EXCEPT !.vdepth = Max(p.vdepth, Len(p.stack))] IN
  CASE b = 91 -> [q EXCEPT !.stack = Append(p.stack, NoFrame), !.cdepth = Max(p.cdepth, Len(p.stack) + 1), !.st = "VA"]
    [] b = 123 -> [q EXCEPT !.stack = Append(p.stack, [NoFrame EXCEPT !.k = "o"]),
                            !.cdepth = Max(p.cdepth, Len(p.stack) + 1), !.st = "KO"]
    [] b = 34 -> StrBegin(q, FALSE)
    [] b = 45 -> NumBegin(q, "Nm", TRUE, <<>>)
    [] b = 48 -> NumBegin(q, "Nz", FALSE, <<0>>)
    [] b \in 49..57 -> NumBegin(q, "Ni", FALSE, <<b - 48>>)
    [] b = 116 -> [q EXCEPT !.st = "L", !.lit = <<114, 117, 101>>, !.litv = "t"]
    [] b = 102 -> [q EXCEPT !.st = "L", !.lit = <<97, 108, 115, 101>>, !.litv = "f"]
    [] b = 110 -> [q EXCEPT !.st = "L", !.lit = <<117, 108, 108>>, !.litv = "n"]
    [] OTHER -> Dead(p)

IsWs(b) == b \in {32, 9, 10, 13} \/ (Dev_VtFfSpace /\ b \in {11, 12})

StepStruct(p, b) ==
  LET s == p.st
      n == Len(p.stack)
  IN CASE s = "B1" -> IF b = 187 THEN [p EXCEPT !.st = "B2"] ELSE Dead(p)
       [] s = "B2" -> IF b = 191 THEN [p EXCEPT !.st = "V", !.unspec = TRUE] ELSE Dead(p)
       [] IsWs(b) /\ s \notin {"B1", "B2"} -> IF s = "B" THEN [p EXCEPT !.st = "V"] ELSE p
       [] s = "B" /\ ~IsWs(b) -> IF b = 239 THEN [p EXCEPT !.st = "B1"] ELSE StartValue(p, b)
       [] s = "V" /\ ~IsWs(b) -> StartValue(p, b)
       [] s = "VA" /\ ~IsWs(b) -> IF b = 93 THEN CloseArr(p) ELSE StartValue(p, b)
       [] s = "KO" /\ ~IsWs(b) -> IF b = 125 THEN CloseObj(p) ELSE IF b = 34 THEN StrBegin(p, TRUE) ELSE Dead(p)
       [] s = "K" /\ ~IsWs(b) -> IF b = 34 THEN StrBegin(p, TRUE) ELSE Dead(p)
       [] s = "C" /\ ~IsWs(b) -> IF b = 58 THEN [p EXCEPT !.st = "V"] ELSE Dead(p)
       [] s = "A" /\ ~IsWs(b) ->
            IF n = 0 THEN Dead(p)
            ELSE IF b = 44 THEN [p EXCEPT !.st = IF p.stack[n].k = "a" THEN "V" ELSE "K"]
            ELSE IF b = 93 /\ p.stack[n].k = "a" THEN CloseArr(p)
            ELSE IF b = 125 /\ p.stack[n].k = "o" THEN CloseObj(p)
            ELSE Dead(p)

\* ---------------------------------------------------------------------------------------------- strings
StrAppend(p, bytes, ncp) == [p EXCEPT !.sbuf = p.sbuf \o bytes, !.scp = p.scp + ncp]

StrEnd(p) ==   \* p.ssrc = number of source bytes between the quotes
  LET q == [p EXCEPT !.sHi = Max(p.sHi, p.ssrc), !.sLo = Max(p.sLo, p.scp), !.nstr = p.nstr + 1] IN
  IF p.iskey THEN [q EXCEPT !.stack[Len(p.stack)].key = p.sbuf, !.st = "C"]
  ELSE Deliver(q, "'" \o HexOf(p.sbuf) \o "'")

Lead(q, b, n, lo, hi) == [q EXCEPT !.sbuf = Append(q.sbuf, b), !.scp = q.scp + 1, !.u8n = n, !.u8lo = lo, !.u8hi = hi]

\* one byte in the body of a string (state "S"); q already counts the byte in ssrc, p does not
StepS(p, q0, b) ==
  LET cont == q0.u8n > 0 /\ b >= q0.u8lo /\ b <= q0.u8hi
      q == IF q0.u8n > 0 /\ ~cont THEN [q0 EXCEPT !.u8n = 0, !.unspec = TRUE] ELSE q0   \* truncated UTF-8 sequence
  IN IF cont THEN [q EXCEPT !.sbuf = Append(q.sbuf, b), !.u8n = q.u8n - 1, !.u8lo = 128, !.u8hi = 191, !.st = "S"]
     ELSE CASE b = 34 -> StrEnd([q EXCEPT !.ssrc = p.ssrc])
            [] b = 92 -> [q EXCEPT !.st = "SB"]
            [] b < 32 -> IF Dev_CtlAccepted THEN [StrAppend(q, <<b>>, 1) EXCEPT !.st = "S"] ELSE Dead(p)
            [] b \in 32..127 /\ b # 34 /\ b # 92 -> [StrAppend(q, <<b>>, 1) EXCEPT !.st = "S"]
            [] b \in 194..223 -> [Lead(q, b, 1, 128, 191) EXCEPT !.st = "S"]
            [] b = 224 -> [Lead(q, b, 2, 160, 191) EXCEPT !.st = "S"]
            [] b \in 225..236 \/ b \in 238..239 -> [Lead(q, b, 2, 128, 191) EXCEPT !.st = "S"]
            [] b = 237 -> [Lead(q, b, 2, 128, 159) EXCEPT !.st = "S"]
            [] b = 240 -> [Lead(q, b, 3, 144, 191) EXCEPT !.st = "S"]
            [] b \in 241..243 -> [Lead(q, b, 3, 128, 191) EXCEPT !.st = "S"]
            [] b = 244 -> [Lead(q, b, 3, 128, 143) EXCEPT !.st = "S"]
            [] OTHER -> [StrAppend(q, <<b>>, 1) EXCEPT !.unspec = TRUE, !.st = "S"]        \* not UTF-8

UDone0(q, v) ==
  IF Dev_UPlaceholder THEN [StrAppend(q, <<63>>, 1) EXCEPT !.st = "S"]
  ELSE IF v \in 55296..56319 THEN [q EXCEPT !.hi = v, !.st = "SH"]
  ELSE IF v \in 56320..57343 THEN [q EXCEPT !.unspec = TRUE, !.st = "S"]                 \* unpaired low surrogate
  ELSE [StrAppend(q, Utf8(v), 1) EXCEPT !.st = "S"]
UDone(q, v) ==
  IF q.hi >= 0
  THEN IF v \in 56320..57343
       THEN [StrAppend(q, Utf8(65536 + (q.hi - 55296) * 1024 + (v - 56320)), 1) EXCEPT !.hi = -1, !.st = "S"]
       ELSE UDone0([q EXCEPT !.hi = -1, !.unspec = TRUE], v)                             \* unpaired high surrogate
  ELSE UDone0(q, v)

\* the byte after a backslash (state "SB")
StepSB(p, q, b) ==
  CASE b \in {34, 92, 47} -> [StrAppend(q, <<b>>, 1) EXCEPT !.st = "S"]
    [] b = 98 -> [StrAppend(q, <<8>>, 1) EXCEPT !.st = "S"]
    [] b = 102 -> [StrAppend(q, <<12>>, 1) EXCEPT !.st = "S"]
    [] b = 110 -> [StrAppend(q, <<10>>, 1) EXCEPT !.st = "S"]
    [] b = 114 -> [StrAppend(q, <<13>>, 1) EXCEPT !.st = "S"]
    [] b = 116 -> [StrAppend(q, <<9>>, 1) EXCEPT !.st = "S"]
    [] b = 117 -> [q EXCEPT !.st = "SU", !.un = 0, !.uv = 0]
    [] OTHER -> Dead(p)

StepStr(p, b) ==
  LET q == [p EXCEPT !.ssrc = p.ssrc + 1]
      lone == [q EXCEPT !.hi = -1, !.unspec = TRUE]
  IN CASE p.st = "S" -> StepS(p, q, b)
       [] p.st = "SB" -> StepSB(p, q, b)
       [] p.st = "SU" -> LET h == HexVal(b) IN
                         IF h < 0 THEN Dead(p)
                         ELSE IF p.un = 3 THEN UDone(q, p.uv * 16 + h)
                         ELSE [q EXCEPT !.un = p.un + 1, !.uv = p.uv * 16 + h]
       [] p.st = "SH" -> IF b = 92 THEN [q EXCEPT !.st = "SHB"] ELSE StepS([p EXCEPT !.hi = -1], lone, b)
       [] p.st = "SHB" -> IF b = 117 THEN [q EXCEPT !.st = "SU", !.un = 0, !.uv = 0]
                          ELSE StepSB([p EXCEPT !.hi = -1], lone, b)

\* ---------------------------------------------------------------------------------------------- numbers, literals
IsDig(b) == b \in 48..57
IsE(b) == b = 101 \/ b = 69
DeliverNum(p) == LET r == NumCanon(p) IN
                 Deliver([p EXCEPT !.exact = p.exact /\ r.exact, !.finite = p.finite /\ r.finite], r.c)
After(p, b) == StepStruct(DeliverNum(p), b)
StepNum(p, b) ==
  LET s == p.st
      d == b - 48
  IN CASE s = "Nm" -> IF b = 48 THEN [p EXCEPT !.st = "Nz", !.idig = <<0>>]
                      ELSE IF b \in 49..57 THEN [p EXCEPT !.st = "Ni", !.idig = <<d>>] ELSE Dead(p)
       [] s = "Nz" -> IF b = 46 THEN [p EXCEPT !.st = "Nd"]
                      ELSE IF IsE(b) THEN [p EXCEPT !.st = "Ne", !.hasexp = TRUE]
                      ELSE IF IsDig(b) THEN Dead(p) ELSE After(p, b)
       [] s = "Ni" -> IF IsDig(b) THEN [p EXCEPT !.idig = Append(p.idig, d)]
                      ELSE IF b = 46 THEN [p EXCEPT !.st = "Nd"]
                      ELSE IF IsE(b) THEN [p EXCEPT !.st = "Ne", !.hasexp = TRUE] ELSE After(p, b)
       [] s = "Nd" -> IF IsDig(b) THEN [p EXCEPT !.st = "Nf", !.fdig = <<d>>] ELSE Dead(p)
       [] s = "Nf" -> IF IsDig(b) THEN [p EXCEPT !.fdig = Append(p.fdig, d)]
                      ELSE IF IsE(b) THEN [p EXCEPT !.st = "Ne", !.hasexp = TRUE] ELSE After(p, b)
       [] s = "Ne" -> IF b = 43 THEN [p EXCEPT !.st = "Ns"]
                      ELSE IF b = 45 THEN [p EXCEPT !.st = "Ns", !.eneg = TRUE]
                      ELSE IF IsDig(b) THEN [p EXCEPT !.st = "Nx", !.edig = <<d>>] ELSE Dead(p)
       [] s = "Ns" -> IF IsDig(b) THEN [p EXCEPT !.st = "Nx", !.edig = <<d>>] ELSE Dead(p)
       [] s = "Nx" -> IF IsDig(b) THEN [p EXCEPT !.edig = Append(p.edig, d)] ELSE After(p, b)

StepLit(p, b) == IF b # Head(p.lit) THEN Dead(p)
                 ELSE IF Len(p.lit) = 1 THEN Deliver(p, p.litv)
                 ELSE [p EXCEPT !.lit = Tail(p.lit)]

Step(p, b) == CASE p.st = "X" -> p
                [] p.st \in StructStates -> StepStruct(p, b)
                [] p.st \in StrStates -> StepStr(p, b)
                [] p.st \in NumStates -> StepNum(p, b)
                [] p.st = "L" -> StepLit(p, b)

RECURSIVE Feed(_, _)
Feed(p, bs) == IF bs = <<>> THEN p ELSE Feed(Step(p, Head(bs)), Tail(bs))

Finish(p) == IF p.st \in NumDone THEN DeliverNum(p) ELSE p
Result(p) == LET q == Finish(p)
                 acc == q.st = "A" /\ q.stack = <<>>
             IN [cls |-> IF ~acc THEN "no" ELSE IF q.unspec THEN "either" ELSE "yes",
                 val |-> IF acc THEN q.top ELSE "", exact |-> q.exact, finite |-> q.finite,
                 vdepth |-> q.vdepth, cdepth |-> q.cdepth, amax |-> q.amax, mmax |-> q.mmax, dmax |-> q.dmax,
                 sHi |-> q.sHi, sLo |-> q.sLo, nstr |-> q.nstr]
Eval(bytes) == Result(Feed(P0, bytes))
=============================================================================
