------------------------------- MODULE XmlDoc -------------------------------
(* C14 generator.  A state is a document under construction: `lex` is the list of TOKEN lexemes emitted so far (start, *)
(* end and empty tags in several spellings and with attributes, text pieces - plain, white space, the five predefined  *)
(* entities, numeric references at the UTF-8 length boundaries and in NON-SHORTEST forms (leading zeros up to 64        *)
(* digits, hex digits of either case, in text and in attribute values), undefined / declared / external references -,  *)
(* CDATA, comments, PIs, XML declarations, DOCTYPEs with and without an internal subset, and truncated constructs).    *)
(* ANY lexeme of the configured Alphabet may follow any other, so the reachable states are all token sequences up to   *)
(* MaxLen: the well-formed documents (trees) and the unbalanced / misplaced rest.  At most MaxDead lexemes follow the  *)
(* first end tag that does not match.  EVERY state is a case, written to OutFile by CaseOut:                           *)
(*   cls   "wf"    well-formed in the supported subset: must be accepted (within the limits) and reported faithfully   *)
(*         "unbal" some start tag is not closed by a matching end tag in proper nesting: must be rejected              *)
(*         "other" balanced but not well-formed for another reason (two roots, text outside the root, undefined        *)
(*                 entity, duplicate attribute, misplaced declaration ...) or containing a truncated construct: the    *)
(*                 property makes no demand on the verdict                                                             *)
(*   ptoks the tokens the pull and SAX interfaces must report (raw slices in hex), dtoks the DOM in document order      *)
(*         (values decoded by XmlText!Decode); white-space-only text, the XML declaration and the DOCTYPE are left out  *)
(*         of both (the statement does not list them), PI data is compared without its leading white space             *)
(*   domcls "yes" every value has a decoding; "undef" some reference is to an entity that is not predefined: the DOM    *)
(*         builder must fail or keep the reference as it stands; "either" no demand                                     *)
(*   measures for the limit clauses: depth, attributes per element, name length, text span, token count (Hi/Lo: the    *)
(*         larger / smaller plausible reading, see XmlBalanceTrace)                                                     *)
EXTENDS XmlText, CSV

CONSTANTS Alphabet,          \* set of lexeme names
          First,             \* lexemes a document may begin with (prunes documents that start with character data)
          MaxLen, MaxDead,
          OnlyMatchingEnds,  \* TRUE: an end tag is emitted only if it matches (random TREES in simulation mode)
          OutFile

Lexeme == [
  \* <a>
  Sa |-> [k |-> "S", name |-> "a", attrs |-> <<>>, body |-> <<>>, src |-> <<60, 97, 62>>, wfok |-> TRUE, free |-> FALSE, defs |-> {}, needs |-> "", feat |-> ""],
  \* <b>
  Sb |-> [k |-> "S", name |-> "b", attrs |-> <<>>, body |-> <<>>, src |-> <<60, 98, 62>>, wfok |-> TRUE, free |-> FALSE, defs |-> {}, needs |-> "", feat |-> ""],
  \* <n:a>
  Sn |-> [k |-> "S", name |-> "n:a", attrs |-> <<>>, body |-> <<>>, src |-> <<60, 110, 58, 97, 62>>, wfok |-> TRUE, free |-> FALSE, defs |-> {}, needs |-> "", feat |-> ""],
  \* <abcdef>
  Sl |-> [k |-> "S", name |-> "abcdef", attrs |-> <<>>, body |-> <<>>, src |-> <<60, 97, 98, 99, 100, 101, 102, 62>>, wfok |-> TRUE, free |-> FALSE, defs |-> {}, needs |-> "", feat |-> ""],
  \* </a>
  Ea |-> [k |-> "E", name |-> "a", attrs |-> <<>>, body |-> <<>>, src |-> <<60, 47, 97, 62>>, wfok |-> TRUE, free |-> FALSE, defs |-> {}, needs |-> "", feat |-> ""],
  \* </b>
  Eb |-> [k |-> "E", name |-> "b", attrs |-> <<>>, body |-> <<>>, src |-> <<60, 47, 98, 62>>, wfok |-> TRUE, free |-> FALSE, defs |-> {}, needs |-> "", feat |-> ""],
  \* </n:a>
  En |-> [k |-> "E", name |-> "n:a", attrs |-> <<>>, body |-> <<>>, src |-> <<60, 47, 110, 58, 97, 62>>, wfok |-> TRUE, free |-> FALSE, defs |-> {}, needs |-> "", feat |-> ""],
  \* </abcdef>
  El |-> [k |-> "E", name |-> "abcdef", attrs |-> <<>>, body |-> <<>>, src |-> <<60, 47, 97, 98, 99, 100, 101, 102, 62>>, wfok |-> TRUE, free |-> FALSE, defs |-> {}, needs |-> "", feat |-> ""],
  \* <a/>
  Ma |-> [k |-> "M", name |-> "a", attrs |-> <<>>, body |-> <<>>, src |-> <<60, 97, 47, 62>>, wfok |-> TRUE, free |-> FALSE, defs |-> {}, needs |-> "", feat |-> ""],
  \* <b/>
  Mb |-> [k |-> "M", name |-> "b", attrs |-> <<>>, body |-> <<>>, src |-> <<60, 98, 47, 62>>, wfok |-> TRUE, free |-> FALSE, defs |-> {}, needs |-> "", feat |-> ""],
  \* <a >
  SaW |-> [k |-> "S", name |-> "a", attrs |-> <<>>, body |-> <<>>, src |-> <<60, 97, 32, 62>>, wfok |-> TRUE, free |-> FALSE, defs |-> {}, needs |-> "", feat |-> ""],
  \* </a >
  EaW |-> [k |-> "E", name |-> "a", attrs |-> <<>>, body |-> <<>>, src |-> <<60, 47, 97, 32, 62>>, wfok |-> TRUE, free |-> FALSE, defs |-> {}, needs |-> "", feat |-> ""],
  \* <a />
  MaW |-> [k |-> "M", name |-> "a", attrs |-> <<>>, body |-> <<>>, src |-> <<60, 97, 32, 47, 62>>, wfok |-> TRUE, free |-> FALSE, defs |-> {}, needs |-> "", feat |-> ""],
  \* </a LF >
  EaN |-> [k |-> "E", name |-> "a", attrs |-> <<>>, body |-> <<>>, src |-> <<60, 47, 97, 10, 62>>, wfok |-> TRUE, free |-> FALSE, defs |-> {}, needs |-> "", feat |-> ""],
  \* <a x="1">
  Sa1 |-> [k |-> "S", name |-> "a", attrs |-> <<[n |-> "x", raw |-> <<49>>]>>, body |-> <<>>, src |-> <<60, 97, 32, 120, 61, 34, 49, 34, 62>>, wfok |-> TRUE, free |-> FALSE, defs |-> {}, needs |-> "", feat |-> ""],
  \* <a x='1' y="&lt;&#65;">
  Sa2 |-> [k |-> "S", name |-> "a", attrs |-> <<[n |-> "x", raw |-> <<49>>], [n |-> "y", raw |-> <<38, 108, 116, 59, 38, 35, 54, 53, 59>>]>>, body |-> <<>>, src |-> <<60, 97, 32, 120, 61, 39, 49, 39, 32, 121, 61, 34, 38, 108, 116, 59, 38, 35, 54, 53, 59, 34, 62>>, wfok |-> TRUE, free |-> FALSE, defs |-> {}, needs |-> "", feat |-> ""],
  \* <a x="1" y="22" z="333">
  Sa3 |-> [k |-> "S", name |-> "a", attrs |-> <<[n |-> "x", raw |-> <<49>>], [n |-> "y", raw |-> <<50, 50>>], [n |-> "z", raw |-> <<51, 51, 51>>]>>, body |-> <<>>, src |-> <<60, 97, 32, 120, 61, 34, 49, 34, 32, 121, 61, 34, 50, 50, 34, 32, 122, 61, 34, 51, 51, 51, 34, 62>>, wfok |-> TRUE, free |-> FALSE, defs |-> {}, needs |-> "", feat |-> ""],
  \* <a x="1"/>
  Ma1 |-> [k |-> "M", name |-> "a", attrs |-> <<[n |-> "x", raw |-> <<49>>]>>, body |-> <<>>, src |-> <<60, 97, 32, 120, 61, 34, 49, 34, 47, 62>>, wfok |-> TRUE, free |-> FALSE, defs |-> {}, needs |-> "", feat |-> ""],
  \* <b n:y = "a b" z=''/>
  Mb2 |-> [k |-> "M", name |-> "b", attrs |-> <<[n |-> "n:y", raw |-> <<97, 32, 98>>], [n |-> "z", raw |-> <<>>]>>, body |-> <<>>, src |-> <<60, 98, 32, 110, 58, 121, 32, 61, 32, 34, 97, 32, 98, 34, 32, 122, 61, 39, 39, 47, 62>>, wfok |-> TRUE, free |-> FALSE, defs |-> {}, needs |-> "", feat |-> ""],
  \* <a q="it's" r='"' s="&#x20AC;&amp;">
  Sa4 |-> [k |-> "S", name |-> "a", attrs |-> <<[n |-> "q", raw |-> <<105, 116, 39, 115>>], [n |-> "r", raw |-> <<34>>], [n |-> "s", raw |-> <<38, 35, 120, 50, 48, 65, 67, 59, 38, 97, 109, 112, 59>>]>>, body |-> <<>>, src |-> <<60, 97, 32, 113, 61, 34, 105, 116, 39, 115, 34, 32, 114, 61, 39, 34, 39, 32, 115, 61, 34, 38, 35, 120, 50, 48, 65, 67, 59, 38, 97, 109, 112, 59, 34, 62>>, wfok |-> TRUE, free |-> FALSE, defs |-> {}, needs |-> "", feat |-> ""],
  \* <a v=">" w="&gt;">
  Sa5 |-> [k |-> "S", name |-> "a", attrs |-> <<[n |-> "v", raw |-> <<62>>], [n |-> "w", raw |-> <<38, 103, 116, 59>>]>>, body |-> <<>>, src |-> <<60, 97, 32, 118, 61, 34, 62, 34, 32, 119, 61, 34, 38, 103, 116, 59, 34, 62>>, wfok |-> TRUE, free |-> FALSE, defs |-> {}, needs |-> "", feat |-> ""],
  \* <a LF TAB x="1" LF >
  SaNl |-> [k |-> "S", name |-> "a", attrs |-> <<[n |-> "x", raw |-> <<49>>]>>, body |-> <<>>, src |-> <<60, 97, 10, 9, 120, 61, 34, 49, 34, 10, 62>>, wfok |-> TRUE, free |-> FALSE, defs |-> {}, needs |-> "", feat |-> ""],
  \* <a u="&foo;">
  SaU |-> [k |-> "S", name |-> "a", attrs |-> <<[n |-> "u", raw |-> <<38, 102, 111, 111, 59>>]>>, body |-> <<>>, src |-> <<60, 97, 32, 117, 61, 34, 38, 102, 111, 111, 59, 34, 62>>, wfok |-> FALSE, free |-> FALSE, defs |-> {}, needs |-> "", feat |-> ""],
  \* <a x="1" x="2">
  SaD |-> [k |-> "S", name |-> "a", attrs |-> <<[n |-> "x", raw |-> <<49>>], [n |-> "x", raw |-> <<50>>]>>, body |-> <<>>, src |-> <<60, 97, 32, 120, 61, 34, 49, 34, 32, 120, 61, 34, 50, 34, 62>>, wfok |-> FALSE, free |-> FALSE, defs |-> {}, needs |-> "", feat |-> ""],
  \* <a x="<">
  SaLt |-> [k |-> "S", name |-> "a", attrs |-> <<[n |-> "x", raw |-> <<60>>]>>, body |-> <<>>, src |-> <<60, 97, 32, 120, 61, 34, 60, 34, 62>>, wfok |-> FALSE, free |-> FALSE, defs |-> {}, needs |-> "", feat |-> ""],
  \* x
  Tx |-> [k |-> "T", name |-> "", attrs |-> <<>>, body |-> <<120>>, src |-> <<120>>, wfok |-> TRUE, free |-> FALSE, defs |-> {}, needs |-> "", feat |-> ""],
  \* yz
  Ty |-> [k |-> "T", name |-> "", attrs |-> <<>>, body |-> <<121, 122>>, src |-> <<121, 122>>, wfok |-> TRUE, free |-> FALSE, defs |-> {}, needs |-> "", feat |-> ""],
  \*  
  Tsp |-> [k |-> "T", name |-> "", attrs |-> <<>>, body |-> <<32>>, src |-> <<32>>, wfok |-> TRUE, free |-> FALSE, defs |-> {}, needs |-> "", feat |-> ""],
  \*  LF 
  Tnl |-> [k |-> "T", name |-> "", attrs |-> <<>>, body |-> <<10>>, src |-> <<10>>, wfok |-> TRUE, free |-> FALSE, defs |-> {}, needs |-> "", feat |-> ""],
  \*  TAB 
  Ttab |-> [k |-> "T", name |-> "", attrs |-> <<>>, body |-> <<9>>, src |-> <<9>>, wfok |-> TRUE, free |-> FALSE, defs |-> {}, needs |-> "", feat |-> ""],
  \* &lt;
  Tlt |-> [k |-> "T", name |-> "", attrs |-> <<>>, body |-> <<38, 108, 116, 59>>, src |-> <<38, 108, 116, 59>>, wfok |-> TRUE, free |-> FALSE, defs |-> {}, needs |-> "", feat |-> ""],
  \* &gt;
  Tgt |-> [k |-> "T", name |-> "", attrs |-> <<>>, body |-> <<38, 103, 116, 59>>, src |-> <<38, 103, 116, 59>>, wfok |-> TRUE, free |-> FALSE, defs |-> {}, needs |-> "", feat |-> ""],
  \* &amp;
  Tamp |-> [k |-> "T", name |-> "", attrs |-> <<>>, body |-> <<38, 97, 109, 112, 59>>, src |-> <<38, 97, 109, 112, 59>>, wfok |-> TRUE, free |-> FALSE, defs |-> {}, needs |-> "", feat |-> ""],
  \* &quot;
  Tq |-> [k |-> "T", name |-> "", attrs |-> <<>>, body |-> <<38, 113, 117, 111, 116, 59>>, src |-> <<38, 113, 117, 111, 116, 59>>, wfok |-> TRUE, free |-> FALSE, defs |-> {}, needs |-> "", feat |-> ""],
  \* &apos;
  Tap |-> [k |-> "T", name |-> "", attrs |-> <<>>, body |-> <<38, 97, 112, 111, 115, 59>>, src |-> <<38, 97, 112, 111, 115, 59>>, wfok |-> TRUE, free |-> FALSE, defs |-> {}, needs |-> "", feat |-> ""],
  \* &#65;
  TA |-> [k |-> "T", name |-> "", attrs |-> <<>>, body |-> <<38, 35, 54, 53, 59>>, src |-> <<38, 35, 54, 53, 59>>, wfok |-> TRUE, free |-> FALSE, defs |-> {}, needs |-> "", feat |-> ""],
  \* &#x41;
  Thx |-> [k |-> "T", name |-> "", attrs |-> <<>>, body |-> <<38, 35, 120, 52, 49, 59>>, src |-> <<38, 35, 120, 52, 49, 59>>, wfok |-> TRUE, free |-> FALSE, defs |-> {}, needs |-> "", feat |-> ""],
  \* &#x20AC;
  TE |-> [k |-> "T", name |-> "", attrs |-> <<>>, body |-> <<38, 35, 120, 50, 48, 65, 67, 59>>, src |-> <<38, 35, 120, 50, 48, 65, 67, 59>>, wfok |-> TRUE, free |-> FALSE, defs |-> {}, needs |-> "", feat |-> ""],
  \* &#x1F600;
  Temo |-> [k |-> "T", name |-> "", attrs |-> <<>>, body |-> <<38, 35, 120, 49, 70, 54, 48, 48, 59>>, src |-> <<38, 35, 120, 49, 70, 54, 48, 48, 59>>, wfok |-> TRUE, free |-> FALSE, defs |-> {}, needs |-> "", feat |-> ""],
  \* &#9;
  T9 |-> [k |-> "T", name |-> "", attrs |-> <<>>, body |-> <<38, 35, 57, 59>>, src |-> <<38, 35, 57, 59>>, wfok |-> TRUE, free |-> FALSE, defs |-> {}, needs |-> "", feat |-> ""],
  \* &#x7F;
  T7f |-> [k |-> "T", name |-> "", attrs |-> <<>>, body |-> <<38, 35, 120, 55, 70, 59>>, src |-> <<38, 35, 120, 55, 70, 59>>, wfok |-> TRUE, free |-> FALSE, defs |-> {}, needs |-> "", feat |-> ""],
  \* &#x80;
  T80 |-> [k |-> "T", name |-> "", attrs |-> <<>>, body |-> <<38, 35, 120, 56, 48, 59>>, src |-> <<38, 35, 120, 56, 48, 59>>, wfok |-> TRUE, free |-> FALSE, defs |-> {}, needs |-> "", feat |-> ""],
  \* &#x7ff;
  T7ff |-> [k |-> "T", name |-> "", attrs |-> <<>>, body |-> <<38, 35, 120, 55, 102, 102, 59>>, src |-> <<38, 35, 120, 55, 102, 102, 59>>, wfok |-> TRUE, free |-> FALSE, defs |-> {}, needs |-> "", feat |-> ""],
  \* &#x800;
  T800 |-> [k |-> "T", name |-> "", attrs |-> <<>>, body |-> <<38, 35, 120, 56, 48, 48, 59>>, src |-> <<38, 35, 120, 56, 48, 48, 59>>, wfok |-> TRUE, free |-> FALSE, defs |-> {}, needs |-> "", feat |-> ""],
  \* &#xFFFD;
  Tfffd |-> [k |-> "T", name |-> "", attrs |-> <<>>, body |-> <<38, 35, 120, 70, 70, 70, 68, 59>>, src |-> <<38, 35, 120, 70, 70, 70, 68, 59>>, wfok |-> TRUE, free |-> FALSE, defs |-> {}, needs |-> "", feat |-> ""],
  \* &#x10000;
  T10000 |-> [k |-> "T", name |-> "", attrs |-> <<>>, body |-> <<38, 35, 120, 49, 48, 48, 48, 48, 59>>, src |-> <<38, 35, 120, 49, 48, 48, 48, 48, 59>>, wfok |-> TRUE, free |-> FALSE, defs |-> {}, needs |-> "", feat |-> ""],
  \* &#x10FFFF;
  T10ffff |-> [k |-> "T", name |-> "", attrs |-> <<>>, body |-> <<38, 35, 120, 49, 48, 70, 70, 70, 70, 59>>, src |-> <<38, 35, 120, 49, 48, 70, 70, 70, 70, 59>>, wfok |-> TRUE, free |-> FALSE, defs |-> {}, needs |-> "", feat |-> ""],
  \* '\xe9'
  Traw |-> [k |-> "T", name |-> "", attrs |-> <<>>, body |-> <<195, 169>>, src |-> <<195, 169>>, wfok |-> TRUE, free |-> FALSE, defs |-> {}, needs |-> "", feat |-> ""],
  \* >
  Tgtraw |-> [k |-> "T", name |-> "", attrs |-> <<>>, body |-> <<62>>, src |-> <<62>>, wfok |-> TRUE, free |-> FALSE, defs |-> {}, needs |-> "", feat |-> ""],
  \* "
  Tquot |-> [k |-> "T", name |-> "", attrs |-> <<>>, body |-> <<34>>, src |-> <<34>>, wfok |-> TRUE, free |-> FALSE, defs |-> {}, needs |-> "", feat |-> ""],
  \* ---- character references in non-shortest forms: leading zeros (any number is legal), hex digits of either case,
  \* ---- the longest forms of the largest code point, in text and in attribute values of both quoting styles
  \* &#x0041;
  Tz4 |-> [k |-> "T", name |-> "", attrs |-> <<>>, body |-> <<38, 35, 120, 48, 48, 52, 49, 59>>, src |-> <<38, 35, 120, 48, 48, 52, 49, 59>>, wfok |-> TRUE, free |-> FALSE, defs |-> {}, needs |-> "", feat |-> "charref-long-form"],
  \* &#x0001F4A9;
  Tz8 |-> [k |-> "T", name |-> "", attrs |-> <<>>, body |-> <<38, 35, 120, 48, 48, 48, 49, 70, 52, 65, 57, 59>>, src |-> <<38, 35, 120, 48, 48, 48, 49, 70, 52, 65, 57, 59>>, wfok |-> TRUE, free |-> FALSE, defs |-> {}, needs |-> "", feat |-> "charref-long-form"],
  \* &#x0001f4a9;
  Tz8l |-> [k |-> "T", name |-> "", attrs |-> <<>>, body |-> <<38, 35, 120, 48, 48, 48, 49, 102, 52, 97, 57, 59>>, src |-> <<38, 35, 120, 48, 48, 48, 49, 102, 52, 97, 57, 59>>, wfok |-> TRUE, free |-> FALSE, defs |-> {}, needs |-> "", feat |-> "charref-long-form"],
  \* &#00008364;
  Tzd8 |-> [k |-> "T", name |-> "", attrs |-> <<>>, body |-> <<38, 35, 48, 48, 48, 48, 56, 51, 54, 52, 59>>, src |-> <<38, 35, 48, 48, 48, 48, 56, 51, 54, 52, 59>>, wfok |-> TRUE, free |-> FALSE, defs |-> {}, needs |-> "", feat |-> "charref-long-form"],
  \* &#x00000041;
  Tz41 |-> [k |-> "T", name |-> "", attrs |-> <<>>, body |-> <<38, 35, 120, 48, 48, 48, 48, 48, 48, 52, 49, 59>>, src |-> <<38, 35, 120, 48, 48, 48, 48, 48, 48, 52, 49, 59>>, wfok |-> TRUE, free |-> FALSE, defs |-> {}, needs |-> "", feat |-> "charref-long-form"],
  \* &#x0010FFFF;
  Tzmax |-> [k |-> "T", name |-> "", attrs |-> <<>>, body |-> <<38, 35, 120, 48, 48, 49, 48, 70, 70, 70, 70, 59>>, src |-> <<38, 35, 120, 48, 48, 49, 48, 70, 70, 70, 70, 59>>, wfok |-> TRUE, free |-> FALSE, defs |-> {}, needs |-> "", feat |-> "charref-long-form"],
  \* &#x000010ffff;
  Tzmaxl |-> [k |-> "T", name |-> "", attrs |-> <<>>, body |-> <<38, 35, 120, 48, 48, 48, 48, 49, 48, 102, 102, 102, 102, 59>>, src |-> <<38, 35, 120, 48, 48, 48, 48, 49, 48, 102, 102, 102, 102, 59>>, wfok |-> TRUE, free |-> FALSE, defs |-> {}, needs |-> "", feat |-> "charref-long-form"],
  \* &#0001114111;
  Tzdmax |-> [k |-> "T", name |-> "", attrs |-> <<>>, body |-> <<38, 35, 48, 48, 48, 49, 49, 49, 52, 49, 49, 49, 59>>, src |-> <<38, 35, 48, 48, 48, 49, 49, 49, 52, 49, 49, 49, 59>>, wfok |-> TRUE, free |-> FALSE, defs |-> {}, needs |-> "", feat |-> "charref-long-form"],
  \* &#x000000000000000000000000000020aC;
  Tz32 |-> [k |-> "T", name |-> "", attrs |-> <<>>, body |-> <<38, 35, 120, 48, 48, 48, 48, 48, 48, 48, 48, 48, 48, 48, 48, 48, 48, 48, 48, 48, 48, 48, 48, 48, 48, 48, 48, 48, 48, 48, 48, 50, 48, 97, 67, 59>>, src |-> <<38, 35, 120, 48, 48, 48, 48, 48, 48, 48, 48, 48, 48, 48, 48, 48, 48, 48, 48, 48, 48, 48, 48, 48, 48, 48, 48, 48, 48, 48, 48, 50, 48, 97, 67, 59>>, wfok |-> TRUE, free |-> FALSE, defs |-> {}, needs |-> "", feat |-> "charref-long-form"],
  \* &#00000000000000000000000000000233;
  Tzd32 |-> [k |-> "T", name |-> "", attrs |-> <<>>, body |-> <<38, 35, 48, 48, 48, 48, 48, 48, 48, 48, 48, 48, 48, 48, 48, 48, 48, 48, 48, 48, 48, 48, 48, 48, 48, 48, 48, 48, 48, 48, 48, 50, 51, 51, 59>>, src |-> <<38, 35, 48, 48, 48, 48, 48, 48, 48, 48, 48, 48, 48, 48, 48, 48, 48, 48, 48, 48, 48, 48, 48, 48, 48, 48, 48, 48, 48, 48, 48, 50, 51, 51, 59>>, wfok |-> TRUE, free |-> FALSE, defs |-> {}, needs |-> "", feat |-> "charref-long-form"],
  \* a&#x00000010ffff;b;&#x0000000A;c
  Tzmix |-> [k |-> "T", name |-> "", attrs |-> <<>>, body |-> <<97, 38, 35, 120, 48, 48, 48, 48, 48, 48, 49, 48, 102, 102, 102, 102, 59, 98, 59, 38, 35, 120, 48, 48, 48, 48, 48, 48, 48, 65, 59, 99>>, src |-> <<97, 38, 35, 120, 48, 48, 48, 48, 48, 48, 49, 48, 102, 102, 102, 102, 59, 98, 59, 38, 35, 120, 48, 48, 48, 48, 48, 48, 48, 65, 59, 99>>, wfok |-> TRUE, free |-> FALSE, defs |-> {}, needs |-> "", feat |-> "charref-long-form"],
  \* &#x00000000;
  Tz0 |-> [k |-> "T", name |-> "", attrs |-> <<>>, body |-> <<38, 35, 120, 48, 48, 48, 48, 48, 48, 48, 48, 59>>, src |-> <<38, 35, 120, 48, 48, 48, 48, 48, 48, 48, 48, 59>>, wfok |-> FALSE, free |-> FALSE, defs |-> {}, needs |-> "", feat |-> "charref-long-form"],
  \* &#x00110000;
  Tz110 |-> [k |-> "T", name |-> "", attrs |-> <<>>, body |-> <<38, 35, 120, 48, 48, 49, 49, 48, 48, 48, 48, 59>>, src |-> <<38, 35, 120, 48, 48, 49, 49, 48, 48, 48, 48, 59>>, wfok |-> FALSE, free |-> FALSE, defs |-> {}, needs |-> "", feat |-> "charref-long-form"],
  \* <a p="&#x0001F4A9;" q='&#00008364;'>
  Sa6 |-> [k |-> "S", name |-> "a", attrs |-> <<[n |-> "p", raw |-> <<38, 35, 120, 48, 48, 48, 49, 70, 52, 65, 57, 59>>], [n |-> "q", raw |-> <<38, 35, 48, 48, 48, 48, 56, 51, 54, 52, 59>>]>>, body |-> <<>>, src |-> <<60, 97, 32, 112, 61, 34, 38, 35, 120, 48, 48, 48, 49, 70, 52, 65, 57, 59, 34, 32, 113, 61, 39, 38, 35, 48, 48, 48, 48, 56, 51, 54, 52, 59, 39, 62>>, wfok |-> TRUE, free |-> FALSE, defs |-> {}, needs |-> "", feat |-> "charref-long-form"],
  \* <b r="x&#x00000041;y&#x0000000000000041;"/>
  Ma6 |-> [k |-> "M", name |-> "b", attrs |-> <<[n |-> "r", raw |-> <<120, 38, 35, 120, 48, 48, 48, 48, 48, 48, 52, 49, 59, 121, 38, 35, 120, 48, 48, 48, 48, 48, 48, 48, 48, 48, 48, 48, 48, 48, 48, 52, 49, 59>>]>>, body |-> <<>>, src |-> <<60, 98, 32, 114, 61, 34, 120, 38, 35, 120, 48, 48, 48, 48, 48, 48, 52, 49, 59, 121, 38, 35, 120, 48, 48, 48, 48, 48, 48, 48, 48, 48, 48, 48, 48, 48, 48, 52, 49, 59, 34, 47, 62>>, wfok |-> TRUE, free |-> FALSE, defs |-> {}, needs |-> "", feat |-> "charref-long-form"],
  \* <a s='&#x0010ffff;&lt;&#0000000065;'>
  Sa7 |-> [k |-> "S", name |-> "a", attrs |-> <<[n |-> "s", raw |-> <<38, 35, 120, 48, 48, 49, 48, 102, 102, 102, 102, 59, 38, 108, 116, 59, 38, 35, 48, 48, 48, 48, 48, 48, 48, 48, 54, 53, 59>>]>>, body |-> <<>>, src |-> <<60, 97, 32, 115, 61, 39, 38, 35, 120, 48, 48, 49, 48, 102, 102, 102, 102, 59, 38, 108, 116, 59, 38, 35, 48, 48, 48, 48, 48, 48, 48, 48, 54, 53, 59, 39, 62>>, wfok |-> TRUE, free |-> FALSE, defs |-> {}, needs |-> "", feat |-> "charref-long-form"],
  \* &#x (60 zeros) 20AC;   - a reference of 64 hex digits: no window of a plausible size holds it.  (Not longer, and not in the
  \* random trees: Decode / HexOf recurse per byte of a merged text token and TLC's worker threads have a small stack.)
  Tz64 |-> [k |-> "T", name |-> "", attrs |-> <<>>, body |-> <<38, 35, 120, 48, 48, 48, 48, 48, 48, 48, 48, 48, 48, 48, 48, 48, 48, 48, 48, 48, 48, 48, 48, 48, 48, 48, 48, 48, 48, 48, 48, 48, 48, 48, 48, 48, 48, 48, 48, 48, 48, 48, 48, 48, 48, 48, 48, 48, 48, 48, 48, 48, 48, 48, 48, 48, 48, 48, 48, 48, 48, 48, 48, 50, 48, 65, 67, 59>>, src |-> <<38, 35, 120, 48, 48, 48, 48, 48, 48, 48, 48, 48, 48, 48, 48, 48, 48, 48, 48, 48, 48, 48, 48, 48, 48, 48, 48, 48, 48, 48, 48, 48, 48, 48, 48, 48, 48, 48, 48, 48, 48, 48, 48, 48, 48, 48, 48, 48, 48, 48, 48, 48, 48, 48, 48, 48, 48, 48, 48, 48, 48, 48, 48, 50, 48, 65, 67, 59>>, wfok |-> TRUE, free |-> FALSE, defs |-> {}, needs |-> "", feat |-> "charref-long-form"],
  \* &foo;
  Tund |-> [k |-> "T", name |-> "", attrs |-> <<>>, body |-> <<38, 102, 111, 111, 59>>, src |-> <<38, 102, 111, 111, 59>>, wfok |-> FALSE, free |-> FALSE, defs |-> {}, needs |-> "", feat |-> ""],
  \* &e;
  Tent |-> [k |-> "T", name |-> "", attrs |-> <<>>, body |-> <<38, 101, 59>>, src |-> <<38, 101, 59>>, wfok |-> TRUE, free |-> FALSE, defs |-> {}, needs |-> "e", feat |-> ""],
  \* &x;
  Text |-> [k |-> "T", name |-> "", attrs |-> <<>>, body |-> <<38, 120, 59>>, src |-> <<38, 120, 59>>, wfok |-> TRUE, free |-> FALSE, defs |-> {}, needs |-> "x", feat |-> ""],
  \* &
  Tbad |-> [k |-> "T", name |-> "", attrs |-> <<>>, body |-> <<38>>, src |-> <<38>>, wfok |-> FALSE, free |-> FALSE, defs |-> {}, needs |-> "", feat |-> ""],
  \* &#xD800;
  Tsur |-> [k |-> "T", name |-> "", attrs |-> <<>>, body |-> <<38, 35, 120, 68, 56, 48, 48, 59>>, src |-> <<38, 35, 120, 68, 56, 48, 48, 59>>, wfok |-> FALSE, free |-> FALSE, defs |-> {}, needs |-> "", feat |-> ""],
  \* &#0;
  T0 |-> [k |-> "T", name |-> "", attrs |-> <<>>, body |-> <<38, 35, 48, 59>>, src |-> <<38, 35, 48, 59>>, wfok |-> FALSE, free |-> FALSE, defs |-> {}, needs |-> "", feat |-> ""],
  \* &#x110000;
  T110000 |-> [k |-> "T", name |-> "", attrs |-> <<>>, body |-> <<38, 35, 120, 49, 49, 48, 48, 48, 48, 59>>, src |-> <<38, 35, 120, 49, 49, 48, 48, 48, 48, 59>>, wfok |-> FALSE, free |-> FALSE, defs |-> {}, needs |-> "", feat |-> ""],
  \* &#4294967361;
  Tbig |-> [k |-> "T", name |-> "", attrs |-> <<>>, body |-> <<38, 35, 52, 50, 57, 52, 57, 54, 55, 51, 54, 49, 59>>, src |-> <<38, 35, 52, 50, 57, 52, 57, 54, 55, 51, 54, 49, 59>>, wfok |-> FALSE, free |-> FALSE, defs |-> {}, needs |-> "", feat |-> ""],
  \* &#X41;
  TX |-> [k |-> "T", name |-> "", attrs |-> <<>>, body |-> <<38, 35, 88, 52, 49, 59>>, src |-> <<38, 35, 88, 52, 49, 59>>, wfok |-> FALSE, free |-> FALSE, defs |-> {}, needs |-> "", feat |-> ""],
  \* &#x;
  Tempty |-> [k |-> "T", name |-> "", attrs |-> <<>>, body |-> <<38, 35, 120, 59>>, src |-> <<38, 35, 120, 59>>, wfok |-> FALSE, free |-> FALSE, defs |-> {}, needs |-> "", feat |-> ""],
  \* ]]>
  Tcdend |-> [k |-> "T", name |-> "", attrs |-> <<>>, body |-> <<93, 93, 62>>, src |-> <<93, 93, 62>>, wfok |-> FALSE, free |-> FALSE, defs |-> {}, needs |-> "", feat |-> ""],
  \* <![CDATA[x<y&amp;]]>
  C1 |-> [k |-> "C", name |-> "", attrs |-> <<>>, body |-> <<120, 60, 121, 38, 97, 109, 112, 59>>, src |-> <<60, 33, 91, 67, 68, 65, 84, 65, 91, 120, 60, 121, 38, 97, 109, 112, 59, 93, 93, 62>>, wfok |-> TRUE, free |-> FALSE, defs |-> {}, needs |-> "", feat |-> ""],
  \* <![CDATA[]]>
  C0 |-> [k |-> "C", name |-> "", attrs |-> <<>>, body |-> <<>>, src |-> <<60, 33, 91, 67, 68, 65, 84, 65, 91, 93, 93, 62>>, wfok |-> TRUE, free |-> FALSE, defs |-> {}, needs |-> "", feat |-> ""],
  \* <![CDATA[]]]]>
  C2 |-> [k |-> "C", name |-> "", attrs |-> <<>>, body |-> <<93, 93>>, src |-> <<60, 33, 91, 67, 68, 65, 84, 65, 91, 93, 93, 93, 93, 62>>, wfok |-> TRUE, free |-> FALSE, defs |-> {}, needs |-> "", feat |-> ""],
  \* <![CDATA[ </a> ]]>
  C3 |-> [k |-> "C", name |-> "", attrs |-> <<>>, body |-> <<32, 60, 47, 97, 62, 32>>, src |-> <<60, 33, 91, 67, 68, 65, 84, 65, 91, 32, 60, 47, 97, 62, 32, 93, 93, 62>>, wfok |-> TRUE, free |-> FALSE, defs |-> {}, needs |-> "", feat |-> ""],
  \* <![CDATA[a]]]>
  C4 |-> [k |-> "C", name |-> "", attrs |-> <<>>, body |-> <<97, 93>>, src |-> <<60, 33, 91, 67, 68, 65, 84, 65, 91, 97, 93, 93, 93, 62>>, wfok |-> TRUE, free |-> FALSE, defs |-> {}, needs |-> "", feat |-> ""],
  \* <![CDATA[]]]>
  C5 |-> [k |-> "C", name |-> "", attrs |-> <<>>, body |-> <<93>>, src |-> <<60, 33, 91, 67, 68, 65, 84, 65, 91, 93, 93, 93, 62>>, wfok |-> TRUE, free |-> FALSE, defs |-> {}, needs |-> "", feat |-> ""],
  \* <![CDATA[]>]]>
  C6 |-> [k |-> "C", name |-> "", attrs |-> <<>>, body |-> <<93, 62>>, src |-> <<60, 33, 91, 67, 68, 65, 84, 65, 91, 93, 62, 93, 93, 62>>, wfok |-> TRUE, free |-> FALSE, defs |-> {}, needs |-> "", feat |-> ""],
  \* <![CDATA[v[0]]]>
  C7 |-> [k |-> "C", name |-> "", attrs |-> <<>>, body |-> <<118, 91, 48, 93>>, src |-> <<60, 33, 91, 67, 68, 65, 84, 65, 91, 118, 91, 48, 93, 93, 93, 62>>, wfok |-> TRUE, free |-> FALSE, defs |-> {}, needs |-> "", feat |-> ""],
  \* <![CDATA[]]]]]>
  C8 |-> [k |-> "C", name |-> "", attrs |-> <<>>, body |-> <<93, 93, 93>>, src |-> <<60, 33, 91, 67, 68, 65, 84, 65, 91, 93, 93, 93, 93, 93, 62>>, wfok |-> TRUE, free |-> FALSE, defs |-> {}, needs |-> "", feat |-> ""],
  \* <!-- c -->
  K1 |-> [k |-> "K", name |-> "", attrs |-> <<>>, body |-> <<32, 99, 32>>, src |-> <<60, 33, 45, 45, 32, 99, 32, 45, 45, 62>>, wfok |-> TRUE, free |-> FALSE, defs |-> {}, needs |-> "", feat |-> ""],
  \* <!---->
  K0 |-> [k |-> "K", name |-> "", attrs |-> <<>>, body |-> <<>>, src |-> <<60, 33, 45, 45, 45, 45, 62>>, wfok |-> TRUE, free |-> FALSE, defs |-> {}, needs |-> "", feat |-> ""],
  \* <!--<a>-->
  K2 |-> [k |-> "K", name |-> "", attrs |-> <<>>, body |-> <<60, 97, 62>>, src |-> <<60, 33, 45, 45, 60, 97, 62, 45, 45, 62>>, wfok |-> TRUE, free |-> FALSE, defs |-> {}, needs |-> "", feat |-> ""],
  \* <!-- - > -->
  K3 |-> [k |-> "K", name |-> "", attrs |-> <<>>, body |-> <<32, 45, 32, 62, 32>>, src |-> <<60, 33, 45, 45, 32, 45, 32, 62, 32, 45, 45, 62>>, wfok |-> TRUE, free |-> FALSE, defs |-> {}, needs |-> "", feat |-> ""],
  \* <?p d?>
  P1 |-> [k |-> "P", name |-> "p", attrs |-> <<>>, body |-> <<32, 100>>, src |-> <<60, 63, 112, 32, 100, 63, 62>>, wfok |-> TRUE, free |-> FALSE, defs |-> {}, needs |-> "", feat |-> ""],
  \* <?p?>
  P0 |-> [k |-> "P", name |-> "p", attrs |-> <<>>, body |-> <<>>, src |-> <<60, 63, 112, 63, 62>>, wfok |-> TRUE, free |-> FALSE, defs |-> {}, needs |-> "", feat |-> ""],
  \* <?p a?b>c?>
  P2 |-> [k |-> "P", name |-> "p", attrs |-> <<>>, body |-> <<32, 97, 63, 98, 62, 99>>, src |-> <<60, 63, 112, 32, 97, 63, 98, 62, 99, 63, 62>>, wfok |-> TRUE, free |-> FALSE, defs |-> {}, needs |-> "", feat |-> ""],
  \* <?n:t-1 <a> ?>
  P3 |-> [k |-> "P", name |-> "n:t-1", attrs |-> <<>>, body |-> <<32, 60, 97, 62, 32>>, src |-> <<60, 63, 110, 58, 116, 45, 49, 32, 60, 97, 62, 32, 63, 62>>, wfok |-> TRUE, free |-> FALSE, defs |-> {}, needs |-> "", feat |-> ""],
  \* <?p ??>
  P4 |-> [k |-> "P", name |-> "p", attrs |-> <<>>, body |-> <<32, 63>>, src |-> <<60, 63, 112, 32, 63, 63, 62>>, wfok |-> TRUE, free |-> FALSE, defs |-> {}, needs |-> "", feat |-> ""],
  \* <?p a???>
  P5 |-> [k |-> "P", name |-> "p", attrs |-> <<>>, body |-> <<32, 97, 63, 63>>, src |-> <<60, 63, 112, 32, 97, 63, 63, 63, 62>>, wfok |-> TRUE, free |-> FALSE, defs |-> {}, needs |-> "", feat |-> ""],
  \* <?xml version="1.0"?>
  X1 |-> [k |-> "X", name |-> "xml", attrs |-> <<>>, body |-> <<>>, src |-> <<60, 63, 120, 109, 108, 32, 118, 101, 114, 115, 105, 111, 110, 61, 34, 49, 46, 48, 34, 63, 62>>, wfok |-> TRUE, free |-> FALSE, defs |-> {}, needs |-> "", feat |-> ""],
  \* <?xml version="1.0" encoding="UTF-8" standalone="yes"?>
  X2 |-> [k |-> "X", name |-> "xml", attrs |-> <<>>, body |-> <<>>, src |-> <<60, 63, 120, 109, 108, 32, 118, 101, 114, 115, 105, 111, 110, 61, 34, 49, 46, 48, 34, 32, 101, 110, 99, 111, 100, 105, 110, 103, 61, 34, 85, 84, 70, 45, 56, 34, 32, 115, 116, 97, 110, 100, 97, 108, 111, 110, 101, 61, 34, 121, 101, 115, 34, 63, 62>>, wfok |-> TRUE, free |-> FALSE, defs |-> {}, needs |-> "", feat |-> ""],
  \* <!DOCTYPE a>
  D1 |-> [k |-> "D", name |-> "", attrs |-> <<>>, body |-> <<>>, src |-> <<60, 33, 68, 79, 67, 84, 89, 80, 69, 32, 97, 62>>, wfok |-> TRUE, free |-> FALSE, defs |-> {}, needs |-> "", feat |-> ""],
  \* <!DOCTYPE a [<!ENTITY e "XPND">]>
  D2 |-> [k |-> "D", name |-> "", attrs |-> <<>>, body |-> <<>>, src |-> <<60, 33, 68, 79, 67, 84, 89, 80, 69, 32, 97, 32, 91, 60, 33, 69, 78, 84, 73, 84, 89, 32, 101, 32, 34, 88, 80, 78, 68, 34, 62, 93, 62>>, wfok |-> TRUE, free |-> FALSE, defs |-> {"e"}, needs |-> "", feat |-> ""],
  \* <!DOCTYPE a [<!ENTITY x SYSTEM "file:///etc/hostname"> <!ENTITY e "XPND>">]>
  D3 |-> [k |-> "D", name |-> "", attrs |-> <<>>, body |-> <<>>, src |-> <<60, 33, 68, 79, 67, 84, 89, 80, 69, 32, 97, 32, 91, 60, 33, 69, 78, 84, 73, 84, 89, 32, 120, 32, 83, 89, 83, 84, 69, 77, 32, 34, 102, 105, 108, 101, 58, 47, 47, 47, 101, 116, 99, 47, 104, 111, 115, 116, 110, 97, 109, 101, 34, 62, 32, 60, 33, 69, 78, 84, 73, 84, 89, 32, 101, 32, 34, 88, 80, 78, 68, 62, 34, 62, 93, 62>>, wfok |-> TRUE, free |-> FALSE, defs |-> {"e", "x"}, needs |-> "", feat |-> ""],
  \* <!DOCTYPE a SYSTEM "a.dtd">
  D4 |-> [k |-> "D", name |-> "", attrs |-> <<>>, body |-> <<>>, src |-> <<60, 33, 68, 79, 67, 84, 89, 80, 69, 32, 97, 32, 83, 89, 83, 84, 69, 77, 32, 34, 97, 46, 100, 116, 100, 34, 62>>, wfok |-> TRUE, free |-> FALSE, defs |-> {}, needs |-> "", feat |-> ""],
  \* <!DOCTYPE a PUBLIC "-//X//Y" "x>y">
  D5 |-> [k |-> "D", name |-> "", attrs |-> <<>>, body |-> <<>>, src |-> <<60, 33, 68, 79, 67, 84, 89, 80, 69, 32, 97, 32, 80, 85, 66, 76, 73, 67, 32, 34, 45, 47, 47, 88, 47, 47, 89, 34, 32, 34, 120, 62, 121, 34, 62>>, wfok |-> TRUE, free |-> FALSE, defs |-> {}, needs |-> "", feat |-> "doctype-literal-gt"],
  \* <!doctype a>
  D6 |-> [k |-> "D", name |-> "", attrs |-> <<>>, body |-> <<>>, src |-> <<60, 33, 100, 111, 99, 116, 121, 112, 101, 32, 97, 62>>, wfok |-> FALSE, free |-> FALSE, defs |-> {}, needs |-> "", feat |-> ""],
  \* <a
  U1 |-> [k |-> "U", name |-> "", attrs |-> <<>>, body |-> <<>>, src |-> <<60, 97>>, wfok |-> TRUE, free |-> TRUE, defs |-> {}, needs |-> "", feat |-> ""],
  \* <a x
  U2 |-> [k |-> "U", name |-> "", attrs |-> <<>>, body |-> <<>>, src |-> <<60, 97, 32, 120>>, wfok |-> TRUE, free |-> TRUE, defs |-> {}, needs |-> "", feat |-> ""],
  \* <a x=
  U3 |-> [k |-> "U", name |-> "", attrs |-> <<>>, body |-> <<>>, src |-> <<60, 97, 32, 120, 61>>, wfok |-> TRUE, free |-> TRUE, defs |-> {}, needs |-> "", feat |-> ""],
  \* <a x="
  U4 |-> [k |-> "U", name |-> "", attrs |-> <<>>, body |-> <<>>, src |-> <<60, 97, 32, 120, 61, 34>>, wfok |-> TRUE, free |-> TRUE, defs |-> {}, needs |-> "", feat |-> ""],
  \* </a
  U5 |-> [k |-> "U", name |-> "", attrs |-> <<>>, body |-> <<>>, src |-> <<60, 47, 97>>, wfok |-> TRUE, free |-> TRUE, defs |-> {}, needs |-> "", feat |-> ""],
  \* <!--
  U6 |-> [k |-> "U", name |-> "", attrs |-> <<>>, body |-> <<>>, src |-> <<60, 33, 45, 45>>, wfok |-> TRUE, free |-> TRUE, defs |-> {}, needs |-> "", feat |-> ""],
  \* <![CDATA[
  U7 |-> [k |-> "U", name |-> "", attrs |-> <<>>, body |-> <<>>, src |-> <<60, 33, 91, 67, 68, 65, 84, 65, 91>>, wfok |-> TRUE, free |-> TRUE, defs |-> {}, needs |-> "", feat |-> ""],
  \* <?p
  U8 |-> [k |-> "U", name |-> "", attrs |-> <<>>, body |-> <<>>, src |-> <<60, 63, 112>>, wfok |-> TRUE, free |-> TRUE, defs |-> {}, needs |-> "", feat |-> ""],
  \* <!DOCTYPE
  U9 |-> [k |-> "U", name |-> "", attrs |-> <<>>, body |-> <<>>, src |-> <<60, 33, 68, 79, 67, 84, 89, 80, 69>>, wfok |-> TRUE, free |-> TRUE, defs |-> {}, needs |-> "", feat |-> ""],
  \* <
  U10 |-> [k |-> "U", name |-> "", attrs |-> <<>>, body |-> <<>>, src |-> <<60>>, wfok |-> TRUE, free |-> TRUE, defs |-> {}, needs |-> "", feat |-> ""],
  \* </
  U11 |-> [k |-> "U", name |-> "", attrs |-> <<>>, body |-> <<>>, src |-> <<60, 47>>, wfok |-> TRUE, free |-> TRUE, defs |-> {}, needs |-> "", feat |-> ""],
  \* <!
  U12 |-> [k |-> "U", name |-> "", attrs |-> <<>>, body |-> <<>>, src |-> <<60, 33>>, wfok |-> TRUE, free |-> TRUE, defs |-> {}, needs |-> "", feat |-> ""],
  \* <a/
  U13 |-> [k |-> "U", name |-> "", attrs |-> <<>>, body |-> <<>>, src |-> <<60, 97, 47>>, wfok |-> TRUE, free |-> TRUE, defs |-> {}, needs |-> "", feat |-> ""],
  \* <![CDATA[x]]
  U14 |-> [k |-> "U", name |-> "", attrs |-> <<>>, body |-> <<>>, src |-> <<60, 33, 91, 67, 68, 65, 84, 65, 91, 120, 93, 93>>, wfok |-> TRUE, free |-> TRUE, defs |-> {}, needs |-> "", feat |-> ""],
  \* <!-- x --
  U15 |-> [k |-> "U", name |-> "", attrs |-> <<>>, body |-> <<>>, src |-> <<60, 33, 45, 45, 32, 120, 32, 45, 45>>, wfok |-> TRUE, free |-> TRUE, defs |-> {}, needs |-> "", feat |-> ""],
  \* <?
  U16 |-> [k |-> "U", name |-> "", attrs |-> <<>>, body |-> <<>>, src |-> <<60, 63>>, wfok |-> TRUE, free |-> TRUE, defs |-> {}, needs |-> "", feat |-> ""],
  \* <!DOCTYPE a [
  U17 |-> [k |-> "U", name |-> "", attrs |-> <<>>, body |-> <<>>, src |-> <<60, 33, 68, 79, 67, 84, 89, 80, 69, 32, 97, 32, 91>>, wfok |-> TRUE, free |-> TRUE, defs |-> {}, needs |-> "", feat |-> ""],
  \* <a x=1>
  U18 |-> [k |-> "U", name |-> "", attrs |-> <<>>, body |-> <<>>, src |-> <<60, 97, 32, 120, 61, 49, 62>>, wfok |-> TRUE, free |-> TRUE, defs |-> {}, needs |-> "", feat |-> ""],
  \* <1>
  U19 |-> [k |-> "U", name |-> "", attrs |-> <<>>, body |-> <<>>, src |-> <<60, 49, 62>>, wfok |-> TRUE, free |-> TRUE, defs |-> {}, needs |-> "", feat |-> ""],
  \* < a>
  U20 |-> [k |-> "U", name |-> "", attrs |-> <<>>, body |-> <<>>, src |-> <<60, 32, 97, 62>>, wfok |-> TRUE, free |-> TRUE, defs |-> {}, needs |-> "", feat |-> ""]
]

ASSUME Alphabet \subseteq DOMAIN Lexeme /\ First \subseteq Alphabet

VARIABLES lex,      \* lexeme names
          stack,    \* names of the open elements
          unbal,    \* an end tag did not match (or had no start tag)
          dead,     \* lexemes emitted since then
          toks,     \* tokens so far; adjacent text pieces are one token
          se,       \* ghost: the Start/End tokens, mismatching ones included (for BalanceAgrees)
          roots, notwf, isfree, hasdefs, ndoc, dmax, feature
vars == <<lex, stack, unbal, dead, toks, se, roots, notwf, isfree, hasdefs, ndoc, dmax, feature>>

Init == /\ lex = <<>> /\ stack = <<>> /\ unbal = FALSE /\ dead = 0 /\ toks = <<>> /\ se = <<>> /\ roots = 0
        /\ notwf = FALSE /\ isfree = FALSE /\ hasdefs = {} /\ ndoc = 0 /\ dmax = 0 /\ feature = ""

Tok(r) == [k |-> r.k, name |-> r.name, attrs |-> r.attrs, body |-> r.body]
Top == stack = <<>>
AttrBad(r) == \E i \in 1..Len(r.attrs) : Decode(r.attrs[i].raw).cls # "yes"

Emit(a) ==
  LET r == Lexeme[a]
      lastT == toks # <<>> /\ toks[Len(toks)].k = "T"
      match == stack # <<>> /\ stack[Len(stack)] = r.name
  IN /\ Len(lex) < MaxLen
     /\ unbal => dead < MaxDead
     /\ lex = <<>> => a \in First
     /\ (OnlyMatchingEnds /\ r.k = "E") => match
     /\ lex' = Append(lex, a)
     /\ dead' = IF unbal \/ (r.k = "E" /\ ~match) THEN dead + 1 ELSE 0
     /\ isfree' = (isfree \/ r.free)
     /\ hasdefs' = (hasdefs \cup r.defs)
     /\ feature' = IF r.feat # "" THEN r.feat ELSE feature
     /\ ndoc' = IF r.k = "D" THEN ndoc + 1 ELSE ndoc
     /\ roots' = IF r.k \in {"S", "M"} /\ Top THEN roots + 1 ELSE roots
     /\ dmax' = IF r.k \in {"S", "M"} THEN Max(dmax, Len(stack) + 1) ELSE dmax
     /\ stack' = IF r.k = "S" THEN Append(stack, r.name)
                 ELSE IF r.k = "E" /\ match THEN SubSeq(stack, 1, Len(stack) - 1) ELSE stack
     /\ unbal' = (unbal \/ (r.k = "E" /\ ~match))
     /\ se' = CASE r.k = "S" -> Append(se, <<"S", r.name>>)
                [] r.k = "E" -> Append(se, <<"E", r.name>>)
                [] OTHER -> se
     /\ toks' = IF r.k = "T" /\ lastT THEN [toks EXCEPT ![Len(toks)].body = @ \o r.body]
                ELSE IF r.k = "U" THEN toks ELSE Append(toks, Tok(r))
     /\ notwf' = \/ notwf \/ ~r.wfok
                 \/ r.k \in {"S", "M"} /\ Top /\ roots >= 1                        \* second root element
                 \/ r.k \in {"S", "M"} /\ AttrBad(r)
                 \/ r.k = "T" /\ Top /\ ~AllWs(r.body)                            \* character data outside the root
                 \/ r.k = "T" /\ Decode(r.body).cls # "yes" /\ ~(r.needs \in hasdefs) \* reference without a value
                 \/ r.k = "C" /\ Top
                 \/ r.k = "X" /\ lex # <<>>                                       \* declaration not at the very start
                 \/ r.k = "D" /\ (ndoc >= 1 \/ roots >= 1)                        \* second DOCTYPE / after the root

Next == \E a \in Alphabet : Emit(a)
Spec == Init /\ [][Next]_vars

RECURSIVE Bytes(_)
Bytes(s) == IF s = <<>> THEN <<>> ELSE Lexeme[Head(s)].src \o Bytes(Tail(s))

\* ---------------------------------------------------------------------------------------------- expected results
Cls == IF isfree THEN "other"
       ELSE IF unbal \/ stack # <<>> THEN "unbal"
       ELSE IF roots = 1 /\ ~notwf THEN "wf" ELSE "other"

Visible(t) == t.k \notin {"X", "D"} /\ ~(t.k = "T" /\ AllWs(t.body))
AttrStr(as, dec) == JoinWith([i \in 1..Len(as) |-> as[i].n \o "=" \o HexOf(IF dec THEN Decode(as[i].raw).out ELSE as[i].raw)], ",")
PTok(t) == CASE t.k = "S" -> "S:" \o t.name \o "(" \o AttrStr(t.attrs, FALSE) \o ")"
             [] t.k = "M" -> "M:" \o t.name \o "(" \o AttrStr(t.attrs, FALSE) \o ")"
             [] t.k = "E" -> "E:" \o t.name
             [] t.k = "P" -> "P:" \o t.name \o "=" \o HexOf(StripLeadWs(t.body))
             [] OTHER -> t.k \o ":" \o HexOf(t.body)
DTok(t) == CASE t.k = "S" -> "S:" \o t.name \o "(" \o AttrStr(t.attrs, TRUE) \o ")"
             [] t.k = "M" -> "S:" \o t.name \o "(" \o AttrStr(t.attrs, TRUE) \o ");E:" \o t.name
             [] t.k = "T" -> "T:" \o HexOf(Decode(t.body).out)
             [] OTHER -> PTok(t)
\* in the DOM a text node is left out when its DECODED value is white space only (the DOM keeps no raw slice)
VisibleD(t) == t.k \notin {"X", "D"} /\ ~(t.k = "T" /\ AllWs(Decode(t.body).out))
Vis == SelectSeq(toks, Visible)
VisD == SelectSeq(toks, VisibleD)
PToks == JoinWith([i \in 1..Len(Vis) |-> PTok(Vis[i])], ";")
DToks == JoinWith([i \in 1..Len(VisD) |-> DTok(VisD[i])], ";")

RECURSIVE WorstOf(_)
WorstOf(S) == IF S = {} THEN "yes" ELSE LET x == CHOOSE y \in S : TRUE IN Worse(x, WorstOf(S \ {x}))
I == 1..Len(toks)
AttrIdx == UNION {{<<i, k>> : k \in 1..Len(toks[i].attrs)} : i \in I}
DomCls == WorstOf({Decode(toks[i].body).cls : i \in {j \in I : toks[j].k = "T"}}
                  \cup {Decode(toks[p[1]].attrs[p[2]].raw).cls : p \in AttrIdx})

MaxOver(S) == IF S = {} THEN 0 ELSE CHOOSE x \in S : \A y \in S : y <= x
AMax == MaxOver({Len(toks[i].attrs) : i \in I})
NameLo == MaxOver({Len(toks[i].name) : i \in {j \in I : toks[j].k \in {"S", "E", "M"}}}
                  \cup {Len(toks[p[1]].attrs[p[2]].n) : p \in AttrIdx})
NameHi == Max(NameLo, MaxOver({Len(toks[i].name) : i \in {j \in I : toks[j].k \in {"P", "X"}}}))
AttrLen == {Len(toks[p[1]].attrs[p[2]].raw) : p \in AttrIdx}
TextHi == MaxOver(AttrLen \cup {Len(toks[i].body) : i \in {j \in I : toks[j].k \in {"T", "C", "K"}}})
TextLo == MaxOver(AttrLen \cup {Len(StripLeadWs(toks[i].body)) : i \in {j \in I : toks[j].k = "T"}})
CntHi == Len(toks) + 1                                                             \* the Eof token counted
CntLo == Cardinality({i \in I : ~(toks[i].k = "T" /\ AllWs(toks[i].body))})

\* ---------------------------------------------------------------------------------------------- invariants
TypeOK == Len(lex) <= MaxLen /\ dead \in 0..MaxDead /\ Cls \in {"wf", "unbal", "other"}
\* the stack machine of the generator agrees with balance-by-reduction
BalanceAgrees == (unbal \/ stack # <<>>) <=> ~Balanced(se)
WfIsTree == Cls = "wf" => (Balanced(se) /\ roots = 1 /\ dmax = Nesting(se, 0, 0) + (IF dmax > Nesting(se, 0, 0) THEN 1 ELSE 0))
MeasuresOK == NameLo <= NameHi /\ TextLo <= TextHi /\ CntLo < CntHi

CaseOut == CSVWrite("%1$s|%2$s|%3$s|%4$s|%5$s|%6$s|%7$s|%8$s|%9$s|%10$s|%11$s|%12$s|%13$s|%14$s|%15$s",
                    <<lex, Bytes(lex), Cls, PToks, DToks, DomCls, dmax, AMax, NameHi, NameLo, TextHi, TextLo, CntHi, CntLo, feature>>,
                    OutFile)
=============================================================================
