----------------------------- MODULE XmlLimits -----------------------------
(* C14 generator of the LIMIT dimension ("all settings of the depth/attribute/name/text/token limits").              *)
(* Besides the settings at/around each document's own measures (derived per document by checks/C14.py from the       *)
(* measures XmlDoc.tla computes) every limit takes the EXTREME values below - the smallest ones, the powers of two    *)
(* around the 32-bit and 63/64-bit boundaries, SIZE_MAX (the usual spelling of "no limit") and the values around the   *)
(* points where a limit misused as an allocation size / element count overflows or exceeds max_size() for element     *)
(* sizes 1..64 bytes - one limit at a time with the others at their defaults, all five at the same value, and all      *)
(* five at SIZE_MAX but one.  Every reachable state is one setting; CaseOut writes it to OutFile.                     *)
(*                                                                                                                    *)
(* A value is a record: dec = the decimal size_t handed to the parser's Options; abs = what the oracle compares the   *)
(* document's measures with.  TLC's integers are 32-bit, so abs is exact below Huge = 2^30 and Huge from there on:     *)
(* every measure of a generated document is far below 2^30, hence every comparison measure <= limit / measure > limit *)
(* of XmlBalanceTrace (Within / Beyond and the stateful clauses) has the same truth value for abs as for dec.  The     *)
(* driver logs the limits clamped in the same way.  The expected verdict is NOT computed here: it is Within/Beyond of  *)
(* XmlBalanceTrace on the document's measures - a huge limit never excuses a rejection, and no exception may escape.  *)
EXTENDS Integers, Sequences, TLC, CSV

CONSTANT OutFile

Huge == 1073741824
V(d, a) == [dec |-> d, abs |-> a]
Small == {V("0", 0), V("1", 1), V("2", 2), V("3", 3), V("15", 15), V("16", 16), V("17", 17), V("255", 255), V("256", 256),
          V("257", 257), V("1024", 1024), V("65535", 65535), V("65536", 65536), V("1048576", 1048576), V("16777216", 16777216), V("1073741823", 1073741823)}
Large == {V("1073741824", Huge),                 \* 2^30
          V("2147483647", Huge),                 \* 2^31-1
          V("2147483648", Huge),                 \* 2^31
          V("4294967295", Huge),                 \* 2^32-1
          V("4294967296", Huge),                 \* 2^32
          V("4294967297", Huge),
          V("1099511627776", Huge),              \* 2^40: a plausible-looking allocation that cannot succeed
          V("281474976710656", Huge),            \* 2^48
          V("144115188075855871", Huge),         \* 2^57-1   max_size() of 64-byte elements
          V("144115188075855872", Huge),         \* 2^57
          V("288230376151711743", Huge),         \* 2^58-1   max_size() of 32-byte elements = SIZE_MAX/64
          V("288230376151711744", Huge),         \* 2^58
          V("576460752303423487", Huge),         \* 2^59-1   max_size() of 16-byte elements = SIZE_MAX/32
          V("576460752303423488", Huge),         \* 2^59
          V("1152921504606846976", Huge),        \* 2^60     SIZE_MAX/16 + 1
          V("2305843009213693952", Huge),        \* 2^61
          V("4611686018427387903", Huge),        \* 2^62-1
          V("4611686018427387904", Huge),        \* 2^62
          V("9223372036854775806", Huge),        \* 2^63-2
          V("9223372036854775807", Huge),        \* 2^63-1   PTRDIFF_MAX, max_size() of bytes
          V("9223372036854775808", Huge),        \* 2^63
          V("9223372036854775809", Huge),
          V("12297829382473034410", Huge),       \* 0xAAAA...A
          V("18446744073709551614", Huge),       \* SIZE_MAX-1
          V("18446744073709551615", Huge)}       \* SIZE_MAX
Values == Small \cup Large
SizeMax == V("18446744073709551615", Huge)

\* maxDepth maxAttrsPerElement maxNameLength maxTextSpan maxTotalTokens (0 = unbounded)
Default == <<V("256", 256), V("256", 256), V("1024", 1024), V("1048576", 1048576), V("0", 0)>>

VARIABLES setting, kind
vars == <<setting, kind>>
Init == setting = Default /\ kind = "default"
One == kind = "default" /\ \E i \in 1..5, v \in Values : setting' = [Default EXCEPT ![i] = v] /\ kind' = "one"
All == kind = "default" /\ \E v \in Values : setting' = [i \in 1..5 |-> v] /\ kind' = "all"
AllButOne == kind = "default" /\ \E i \in 1..5, v \in Small : setting' = [[j \in 1..5 |-> SizeMax] EXCEPT ![i] = v] /\ kind' = "allbutone"
Next == One \/ All \/ AllButOne
Spec == Init /\ [][Next]_vars

TypeOK == /\ kind \in {"default", "one", "all", "allbutone"}
          /\ \A i \in 1..5 : setting[i] \in Values /\ setting[i].abs <= Huge /\ (setting[i].abs < Huge <=> setting[i] \in Small)
CaseOut == CSVWrite("%1$s|%2$s|%3$s|%4$s|%5$s|%6$s|%7$s|%8$s|%9$s|%10$s|%11$s",
                    <<kind, setting[1].dec, setting[2].dec, setting[3].dec, setting[4].dec, setting[5].dec,
                      setting[1].abs, setting[2].abs, setting[3].abs, setting[4].abs, setting[5].abs>>, OutFile)
=============================================================================
