\* exhaustive configuration of the quick tier (MaxSegs = 4, MaxSwapSegs = 3 in the thorough tier)
SPECIFICATION Spec
CONSTANTS
  MaxSegs = 3
  MaxSwapSegs = 2
  MaxHist = 3
  MaxHistSegs = 3
  Dev_NoNoFollow = FALSE
  Dev_LexicalContainment = FALSE
  Dev_PrefixContainment = FALSE
  Dev_NoIsReg = FALSE
  Dev_ResolveMemo = FALSE
INVARIANT Safe
INVARIANT Emit
CHECK_DEADLOCK FALSE
