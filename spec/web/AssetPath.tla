------------------------------ MODULE AssetPath ------------------------------
(* C20.  Generator + Impl specification of iora::web::Assets::getStatic / getTemplate (include/iora/web/assets.hpp). *)
(*                                                                                                                  *)
(* Init enumerates mode x request name (a sequence of <= MaxSegs segment ids, joined with '/': the EMPTY segment      *)
(* yields leading, trailing and repeated separators) x leaf-swap plan.  One lookup is the step sequence of the code:  *)
(*   lex        lexicallyRejected: leading '/', NUL, backslash, a ".." segment                                         *)
(*   exists     weakly_canonical, first half: status(candidate)                                                        *)
(*   realpath   weakly_canonical, second half: canonical(candidate) - every symbolic link resolved                     *)
(*   contained  isContained(root, resolved), component-wise                                                            *)
(*   isreg      is_regular_file(resolved)   (follows a link that has appeared meanwhile)                               *)
(*   cache      cached modes: hit -> return the cached bytes (content tag and tag of the gzip variant)                 *)
(*   open       ::open(resolved, O_NOFOLLOW)      read   ::read                                                        *)
(*   gzstat / gzopen  the sibling <resolved>.gz of static assets, same is_regular_file / O_NOFOLLOW open               *)
(* SwapLeaf (environment) may fire once, right before any step that touches the file system: it replaces `target`     *)
(* (the regular file the name resolves to; or its .gz sibling; or the inside-pointing link the name ends in) by a      *)
(* symbolic link to the secret.  Cached modes run the lookup twice on the same object (round 2 meets the cache).       *)
(* Leaf kinds: besides regular files, directories and links FS0 holds a named pipe, a unix socket and a link to       *)
(* /dev/null in each root (segments pipe, link_pipe, sock, link_null); what open()/read() do with them is in Open.     *)
(* HISTORIES: a case is `hist`, a sequence of operations performed BETWEEN consecutive lookups of the same name on     *)
(* ONE Assets object (action Between): "none" (cached modes: round 2 meets the cache), "dirout" (the intermediate      *)
(* directory <root>/dir is moved out of the tree, a link to the outside directory takes its name), "dirback"           *)
(* (undone), "reload" (Assets::reload()).  Every valid sequence of <= MaxHist operations that contains a dirout is      *)
(* enumerated, in all four modes, for every name of <= MaxHistSegs segments whose resolution the dirout changes.        *)
(* Invariant Safe: whatever a lookup returns carries the tag of a regular file that was inside the root of the mode    *)
(* when that lookup started (`inside`) - for every lookup of the history.                                             *)
(* Deviations (default FALSE) show that the invariant sees the corresponding defects:                                 *)
(*   Dev_NoNoFollow          open without O_NOFOLLOW                                                                  *)
(*   Dev_LexicalContainment  containment tested on the candidate as written (links not resolved)                       *)
(*   Dev_PrefixContainment   containment by string prefix of the last root component (sibling "static2" passes)       *)
(*   Dev_NoIsReg             filesystem static lookup without the is_regular_file test (a pipe is opened and read)     *)
(*   Dev_ResolveMemo         filesystem static lookup remembers name -> resolved path and skips resolution and         *)
(*                           containment on a hit (forgotten by reload only)                                           *)
EXTENDS AssetOps, Json

CONSTANTS MaxSegs, MaxSwapSegs, MaxHist, MaxHistSegs,
          Dev_NoNoFollow, Dev_LexicalContainment, Dev_PrefixContainment, Dev_NoIsReg, Dev_ResolveMemo

Segs == {"a", "dir", "DOTDOT", "DOT", "EMPTY", "link_in", "link_out", "dlink_out", "dlink_sib", "link_x", "PCT",
         "NUL", "BSL", "LONG", "ABS", "nope", "pipe", "link_pipe", "sock", "link_null"}
Names == UNION {[1..n -> Segs] : n \in 1..MaxSegs}

VARIABLES mode, segs, swap, target, hist, fs, pc, round, resolved, fd, tag, gz, cache, memo, inside, swapAt, outs
vars == <<mode, segs, swap, target, hist, fs, pc, round, resolved, fd, tag, gz, cache, memo, inside, swapAt, outs>>

Root == RootOf(mode)
Rounds == Len(hist) + 1
HasGz == mode # "templates"
Cached == mode \in {"fs_cached", "templates"}
FsStatic == mode \in {"fs_cached", "fs_perreq"}

\* ---- the request as the code and the OS see it --------------------------------------------------------------
Comp(s) == CASE s = "EMPTY" -> "" [] s = "DOT" -> "." [] s = "DOTDOT" -> ".." [] s = "PCT" -> "a%2f.."
             [] s = "NUL" -> "a" [] OTHER -> s              \* BSL, LONG, ABS (not first), nope: names that do not exist
\* a C string ends at the NUL: the OS sees the name up to and including the "a" of the NUL segment
RECURSIVE CutAtNul(_)
CutAtNul(ss) == IF ss = <<>> THEN <<>> ELSE IF Head(ss) = "NUL" THEN <<"NUL">> ELSE <<Head(ss)>> \o CutAtNul(Tail(ss))
OsComps(ss) == LET c == CutAtNul(ss) IN [i \in 1..Len(c) |-> Comp(c[i])]
HasSeg(ss, s) == \E i \in 1..Len(ss) : ss[i] = s
\* std::filesystem: root / "/x" is "/x"; a request that starts with '/' is resolved from the machine's root.  ABS is the
\* absolute path of the secret; any other absolute request names nothing in the scratch tree.
Absolute(ss) == ss[1] = "ABS" \/ (ss[1] = "EMPTY" /\ Len(ss) >= 2)
Candidate(f, ss) == IF ss[1] = "ABS" THEN (IF Len(ss) = 1 THEN Resolve(f, <<>>, Secret) ELSE Err)
                    ELSE IF Absolute(ss) THEN Err
                    ELSE IF HasSeg(ss, "LONG") THEN Err          \* ENAMETOOLONG
                    ELSE Resolve(f, Root, OsComps(ss))
LexRejected(ss) == Absolute(ss) \/ HasSeg(ss, "NUL") \/ HasSeg(ss, "BSL") \/ HasSeg(ss, "DOTDOT")

\* ---- swap plans ---------------------------------------------------------------------------------------------
GzOf(p) == Append(Front(p), Last(p) \o ".gz")        \* string concatenation of the leaf name
LeafTarget(ss) == LET r == Candidate(FS0, ss) IN
                  IF r # Err /\ r \in DOMAIN FS0 /\ FS0[r].k = "file" /\ IsUnder(Root, r) THEN {r} ELSE {}
GzTarget(ss) == UNION {IF HasGz /\ Len(r) > 0 /\ GzOf(r) \in DOMAIN FS0 /\ FS0[GzOf(r)].k = "file" THEN {GzOf(r)} ELSE {} : r \in LeafTarget(ss)}
\* the request ends in a link that points to an inside file: the link itself is re-pointed
RelinkTarget(ss) == IF LexRejected(ss) \/ HasSeg(ss, "LONG") \/ Len(ss) = 0 THEN {}
                    ELSE LET c == OsComps(ss)
                             par == Resolve(FS0, Root, Front(c)) IN
                         IF par = Err \/ Last(c) \in {"", ".", ".."} THEN {}
                         ELSE LET p == Append(par, Last(c)) IN
                              IF p \in DOMAIN FS0 /\ FS0[p].k = "link" /\ LeafTarget(ss) # {} THEN {p} ELSE {}
Plans(ss) == {<<"none", <<>>>>} \cup
             (IF Len(ss) > MaxSwapSegs THEN {}
              ELSE {<<"leaf", t>> : t \in LeafTarget(ss)} \cup {<<"gz", t>> : t \in GzTarget(ss)} \cup
                   {<<"relink", t>> : t \in RelinkTarget(ss)})

\* ---- histories ----------------------------------------------------------------------------------------------
HistOps == {"dirout", "dirback", "reload"}
RECURSIVE ValidHist(_, _)
ValidHist(h, out) == IF h = <<>> THEN TRUE
                     ELSE CASE Head(h) = "dirout" -> ~out /\ ValidHist(Tail(h), TRUE)
                            [] Head(h) = "dirback" -> out /\ ValidHist(Tail(h), FALSE)
                            [] OTHER -> ValidHist(Tail(h), out)
Hists == {h \in UNION {[1..n -> HistOps] : n \in 1..MaxHist} : ValidHist(h, FALSE) /\ \E i \in DOMAIN h : h[i] = "dirout"}
\* the names a dirout matters for: what they resolve to changes with it
HistName(ss) == Len(ss) <= MaxHistSegs /\ Candidate(FS0, ss) # Candidate(DirOut(FS0, mode), ss)
DefaultHist == IF Cached THEN <<"none">> ELSE <<>>

Init == /\ mode \in Modes
        /\ segs \in Names
        /\ \E pl \in Plans(segs) : swap = pl[1] /\ target = pl[2]
        /\ hist \in {DefaultHist} \cup (IF swap = "none" /\ HistName(segs) THEN Hists ELSE {})
        /\ fs = FS0 /\ pc = "lex" /\ round = 1 /\ resolved = <<>> /\ fd = <<>> /\ tag = 0 /\ gz = 0 /\ cache = <<>>
        /\ memo = <<>> /\ inside = InsideTagsOf(FS0, mode)
        /\ swapAt = <<>> /\ outs = <<>>

\* ---- one lookup ---------------------------------------------------------------------------------------------
Finish(res, t, g) ==
    /\ outs' = Append(outs, [res |-> res, tag |-> t, gz |-> g,
                             ok |-> (res = "found" => t \in inside /\ (g # 0 => g \in inside))])
    /\ round' = round /\ pc' = (IF round < Rounds THEN "between" ELSE "done")
    /\ resolved' = <<>> /\ fd' = <<>> /\ tag' = 0 /\ gz' = 0
Keep0 == UNCHANGED <<mode, segs, swap, target, hist, fs, inside, swapAt>>
Keep == Keep0 /\ UNCHANGED memo
Goto(p) == pc' = p /\ UNCHANGED <<round, outs, resolved, fd, tag, gz>>

Lex == /\ pc = "lex"
       /\ IF LexRejected(segs) THEN Finish("rejected", 0, 0)
          ELSE IF Dev_ResolveMemo /\ FsStatic /\ memo # <<>>
               THEN resolved' = memo /\ pc' = "isreg" /\ UNCHANGED <<round, outs, fd, tag, gz>>
          ELSE Goto("exists")
       /\ UNCHANGED cache /\ Keep
Exists == /\ pc = "exists"
          /\ IF Candidate(fs, segs) = Err THEN Finish("refused", 0, 0) ELSE Goto("realpath")
          /\ UNCHANGED cache /\ Keep
Realpath == /\ pc = "realpath"
            /\ LET r == Candidate(fs, segs) IN
               IF r = Err THEN Finish("refused", 0, 0)
               ELSE /\ resolved' = (IF Dev_LexicalContainment /\ ~Absolute(segs)
                                    THEN Root \o SelectSeq(OsComps(segs), LAMBDA c : c \notin {"", "."}) ELSE r)
                    /\ pc' = "contained" /\ UNCHANGED <<round, outs, fd, tag, gz>>
            /\ UNCHANGED cache /\ Keep
\* "static" is a string prefix of "static2": what a starts_with test would admit
StrPrefixUnder(base, p) == /\ Len(p) >= Len(base) /\ SubSeq(p, 1, Len(base) - 1) = Front(base)
                           /\ p[Len(base)] \in {Last(base), Last(base) \o "2"}
ContainedStep == /\ pc = "contained"
                 /\ LET ok == IF Dev_PrefixContainment THEN StrPrefixUnder(Root, resolved) ELSE IsUnder(Root, resolved) IN
                    IF ok THEN Goto(IF Dev_NoIsReg /\ FsStatic THEN "cache" ELSE "isreg") ELSE Finish("rejected", 0, 0)
                 /\ UNCHANGED cache /\ Keep
IsReg == /\ pc = "isreg"
         /\ LET t == Resolve(fs, <<>>, resolved) IN
            IF t # Err /\ fs[t].k = "file"
            THEN Goto("cache") /\ memo' = (IF Dev_ResolveMemo /\ FsStatic THEN resolved ELSE memo)
            ELSE Finish("refused", 0, 0) /\ UNCHANGED memo
         /\ UNCHANGED cache /\ Keep0
CacheStep == /\ pc = "cache"
             /\ IF Cached /\ cache # <<>> THEN Finish("found", cache[1], cache[2]) ELSE Goto("open")
             /\ UNCHANGED cache /\ Keep
\* open() + read(): a regular file yields its bytes; a directory opens but read() fails (EISDIR); a socket does not open
\* (ENXIO); a pipe opens as soon as a writer exists and yields the writer's bytes (its own tag, never a file's); a
\* character device opens (the tag 0 of /dev/null: no bytes)
Open == /\ pc = "open"
        /\ LET n == OpenNoFollow(fs, resolved, Dev_NoNoFollow) IN
           IF n = Err \/ fs[n].k \notin {"file", "fifo", "dev"} THEN Finish("refused", 0, 0)
           ELSE fd' = n /\ pc' = "read" /\ UNCHANGED <<round, outs, resolved, tag, gz>>
        /\ UNCHANGED cache /\ Keep
\* the descriptor keeps naming the file that was opened, whatever happens to the directory entry afterwards
Read == /\ pc = "read"
        /\ LET t == FS0[fd].tag IN
           IF HasGz THEN tag' = t /\ pc' = "gzstat" /\ UNCHANGED <<round, outs, resolved, fd, gz, cache>>
           ELSE Finish("found", t, 0) /\ cache' = <<t, 0>>
        /\ Keep
GzStat == /\ pc = "gzstat"
          /\ LET g == IF resolved = <<>> THEN Err ELSE Resolve(fs, <<>>, GzOf(resolved)) IN
             IF g # Err /\ fs[g].k = "file" THEN Goto("gzopen") /\ UNCHANGED cache
             ELSE Finish("found", tag, 0) /\ cache' = (IF Cached THEN <<tag, 0>> ELSE cache)
          /\ Keep
GzOpen == /\ pc = "gzopen"
          /\ LET n == OpenNoFollow(fs, GzOf(resolved), Dev_NoNoFollow)
                 g == IF n = Err \/ fs[n].k # "file" THEN 0 ELSE FS0[n].tag IN
             /\ Finish("found", tag, g)
             /\ cache' = (IF Cached THEN <<tag, g>> ELSE cache)
          /\ Keep

\* ---- the environment ----------------------------------------------------------------------------------------
SwapPcs == {"exists", "realpath", "isreg", "open", "read", "gzstat", "gzopen"}
SwapLeaf == /\ swap # "none" /\ swapAt = <<>> /\ pc \in SwapPcs
            /\ fs' = [fs EXCEPT ![target] = L(Secret)]
            /\ swapAt' = <<round, pc>>
            /\ UNCHANGED <<mode, segs, swap, target, hist, pc, round, resolved, fd, tag, gz, cache, memo, inside, outs>>

\* between two lookups of a history; `inside` is what the next lookup may return
Between == /\ pc = "between"
           /\ LET op == hist[round] IN
              /\ fs' = (CASE op = "dirout" -> DirOut(fs, mode) [] op = "dirback" -> DirBack(fs, mode) [] OTHER -> fs)
              /\ cache' = (IF op = "reload" THEN <<>> ELSE cache)
              /\ memo' = (IF op = "reload" THEN <<>> ELSE memo)
           /\ inside' = InsideTagsOf(fs', mode)
           /\ round' = round + 1 /\ pc' = "lex"
           /\ UNCHANGED <<mode, segs, swap, target, hist, swapAt, outs, resolved, fd, tag, gz>>

Next == Lex \/ Exists \/ Realpath \/ ContainedStep \/ IsReg \/ CacheStep \/ Open \/ Read \/ GzStat \/ GzOpen \/ SwapLeaf \/ Between
Spec == Init /\ [][Next]_vars

\* ---- the property -------------------------------------------------------------------------------------------
Safe == \A i \in 1..Len(outs) : outs[i].ok
\* a plan whose swap never fired is the same case as the plan without swap: only completed plans are emitted
Emit == pc # "done" \/ (swap # "none" /\ swapAt = <<>>) \/
        PrintT(ToJson([mode |-> mode, segs |-> segs, swap |-> swap, target |-> target, at |-> swapAt, hist |-> hist, outs |-> outs]))
=============================================================================
