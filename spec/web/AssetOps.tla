------------------------------ MODULE AssetOps ------------------------------
(* The tiny file system FS0 of C20 and POSIX path resolution over it; shared by AssetPath.tla (generator / Impl)  *)
(* and AssetTrace.tla (Abs oracle).  harness/drv_assets.cpp builds exactly this tree (`drv_assets tree` lists it,  *)
(* the check compares the two).                                                                                 *)
(* A path is a sequence of component names from the root of the scratch tree; a node is                          *)
(*   [k |-> "dir"] | [k |-> "file", tag |-> n] | [k |-> "link", to |-> path]      (links have absolute targets)      *)
(*   [k |-> "fifo", tag |-> n]  named pipe: open() succeeds once a writer shows up, read() yields the writer's bytes  *)
(*                              (the driver's helper writes "TAG:<n>"), never the bytes of a regular file             *)
(*   [k |-> "sock"]             unix socket: open() fails (ENXIO)                                                     *)
(*   [k |-> "dev"]              character device (/dev/null, reached through a link): open() succeeds, no bytes       *)
(* Every regular file has a unique content tag; tag 99 is the secret outside every root.                          *)
EXTENDS Integers, Sequences, FiniteSets, TLC

D == [k |-> "dir", tag |-> 0, to |-> <<>>]
F(n) == [k |-> "file", tag |-> n, to |-> <<>>]
L(p) == [k |-> "link", tag |-> 0, to |-> p]
P(n) == [k |-> "fifo", tag |-> n, to |-> <<>>]
S == [k |-> "sock", tag |-> 0, to |-> <<>>]
V == [k |-> "dev", tag |-> 0, to |-> <<>>]

Secret == <<"secret">>
FS0 ==
    ( <<>> :> D ) @@
    ( <<"secret">> :> F(99) ) @@
    ( <<"outdir">> :> D ) @@ ( <<"outdir", "a">> :> F(98) ) @@
    ( <<"dev">> :> D ) @@ ( <<"dev", "null">> :> V ) @@            \* the machine's /dev/null (not part of the scratch tree)
    ( <<"site">> :> D ) @@
    ( <<"site", "static">> :> D ) @@
    ( <<"site", "static", "a">> :> F(1) ) @@
    ( <<"site", "static", "a.gz">> :> L(Secret) ) @@
    ( <<"site", "static", "dir">> :> D ) @@
    ( <<"site", "static", "dir", "a">> :> F(2) ) @@
    ( <<"site", "static", "dir", "a.gz">> :> F(4) ) @@
    ( <<"site", "static", "a%2f..">> :> F(3) ) @@
    ( <<"site", "static", "link_in">> :> L(<<"site", "static", "dir", "a">>) ) @@
    ( <<"site", "static", "link_out">> :> L(Secret) ) @@
    ( <<"site", "static", "dlink_out">> :> L(<<"outdir">>) ) @@
    ( <<"site", "static", "dlink_sib">> :> L(<<"site", "static2">>) ) @@
    ( <<"site", "static", "link_x">> :> L(<<"site", "templates", "a">>) ) @@
    ( <<"site", "static", "pipe">> :> P(97) ) @@
    ( <<"site", "static", "link_pipe">> :> L(<<"site", "static", "pipe">>) ) @@
    ( <<"site", "static", "sock">> :> S ) @@
    ( <<"site", "static", "link_null">> :> L(<<"dev", "null">>) ) @@
    ( <<"site", "static2">> :> D ) @@ ( <<"site", "static2", "a">> :> F(96) ) @@
    ( <<"site", "templates">> :> D ) @@
    ( <<"site", "templates", "a">> :> F(11) ) @@
    ( <<"site", "templates", "dir">> :> D ) @@
    ( <<"site", "templates", "dir", "a">> :> F(12) ) @@
    ( <<"site", "templates", "a%2f..">> :> F(13) ) @@
    ( <<"site", "templates", "link_in">> :> L(<<"site", "templates", "dir", "a">>) ) @@
    ( <<"site", "templates", "link_out">> :> L(Secret) ) @@
    ( <<"site", "templates", "dlink_out">> :> L(<<"outdir">>) ) @@
    ( <<"site", "templates", "dlink_sib">> :> L(<<"site", "templates2">>) ) @@
    ( <<"site", "templates", "link_x">> :> L(<<"site", "static", "a">>) ) @@
    ( <<"site", "templates", "pipe">> :> P(94) ) @@
    ( <<"site", "templates", "link_pipe">> :> L(<<"site", "templates", "pipe">>) ) @@
    ( <<"site", "templates", "sock">> :> S ) @@
    ( <<"site", "templates", "link_null">> :> L(<<"dev", "null">>) ) @@
    ( <<"site", "templates2">> :> D ) @@ ( <<"site", "templates2", "a">> :> F(95) )

Modes == {"fs_cached", "fs_perreq", "embedded_ext", "templates"}
RootOf(mode) == IF mode = "templates" THEN <<"site", "templates">> ELSE <<"site", "static">>

IsUnder(base, p) == Len(p) >= Len(base) /\ SubSeq(p, 1, Len(base)) = base
Front(p) == SubSeq(p, 1, Len(p) - 1)
Last(p) == p[Len(p)]

\* the tags a lookup in `mode` may return while the tree is `fs`: regular files whose location is inside the root of the mode
InsideTagsOf(fs, mode) == {fs[p].tag : p \in {x \in DOMAIN fs : fs[x].k = "file" /\ IsUnder(RootOf(mode), x) /\ x # RootOf(mode)}}
InsideTags(mode) == InsideTagsOf(FS0, mode)

\* ---- changes of the tree between two lookups of a history ---------------------------------------------------
\* the intermediate directory <root>/dir is moved away (out of every root) and a symbolic link to the outside directory
\* takes its name; DirBack undoes it.  Every name that went through <root>/dir now leads outside.
SwapDir(mode) == Append(RootOf(mode), "dir")
DirOut(fs, mode) == LET d == SwapDir(mode) IN
                    [p \in {q \in DOMAIN fs : ~(IsUnder(d, q) /\ q # d)} |-> IF p = d THEN L(<<"outdir">>) ELSE fs[p]]
DirBack(fs, mode) == LET d == SwapDir(mode) IN
                     [p \in DOMAIN fs \cup {q \in DOMAIN FS0 : IsUnder(d, q)} |-> IF IsUnder(d, p) THEN FS0[p] ELSE fs[p]]

\* ---- POSIX resolution (stat semantics: the final component is followed) --------------------------------------
Err == <<"!">>
Fuel == 8
RECURSIVE Res(_, _, _, _)
Res(fs, cur, comps, fuel) ==
    IF fuel = 0 THEN Err
    ELSE IF comps = <<>> THEN cur
    ELSE IF cur \notin DOMAIN fs \/ fs[cur].k # "dir" THEN Err                         \* ENOENT / ENOTDIR
    ELSE LET s == Head(comps)  rest == Tail(comps) IN
         IF s = "" \/ s = "." THEN Res(fs, cur, rest, fuel)
         ELSE IF s = ".." THEN Res(fs, IF cur = <<>> THEN cur ELSE Front(cur), rest, fuel)
         ELSE LET p == Append(cur, s) IN
              IF p \notin DOMAIN fs THEN Err
              ELSE IF fs[p].k = "link" THEN Res(fs, <<>>, fs[p].to \o rest, fuel - 1)
              ELSE Res(fs, p, rest, fuel)
Resolve(fs, cur, comps) == Res(fs, cur, comps, Fuel)

\* open(path, O_NOFOLLOW): intermediate links are followed, the leaf itself is not.  Result: the node opened, or Err
OpenNoFollow(fs, p, follow) ==
    IF p = <<>> THEN <<>>
    ELSE LET par == Resolve(fs, <<>>, Front(p)) IN
         IF par = Err THEN Err
         ELSE LET leaf == Append(par, Last(p)) IN
              IF leaf \notin DOMAIN fs THEN Err
              ELSE IF fs[leaf].k = "link" THEN (IF follow THEN Resolve(fs, <<>>, fs[leaf].to) ELSE Err)    \* ELOOP
              ELSE leaf
=============================================================================
