------------------------------ MODULE AssetTrace ------------------------------
(* Abs oracle of C20 as a trace specification.  One event per lookup performed on the real iora::web::Assets:     *)
(*   {"e":"Lookup","mode":m,"segs":[...],"swap":..,"round":r,"swapped":b,"res":"found"|"notfound"|"rejected"|     *)
(*    "exception","tag":n,"gz":g,"os_in":b,...}                                                                   *)
(* tag / gz identify the bytes returned (every file of the tree has a unique tag, the secret is 99).              *)
(* The statement demands exactly: what is returned are the bytes of a regular file whose resolved location lies   *)
(* inside the root of the mode (static root, template root, EXTERNAL_DIR), or the request is refused - also when   *)
(* the leaf is swapped for an outside-pointing link during the lookup.  Two oracles, both must agree:              *)
(*   - the tag belongs to InsideTags(mode), computed from FS0 by the specification (AssetOps);                     *)
(*   - os_in: the OS's own realpath + lstat of the file holding that tag says "regular file inside the root".      *)
(* Which inside file is served for which name is NOT demanded (the check reports differences from the Impl         *)
(* prediction as model drift).  An exception escaping the lookup counts as a refusal.                              *)
(* Histories: every lookup of a history is judged against the tree AT THE TIME OF THAT LOOKUP: the event says       *)
(* whether the intermediate directory <root>/dir was in place (dir = "in") or moved out and replaced by a link to    *)
(* the outside directory (dir = "out"; AssetOps!DirOut).  Pipes, sockets and devices are not regular files: their    *)
(* tags (what the driver's feeder writes into a pipe) are in no Inside set.                                         *)
EXTENDS TraceBase, AssetOps

vars == <<l>>
Init == l = 1
\* embedded mode serves its compiled-in assets (tags 21 static, 22 template) besides EXTERNAL_DIR files
InsideIn == [m \in Modes |-> InsideTagsOf(FS0, m) \cup (IF m = "embedded_ext" THEN {21} ELSE {})]
InsideOut == [m \in Modes |-> InsideTagsOf(DirOut(FS0, m), m) \cup (IF m = "embedded_ext" THEN {21} ELSE {})]
Inside(e) == IF e.dir = "out" THEN InsideOut[e.mode] ELSE InsideIn[e.mode]
Allowed(e) == /\ e.res \in {"found", "notfound", "rejected", "exception"}
              /\ e.dir \in {"in", "out"}
              /\ e.res = "found" => /\ e.tag \in Inside(e)
                                    /\ (e.gz # 0 => e.gz \in Inside(e))
                                    /\ e.os_in
Judge(ok) == IF ok THEN TRUE ELSE PrintT(<<"BAD", l>>)
EvLookup == IsEv("Lookup") /\ Judge(Ev.mode \in Modes /\ Allowed(Ev))
EvReset == IsEv("Reset")
Next == EvLookup \/ EvReset
Spec == Init /\ [][Next]_vars
===============================================================================
