------------------------------ MODULE Mustache ------------------------------
(* X17 - iora::parsers::Mustache (include/iora/parsers/mustache.hpp; tests/web/test_mustache.cpp).                  *)
(* Generator + Impl specification.                                                                                *)
(*                                                                                                                *)
(* What a user relies on (Abs = MustacheOps!Eval with no deviation):                                                *)
(*   M1  {{x}} is ALWAYS HTML-escaped (the five characters), {{{x}}} and {{&x}} NEVER; literal text is copied;        *)
(*   M2  a missing key, a broken dotted chain, null, an array or an object in scalar position render as "" - never    *)
(*       an error; the first key is found in the innermost frame that CONTAINS it, later keys only descend;           *)
(*   M3  a section renders zero times for exactly {null, false, [], ""}, once per element for a non-empty array       *)
(*       (element pushed), once otherwise (0, 0.0, true, "x", objects; value pushed); an inverted section renders     *)
(*       once exactly when the section would render zero times and pushes nothing;                                   *)
(*   M4  unbalanced / mismatched / stray tags, unterminated tags and set-delimiter tags are refused (MustacheError,  *)
(*       no partial output), nesting beyond 100 is refused, whether or not the section would be rendered;             *)
(*   M5  partials are resolved ONLY when reached, render against the live context stack, an unknown partial / a       *)
(*       missing resolver / a malformed partial is an error only when reached, recursion (sections + partial          *)
(*       expansion) deeper than 100 is refused - so render always terminates;                                         *)
(*   M6  standalone section / inverted / close / comment / partial lines leave no trace in the output, a standalone   *)
(*       partial's indentation is applied to the non-empty lines of its source; interpolation is never standalone;    *)
(*   M7  render never mutates the data (driver-observed) and is deterministic.                                        *)
(*                                                                                                                *)
(* States are templates: sequences of lexeme names over the alphabet of a family, grown one lexeme at a time (action Emit) while the  *)
(* sequence is not already hopeless (a close that cannot match, a tokenizer error, nesting beyond the limit) - those  *)
(* sequences are cases too, they are just not extended.  Every state is printed by Emit2 with the predicted result.   *)
(* Deviations (default FALSE): the evaluator computes the slip's behaviour; Refines (Impl = Abs) must be violated     *)
(* by TLC for each (self-test that the case family contains a witness for that kind of defect):                        *)
(*   Dev_NoEscape {{x}} unescaped     Dev_EscapeRaw {{{x}}} escaped        Dev_ZeroFalsy 0 is falsy                     *)
(*   Dev_EmptyArrayTruthy [] not falsy (inverted section not rendered)      Dev_NoStandalone no standalone stripping   *)
(*   Dev_NoIndent standalone partial not indented    Dev_DepthOffByOne limit 99      Dev_CloseNotChecked {{#a}}{{/b}} ok *)
(*   Dev_InnermostOnly no context-stack walk          Dev_PartialEager partials resolved even when skipped             *)
(*   Dev_CrlfBlankIndented a blank "\r\n" line of a standalone partial's source is indented - this one IS the real       *)
(*   engine's behaviour (observation, X17.meta.json): Emit2 prints the prediction with it as well (field dout)            *)
EXTENDS MustacheOps, Json

CONSTANTS Families,            \* family name -> [a |-> alphabet (set of lexeme names), n |-> MaxLen, r |-> set of resolver flags]
          MaxHeavy,            \* at most this many deep-nesting / recursive lexemes per template (they are expensive to evaluate)
          Dev_NoEscape, Dev_EscapeRaw, Dev_ZeroFalsy, Dev_EmptyArrayTruthy, Dev_NoStandalone, Dev_NoIndent, Dev_DepthOffByOne,
          Dev_CloseNotChecked, Dev_InnermostOnly, Dev_PartialEager,
          Dev_CrlfBlankIndented      \* OBSERVED in the real engine (see MustacheOps!Indent); the trace oracle reports it as OBS

VARIABLES fam, lex, res
vars == <<fam, lex, res>>

F == (IF Dev_NoEscape THEN {"NoEscape"} ELSE {}) \cup (IF Dev_EscapeRaw THEN {"EscapeRaw"} ELSE {})
     \cup (IF Dev_ZeroFalsy THEN {"ZeroFalsy"} ELSE {}) \cup (IF Dev_EmptyArrayTruthy THEN {"EmptyArrayTruthy"} ELSE {})
     \cup (IF Dev_NoStandalone THEN {"NoStandalone"} ELSE {}) \cup (IF Dev_NoIndent THEN {"NoIndent"} ELSE {})
     \cup (IF Dev_DepthOffByOne THEN {"DepthOffByOne"} ELSE {}) \cup (IF Dev_CloseNotChecked THEN {"CloseNotChecked"} ELSE {})
     \cup (IF Dev_InnermostOnly THEN {"InnermostOnly"} ELSE {}) \cup (IF Dev_PartialEager THEN {"PartialEager"} ELSE {})
     \cup (IF Dev_CrlfBlankIndented THEN {"CrlfBlankIndented"} ELSE {})

Init == fam \in DOMAIN Families /\ lex = <<>> /\ res \in Families[fam].r
\* a sequence that can no longer become a valid template (it is still a case)
Hopeless(ls) == LET ts == Expand(ls)
                    rd == Reduce(Struct(ts))
                IN \/ \E i \in 1..Len(ts) : ts[i].k \in {"broken", "setdelim"}
                   \/ \E i \in 1..Len(rd) : rd[i].k = "close"
                   \/ Len(rd) > DepthMax
Heavy == {"D99", "D100", "D101", "Pdp", "Pd99", "Prec", "Pmut"}
Emit(x) == /\ x \in Heavy => Cardinality({i \in 1..Len(lex) : lex[i] \in Heavy}) < MaxHeavy
           /\ lex' = Append(lex, x) /\ UNCHANGED <<fam, res>>
Next == /\ Len(lex) < Families[fam].n /\ ~Hopeless(lex)
        /\ \E x \in Families[fam].a : Emit(x)
Spec == Init /\ [][Next]_vars

Impl == Eval(lex, res, F)
Abs == Eval(lex, res, {})
Refines == F = {} \/ Impl = Abs
\* balance by reduction agrees with the stack scan of the evaluator (whenever nesting cannot exceed the limit)
BalanceAgrees == LET raw == Expand(lex) IN
                 (\A i \in 1..Len(raw) : raw[i].k \notin {"broken", "setdelim"}) =>
                 LET p == Prepare(raw, {}) IN
                 /\ ~Balanced(raw) => p.err
                 /\ (Balanced(raw) /\ Len(Struct(raw)) <= 2 * DepthMax) => ~p.err
\* every state is evaluated once (Abs) and judged by three laws before it is printed as a case:
\*   LiteralCopied  a template without tags is copied
\*   ErrorIsClean   an error never carries partial output; a render without a resolver never asks one
\* Templates that are merely UNCLOSED (every prefix of a nested template is one) are printed only up to 2 lexemes.
OnlyUnclosed == LET ts == Expand(lex) IN
                /\ \A i \in 1..Len(ts) : ts[i].k \notin {"broken", "setdelim"}
                /\ LET rd == Reduce(Struct(ts)) IN rd # <<>> /\ \A i \in 1..Len(rd) : rd[i].k # "close"
Emit2 == \/ Len(lex) > 2 /\ OnlyUnclosed
         \/ LET a == Abs IN
            /\ Assert((\A i \in 1..Len(lex) : Lx[lex[i]].k \in {"text", "ws", "nl"}) => a = [err |-> FALSE, out |-> Text(lex), calls |-> <<>>],
                      <<"LiteralCopied", lex>>)
            /\ Assert((a.err => a.out = "") /\ (~res => a.calls = <<>>), <<"ErrorIsClean", lex>>)
            /\ PrintT(ToJson([fam |-> fam, lex |-> lex, res |-> res, err |-> a.err, out |-> a.out, calls |-> a.calls,
                               dev |-> Eval(lex, res, KnownDevs) # a]))

\* printed once by checks/X17.py (TLC evaluates the ASSUME of a generated module): the vocabulary
Tables == [lexemes |-> [x \in DOMAIN LxAll |-> [k |-> LxAll[x].k, nm |-> LxAll[x].nm, path |-> LxAll[x].path, txt |-> LxAll[x].txt]],
           partials |-> [p \in DOMAIN Partials |-> Text(Partials[p])],
           data |-> Data, depth |-> DepthMax]
=============================================================================
