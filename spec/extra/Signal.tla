------------------------------ MODULE Signal ------------------------------
(* X06 (extra, beyond the listed properties): Impl specification of iora::core::Signal<Args...> and its ScopedConnection   *)
(* (include/iora/core/signal.hpp): a copy-on-write slot list.  connect / disconnect / disconnectAll / prune clone the list    *)
(* under the mutex and publish the clone with an atomic store; emit() loads ONE snapshot without the mutex and walks it.     *)
(* One action per critical section / per atomic step / per slot invocation.                                                  *)
(*                                                                                                                          *)
(* What a user relies on (header comments + tests/core/iora_test_signal.cpp):                                                *)
(*   P1 Order          within one emit the slots run in the order they were connected (ascending ConnectionId).             *)
(*   P2 ExactlyOnce    every slot whose connect() returned before emit() was called and whose disconnect was not called     *)
(*                     before emit() returned runs exactly once in that emit; no slot runs twice in one emit.               *)
(*   P3 Snapshot       a slot connected after the emit took its snapshot does not run in that emit ("inner not in the        *)
(*                     snapshot"); a slot whose disconnect() returned before emit() was called never runs in it.            *)
(*   P4 NoDeadlock     slots may call connect / disconnect / disconnectAll / emit on the same signal (no lock held while     *)
(*                     slots run).                                                                                          *)
(*   P5 WeakSlots      a slot connected through weak_ptr never runs after its target expired; expired slots are removed     *)
(*                     from the list by the emit that met them (connectionCount() includes them until then).                *)
(*   P6 Ids            connect() returns a fresh non-zero id; concurrent connects / disconnects never lose each other's      *)
(*                     update (NoLostUpdate); disconnect of an unknown id is a no-op.                                        *)
(*   P7 Exceptions     a throwing slot does not stop the emit; the handler (if set) receives each exception once.            *)
(*                     (P7 and ScopedConnection = "disconnect at destruction / reset / move-assignment, not at release()"    *)
(*                     are stated in SignalTrace.tla only: they add no interleaving.)                                        *)
(*   OBSERVATION (SignalTrace.tla, Obs CallAfterDisconnect): because of P3's snapshot a slot can still run AFTER its         *)
(*                     disconnect() / ~ScopedConnection returned - in another thread's emit that is in flight, or later in   *)
(*                     the same emit when an earlier slot disconnected it.                                                   *)
(* Realistic slips (each must make TLC report a violation):                                                                  *)
(*   Dev_IterateLive    emit walks the live list by index instead of a snapshot              -> ExactlyOnce / Snapshot       *)
(*   Dev_CowNoLock      the clone is taken before the mutex                                   -> NoLostUpdate                *)
(*   Dev_PushFront      new slots are inserted at the front                                   -> Order                       *)
(*   Dev_PruneAllWeak   prune removes every weak slot, expired or not                         -> PruneKeepsLive              *)
(*   Dev_NoExpiryCheck  the expiry of a weak target is not checked                            -> NeverInvokeExpired          *)
(*   Dev_NoPrune        the emit that met an expired slot does not prune                      -> PrunedAfterEmit             *)
(*   Dev_EmitHoldsMutex emit holds the mutex while slots run                                  -> NoSelfDeadlock              *)
EXTENDS Naturals, Sequences, FiniteSets, TLC
CONSTANTS Procs, Kinds, Objs, MaxOps, MaxIds,
          Dev_IterateLive, Dev_CowNoLock, Dev_PushFront, Dev_PruneAllWeak, Dev_NoExpiryCheck, Dev_NoPrune, Dev_EmitHoldsMutex
VARIABLES slots,     \* the published list: sequence of [id, kind, w]   (w = weak target, 0 = none)
          nextId, alive, pruneFlag, mutex,
          pc,        \* <<"idle">> | <<"iter">> | <<"nested", what, id>> | <<"prune">> | <<"pruneclear">> | <<"emitret">> | <<"store", clone, slot>> | <<"stuck">>
          em,        \* em[t] = [x, snap, i, anyExp, overlap, pruned]: the emit thread t is in (x = 0: none)
          nops, nemit, clk,
          inv,       \* ghost: invocations [x, id, ok (weak target alive), at (clk)]
          conn,      \* ghost: conn[id] = [c, d]: clk of the connect / of the (first) disconnect that removed it (0 = still connected)
          snapAt,    \* ghost: snapAt[x] = clk of emit x's snapshot
          last
vars == <<slots, nextId, alive, pruneFlag, mutex, pc, em, nops, nemit, clk, inv, conn, snapAt, last>>

Ids(s) == {s[i].id : i \in 1..Len(s)}
Expired(sl) == sl.w # 0 /\ sl.w \notin alive
NoEm == [x |-> 0, snap |-> <<>>, i |-> 0, anyExp |-> FALSE, overlap |-> FALSE, pruned |-> FALSE]
Emitting == {t \in Procs : em[t].x # 0}
Remove(s, id) == SelectSeq(s, LAMBDA sl : sl.id # id)

Init == /\ slots = <<>> /\ nextId = 1 /\ alive = Objs /\ pruneFlag = FALSE /\ mutex = "-"
        /\ pc = [t \in Procs |-> <<"idle">>] /\ em = [t \in Procs |-> NoEm] /\ nops = 0 /\ nemit = 0 /\ clk = 1
        /\ inv = <<>> /\ conn = <<>> /\ snapAt = <<>>
        /\ last = [act |-> "Init", t |-> "-", before |-> <<>>, x |-> 0]
Go(t) == pc[t] = <<"idle">> /\ nops < MaxOps
Tick == clk' = clk + 1
L(a, t) == last' = [act |-> a, t |-> t, before |-> slots, x |-> em[t].x]
Put(s, sl) == IF Dev_PushFront THEN <<sl>> \o s ELSE Append(s, sl)
\* after a critical section a thread goes back to what it was doing: idle, or the slot loop of its emit
Back(t) == IF em[t].x # 0 THEN <<"iter">> ELSE <<"idle">>

\* ---- connect: lock; clone; push; store; unlock   (one critical section)
DoConnect(t, kind, w) ==
    /\ nextId <= MaxIds /\ mutex = "-"
    /\ slots' = Put(slots, [id |-> nextId, kind |-> kind, w |-> w]) /\ nextId' = nextId + 1
    /\ conn' = conn @@ (nextId :> [c |-> clk, d |-> 0]) /\ Tick
ConnectCS(t, kind, w) ==
    /\ ~Dev_CowNoLock /\ Go(t) /\ nops' = nops + 1 /\ (kind = "weak") = (w # 0)
    /\ DoConnect(t, kind, w) /\ L("ConnectCS", t)
    /\ UNCHANGED <<alive, pruneFlag, mutex, pc, em, nemit, inv, snapAt>>
\* Dev_CowNoLock: the clone is taken first, the store publishes a stale copy
CloneNoLock(t, kind, w) ==
    /\ Dev_CowNoLock /\ Go(t) /\ nops' = nops + 1 /\ (kind = "weak") = (w # 0) /\ nextId <= MaxIds
    /\ pc' = [pc EXCEPT ![t] = <<"store", slots, [id |-> 0, kind |-> kind, w |-> w]>>] /\ L("CloneNoLock", t)
    /\ UNCHANGED <<slots, nextId, alive, pruneFlag, mutex, em, nemit, clk, inv, conn, snapAt>>
StoreCS(t) ==
    /\ pc[t][1] = "store" /\ mutex = "-"
    /\ slots' = Append(pc[t][2], [pc[t][3] EXCEPT !.id = nextId]) /\ nextId' = nextId + 1
    /\ conn' = conn @@ (nextId :> [c |-> clk, d |-> 0]) /\ Tick
    /\ pc' = [pc EXCEPT ![t] = <<"idle">>] /\ L("StoreCS", t)
    /\ UNCHANGED <<alive, pruneFlag, mutex, em, nops, nemit, inv, snapAt>>
\* ---- disconnect / disconnectAll
Gone(ids) == [i \in DOMAIN conn |-> IF i \in ids /\ conn[i].d = 0 THEN [conn[i] EXCEPT !.d = clk] ELSE conn[i]]   \* (unknown ids: no-op)
DisconnectCS(t, id) ==
    /\ Go(t) /\ nops' = nops + 1 /\ id \in 1..(nextId - 1) /\ mutex = "-"
    /\ slots' = Remove(slots, id) /\ conn' = Gone({id}) /\ Tick /\ L("DisconnectCS", t)
    /\ UNCHANGED <<nextId, alive, pruneFlag, mutex, pc, em, nemit, inv, snapAt>>
DisconnectAllCS(t) ==
    /\ Go(t) /\ nops' = nops + 1 /\ mutex = "-"
    /\ slots' = <<>> /\ conn' = Gone(Ids(slots)) /\ Tick /\ L("DisconnectAllCS", t)
    /\ UNCHANGED <<nextId, alive, pruneFlag, mutex, pc, em, nemit, inv, snapAt>>
\* a weak target dies
Expire(t, w) ==
    /\ Go(t) /\ nops' = nops + 1 /\ w \in alive /\ alive' = alive \ {w} /\ Tick /\ L("Expire", t)
    /\ UNCHANGED <<slots, nextId, pruneFlag, mutex, pc, em, nemit, inv, conn, snapAt>>

\* ---- emit: atomic load of the list (no mutex) ...
EmitLoad(t) ==
    /\ Go(t) /\ nops' = nops + 1 /\ nemit' = nemit + 1
    /\ (Dev_EmitHoldsMutex => mutex = "-") /\ mutex' = IF Dev_EmitHoldsMutex THEN t ELSE mutex
    /\ em' = [u \in Procs |-> IF u = t THEN [x |-> nemit + 1, snap |-> slots, i |-> 0, anyExp |-> FALSE, overlap |-> Emitting # {}, pruned |-> FALSE]
                              ELSE IF em[u].x # 0 THEN [em[u] EXCEPT !.overlap = TRUE] ELSE em[u]]
    /\ snapAt' = snapAt @@ ((nemit + 1) :> clk) /\ Tick
    /\ pc' = [pc EXCEPT ![t] = <<"iter">>] /\ L("EmitLoad", t)
    /\ UNCHANGED <<slots, nextId, alive, pruneFlag, inv, conn>>
\* ... then one step per slot of the snapshot (Dev_IterateLive: of the live list)
Src(t) == IF Dev_IterateLive THEN slots ELSE em[t].snap
Turn(t) == pc[t] = <<"iter">> /\ em[t].i < Len(Src(t))
Cur(t) == Src(t)[em[t].i + 1]
EmitSkip(t) ==        \* an expired weak slot is passed over and remembered for the prune
    /\ Turn(t) /\ Expired(Cur(t)) /\ ~Dev_NoExpiryCheck
    /\ em' = [em EXCEPT ![t].i = @ + 1, ![t].anyExp = TRUE]
    /\ L("EmitSkip", t) /\ UNCHANGED <<slots, nextId, alive, pruneFlag, mutex, pc, nops, nemit, clk, inv, conn, snapAt>>
EmitInvoke(t) ==      \* the slot body runs; some kinds call the signal themselves
    /\ Turn(t) /\ (~Expired(Cur(t)) \/ Dev_NoExpiryCheck)
    /\ LET sl == Cur(t) IN
       /\ em' = [em EXCEPT ![t].i = @ + 1]
       /\ inv' = Append(inv, [x |-> em[t].x, id |-> sl.id, ok |-> ~Expired(sl), at |-> clk])
       /\ pc' = [pc EXCEPT ![t] =
                 CASE sl.kind = "selfdisc" -> <<"nested", "disc", sl.id>>
                   [] sl.kind = "killnext" -> <<"nested", "disc", sl.id + 1>>
                   [] sl.kind = "connector" /\ nextId <= MaxIds -> <<"nested", "conn", 0>>
                   [] OTHER -> <<"iter">>]
    /\ L("EmitInvoke", t) /\ UNCHANGED <<slots, nextId, alive, pruneFlag, mutex, nops, nemit, clk, conn, snapAt>>
\* a slot body calling connect / disconnect on the same signal
NestedCS(t) ==
    /\ pc[t][1] = "nested"
    /\ IF mutex = t THEN pc' = [pc EXCEPT ![t] = <<"stuck">>] /\ UNCHANGED <<slots, nextId, conn, clk>>     \* Dev_EmitHoldsMutex
       ELSE /\ mutex = "-" /\ pc' = [pc EXCEPT ![t] = <<"iter">>]
            /\ IF pc[t][2] = "disc" THEN slots' = Remove(slots, pc[t][3]) /\ conn' = Gone({pc[t][3]}) /\ Tick /\ UNCHANGED nextId
               ELSE DoConnect(t, "plain", 0)
    /\ L("NestedCS", t) /\ UNCHANGED <<alive, pruneFlag, mutex, em, nops, nemit, inv, snapAt>>
\* end of the walk: prune if an expired slot was met and nobody else is pruning
EmitEnd(t) ==
    /\ pc[t] = <<"iter">> /\ em[t].i >= Len(Src(t))
    /\ IF em[t].anyExp /\ ~pruneFlag /\ ~Dev_NoPrune
       THEN pruneFlag' = TRUE /\ pc' = [pc EXCEPT ![t] = <<"prune">>]
       ELSE UNCHANGED pruneFlag /\ pc' = [pc EXCEPT ![t] = <<"emitret">>]
    /\ L("EmitEnd", t) /\ UNCHANGED <<slots, nextId, alive, mutex, em, nops, nemit, clk, inv, conn, snapAt>>
PruneCS(t) ==
    /\ pc[t] = <<"prune">> /\ (mutex = "-" \/ mutex = t)
    /\ slots' = SelectSeq(slots, LAMBDA sl : IF Dev_PruneAllWeak THEN sl.w = 0 ELSE ~Expired(sl))
    /\ conn' = Gone({slots[i].id : i \in {j \in 1..Len(slots) : IF Dev_PruneAllWeak THEN slots[j].w # 0 ELSE Expired(slots[j])}})
    /\ em' = [em EXCEPT ![t].pruned = TRUE]
    /\ pc' = [pc EXCEPT ![t] = <<"pruneclear">>] /\ L("PruneCS", t)
    /\ UNCHANGED <<nextId, alive, pruneFlag, mutex, nops, nemit, clk, inv, snapAt>>
PruneClear(t) ==
    /\ pc[t] = <<"pruneclear">> /\ pruneFlag' = FALSE /\ pc' = [pc EXCEPT ![t] = <<"emitret">>] /\ L("PruneClear", t)
    /\ UNCHANGED <<slots, nextId, alive, mutex, em, nops, nemit, clk, inv, conn, snapAt>>
EmitRet(t) ==
    /\ pc[t] = <<"emitret">> /\ pc' = [pc EXCEPT ![t] = <<"idle">>] /\ em' = [em EXCEPT ![t] = NoEm]
    /\ mutex' = IF mutex = t THEN "-" ELSE mutex
    /\ last' = [act |-> "EmitRet", t |-> t, before |-> slots, x |-> em[t].x, anyExp |-> em[t].anyExp, overlap |-> em[t].overlap, pruned |-> em[t].pruned]
    /\ UNCHANGED <<slots, nextId, alive, pruneFlag, nops, nemit, clk, inv, conn, snapAt>>

Next == \E t \in Procs :
          \/ \E k \in Kinds : \E w \in Objs \cup {0} : ConnectCS(t, k, w) \/ CloneNoLock(t, k, w)
          \/ StoreCS(t) \/ DisconnectAllCS(t) \/ EmitLoad(t) \/ EmitSkip(t) \/ EmitInvoke(t) \/ NestedCS(t) \/ EmitEnd(t)
          \/ PruneCS(t) \/ PruneClear(t) \/ EmitRet(t)
          \/ \E id \in 1..MaxIds : DisconnectCS(t, id)
          \/ \E w \in Objs : Expire(t, w)
Spec == Init /\ [][Next]_vars

\* ---- properties (on the ghost clocks: c = connect, d = removal, snapAt = snapshot)
InvOf(x) == SelectSeq(inv, LAMBDA r : r.x = x)
Order == \A i, j \in 1..Len(inv) : (i < j /\ inv[i].x = inv[j].x) => inv[i].id < inv[j].id      \* ascending, hence at most once
Snapshot == \A i \in 1..Len(inv) : LET r == inv[i]  s == snapAt[r.x] IN
                conn[r.id].c < s /\ (conn[r.id].d = 0 \/ conn[r.id].d >= s)
NeverInvokeExpired == \A i \in 1..Len(inv) : inv[i].ok
ExactlyOnce ==     \* at the return of emit x: everything connected before the snapshot, still connected and not expired ran exactly once
    last.act = "EmitRet" =>
        \A i \in 1..Len(slots) :
            (conn[slots[i].id].c < snapAt[last.x] /\ ~Expired(slots[i]))
            => Cardinality({k \in 1..Len(inv) : inv[k].x = last.x /\ inv[k].id = slots[i].id}) = 1
NoLostUpdate == (\A t \in Procs : pc[t][1] # "store") => \A id \in DOMAIN conn : conn[id].d = 0 => id \in Ids(slots)
UniqueIds == \A i, j \in 1..Len(slots) : i # j => slots[i].id # slots[j].id
PruneKeepsLive == last.act = "PruneCS" => \A i \in 1..Len(last.before) : ~Expired(last.before[i]) => last.before[i].id \in Ids(slots)
PruneRemovesExpired == last.act = "PruneCS" => \A i \in 1..Len(slots) : ~Expired(slots[i])
PrunedAfterEmit == (last.act = "EmitRet" /\ ~last.overlap /\ last.anyExp) => last.pruned   \* alone, an emit that met an expired slot prunes
NoSelfDeadlock == \A t \in Procs : pc[t] # <<"stuck">>
\* NOT an invariant of the code as it is (snapshot semantics): a slot never runs after a disconnect of its id took effect
NoCallAfterDisconnect == \A i \in 1..Len(inv) : conn[inv[i].id].d = 0 \/ conn[inv[i].id].d >= inv[i].at
\* state view for behaviour generation (without the ghosts)
GenView == <<slots, nextId, alive, pruneFlag, mutex, pc, em, nops, nemit>>
===========================================================================
