------------------------------ MODULE HttpAuth ------------------------------
(* X15 - iora::network::requireBasicAuth (include/iora/network/http_auth.hpp).  Generator + Impl specification.  *)
(*                                                                                                          *)
(* What a user relies on (Abs, HttpAuthOps):                                                                  *)
(*   A1  the protected handler runs ONLY AFTER verify returned true for this request, at most once;           *)
(*       verify runs at most once and ONLY with a credential that matches the grammar                         *)
(*       "Basic" 1*SP token68 (scheme case-insensitive, SP/HTAB around the token tolerated, HTAB as the        *)
(*       separator NOT, "BasicX" NOT), token68 = canonical standard base64 of user ":" pass;                   *)
(*   A2  verify receives EXACTLY (user, pass) = the decoded octets split at the FIRST ':' (password may        *)
(*       contain ':', either half may be empty, NUL and octets >= 0x80 are kept);                              *)
(*   A3  every other request is answered 401 with WWW-Authenticate: Basic realm="<realm>" and body             *)
(*       "Unauthorized" (never 400, never the protected handler); verify = false -> the same 401;              *)
(*       verify throws (std::exception or anything else) -> 500, the protected handler does NOT run, nothing   *)
(*       escapes; an exception of the protected handler DOES escape (it is not this decorator's to catch);     *)
(*   A4  a realm with a control octet, DEL, '"' or '\' is refused at construction (std::invalid_argument),     *)
(*       any other realm (including octets >= 0x80) is accepted and quoted verbatim.                           *)
(* There is no Bearer support and no credential comparison in this header (the documentation assigns the       *)
(* constant-time comparison to the caller's verify): a Bearer header is "another scheme" (401).                *)
(*                                                                                                          *)
(* Init enumerates every header value of the configured family (MCHttpAuth.tla: scheme spelling x separator    *)
(* x token x trailer) x verify behaviour, and every realm over boundary octets; the actions are the decision   *)
(* steps of the closure (steps 1-8 of the code).  Emit prints each terminal state = one conformance case.      *)
(* Deviations (default FALSE), each must make TLC report a violation:                                          *)
(*   Dev_TabSeparator        HTAB accepted as the separator after the scheme                                   *)
(*   Dev_PrefixScheme        no separator check: "BasicX ..." / "Basic<token>" accepted                        *)
(*   Dev_CaseSensitiveScheme "basic" / "BASIC" refused                                                         *)
(*   Dev_NoTrim              SP/HTAB after the token not trimmed ("dTpw " undecodable)                         *)
(*   Dev_LastColon           split at the LAST ':'                                                             *)
(*   Dev_InnerOnThrow        verify throws -> the protected handler still runs                                 *)
(*   Dev_InnerOnFalse        verify returns false -> 401 is set but the protected handler still runs           *)
(*   Dev_RealmSignedCompare  realm octets >= 0x80 refused (comparison on a signed char)                        *)
(*   Dev_RealmAllowsDel      DEL accepted in the realm                                                         *)
EXTENDS HttpAuthOps, TLC, Json

CONSTANTS HdrInputs, RealmInputs, TheRealm,
          Dev_TabSeparator, Dev_PrefixScheme, Dev_CaseSensitiveScheme, Dev_NoTrim, Dev_LastColon, Dev_InnerOnThrow,
          Dev_InnerOnFalse, Dev_RealmSignedCompare, Dev_RealmAllowsDel

VARIABLES kind, present, hdr, vb, realm,          \* the case
          pc, tok, cred,                          \* where the closure is, intermediate values
          status, vcalls, user, pass, icalls, exc, chal, threw, res
inputs == <<kind, present, hdr, vb, realm>>
vars == <<kind, present, hdr, vb, realm, pc, tok, cred, status, vcalls, user, pass, icalls, exc, chal, threw, res>>

Init == /\ \/ /\ kind = "auth" /\ realm = TheRealm
              /\ \/ present = TRUE /\ hdr \in HdrInputs
                 \/ present = FALSE /\ hdr = <<>>
              /\ vb \in (IF Cred(present, hdr).wf THEN VerifyBehaviours ELSE {"true"})
           \/ kind = "realm" /\ realm \in RealmInputs /\ present = FALSE /\ hdr = <<>> /\ vb = "true"
        /\ pc = "start" /\ tok = <<>> /\ cred = <<>>
        /\ status = 200 /\ vcalls = 0 /\ user = <<>> /\ pass = <<>> /\ icalls = 0 /\ exc = "none" /\ chal = FALSE /\ threw = FALSE
        /\ res = "run"

auth == IF present THEN hdr ELSE <<>>                 \* get_header_value: absent and empty are the same
At(p) == res = "run" /\ pc = p
Keep(vs) == UNCHANGED vs
Emit401 == /\ status' = 401 /\ chal' = TRUE /\ res' = "done"
           /\ UNCHANGED <<inputs, pc, tok, cred, vcalls, user, pass, icalls, exc, threw>>

\* ---- construction
RealmBad(r) == \E k \in 1..Len(r) : \/ r[k] < 32 \/ r[k] = 34 \/ r[k] = 92
                                     \/ (r[k] = 127 /\ ~Dev_RealmAllowsDel)
                                     \/ (r[k] >= 128 /\ Dev_RealmSignedCompare)
RealmReject == /\ At("start") /\ RealmBad(realm) /\ threw' = TRUE /\ res' = "done"
               /\ UNCHANGED <<inputs, pc, tok, cred, status, vcalls, user, pass, icalls, exc, chal>>
RealmAccept == /\ At("start") /\ ~RealmBad(realm) /\ pc' = "read"
               /\ UNCHANGED <<inputs, tok, cred, status, vcalls, user, pass, icalls, exc, chal, threw, res>>
\* ---- steps 1-2: header, scheme
TooShort == At("read") /\ Len(auth) < 5 /\ Emit401
Fold(c) == IF Dev_CaseSensitiveScheme THEN c ELSE Lower(c)
SchemeMismatch == At("read") /\ Len(auth) >= 5 /\ [k \in 1..5 |-> Fold(auth[k])] # [k \in 1..5 |-> Fold(<<66, 97, 115, 105, 99>>[k])] /\ Emit401
SchemeMatch == /\ At("read") /\ Len(auth) >= 5 /\ [k \in 1..5 |-> Fold(auth[k])] = [k \in 1..5 |-> Fold(<<66, 97, 115, 105, 99>>[k])]
               /\ pc' = "sep"
               /\ UNCHANGED <<inputs, tok, cred, status, vcalls, user, pass, icalls, exc, chal, threw, res>>
SepOk == Len(auth) >= 6 /\ (auth[6] = SP \/ (Dev_TabSeparator /\ auth[6] = HTAB))
NoSeparator == At("sep") /\ ~SepOk /\ ~Dev_PrefixScheme /\ Emit401
\* ---- step 3: skip the separator run, trim SP/HTAB around the token
SkipSet == IF Dev_TabSeparator THEN {SP, HTAB} ELSE {SP}
RECURSIVE SkipFrom(_, _, _)
SkipFrom(s, p, S) == IF p <= Len(s) /\ s[p] \in S THEN SkipFrom(s, p + 1, S) ELSE p          \* first index >= p not in S
RECURSIVE TrimEnd(_, _, _)
TrimEnd(s, b, e) == IF e >= b /\ IsWs(s[e]) THEN TrimEnd(s, b, e - 1) ELSE e               \* last index >= b not white space
Tokenize == /\ At("sep") /\ (SepOk \/ Dev_PrefixScheme)
            /\ LET p == SkipFrom(auth, 6, SkipSet)
                   b == SkipFrom(auth, p, {SP, HTAB})
                   e == IF Dev_NoTrim THEN Len(auth) ELSE TrimEnd(auth, b, Len(auth))
               IN tok' = SubSeq(auth, b, e)
            /\ pc' = "decode"
            /\ UNCHANGED <<inputs, cred, status, vcalls, user, pass, icalls, exc, chal, threw, res>>
\* ---- step 4: Base64::decode (its own behaviour is the subject of X13; here it is the function AbsDecode)
DecodeFail == At("decode") /\ ~AbsDecode(tok).ok /\ Emit401
DecodeOk == /\ At("decode") /\ AbsDecode(tok).ok /\ cred' = AbsDecode(tok).out /\ pc' = "split"
            /\ UNCHANGED <<inputs, tok, status, vcalls, user, pass, icalls, exc, chal, threw, res>>
\* ---- step 5
LastColon(s) == LET idx == {k \in 1..Len(s) : s[k] = Colon} IN IF idx = {} THEN 0 ELSE CHOOSE k \in idx : \A j \in idx : k >= j
SplitAt == IF Dev_LastColon THEN LastColon(cred) ELSE FirstColon(cred)
NoColon == At("split") /\ SplitAt = 0 /\ Emit401
Split == /\ At("split") /\ SplitAt > 0
         /\ user' = SubSeq(cred, 1, SplitAt - 1) /\ pass' = SubSeq(cred, SplitAt + 1, Len(cred)) /\ pc' = "verify"
         /\ UNCHANGED <<inputs, tok, cred, status, vcalls, icalls, exc, chal, threw, res>>
\* ---- steps 6-7
VerifyTrue == /\ At("verify") /\ vb \in {"true", "true_ithrow"} /\ vcalls' = vcalls + 1 /\ pc' = "inner"
              /\ UNCHANGED <<inputs, tok, cred, status, user, pass, icalls, exc, chal, threw, res>>
VerifyFalse == /\ At("verify") /\ vb = "false" /\ vcalls' = vcalls + 1 /\ status' = 401 /\ chal' = TRUE
               /\ IF Dev_InnerOnFalse THEN pc' = "inner" /\ res' = res ELSE pc' = pc /\ res' = "done"
               /\ UNCHANGED <<inputs, tok, cred, user, pass, icalls, exc, threw>>
VerifyThrows == /\ At("verify") /\ vb \in {"throw", "throw2"} /\ vcalls' = vcalls + 1 /\ status' = 500
                /\ IF Dev_InnerOnThrow THEN pc' = "inner" /\ res' = res ELSE pc' = pc /\ res' = "done"
                /\ UNCHANGED <<inputs, tok, cred, user, pass, icalls, exc, chal, threw>>
\* ---- step 8: the protected handler (sets status 299, or throws; its exception is not caught)
Inner == /\ At("inner") /\ icalls' = icalls + 1
         /\ IF vb = "true_ithrow" THEN exc' = "std" /\ status' = 0 ELSE exc' = exc /\ status' = 299
         /\ res' = "done"
         /\ UNCHANGED <<inputs, pc, tok, cred, vcalls, user, pass, chal, threw>>

Next == RealmReject \/ RealmAccept \/ TooShort \/ SchemeMismatch \/ SchemeMatch \/ NoSeparator \/ Tokenize \/ DecodeFail
        \/ DecodeOk \/ NoColon \/ Split \/ VerifyTrue \/ VerifyFalse \/ VerifyThrows \/ Inner
Spec == Init /\ [][Next]_vars

\* ------------------------------------------------------------------ properties
\* A1 at every step: "only after", "at most once"
Guarded == /\ vcalls <= 1 /\ icalls <= 1
           /\ vcalls = 1 => Cred(present, hdr).wf
           /\ icalls = 1 => (vcalls = 1 /\ vb \in {"true", "true_ithrow"})
Refines == res = "done" =>
           IF threw THEN ~RealmOk(realm)
           ELSE /\ RealmOk(realm)
                /\ LET c == Cred(present, hdr)
                       o == Outcome(c, vb)
                   IN /\ status = o.status /\ vcalls = o.vcalls /\ icalls = o.icalls /\ exc = o.exc
                      /\ vcalls = 1 => (user = c.user /\ pass = c.pass)
                      /\ chal = (o.status = 401)
Progress == res = "run" => ENABLED Next

Emit == res = "run" \/ PrintT(ToJson([kind |-> kind, present |-> present, hdr |-> hdr, vb |-> vb, realm |-> realm,
                                        kc |-> Len(hdr) % 3, wf |-> Cred(present, hdr).wf, threw |-> threw, status |-> status,
                                        vcalls |-> vcalls, icalls |-> icalls, user |-> user, pass |-> pass, exc |-> exc]))
=============================================================================
