------------------------------ MODULE HostLease ------------------------------
(* Extra X09, second half: the per-host:port connection lease inside iora::network::HttpClient (network/http_client.hpp: *)
(* acquireLease / releaseLease / ConnectionLease / cleanup) that HttpClientPool's clients rely on when one client is      *)
(* shared by several threads.  State: the set of leased hosts, ONE condition variable for the waiters of ALL hosts, and   *)
(* the terminal `closing` flag set by cleanup() / the destructor.                                                          *)
(*                                                                                                                        *)
(* What a user relies on:                                                                                                 *)
(*   Exclusive     at most one lease per host:port at any time; leases of different hosts do not exclude each other       *)
(*   Released once every lease is released exactly once (RAII, moves transfer it) - a released host is free again         *)
(*   NoStuck       a waiter for host h is woken whenever h is released (the release must notify_all: one condition         *)
(*                 variable serves all hosts, a notify_one can wake a waiter of another host and strand the right one),     *)
(*                 and by cleanup(); with a lease-acquire timeout configured it gives up with a distinct error instead      *)
(*   ClosedRefuses after cleanup() began every blocked waiter fails, and an acquire that BEGAN after cleanup() returned    *)
(*                 never succeeds                                                                                         *)
(*   FailOnly...   an acquire fails only by timeout while the host is leased, or because the client is closing             *)
(*                                                                                                                        *)
(* Grain: Acq = the acquireLease critical section up to insert / throw / park; Wake, Timeout = the re-evaluation;           *)
(* Rel = releaseLease's critical section; NotifyRel = its notify_all after the unlock; Cleanup = cleanup()'s critical       *)
(* section (flag + notify_all under the mutex).  Dev_* = realistic slips, each must make TLC report a violation.           *)
EXTENDS Naturals, Sequences, FiniteSets, TLC
CONSTANTS Threads, Hosts, Prog,     \* Prog[t] : sequence of [op |-> "acq", h |-> host] | [op |-> "rel"] | [op |-> "cleanup"]
          Timed,                    \* leaseAcquireTimeout > 0
          Dev_NotifyOne,            \* releaseLease uses notify_one
          Dev_RelNoNotify,          \* releaseLease does not notify at all
          Dev_NoClosingCheck,       \* acquireLease does not test `closing` after the wait
          Dev_NotExclusive          \* the wait predicate ignores the leased set

VARIABLES leased, closing, pc, ip, held, parked, tokens, notified, closeDone, late, lateOk, lastRet
vars == <<leased, closing, pc, ip, held, parked, tokens, notified, closeDone, late, lateOk, lastRet>>

Op(t) == Prog[t][ip[t]]
None == [t |-> "-", op |-> "-", ok |-> TRUE, why |-> "-"]
Init == /\ leased = {} /\ closing = FALSE
        /\ pc = [t \in Threads |-> "idle"] /\ ip = [t \in Threads |-> 1] /\ held = [t \in Threads |-> <<>>]
        /\ parked = {} /\ tokens = <<>> /\ notified = {}
        /\ closeDone = FALSE /\ late = [t \in Threads |-> FALSE] /\ lateOk = FALSE /\ lastRet = None

Return(t, ok, why) == /\ ip' = [ip EXCEPT ![t] = @ + 1] /\ pc' = [pc EXCEPT ![t] = "idle"]
                      /\ lastRet' = [t |-> t, op |-> Op(t).op, ok |-> ok, why |-> why]
NoRet == UNCHANGED ip /\ lastRet' = None
Drop(t, tk) == SelectSeq([i \in 1..Len(tk) |-> tk[i] \ {t}], LAMBDA s : s # {})
HasTok(t) == \E i \in 1..Len(tokens) : t \in tokens[i]
FirstTok(t) == CHOOSE i \in 1..Len(tokens) : t \in tokens[i] /\ \A j \in 1..(i-1) : t \notin tokens[j]
RemoveAt(s, i) == SubSeq(s, 1, i-1) \o SubSeq(s, i+1, Len(s))

Avail(h) == closing \/ h \notin leased \/ Dev_NotExclusive
\* the code after the wait returned with a true predicate
Grant(t, isLate) == IF closing /\ ~Dev_NoClosingCheck
                    THEN Return(t, FALSE, "closing") /\ UNCHANGED <<leased, held, lateOk>>
                    ELSE /\ leased' = leased \cup {Op(t).h} /\ held' = [held EXCEPT ![t] = Append(@, Op(t).h)]
                         /\ lateOk' = (lateOk \/ isLate) /\ Return(t, TRUE, "-")

Acq(t) == /\ pc[t] = "idle" /\ ip[t] <= Len(Prog[t]) /\ Op(t).op = "acq"
          /\ late' = [late EXCEPT ![t] = closeDone]
          /\ IF Avail(Op(t).h) THEN Grant(t, closeDone) /\ UNCHANGED parked
             ELSE /\ parked' = parked \cup {t} /\ pc' = [pc EXCEPT ![t] = "parked"] /\ NoRet
                  /\ UNCHANGED <<leased, held, lateOk>>
          /\ UNCHANGED <<closing, tokens, notified, closeDone>>

Wake(t) == /\ pc[t] = "parked" /\ (t \in notified \/ HasTok(t))
           /\ IF t \in notified THEN notified' = notified \ {t} /\ tokens' = Drop(t, tokens)
                                ELSE notified' = notified /\ tokens' = Drop(t, RemoveAt(tokens, FirstTok(t)))
           /\ IF Avail(Op(t).h) THEN Grant(t, late[t]) /\ parked' = parked \ {t}
              ELSE NoRet /\ UNCHANGED <<leased, held, lateOk, parked, pc>>
           /\ UNCHANGED <<closing, closeDone, late>>

Timeout(t) == /\ Timed /\ pc[t] = "parked"
              /\ notified' = notified \ {t} /\ tokens' = Drop(t, tokens) /\ parked' = parked \ {t}
              /\ IF Avail(Op(t).h) THEN Grant(t, late[t])
                 ELSE Return(t, FALSE, "timeout") /\ UNCHANGED <<leased, held, lateOk>>
              /\ UNCHANGED <<closing, closeDone, late>>

\* rel: the oldest lease of t goes out of scope
Rel(t) == /\ pc[t] = "idle" /\ ip[t] <= Len(Prog[t]) /\ Op(t).op = "rel"
          /\ IF held[t] = <<>> THEN Return(t, TRUE, "-") /\ UNCHANGED <<leased, held>>
             ELSE /\ leased' = leased \ {Head(held[t])} /\ held' = [held EXCEPT ![t] = Tail(@)]
                  /\ pc' = [pc EXCEPT ![t] = "notify"] /\ NoRet
          /\ UNCHANGED <<closing, parked, tokens, notified, closeDone, late, lateOk>>
NotifyRel(t) == /\ pc[t] = "notify"
                /\ LET el == parked \ notified IN
                   IF Dev_RelNoNotify THEN UNCHANGED <<tokens, notified>>
                   ELSE IF Dev_NotifyOne THEN tokens' = (IF el = {} THEN tokens ELSE Append(tokens, el)) /\ UNCHANGED notified
                   ELSE notified' = notified \cup parked /\ UNCHANGED tokens
                /\ Return(t, TRUE, "-")
                /\ UNCHANGED <<leased, closing, held, parked, closeDone, late, lateOk>>

Cleanup(t) == /\ pc[t] = "idle" /\ ip[t] <= Len(Prog[t]) /\ Op(t).op = "cleanup"
              /\ closing' = TRUE /\ notified' = notified \cup parked /\ closeDone' = TRUE
              /\ Return(t, TRUE, "-")
              /\ UNCHANGED <<leased, held, parked, tokens, late, lateOk>>

Next == \E t \in Threads : Acq(t) \/ Wake(t) \/ Timeout(t) \/ Rel(t) \/ NotifyRel(t) \/ Cleanup(t)
Spec == Init /\ [][Next]_vars

Range(s) == {s[i] : i \in 1..Len(s)}
Holders(h) == {x \in Threads \X (1..4) : x[2] <= Len(held[x[1]]) /\ held[x[1]][x[2]] = h}
Exclusive == /\ \A h \in Hosts : Cardinality(Holders(h)) <= 1
             /\ leased = UNION {Range(held[t]) : t \in Threads}
ClosedRefuses == ~lateOk
FailOnlyWhenLeasedOrClosing ==
    (lastRet.t # "-" /\ ~lastRet.ok) => \/ lastRet.why = "closing" /\ closing
                                        \/ lastRet.why = "timeout" /\ Timed /\ Prog[lastRet.t][ip[lastRet.t] - 1].h \in leased
Done(t) == pc[t] = "idle" /\ ip[t] > Len(Prog[t])
NoStuck == (~ENABLED Next) => \A t \in Threads : Done(t)
==============================================================================
