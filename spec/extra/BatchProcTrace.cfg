CONSTANTS
  Fds = {1, 2, 3}
  Cfgs = {}
  SpecialSets = {}
  Waits = {}
  Costs = {}
  IdleDurs = {}
  Fixes = {}
  MaxPend = 1000000
  MaxOps = 1000000
  TrackHist = TRUE
  AcceptObserved = TRUE
  Dev_FixedIgnored = FALSE
  Dev_UpdateZero = FALSE
  Dev_LimitIgnoresAdaptive = FALSE
  Dev_SpecialAlsoGeneral = FALSE
  Dev_NoThrottle = FALSE
  Dev_StatsOnEmpty = FALSE
  Dev_MinNeverSet = FALSE
  Dev_CallbackOnEmpty = FALSE
  Dev_EintrThrows = FALSE
  Dev_DecreaseHalf = FALSE
SPECIFICATION TSpec
INVARIANT TraceChk
INVARIANT Inv_Env
INVARIANT Inv_LimitAdaptive
INVARIANT Inv_Timeout
INVARIANT Inv_DispatchOnce
INVARIANT Inv_Callback
INVARIANT Inv_Errors
INVARIANT Inv_Stats
INVARIANT Inv_Throttle
INVARIANT Inv_AdjStep
INVARIANT Inv_NoBatchNoChange
POSTCONDITION TracePost
CHECK_DEADLOCK FALSE
