---- MODULE MCSseFrame ----
(* default exhaustive configuration of SseFrame.tla: payloads up to 4 bytes over {a, space, colon, CR, LF}; names that try *)
(* to inject; checks/X12.py generates the larger thorough configuration                                                    *)
EXTENDS SseFrame
MCNames == {<<>>, <<101>>, <<101, 10, 100>>, <<13>>, <<32, 101, 58>>, <<101, 13, 10, 100, 97, 116, 97, 58, 120>>}
MCRetries == {<<48>>, <<51, 48, 48, 48>>}
====
