------------------------------ MODULE ChanTrace ------------------------------
(* Abs oracle of extra X12 (publish/subscribe half) for executions recorded from the real iora::web::SseChannel +           *)
(* SseStream (kind "sse": a subscriber s is a stream, it leaves by close() / markClosed()) and iora::web::WsChannel          *)
(* (kind "ws": a subscriber is a session id, it leaves by unsubscribe() or by its session becoming inactive, "deact").        *)
(* The log is totally ordered (one thread runs at a time); Deliver is logged at the hand-over to the owning server.          *)
(* Only the properties:                                                                                                      *)
(*   MustDeliver   when publish m returns, every s whose subscribe had RETURNED before the publish began - with no leave      *)
(*                 overlapping that subscribe or begun since - has been handed m                                             *)
(*   AtMostOnce    no s is handed the same m twice (exactly once together with MustDeliver)                                  *)
(*   InOrder       m is handed over only while its publish is in progress, by the publishing thread: publishes ordered in    *)
(*                 real time (and those of one publisher) therefore reach every s in that order                               *)
(*   NoLateStart   a publish that BEGAN after the leave of s had RETURNED never hands anything to s (ws: unless s             *)
(*                 subscribed again meanwhile; a closed stream / dead session never comes back)                              *)
(*   nothing is handed to an s for which no subscribe has begun                                                              *)
(*   CloseSessionOnce  closeSession(s) at most once, only inside an explicit close(s), never by a close(s) that began after   *)
(*                 a markClosed(s) had returned                                                                              *)
(*   FiredOnce     the onClose callback fires at most once, inside a close / markClosed / onClose call on s, and exactly      *)
(*                 once by the end if both the registration and a close / markClosed returned                                *)
(* NAMED DEVIATIONS (observations: accepted, printed as <<"DEV", name, line>>, reported by the check as notes):               *)
(*   LateWrite     s is handed m after its leave had RETURNED, by a publish that began before (snapshot-then-write)           *)
(*   DoubleSubscribe  an SseChannel stream subscribed k times is handed every event k times (WsChannel keeps a set)          *)
EXTENDS TraceBase, FiniteSets, Integers
VARIABLES kind, subCalls, oblig, unsubDone, deadDone, markDone, pend, dl, closeSess, fired, reg, closeRet
vars == <<l, kind, subCalls, oblig, unsubDone, deadDone, markDone, pend, dl, closeSess, fired, reg, closeRet>>

Thr == {Log[i].t : i \in {j \in 1..Len(Log) : "t" \in DOMAIN Log[j]}}
SS == {Log[i].s : i \in {j \in 1..Len(Log) : "s" \in DOMAIN Log[j]}}
MM == {Log[i].m : i \in {j \in 1..Len(Log) : "m" \in DOMAIN Log[j]}}
LeaveOps == {"unsub", "close", "mark", "deact"}
DeadOps == {"close", "mark", "deact"}
Idle == [op |-> "-", s |-> 0, m |-> 0, must |-> {}, late |-> {}, clean |-> FALSE, markBefore |-> FALSE]
Zero == [s \in SS |-> 0]
No == [s \in SS |-> FALSE]
Init == /\ l = 1 /\ kind = "-" /\ subCalls = Zero /\ oblig = No /\ unsubDone = No /\ deadDone = No /\ markDone = No
        /\ pend = [t \in Thr |-> Idle] /\ dl = [x \in SS \X MM |-> 0] /\ closeSess = Zero /\ fired = Zero /\ reg = No /\ closeRet = No
Clear == /\ subCalls' = Zero /\ oblig' = No /\ unsubDone' = No /\ deadDone' = No /\ markDone' = No
         /\ pend' = [t \in Thr |-> Idle] /\ dl' = [x \in SS \X MM |-> 0] /\ closeSess' = Zero /\ fired' = Zero /\ reg' = No /\ closeRet' = No
EvBegin == IsEv("Begin") /\ kind' = Ev.kind /\ Clear
EvReset == IsEv("Reset") /\ kind' = "-" /\ Clear
LeavePending(s) == \E u \in Thr : pend[u].op \in LeaveOps /\ pend[u].s = s

\* ---- subscribe
EvCallSub == /\ IsEv("Call") /\ Ev.op = "sub" /\ pend[Ev.t].op = "-"
             /\ subCalls' = [subCalls EXCEPT ![Ev.s] = @ + 1]
             /\ unsubDone' = [unsubDone EXCEPT ![Ev.s] = FALSE]
             \* a subscribe that starts while a leave of the same s is in flight creates no obligation
             /\ pend' = [u \in Thr |-> IF u = Ev.t THEN [Idle EXCEPT !.op = "sub", !.s = Ev.s, !.clean = ~LeavePending(Ev.s) /\ ~deadDone[Ev.s]]
                                       ELSE IF pend[u].op = "pub" /\ ~deadDone[Ev.s] THEN [pend[u] EXCEPT !.late = @ \ {Ev.s}]
                                       ELSE IF pend[u].op = "unsub" /\ pend[u].s = Ev.s THEN [pend[u] EXCEPT !.clean = FALSE]
                                       ELSE pend[u]]
             /\ UNCHANGED <<kind, oblig, deadDone, markDone, dl, closeSess, fired, reg, closeRet>>
EvRetSub == /\ IsEv("Ret") /\ Ev.op = "sub" /\ pend[Ev.t].op = "sub"
            /\ oblig' = [oblig EXCEPT ![Ev.s] = @ \/ pend[Ev.t].clean]
            /\ pend' = [pend EXCEPT ![Ev.t] = Idle]
            /\ UNCHANGED <<kind, subCalls, unsubDone, deadDone, markDone, dl, closeSess, fired, reg, closeRet>>
\* subscribe with ANOTHER server (ws, L-1) is ignored: no effect at all;  removeClosed / count / onClose registration
EvCallOther == /\ IsEv("Call") /\ Ev.op \in {"subB", "rm", "count", "onc"} /\ pend[Ev.t].op = "-"
               /\ pend' = [pend EXCEPT ![Ev.t] = [Idle EXCEPT !.op = Ev.op, !.s = Ev.s]]
               /\ UNCHANGED <<kind, subCalls, oblig, unsubDone, deadDone, markDone, dl, closeSess, fired, reg, closeRet>>
EvRetOther == /\ IsEv("Ret") /\ Ev.op \in {"subB", "rm", "count", "onc"} /\ pend[Ev.t].op = Ev.op
              /\ (Ev.op = "count") => (Ev.n >= 0)
              /\ reg' = IF Ev.op = "onc" THEN [reg EXCEPT ![Ev.s] = TRUE] ELSE reg
              /\ pend' = [pend EXCEPT ![Ev.t] = Idle]
              /\ UNCHANGED <<kind, subCalls, oblig, unsubDone, deadDone, markDone, dl, closeSess, fired, closeRet>>

\* ---- leave: unsubscribe / close / markClosed / the session goes inactive
EvCallLeave == /\ IsEv("Call") /\ Ev.op \in LeaveOps /\ pend[Ev.t].op = "-"
               /\ oblig' = [oblig EXCEPT ![Ev.s] = FALSE]
               /\ pend' = [u \in Thr |-> IF u = Ev.t THEN [Idle EXCEPT !.op = Ev.op, !.s = Ev.s, !.markBefore = markDone[Ev.s],
                                                                      !.clean = ~\E x \in Thr : pend[x].op = "sub" /\ pend[x].s = Ev.s]
                                         ELSE IF pend[u].op = "pub" THEN [pend[u] EXCEPT !.must = @ \ {Ev.s}]
                                         ELSE IF pend[u].op = "sub" /\ pend[u].s = Ev.s THEN [pend[u] EXCEPT !.clean = FALSE]
                                         ELSE pend[u]]
               /\ UNCHANGED <<kind, subCalls, unsubDone, deadDone, markDone, dl, closeSess, fired, reg, closeRet>>
EvRetLeave == /\ IsEv("Ret") /\ Ev.op \in LeaveOps /\ pend[Ev.t].op = Ev.op
              \* an unsubscribe overlapped by a subscribe of the same s may have taken effect first: it prohibits nothing
              /\ unsubDone' = IF Ev.op = "unsub" /\ pend[Ev.t].clean THEN [unsubDone EXCEPT ![Ev.s] = TRUE] ELSE unsubDone
              /\ deadDone' = IF Ev.op \in DeadOps THEN [deadDone EXCEPT ![Ev.s] = TRUE] ELSE deadDone
              /\ markDone' = IF Ev.op = "mark" THEN [markDone EXCEPT ![Ev.s] = TRUE] ELSE markDone
              /\ closeRet' = IF Ev.op \in {"close", "mark"} THEN [closeRet EXCEPT ![Ev.s] = TRUE] ELSE closeRet
              /\ pend' = [pend EXCEPT ![Ev.t] = Idle]
              /\ UNCHANGED <<kind, subCalls, oblig, dl, closeSess, fired, reg>>

\* ---- publish
EvCallPub == /\ IsEv("Call") /\ Ev.op = "pub" /\ pend[Ev.t].op = "-"
             /\ pend' = [pend EXCEPT ![Ev.t] = [Idle EXCEPT !.op = "pub", !.m = Ev.m, !.must = {s \in SS : oblig[s]},
                                                            !.late = {s \in SS : unsubDone[s] \/ deadDone[s]}]]
             /\ UNCHANGED <<kind, subCalls, oblig, unsubDone, deadDone, markDone, dl, closeSess, fired, reg, closeRet>>
Handed(t) == /\ pend[t].op = "pub" /\ pend[t].m = Ev.m
             /\ subCalls[Ev.s] >= 1
             /\ Ev.s \notin pend[t].late
             /\ dl' = [dl EXCEPT ![<<Ev.s, Ev.m>>] = @ + 1]
             /\ UNCHANGED <<kind, subCalls, oblig, unsubDone, deadDone, markDone, pend, closeSess, fired, reg, closeRet>>
Gone(s) == unsubDone[s] \/ deadDone[s]
EvDeliver == IsEv("Deliver") /\ Handed(Ev.t) /\ dl[<<Ev.s, Ev.m>>] = 0 /\ ~Gone(Ev.s)
DevLateWrite == /\ IsEv("Deliver") /\ Handed(Ev.t) /\ dl[<<Ev.s, Ev.m>>] = 0 /\ Gone(Ev.s)
                /\ PrintT(<<"DEV", "LateWrite", l>>)
DevDoubleSubscribe == /\ IsEv("Deliver") /\ Handed(Ev.t) /\ kind = "sse"
                      /\ dl[<<Ev.s, Ev.m>>] >= 1 /\ dl[<<Ev.s, Ev.m>>] < subCalls[Ev.s]
                      /\ PrintT(<<"DEV", "DoubleSubscribe", l>>)
EvRetPub == /\ IsEv("Ret") /\ Ev.op = "pub" /\ pend[Ev.t].op = "pub"
            /\ \A s \in pend[Ev.t].must : dl[<<s, Ev.m>>] >= 1
            /\ pend' = [pend EXCEPT ![Ev.t] = Idle]
            /\ UNCHANGED <<kind, subCalls, oblig, unsubDone, deadDone, markDone, dl, closeSess, fired, reg, closeRet>>

\* ---- the close-latch of a stream
EvCloseSession == /\ IsEv("CloseSession") /\ pend[Ev.t].op = "close" /\ pend[Ev.t].s = Ev.s
                  /\ closeSess[Ev.s] = 0 /\ ~pend[Ev.t].markBefore
                  /\ closeSess' = [closeSess EXCEPT ![Ev.s] = 1]
                  /\ UNCHANGED <<kind, subCalls, oblig, unsubDone, deadDone, markDone, pend, dl, fired, reg, closeRet>>
EvFired == /\ IsEv("Fired") /\ pend[Ev.t].op \in {"close", "mark", "onc"} /\ pend[Ev.t].s = Ev.s
           /\ fired[Ev.s] = 0 /\ fired' = [fired EXCEPT ![Ev.s] = 1]
           /\ UNCHANGED <<kind, subCalls, oblig, unsubDone, deadDone, markDone, pend, dl, closeSess, reg, closeRet>>
EvEnd == /\ IsEv("End") /\ Ev.outcome = "done"
         /\ \A s \in SS : (reg[s] /\ closeRet[s]) => fired[s] = 1
         /\ UNCHANGED <<kind, subCalls, oblig, unsubDone, deadDone, markDone, pend, dl, closeSess, fired, reg, closeRet>>
Next == EvBegin \/ EvReset \/ EvCallSub \/ EvRetSub \/ EvCallOther \/ EvRetOther \/ EvCallLeave \/ EvRetLeave \/ EvCallPub
        \/ EvDeliver \/ DevLateWrite \/ DevDoubleSubscribe \/ EvRetPub \/ EvCloseSession \/ EvFired \/ EvEnd
Spec == Init /\ [][Next]_vars
==============================================================================
