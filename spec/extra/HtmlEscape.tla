------------------------------ MODULE HtmlEscape ------------------------------
(* X14 (part 1) - iora::parsers::escapeHtml, urlDecode / formDecode, urlEncode / formEncode, parseFormBody       *)
(* (include/iora/parsers/html_escape.hpp).  Generator + Impl specification.                                     *)
(*                                                                                                          *)
(* What a user relies on (Abs, HtmlOps):                                                                      *)
(*   H1  escapeHtml is total and rewrites EXACTLY the five octets & < > " ' (to &amp; &lt; &gt; &quot; &#39;);   *)
(*       every other octet (NUL, >= 0x80, ';', '#') is copied; it is a homomorphism (single pass, no re-scan);   *)
(*   H2  its output is safe in element content and in single- or double-quoted attribute values (no raw          *)
(*       < > " ', every & starts one of the five references) and un-escapes to the input (left inverse);         *)
(*   H3  idempotence rule: escape(escape(x)) = escape(x)  IFF  x contains none of the five (it is NOT idempotent  *)
(*       otherwise - tests/web/test_html_escape.cpp "escapeHtml is not idempotent");                             *)
(*   P1  urlDecode / formDecode are total and lenient: "%" HEXDIG HEXDIG (either case) -> octet, any other '%'     *)
(*       is literal; '+' is SP only for formDecode; NUL is kept; never reads past the end;                        *)
(*   P2  urlEncode / formEncode keep exactly ALPHA DIGIT - . _ ~, write SP as %20 / '+', everything else as       *)
(*       %HH with UPPER-case hex, and  decode(encode(x)) = x  for every x;                                        *)
(*   F1  parseFormBody = fields between '&' (empty ones skipped), split at the FIRST '=', both halves             *)
(*       form-decoded AFTER splitting, later duplicate keys win, bare key -> empty value, empty key allowed.      *)
(*                                                                                                          *)
(* Init enumerates every input of the configured families (MCHtmlEscape.tla); one action per loop iteration      *)
(* of the code with each of its branches.  Emit prints each terminal state = one conformance case.               *)
(* Deviations (default FALSE), each must make TLC report a violation:                                            *)
(*   Dev_EscAposNamed  ' -> &apos;           Dev_EscNoQuot  '"' copied          Dev_EscAmpLast  & replaced in a     *)
(*   second pass (double escaping: < -> &amp;lt;)                                                                 *)
(*   Dev_DecBoundTight  "i + 3 < n": a triple at the very end is not decoded                                      *)
(*   Dev_DecBoundLoose  "i + 1 < n": reads in[i+2] past the end                  Dev_DecPlusInUrl  urlDecode '+'->SP *)
(*   Dev_DecUpperOnly   lower-case hex refused                                                                    *)
(*   Dev_EncLowerHex    %3a instead of %3A   Dev_EncTildeEscaped  '~' written as %7E (RFC 2396 habit)              *)
(*   Dev_FormFirstWins  earlier duplicate key wins      Dev_FormLastEq  split at the LAST '='                       *)
(*   Dev_FormDecodeFirst  the body is decoded BEFORE it is split (%26 / %3D act as separators)                     *)
EXTENDS HtmlOps, TLC, Json

CONSTANTS EscInputs, DecInputs, EncInputs, FormInputs,
          Dev_EscAposNamed, Dev_EscNoQuot, Dev_EscAmpLast, Dev_DecBoundTight, Dev_DecBoundLoose, Dev_DecPlusInUrl,
          Dev_DecUpperOnly, Dev_EncLowerHex, Dev_EncTildeEscaped, Dev_FormFirstWins, Dev_FormLastEq, Dev_FormDecodeFirst

VARIABLES mode, inp, i, out, map, res
vars == <<mode, inp, i, out, map, res>>
n == Len(inp)

Init == /\ \/ mode = "esc" /\ inp \in EscInputs
           \/ mode \in {"udec", "fdec"} /\ inp \in DecInputs
           \/ mode \in {"uenc", "fenc"} /\ inp \in EncInputs
           \/ mode = "form" /\ inp \in FormInputs
        /\ i = 0 /\ out = <<>> /\ map = {} /\ res = "run"

In(m) == res = "run" /\ mode \in m
Cur == inp[i + 1]
Step(o) == out' = out \o o /\ i' = i + 1 /\ UNCHANGED <<mode, inp, map, res>>
Done(r, o) == res' = r /\ out' = o /\ UNCHANGED <<mode, inp, i, map>>

\* ------------------------------------------------------------------ escapeHtml: for (char c : in) switch (c)
ImplEntity(c) == IF c = Apos /\ Dev_EscAposNamed THEN <<38, 97, 112, 111, 115, 59>>
                 ELSE IF c = Quot /\ Dev_EscNoQuot THEN <<c>>
                 ELSE IF c = Amp /\ Dev_EscAmpLast THEN <<c>>
                 ELSE Entity(c)
EscSpecial == In({"esc"}) /\ i < n /\ Cur \in Specials /\ Step(ImplEntity(Cur))
EscCopy == In({"esc"}) /\ i < n /\ Cur \notin Specials /\ Step(<<Cur>>)
EscEnd == In({"esc"}) /\ i = n
          /\ Done("ok", IF Dev_EscAmpLast THEN Flat([k \in 1..Len(out) |-> IF out[k] = Amp THEN Entity(Amp) ELSE <<out[k]>>]) ELSE out)

\* ------------------------------------------------------------------ percentDecode(in, plusIsSpace)
PlusIsSpace == mode = "fdec" \/ Dev_DecPlusInUrl
Hx(c) == IF Dev_DecUpperOnly /\ c \in 97..102 THEN -1 ELSE HexVal(c)
\* the bound of the code is "i + 2 < n" (0-based i): both hex digits exist
TripleInBounds == IF Dev_DecBoundTight THEN i + 3 < n ELSE IF Dev_DecBoundLoose THEN i + 1 < n ELSE i + 2 < n
DecOob == In({"udec", "fdec"}) /\ i < n /\ Cur = Pct /\ TripleInBounds /\ i + 2 >= n /\ Done("oob", out)
DecTriple == /\ In({"udec", "fdec"}) /\ i < n /\ Cur = Pct /\ TripleInBounds /\ i + 2 < n
             /\ Hx(inp[i + 2]) >= 0 /\ Hx(inp[i + 3]) >= 0
             /\ out' = Append(out, (Hx(inp[i + 2]) * 16) + Hx(inp[i + 3])) /\ i' = i + 3 /\ UNCHANGED <<mode, inp, map, res>>
DecPctLiteral == /\ In({"udec", "fdec"}) /\ i < n /\ Cur = Pct
                 /\ ~TripleInBounds \/ (i + 2 < n /\ (Hx(inp[i + 2]) < 0 \/ Hx(inp[i + 3]) < 0))
                 /\ Step(<<Pct>>)
DecPlus == In({"udec", "fdec"}) /\ i < n /\ Cur = Plus /\ PlusIsSpace /\ Step(<<SPc>>)
DecCopy == In({"udec", "fdec"}) /\ i < n /\ Cur # Pct /\ ~(Cur = Plus /\ PlusIsSpace) /\ Step(<<Cur>>)
DecEnd == In({"udec", "fdec"}) /\ i >= n /\ Done("ok", out)

\* ------------------------------------------------------------------ percentEncode(in, spaceAsPlus)
Keeps(c) == Unreserved(c) /\ ~(Dev_EncTildeEscaped /\ c = 126)
Hd(v) == IF Dev_EncLowerHex /\ v >= 10 THEN 87 + v ELSE HexDigit(v)
EncKeep == In({"uenc", "fenc"}) /\ i < n /\ Keeps(Cur) /\ Step(<<Cur>>)
EncPlus == In({"uenc", "fenc"}) /\ i < n /\ ~Keeps(Cur) /\ mode = "fenc" /\ Cur = SPc /\ Step(<<Plus>>)
EncHex == /\ In({"uenc", "fenc"}) /\ i < n /\ ~Keeps(Cur) /\ ~(mode = "fenc" /\ Cur = SPc)
          /\ Step(<<Pct, Hd(Cur \div 16), Hd(Cur % 16)>>)
EncEnd == In({"uenc", "fenc"}) /\ i = n /\ Done("ok", out)

\* ------------------------------------------------------------------ parseFormBody: one action per '&'-separated field
\* i = offset of the current field; the field ends at the next '&' or at the end
FieldEnd == LET idx == {k \in (i + 1)..n : inp[k] = Amp} IN IF idx = {} THEN n + 1 ELSE CHOOSE k \in idx : \A j \in idx : k <= j
Field == SubSeq(inp, i + 1, FieldEnd - 1)
FDec(s) == PctDecode(s, TRUE)
ImplKV(f) == LET idx == {k \in 1..Len(f) : f[k] = Eq} IN
             IF idx = {} THEN <<FDec(f), <<>>>>
             ELSE LET k == IF Dev_FormLastEq THEN CHOOSE k \in idx : \A j \in idx : k >= j ELSE CHOOSE k \in idx : \A j \in idx : k <= j
                  IN <<FDec(SubSeq(f, 1, k - 1)), FDec(SubSeq(f, k + 1, Len(f)))>>
Put(m, kv) == IF Dev_FormFirstWins /\ \E p \in m : p[1] = kv[1] THEN m ELSE {p \in m : p[1] # kv[1]} \cup {kv}
FormPre == /\ In({"form"}) /\ Dev_FormDecodeFirst /\ i = 0 /\ out = <<>> /\ inp # FDec(inp)
           /\ inp' = FDec(inp) /\ out' = inp /\ UNCHANGED <<mode, i, map, res>>      \* out keeps the original body
FormSkipEmpty == /\ In({"form"}) /\ i <= n /\ Field = <<>> /\ i' = FieldEnd /\ UNCHANGED <<mode, inp, out, map, res>>
FormField == /\ In({"form"}) /\ i <= n /\ Field # <<>> /\ map' = Put(map, ImplKV(Field)) /\ i' = FieldEnd
             /\ UNCHANGED <<mode, inp, out, res>>
FormEnd == In({"form"}) /\ i > n /\ Done("ok", out)

Next == EscSpecial \/ EscCopy \/ EscEnd \/ DecOob \/ DecTriple \/ DecPctLiteral \/ DecPlus \/ DecCopy \/ DecEnd
        \/ EncKeep \/ EncPlus \/ EncHex \/ EncEnd \/ FormPre \/ FormSkipEmpty \/ FormField \/ FormEnd
Spec == Init /\ [][Next]_vars

\* ------------------------------------------------------------------ properties (at the terminal state)
Refines == res = "run" \/
           CASE mode = "esc"  -> res = "ok" /\ out = Esc(inp)
             [] mode = "udec" -> res = "ok" /\ out = PctDecode(inp, FALSE)
             [] mode = "fdec" -> res = "ok" /\ out = PctDecode(inp, TRUE)
             [] mode = "uenc" -> res = "ok" /\ out = PctEncode(inp, FALSE)
             [] mode = "fenc" -> res = "ok" /\ out = PctEncode(inp, TRUE)
             [] OTHER         -> res = "ok" /\ map = FormBody(IF out # <<>> THEN out ELSE inp)
\* theorems about the Abs operators, checked on every generated input (H2, H3, P2)
EscLaws == (res = "ok" /\ mode = "esc") => /\ ContextSafe(out) /\ Unesc(out) = inp
                                           /\ (Esc(out) = out) = NoSpecial(inp)
EncLaws == (res = "ok" /\ mode \in {"uenc", "fenc"}) => /\ EncodedForm(out, mode = "fenc")
                                                        /\ PctDecode(out, mode = "fenc") = inp
NoOob == res # "oob"
Progress == res = "run" => ENABLED Next

SetToSeq(S) == LET RECURSIVE R(_)
                   R(T) == IF T = {} THEN <<>> ELSE LET x == CHOOSE x \in T : TRUE IN <<x>> \o R(T \ {x})
               IN R(S)
Emit == res = "run" \/ PrintT(ToJson([mode |-> mode, inp |-> inp, res |-> res, out |-> out, pairs |-> SetToSeq(map)]))
=============================================================================
