------------------------------ MODULE TtlMapOps ------------------------------
(* X07: the sequential reference of iora::util::TtlMap (include/iora/util/ttl_map.hpp) as pure operators on its LRU list,   *)
(* shared by the Impl/generator specification TtlMap.tla and the trace specification TtlMapTrace.tla.                       *)
(* A list is a sequence of entries [k, v, exp, la], front (index 1) = most recently WRITTEN, back = LRU tail;               *)
(* exp = absolute expiry, la = recency stamp (time of the last put or HIT).  Times are integers in any one unit.            *)
(* The header documents (and tests/util/iora_test_ttl_map.cpp checks) all of this:                                          *)
(*   get      hit iff the key is present and exp > now ("expiresAt <= now" is expired); a hit stamps la = now; an expired    *)
(*            entry is a miss and stays in the list (deferred reap)                                                          *)
(*   put      existing key: value, expiry (now + ttl) and stamp replaced IN PLACE, entry spliced to the front;               *)
(*            new key: pushed at the front; if the size now exceeds maxEntries ONE entry is evicted:                         *)
(*   evict    from the LRU tail towards the front, at most 8 candidates: the first whose stamp is older than                 *)
(*            now - sweepInterval ("not recent") is the victim; if all candidates are recent (or the front is reached)       *)
(*            the strict tail is evicted - the size never stays above maxEntries                                              *)
(*   sweep    removes exactly the entries with exp <= now                                                                     *)
EXTENDS Naturals, Sequences, FiniteSets
KMaxHops == 8
Pos(lru, k) == LET P == {i \in 1..Len(lru) : lru[i].k = k} IN IF P = {} THEN 0 ELSE CHOOSE i \in P : TRUE
RemoveAt(s, i) == SubSeq(s, 1, i - 1) \o SubSeq(s, i + 1, Len(s))
Live(e, now) == e.exp > now
\* the victim's position among the entries of lru (which already contains the new entry at the front)
Victim(lru, now, interval) ==
    LET n == Len(lru)
        cand == {i \in 1..n : i > n - KMaxHops}                     \* tail, tail-1, ... (at most 8; the front ends the scan)
        old == {i \in cand : lru[i].la + interval < now}            \* lastAccess < now - sweepInterval
    IN IF old = {} THEN n ELSE CHOOSE i \in old : \A j \in old : j <= i     \* the one closest to the tail
\* put: <<new list, key evicted or 0>>
PutOp(lru, now, k, v, ttl, maxEntries, interval) ==
    IF maxEntries = 0 THEN <<lru, 0>>
    ELSE LET e == [k |-> k, v |-> v, exp |-> now + ttl, la |-> now]
             p == Pos(lru, k) IN
         IF p # 0 THEN << <<e>> \o RemoveAt(lru, p), 0 >>
         ELSE LET l2 == <<e>> \o lru IN
              IF Len(l2) > maxEntries
              THEN LET vi == Victim(l2, now, interval) IN << RemoveAt(l2, vi), l2[vi].k >>
              ELSE <<l2, 0>>
GetHit(lru, now, k) == Pos(lru, k) # 0 /\ Live(lru[Pos(lru, k)], now)
GetVal(lru, k) == lru[Pos(lru, k)].v
Touch(lru, now, k) == [lru EXCEPT ![Pos(lru, k)].la = now]          \* a hit stamps the entry, nothing moves
InvOp(lru, k) == IF Pos(lru, k) = 0 THEN lru ELSE RemoveAt(lru, Pos(lru, k))
SweepOp(lru, now) == SelectSeq(lru, LAMBDA e : Live(e, now))
==============================================================================
