\* exhaustive, ghost history on, strict reading of P2 (updateConfig re-evaluates the state): all reference properties
CONSTANTS Ids = {1} Cfgs <- MCCfgs3 MaxOps = 6 MaxTime = 4 KeepHist = TRUE Dev_StaleState = FALSE
  Dev_SuccessResets = FALSE Dev_ThresholdStrict = FALSE Dev_FailureTouchesActivity = FALSE Dev_CriticalGe = FALSE Dev_AddKeepsOld = FALSE Dev_UnknownCreates = FALSE Dev_ActivityKeepsFailures = FALSE
SPECIFICATION Spec
INVARIANT TypeOK
INVARIANT MonitoredIffHist
INVARIANT CountRef
INVARIANT StateSinceEval
INVARIANT HealthyIff
INVARIANT UnhealthyListRef
INVARIANT UnhealthyOnlyBeyondMax
INVARIANT LastActivityRef
INVARIANT HeartbeatRef
INVARIANT TotalsRef
INVARIANT HealthyIffCount
INVARIANT CountZeroIsHealthy
INVARIANT ConfigUniform
INVARIANT CountsAddUp
PROPERTY Recovery
PROPERTY Isolation
INVARIANT StateCurrent
CHECK_DEADLOCK FALSE
