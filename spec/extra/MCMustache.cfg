SPECIFICATION Spec
CONSTANTS
  Families <- MCFamilies
  MaxHeavy = 1
  Dev_NoEscape = FALSE
  Dev_EscapeRaw = FALSE
  Dev_ZeroFalsy = FALSE
  Dev_EmptyArrayTruthy = FALSE
  Dev_NoStandalone = FALSE
  Dev_NoIndent = FALSE
  Dev_DepthOffByOne = FALSE
  Dev_CloseNotChecked = FALSE
  Dev_InnermostOnly = FALSE
  Dev_PartialEager = FALSE
  Dev_CrlfBlankIndented = FALSE
INVARIANT Refines
INVARIANT BalanceAgrees
CHECK_DEADLOCK FALSE
