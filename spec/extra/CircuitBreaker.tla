------------------------------ MODULE CircuitBreaker ------------------------------
(* Beyond the listed properties: the state machine of iora::network::CircuitBreaker (network/circuit_breaker.hpp),      *)
(* transcribed case by case (MongoDB-merge-rules style): TLC's state graph is the test plan - every transition is       *)
(* replayed on the real object (virtual time) and the object's observable state is compared after each step.            *)
(* Time in whole seconds.  Properties: an Open breaker refuses requests until Timeout has passed since the last         *)
(* failure; it opens only after FailureThreshold consecutive failures or when the failure rate criterion holds.         *)
EXTENDS Naturals, TLC
CONSTANTS FailureThreshold, Timeout, SuccessThreshold, MinRequests, MaxTime, MaxRequests
\* failureRateThreshold is 1/2:  failures / requests >= 1/2  <=>  2 * failures >= requests
VARIABLES state, failures, successes, requests, lastFailure, now, lastRet
vars == <<state, failures, successes, requests, lastFailure, now, lastRet>>
Init == state = "Closed" /\ failures = 0 /\ successes = 0 /\ requests = 0 /\ lastFailure = 0 /\ now = 0 /\ lastRet = "-"
Allow == /\ requests < MaxRequests
         /\ CASE state = "Closed" -> lastRet' = "true" /\ UNCHANGED <<state, successes>>
              [] state = "Open" -> IF now - lastFailure >= Timeout
                                   THEN state' = "HalfOpen" /\ successes' = 0 /\ lastRet' = "true"
                                   ELSE lastRet' = "false" /\ UNCHANGED <<state, successes>>
              [] state = "HalfOpen" -> lastRet' = "true" /\ UNCHANGED <<state, successes>>
         /\ UNCHANGED <<failures, requests, lastFailure, now>>
Success == /\ requests < MaxRequests /\ requests' = requests + 1 /\ lastRet' = "-"
           /\ CASE state = "HalfOpen" -> IF successes + 1 >= SuccessThreshold
                                         THEN state' = "Closed" /\ failures' = 0 /\ successes' = 0
                                         ELSE successes' = successes + 1 /\ UNCHANGED <<state, failures>>
                [] state = "Closed" -> failures' = 0 /\ UNCHANGED <<state, successes>>
                [] OTHER -> UNCHANGED <<state, failures, successes>>
           /\ UNCHANGED <<lastFailure, now>>
ShouldOpen(f, r) == f >= FailureThreshold \/ (r >= MinRequests /\ 2 * f >= r)
Failure == /\ requests < MaxRequests /\ requests' = requests + 1 /\ lastFailure' = now /\ failures' = failures + 1 /\ lastRet' = "-"
           /\ CASE state = "HalfOpen" -> state' = "Open" /\ successes' = 0
                [] state = "Closed" -> (IF ShouldOpen(failures + 1, requests + 1) THEN state' = "Open" ELSE UNCHANGED state) /\ UNCHANGED successes
                [] OTHER -> UNCHANGED <<state, successes>>
           /\ UNCHANGED now
Tick == now < MaxTime /\ now' = now + 1 /\ lastRet' = "-" /\ UNCHANGED <<state, failures, successes, requests, lastFailure>>
Next == Allow \/ Success \/ Failure \/ Tick
Spec == Init /\ [][Next]_vars
\* an Open breaker fails fast until the timeout has elapsed
OpenRefuses == (state = "Open" /\ lastRet = "false") => now - lastFailure < Timeout
RefusesOnlyWhenOpen == lastRet = "false" => state = "Open"
===================================================================================
