---- MODULE MCObjectPool ----
(* exhaustive configuration of ObjectPool.tla (X08): 2 threads x 2 handles, 1 pre-created object, at most 3 objects, *)
(* setMaxPoolSize(0|1), 6 operations per behaviour (7 in the thorough tier, set by checks/X08.py)                     *)
EXTENDS ObjectPool
====
