---- MODULE MCMetrics ----
(* exhaustive configuration of Metrics.tla (X23): 2 threads, 2 metric names (x 2 label orders), maxSeries 2, histogram    *)
(* bounds <<1, 3>>, 3 registry operations per behaviour (each up to 3 steps: fast path, slow path, atomic record)         *)
EXTENDS Metrics
MCBounds == <<1, 3>>
====
