CONSTANTS Threads = {"a", "b", "c"} Streams = {1, 2} Prog <- MCProg
  Dev_PruneInverted = FALSE Dev_MarkKeepsOpen = FALSE Dev_CloseSessionBeforeLatch = FALSE Dev_LatchUnlocked = FALSE Dev_NoImmediateFire = FALSE
SPECIFICATION Spec
INVARIANT AtMostOnce
INVARIANT MustDeliver
INVARIANT NoLateStart
INVARIANT CloseSessionOnce
INVARIANT FiredOnce
INVARIANT Terminates
CHECK_DEADLOCK FALSE
