------------------------------ MODULE MCHttpAuth ------------------------------
(* Exhaustive configuration of HttpAuth.tla for X15 (quick tier; checks/X15.py adds more spellings for the thorough tier). *)
(* Header values = scheme spelling . separator . token . trailer; the tokens are COMPUTED here with Base64Ops!Enc from     *)
(* the credential octet strings, plus five malformed variants of the token of "u:pw".  Octet strings are tuples of        *)
(* integers (the comment after each gives the text).                                                                    *)
EXTENDS HttpAuth
MCSchemes == {<<66, 97, 115, 105, 99>>, <<98, 97, 115, 105, 99>>, <<98, 65, 115, 73, 67>>, <<66, 97, 115, 105, 99, 88>>, <<66, 101, 97, 114, 101, 114>>, <<66, 97, 115, 105>>}   \* Basic basic bAsIC BasicX Bearer Basi
MCSeps == {<<>>, <<32>>, <<32, 32>>, <<9>>, <<32, 9>>, <<9, 32>>}   \* "" SP SPSP HTAB SP.HTAB HTAB.SP
MCCreds == {<<117, 58, 112>>, <<117, 58, 112, 58, 113>>, <<58, 112>>, <<117, 58>>, <<58>>, <<117>>, <<>>, <<97, 0, 58, 98, 0>>, <<252, 58, 255, 251>>, <<117, 115, 58, 112, 119>>}
   \* u:p  u:p:q  :p  u:  :  u  (empty)  a NUL : b NUL   FC : FF FB   us:pw
UPW == Enc(<<117, 58, 112, 119>>, FALSE)   \* "u:pw" -> dTpwdw==
MCMalformed == {SubSeq(UPW, 1, 6), SubSeq(UPW, 1, 7),                     \* padding stripped: dTpwdw  dTpwdw=
                SubSeq(UPW, 1, 5) \o <<120, 61, 61>>,                     \* non-zero discarded bits: dTpwdx==
                SubSeq(UPW, 1, 4) \o <<32>> \o SubSeq(UPW, 5, 8),         \* white space inside the token
                Enc(<<251, 58, 255>>, TRUE) \o <<61>>}                                 \* URL alphabet: -zr_
MCTokens == {Enc(c, FALSE) : c \in MCCreds} \cup MCMalformed
MCTrails == {<<>>, <<32>>, <<9>>, <<32, 9, 32>>, <<13, 10>>, <<61>>, <<32, 120>>}   \* "" SP HTAB SP.HTAB.SP CRLF = SP.x
MCHdrInputs == {s \o p \o k \o r : s \in MCSchemes, p \in MCSeps, k \in MCTokens, r \in MCTrails}
MCRealmChars == {97, 32, 34, 92, 13, 10, 0, 31, 127, 128, 255, 9}
MCRealmInputs == SeqsUpTo(MCRealmChars, 3)
MCTheRealm == <<114, 32, 49>>   \* "r 1"
=============================================================================
