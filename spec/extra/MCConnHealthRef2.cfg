\* exhaustive, ghost history on, the code as it is: two ids, two configurations
CONSTANTS Ids = {1, 2} Cfgs <- MCCfgs2 MaxOps = 5 MaxTime = 3 KeepHist = TRUE Dev_StaleState = TRUE
  Dev_SuccessResets = FALSE Dev_ThresholdStrict = FALSE Dev_FailureTouchesActivity = FALSE Dev_CriticalGe = FALSE Dev_AddKeepsOld = FALSE Dev_UnknownCreates = FALSE Dev_ActivityKeepsFailures = FALSE
SPECIFICATION Spec
INVARIANT TypeOK
INVARIANT MonitoredIffHist
INVARIANT CountRef
INVARIANT StateSinceEval
INVARIANT HealthyIff
INVARIANT UnhealthyListRef
INVARIANT UnhealthyOnlyBeyondMax
INVARIANT LastActivityRef
INVARIANT HeartbeatRef
INVARIANT TotalsRef
INVARIANT HealthyIffCount
INVARIANT CountZeroIsHealthy
INVARIANT ConfigUniform
INVARIANT CountsAddUp
PROPERTY Recovery
PROPERTY Isolation
CHECK_DEADLOCK FALSE
