------------------------------ MODULE MustacheOps ------------------------------
(* X17 - the mustache evaluator in TLA+ (used by Mustache.tla = generator / Impl and by MustacheTrace.tla = oracle). *)
(*                                                                                                                *)
(* Eval(ls, resolver, F): ls = template as a sequence of lexeme names (MustacheData), resolver = TRUE when a partial *)
(* resolver is supplied, F = set of deviation names (the Abs semantics is F = {}).  Result:                          *)
(*   [err, out, calls]   err: the render throws MustacheError; out: the rendered text; calls: the partial names the  *)
(*                       resolver was asked for, in order (laziness: only partials that are REACHED are resolved)    *)
(* Semantics (mustache(5) / the spec's interpolation, sections, inverted, comments, partials modules, as far as     *)
(* mustache.hpp claims them):                                                                                       *)
(*   tokenizer   an unterminated tag or a set-delimiter tag is an error of the whole template                         *)
(*   standalone  a section / inverted / close / partial / comment tag alone on its line (only white space around it) *)
(*               is removed together with that white space and the line end; a standalone partial's indentation is   *)
(*               prepended to every non-empty line of the partial's source; interpolation tags are never standalone  *)
(*   balance     every close matches the innermost open by (trimmed) name; nothing unclosed; nesting <= DepthMax      *)
(*   names       "." = innermost frame; first key: innermost frame that is an object CONTAINING the key (even with a  *)
(*               null value); further keys descend from there only; anything unresolved is null - never an error      *)
(*   falsy       null, false, empty array, empty string - and nothing else (0 and 0.0 are truthy)                     *)
(*   {{x}}       HTML-escaped scalar text; {{{x}}} {{&x}} the same text unescaped; null / array / object -> ""        *)
(*   {{#x}}      falsy: nothing; non-empty array: body once per element with the element pushed; otherwise once with  *)
(*               the value pushed           {{^x}}  body once iff falsy, nothing pushed                               *)
(*   {{>x}}      the partial's source rendered against the live stack; unknown partial / no resolver / broken partial *)
(*               source: error WHEN REACHED (not when skipped); render depth (sections + partials) <= DepthMax         *)
(* KnownDevs: deviations of the real engine from this semantics that are documented observations (X17.meta.json).   *)
EXTENDS MustacheData, FiniteSets

Eligible == {"open", "inv", "close", "partial", "comment"}
KnownDevs == {"CrlfBlankIndented"}
Tok(x) == [k |-> x.k, nm |-> x.nm, path |-> x.path, txt |-> x.txt, ind |-> ""]
RECURSIVE Expand(_)
Expand(ls) == IF ls = <<>> THEN <<>>
              ELSE LET x == LxAll[Head(ls)] IN
                   (IF x.k = "deep"
                    THEN [j \in 1..x.n |-> Tok(Lx["Ot"])] \o <<Tok(Lx["X"])>> \o [j \in 1..x.n |-> Tok(Lx["Ct"])]
                    ELSE <<Tok(x)>>) \o Expand(Tail(ls))
RECURSIVE Cat(_)
Cat(ss) == IF ss = <<>> THEN "" ELSE Head(ss) \o Cat(Tail(ss))
Text(ls) == Cat([j \in 1..Len(ls) |-> LxAll[ls[j]].txt])                \* the template text of a lexeme sequence
MinOf(S) == CHOOSE x \in S : \A y \in S : x <= y
MaxOf(S) == CHOOSE x \in S : \A y \in S : x >= y

\* ---- standalone lines (on the raw token sequence)
RECURSIVE LeftStart(_, _)
LeftStart(ts, i) == IF i > 1 /\ ts[i - 1].k = "ws" THEN LeftStart(ts, i - 1) ELSE i          \* start of the white space run before i
RECURSIVE RightEnd(_, _)
RightEnd(ts, i) == IF i < Len(ts) /\ ts[i + 1].k = "ws" THEN RightEnd(ts, i + 1) ELSE i      \* end of the white space run after i
Alone(ts, i) == /\ ts[i].k \in Eligible
                /\ LET a == LeftStart(ts, i) IN a = 1 \/ ts[a - 1].k = "nl"
                /\ LET b == RightEnd(ts, i) IN b = Len(ts) \/ ts[b + 1].k = "nl"
Strip(ts, F) ==
    LET alone == IF "NoStandalone" \in F THEN {} ELSE {i \in 1..Len(ts) : Alone(ts, i)}
        gone == UNION {(LeftStart(ts, i)..(i - 1)) \cup ((i + 1)..RightEnd(ts, i))
                       \cup (IF RightEnd(ts, i) < Len(ts) THEN {RightEnd(ts, i) + 1} ELSE {}) : i \in alone}
        keep == {i \in 1..Len(ts) : i \notin gone /\ ts[i].k # "comment"}
        ind(i) == IF i \in alone /\ ts[i].k = "partial" /\ "NoIndent" \notin F
                  THEN Cat([j \in 1..(i - LeftStart(ts, i)) |-> ts[LeftStart(ts, i) + j - 1].txt]) ELSE ""
        f[i \in 0..Len(ts)] == IF i = 0 THEN <<>>
                               ELSE IF i \in keep THEN Append(f[i - 1], [ts[i] EXCEPT !.ind = ind(i)]) ELSE f[i - 1]
    IN f[Len(ts)]

\* ---- balance: match[i] = index of the close of the open at i
Limit(F) == IF "DepthOffByOne" \in F THEN DepthMax - 1 ELSE DepthMax
RECURSIVE Bal(_, _, _, _, _)
Bal(ts, i, stk, m, F) ==
    IF i > Len(ts) THEN [err |-> stk # <<>>, m |-> m]
    ELSE CASE ts[i].k \in {"open", "inv"} ->
                IF Len(stk) + 1 > Limit(F) THEN [err |-> TRUE, m |-> m] ELSE Bal(ts, i + 1, Append(stk, i), m, F)
           [] ts[i].k = "close" ->
                IF stk = <<>> \/ (ts[stk[Len(stk)]].nm # ts[i].nm /\ "CloseNotChecked" \notin F) THEN [err |-> TRUE, m |-> m]
                ELSE Bal(ts, i + 1, SubSeq(stk, 1, Len(stk) - 1), [m EXCEPT ![stk[Len(stk)]] = i], F)
           [] OTHER -> Bal(ts, i + 1, stk, m, F)
\* tokenize + standalone + balance of one template source (token sequence)
Prepare(raw, F) ==
    IF \E i \in 1..Len(raw) : raw[i].k \in {"broken", "setdelim"} THEN [err |-> TRUE, ts |-> <<>>, m |-> <<>>]
    ELSE LET ts == Strip(raw, F)
             b == Bal(ts, 1, <<>>, [j \in 1..Len(ts) |-> 0], F)
         IN [err |-> b.err, ts |-> ts, m |-> b.m]

\* ---- indentation of a standalone partial's SOURCE: before the first line unless it is empty, and after every line
\* end that is followed by something other than "\n"
\* Known deviation of the code (F contains "CrlfBlankIndented"): only a line that is empty up to "\n" counts as empty, so a
\* blank line of a CRLF source ("\r\n") IS indented - contrary to the documentation of applyIndent ("NOT before an empty
\* line") and to the engine's own treatment of "\r\n" as one line end.
WsTok(s) == [k |-> "ws", nm |-> "", path |-> <<>>, txt |-> s, ind |-> ""]
EmptyLine(t, F) == t.k = "nl" /\ (t.txt = "\n" \/ "CrlfBlankIndented" \notin F)
Indent(ts, s, F) == IF s = "" \/ ts = <<>> THEN ts
                    ELSE LET f[i \in 0..Len(ts)] ==
                                 IF i = 0 THEN (IF EmptyLine(ts[1], F) THEN <<>> ELSE <<WsTok(s)>>)
                                 ELSE f[i - 1] \o <<ts[i]>>
                                      \o (IF ts[i].k = "nl" /\ i < Len(ts) /\ ~EmptyLine(ts[i + 1], F) THEN <<WsTok(s)>> ELSE <<>>)
                         IN f[Len(ts)]

\* ---- names
Falsy(v, F) == \/ v.t = "null" \/ (v.t = "bool" /\ ~v.v) \/ (v.t = "str" /\ v.v = "")
               \/ (v.t = "arr" /\ v.v = <<>> /\ "EmptyArrayTruthy" \notin F)
               \/ (v.t = "int" /\ v.v = "0" /\ "ZeroFalsy" \in F)
RECURSIVE Descend(_, _)
Descend(v, p) == IF p = <<>> THEN v
                 ELSE IF v.t = "obj" /\ Head(p) \in DOMAIN v.v THEN Descend(v.v[Head(p)], Tail(p)) ELSE Null
Resolve(path, st, F) ==
    IF path = <<".">> THEN st[Len(st)]
    ELSE LET fr == {j \in 1..Len(st) : st[j].t = "obj" /\ path[1] \in DOMAIN st[j].v}
             fr2 == IF "InnermostOnly" \in F THEN fr \cap {Len(st)} ELSE fr
         IN IF fr2 = {} THEN Null ELSE Descend(st[MaxOf(fr2)].v[path[1]], Tail(path))
Scalar(v, escaped) == CASE v.t = "str" -> IF escaped THEN v.esc ELSE v.v
                        [] v.t \in {"int", "dbl"} -> v.v
                        [] v.t = "bool" -> IF v.v THEN "true" ELSE "false"
                        [] OTHER -> ""

\* ---- render
Ok(s) == [err |-> FALSE, out |-> s, calls |-> <<>>]
Fail(cs) == [err |-> TRUE, out |-> "", calls |-> cs]
Then(a, b) == IF a.err THEN a
              ELSE IF b.err THEN [err |-> TRUE, out |-> "", calls |-> a.calls \o b.calls]
              ELSE [err |-> FALSE, out |-> a.out \o b.out, calls |-> a.calls \o b.calls]
Called(nm, r) == [r EXCEPT !.calls = <<nm>> \o r.calls]

RECURSIVE R(_, _, _, _, _, _, _, _)
RECURSIVE Each(_, _, _, _, _, _, _, _, _)
\* tokens i..hi of the prepared template (ts, m) against the stack st at render depth d
R(ts, m, i, hi, st, d, res, F) ==
    IF d > Limit(F) THEN Fail(<<>>)
    ELSE IF i > hi THEN Ok("")
    ELSE LET t == ts[i]
             rest(j) == R(ts, m, j, hi, st, d, res, F)
         IN CASE t.k \in {"text", "ws", "nl"} -> Then(Ok(t.txt), rest(i + 1))
              [] t.k = "var" -> Then(Ok(Scalar(Resolve(t.path, st, F), "NoEscape" \notin F)), rest(i + 1))
              [] t.k = "raw" -> Then(Ok(Scalar(Resolve(t.path, st, F), "EscapeRaw" \in F)), rest(i + 1))
              [] t.k = "open" ->
                   LET v == Resolve(t.path, st, F) IN
                   Then(IF Falsy(v, F) THEN Ok("")
                        ELSE IF v.t = "arr" THEN Each(ts, m, i + 1, m[i] - 1, st, d, v.v, res, F)
                        ELSE R(ts, m, i + 1, m[i] - 1, Append(st, v), d + 1, res, F),
                        rest(m[i] + 1))
              [] t.k = "inv" ->
                   Then(IF Falsy(Resolve(t.path, st, F), F) THEN R(ts, m, i + 1, m[i] - 1, st, d + 1, res, F) ELSE Ok(""),
                        rest(m[i] + 1))
              [] t.k = "partial" ->
                   Then(IF ~res THEN Fail(<<>>)
                        ELSE IF t.nm \notin DOMAIN Partials THEN Fail(<<t.nm>>)
                        ELSE LET p == Prepare(Indent(Expand(Partials[t.nm]), t.ind, F), F) IN
                             IF p.err THEN Fail(<<t.nm>>)
                             ELSE Called(t.nm, R(p.ts, p.m, 1, Len(p.ts), st, d + 1, res, F)),
                        rest(i + 1))
              [] OTHER -> rest(i + 1)
Each(ts, m, lo, hi, st, d, elems, res, F) ==
    IF elems = <<>> THEN Ok("")
    ELSE Then(R(ts, m, lo, hi, Append(st, Head(elems)), d + 1, res, F), Each(ts, m, lo, hi, st, d, Tail(elems), res, F))

PartialNames(ts) == {ts[i].nm : i \in {i \in 1..Len(ts) : ts[i].k = "partial"}}
Eval(ls, res, F) ==
    LET p == Prepare(Expand(ls), F) IN
    IF p.err THEN Fail(<<>>)
    ELSE IF "PartialEager" \in F /\ \E nm \in PartialNames(p.ts) : ~res \/ nm \notin DOMAIN Partials THEN Fail(<<>>)
    ELSE R(p.ts, p.m, 1, Len(p.ts), <<Data>>, 0, res, F)

\* ---- an independent statement of balance (by reduction: repeatedly delete an adjacent open/close pair of equal name)
\* used as a cross-check of Bal in Mustache.tla
Struct(ts) == SelectSeq(ts, LAMBDA t : t.k \in {"open", "inv", "close"})
RECURSIVE Reduce(_)
Reduce(s) == LET I == {i \in 1..(Len(s) - 1) : s[i].k \in {"open", "inv"} /\ s[i + 1].k = "close" /\ s[i].nm = s[i + 1].nm} IN
             IF I = {} THEN s ELSE LET i == MinOf(I) IN Reduce(SubSeq(s, 1, i - 1) \o SubSeq(s, i + 2, Len(s)))
Balanced(ts) == Reduce(Struct(ts)) = <<>>
=================================================================================
