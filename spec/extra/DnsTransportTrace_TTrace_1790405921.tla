---- MODULE DnsTransportTrace_TTrace_1790405921 ----
EXTENDS Sequences, TLCExt, Toolbox, Naturals, TLC, DnsTransportTrace

_expression ==
    LET DnsTransportTrace_TEExpression == INSTANCE DnsTransportTrace_TEExpression
    IN DnsTransportTrace_TEExpression!expression
----

_trace ==
    LET DnsTransportTrace_TETrace == INSTANCE DnsTransportTrace_TETrace
    IN DnsTransportTrace_TETrace!trace
----

_inv ==
    ~(
        TLCGet("level") = Len(_TETrace)
        /\
        rcv = (<<[udp |-> 1, tcp |-> 0], [udp |-> 0, tcp |-> 0]>>)
        /\
        srvU = (<<0, 0>>)
        /\
        stopc = (FALSE)
        /\
        tsid = ((0 :> 0 @@ 1 :> 0))
        /\
        l = (19)
        /\
        sent = ({[q |-> 1, kind |-> "wrongid", tag |-> 1]})
        /\
        usid = ((0 :> 1 @@ 1 :> 0))
        /\
        mode = ("U")
        /\
        retries = (2)
        /\
        tclass = ("S")
        /\
        late = ({})
        /\
        due = ({})
        /\
        s2s = (<<0, 9>>)
        /\
        nd = (<<1, 0>>)
        /\
        stopr = (FALSE)
        /\
        api = ("async")
        /\
        issued = ({1})
    )
----

_init ==
    /\ stopc = _TETrace[1].stopc
    /\ nd = _TETrace[1].nd
    /\ stopr = _TETrace[1].stopr
    /\ tsid = _TETrace[1].tsid
    /\ mode = _TETrace[1].mode
    /\ l = _TETrace[1].l
    /\ rcv = _TETrace[1].rcv
    /\ issued = _TETrace[1].issued
    /\ retries = _TETrace[1].retries
    /\ tclass = _TETrace[1].tclass
    /\ late = _TETrace[1].late
    /\ due = _TETrace[1].due
    /\ sent = _TETrace[1].sent
    /\ api = _TETrace[1].api
    /\ srvU = _TETrace[1].srvU
    /\ s2s = _TETrace[1].s2s
    /\ usid = _TETrace[1].usid
----

_next ==
    /\ \E i,j \in DOMAIN _TETrace:
        /\ \/ /\ j = i + 1
              /\ i = TLCGet("level")
        /\ stopc  = _TETrace[i].stopc
        /\ stopc' = _TETrace[j].stopc
        /\ nd  = _TETrace[i].nd
        /\ nd' = _TETrace[j].nd
        /\ stopr  = _TETrace[i].stopr
        /\ stopr' = _TETrace[j].stopr
        /\ tsid  = _TETrace[i].tsid
        /\ tsid' = _TETrace[j].tsid
        /\ mode  = _TETrace[i].mode
        /\ mode' = _TETrace[j].mode
        /\ l  = _TETrace[i].l
        /\ l' = _TETrace[j].l
        /\ rcv  = _TETrace[i].rcv
        /\ rcv' = _TETrace[j].rcv
        /\ issued  = _TETrace[i].issued
        /\ issued' = _TETrace[j].issued
        /\ retries  = _TETrace[i].retries
        /\ retries' = _TETrace[j].retries
        /\ tclass  = _TETrace[i].tclass
        /\ tclass' = _TETrace[j].tclass
        /\ late  = _TETrace[i].late
        /\ late' = _TETrace[j].late
        /\ due  = _TETrace[i].due
        /\ due' = _TETrace[j].due
        /\ sent  = _TETrace[i].sent
        /\ sent' = _TETrace[j].sent
        /\ api  = _TETrace[i].api
        /\ api' = _TETrace[j].api
        /\ srvU  = _TETrace[i].srvU
        /\ srvU' = _TETrace[j].srvU
        /\ s2s  = _TETrace[i].s2s
        /\ s2s' = _TETrace[j].s2s
        /\ usid  = _TETrace[i].usid
        /\ usid' = _TETrace[j].usid

\* Uncomment the ASSUME below to write the states of the error trace
\* to the given file in Json format. Note that you can pass any tuple
\* to `JsonSerialize`. For example, a sub-sequence of _TETrace.
    \* ASSUME
    \*     LET J == INSTANCE Json
    \*         IN J!JsonSerialize("DnsTransportTrace_TTrace_1790405921.json", _TETrace)

=============================================================================

 Note that you can extract this module `DnsTransportTrace_TEExpression`
  to a dedicated file to reuse `expression` (the module in the 
  dedicated `DnsTransportTrace_TEExpression.tla` file takes precedence 
  over the module `DnsTransportTrace_TEExpression` below).

---- MODULE DnsTransportTrace_TEExpression ----
EXTENDS Sequences, TLCExt, Toolbox, Naturals, TLC, DnsTransportTrace

expression == 
    [
        \* To hide variables of the `DnsTransportTrace` spec from the error trace,
        \* remove the variables below.  The trace will be written in the order
        \* of the fields of this record.
        stopc |-> stopc
        ,nd |-> nd
        ,stopr |-> stopr
        ,tsid |-> tsid
        ,mode |-> mode
        ,l |-> l
        ,rcv |-> rcv
        ,issued |-> issued
        ,retries |-> retries
        ,tclass |-> tclass
        ,late |-> late
        ,due |-> due
        ,sent |-> sent
        ,api |-> api
        ,srvU |-> srvU
        ,s2s |-> s2s
        ,usid |-> usid
        
        \* Put additional constant-, state-, and action-level expressions here:
        \* ,_stateNumber |-> _TEPosition
        \* ,_stopcUnchanged |-> stopc = stopc'
        
        \* Format the `stopc` variable as Json value.
        \* ,_stopcJson |->
        \*     LET J == INSTANCE Json
        \*     IN J!ToJson(stopc)
        
        \* Lastly, you may build expressions over arbitrary sets of states by
        \* leveraging the _TETrace operator.  For example, this is how to
        \* count the number of times a spec variable changed up to the current
        \* state in the trace.
        \* ,_stopcModCount |->
        \*     LET F[s \in DOMAIN _TETrace] ==
        \*         IF s = 1 THEN 0
        \*         ELSE IF _TETrace[s].stopc # _TETrace[s-1].stopc
        \*             THEN 1 + F[s-1] ELSE F[s-1]
        \*     IN F[_TEPosition - 1]
    ]

=============================================================================



Parsing and semantic processing can take forever if the trace below is long.
 In this case, it is advised to uncomment the module below to deserialize the
 trace from a generated binary file.

\*
\*---- MODULE DnsTransportTrace_TETrace ----
\*EXTENDS IOUtils, TLC, DnsTransportTrace
\*
\*trace == IODeserialize("DnsTransportTrace_TTrace_1790405921.bin", TRUE)
\*
\*=============================================================================
\*

---- MODULE DnsTransportTrace_TETrace ----
EXTENDS TLC, DnsTransportTrace

trace == 
    <<
    ([rcv |-> <<[udp |-> 0, tcp |-> 0], [udp |-> 0, tcp |-> 0]>>,srvU |-> <<0, 0>>,stopc |-> FALSE,tsid |-> (0 :> 0 @@ 1 :> 0),l |-> 1,sent |-> {},usid |-> (0 :> 0 @@ 1 :> 0),mode |-> "-",retries |-> 0,tclass |-> "-",late |-> {},due |-> {},s2s |-> <<9, 9>>,nd |-> <<0, 0>>,stopr |-> FALSE,api |-> "-",issued |-> {}]),
    ([rcv |-> <<[udp |-> 0, tcp |-> 0], [udp |-> 0, tcp |-> 0]>>,srvU |-> <<0, 0>>,stopc |-> FALSE,tsid |-> (0 :> 0 @@ 1 :> 0),l |-> 2,sent |-> {},usid |-> (0 :> 0 @@ 1 :> 0),mode |-> "U",retries |-> 0,tclass |-> "L",late |-> {},due |-> {},s2s |-> <<9, 9>>,nd |-> <<0, 0>>,stopr |-> FALSE,api |-> "async",issued |-> {}]),
    ([rcv |-> <<[udp |-> 0, tcp |-> 0], [udp |-> 0, tcp |-> 0]>>,srvU |-> <<0, 0>>,stopc |-> FALSE,tsid |-> (0 :> 0 @@ 1 :> 0),l |-> 3,sent |-> {},usid |-> (0 :> 0 @@ 1 :> 0),mode |-> "U",retries |-> 0,tclass |-> "L",late |-> {},due |-> {},s2s |-> <<9, 9>>,nd |-> <<0, 0>>,stopr |-> FALSE,api |-> "async",issued |-> {1}]),
    ([rcv |-> <<[udp |-> 0, tcp |-> 0], [udp |-> 0, tcp |-> 0]>>,srvU |-> <<0, 0>>,stopc |-> FALSE,tsid |-> (0 :> 0 @@ 1 :> 0),l |-> 4,sent |-> {},usid |-> (0 :> 0 @@ 1 :> 0),mode |-> "U",retries |-> 0,tclass |-> "L",late |-> {},due |-> {},s2s |-> <<9, 9>>,nd |-> <<0, 0>>,stopr |-> FALSE,api |-> "async",issued |-> {1}]),
    ([rcv |-> <<[udp |-> 1, tcp |-> 0], [udp |-> 0, tcp |-> 0]>>,srvU |-> <<0, 0>>,stopc |-> FALSE,tsid |-> (0 :> 0 @@ 1 :> 0),l |-> 5,sent |-> {},usid |-> (0 :> 1 @@ 1 :> 0),mode |-> "U",retries |-> 0,tclass |-> "L",late |-> {},due |-> {},s2s |-> <<0, 9>>,nd |-> <<0, 0>>,stopr |-> FALSE,api |-> "async",issued |-> {1}]),
    ([rcv |-> <<[udp |-> 1, tcp |-> 0], [udp |-> 0, tcp |-> 0]>>,srvU |-> <<0, 0>>,stopc |-> FALSE,tsid |-> (0 :> 0 @@ 1 :> 0),l |-> 6,sent |-> {[q |-> 1, kind |-> "ans", tag |-> 1]},usid |-> (0 :> 1 @@ 1 :> 0),mode |-> "U",retries |-> 0,tclass |-> "L",late |-> {},due |-> {1},s2s |-> <<0, 9>>,nd |-> <<0, 0>>,stopr |-> FALSE,api |-> "async",issued |-> {1}]),
    ([rcv |-> <<[udp |-> 1, tcp |-> 0], [udp |-> 0, tcp |-> 0]>>,srvU |-> <<0, 0>>,stopc |-> FALSE,tsid |-> (0 :> 0 @@ 1 :> 0),l |-> 7,sent |-> {[q |-> 1, kind |-> "ans", tag |-> 1]},usid |-> (0 :> 1 @@ 1 :> 0),mode |-> "U",retries |-> 0,tclass |-> "L",late |-> {},due |-> {1},s2s |-> <<0, 9>>,nd |-> <<1, 0>>,stopr |-> FALSE,api |-> "async",issued |-> {1}]),
    ([rcv |-> <<[udp |-> 1, tcp |-> 0], [udp |-> 0, tcp |-> 0]>>,srvU |-> <<0, 0>>,stopc |-> FALSE,tsid |-> (0 :> 0 @@ 1 :> 0),l |-> 8,sent |-> {[q |-> 1, kind |-> "ans", tag |-> 1]},usid |-> (0 :> 1 @@ 1 :> 0),mode |-> "U",retries |-> 0,tclass |-> "L",late |-> {},due |-> {1},s2s |-> <<0, 9>>,nd |-> <<1, 0>>,stopr |-> FALSE,api |-> "async",issued |-> {1}]),
    ([rcv |-> <<[udp |-> 1, tcp |-> 0], [udp |-> 0, tcp |-> 0]>>,srvU |-> <<0, 0>>,stopc |-> FALSE,tsid |-> (0 :> 0 @@ 1 :> 0),l |-> 9,sent |-> {[q |-> 1, kind |-> "ans", tag |-> 1]},usid |-> (0 :> 1 @@ 1 :> 0),mode |-> "U",retries |-> 0,tclass |-> "L",late |-> {},due |-> {1},s2s |-> <<0, 9>>,nd |-> <<1, 0>>,stopr |-> FALSE,api |-> "async",issued |-> {1}]),
    ([rcv |-> <<[udp |-> 1, tcp |-> 0], [udp |-> 0, tcp |-> 0]>>,srvU |-> <<0, 0>>,stopc |-> TRUE,tsid |-> (0 :> 0 @@ 1 :> 0),l |-> 10,sent |-> {[q |-> 1, kind |-> "ans", tag |-> 1]},usid |-> (0 :> 1 @@ 1 :> 0),mode |-> "U",retries |-> 0,tclass |-> "L",late |-> {},due |-> {1},s2s |-> <<0, 9>>,nd |-> <<1, 0>>,stopr |-> FALSE,api |-> "async",issued |-> {1}]),
    ([rcv |-> <<[udp |-> 1, tcp |-> 0], [udp |-> 0, tcp |-> 0]>>,srvU |-> <<0, 0>>,stopc |-> TRUE,tsid |-> (0 :> 0 @@ 1 :> 0),l |-> 11,sent |-> {[q |-> 1, kind |-> "ans", tag |-> 1]},usid |-> (0 :> 1 @@ 1 :> 0),mode |-> "U",retries |-> 0,tclass |-> "L",late |-> {},due |-> {1},s2s |-> <<0, 9>>,nd |-> <<1, 0>>,stopr |-> TRUE,api |-> "async",issued |-> {1}]),
    ([rcv |-> <<[udp |-> 1, tcp |-> 0], [udp |-> 0, tcp |-> 0]>>,srvU |-> <<0, 0>>,stopc |-> TRUE,tsid |-> (0 :> 0 @@ 1 :> 0),l |-> 12,sent |-> {[q |-> 1, kind |-> "ans", tag |-> 1]},usid |-> (0 :> 1 @@ 1 :> 0),mode |-> "U",retries |-> 0,tclass |-> "L",late |-> {},due |-> {1},s2s |-> <<0, 9>>,nd |-> <<1, 0>>,stopr |-> TRUE,api |-> "async",issued |-> {1}]),
    ([rcv |-> <<[udp |-> 0, tcp |-> 0], [udp |-> 0, tcp |-> 0]>>,srvU |-> <<0, 0>>,stopc |-> FALSE,tsid |-> (0 :> 0 @@ 1 :> 0),l |-> 13,sent |-> {},usid |-> (0 :> 0 @@ 1 :> 0),mode |-> "-",retries |-> 0,tclass |-> "-",late |-> {},due |-> {},s2s |-> <<9, 9>>,nd |-> <<0, 0>>,stopr |-> FALSE,api |-> "-",issued |-> {}]),
    ([rcv |-> <<[udp |-> 0, tcp |-> 0], [udp |-> 0, tcp |-> 0]>>,srvU |-> <<0, 0>>,stopc |-> FALSE,tsid |-> (0 :> 0 @@ 1 :> 0),l |-> 14,sent |-> {},usid |-> (0 :> 0 @@ 1 :> 0),mode |-> "U",retries |-> 2,tclass |-> "S",late |-> {},due |-> {},s2s |-> <<9, 9>>,nd |-> <<0, 0>>,stopr |-> FALSE,api |-> "async",issued |-> {}]),
    ([rcv |-> <<[udp |-> 0, tcp |-> 0], [udp |-> 0, tcp |-> 0]>>,srvU |-> <<0, 0>>,stopc |-> FALSE,tsid |-> (0 :> 0 @@ 1 :> 0),l |-> 15,sent |-> {},usid |-> (0 :> 0 @@ 1 :> 0),mode |-> "U",retries |-> 2,tclass |-> "S",late |-> {},due |-> {},s2s |-> <<9, 9>>,nd |-> <<0, 0>>,stopr |-> FALSE,api |-> "async",issued |-> {1}]),
    ([rcv |-> <<[udp |-> 0, tcp |-> 0], [udp |-> 0, tcp |-> 0]>>,srvU |-> <<0, 0>>,stopc |-> FALSE,tsid |-> (0 :> 0 @@ 1 :> 0),l |-> 16,sent |-> {},usid |-> (0 :> 0 @@ 1 :> 0),mode |-> "U",retries |-> 2,tclass |-> "S",late |-> {},due |-> {},s2s |-> <<9, 9>>,nd |-> <<0, 0>>,stopr |-> FALSE,api |-> "async",issued |-> {1}]),
    ([rcv |-> <<[udp |-> 1, tcp |-> 0], [udp |-> 0, tcp |-> 0]>>,srvU |-> <<0, 0>>,stopc |-> FALSE,tsid |-> (0 :> 0 @@ 1 :> 0),l |-> 17,sent |-> {},usid |-> (0 :> 1 @@ 1 :> 0),mode |-> "U",retries |-> 2,tclass |-> "S",late |-> {},due |-> {},s2s |-> <<0, 9>>,nd |-> <<0, 0>>,stopr |-> FALSE,api |-> "async",issued |-> {1}]),
    ([rcv |-> <<[udp |-> 1, tcp |-> 0], [udp |-> 0, tcp |-> 0]>>,srvU |-> <<0, 0>>,stopc |-> FALSE,tsid |-> (0 :> 0 @@ 1 :> 0),l |-> 18,sent |-> {[q |-> 1, kind |-> "wrongid", tag |-> 1]},usid |-> (0 :> 1 @@ 1 :> 0),mode |-> "U",retries |-> 2,tclass |-> "S",late |-> {},due |-> {},s2s |-> <<0, 9>>,nd |-> <<0, 0>>,stopr |-> FALSE,api |-> "async",issued |-> {1}]),
    ([rcv |-> <<[udp |-> 1, tcp |-> 0], [udp |-> 0, tcp |-> 0]>>,srvU |-> <<0, 0>>,stopc |-> FALSE,tsid |-> (0 :> 0 @@ 1 :> 0),l |-> 19,sent |-> {[q |-> 1, kind |-> "wrongid", tag |-> 1]},usid |-> (0 :> 1 @@ 1 :> 0),mode |-> "U",retries |-> 2,tclass |-> "S",late |-> {},due |-> {},s2s |-> <<0, 9>>,nd |-> <<1, 0>>,stopr |-> FALSE,api |-> "async",issued |-> {1}])
    >>
----


=============================================================================

---- CONFIG DnsTransportTrace_TTrace_1790405921 ----
CONSTANTS
    AllowWrongQ = TRUE
    AllowDupTrunc = TRUE
    AllowSidCollision = TRUE
    AllowCleanupRace = TRUE

INVARIANT
    _inv

CHECK_DEADLOCK
    \* CHECK_DEADLOCK off because of PROPERTY or INVARIANT above.
    FALSE

INIT
    _init

NEXT
    _next

CONSTANT
    _TETrace <- _trace

ALIAS
    _expression
=============================================================================
\* Generated on Sat Sep 26 06:58:43 UTC 2026