------------------------------ MODULE TomlOps ------------------------------
(* X16 - evaluator of minimal_toml documents in TLA+ (used by Toml.tla = generator / Impl and TomlTrace.tla = oracle). *)
(*                                                                                                                   *)
(* Eval(ls, F): ls = document as a sequence of line-lexeme names (TomlData), F = set of deviation names.               *)
(* F = {} is the Abs semantics: TOML v1.0 restricted to the subset minimal_toml claims (bare keys, [tables],           *)
(* [[arrays of tables]], basic strings with escapes, integers, floats, booleans, arrays, comments):                    *)
(*   parse     key/value lines go to the table of the most recent header ([[r]] opens a NEW element of r);            *)
(*             a key defined twice, a [table] header given twice, a key / header colliding with something of another  *)
(*             kind, a malformed line and an invalid value REJECT the document; a valid document denotes a tree        *)
(*   round trip  parse(serialize(tree)) = tree (same keys, same types, same values, empty tables included) and         *)
(*             serialize is stable on the re-parsed tree                                                               *)
(*   termination  every input is answered (tree or exception)                                                          *)
(* Result: [p1, t1, p2, t2]  p1 in {"ok","rej","hang"}, t1 = the tree as a set of entries <<key, ..., key, value>>      *)
(* (an array-of-tables element is the key "#k", a childless table has the entry <<..., "{}">>), p2 / t2 the same after *)
(* serialize -> parse ("na" when p1 # "ok").                                                                           *)
(* F = KnownDevs is the behaviour of the code as built - each name is a documented observation (X16.meta.json):        *)
(*   EmptyKeyHang          a line that cannot start a key / header / comment is never consumed: parse() loops for ever *)
(*   InsertOverwrites      a repeated key replaces the earlier value (or table) silently                              *)
(*   DupTableMerged        a [table] header given twice is accepted (the two bodies are merged)                        *)
(*   EmptyHeaderIsRoot     "[]" is accepted and switches back to the root table                                        *)
(*   SameLineStatements    several key/value pairs on one line are accepted                                            *)
(*   NumberPrefixAccepted  "1-2", "1.2.3" are accepted as the number their prefix spells                               *)
(*   LiteralStringEscapes  backslash escapes are processed inside 'literal' strings                                    *)
(*   UnknownEscapeKept     "\q" is accepted as "q"                                                                      *)
(*   DottedKeyLiteral      a dotted key a.b = v is stored under the single key "a.b"                                    *)
(*   EmptyArrayBecomesAot  c = [] followed by [[c]] is accepted: the empty value array silently becomes an array of tables *)
(*   EmptyTableDropped     serialize omits tables without values: they are gone after the round trip                   *)
(*   FloatIntegralToInt    1.0 is written as 1 and comes back as an integer                                            *)
(*   FloatPrecision15      doubles are written with 15 significant digits                                              *)
(*   NestedArrayLost       an array inside an array is written as nothing ("[, ]"): the text does not parse again       *)
EXTENDS TomlData, FiniteSets

KnownDevs == {"EmptyKeyHang", "InsertOverwrites", "DupTableMerged", "EmptyHeaderIsRoot", "SameLineStatements", "NumberPrefixAccepted",
              "LiteralStringEscapes", "UnknownEscapeKept", "DottedKeyLiteral", "EmptyArrayBecomesAot", "EmptyTableDropped",
              "FloatIntegralToInt", "FloatPrecision15", "NestedArrayLost"}

RECURSIVE Cat(_)
Cat(ss) == IF ss = <<>> THEN "" ELSE Head(ss) \o Cat(Tail(ss))
\* the document text: lines joined by "\n", final "\n" iff nl
DocText(ls, nl) == Cat([j \in 1..Len(ls) |-> Lx[ls[j]].txt \o (IF j < Len(ls) \/ nl THEN "\n" ELSE "")])

Front(s) == SubSeq(s, 1, Len(s) - 1)
Last(s) == s[Len(s)]
IsPrefix(a, b) == Len(a) <= Len(b) /\ SubSeq(b, 1, Len(a)) = a                 \* a is a prefix of b (or equal)
Prefixes(p) == {SubSeq(p, 1, n) : n \in 1..Len(p)}                             \* non-empty prefixes, p included
Idx(k) == "#" \o ToString(k)

\* ---- the fold: st = [st, cur, ents, tabs, expl, aots]
\*   ents  entries <<key, ..., value>> of the key/value pairs      tabs  every table path (implicit, explicit, AoT elements)
\*   expl  table paths given by a [header]                         aots  array-of-tables paths
S0 == [st |-> "ok", cur |-> <<>>, ents |-> {}, tabs |-> {}, expl |-> {}, aots |-> {}]
Rej(s) == [s EXCEPT !.st = "rej"]
ValuePaths(s) == {Front(e) : e \in s.ents}
Elems(s, a) == {p \in s.tabs : Len(p) = Len(a) + 1 /\ Front(p) = a}            \* elements of the array of tables a
\* a header path may only walk through tables (not through values, not - in this subset - through arrays of tables)
Walkable(s, p) == \A q \in Prefixes(p) : q \notin ValuePaths(s) /\ q \notin s.aots

Put(s, full, v, F) ==
    IF v = "!" THEN Rej(s)
    ELSE IF full \in ValuePaths(s) \/ full \in s.tabs \/ full \in s.aots
    THEN IF "InsertOverwrites" \in F
         THEN [s EXCEPT !.ents = {e \in s.ents : ~IsPrefix(full, Front(e))} \cup {Append(full, v)},
                        !.tabs = {p \in s.tabs : ~IsPrefix(full, p)}, !.expl = {p \in s.expl : ~IsPrefix(full, p)},
                        !.aots = {p \in s.aots : ~IsPrefix(full, p)}]
         ELSE Rej(s)
    ELSE [s EXCEPT !.ents = s.ents \cup {Append(full, v)}]
KvValue(x, F) == IF x.pdev # "" /\ x.pdev \in F THEN x.asb ELSE x.val

RECURSIVE Line(_, _, _)
Line(s, x, F) ==
    CASE x.k = "blank" -> s
      [] x.k = "kv" -> Put(s, Append(s.cur, x.key), KvValue(x, F), F)
      [] x.k = "tab" ->
           IF ~Walkable(s, x.path) \/ (x.path \in s.expl /\ "DupTableMerged" \notin F) THEN Rej(s)
           ELSE [s EXCEPT !.tabs = s.tabs \cup Prefixes(x.path), !.expl = s.expl \cup {x.path}, !.cur = x.path]
      [] x.k = "aot" ->
           LET s1 == IF Append(x.path, "a:[]") \in s.ents /\ "EmptyArrayBecomesAot" \in F
                     THEN [s EXCEPT !.ents = s.ents \ {Append(x.path, "a:[]")}] ELSE s
           IN IF ~Walkable(s1, Front(x.path)) \/ x.path \in ValuePaths(s1) \/ x.path \in s1.tabs THEN Rej(s)
              ELSE LET el == Append(x.path, Idx(Cardinality(Elems(s1, x.path)))) IN
                   [s1 EXCEPT !.tabs = s1.tabs \cup Prefixes(Front(x.path)) \cup {el}, !.aots = s1.aots \cup {x.path}, !.cur = el]
      [] x.k = "multi" ->
           IF "SameLineStatements" \in F THEN Line(Line(s, Lx[x.kvs[1]], F), Lx[x.kvs[2]], F) ELSE Rej(s)
      [] x.k = "emptyhdr" -> IF "EmptyHeaderIsRoot" \in F THEN [s EXCEPT !.cur = <<>>] ELSE Rej(s)
      [] x.k = "dotted" ->
           IF "DottedKeyLiteral" \in F THEN Put(s, Append(s.cur, x.key), x.val, F)
           ELSE LET full == s.cur \o x.path IN
                IF ~Walkable(s, Front(full)) THEN Rej(s)
                ELSE LET mid == {q \in Prefixes(Front(full)) : Len(q) > Len(s.cur)} IN      \* tables defined by the dotted key
                     Put([s EXCEPT !.tabs = s.tabs \cup mid, !.expl = s.expl \cup mid], full, x.val, F)
      [] x.k = "nokey" ->
           IF "EmptyKeyHang" \in F THEN [s EXCEPT !.st = "hang"]
           ELSE IF x.val = "" THEN Rej(s) ELSE Put(s, Append(s.cur, x.key), x.val, F)        \* quoted key: TOML meaning
      [] OTHER -> Rej(s)                                                                     \* bad, open
RECURSIVE Fold(_, _, _)
Fold(s, ls, F) == IF ls = <<>> \/ s.st # "ok" THEN s
                  ELSE LET s2 == Line(s, Lx[Head(ls)], F) IN
                       IF s2.st = "ok" /\ s.st = "ok" THEN Fold(s2, Tail(ls), F) ELSE s2

\* ---- the tree of a final state: the entries plus a marker for every childless table
Tree(s) == s.ents \cup {Append(p, "{}") : p \in {p \in s.tabs : /\ \A e \in s.ents : ~(IsPrefix(p, Front(e)))
                                                                /\ \A q \in s.tabs \cup s.aots : q = p \/ ~IsPrefix(p, q)}}
AllElems(s) == UNION {Elems(s, a) : a \in s.aots}

\* ---- serialize -> parse of a tree, value by value (table of the lossy values from the lexemes)
Lossy == {<<Lx[x].asb, Lx[x].rt, Lx[x].loss>> : x \in {x \in LexNames : Lx[x].loss # ""}}
RtValue(v, F) == IF \E r \in Lossy : r[1] = v /\ r[3] \in F THEN (CHOOSE r \in Lossy : r[1] = v /\ r[3] \in F)[2] ELSE v
RoundTrip(s, F) ==
    LET t1 == Tree(s)
        vals == {[e EXCEPT ![Len(e)] = RtValue(Last(e), F)] : e \in {e \in t1 : Last(e) # "{}"}}
        marks == {e \in t1 : Last(e) = "{}" /\ ("EmptyTableDropped" \notin F \/ Front(e) \in AllElems(s))}
    IN IF \E e \in vals : Last(e) = "!" THEN [p2 |-> "rej", t2 |-> {}] ELSE [p2 |-> "ok", t2 |-> vals \cup marks]

Eval(ls, F) == LET s == Fold(S0, ls, F) IN
               IF s.st # "ok" THEN [p1 |-> s.st, t1 |-> {}, p2 |-> "na", t2 |-> {}]
               ELSE LET r == RoundTrip(s, F) IN [p1 |-> "ok", t1 |-> Tree(s), p2 |-> r.p2, t2 |-> r.t2]

\* documents with a line that is valid TOML outside the supported subset (dotted key, quoted key) may be rejected or
\* read with their TOML meaning; everything else has exactly one allowed result
Unsupported(ls) == \E j \in 1..Len(ls) : Lx[ls[j]].k = "dotted" \/ (Lx[ls[j]].k = "nokey" /\ Lx[ls[j]].val # "")
Rejected == [p1 |-> "rej", t1 |-> {}, p2 |-> "na", t2 |-> {}]
Allowed(ls) == {Eval(ls, {})} \cup (IF Unsupported(ls) THEN {Rejected} ELSE {})
\* the deviations that matter for a document: leaving one out of the as-built semantics changes the result
Matters(ls) == {d \in KnownDevs : Eval(ls, KnownDevs \ {d}) # Eval(ls, KnownDevs)}
=============================================================================
