SPECIFICATION Spec
INVARIANT TraceChk
INVARIANT AtMostN
POSTCONDITION TracePost
CHECK_DEADLOCK FALSE
