---- MODULE MCObjectPool_TTrace_1790401915 ----
EXTENDS MCObjectPool, Sequences, TLCExt, Toolbox, Naturals, TLC

_expression ==
    LET MCObjectPool_TEExpression == INSTANCE MCObjectPool_TEExpression
    IN MCObjectPool_TEExpression!expression
----

_trace ==
    LET MCObjectPool_TETrace == INSTANCE MCObjectPool_TETrace
    IN MCObjectPool_TETrace!trace
----

_inv ==
    ~(
        TLCGet("level") = Len(_TETrace)
        /\
        dirty = ({1})
        /\
        st = ([created |-> 1, acquired |-> 2, released |-> 1, destroyed |-> 0])
        /\
        avail = (<<>>)
        /\
        pc = ([a |-> <<"reset", 1, 1>>, b |-> <<"idle">>])
        /\
        last = ([t |-> "b", h |-> 1, act |-> "AcquireCS", o |-> 1, fresh |-> FALSE, wasDirty |-> TRUE, wasFree |-> 1])
        /\
        max = (100)
        /\
        nops = (3)
        /\
        dead = ({})
        /\
        nobj = (1)
        /\
        slot = ([a |-> <<0, 0>>, b |-> <<1, 0>>])
    )
----

_init ==
    /\ nops = _TETrace[1].nops
    /\ dirty = _TETrace[1].dirty
    /\ pc = _TETrace[1].pc
    /\ slot = _TETrace[1].slot
    /\ last = _TETrace[1].last
    /\ st = _TETrace[1].st
    /\ max = _TETrace[1].max
    /\ dead = _TETrace[1].dead
    /\ nobj = _TETrace[1].nobj
    /\ avail = _TETrace[1].avail
----

_next ==
    /\ \E i,j \in DOMAIN _TETrace:
        /\ \/ /\ j = i + 1
              /\ i = TLCGet("level")
        /\ nops  = _TETrace[i].nops
        /\ nops' = _TETrace[j].nops
        /\ dirty  = _TETrace[i].dirty
        /\ dirty' = _TETrace[j].dirty
        /\ pc  = _TETrace[i].pc
        /\ pc' = _TETrace[j].pc
        /\ slot  = _TETrace[i].slot
        /\ slot' = _TETrace[j].slot
        /\ last  = _TETrace[i].last
        /\ last' = _TETrace[j].last
        /\ st  = _TETrace[i].st
        /\ st' = _TETrace[j].st
        /\ max  = _TETrace[i].max
        /\ max' = _TETrace[j].max
        /\ dead  = _TETrace[i].dead
        /\ dead' = _TETrace[j].dead
        /\ nobj  = _TETrace[i].nobj
        /\ nobj' = _TETrace[j].nobj
        /\ avail  = _TETrace[i].avail
        /\ avail' = _TETrace[j].avail

\* Uncomment the ASSUME below to write the states of the error trace
\* to the given file in Json format. Note that you can pass any tuple
\* to `JsonSerialize`. For example, a sub-sequence of _TETrace.
    \* ASSUME
    \*     LET J == INSTANCE Json
    \*         IN J!JsonSerialize("MCObjectPool_TTrace_1790401915.json", _TETrace)

=============================================================================

 Note that you can extract this module `MCObjectPool_TEExpression`
  to a dedicated file to reuse `expression` (the module in the 
  dedicated `MCObjectPool_TEExpression.tla` file takes precedence 
  over the module `MCObjectPool_TEExpression` below).

---- MODULE MCObjectPool_TEExpression ----
EXTENDS MCObjectPool, Sequences, TLCExt, Toolbox, Naturals, TLC

expression == 
    [
        \* To hide variables of the `MCObjectPool` spec from the error trace,
        \* remove the variables below.  The trace will be written in the order
        \* of the fields of this record.
        nops |-> nops
        ,dirty |-> dirty
        ,pc |-> pc
        ,slot |-> slot
        ,last |-> last
        ,st |-> st
        ,max |-> max
        ,dead |-> dead
        ,nobj |-> nobj
        ,avail |-> avail
        
        \* Put additional constant-, state-, and action-level expressions here:
        \* ,_stateNumber |-> _TEPosition
        \* ,_nopsUnchanged |-> nops = nops'
        
        \* Format the `nops` variable as Json value.
        \* ,_nopsJson |->
        \*     LET J == INSTANCE Json
        \*     IN J!ToJson(nops)
        
        \* Lastly, you may build expressions over arbitrary sets of states by
        \* leveraging the _TETrace operator.  For example, this is how to
        \* count the number of times a spec variable changed up to the current
        \* state in the trace.
        \* ,_nopsModCount |->
        \*     LET F[s \in DOMAIN _TETrace] ==
        \*         IF s = 1 THEN 0
        \*         ELSE IF _TETrace[s].nops # _TETrace[s-1].nops
        \*             THEN 1 + F[s-1] ELSE F[s-1]
        \*     IN F[_TEPosition - 1]
    ]

=============================================================================



Parsing and semantic processing can take forever if the trace below is long.
 In this case, it is advised to uncomment the module below to deserialize the
 trace from a generated binary file.

\*
\*---- MODULE MCObjectPool_TETrace ----
\*EXTENDS MCObjectPool, IOUtils, TLC
\*
\*trace == IODeserialize("MCObjectPool_TTrace_1790401915.bin", TRUE)
\*
\*=============================================================================
\*

---- MODULE MCObjectPool_TETrace ----
EXTENDS MCObjectPool, TLC

trace == 
    <<
    ([dirty |-> {},st |-> [created |-> 1, acquired |-> 0, released |-> 0, destroyed |-> 0],avail |-> <<1>>,pc |-> [a |-> <<"idle">>, b |-> <<"idle">>],last |-> [t |-> "-", h |-> 0, act |-> "Init", o |-> 0, fresh |-> FALSE, wasDirty |-> FALSE, wasFree |-> 0],max |-> 100,nops |-> 0,dead |-> {},nobj |-> 1,slot |-> [a |-> <<0, 0>>, b |-> <<0, 0>>]]),
    ([dirty |-> {1},st |-> [created |-> 1, acquired |-> 1, released |-> 0, destroyed |-> 0],avail |-> <<>>,pc |-> [a |-> <<"idle">>, b |-> <<"idle">>],last |-> [t |-> "a", h |-> 1, act |-> "AcquireCS", o |-> 1, fresh |-> FALSE, wasDirty |-> FALSE, wasFree |-> 1],max |-> 100,nops |-> 1,dead |-> {},nobj |-> 1,slot |-> [a |-> <<1, 0>>, b |-> <<0, 0>>]]),
    ([dirty |-> {1},st |-> [created |-> 1, acquired |-> 1, released |-> 1, destroyed |-> 0],avail |-> <<1>>,pc |-> [a |-> <<"reset", 1, 1>>, b |-> <<"idle">>],last |-> [t |-> "a", h |-> 1, act |-> "ReleaseCS", o |-> 1, fresh |-> FALSE, wasDirty |-> FALSE, wasFree |-> 0],max |-> 100,nops |-> 2,dead |-> {},nobj |-> 1,slot |-> [a |-> <<0, 0>>, b |-> <<0, 0>>]]),
    ([dirty |-> {1},st |-> [created |-> 1, acquired |-> 2, released |-> 1, destroyed |-> 0],avail |-> <<>>,pc |-> [a |-> <<"reset", 1, 1>>, b |-> <<"idle">>],last |-> [t |-> "b", h |-> 1, act |-> "AcquireCS", o |-> 1, fresh |-> FALSE, wasDirty |-> TRUE, wasFree |-> 1],max |-> 100,nops |-> 3,dead |-> {},nobj |-> 1,slot |-> [a |-> <<0, 0>>, b |-> <<1, 0>>]])
    >>
----


=============================================================================

---- CONFIG MCObjectPool_TTrace_1790401915 ----
CONSTANTS
    Procs = { "a" , "b" }
    Handles = { 1 , 2 }
    Initial = 1
    DefaultMax = 100
    Maxes = { 0 , 1 }
    MaxObjs = 3
    MaxOps = 6
    HasResetter = TRUE
    Dev_NoPop = FALSE
    Dev_CapOffByOne = FALSE
    Dev_NoTrim = FALSE
    Dev_ResetAfterPush = TRUE
    Dev_CreateWhenFree = FALSE
    Obs_ClearNotCounted = TRUE

INVARIANT
    _inv

CHECK_DEADLOCK
    \* CHECK_DEADLOCK off because of PROPERTY or INVARIANT above.
    FALSE

INIT
    _init

NEXT
    _next

CONSTANT
    _TETrace <- _trace

ALIAS
    _expression
=============================================================================
\* Generated on Sat Sep 26 05:51:57 UTC 2026