------------------------------ MODULE SlidingWindow ------------------------------
(* Beyond the listed properties: iora::core::SlidingWindowCounter (core/rate_limiter.hpp).  tryAcquire evicts the        *)
(* timestamps that are at least Window old, refuses when Max remain, else records `now`.  Property: in every window of   *)
(* length Window at most Max acquisitions succeed, and a refusal happens only when Max acquisitions are still inside.     *)
EXTENDS Naturals, Sequences, FiniteSets, TLC
CONSTANTS Max, Window, MaxTime, MaxOps
VARIABLES ts, now, succ, ops, lastRet
vars == <<ts, now, succ, ops, lastRet>>
Init == ts = <<>> /\ now = 0 /\ succ = <<>> /\ ops = 0 /\ lastRet = "-"
Evict(s) == SelectSeq(s, LAMBDA t : now - t < Window)
Acquire == /\ ops < MaxOps /\ ops' = ops + 1
           /\ LET e == Evict(ts) IN
              IF Len(e) >= Max THEN ts' = e /\ lastRet' = "false" /\ UNCHANGED succ
              ELSE ts' = Append(e, now) /\ succ' = Append(succ, now) /\ lastRet' = "true"
           /\ UNCHANGED now
Tick == now < MaxTime /\ now' = now + 1 /\ lastRet' = "-" /\ UNCHANGED <<ts, succ, ops>>
Next == Acquire \/ Tick
Spec == Init /\ [][Next]_vars
InWindow(t) == Cardinality({i \in 1..Len(succ) : succ[i] <= t /\ t - succ[i] < Window})
AtMostMax == \A t \in 0..now : InWindow(t) <= Max
RefusedOnlyWhenFull == lastRet = "false" => InWindow(now) >= Max
==================================================================================
