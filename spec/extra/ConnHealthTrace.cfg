\* the code as it is: updateConfig leaves the state as last evaluated (Dev_StaleState)
CONSTANTS Ids = {1, 2} Cfgs <- MCCfgs3 MaxOps = 1000000 MaxTime = 1000000 KeepHist = TRUE
  Dev_SuccessResets = FALSE Dev_ThresholdStrict = FALSE Dev_FailureTouchesActivity = FALSE Dev_CriticalGe = FALSE Dev_AddKeepsOld = FALSE Dev_UnknownCreates = FALSE Dev_ActivityKeepsFailures = FALSE Dev_StaleState = TRUE
SPECIFICATION TSpec
INVARIANT TraceChk
INVARIANT TypeOK
INVARIANT MonitoredIffHist
INVARIANT CountRef
INVARIANT StateSinceEval
INVARIANT HealthyIff
INVARIANT UnhealthyListRef
INVARIANT UnhealthyOnlyBeyondMax
INVARIANT LastActivityRef
INVARIANT HeartbeatRef
INVARIANT TotalsRef
INVARIANT ConfigUniform
INVARIANT CountsAddUp
PROPERTY TRecovery
PROPERTY TIsolation
POSTCONDITION TracePost
CHECK_DEADLOCK FALSE
