------------------------------ MODULE WindowTrace ------------------------------
(* Abs oracle for SlidingWindowCounter under concurrent callers and virtual time (whole seconds): a success at time t    *)
(* needs fewer than Max earlier successes younger than Window at t; a refusal needs Max successes younger than Window at   *)
(* the time the call began or ended (time may move during the call).                                                       *)
EXTENDS TraceBase, FiniteSets, Integers
VARIABLES mx, win, succ
vars == <<l, mx, win, succ>>
Init == l = 1 /\ mx = 0 /\ win = 0 /\ succ = <<>>
EvBegin == IsEv("Begin") /\ mx' = Ev.max /\ win' = Ev.window /\ succ' = <<>>
EvReset == IsEv("Reset") /\ mx' = 0 /\ win' = 0 /\ succ' = <<>>
Young(t) == Cardinality({i \in 1..Len(succ) : t - succ[i] < win})
EvAcq == /\ IsEv("Acquire")
         /\ IF Ev.ok THEN (Young(Ev.t1) < mx \/ Young(Ev.t0) < mx) /\ succ' = Append(succ, Ev.t0)
                     ELSE (Young(Ev.t0) >= mx \/ Young(Ev.t1) >= mx) /\ UNCHANGED succ
         /\ UNCHANGED <<mx, win>>
EvEnd == IsEv("End") /\ UNCHANGED <<mx, win, succ>>
Next == EvBegin \/ EvReset \/ EvAcq \/ EvEnd
Spec == Init /\ [][Next]_vars
\* in every window of the configured length at most max acquisitions succeeded (successes stamped with their earliest time)
AtMost == \A i \in 1..Len(succ) : Cardinality({j \in 1..Len(succ) : succ[j] >= succ[i] /\ succ[j] - succ[i] < win /\ j >= i}) <= mx + 0
================================================================================
