------------------------------ MODULE IpOps ------------------------------
(* X24 - reference (Abs) definitions for iora::network ip_utils.hpp.  Texts are sequences of character codes,       *)
(* an IPv4 value is a 4-tuple of octets, an IPv6 value an 8-tuple of 16-bit groups or a 16-tuple of bytes.          *)
(* Everything here is DECLARATIVE (fields of the text, bits of the address), not shaped like the code.              *)
EXTENDS Integers, Sequences, FiniteSets

Dot == 46
Colon == 58
Slash == 47
IsDigit(c) == c >= 48 /\ c <= 57
IsHex(c) == IsDigit(c) \/ (c >= 97 /\ c <= 102) \/ (c >= 65 /\ c <= 70)
HexDigit(c) == IF IsDigit(c) THEN c - 48 ELSE IF c >= 97 THEN c - 87 ELSE c - 55
Min(a, b) == IF a < b THEN a ELSE b
Has(s, c) == \E k \in 1..Len(s) : s[k] = c
AllDigits(f) == \A k \in 1..Len(f) : IsDigit(f[k])
Zeros(n) == [k \in 1..n |-> 0]

RECURSIVE SplitR(_, _, _, _)
SplitR(s, sep, i, cur) == IF i > Len(s) THEN <<cur>>
                          ELSE IF s[i] = sep THEN <<cur>> \o SplitR(s, sep, i + 1, <<>>)
                          ELSE SplitR(s, sep, i + 1, Append(cur, s[i]))
Split(s, sep) == SplitR(s, sep, 1, <<>>)          \* the fields of s; n separators give n + 1 fields

RECURSIVE NumVal(_, _)                             \* value of a digit string in base b
NumVal(f, b) == IF f = <<>> THEN 0 ELSE (NumVal(SubSeq(f, 1, Len(f) - 1), b) * b) + HexDigit(f[Len(f)])

RECURSIVE DecText(_)
DecText(n) == IF n < 10 THEN <<48 + n>> ELSE Append(DecText(n \div 10), 48 + (n % 10))
HexCh(d) == IF d < 10 THEN 48 + d ELSE 87 + d
RECURSIVE HexText(_)
HexText(n) == IF n < 16 THEN <<HexCh(n)>> ELSE Append(HexText(n \div 16), HexCh(n % 16))

\* ---------------------------------------------------------------- IPv4 text (dotted quad, no leading zeros)
OctetOk(f) == /\ Len(f) \in 1..3 /\ AllDigits(f)
              /\ (Len(f) > 1 => f[1] # 48)
              /\ NumVal(f, 10) <= 255
Rej4 == [ok |-> FALSE, v |-> <<>>]
Ref4(s) == LET f == Split(s, Dot) IN
           IF Len(f) = 4 /\ \A k \in 1..4 : OctetOk(f[k])
           THEN [ok |-> TRUE, v |-> <<NumVal(f[1], 10), NumVal(f[2], 10), NumVal(f[3], 10), NumVal(f[4], 10)>>]
           ELSE Rej4
Fmt4(v) == DecText(v[1]) \o <<Dot>> \o DecText(v[2]) \o <<Dot>> \o DecText(v[3]) \o <<Dot>> \o DecText(v[4])

\* ---------------------------------------------------------------- bits and containment
Bit(bytes, i) == (bytes[(i \div 8) + 1] \div (2 ^ (7 - (i % 8)))) % 2      \* bit 0 = most significant bit of byte 1
RefIn(ip, net, p) == \A i \in 0..(p - 1) : Bit(ip, i) = Bit(net, i)         \* p <= 8 * Len(ip)
Bytes(g) == [k \in 1..16 |-> IF k % 2 = 1 THEN g[(k + 1) \div 2] \div 256 ELSE g[k \div 2] % 256]
Groups(b) == [k \in 1..8 |-> (b[(2 * k) - 1] * 256) + b[2 * k]]
Flip(bytes, j) == IF j < 0 THEN bytes
                  ELSE [k \in 1..Len(bytes) |-> IF k = (j \div 8) + 1
                                                THEN LET w == 2 ^ (7 - (j % 8)) IN
                                                     IF (bytes[k] \div w) % 2 = 1 THEN bytes[k] - w ELSE bytes[k] + w
                                                ELSE bytes[k]]

\* classification = containment in the IANA block
Net10 == <<10, 0, 0, 0>>
Net172 == <<172, 16, 0, 0>>
Net192 == <<192, 168, 0, 0>>
Net127 == <<127, 0, 0, 0>>
RefPrivate(v) == RefIn(v, Net10, 8) \/ RefIn(v, Net172, 12) \/ RefIn(v, Net192, 16)
RefLoop4(v) == RefIn(v, Net127, 8)
B6Loop == [k \in 1..16 |-> IF k = 16 THEN 1 ELSE 0]
B6LinkLocal == [k \in 1..16 |-> IF k = 1 THEN 254 ELSE IF k = 2 THEN 128 ELSE 0]
B6Ula == [k \in 1..16 |-> IF k = 1 THEN 252 ELSE 0]
B6Mapped == [k \in 1..16 |-> IF k \in {11, 12} THEN 255 ELSE 0]
RefLoop6(b) == RefIn(b, B6Loop, 128)
RefLinkLocal(b) == RefIn(b, B6LinkLocal, 10)
RefUla(b) == RefIn(b, B6Ula, 7)
RefMapped(b) == RefIn(b, B6Mapped, 96)

\* ---------------------------------------------------------------- IPv6 text (RFC 4291 section 2.2 forms 1 and 2; form 3
\* only as the IPv4-mapped text "::ffff:d.d.d.d" that the header documents)
GroupOk(f) == Len(f) \in 1..4 /\ \A k \in 1..Len(f) : IsHex(f[k])
Rej6 == [ok |-> FALSE, g |-> <<>>]
IsF(c) == c = 102 \/ c = 70
MappedPrefix(s) == Len(s) > 7 /\ s[1] = Colon /\ s[2] = Colon /\ IsF(s[3]) /\ IsF(s[4]) /\ IsF(s[5]) /\ IsF(s[6]) /\ s[7] = Colon
Ref6Hex(s) ==
  LET f == Split(s, Colon)
      n == Len(f)
      E == {k \in 1..n : f[k] = <<>>}
      ok == \A k \in (1..n) \ E : GroupOk(f[k])
      V(a, b) == [k \in 1..(b - a + 1) |-> NumVal(f[a + k - 1], 16)]       \* values of the fields a..b
  IN  IF ~ok THEN Rej6
      ELSE IF E = {} THEN (IF n = 8 THEN [ok |-> TRUE, g |-> V(1, 8)] ELSE Rej6)
      ELSE IF n = 3 /\ E = {1, 2, 3} THEN [ok |-> TRUE, g |-> Zeros(8)]                                  \* "::"
      ELSE IF n >= 3 /\ E = {1, 2} THEN (IF n - 2 <= 7 THEN [ok |-> TRUE, g |-> Zeros(8 - (n - 2)) \o V(3, n)] ELSE Rej6)
      ELSE IF n >= 3 /\ E = {n - 1, n} THEN (IF n - 2 <= 7 THEN [ok |-> TRUE, g |-> V(1, n - 2) \o Zeros(8 - (n - 2))] ELSE Rej6)
      ELSE IF Cardinality(E) = 1 /\ E \cap {1, n} = {}
           THEN LET i == CHOOSE k \in E : TRUE IN
                IF n - 1 <= 7 THEN [ok |-> TRUE, g |-> V(1, i - 1) \o Zeros(8 - (n - 1)) \o V(i + 1, n)] ELSE Rej6
      ELSE Rej6
Ref6(s) == IF MappedPrefix(s) /\ Ref4(SubSeq(s, 8, Len(s))).ok
           THEN LET v == Ref4(SubSeq(s, 8, Len(s))).v IN
                [ok |-> TRUE, g |-> <<0, 0, 0, 0, 0, 65535, (v[1] * 256) + v[2], (v[3] * 256) + v[4]>>]
           ELSE Ref6Hex(s)

\* the text with its STRAY colons removed: a single ':' at the very beginning or end, and the third of exactly three
\* (named deviation LenientColon: the code accepts such a text as if the stray colon were not there)
RECURSIVE RunLen(_, _)
RunLen(s, i) == IF i <= Len(s) /\ s[i] = Colon THEN 1 + RunLen(s, i + 1) ELSE 0
RECURSIVE NormR(_, _)
NormR(s, i) == IF i > Len(s) THEN <<>>
               ELSE IF s[i] # Colon THEN <<s[i]>> \o NormR(s, i + 1)
               ELSE LET r == RunLen(s, i) IN
                    (IF r = 3 THEN <<Colon, Colon>>
                     ELSE IF r = 1 /\ (i = 1 \/ i = Len(s)) THEN <<>>
                     ELSE [k \in 1..r |-> Colon]) \o NormR(s, i + r)
Norm(s) == NormR(s, 1)
Len6(s) == IF Ref6(s).ok THEN Ref6(s) ELSE Ref6(Norm(s))          \* what the lenient reading accepts

\* ---------------------------------------------------------------- RFC 5952 text of an IPv6 value
RECURSIVE Join(_, _, _)
Join(g, a, b) == IF a > b THEN <<>> ELSE IF a = b THEN HexText(g[a]) ELSE HexText(g[a]) \o <<Colon>> \o Join(g, a + 1, b)
ZeroRuns(g) == {r \in (1..8) \X (2..8) : r[1] + r[2] - 1 <= 8 /\ \A k \in r[1]..(r[1] + r[2] - 1) : g[k] = 0}
Ref5952(g) == IF ZeroRuns(g) = {} THEN Join(g, 1, 8)
              ELSE LET r == CHOOSE r \in ZeroRuns(g) : \A q \in ZeroRuns(g) : q[2] < r[2] \/ (q[2] = r[2] /\ q[1] >= r[1])
                   IN  Join(g, 1, r[1] - 1) \o <<Colon, Colon>> \o Join(g, r[1] + r[2], 8)       \* longest run, leftmost on a tie

\* ---------------------------------------------------------------- CIDR text  addr [ "/" decimal ]
FirstAt(s, c) == IF Has(s, c) THEN CHOOSE k \in 1..Len(s) : s[k] = c /\ \A q \in 1..(k - 1) : s[q] # c ELSE 0
AddrPart(s) == IF FirstAt(s, Slash) = 0 THEN s ELSE SubSeq(s, 1, FirstAt(s, Slash) - 1)
PfxPart(s) == IF FirstAt(s, Slash) = 0 THEN <<>> ELSE SubSeq(s, FirstAt(s, Slash) + 1, Len(s))
Big == 1000000000
StrictNum(t) == IF Len(t) >= 1 /\ AllDigits(t) THEN [ok |-> TRUE, v |-> IF Len(t) <= 9 THEN NumVal(t, 10) ELSE Big]
                ELSE [ok |-> FALSE, v |-> 0]
\* strtoul-like reading (named deviation LenientPrefix): white space, a sign, then the longest digit run; the rest is ignored
IsWs(c) == c = 32 \/ (c >= 9 /\ c <= 13)
RECURSIVE SkipWs(_, _)
SkipWs(t, i) == IF i <= Len(t) /\ IsWs(t[i]) THEN SkipWs(t, i + 1) ELSE i
RECURSIVE DigitsEnd(_, _)
DigitsEnd(t, i) == IF i <= Len(t) /\ IsDigit(t[i]) THEN DigitsEnd(t, i + 1) ELSE i
StoulNum(t) == LET a == SkipWs(t, 1)
                   neg == a <= Len(t) /\ t[a] = 45
                   b == IF a <= Len(t) /\ (t[a] = 45 \/ t[a] = 43) THEN a + 1 ELSE a
                   e == DigitsEnd(t, b)
                   raw == IF e - b <= 9 THEN NumVal(SubSeq(t, b, e - 1), 10) ELSE Big
               IN  IF e = b THEN [ok |-> FALSE, v |-> 0]
                   ELSE [ok |-> TRUE, v |-> IF neg /\ raw # 0 THEN Big ELSE raw]         \* -n wraps to a huge unsigned value
RejC == [ok |-> FALSE, fam |-> 0, p |-> 0, addr |-> <<>>, bytes |-> <<>>]
\* num: how the prefix text is read, a6: how an IPv6 address text is read
CidrWith(s, num(_), a6(_)) ==
  LET addr == AddrPart(s)
      slash == FirstAt(s, Slash) # 0
      fam == IF Has(addr, Colon) THEN 6 ELSE 4
      W == IF fam = 6 THEN 128 ELSE 32
      pn == num(PfxPart(s))
  IN  IF slash /\ (~pn.ok \/ pn.v > W) THEN RejC
      ELSE IF fam = 6 THEN (IF a6(addr).ok THEN [ok |-> TRUE, fam |-> 6, p |-> IF slash THEN pn.v ELSE W, addr |-> addr,
                                                 bytes |-> Bytes(a6(addr).g)] ELSE RejC)
      ELSE (IF Ref4(addr).ok THEN [ok |-> TRUE, fam |-> 4, p |-> IF slash THEN pn.v ELSE W, addr |-> addr, bytes |-> Ref4(addr).v]
            ELSE RejC)
RefCidr(s) == CidrWith(s, StrictNum, Ref6)
LenCidr(s) == CidrWith(s, StoulNum, Len6)
CidrText(c) == IF c.p = (IF c.fam = 6 THEN 128 ELSE 32) THEN c.addr ELSE c.addr \o <<Slash>> \o DecText(c.p)
\* membership of the address text ip in the parsed network c (c.ok), with the reading a6 of IPv6 texts
HasWith(c, ip, a6(_)) == IF Has(ip, Colon)
                         THEN c.fam = 6 /\ a6(ip).ok /\ RefIn(Bytes(a6(ip).g), c.bytes, c.p)
                         ELSE c.fam = 4 /\ Ref4(ip).ok /\ RefIn(Ref4(ip).v, c.bytes, c.p)

\* ---------------------------------------------------------------- TrustedNetworkList (sequential): nets = the CIDR texts added
Comma == 44
TrustAccepted(nets) == {k \in 1..Len(nets) : RefCidr(nets[k]).ok}
TrustSize(nets) == Cardinality({<<RefCidr(nets[k]).addr, RefCidr(nets[k]).p>> : k \in TrustAccepted(nets)})   \* at most one entry per (text, prefix)
TrustHas(nets, ip) == \E k \in TrustAccepted(nets) : HasWith(RefCidr(nets[k]), ip, Ref6)
IsHost6(c) == c.fam = 6 /\ c.p = 128
=============================================================================
