CONSTANTS FailureThreshold = 2 Timeout = 2 SuccessThreshold = 2 MinRequests = 4 MaxTime = 1000000 MaxRequests = 1000000
SPECIFICATION TSpec
INVARIANT TraceChk
INVARIANT OpenRefuses
INVARIANT RefusesOnlyWhenOpen
POSTCONDITION TracePost
CHECK_DEADLOCK FALSE
