---- MODULE MCChannel ----
(* default exhaustive configuration of Channel.tla (checks/X12.py generates further programs under build/work) *)
EXTENDS Channel
O(o, s, m) == [op |-> o, s |-> s, m |-> m]
MCProg == ("a" :> <<O("sub", 1, 0), O("pub", 0, 1), O("pub", 0, 2)>>
        @@ "b" :> <<O("sub", 2, 0), O("onclose", 1, 0), O("close", 1, 0), O("count", 0, 0)>>
        @@ "c" :> <<O("mark", 1, 0), O("pub", 0, 3), O("rm", 0, 0)>>)
====
