\* test plan 1: plain state graph (no history), one id, three configurations - dumped and replayed on the real objects
CONSTANTS Ids = {1} Cfgs <- MCCfgs3 MaxOps = 7 MaxTime = 4 KeepHist = FALSE Dev_StaleState = TRUE
  Dev_SuccessResets = FALSE Dev_ThresholdStrict = FALSE Dev_FailureTouchesActivity = FALSE Dev_CriticalGe = FALSE Dev_AddKeepsOld = FALSE Dev_UnknownCreates = FALSE Dev_ActivityKeepsFailures = FALSE
SPECIFICATION Spec
INVARIANT TypeOK
INVARIANT HealthyIffCount
INVARIANT CountZeroIsHealthy
INVARIANT ConfigUniform
INVARIANT CountsAddUp
CHECK_DEADLOCK FALSE
