------------------------------ MODULE SseFrame ------------------------------
(* Extra X12, framing half: generator + Impl specification of SseStream::formatEvent / formatComment / formatRetry           *)
(* (network/sse_stream.hpp).  Init enumerates EVERY payload over DataAlphabet up to MaxData bytes (letters, space, colon,   *)
(* CR, LF - the bytes that matter to an SSE parser) x every event name in Names / every comment text / a few retry values;  *)
(* the actions walk the payload like appendDataLines does (one decision per byte: plain byte, line break, the tail) and      *)
(* build the wire bytes.  A terminal state is one conformance case; Emit prints it with the bytes the Impl model predicts.   *)
(* Properties (what a user relies on), checked against the client-side reference SseWire.tla:                                *)
(*   Refines   an EventSource client that reads the produced bytes dispatches EXACTLY ONE event, whose type is the name      *)
(*             (CR/LF removed; "message" when empty) and whose data is the payload with every CRLF / CR / LF turned into      *)
(*             LF (a final break only terminates the last line); a leading space of a line survives; no other field          *)
(*             (id, retry, a second event, a forged data line) can be injected through the name, the payload or a comment;   *)
(*             a comment dispatches nothing; the bytes end at an event boundary, so the next event is parsed on its own.     *)
(* `id:` lines: the code never emits them (no replay support in v1) - nothing to check beyond "never injected".              *)
(* Dev_* = realistic slips, each must make TLC report a violation of Refines (self-test).                                   *)
EXTENDS SseWire, TLC, Json
CONSTANTS DataAlphabet, MaxData, Names, Retries,
          Dev_NoCrSplit,          \* a lone CR is not treated as a line break
          Dev_CrLfTwoBreaks,      \* CRLF counts as two line breaks
          Dev_NameNotStripped,    \* CR/LF of the event name are copied to the wire
          Dev_NoSeparatorSpace,   \* "data:" without the separator space
          Dev_EmptyNoLine         \* an empty payload yields no data line

VARIABLES kind, name, data, i, lineStart, emitted, out, pc
vars == <<kind, name, data, i, lineStart, emitted, out, pc>>

RECURSIVE SeqsUpTo(_, _)
SeqsUpTo(S, k) == IF k = 0 THEN {<<>>} ELSE LET r == SeqsUpTo(S, k - 1) IN r \cup {Append(s, c) : s \in {x \in r : Len(x) = k - 1}, c \in S}
Payloads == SeqsUpTo(DataAlphabet, MaxData)
DataPrefix == IF Dev_NoSeparatorSpace THEN <<100, 97, 116, 97, 58>> ELSE <<100, 97, 116, 97, 58, 32>>
EventPrefix == <<101, 118, 101, 110, 116, 58, 32>>
RetryPrefix == <<114, 101, 116, 114, 121, 58, 32>>

Init == /\ \/ kind = "event" /\ name \in Names /\ data \in Payloads
           \/ kind = "comment" /\ name = <<>> /\ data \in {p \in Payloads : Len(p) < MaxData}
           \/ kind = "retry" /\ name = <<>> /\ data \in Retries         \* data = the decimal digits of the value
        /\ i = 1 /\ lineStart = 1 /\ emitted = FALSE /\ out = <<>> /\ pc = "head"

IsBreak(c) == c = LF \/ (c = CR /\ ~Dev_NoCrSplit)
\* the head: 'event: <name>\n' / the whole comment / the whole retry field
HeadStep == /\ pc = "head"
        /\ (CASE kind = "event" -> /\ out' = IF name = <<>> THEN <<>>
                                             ELSE EventPrefix \o (IF Dev_NameNotStripped THEN name ELSE Strip(name)) \o <<LF>>
                                   /\ pc' = "scan"
              [] kind = "comment" -> (out' = <<COLON, SP>> \o Strip(data) \o <<LF, LF>> /\ pc' = "done")
              [] kind = "retry" -> (out' = RetryPrefix \o data \o <<LF, LF>> /\ pc' = "done"))
        /\ UNCHANGED <<kind, name, data, i, lineStart, emitted>>
Plain == /\ pc = "scan" /\ i <= Len(data) /\ ~IsBreak(data[i])
         /\ i' = i + 1 /\ UNCHANGED <<kind, name, data, lineStart, emitted, out, pc>>
Break == /\ pc = "scan" /\ i <= Len(data) /\ IsBreak(data[i])
         /\ out' = out \o DataPrefix \o SubSeq(data, lineStart, i - 1) \o <<LF>>
         /\ emitted' = TRUE
         /\ i' = IF data[i] = CR /\ i + 1 <= Len(data) /\ data[i + 1] = LF /\ ~Dev_CrLfTwoBreaks THEN i + 2 ELSE i + 1
         /\ lineStart' = i'
         /\ UNCHANGED <<kind, name, data, pc>>
TailLine == /\ pc = "scan" /\ i > Len(data)
            /\ out' = (IF lineStart <= Len(data) \/ (~emitted /\ ~Dev_EmptyNoLine)
                       THEN out \o DataPrefix \o SubSeq(data, lineStart, Len(data)) \o <<LF>> ELSE out) \o <<LF>>
            /\ pc' = "done"
            /\ UNCHANGED <<kind, name, data, i, lineStart, emitted>>
Next == HeadStep \/ Plain \/ Break \/ TailLine
Spec == Init /\ [][Next]_vars

Refines == pc = "done" => CASE kind = "event" -> EventOk(name, data, out)
                            [] kind = "comment" -> CommentOk(out)
                            [] kind = "retry" -> RetryOk(data, out)
\* one line per terminal state = one conformance case with the wire bytes the Impl model predicts
Emit == pc # "done" \/ PrintT(ToJson([kind |-> kind, name |-> name, data |-> data, out |-> out]))
=============================================================================
