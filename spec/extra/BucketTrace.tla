------------------------------ MODULE BucketTrace ------------------------------
(* Abs oracle for iora::core::TokenBucket / RateLimiterMap executions recorded by drv_s_bucket (virtual time, whole       *)
(* seconds, whole tokens).  One caller (threads = 1): EXACT - every tryConsume verdict, every availableTokens() value and   *)
(* every timeUntilAvailable() value must be the eager bucket's.  Several callers on a shared RateLimiterMap: the log order  *)
(* need not be the order in which the shard lock was taken, so only the order-insensitive rate bound is demanded: for every *)
(* key and every interval [s, u], the tokens of the grants that lie surely inside it are at most burst + rate * (u - s)     *)
(* (keys that removeKey() was called on in the execution are exempt: a re-created bucket is full), and a refusal of n <=    *)
(* burst must be explainable by SOME grant on that key in the execution - a key nobody was ever granted a token of holds a  *)
(* full bucket in every linearization.  Named deviation Obs_RemoveRacesSlowPath: tryConsume's slow path (insert, then a     *)
(* second findAndModify) finds nothing when removeKey() ran in between and refuses although no bucket was ever short.       *)
EXTENDS TraceBase, FiniteSets, Integers
VARIABLES rate, burst, exact, tok, last, grants, tmax, start
vars == <<l, rate, burst, exact, tok, last, grants, tmax, start>>
Keys == {"x", "y", "z"}
Min(a, b) == IF a < b THEN a ELSE b
Max(a, b) == IF a > b THEN a ELSE b
Init == l = 1 /\ rate = 0 /\ burst = 0 /\ exact = FALSE /\ tok = [k \in Keys |-> 0] /\ last = [k \in Keys |-> 0] /\ grants = <<>> /\ tmax = 0 /\ start = 1
EvBegin == /\ IsEv("Begin") /\ rate' = Ev.rate /\ burst' = Ev.burst /\ exact' = (Ev.threads = 1)
           /\ tok' = [k \in Keys |-> Ev.burst] /\ last' = [k \in Keys |-> 0] /\ grants' = <<>> /\ tmax' = 0 /\ start' = l
EvReset == IsEv("Reset") /\ rate' = 0 /\ burst' = 0 /\ exact' = FALSE /\ tok' = [k \in Keys |-> 0] /\ last' = [k \in Keys |-> 0] /\ grants' = <<>> /\ tmax' = 0 /\ start' = l
AvailAt(k, t) == Min(tok[k] + rate * (t - last[k]), burst)
RECURSIVE ExecEnd(_)
ExecEnd(i) == IF i >= Len(Log) \/ Log[i].e = "End" THEN i ELSE ExecEnd(i + 1)
GrantInExec(k) == \E j \in start..ExecEnd(l) : Log[j].e = "Consume" /\ Log[j].k = k /\ Log[j].ok
RemoveInExec(k) == \E j \in start..ExecEnd(l) : Log[j].e = "Remove" /\ Log[j].k = k
Obs_RemoveRacesSlowPath(k) == RemoveInExec(k)
\* cleanup(d) with d * rate >= burst evicts only full buckets when it is atomic (a bucket idle for more than d seconds is full), so it is
\* invisible - but its two passes are not atomic: a bucket drawn from between "collect" and "erase" is erased all the same and re-created
\* full.  Named deviation Obs_CleanupEvictsBusyBucket(k), observation O-26b: a key is exempt from the bound only if ANOTHER caller was
\* granted tokens of it during the very second(s) a cleanup() call was in progress (the check counts the executions in which the bound is
\* in fact exceeded).
Obs_CleanupEvictsBusyBucket(k) == \E i \in start..ExecEnd(l) : \E j \in start..ExecEnd(l) :
    /\ Log[i].e = "Cleanup" /\ Log[j].e = "Consume" /\ Log[j].k = k /\ Log[j].ok
    /\ Log[j].t # Log[i].t /\ Log[j].t0 <= Log[i].t1 /\ Log[i].t0 <= Log[j].t1
EvConsume == /\ IsEv("Consume") /\ Ev.k \in Keys /\ Ev.t0 <= Ev.t1 /\ Ev.n >= 1
             /\ tmax' = Max(tmax, Ev.t1)
             /\ grants' = IF Ev.ok THEN Append(grants, <<Ev.k, Ev.t0, Ev.t1, Ev.n>>) ELSE grants
             /\ IF exact
                THEN /\ Ev.t0 = Ev.t1
                     /\ Ev.ok = (AvailAt(Ev.k, Ev.t0) >= Ev.n)
                     /\ tok' = [tok EXCEPT ![Ev.k] = IF Ev.ok THEN AvailAt(Ev.k, Ev.t0) - Ev.n ELSE AvailAt(Ev.k, Ev.t0)]
                     /\ last' = [last EXCEPT ![Ev.k] = Ev.t0]
                ELSE /\ (Ev.ok \/ Ev.n > burst \/ GrantInExec(Ev.k) \/ Obs_RemoveRacesSlowPath(Ev.k))
                     /\ UNCHANGED <<tok, last>>
             /\ UNCHANGED <<rate, burst, exact, start>>
EvAvail == /\ IsEv("Avail") /\ exact /\ Ev.v1000 = 1000 * AvailAt("x", Ev.t0)
           /\ UNCHANGED <<rate, burst, exact, tok, last, grants, tmax, start>>
EvWait == /\ IsEv("Wait") /\ exact
          /\ LET a == AvailAt("x", Ev.t0) IN
             Ev.ms = IF a >= Ev.n THEN 0 ELSE ((Ev.n - a) * 1000 + rate - 1) \div rate
          /\ UNCHANGED <<rate, burst, exact, tok, last, grants, tmax, start>>
RECURSIVE SumIn(_, _, _, _)
SumIn(k, s, u, i) == IF i > Len(grants) THEN 0
                     ELSE (IF grants[i][1] = k /\ grants[i][2] >= s /\ grants[i][3] <= u THEN grants[i][4] ELSE 0) + SumIn(k, s, u, i + 1)
EvRemove == IsEv("Remove") /\ ~exact /\ Ev.k \in Keys /\ UNCHANGED <<rate, burst, exact, tok, last, grants, tmax, start>>
EvCleanup == IsEv("Cleanup") /\ ~exact /\ Ev.d * rate >= burst /\ UNCHANGED <<rate, burst, exact, tok, last, grants, tmax, start>>
BoundOk == \A k \in Keys : RemoveInExec(k) \/ Obs_CleanupEvictsBusyBucket(k) \/ \A s \in 0..tmax : \A u \in s..tmax : SumIn(k, s, u, 1) <= burst + rate * (u - s)
EvEnd == IsEv("End") /\ BoundOk /\ UNCHANGED <<rate, burst, exact, tok, last, grants, tmax, start>>
Next == EvBegin \/ EvReset \/ EvRemove \/ EvCleanup \/ EvConsume \/ EvAvail \/ EvWait \/ EvEnd
Spec == Init /\ [][Next]_vars
================================================================================
