------------------------------ MODULE ConnHealthLinTrace ------------------------------
(* Trace specification [X10] for ONE HealthMonitor used by several threads (harness/drv_s_connhealth.cpp conc / dfs):      *)
(* every public operation is linearizable with respect to ConnHealth.tla - Call and Ret are recorded, the operation's       *)
(* action (Lin) takes place at some instant in between, TLC searches for the linearization; the lists / statistics a        *)
(* query returned must be those of the specification's state at its linearization point.  A single-threaded set-up prefix   *)
(* is validated as in ConnHealthTrace (full observation after every operation), `Final` compares the monitor's observables   *)
(* after all threads were joined.  CTick = one second passed (virtual clock).                                               *)
(* Dev_SplitUpdateConfig (deviation of the code, see OBSERVATIONS in checks/X10.meta.json): HealthMonitor::updateConfig      *)
(* stores the new default configuration BEFORE it takes the lock and applies it to the connections under the lock, i.e. it  *)
(* is two steps: the default changes at the call, the connections change at the linearization point.  FALSE = atomic.        *)
EXTENDS ConnHealthTrace
CONSTANTS Dev_SplitUpdateConfig, Thr
VARIABLES pend
lvars == <<l, vars, pend>>
NoRv == [un |-> {}, hbl |-> {}, ov |-> <<>>, ok |-> 0, ko |-> 0]
IdleT == [st |-> "idle", op |-> "-", x |-> 0, rv |-> NoRv]
AllIdle == [t \in Thr |-> IdleT]
LInit == l = 1 /\ Init /\ pend = AllIdle
Setup == (TAdd \/ TRemove \/ TActivity \/ TFailure \/ TSuccess \/ TTick \/ TUpdateConfig) /\ pend = AllIdle /\ UNCHANGED pend
LBegin == TBegin /\ pend' = AllIdle
LReset == TReset /\ pend' = AllIdle
Mutators == {"+", "-", "a", "f", "s", "u"}
Queries == {"qu", "qh", "qo"}
EvCall == /\ IsEv("Call") /\ Ev.t \in Thr /\ pend[Ev.t].st = "idle" /\ Ev.op \in Mutators \cup Queries
          /\ Ev.op \in {"+", "-", "a", "f", "s"} => Ev.x \in Ids
          /\ Ev.op = "u" => Ev.x \in CfgIds
          /\ pend' = [pend EXCEPT ![Ev.t] = [st |-> "called", op |-> Ev.op, x |-> Ev.x, rv |-> NoRv]]
          /\ IF Dev_SplitUpdateConfig /\ Ev.op = "u" THEN UCSetDefault(Ev.x) /\ UNCHANGED <<conn, now, ops, hist>> ELSE UNCHANGED vars
Done(t, rv) == pend' = [pend EXCEPT ![t] = [@ EXCEPT !.st = "lin", !.rv = rv]]
Observed == [un |-> UnhealthySet, hbl |-> HbSet,
             ov |-> <<Cardinality(Present), Count("Healthy"), Count("Warning"), Count("Degraded"), Count("Critical"), Count("Unhealthy")>>,
             ok |-> SumOf(Present, "ok"), ko |-> SumOf(Present, "ko")]
Lin(t) == /\ pend[t].st = "called" /\ UNCHANGED l
          /\ LET o == pend[t].op  x == pend[t].x IN
             CASE o = "+" -> Add(x) /\ Done(t, NoRv)
               [] o = "-" -> Remove(x) /\ Done(t, NoRv)
               [] o = "a" -> Activity(x) /\ Done(t, NoRv)
               [] o = "f" -> Failure(x) /\ Done(t, NoRv)
               [] o = "s" -> Success(x) /\ Done(t, NoRv)
               [] o = "u" -> /\ IF Dev_SplitUpdateConfig THEN Bump /\ UCApply(x) /\ UNCHANGED <<mcfg, now>> ELSE UpdateConfig(x)
                             /\ Done(t, NoRv)
               [] o \in Queries -> UNCHANGED vars /\ Done(t, Observed)
EvRet == /\ IsEv("Ret") /\ Ev.t \in Thr /\ pend[Ev.t].st = "lin" /\ pend[Ev.t].op = Ev.op
         /\ LET rv == pend[Ev.t].rv IN
            /\ Ev.op = "qu" => IsSetOf(Ev.un, rv.un)
            /\ Ev.op = "qh" => IsSetOf(Ev.hbl, rv.hbl)
            /\ Ev.op = "qo" => Ev.ov = rv.ov /\ RateIs(Ev.orm, rv.ok, rv.ko)
         /\ pend' = [pend EXCEPT ![Ev.t] = IdleT] /\ UNCHANGED vars
EvCTick == IsEv("CTick") /\ Tick /\ UNCHANGED pend
EvFinal == IsEv("Final") /\ pend = AllIdle /\ UNCHANGED <<vars, pend>> /\ MatchMonitor(Ev)
EvEnd == IsEv("End") /\ Ev.outcome = "done" /\ UNCHANGED <<vars, pend>>
LNext == LBegin \/ LReset \/ Setup \/ EvCall \/ EvRet \/ EvCTick \/ EvFinal \/ EvEnd \/ \E t \in Thr : Lin(t)
LSpec == LInit /\ [][LNext]_lvars
LRecovery == [][StepRecovery]_lvars
LIsolation == [][StepIsolation]_lvars
=======================================================================================
