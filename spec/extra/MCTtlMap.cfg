CONSTANTS Keys = {1, 2, 3} Ttls = {0, 1, 3} Advances = {1, 2} MaxEntries = 2 DefaultTtl = 2 SweepInterval = 2 MaxOps = 5 MaxTime = 6
  Dev_HitAtExpiry = FALSE Dev_RefreshKeepsExpiry = FALSE Dev_GetSlidesExpiry = FALSE Dev_NoMoveToFront = FALSE Dev_EvictFront = FALSE
  Dev_NoSecondChance = FALSE Dev_NoEviction = FALSE Dev_SweepReapsLive = FALSE Dev_GetNoStamp = FALSE Dev_RecentBoundary = FALSE
SPECIFICATION Spec
INVARIANT HitOk
INVARIANT MissOk
INVARIANT SizeBound
INVARIANT JustPutPresent
INVARIANT Eviction
INVARIANT NoNeedlessEviction
INVARIANT RefreshToFront
INVARIANT SweepExact
INVARIANT StatsOk
INVARIANT HitStamps
VIEW View
CHECK_DEADLOCK FALSE
