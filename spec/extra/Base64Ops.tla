------------------------------ MODULE Base64Ops ------------------------------
(* Pure operators shared by Base64.tla (generator / Impl), Base64Trace.tla (Abs oracle) and HttpAuth*.tla.   *)
(*                                                                                                          *)
(* The Abs definition of base64 is RFC 4648 section 4 read literally, on BITS:                               *)
(*   Enc(b, url)   the octets of b are a bit string (MSB first); it is padded with zero bits to a multiple   *)
(*                 of 6, cut into 6-bit groups, every group is mapped through the alphabet (section 4: +/,   *)
(*                 section 5 "URL and filename safe": -_), and - standard form only - '=' is appended until  *)
(*                 the length is a multiple of 4.                                                            *)
(*   AbsDecode(s)  decoding is DEFINED as the inverse of Enc: s decodes to b iff Enc(b, FALSE) = s.  Every   *)
(*                 other s is malformed (bad length, foreign byte, '=' anywhere but in the tail, non-zero    *)
(*                 discarded bits = non-canonical encoding).  This is what iora's Base64::decode documents   *)
(*                 ("strict", "canonical-encoding enforcement").  Cand(s) reads the candidate octets off s    *)
(*                 (foreign bytes count as 0) and the decision is made by re-encoding the candidate, so the   *)
(*                 oracle contains no second copy of the decoder's case analysis.                            *)
(* Characters and octets are integers 0..255.                                                                *)
EXTENDS Integers, Sequences

Pad == 61                                   \* '='
Ch(v, url) == IF v < 26 THEN 65 + v
              ELSE IF v < 52 THEN 97 + (v - 26)
              ELSE IF v < 62 THEN 48 + (v - 52)
              ELSE IF v = 62 THEN (IF url THEN 45 ELSE 43)      \* '-' / '+'
              ELSE (IF url THEN 95 ELSE 47)                    \* '_' / '/'
\* value of a character of the STANDARD alphabet, -1 for every other byte (including '=', '-', '_')
StdVal(c) == IF c \in 65..90 THEN c - 65
             ELSE IF c \in 97..122 THEN c - 97 + 26
             ELSE IF c \in 48..57 THEN c - 48 + 52
             ELSE IF c = 43 THEN 62
             ELSE IF c = 47 THEN 63
             ELSE -1

\* ---- RFC 4648 section 4 on bits
Bit(b, k) == IF k > 8 * Len(b) THEN 0 ELSE ((b[((k - 1) \div 8) + 1]) \div (2 ^ (7 - ((k - 1) % 8)))) % 2      \* k = 1 .. (zero beyond)
Group(b, j) == Bit(b, 6 * j + 1) * 32 + Bit(b, 6 * j + 2) * 16 + Bit(b, 6 * j + 3) * 8
               + Bit(b, 6 * j + 4) * 4 + Bit(b, 6 * j + 5) * 2 + Bit(b, 6 * j + 6)                      \* j = 0 ..
NGroups(b) == (8 * Len(b) + 5) \div 6
Enc(b, url) == LET ng == NGroups(b)
                   np == IF url THEN 0 ELSE (4 - (ng % 4)) % 4
               IN [j \in 1..ng |-> Ch(Group(b, j - 1), url)] \o [k \in 1..np |-> Pad]

\* ---- decoding as the inverse of Enc
V0(c) == IF StdVal(c) < 0 THEN 0 ELSE StdVal(c)
TailPads(s) == LET n == Len(s) IN IF n >= 1 /\ s[n] = Pad THEN (IF n >= 2 /\ s[n - 1] = Pad THEN 2 ELSE 1) ELSE 0
Cand(s) == LET n == Len(s)
               nb == ((n \div 4) * 3) - TailPads(s)
           IN [k \in 1..nb |->
                 LET q == (k - 1) \div 3
                     r == (k - 1) % 3
                     v1 == V0(s[4 * q + 1])  v2 == V0(s[4 * q + 2])  v3 == V0(s[4 * q + 3])  v4 == V0(s[4 * q + 4])
                 IN CASE r = 0 -> (v1 * 4) + (v2 \div 16)
                      [] r = 1 -> ((v2 % 16) * 16) + (v3 \div 4)
                      [] OTHER -> ((v3 % 4) * 64) + v4]
AbsDecode(s) == IF Len(s) = 0 THEN [ok |-> TRUE, out |-> <<>>]
                ELSE IF Len(s) % 4 # 0 THEN [ok |-> FALSE, out |-> <<>>]
                ELSE LET c == Cand(s) IN IF Enc(c, FALSE) = s THEN [ok |-> TRUE, out |-> c] ELSE [ok |-> FALSE, out |-> <<>>]

\* all sequences over S of length 0..n
SeqsUpTo(S, n) == UNION {[1..k -> S] : k \in 0..n}
=============================================================================
