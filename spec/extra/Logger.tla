------------------------------- MODULE Logger -------------------------------
(* Extra X20 - iora::core::Logger (include/iora/core/logger.hpp), the asynchronous path.                               *)
(*                                                                                                                      *)
(* What a user relies on (header comments, tests/core/iora_test_logger*.cpp, iora_test_external_logger.cpp):            *)
(*   P1 AtMostOnce / LevelOk : a message is never put out twice; a message below the minimum level is never put out.    *)
(*   P2 DrainOk (flush)      : flush() returns only after every message whose log() call returned before the flush      *)
(*                             began (and that is at or above the level) is out.  File / console: exactly that.         *)
(*                             External handler: the code releases the mutex around the handler call, so a message that *)
(*                             ANOTHER thread (worker, other flusher) has popped and not yet handed over may still be    *)
(*                             outstanding - the weak reading (documented in iora_test_external_logger.cpp: "flush()    *)
(*                             only drains the queue, but the worker may still be mid-handler-call").                   *)
(*   P3 DrainOk (shutdown)   : shutdown() returns only after everything accepted before it is out, and                  *)
(*      AfterShut            : the writer thread puts out nothing after shutdown() returned.                            *)
(*   P4 OrderW / OrderH      : the messages of one producer come out in the order they were logged.  Stream sinks:      *)
(*                             always.  Handler: only while one thread delivers (weak reading; see Strong).             *)
(*   P5 TearOut              : after clearExternalHandler() returned the handler is never invoked again (and no         *)
(*                             invocation is still in progress) - the use-after-free guarantee of the race tests.       *)
(*                                                                                                                      *)
(* Shape: one action per critical section of data.mutex.  log() = level test (unlocked) + push; the worker's predicate  *)
(* wait + raw-queue pop is one section, the handler call is outside the lock, the re-lock + decrement + next pop / the  *)
(* drain of the normal queue is the next section; flush() is the same loop on the caller's thread; shutdown() =         *)
(* flush(); exit := TRUE under the lock; notify; join.  clearExternalHandler() = null the gate fields; wait inflight=0.  *)
(*                                                                                                                      *)
(* Strong = TRUE turns the weak readings into the strong ones (handler order strict, flush strict, nothing stranded,    *)
(* the worker never spins); TLC then shows where the real design departs:                                               *)
(*   OBS HandlerReorder : worker popped m1, flush() popped m2 and delivered it first.                                   *)
(*   OBS FlushInflight  : flush() returned while the worker still holds m1.                                             *)
(*   OBS Stranded       : clearExternalHandler() with a non-empty raw queue strands those messages (never delivered,    *)
(*                        never written) and                                                                            *)
(*   OBS WorkerSpin     : leaves the worker's wait predicate TRUE with nothing to do: it spins until shutdown.          *)
(* Dev_* flags are slips a maintainer could make; each must violate an invariant with Strong = FALSE (self-test).       *)
EXTENDS Naturals, Sequences, FiniteSets, TLC
CONSTANTS Prods, NMsg, Flushers, UseHandler, WithClear, MinLevel, Lvls, Strong,
          Dev_LevelOff, Dev_FlushSkipsQueue, Dev_FlushSkipsRaw, Dev_WriteOutsideLock, Dev_NoDrainWait, Dev_ShutdownNoJoin,
          Dev_WorkerLifo
VARIABLES pc, sent, q, rq, useH, inflight, exitF, hold, holdq, out, retd, snap, ok, clrAt, shutAt
vars == <<pc, sent, q, rq, useH, inflight, exitF, hold, holdq, out, retd, snap, ok, clrAt, shutAt>>

W == "wk1"
C == "c"
Callers == Prods \cup {C}
Threads == Callers \cup {W}
NoMsg == [p |-> "-", i |-> 0]
NoMark == 999
Msg(p, i) == [p |-> p, i |-> i]
Lvl(m) == Lvls[m.p][m.i]
Accept(m) == Lvl(m) >= MinLevel
Range(s) == {s[k] : k \in DOMAIN s}
OutSet == {out[k].m : k \in DOMAIN out}
Outs(s, by, kind) == [k \in 1..Len(s) |-> [m |-> s[k], by |-> by, k |-> kind]]

Init == /\ pc = [t \in Threads |-> IF t = W THEN "w_wait" ELSE IF t = C THEN "c0" ELSE "idle"]
        /\ sent = [p \in Prods |-> 0] /\ q = <<>> /\ rq = <<>> /\ useH = UseHandler /\ inflight = 0 /\ exitF = FALSE
        /\ hold = [t \in Threads |-> NoMsg] /\ holdq = <<>> /\ out = <<>> /\ retd = {} /\ snap = [t \in Callers |-> {}]
        /\ ok = TRUE /\ clrAt = NoMark /\ shutAt = NoMark

\* ------------------------------------------------------------------ producers: log()
Filtered(m) == IF Dev_LevelOff THEN Lvl(m) <= MinLevel ELSE Lvl(m) < MinLevel
LogSkip(p) == /\ pc[p] = "idle" /\ sent[p] < NMsg /\ Filtered(Msg(p, sent[p] + 1))
              /\ sent' = [sent EXCEPT ![p] = @ + 1] /\ retd' = retd \cup {Msg(p, sent[p] + 1)}
              /\ UNCHANGED <<pc, q, rq, useH, inflight, exitF, hold, holdq, out, snap, ok, clrAt, shutAt>>
LogPush(p) == /\ pc[p] = "idle" /\ sent[p] < NMsg /\ ~Filtered(Msg(p, sent[p] + 1))
              /\ LET m == Msg(p, sent[p] + 1) IN
                   /\ IF useH THEN rq' = Append(rq, m) /\ q' = q ELSE q' = Append(q, m) /\ rq' = rq
                   /\ retd' = retd \cup {m}
              /\ sent' = [sent EXCEPT ![p] = @ + 1]
              /\ UNCHANGED <<pc, useH, inflight, exitF, hold, holdq, out, snap, ok, clrAt, shutAt>>

\* ------------------------------------------------------------------ flush() on thread t (a producer, or c inside shutdown)
FlushStart(p) == /\ p \in Flushers /\ pc[p] = "idle" /\ sent[p] = NMsg
                 /\ snap' = [snap EXCEPT ![p] = retd] /\ pc' = [pc EXCEPT ![p] = "f_raw"]
                 /\ UNCHANGED <<sent, q, rq, useH, inflight, exitF, hold, holdq, out, retd, ok, clrAt, shutAt>>
RawReady == rq # <<>> /\ useH
FPop(t) == /\ pc[t] \in {"f_raw", "f_relock"} /\ ~Dev_FlushSkipsRaw /\ RawReady
           /\ hold' = [hold EXCEPT ![t] = Head(rq)] /\ rq' = Tail(rq)
           /\ inflight' = IF pc[t] = "f_relock" THEN inflight ELSE inflight + 1
           /\ pc' = [pc EXCEPT ![t] = "f_call"]
           /\ UNCHANGED <<sent, q, useH, exitF, holdq, out, retd, snap, ok, clrAt, shutAt>>
FCall(t) == /\ pc[t] = "f_call"
            /\ out' = Append(out, [m |-> hold[t], by |-> t, k |-> "H"]) /\ hold' = [hold EXCEPT ![t] = NoMsg]
            /\ pc' = [pc EXCEPT ![t] = "f_relock"]
            /\ UNCHANGED <<sent, q, rq, useH, inflight, exitF, holdq, retd, snap, ok, clrAt, shutAt>>
FDrain(t) == /\ pc[t] \in {"f_raw", "f_relock"} /\ (Dev_FlushSkipsRaw \/ ~RawReady)
             /\ inflight' = IF pc[t] = "f_relock" THEN inflight - 1 ELSE inflight
             /\ IF Dev_FlushSkipsQueue THEN UNCHANGED <<q, out>> ELSE q' = <<>> /\ out' = out \o Outs(q, t, "W")
             /\ pc' = [pc EXCEPT ![t] = "f_ret"]
             /\ UNCHANGED <<sent, rq, useH, exitF, hold, holdq, retd, snap, ok, clrAt, shutAt>>
Pending(t) == {m \in snap[t] : Accept(m) /\ m \notin OutSet}
HeldByOthers(t) == {hold[x] : x \in Threads \ {t}}
Stranded == IF useH THEN {} ELSE Range(rq)
DrainOk(t) == IF Strong THEN Pending(t) = {} ELSE Pending(t) \subseteq (HeldByOthers(t) \cup Stranded)
FRet(t) == /\ pc[t] = "f_ret" /\ ok' = (ok /\ DrainOk(t))
           /\ pc' = [pc EXCEPT ![t] = IF t = C THEN "s_exit" ELSE "done"]
           /\ UNCHANGED <<sent, q, rq, useH, inflight, exitF, hold, holdq, out, retd, snap, clrAt, shutAt>>

\* ------------------------------------------------------------------ the writer thread (runWorker)
WPred == q # <<>> \/ rq # <<>> \/ exitF
WAt == pc[W] \in {"w_wait", "w_relock"} /\ (pc[W] = "w_wait" => WPred)
WPop == /\ WAt /\ RawReady
        /\ hold' = [hold EXCEPT ![W] = IF Dev_WorkerLifo THEN rq[Len(rq)] ELSE Head(rq)]
        /\ rq' = IF Dev_WorkerLifo THEN SubSeq(rq, 1, Len(rq) - 1) ELSE Tail(rq)
        /\ inflight' = IF pc[W] = "w_relock" THEN inflight ELSE inflight + 1
        /\ pc' = [pc EXCEPT ![W] = "w_call"]
        /\ UNCHANGED <<sent, q, useH, exitF, holdq, out, retd, snap, ok, clrAt, shutAt>>
WCall == /\ pc[W] = "w_call"
         /\ out' = Append(out, [m |-> hold[W], by |-> W, k |-> "H"]) /\ hold' = [hold EXCEPT ![W] = NoMsg]
         /\ pc' = [pc EXCEPT ![W] = "w_relock"]
         /\ UNCHANGED <<sent, q, rq, useH, inflight, exitF, holdq, retd, snap, ok, clrAt, shutAt>>
\* the spin: predicate TRUE (raw queue non-empty), gate closed, nothing to write, no exit - the loop changes nothing
Spin == pc[W] = "w_wait" /\ q = <<>> /\ rq # <<>> /\ ~useH /\ ~exitF
WDrain == /\ WAt /\ ~RawReady /\ ~Spin
          /\ inflight' = IF pc[W] = "w_relock" THEN inflight - 1 ELSE inflight
          /\ IF Dev_WriteOutsideLock /\ q # <<>>
               THEN holdq' = q /\ q' = <<>> /\ out' = out /\ pc' = [pc EXCEPT ![W] = "w_write"]
               ELSE holdq' = holdq /\ q' = <<>> /\ out' = out \o Outs(q, W, "W")
                    /\ pc' = [pc EXCEPT ![W] = IF exitF THEN "w_done" ELSE "w_wait"]
          /\ UNCHANGED <<sent, rq, useH, exitF, hold, retd, snap, ok, clrAt, shutAt>>
WWrite == /\ pc[W] = "w_write" /\ out' = out \o Outs(holdq, W, "W") /\ holdq' = <<>>
          /\ pc' = [pc EXCEPT ![W] = IF exitF THEN "w_done" ELSE "w_wait"]
          /\ UNCHANGED <<sent, q, rq, useH, inflight, exitF, hold, retd, snap, ok, clrAt, shutAt>>

\* ------------------------------------------------------------------ controller: [clearExternalHandler();] shutdown()
CClear1 == /\ WithClear /\ pc[C] = "c0" /\ useH' = FALSE /\ pc' = [pc EXCEPT ![C] = "c_wait"]
           /\ UNCHANGED <<sent, q, rq, inflight, exitF, hold, holdq, out, retd, snap, ok, clrAt, shutAt>>
CClear2 == /\ pc[C] = "c_wait" /\ (Dev_NoDrainWait \/ inflight = 0)
           /\ clrAt' = Len(out) /\ pc' = [pc EXCEPT ![C] = "s0"]
           /\ UNCHANGED <<sent, q, rq, useH, inflight, exitF, hold, holdq, out, retd, snap, ok, shutAt>>
SStart == /\ pc[C] = (IF WithClear THEN "s0" ELSE "c0")
          /\ snap' = [snap EXCEPT ![C] = retd] /\ pc' = [pc EXCEPT ![C] = "f_raw"]
          /\ UNCHANGED <<sent, q, rq, useH, inflight, exitF, hold, holdq, out, retd, ok, clrAt, shutAt>>
SExit == /\ pc[C] = "s_exit" /\ exitF' = TRUE /\ pc' = [pc EXCEPT ![C] = "s_join"]
         /\ UNCHANGED <<sent, q, rq, useH, inflight, hold, holdq, out, retd, snap, ok, clrAt, shutAt>>
SJoin == /\ pc[C] = "s_join" /\ (Dev_ShutdownNoJoin \/ pc[W] = "w_done")
         /\ shutAt' = Len(out) /\ ok' = (ok /\ DrainOk(C)) /\ pc' = [pc EXCEPT ![C] = "done"]
         /\ UNCHANGED <<sent, q, rq, useH, inflight, exitF, hold, holdq, out, retd, snap, clrAt>>

Next == \/ \E p \in Prods : LogSkip(p) \/ LogPush(p) \/ FlushStart(p)
        \/ \E t \in Callers : FPop(t) \/ FCall(t) \/ FDrain(t) \/ FRet(t)
        \/ WPop \/ WCall \/ WDrain \/ WWrite
        \/ CClear1 \/ CClear2 \/ SStart \/ SExit \/ SJoin
Spec == Init /\ [][Next]_vars

\* ------------------------------------------------------------------ properties
AtMostOnce == \A a, b \in DOMAIN out : a # b => out[a].m # out[b].m
LevelOk == \A a \in DOMAIN out : Accept(out[a].m)
OkInv == ok
OrderW == \A a, b \in DOMAIN out : (a < b /\ out[a].k = "W" /\ out[b].k = "W" /\ out[a].m.p = out[b].m.p) => out[a].m.i < out[b].m.i
OrderH == \A a, b \in DOMAIN out : (a < b /\ out[a].k = "H" /\ out[b].k = "H" /\ out[a].m.p = out[b].m.p)
                                   => (out[a].m.i < out[b].m.i \/ (~Strong /\ out[a].by # out[b].by))
TearOut == clrAt # NoMark => \A a \in DOMAIN out : a > clrAt => out[a].k # "H"
AfterShut == shutAt # NoMark => \A a \in DOMAIN out : a > shutAt => out[a].by # W
NoSpin == Strong => ~Spin
\* no caller is left waiting for ever (clear's drain wait, shutdown's join)
NoStuck == (~ENABLED Next) => (pc[C] = "done" /\ pc[W] = "w_done")
View == <<pc, sent, q, rq, useH, inflight, exitF, hold, holdq, out, snap, ok, clrAt, shutAt>>
=============================================================================
