CONSTANTS DataAlphabet = {97, 32, 58, 13, 10} MaxData = 4 Names <- MCNames Retries <- MCRetries
  Dev_NoCrSplit = FALSE Dev_CrLfTwoBreaks = FALSE Dev_NameNotStripped = FALSE Dev_NoSeparatorSpace = FALSE Dev_EmptyNoLine = FALSE
SPECIFICATION Spec
INVARIANT Refines
INVARIANT Emit
CHECK_DEADLOCK FALSE
