CONSTANTS Procs = {"a", "b"} Keys = {1, 2} MaxSeries = 2 Bounds <- MCBounds MaxOps = 3 MaxObjs = 4
  Dev_NoRecheck = FALSE Dev_BucketLT = FALSE Dev_NotCumulative = FALSE Dev_LimitOffByOne = FALSE Dev_LabelOrder = FALSE
  Dev_NoTypeCheck = FALSE Dev_CounterIntOnly = FALSE
SPECIFICATION Spec
INVARIANT OneSeriesPerKey
INVARIANT Conservation
INVARIANT BucketLe
INVARIANT Cumulative
INVARIANT TypeStable
INVARIANT LimitRespected
CHECK_DEADLOCK FALSE
