CONSTANTS Rate = 1 Burst = 3 MaxTime = 5 MaxOps = 7 MaxAsk = 2 Dev_NoCap = TRUE
SPECIFICATION Spec
INVARIANT Bound
CHECK_DEADLOCK FALSE
