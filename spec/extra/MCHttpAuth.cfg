SPECIFICATION Spec
CONSTANTS
  HdrInputs <- MCHdrInputs
  RealmInputs <- MCRealmInputs
  TheRealm <- MCTheRealm
  Dev_TabSeparator = FALSE
  Dev_PrefixScheme = FALSE
  Dev_CaseSensitiveScheme = FALSE
  Dev_NoTrim = FALSE
  Dev_LastColon = FALSE
  Dev_InnerOnThrow = FALSE
  Dev_InnerOnFalse = FALSE
  Dev_RealmSignedCompare = FALSE
  Dev_RealmAllowsDel = FALSE
INVARIANT Guarded
INVARIANT Refines
INVARIANT Progress
INVARIANT Emit
CHECK_DEADLOCK FALSE
