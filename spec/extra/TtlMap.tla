------------------------------ MODULE TtlMap ------------------------------
(* X07 (extra, beyond the listed properties): Impl specification of iora::util::TtlMap<K,V> - every public operation and the *)
(* sweeper's batch are ONE critical section under the shared_mutex (get: shared, everything else: exclusive), so the        *)
(* interleavings of threads are exactly the sequences of these actions - and generator of operation sequences (hist).       *)
(* Time is counted in seconds (the unit of the class's TTLs); the sweeper is a periodic timer of a TimerService: Sweep may    *)
(* happen whenever a sweep is due (every SweepInterval).                                                                    *)
(*                                                                                                                          *)
(* What a user relies on:                                                                                                   *)
(*   P1 HitOk        a get never returns an expired entry and never a stale one: a hit returns the value of the LAST put     *)
(*                   of that key, that put is not older than its TTL (now < put time + ttl), and no invalidate / clear /     *)
(*                   capacity eviction removed it since.  A re-put refreshes value AND expiry (overwrite semantics).         *)
(*   P2 MissOk       a cache that is not full does not forget: a miss only for a key never put, expired, invalidated,        *)
(*                   cleared or evicted for capacity.                                                                       *)
(*   P3 SizeBound    never more than maxEntries entries (maxEntries = 0: always empty, put is a no-op); keys unique.          *)
(*   P4 Eviction     the victim of a capacity eviction is chosen as documented (approximate LRU with a second chance for     *)
(*                   entries touched within the last sweepInterval, at most 8 hops, else the strict tail); the entry just     *)
(*                   put is never the victim (JustPutPresent).                                                                *)
(*   P5 Sweep        the sweeper removes exactly the expired entries (never a live one) and every expired entry is gone       *)
(*                   within a sweep interval of idle time (stated in TtlMapTrace.tla: Settle).                                *)
(*   P6 Stats        hits + misses = number of gets, evictions = number of capacity evictions, size = entries physically      *)
(*                   present (expired-but-unreaped ones included: "deferred reap").                                           *)
(*   P7 Teardown     (driver + ASan, not this module) destroying the map while the sweeper runs or is due is safe, no sweep   *)
(*                   touches freed state, nothing is leaked.                                                                  *)
(* Realistic slips (each must make TLC report a violation):                                                                  *)
(*   Dev_HitAtExpiry        get treats exp = now as live                       -> HitOk                                       *)
(*   Dev_RefreshKeepsExpiry a re-put keeps the old expiry                      -> MissOk (entry dies early) / HitOk           *)
(*   Dev_GetSlidesExpiry    a hit extends the expiry (sliding TTL)             -> HitOk                                       *)
(*   Dev_NoMoveToFront      a re-put does not splice the entry to the front    -> Eviction                                    *)
(*   Dev_EvictFront         the eviction removes the front (the entry just put)-> JustPutPresent                              *)
(*   Dev_NoSecondChance     the strict tail is always evicted                  -> Eviction                                    *)
(*   Dev_NoEviction         nothing is evicted                                 -> SizeBound                                   *)
(*   Dev_SweepReapsLive     the sweeper's comparison is inverted               -> MissOk                                      *)
(*   Dev_GetNoStamp         a hit does not refresh the recency stamp           -> HitStamps                                   *)
(*   Dev_RecentBoundary     an entry touched exactly sweepInterval ago is "old"-> Eviction                                    *)
EXTENDS TtlMapOps, TLC, Json
CONSTANTS Keys, Ttls, Advances, MaxEntries, DefaultTtl, SweepInterval, MaxOps, MaxTime,
          Dev_HitAtExpiry, Dev_RefreshKeepsExpiry, Dev_GetSlidesExpiry, Dev_NoMoveToFront, Dev_EvictFront, Dev_NoSecondChance,
          Dev_NoEviction, Dev_SweepReapsLive, Dev_GetNoStamp, Dev_RecentBoundary
VARIABLES lru, now, nextSweep, st, truth, hist, last
vars == <<lru, now, nextSweep, st, truth, hist, last>>
\* truth (ghost, the Abs map of P1/P2): key -> [v, exp] of the last put still standing

Drop(f, k) == [x \in DOMAIN f \ {k} |-> f[x]]
Store(f, k, v) == [x \in DOMAIN f \cup {k} |-> IF x = k THEN v ELSE f[x]]
Init == /\ lru = <<>> /\ now = 0 /\ nextSweep = SweepInterval /\ st = [hits |-> 0, misses |-> 0, ev |-> 0, gets |-> 0]
        /\ truth = <<>> /\ hist = <<>> /\ last = [op |-> "init", k |-> 0, hit |-> FALSE, v |-> 0, evicted |-> 0, before |-> <<>>]
Go == Len(hist) < MaxOps
Val == Len(hist) + 1
H(r) == hist' = Append(hist, r)

\* the code's put, with the slips
ImplVictim(l2) ==
    IF ~Dev_RecentBoundary THEN Victim(l2, now, SweepInterval)
    ELSE LET n == Len(l2)
             old == {i \in 1..n : i > n - KMaxHops /\ l2[i].la + SweepInterval <= now} IN
         IF old = {} THEN n ELSE CHOOSE i \in old : \A j \in old : j <= i
ImplPut(k, v, ttl) ==
    LET p == Pos(lru, k) IN
    IF MaxEntries = 0 THEN <<lru, 0>>
    ELSE IF p # 0
    THEN LET e == [k |-> k, v |-> v, exp |-> (IF Dev_RefreshKeepsExpiry THEN lru[p].exp ELSE now + ttl), la |-> now] IN
         IF Dev_NoMoveToFront THEN << [lru EXCEPT ![p] = e], 0 >> ELSE << <<e>> \o RemoveAt(lru, p), 0 >>
    ELSE LET l2 == <<[k |-> k, v |-> v, exp |-> now + ttl, la |-> now]>> \o lru IN
         IF Len(l2) > MaxEntries /\ ~Dev_NoEviction
         THEN LET vi == IF Dev_EvictFront THEN 1 ELSE IF Dev_NoSecondChance THEN Len(l2) ELSE ImplVictim(l2) IN
              << RemoveAt(l2, vi), l2[vi].k >>
         ELSE <<l2, 0>>
Put(k, t) ==
    /\ Go
    /\ LET ttl == IF t = 0 THEN DefaultTtl ELSE t
           r == ImplPut(k, Val, ttl) IN
       /\ lru' = r[1]
       /\ st' = IF r[2] # 0 THEN [st EXCEPT !.ev = @ + 1] ELSE st
       /\ truth' = IF MaxEntries = 0 THEN truth
                   ELSE LET t1 == Store(truth, k, [v |-> Val, exp |-> now + ttl]) IN IF r[2] # 0 /\ r[2] \in DOMAIN t1 THEN Drop(t1, r[2]) ELSE t1
       /\ last' = [op |-> "put", k |-> k, hit |-> FALSE, v |-> Val, evicted |-> r[2], before |-> lru]
       /\ H([op |-> "put", k |-> k, ttl |-> t, v |-> Val])
    /\ UNCHANGED <<now, nextSweep>>
Get(k) ==
    /\ Go
    /\ LET p == Pos(lru, k)
           hit == p # 0 /\ (IF Dev_HitAtExpiry THEN lru[p].exp >= now ELSE lru[p].exp > now) IN
       /\ lru' = IF hit THEN [lru EXCEPT ![p].la = (IF Dev_GetNoStamp THEN @ ELSE now),
                                         ![p].exp = (IF Dev_GetSlidesExpiry THEN now + DefaultTtl ELSE @)] ELSE lru
       /\ st' = [st EXCEPT !.gets = @ + 1, !.hits = IF hit THEN @ + 1 ELSE @, !.misses = IF hit THEN @ ELSE @ + 1]
       /\ last' = [op |-> "get", k |-> k, hit |-> hit, v |-> IF hit THEN lru[p].v ELSE 0, evicted |-> 0, before |-> lru]
       /\ H([op |-> "get", k |-> k, hit |-> hit, v |-> IF hit THEN lru[p].v ELSE 0])
    /\ UNCHANGED <<now, nextSweep, truth>>
Invalidate(k) ==
    /\ Go /\ lru' = InvOp(lru, k) /\ truth' = IF k \in DOMAIN truth THEN Drop(truth, k) ELSE truth
    /\ last' = [op |-> "inv", k |-> k, hit |-> FALSE, v |-> 0, evicted |-> 0, before |-> lru] /\ H([op |-> "inv", k |-> k])
    /\ UNCHANGED <<now, nextSweep, st>>
Clear ==
    /\ Go /\ lru' = <<>> /\ truth' = <<>>
    /\ last' = [op |-> "clear", k |-> 0, hit |-> FALSE, v |-> 0, evicted |-> 0, before |-> lru] /\ H([op |-> "clear"])
    /\ UNCHANGED <<now, nextSweep, st>>
Stats ==
    /\ Go /\ last' = [op |-> "stats", k |-> 0, hit |-> FALSE, v |-> 0, evicted |-> 0, before |-> lru]
    /\ H([op |-> "stats", size |-> Len(lru), hits |-> st.hits, misses |-> st.misses, ev |-> st.ev])
    /\ UNCHANGED <<lru, now, nextSweep, st, truth>>
\* time passes (a thread sleeps); a sweep that falls due is a separate step
Advance(d) ==
    /\ Go /\ now + d <= MaxTime /\ now + d <= nextSweep /\ now' = now + d
    /\ last' = [op |-> "adv", k |-> d, hit |-> FALSE, v |-> 0, evicted |-> 0, before |-> lru] /\ H([op |-> "sleep", d |-> d])
    /\ UNCHANGED <<lru, nextSweep, st, truth>>
Sweep ==
    /\ now = nextSweep /\ nextSweep' = nextSweep + SweepInterval
    /\ lru' = IF Dev_SweepReapsLive THEN SelectSeq(lru, LAMBDA e : ~Live(e, now)) ELSE SweepOp(lru, now)
    /\ last' = [op |-> "sweep", k |-> 0, hit |-> FALSE, v |-> 0, evicted |-> 0, before |-> lru]
    /\ UNCHANGED <<now, st, truth, hist>>
Next == \/ \E k \in Keys : (\E t \in Ttls : Put(k, t)) \/ Get(k) \/ Invalidate(k)
        \/ Clear \/ Stats \/ Sweep \/ \E d \in Advances : Advance(d)
Spec == Init /\ [][Next]_vars

\* ---- properties
HitOk == (last.op = "get" /\ last.hit) => (last.k \in DOMAIN truth /\ last.v = truth[last.k].v /\ now < truth[last.k].exp)
MissOk == (last.op = "get" /\ ~last.hit) => (last.k \notin DOMAIN truth \/ truth[last.k].exp <= now)
SizeBound == Len(lru) <= MaxEntries /\ \A i, j \in 1..Len(lru) : i # j => lru[i].k # lru[j].k
JustPutPresent == (last.op = "put" /\ MaxEntries > 0) => (lru # <<>> /\ lru[1].k = last.k /\ lru[1].v = last.v /\ last.evicted # last.k)
\* the documented victim, stated on the list as it was BEFORE the put (b: tail at Len(b)); the new entry is never a candidate
Eviction ==
    (last.op = "put" /\ last.evicted # 0) =>
        LET b == last.before  n == Len(b)
            pv == Pos(b, last.evicted)
            recent(i) == b[i].la + SweepInterval >= now
            inBudget(i) == i > n + 1 - KMaxHops      \* 8 candidates counted in the list that already holds the new entry
        IN /\ pv # 0 /\ Pos(b, last.k) = 0 /\ n = MaxEntries
           /\ \/ (~recent(pv) /\ inBudget(pv) /\ \A i \in (pv + 1)..n : recent(i))
              \/ (pv = n /\ \A i \in 1..n : inBudget(i) => recent(i))
\* a put that refreshes moves the entry to the front and evicts nothing; a put below capacity evicts nothing
NoNeedlessEviction == (last.op = "put" /\ (Pos(last.before, last.k) # 0 \/ Len(last.before) < MaxEntries)) => last.evicted = 0
RefreshToFront == (last.op = "put" /\ MaxEntries > 0 /\ Pos(last.before, last.k) # 0) =>
                      (Len(lru) = Len(last.before) /\ lru[1].exp = now + (IF hist[Len(hist)].ttl = 0 THEN DefaultTtl ELSE hist[Len(hist)].ttl))
SweepExact == last.op = "sweep" => (\A i \in 1..Len(last.before) : (Live(last.before[i], now) <=> Pos(lru, last.before[i].k) # 0))
StatsOk == st.hits + st.misses = st.gets
\* a hit refreshes the recency stamp (this is what gives a just-read tail entry its second chance)
HitStamps == (last.op = "get" /\ last.hit) => lru[Pos(lru, last.k)].la = now

View == <<lru, now, nextSweep, st, truth, Len(hist), last>>
GenView == <<lru, now, nextSweep, Len(hist)>>
\* generator: one line per complete operation sequence
Emit == Len(hist) < MaxOps \/ PrintT(ToJson(hist))
===========================================================================
