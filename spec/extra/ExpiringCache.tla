------------------------------ MODULE ExpiringCache ------------------------------
(* Impl-level specification of iora::util::ExpiringCache (include/iora/util/expiring_cache.hpp): one mutex, callers that     *)
(* read the clock BEFORE (set) or UNDER (get) the lock, a purge thread (timed wait, scan under the lock, notices after the    *)
(* unlock), a destructor that sets the stop flag under the lock, notifies and joins.  One action per critical section /      *)
(* per step outside the lock.  Deviation flags (all FALSE = the code):                                                        *)
(*   Dev_GetBoundary        get compares >= instead of >  (an entry is served AT its expiry instant)                          *)
(*   Dev_PurgeStrict        the purge compares < instead of <= (an entry at its expiry instant survives a pass: harmless for  *)
(*                          E1, shows that the two comparisons are modelled separately - no invariant fails)                 *)
(*   Dev_PurgeEvictsLive    the purge compares against now + 1 (takes out an entry that is still live)                        *)
(*   Dev_OverwriteNotifies  set on an existing key sends an eviction notice for the old value                                 *)
(*   Dev_NoticeUnderLock    get / remove invoke the callback before releasing the mutex                                       *)
(*   Dev_DtorNoJoin         the destructor does not join the purge thread                                                     *)
(*   Dev_RemoveSilent       remove erases without a notice                                                                    *)
EXTENDS Naturals, FiniteSets, Sequences, TLC
CONSTANTS Thr, Keys, Ttl, MaxT, MaxOps,
          Dev_GetBoundary, Dev_PurgeStrict, Dev_PurgeEvictsLive, Dev_OverwriteNotifies, Dev_NoticeUnderLock, Dev_DtorNoJoin, Dev_RemoveSilent
VARIABLES now, lock, map, pc, arg, ops, nextV,
          ppc, pbatch, stop, dtor,
          abs, notices, owedN, served, underLock, afterDtor
vars == <<now, lock, map, pc, arg, ops, nextV, ppc, pbatch, stop, dtor, abs, notices, owedN, served, underLock, afterDtor>>
\* map / abs: key -> [v, exp] or None.  abs is the history variable of the Abs map (what a user may rely on)
None == [v |-> 0, exp |-> 0]
NoArg == [op |-> "-", k |-> CHOOSE k \in Keys : TRUE, v |-> 0, exp |-> 0]
Init == /\ now = 0 /\ lock = "free" /\ map = [k \in Keys |-> None] /\ abs = [k \in Keys |-> None]
        /\ pc = [t \in Thr |-> "idle"] /\ arg = [t \in Thr |-> NoArg] /\ ops = 0 /\ nextV = 1
        /\ ppc = "wait" /\ pbatch = {} /\ stop = FALSE /\ dtor = "no"
        /\ notices = {} /\ owedN = {} /\ served = {} /\ underLock = FALSE /\ afterDtor = FALSE
U1 == UNCHANGED <<ppc, pbatch, stop, dtor>>
Obs0 == UNCHANGED <<notices, owedN, served, underLock, afterDtor>>
\* ---- time: moves only while nobody holds the lock or is between two steps of a call (virtual time of the harness) ----
Tick == /\ now < MaxT /\ lock = "free" /\ \A t \in Thr : pc[t] = "idle" /\ ppc \in {"wait", "done"}
        /\ now' = now + 1 /\ UNCHANGED <<lock, map, pc, arg, ops, nextV, abs>> /\ U1 /\ Obs0
\* ---- callers ---------------------------------------------------------------------------------------------------------
Begin(t, op, k) == /\ pc[t] = "idle" /\ ops < MaxOps /\ dtor = "no"
                   /\ arg' = [arg EXCEPT ![t] = [op |-> op, k |-> k, v |-> IF op = "set" THEN nextV ELSE 0, exp |-> now + Ttl]]   \* set: clock read here
                   /\ nextV' = IF op = "set" THEN nextV + 1 ELSE nextV
                   /\ pc' = [pc EXCEPT ![t] = "want"] /\ ops' = ops + 1
                   /\ UNCHANGED <<now, lock, map, abs>> /\ U1 /\ Obs0
Acquire(t) == /\ pc[t] = "want" /\ lock = "free" /\ lock' = t /\ pc' = [pc EXCEPT ![t] = "crit"]
              /\ UNCHANGED <<now, map, arg, ops, nextV, abs>> /\ U1 /\ Obs0
Notify(k, v) == notices' = notices \cup {<<k, v>>}
Crit(t) == /\ pc[t] = "crit" /\ lock = t
           /\ LET a == arg[t] k == arg[t].k e == map[arg[t].k] IN
              CASE a.op = "set" ->
                     /\ map' = [map EXCEPT ![k] = [v |-> a.v, exp |-> a.exp]] /\ abs' = [abs EXCEPT ![k] = [v |-> a.v, exp |-> a.exp]]
                     /\ IF Dev_OverwriteNotifies /\ e.v # 0 THEN Notify(k, e.v) ELSE UNCHANGED notices
                     /\ pc' = [pc EXCEPT ![t] = "unlock"] /\ UNCHANGED <<owedN, served, arg, underLock>>
                [] a.op = "get" ->
                     IF e.v # 0 /\ (e.exp > now \/ (Dev_GetBoundary /\ e.exp = now))
                     THEN /\ served' = served \cup {<<k, e.v, e.exp, now>>} /\ pc' = [pc EXCEPT ![t] = "unlock"]
                          /\ UNCHANGED <<map, abs, notices, owedN, arg, underLock>>
                     ELSE IF e.v # 0
                     THEN /\ map' = [map EXCEPT ![k] = None] /\ abs' = [abs EXCEPT ![k] = None]
                          /\ owedN' = owedN \cup {<<k, e.v>>}
                          /\ IF Dev_NoticeUnderLock THEN Notify(k, e.v) /\ underLock' = TRUE /\ pc' = [pc EXCEPT ![t] = "unlock"] /\ UNCHANGED arg
                             ELSE UNCHANGED <<notices, underLock>> /\ pc' = [pc EXCEPT ![t] = "unlock_notify"] /\ arg' = [arg EXCEPT ![t].v = e.v]
                          /\ UNCHANGED served
                     ELSE pc' = [pc EXCEPT ![t] = "unlock"] /\ UNCHANGED <<map, abs, notices, owedN, served, arg, underLock>>
                [] a.op = "remove" ->
                     IF e.v # 0
                     THEN /\ map' = [map EXCEPT ![k] = None] /\ abs' = [abs EXCEPT ![k] = None]
                          /\ owedN' = owedN \cup {<<k, e.v>>}
                          /\ IF Dev_RemoveSilent THEN UNCHANGED <<notices, underLock, arg>> /\ pc' = [pc EXCEPT ![t] = "unlock"]
                             ELSE IF Dev_NoticeUnderLock THEN Notify(k, e.v) /\ underLock' = TRUE /\ pc' = [pc EXCEPT ![t] = "unlock"] /\ UNCHANGED arg
                             ELSE UNCHANGED <<notices, underLock>> /\ pc' = [pc EXCEPT ![t] = "unlock_notify"] /\ arg' = [arg EXCEPT ![t].v = e.v]
                          /\ UNCHANGED served
                     ELSE pc' = [pc EXCEPT ![t] = "unlock"] /\ UNCHANGED <<map, abs, notices, owedN, served, arg, underLock>>
                [] OTHER -> FALSE
           /\ UNCHANGED <<now, lock, ops, nextV, afterDtor>> /\ U1
Unlock(t) == /\ pc[t] \in {"unlock", "unlock_notify"} /\ lock = t /\ lock' = "free"
             /\ pc' = [pc EXCEPT ![t] = IF pc[t] = "unlock" THEN "idle" ELSE "notify"]
             /\ UNCHANGED <<now, map, arg, ops, nextV, abs>> /\ U1 /\ Obs0
CallNotify(t) == /\ pc[t] = "notify" /\ Notify(arg[t].k, arg[t].v) /\ pc' = [pc EXCEPT ![t] = "idle"]
                 /\ afterDtor' = (afterDtor \/ dtor = "done")
                 /\ UNCHANGED <<now, lock, map, arg, ops, nextV, abs, owedN, served, underLock>> /\ U1
\* ---- purge thread: wait_for(5 s, stop) ; scan under the lock ; notices after the unlock -------------------------------
PWake == /\ ppc = "wait" /\ lock = "free" /\ lock' = "purge"
         /\ ppc' = IF stop THEN "exit" ELSE "scan"
         /\ UNCHANGED <<now, map, pc, arg, ops, nextV, abs, pbatch, stop, dtor>> /\ Obs0
Limit == IF Dev_PurgeEvictsLive THEN now + 1 ELSE now
Gone == {k \in Keys : map[k].v # 0 /\ (IF Dev_PurgeStrict THEN map[k].exp < Limit ELSE map[k].exp <= Limit)}
PScan == /\ ppc = "scan" /\ lock = "purge"
         /\ pbatch' = {<<k, map[k].v>> : k \in Gone} /\ owedN' = owedN \cup {<<k, map[k].v>> : k \in Gone}
         /\ map' = [k \in Keys |-> IF k \in Gone THEN None ELSE map[k]]
         /\ abs' = [k \in Keys |-> IF k \in Gone /\ map[k].exp <= now THEN None ELSE abs[k]]     \* (a live entry stays in the Abs map)
         /\ lock' = "free" /\ ppc' = "notify"
         /\ UNCHANGED <<now, pc, arg, ops, nextV, stop, dtor, notices, served, underLock, afterDtor>>
PNotify == /\ ppc = "notify"
           /\ IF pbatch = {} THEN ppc' = "wait" /\ UNCHANGED <<pbatch, notices, afterDtor>>
              ELSE \E n \in pbatch : /\ pbatch' = pbatch \ {n} /\ notices' = notices \cup {n} /\ UNCHANGED ppc
                                     /\ afterDtor' = (afterDtor \/ dtor = "done")
           /\ UNCHANGED <<now, lock, map, pc, arg, ops, nextV, abs, stop, dtor, owedN, served, underLock>>
PExit == /\ ppc = "exit" /\ lock = "purge" /\ lock' = "free" /\ ppc' = "done"
         /\ UNCHANGED <<now, map, pc, arg, ops, nextV, abs, pbatch, stop, dtor>> /\ Obs0
\* ---- destructor (the owner calls it when no call is in flight) ----------------------------------------------------------
DStop == /\ dtor = "no" /\ \A t \in Thr : pc[t] = "idle" /\ lock = "free"
         /\ stop' = TRUE /\ dtor' = "join"
         /\ UNCHANGED <<now, lock, map, pc, arg, ops, nextV, abs, ppc, pbatch>> /\ Obs0
DJoin == /\ dtor = "join" /\ (ppc = "done" \/ Dev_DtorNoJoin) /\ dtor' = "done"
         /\ UNCHANGED <<now, lock, map, pc, arg, ops, nextV, abs, ppc, pbatch, stop>> /\ Obs0
Next == \/ Tick \/ PWake \/ PScan \/ PNotify \/ PExit \/ DStop \/ DJoin
        \/ \E t \in Thr : Acquire(t) \/ Crit(t) \/ Unlock(t) \/ CallNotify(t)
        \/ \E t \in Thr, k \in Keys, op \in {"set", "get", "remove"} : Begin(t, op, k)
Spec == Init /\ [][Next]_vars
\* ---- properties -------------------------------------------------------------------------------------------------------------
NoStaleHit == \A s \in served : s[3] > s[4]                                 \* E1: served only while expiry > now (at the lock)
NoticeOnlyOwed == notices \subseteq owedN                                  \* E2: never for a live or overwritten entry
NoLiveEvicted == \A k \in Keys : abs[k].v # 0 => map[k] = abs[k]           \* E3: the purge takes out only what has expired
NoNoticeUnderLock == ~underLock                                            \* HR-3 of the header
NothingAfterDtor == ~afterDtor                                             \* E4
AllNoticed == (dtor = "done" /\ \A t \in Thr : pc[t] = "idle") => owedN \subseteq notices          \* E2: exactly once, none missing
================================================================================
