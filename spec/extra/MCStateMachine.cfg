CONSTANTS Procs = {"a", "b"} States = {1, 2, 3} Events = {1, 2, 3} GuardVecs <- MCGuardVecs InitState = 1 Rules <- MCRules
  OnEnter <- MCOnEnter OnExit <- MCOnExit ForceEnter <- MCForceEnter ForceExit <- MCForceExit HasAny = TRUE MaxOps = 3
  Dev_LastMatchWins = FALSE Dev_EvalAllGuards = FALSE Dev_CommitAfterEnter = FALSE Dev_NoMatchExits = FALSE Dev_ReturnLastLeg = FALSE
  Dev_ForceFiresRegular = FALSE Dev_StaleState = FALSE Dev_FollowUpUnderLock = FALSE
SPECIFICATION Spec
INVARIANT FirstMatchWins
INVARIANT LazyGuards
INVARIANT NoMatchNoEffect
INVARIANT CallbackOrder
INVARIANT ReturnValue
INVARIANT ForceOnly
INVARIANT Chain
INVARIANT NoSelfDeadlock
CHECK_DEADLOCK FALSE
