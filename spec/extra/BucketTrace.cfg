SPECIFICATION Spec
INVARIANT TraceChk
POSTCONDITION TracePost
CHECK_DEADLOCK FALSE
