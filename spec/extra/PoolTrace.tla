------------------------------ MODULE PoolTrace ------------------------------
(* X08: Abs oracle for iora::network::ObjectPool / PooledObject as a trace specification (properties P1..P6 of        *)
(* ObjectPool.tla; nothing about the order in which free objects are reused or trimmed).  Every pool operation is     *)
(* recorded as Call ... Ret with its effect (Lin) at some instant in between; the factory, the resetter and the        *)
(* destructor of the pooled objects log Created / ResetObj / Dtor themselves.                                          *)
(*   Begin{init, reset}                         one execution = one pool (init pre-created objects, resetter yes/no)    *)
(*   Call{t, op, o, n}  Ret{t, op, o, d, av, cr, ac, rl, ds}                                                            *)
(*     op: ctor | acquire | release | relnull | setmax | clear | stats | drop (holder destroys its object) | dtor      *)
(*         (pool destroyed) | pdetach (PooledObject::release(): no pool interaction)                                    *)
(*     PooledObject operations are logged as what they must amount to: makePooled = acquire, ~PooledObject and the      *)
(*     left side of a move-assignment = release of the object held (o = 0: nothing held, no effect)                     *)
(*   Created{o}  ResetObj{o}  Dtor{o}  End{outcome}                                                                     *)
(* State: free (set), held (set), dead (set), max, counters.  A Ret of acquire must name an object that was free at     *)
(* the Lin instant (then: not dirty when a resetter exists) or - only if nothing was free - the object the factory       *)
(* made during this call.  A released object goes to the free set iff |free| < max, otherwise it must be destroyed      *)
(* before release returns; setMaxPoolSize / clear / the pool's destructor destroy exactly the objects they remove       *)
(* before they return.  At End every created object has been destroyed exactly once.                                    *)
(* Named deviation accepted and reported (<<"OBS", "ClearNotCounted", line>>): getStats().totalDestroyed omits the       *)
(* objects destroyed by clear().                                                                                        *)
EXTENDS TraceBase, FiniteSets, Integers
VARIABLES free, held, dead, max, ncreated, cnt, pend, cfg
vars == <<l, free, held, dead, max, ncreated, cnt, pend, cfg>>
Thr == {Log[i].t : i \in {j \in 1..Len(Log) : "t" \in DOMAIN Log[j]}}
Idle == [st |-> "idle", op |-> "-", o |-> 0, n |-> 0, die |-> {}, fresh |-> FALSE, snap |-> <<>>]
Fresh == [t \in Thr |-> Idle]
Cnt0 == [ac |-> 0, rl |-> 0, ds |-> 0, dsAll |-> 0]
Cfg0 == [init |-> 0, reset |-> FALSE]
Init == l = 1 /\ free = {} /\ held = {} /\ dead = {} /\ max = 100 /\ ncreated = 0 /\ cnt = Cnt0 /\ pend = Fresh /\ cfg = Cfg0
Clean == free' = {} /\ held' = {} /\ dead' = {} /\ max' = 100 /\ ncreated' = 0 /\ cnt' = Cnt0 /\ pend' = Fresh
EvBegin == IsEv("Begin") /\ Clean /\ cfg' = [init |-> Ev.init, reset |-> Ev.reset = 1]
EvReset == IsEv("Reset") /\ Clean /\ cfg' = Cfg0

P(t, r) == pend' = [pend EXCEPT ![t] = r]
EvCall ==
    /\ IsEv("Call") /\ pend[Ev.t].st = "idle"
    /\ LET t == Ev.t  op == Ev.op  o == Fld("o", 0)
           base == [Idle EXCEPT !.op = op, !.o = o, !.n = Fld("n", 0)] IN
       CASE op = "ctor" -> P(t, [base EXCEPT !.st = "ctor", !.n = cfg.init]) /\ UNCHANGED held
         [] op = "release" /\ o # 0 ->
              /\ o \in held /\ held' = held \ {o}
              /\ P(t, [base EXCEPT !.st = IF cfg.reset THEN "toreset" ELSE "called"])
         [] op = "drop" -> /\ o \in held /\ held' = held \ {o} /\ P(t, [base EXCEPT !.st = "lin", !.die = {o}])
         [] op \in {"relnull", "pdetach"} \/ (op = "release" /\ o = 0) -> P(t, [base EXCEPT !.st = "lin"]) /\ UNCHANGED held
         [] op \in {"acquire", "setmax", "clear", "stats", "dtor"} -> P(t, [base EXCEPT !.st = "called"]) /\ UNCHANGED held
         [] OTHER -> FALSE
    /\ UNCHANGED <<free, dead, max, ncreated, cnt, cfg>>

\* the resetter: exactly once per release, on the object being released, before it can become available
EvResetObj ==
    /\ IsEv("ResetObj")
    /\ \E t \in Thr : pend[t].st = "toreset" /\ pend[t].o = Ev.o /\ P(t, [pend[t] EXCEPT !.st = "called"])
    /\ UNCHANGED <<free, held, dead, max, ncreated, cnt, cfg>>

Lin(t) ==
    /\ pend[t].st = "called" /\ UNCHANGED <<l, dead, ncreated, cfg>>
    /\ LET p == pend[t] IN
       CASE p.op = "acquire" ->
              IF free # {}
              THEN \E o \in free : /\ free' = free \ {o} /\ held' = held \cup {o}
                                   /\ P(t, [p EXCEPT !.st = "lin", !.o = o]) /\ cnt' = [cnt EXCEPT !.ac = @ + 1] /\ UNCHANGED max
              ELSE P(t, [p EXCEPT !.st = "create"]) /\ UNCHANGED <<free, held, max, cnt>>
         [] p.op = "release" ->
              IF Cardinality(free) < max
              THEN /\ free' = free \cup {p.o} /\ P(t, [p EXCEPT !.st = "lin"]) /\ cnt' = [cnt EXCEPT !.rl = @ + 1] /\ UNCHANGED <<held, max>>
              ELSE /\ P(t, [p EXCEPT !.st = "lin", !.die = {p.o}])
                   /\ cnt' = [cnt EXCEPT !.ds = @ + 1, !.dsAll = @ + 1] /\ UNCHANGED <<free, held, max>>
         [] p.op = "setmax" ->
              LET excess == IF Cardinality(free) > p.n THEN Cardinality(free) - p.n ELSE 0 IN
              \E K \in SUBSET free : /\ Cardinality(K) = excess /\ free' = free \ K /\ max' = p.n
                                     /\ P(t, [p EXCEPT !.st = "lin", !.die = K])
                                     /\ cnt' = [cnt EXCEPT !.ds = @ + excess, !.dsAll = @ + excess] /\ UNCHANGED held
         [] p.op = "clear" -> /\ free' = {} /\ P(t, [p EXCEPT !.st = "lin", !.die = free])
                              /\ cnt' = [cnt EXCEPT !.dsAll = @ + Cardinality(free)] /\ UNCHANGED <<held, max>>
         [] p.op = "dtor" -> /\ free' = {} /\ P(t, [p EXCEPT !.st = "lin", !.die = free]) /\ UNCHANGED <<held, max, cnt>>
         [] p.op = "stats" -> /\ P(t, [p EXCEPT !.st = "lin", !.snap = <<Cardinality(free), ncreated, cnt.ac, cnt.rl, cnt.ds, cnt.dsAll>>])
                              /\ UNCHANGED <<free, held, max, cnt>>
         [] OTHER -> FALSE

\* the factory: during the constructor (pre-population) or for an acquire that found nothing free; ids count up from 1
EvCreated ==
    /\ IsEv("Created") /\ Ev.o = ncreated + 1 /\ ncreated' = ncreated + 1
    /\ \E t \in Thr :
         \/ /\ pend[t].st = "ctor" /\ pend[t].n > 0 /\ free' = free \cup {Ev.o} /\ P(t, [pend[t] EXCEPT !.n = @ - 1]) /\ UNCHANGED held
         \/ /\ pend[t].st = "create" /\ held' = held \cup {Ev.o} /\ P(t, [pend[t] EXCEPT !.st = "lin", !.o = Ev.o, !.fresh = TRUE]) /\ UNCHANGED free
    /\ UNCHANGED <<dead, max, cnt, cfg>>

\* a destructor: only of an object some pending operation must destroy, never twice
EvDtor ==
    /\ IsEv("Dtor") /\ Ev.o \notin dead /\ dead' = dead \cup {Ev.o}
    /\ \E t \in Thr : Ev.o \in pend[t].die /\ P(t, [pend[t] EXCEPT !.die = @ \ {Ev.o}])
    /\ UNCHANGED <<free, held, max, ncreated, cnt, cfg>>

EvRet ==
    /\ IsEv("Ret")
    /\ LET t == Ev.t  p == pend[Ev.t] IN
       /\ p.op = Ev.op /\ p.die = {}
       /\ IF p.op = "ctor" THEN p.st = "ctor" /\ p.n = 0 ELSE p.st = "lin"
       /\ (p.op = "acquire") => (Ev.o = p.o /\ ((cfg.reset /\ ~p.fresh) => Ev.d = 0))
       /\ (p.op = "stats") =>
             /\ Ev.av = p.snap[1] /\ Ev.cr = p.snap[2] /\ Ev.ac = p.snap[3] /\ Ev.rl = p.snap[4]
             /\ \/ Ev.ds = p.snap[6]
                \/ Ev.ds = p.snap[5] /\ p.snap[5] # p.snap[6] /\ PrintT(<<"OBS", "ClearNotCounted", l>>)
       /\ P(t, Idle)
    /\ UNCHANGED <<free, held, dead, max, ncreated, cnt, cfg>>

\* nothing leaks: when the pool and all holders are gone every created object has been destroyed (exactly once: EvDtor)
EvEnd == /\ IsEv("End") /\ Ev.outcome = "done" /\ dead = 1..ncreated /\ \A t \in Thr : pend[t].st = "idle"
         /\ UNCHANGED <<free, held, dead, max, ncreated, cnt, pend, cfg>>
Next == EvBegin \/ EvReset \/ EvCall \/ EvResetObj \/ EvCreated \/ EvDtor \/ EvRet \/ EvEnd \/ \E t \in Thr : Lin(t)
Spec == Init /\ [][Next]_vars
=============================================================================
