SPECIFICATION Spec
CONSTANTS
  Families <- MCFamilies
  Dev_EmptyKeyHang = FALSE
  Dev_InsertOverwrites = FALSE
  Dev_DupTableMerged = FALSE
  Dev_EmptyHeaderIsRoot = FALSE
  Dev_SameLineStatements = FALSE
  Dev_NumberPrefixAccepted = FALSE
  Dev_LiteralStringEscapes = FALSE
  Dev_UnknownEscapeKept = FALSE
  Dev_DottedKeyLiteral = FALSE
  Dev_EmptyArrayBecomesAot = FALSE
  Dev_EmptyTableDropped = FALSE
  Dev_FloatIntegralToInt = FALSE
  Dev_FloatPrecision15 = FALSE
  Dev_NestedArrayLost = FALSE
  Dev_HeaderNotScoped = FALSE
  Dev_AotOverwrites = FALSE
  Dev_BoolAsInt = FALSE
INVARIANT Refines
CHECK_DEADLOCK FALSE
