---- MODULE MCSignal_TTrace_1790404695 ----
EXTENDS Sequences, TLCExt, Toolbox, MCSignal, Naturals, TLC

_expression ==
    LET MCSignal_TEExpression == INSTANCE MCSignal_TEExpression
    IN MCSignal_TEExpression!expression
----

_trace ==
    LET MCSignal_TETrace == INSTANCE MCSignal_TETrace
    IN MCSignal_TETrace!trace
----

_inv ==
    ~(
        TLCGet("level") = Len(_TETrace)
        /\
        conn = (<<[c |-> 1, d |-> 0]>>)
        /\
        clk = (4)
        /\
        pruneFlag = (FALSE)
        /\
        alive = ({})
        /\
        last = ([x |-> 1, anyExp |-> TRUE, overlap |-> FALSE, pruned |-> FALSE, t |-> "a", act |-> "EmitRet", before |-> <<[id |-> 1, w |-> 1, kind |-> "weak"]>>])
        /\
        snapAt = (<<2>>)
        /\
        em = ([a |-> [i |-> 0, x |-> 0, snap |-> <<>>, anyExp |-> FALSE, overlap |-> FALSE, pruned |-> FALSE], b |-> [i |-> 0, x |-> 0, snap |-> <<>>, anyExp |-> FALSE, overlap |-> FALSE, pruned |-> FALSE]])
        /\
        mutex = ("-")
        /\
        inv = (<<>>)
        /\
        slots = (<<[id |-> 1, w |-> 1, kind |-> "weak"]>>)
        /\
        nextId = (2)
        /\
        pc = ([a |-> <<"idle">>, b |-> <<"idle">>])
        /\
        nops = (3)
        /\
        nemit = (1)
    )
----

_init ==
    /\ nops = _TETrace[1].nops
    /\ alive = _TETrace[1].alive
    /\ slots = _TETrace[1].slots
    /\ conn = _TETrace[1].conn
    /\ pc = _TETrace[1].pc
    /\ nextId = _TETrace[1].nextId
    /\ clk = _TETrace[1].clk
    /\ nemit = _TETrace[1].nemit
    /\ em = _TETrace[1].em
    /\ last = _TETrace[1].last
    /\ inv = _TETrace[1].inv
    /\ mutex = _TETrace[1].mutex
    /\ snapAt = _TETrace[1].snapAt
    /\ pruneFlag = _TETrace[1].pruneFlag
----

_next ==
    /\ \E i,j \in DOMAIN _TETrace:
        /\ \/ /\ j = i + 1
              /\ i = TLCGet("level")
        /\ nops  = _TETrace[i].nops
        /\ nops' = _TETrace[j].nops
        /\ alive  = _TETrace[i].alive
        /\ alive' = _TETrace[j].alive
        /\ slots  = _TETrace[i].slots
        /\ slots' = _TETrace[j].slots
        /\ conn  = _TETrace[i].conn
        /\ conn' = _TETrace[j].conn
        /\ pc  = _TETrace[i].pc
        /\ pc' = _TETrace[j].pc
        /\ nextId  = _TETrace[i].nextId
        /\ nextId' = _TETrace[j].nextId
        /\ clk  = _TETrace[i].clk
        /\ clk' = _TETrace[j].clk
        /\ nemit  = _TETrace[i].nemit
        /\ nemit' = _TETrace[j].nemit
        /\ em  = _TETrace[i].em
        /\ em' = _TETrace[j].em
        /\ last  = _TETrace[i].last
        /\ last' = _TETrace[j].last
        /\ inv  = _TETrace[i].inv
        /\ inv' = _TETrace[j].inv
        /\ mutex  = _TETrace[i].mutex
        /\ mutex' = _TETrace[j].mutex
        /\ snapAt  = _TETrace[i].snapAt
        /\ snapAt' = _TETrace[j].snapAt
        /\ pruneFlag  = _TETrace[i].pruneFlag
        /\ pruneFlag' = _TETrace[j].pruneFlag

\* Uncomment the ASSUME below to write the states of the error trace
\* to the given file in Json format. Note that you can pass any tuple
\* to `JsonSerialize`. For example, a sub-sequence of _TETrace.
    \* ASSUME
    \*     LET J == INSTANCE Json
    \*         IN J!JsonSerialize("MCSignal_TTrace_1790404695.json", _TETrace)

=============================================================================

 Note that you can extract this module `MCSignal_TEExpression`
  to a dedicated file to reuse `expression` (the module in the 
  dedicated `MCSignal_TEExpression.tla` file takes precedence 
  over the module `MCSignal_TEExpression` below).

---- MODULE MCSignal_TEExpression ----
EXTENDS Sequences, TLCExt, Toolbox, MCSignal, Naturals, TLC

expression == 
    [
        \* To hide variables of the `MCSignal` spec from the error trace,
        \* remove the variables below.  The trace will be written in the order
        \* of the fields of this record.
        nops |-> nops
        ,alive |-> alive
        ,slots |-> slots
        ,conn |-> conn
        ,pc |-> pc
        ,nextId |-> nextId
        ,clk |-> clk
        ,nemit |-> nemit
        ,em |-> em
        ,last |-> last
        ,inv |-> inv
        ,mutex |-> mutex
        ,snapAt |-> snapAt
        ,pruneFlag |-> pruneFlag
        
        \* Put additional constant-, state-, and action-level expressions here:
        \* ,_stateNumber |-> _TEPosition
        \* ,_nopsUnchanged |-> nops = nops'
        
        \* Format the `nops` variable as Json value.
        \* ,_nopsJson |->
        \*     LET J == INSTANCE Json
        \*     IN J!ToJson(nops)
        
        \* Lastly, you may build expressions over arbitrary sets of states by
        \* leveraging the _TETrace operator.  For example, this is how to
        \* count the number of times a spec variable changed up to the current
        \* state in the trace.
        \* ,_nopsModCount |->
        \*     LET F[s \in DOMAIN _TETrace] ==
        \*         IF s = 1 THEN 0
        \*         ELSE IF _TETrace[s].nops # _TETrace[s-1].nops
        \*             THEN 1 + F[s-1] ELSE F[s-1]
        \*     IN F[_TEPosition - 1]
    ]

=============================================================================



Parsing and semantic processing can take forever if the trace below is long.
 In this case, it is advised to uncomment the module below to deserialize the
 trace from a generated binary file.

\*
\*---- MODULE MCSignal_TETrace ----
\*EXTENDS IOUtils, MCSignal, TLC
\*
\*trace == IODeserialize("MCSignal_TTrace_1790404695.bin", TRUE)
\*
\*=============================================================================
\*

---- MODULE MCSignal_TETrace ----
EXTENDS MCSignal, TLC

trace == 
    <<
    ([conn |-> <<>>,clk |-> 1,pruneFlag |-> FALSE,alive |-> {1},last |-> [x |-> 0, t |-> "-", act |-> "Init", before |-> <<>>],snapAt |-> <<>>,em |-> [a |-> [i |-> 0, x |-> 0, snap |-> <<>>, anyExp |-> FALSE, overlap |-> FALSE, pruned |-> FALSE], b |-> [i |-> 0, x |-> 0, snap |-> <<>>, anyExp |-> FALSE, overlap |-> FALSE, pruned |-> FALSE]],mutex |-> "-",inv |-> <<>>,slots |-> <<>>,nextId |-> 1,pc |-> [a |-> <<"idle">>, b |-> <<"idle">>],nops |-> 0,nemit |-> 0]),
    ([conn |-> <<[c |-> 1, d |-> 0]>>,clk |-> 2,pruneFlag |-> FALSE,alive |-> {1},last |-> [x |-> 0, t |-> "a", act |-> "ConnectCS", before |-> <<>>],snapAt |-> <<>>,em |-> [a |-> [i |-> 0, x |-> 0, snap |-> <<>>, anyExp |-> FALSE, overlap |-> FALSE, pruned |-> FALSE], b |-> [i |-> 0, x |-> 0, snap |-> <<>>, anyExp |-> FALSE, overlap |-> FALSE, pruned |-> FALSE]],mutex |-> "-",inv |-> <<>>,slots |-> <<[id |-> 1, w |-> 1, kind |-> "weak"]>>,nextId |-> 2,pc |-> [a |-> <<"idle">>, b |-> <<"idle">>],nops |-> 1,nemit |-> 0]),
    ([conn |-> <<[c |-> 1, d |-> 0]>>,clk |-> 3,pruneFlag |-> FALSE,alive |-> {1},last |-> [x |-> 0, t |-> "a", act |-> "EmitLoad", before |-> <<[id |-> 1, w |-> 1, kind |-> "weak"]>>],snapAt |-> <<2>>,em |-> [a |-> [i |-> 0, x |-> 1, snap |-> <<[id |-> 1, w |-> 1, kind |-> "weak"]>>, anyExp |-> FALSE, overlap |-> FALSE, pruned |-> FALSE], b |-> [i |-> 0, x |-> 0, snap |-> <<>>, anyExp |-> FALSE, overlap |-> FALSE, pruned |-> FALSE]],mutex |-> "-",inv |-> <<>>,slots |-> <<[id |-> 1, w |-> 1, kind |-> "weak"]>>,nextId |-> 2,pc |-> [a |-> <<"iter">>, b |-> <<"idle">>],nops |-> 2,nemit |-> 1]),
    ([conn |-> <<[c |-> 1, d |-> 0]>>,clk |-> 4,pruneFlag |-> FALSE,alive |-> {},last |-> [x |-> 0, t |-> "b", act |-> "Expire", before |-> <<[id |-> 1, w |-> 1, kind |-> "weak"]>>],snapAt |-> <<2>>,em |-> [a |-> [i |-> 0, x |-> 1, snap |-> <<[id |-> 1, w |-> 1, kind |-> "weak"]>>, anyExp |-> FALSE, overlap |-> FALSE, pruned |-> FALSE], b |-> [i |-> 0, x |-> 0, snap |-> <<>>, anyExp |-> FALSE, overlap |-> FALSE, pruned |-> FALSE]],mutex |-> "-",inv |-> <<>>,slots |-> <<[id |-> 1, w |-> 1, kind |-> "weak"]>>,nextId |-> 2,pc |-> [a |-> <<"iter">>, b |-> <<"idle">>],nops |-> 3,nemit |-> 1]),
    ([conn |-> <<[c |-> 1, d |-> 0]>>,clk |-> 4,pruneFlag |-> FALSE,alive |-> {},last |-> [x |-> 1, t |-> "a", act |-> "EmitStep", before |-> <<[id |-> 1, w |-> 1, kind |-> "weak"]>>],snapAt |-> <<2>>,em |-> [a |-> [i |-> 1, x |-> 1, snap |-> <<[id |-> 1, w |-> 1, kind |-> "weak"]>>, anyExp |-> TRUE, overlap |-> FALSE, pruned |-> FALSE], b |-> [i |-> 0, x |-> 0, snap |-> <<>>, anyExp |-> FALSE, overlap |-> FALSE, pruned |-> FALSE]],mutex |-> "-",inv |-> <<>>,slots |-> <<[id |-> 1, w |-> 1, kind |-> "weak"]>>,nextId |-> 2,pc |-> [a |-> <<"iter">>, b |-> <<"idle">>],nops |-> 3,nemit |-> 1]),
    ([conn |-> <<[c |-> 1, d |-> 0]>>,clk |-> 4,pruneFlag |-> FALSE,alive |-> {},last |-> [x |-> 1, t |-> "a", act |-> "EmitEnd", before |-> <<[id |-> 1, w |-> 1, kind |-> "weak"]>>],snapAt |-> <<2>>,em |-> [a |-> [i |-> 1, x |-> 1, snap |-> <<[id |-> 1, w |-> 1, kind |-> "weak"]>>, anyExp |-> TRUE, overlap |-> FALSE, pruned |-> FALSE], b |-> [i |-> 0, x |-> 0, snap |-> <<>>, anyExp |-> FALSE, overlap |-> FALSE, pruned |-> FALSE]],mutex |-> "-",inv |-> <<>>,slots |-> <<[id |-> 1, w |-> 1, kind |-> "weak"]>>,nextId |-> 2,pc |-> [a |-> <<"emitret">>, b |-> <<"idle">>],nops |-> 3,nemit |-> 1]),
    ([conn |-> <<[c |-> 1, d |-> 0]>>,clk |-> 4,pruneFlag |-> FALSE,alive |-> {},last |-> [x |-> 1, anyExp |-> TRUE, overlap |-> FALSE, pruned |-> FALSE, t |-> "a", act |-> "EmitRet", before |-> <<[id |-> 1, w |-> 1, kind |-> "weak"]>>],snapAt |-> <<2>>,em |-> [a |-> [i |-> 0, x |-> 0, snap |-> <<>>, anyExp |-> FALSE, overlap |-> FALSE, pruned |-> FALSE], b |-> [i |-> 0, x |-> 0, snap |-> <<>>, anyExp |-> FALSE, overlap |-> FALSE, pruned |-> FALSE]],mutex |-> "-",inv |-> <<>>,slots |-> <<[id |-> 1, w |-> 1, kind |-> "weak"]>>,nextId |-> 2,pc |-> [a |-> <<"idle">>, b |-> <<"idle">>],nops |-> 3,nemit |-> 1])
    >>
----


=============================================================================

---- CONFIG MCSignal_TTrace_1790404695 ----
CONSTANTS
    Procs = { "a" , "b" }
    Kinds = { "plain" , "selfdisc" , "killnext" , "connector" , "weak" }
    Objs = { 1 }
    MaxOps = 4
    MaxIds = 3
    Dev_IterateLive = FALSE
    Dev_CowNoLock = FALSE
    Dev_PushFront = FALSE
    Dev_PruneAllWeak = FALSE
    Dev_NoExpiryCheck = FALSE
    Dev_NoPrune = TRUE
    Dev_EmitHoldsMutex = FALSE

INVARIANT
    _inv

CHECK_DEADLOCK
    \* CHECK_DEADLOCK off because of PROPERTY or INVARIANT above.
    FALSE

INIT
    _init

NEXT
    _next

CONSTANT
    _TETrace <- _trace

ALIAS
    _expression
=============================================================================
\* Generated on Sat Sep 26 06:38:20 UTC 2026