SPECIFICATION Spec
CONSTANTS
  V4Texts <- MCV4Texts
  V4Vals <- MCV4Vals
  N4Cases <- MCN4Cases
  V6Texts <- MCV6Texts
  V6Vals <- MCV6Vals
  N6Cases <- MCN6Cases
  C6Vals <- MCC6Vals
  AnyTexts <- MCAnyTexts
  CidrTexts <- MCCidrTexts
  HasCases <- MCHasCases
  ReparseCases <- MCReparseCases
  TrustCases <- MCTrustCases
  Dev_FailedParseMutates = FALSE
  Dev_TrustTextualHost = FALSE
  Dev_LeadingZeroOk = FALSE
  Dev_Octet256 = FALSE
  Dev_NoTrailCheck = FALSE
  Dev_Prefix0Shift = FALSE
  Dev_Private172Slash16 = FALSE
  Dev_DcPosEarly = FALSE
  Dev_TieLast = FALSE
  Dev_CompressSingle = FALSE
  Dev_RemMaskLow = FALSE
  Dev_NoFamilyPrefixCheck = FALSE
  Dev_LenientColon = FALSE
  Dev_LenientPrefix = FALSE
INVARIANT Refines
INVARIANT RoundTrip
INVARIANT Progress
INVARIANT Emit
CHECK_DEADLOCK FALSE
