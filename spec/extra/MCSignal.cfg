CONSTANTS Procs = {"a", "b"} Kinds = {"plain", "selfdisc", "killnext", "connector", "weak"} Objs = {1} MaxOps = 4 MaxIds = 3
  Dev_IterateLive = FALSE Dev_CowNoLock = FALSE Dev_PushFront = FALSE Dev_PruneAllWeak = FALSE Dev_NoExpiryCheck = FALSE Dev_NoPrune = FALSE Dev_EmitHoldsMutex = FALSE
SPECIFICATION Spec
INVARIANT Order
INVARIANT Snapshot
INVARIANT NeverInvokeExpired
INVARIANT ExactlyOnce
INVARIANT NoLostUpdate
INVARIANT UniqueIds
INVARIANT PruneKeepsLive
INVARIANT PruneRemovesExpired
INVARIANT PrunedAfterEmit
INVARIANT NoSelfDeadlock
CHECK_DEADLOCK FALSE
