------------------------------ MODULE IpUtils ------------------------------
(* X24 - iora::network IPv4 / IPv6 / IpAddress / CidrNetwork (include/iora/network/ip_utils.hpp).                    *)
(* Generator + Impl specification.                                                                                  *)
(*                                                                                                                  *)
(* What a user relies on (Abs, stated in IpOps.tla on the FIELDS of the text and the BITS of the address):           *)
(*   P4  IPv4::parse(s) succeeds  IFF  s is four '.'-separated decimal fields, each 1..3 digits, value <= 255 and    *)
(*       WITHOUT a leading zero ("never an octal-looking octet"); the value is the four octets; isValid agrees.      *)
(*   T4  at most one text per IPv4 value is accepted: toString(parse(s)) = s, and parse(toString(v)) = v.            *)
(*   N4  inNetwork(ip, net, p) agrees with the bitwise definition "the first p bits are equal" for EVERY p in 0..32  *)
(*       (/0 contains everything, /32 only the address itself); no undefined shift.                                 *)
(*   C4  isPrivate / isLoopback agree with containment in 10/8, 172.16/12, 192.168/16 and 127/8.                     *)
(*   P6  IPv6::parse(s) succeeds IFF s is an RFC 4291 text: 8 groups of 1..4 hex digits, or fewer with exactly ONE   *)
(*       "::" standing for one or more zero groups, or the IPv4-mapped form "::ffff:d.d.d.d"; the value is exact.    *)
(*   F6  IPv6::toString is the RFC 5952 text (lower case, no leading zeros, the LONGEST run of >= 2 zero groups      *)
(*       compressed, the LEFTMOST on a tie, a single zero group never) and parse(toString(g)) = g (round trip).      *)
(*   N6  inNetwork agrees with the bitwise definition for every p in 0..128.                                         *)
(*   C6  isLoopback / isLinkLocal / isUniqueLocal / isIPv4Mapped agree with ::1/128, fe80::/10, fc00::/7,            *)
(*       ::ffff:0:0/96.                                                                                              *)
(*   A   IpAddress(s) is valid IFF P4 or P6 accepts s, reports that family, and toString() is the canonical text.    *)
(*   CI  CidrNetwork::parse(s) succeeds IFF s = addr or addr "/" decimal with addr valid and the prefix <= 32 (IPv4) *)
(*       or <= 128 (IPv6); without "/" the prefix is 32 / 128; toString gives addr[/p] back (p omitted for a host).  *)
(*   H   contains(ip) IFF ip is a valid text of the SAME family whose first p bits equal the network's.              *)
(*   RP  a CidrNetwork on which parse() FAILED is either invalid or unchanged (never a valid mixture of two texts).     *)
(*   TL  TrustedNetworkList (sequential use): contains(ip) IFF some added network contains ip BY VALUE; at most one    *)
(*       entry per (address text, prefix): a duplicate add is refused.                                                *)
(*   M   no crash, no sanitizer report, no exception on any text (ASan + UBSan, exact-size strings).                 *)
(*                                                                                                                  *)
(* Init enumerates the configured cases (MCIpUtils.tla); one action per entry point computes the result with          *)
(* operators shaped like the code (scanning loops, masks, byte compares); Refines compares with IpOps.                *)
(* Deviations (default FALSE; each one makes TLC report a violation - self-test of checks/X24.py):                    *)
(*   Dev_LeadingZeroOk       "01.2.3.4" accepted                          Dev_Octet256        octet test "> 256"       *)
(*   Dev_NoTrailCheck        characters after the 4th octet ignored      Dev_Prefix0Shift    /0 computed by 1u << 32  *)
(*   Dev_Private172Slash16   172.16/16 instead of /12                    Dev_DcPosEarly      "::" position recorded    *)
(*   Dev_TieLast             the LAST of two equal zero runs compressed                      before the group left     *)
(*   Dev_CompressSingle      a single zero group is written "::"                             of it is stored           *)
(*   Dev_RemMaskLow          partial byte compared on its LOW bits       Dev_NoFamilyPrefixCheck  10.0.0.0/33 accepted  *)
(*   Dev_FailedParseMutates (AS BUILT) a REJECTED second parse() on a valid CidrNetwork leaves it valid with the new     *)
(*                     prefix / family already stored ("10.0.0.0/8" then "zz::/64" -> valid, IPv6, /64, all-zero address) *)
(*   Dev_TrustTextualHost (AS BUILT) TrustedNetworkList looks single hosts up by TEXT: "::1" trusted, "0:0:0:0:0:0:0:1" not *)
(*   Dev_LenientColon  (AS BUILT) stray ':' skipped: ":1:2:3:4:5:6:7:8", "1:2:3:4:5:6:7:8:", "1:::2" accepted         *)
(*   Dev_LenientPrefix (AS BUILT) prefix read with std::stoul: "10.0.0.0/8x", "/ 8", "/+8", "/-0", "/0x10" accepted   *)
(* The last two are how the real code behaves today: IpUtilsTrace.tla accepts exactly those results as a NAMED        *)
(* deviation and the check reports them as OBSERVATION (green); see checks/X24.meta.json.                             *)
EXTENDS IpOps, TLC, Json

CONSTANTS V4Texts, V4Vals, N4Cases, V6Texts, V6Vals, N6Cases, C6Vals, AnyTexts, CidrTexts, HasCases, ReparseCases, TrustCases,
          Dev_FailedParseMutates, Dev_TrustTextualHost,
          Dev_LeadingZeroOk, Dev_Octet256, Dev_NoTrailCheck, Dev_Prefix0Shift, Dev_Private172Slash16, Dev_DcPosEarly,
          Dev_TieLast, Dev_CompressSingle, Dev_RemMaskLow, Dev_NoFamilyPrefixCheck, Dev_LenientColon, Dev_LenientPrefix

VARIABLES kind, x, y, p, done, res
vars == <<kind, x, y, p, done, res>>

\* N*Cases are triples <<net bytes, flipped bit j (-1: none), prefix p>>: the probe address is net with bit j flipped
Init == /\ \/ kind = "P4" /\ x \in V4Texts /\ y = <<>> /\ p = 0
           \/ kind \in {"F4", "C4"} /\ x \in V4Vals /\ y = <<>> /\ p = 0
           \/ kind = "N4" /\ \E c \in N4Cases : x = c[1] /\ y = Flip(c[1], c[2]) /\ p = c[3]
           \/ kind = "P6" /\ x \in V6Texts /\ y = <<>> /\ p = 0
           \/ kind = "F6" /\ x \in V6Vals /\ y = <<>> /\ p = 0
           \/ kind = "C6" /\ x \in C6Vals /\ y = <<>> /\ p = 0
           \/ kind = "N6" /\ \E c \in N6Cases : x = c[1] /\ y = Flip(c[1], c[2]) /\ p = c[3]
           \/ kind = "A" /\ x \in AnyTexts /\ y = <<>> /\ p = 0
           \/ kind = "CI" /\ x \in CidrTexts /\ y = <<>> /\ p = 0
           \/ kind = "H" /\ \E c \in HasCases : x = c[1] /\ y = c[2] /\ p = 0
           \/ kind = "RP" /\ \E c \in ReparseCases : x = c[1] /\ y = c[2] /\ p = 0
           \/ kind = "TL" /\ \E c \in TrustCases : x = c[1] /\ y = c[2] /\ p = 0
        /\ done = FALSE /\ res = <<>>

\* ------------------------------------------------------------------ IPv4::parse (scanning loop of the code)
RECURSIVE ScanDigits(_, _, _)
ScanDigits(s, pos, acc) == IF pos <= Len(s) /\ IsDigit(s[pos])
                           THEN LET v == (acc * 10) + (s[pos] - 48) IN
                                IF v > (IF Dev_Octet256 THEN 256 ELSE 255) THEN [pos |-> pos, val |-> v, over |-> TRUE]
                                ELSE ScanDigits(s, pos + 1, v)
                           ELSE [pos |-> pos, val |-> acc, over |-> FALSE]
RECURSIVE Impl4R(_, _, _, _)
Impl4R(s, i, pos, octs) ==
  IF i > 4 THEN (IF pos = Len(s) + 1 \/ Dev_NoTrailCheck THEN [ok |-> TRUE, v |-> octs] ELSE Rej4)
  ELSE LET p1 == IF i > 1 THEN pos + 1 ELSE pos IN
       IF i > 1 /\ (pos > Len(s) \/ s[pos] # Dot) THEN Rej4
       ELSE IF p1 > Len(s) \/ ~IsDigit(s[p1]) THEN Rej4
       ELSE LET d == ScanDigits(s, p1, 0) IN
            IF d.over THEN Rej4
            ELSE IF d.pos - p1 > 1 /\ s[p1] = 48 /\ ~Dev_LeadingZeroOk THEN Rej4
            ELSE Impl4R(s, i + 1, d.pos, Append(octs, d.val))
Impl4(s) == IF s = <<>> THEN Rej4 ELSE Impl4R(s, 1, 1, <<>>)

\* ------------------------------------------------------------------ IPv4::inNetwork (netmask per octet), isPrivate
Clamp8(n) == IF n < 0 THEN 0 ELSE IF n > 8 THEN 8 ELSE n
ImplIn4(ip, net, q) == IF q = 0 /\ Dev_Prefix0Shift THEN ip = net          \* 1u << 32 behaves as 1u << 0: mask = ~0
                       ELSE IF q = 0 THEN TRUE
                       ELSE LET pl == IF q >= 32 THEN 32 ELSE q IN
                            \A k \in 1..4 : LET sh == 2 ^ (8 - Clamp8(pl - (8 * (k - 1)))) IN ip[k] \div sh = net[k] \div sh
ImplPrivate(v) == \/ v[1] = 10
                  \/ v[1] = 172 /\ (IF Dev_Private172Slash16 THEN v[2] = 16 ELSE v[2] \div 16 = 1)
                  \/ v[1] = 192 /\ v[2] = 168
ImplLoop4(v) == v[1] = 127

\* ------------------------------------------------------------------ IPv6::parse (group loop of the code)
FindFrom(s, c, from) == IF \E k \in from..Len(s) : s[k] = c
                        THEN CHOOSE k \in from..Len(s) : s[k] = c /\ \A q \in from..(k - 1) : s[q] # c ELSE 0
Fill(gs, seen, dc) == IF seen THEN (IF Len(gs) > 7 THEN Rej6
                                    ELSE [ok |-> TRUE, g |-> SubSeq(gs, 1, dc) \o Zeros(8 - Len(gs)) \o SubSeq(gs, dc + 1, Len(gs))])
                      ELSE IF Len(gs) # 8 THEN Rej6 ELSE [ok |-> TRUE, g |-> gs]
RECURSIVE Impl6R(_, _, _, _, _)
Impl6R(s, pos, gs, seen, dc) ==
  IF pos > Len(s) THEN Fill(gs, seen, dc)
  ELSE LET c == FindFrom(s, Colon, pos) IN
       IF c # 0 /\ c + 1 <= Len(s) /\ s[c + 1] = Colon
       THEN IF seen THEN Rej6                                                      \* a second "::"
            ELSE IF c > pos /\ ~GroupOk(SubSeq(s, pos, c - 1)) THEN Rej6
            ELSE LET gs2 == IF c > pos THEN Append(gs, NumVal(SubSeq(s, pos, c - 1), 16)) ELSE gs IN
                 IF c = pos /\ ~Dev_LenientColon THEN Rej6                          \* ":::" - an empty group before "::"
                 ELSE Impl6R(s, c + 2, gs2, TRUE, IF Dev_DcPosEarly THEN Len(gs) ELSE Len(gs2))
       ELSE LET g == IF c = 0 THEN SubSeq(s, pos, Len(s)) ELSE SubSeq(s, pos, c - 1)
                np == IF c = 0 THEN Len(s) + 1 ELSE c + 1 IN
            IF c # 0 /\ c = Len(s) /\ ~Dev_LenientColon THEN Rej6                   \* the text ends in a single ':'
            ELSE IF g = <<>> THEN (IF Dev_LenientColon THEN Impl6R(s, np, gs, seen, dc) ELSE Rej6)
            ELSE IF ~GroupOk(g) THEN Rej6
            ELSE Impl6R(s, np, Append(gs, NumVal(g, 16)), seen, dc)
ImplMapped(s) == IF MappedPrefix(s) /\ Impl4(SubSeq(s, 8, Len(s))).ok
                 THEN LET v == Impl4(SubSeq(s, 8, Len(s))).v IN
                      [ok |-> TRUE, g |-> <<0, 0, 0, 0, 0, 65535, (v[1] * 256) + v[2], (v[3] * 256) + v[4]>>]
                 ELSE Rej6
Impl6(s) == IF s = <<>> THEN Rej6
            ELSE IF ImplMapped(s).ok THEN ImplMapped(s)
            ELSE IF Len(s) >= 2 /\ s[1] = Colon /\ s[2] = Colon
                 THEN (IF Len(s) = 2 THEN [ok |-> TRUE, g |-> Zeros(8)] ELSE Impl6R(s, 3, <<>>, TRUE, 0))
                 ELSE Impl6R(s, 1, <<>>, FALSE, 0)

\* ------------------------------------------------------------------ IPv6::toString (best-run scan, emission loop)
RECURSIVE BestR(_, _, _, _, _, _)
BestR(g, i, bs, bl, cs, cl) ==
  IF i > 8 THEN <<bs, bl>>
  ELSE IF g[i] = 0
       THEN LET cs2 == IF cl = 0 THEN i ELSE cs
                cl2 == cl + 1 IN
            IF cl2 > bl \/ (Dev_TieLast /\ cl2 = bl /\ bl > 1) THEN BestR(g, i + 1, cs2, cl2, cs2, cl2)
            ELSE BestR(g, i + 1, bs, bl, cs2, cl2)
       ELSE BestR(g, i + 1, bs, bl, cs, 0)
RECURSIVE EmitR(_, _, _, _, _)
EmitR(g, i, bs, bl, em) ==
  IF i > 8 THEN <<>>
  ELSE IF bs <= 8 /\ i >= bs /\ i < bs + bl THEN (IF ~em THEN <<Colon, Colon>> ELSE <<>>) \o EmitR(g, i + 1, bs, bl, TRUE)
  ELSE (IF i > 1 /\ ~em THEN <<Colon>> ELSE <<>>) \o HexText(g[i]) \o EmitR(g, i + 1, bs, bl, FALSE)
ImplFmt6(g) == LET b == BestR(g, 1, 9, IF Dev_CompressSingle THEN 0 ELSE 1, 1, 0) IN EmitR(g, 1, b[1], b[2], FALSE)

\* ------------------------------------------------------------------ IPv6::inNetwork (full bytes, then a partial byte)
ImplIn6(ip, net, q) == LET pl == Min(q, 128)
                           fb == pl \div 8
                           rb == pl % 8 IN
                       /\ \A i \in 1..fb : ip[i] = net[i]
                       /\ (rb > 0 /\ fb < 16) => LET sh == 2 ^ (8 - rb) IN
                                                 IF Dev_RemMaskLow THEN ip[fb + 1] % sh = net[fb + 1] % sh
                                                 ELSE ip[fb + 1] \div sh = net[fb + 1] \div sh
ImplLoop6(b) == b = B6Loop
ImplLinkLocal(b) == b[1] = 254 /\ b[2] \div 64 = 2
ImplUla(b) == b[1] \div 2 = 126
ImplMapped4(b) == (\A k \in 1..10 : b[k] = 0) /\ b[11] = 255 /\ b[12] = 255

\* ------------------------------------------------------------------ IpAddress, CidrNetwork
ImplAny(s) == IF Impl4(s).ok THEN [ok |-> TRUE, fam |-> 4, str |-> Fmt4(Impl4(s).v)]
              ELSE IF Impl6(s).ok THEN [ok |-> TRUE, fam |-> 6, str |-> ImplFmt6(Impl6(s).g)]
              ELSE [ok |-> FALSE, fam |-> 0, str |-> <<>>]
RefAny(s) == IF Ref4(s).ok THEN [ok |-> TRUE, fam |-> 4, str |-> Fmt4(Ref4(s).v)]
             ELSE IF Ref6(s).ok THEN [ok |-> TRUE, fam |-> 6, str |-> Ref5952(Ref6(s).g)]
             ELSE [ok |-> FALSE, fam |-> 0, str |-> <<>>]
ImplCidr(s) ==
  LET sp == FirstAt(s, Slash)
      addr == IF sp = 0 THEN s ELSE SubSeq(s, 1, sp - 1)
      pn == IF Dev_LenientPrefix THEN StoulNum(PfxPart(s)) ELSE StrictNum(PfxPart(s))
  IN  IF sp # 0 /\ (~pn.ok \/ pn.v > 128) THEN RejC
      ELSE IF Has(addr, Colon)
           THEN (IF ~Impl6(addr).ok THEN RejC
                 ELSE [ok |-> TRUE, fam |-> 6, p |-> IF sp = 0 THEN 128 ELSE pn.v, addr |-> addr, bytes |-> Bytes(Impl6(addr).g)])
           ELSE (IF ~Impl4(addr).ok THEN RejC
                 ELSE IF sp # 0 /\ pn.v > 32 /\ ~Dev_NoFamilyPrefixCheck THEN RejC
                 ELSE [ok |-> TRUE, fam |-> 4, p |-> IF sp = 0 THEN 32 ELSE pn.v, addr |-> addr, bytes |-> Impl4(addr).v])
ImplHas(c, ip) == IF Has(ip, Colon) THEN c.fam = 6 /\ Impl6(ip).ok /\ ImplIn6(Bytes(Impl6(ip).g), c.bytes, c.p)
                  ELSE c.fam = 4 /\ Impl4(ip).ok /\ ImplIn4(Impl4(ip).v, c.bytes, c.p)


\* ------------------------------------------------------------------ a second parse() on the same CidrNetwork object
StateOf(c) == [valid |-> c.ok, fam |-> c.fam, p |-> c.p, addr |-> c.addr]
ViewSt(ok2, st) == [ok2 |-> ok2, valid |-> st.valid, fam |-> IF st.valid THEN st.fam ELSE 0, p |-> IF st.valid THEN st.p ELSE 0,
                    str |-> IF st.valid THEN CidrText(st) ELSE <<>>]
\* the members the code has already overwritten when the second text is rejected (prefixLength, then family)
Mutated(st, s2) == LET sp == FirstAt(s2, Slash)
                       pn == StrictNum(PfxPart(s2)) IN
                   IF sp # 0 /\ (~pn.ok \/ pn.v > 128) THEN st
                   ELSE [st EXCEPT !.p = IF sp # 0 THEN pn.v ELSE @, !.fam = IF Has(AddrPart(s2), Colon) THEN 6 ELSE 4]
ImplReparse(s1, s2) == LET c1 == ImplCidr(s1)
                           c2 == ImplCidr(s2) IN
                       IF c2.ok THEN ViewSt(TRUE, StateOf(c2))
                       ELSE ViewSt(FALSE, IF Dev_FailedParseMutates /\ c1.ok THEN Mutated(StateOf(c1), s2) ELSE StateOf(c1))
RefReparse(s1, s2) == IF RefCidr(s2).ok THEN ViewSt(TRUE, StateOf(RefCidr(s2))) ELSE ViewSt(FALSE, StateOf(RefCidr(s1)))
\* ------------------------------------------------------------------ TrustedNetworkList: addCidr of each text, then contains(ip)
\* the entry vector: the accepted texts, a later duplicate (address text, prefix) refused; single hosts go to a hash set
\* of TEXTS, ranges are matched by value  (each heavy operator is referenced once: TLC's coverage walks the call tree)
IsHostNet(c) == c.p = (IF c.fam = 6 THEN 128 ELSE 32)
ImplTrust(nets, ip) == LET cs == [k \in 1..Len(nets) |-> ImplCidr(nets[k])]
                           kept == {k \in 1..Len(nets) : cs[k].ok /\ \A j \in 1..(k - 1) : ~(cs[j].ok /\ cs[j].addr = cs[k].addr /\ cs[j].p = cs[k].p)}
                       IN  [n |-> Cardinality(kept),
                            r |-> \E k \in kept : IF Dev_TrustTextualHost /\ IsHostNet(cs[k]) THEN cs[k].addr = ip ELSE ImplHas(cs[k], ip)]

\* ------------------------------------------------------------------ one action per entry point
Done(r) == ~done /\ done' = TRUE /\ res' = r /\ UNCHANGED <<kind, x, y, p>>
Parse4 == /\ kind = "P4"
          /\ Done(Impl4(x))
Format4 == /\ kind = "F4"
           /\ Done([out |-> Fmt4(x)])
InNet4 == /\ kind = "N4"
          /\ Done([r |-> ImplIn4(y, x, p)])
Class4 == /\ kind = "C4"
          /\ Done([priv |-> ImplPrivate(x), loop |-> ImplLoop4(x)])
Parse6 == /\ kind = "P6"
          /\ Done(Impl6(x))
Format6 == /\ kind = "F6"
           /\ Done([out |-> ImplFmt6(x)])
InNet6 == /\ kind = "N6"
          /\ Done([r |-> ImplIn6(y, x, p)])
Class6 == /\ kind = "C6"
          /\ Done([loop |-> ImplLoop6(x), ll |-> ImplLinkLocal(x), ula |-> ImplUla(x), m4 |-> ImplMapped4(x)])
AnyAddr == /\ kind = "A"
           /\ Done(ImplAny(x))
CidrParse == /\ kind = "CI"
             /\ Done(LET c == ImplCidr(x) IN [ok |-> c.ok, fam |-> c.fam, p |-> c.p, str |-> IF c.ok THEN CidrText(c) ELSE <<>>])
CidrHas == /\ kind = "H"
           /\ Done(LET c == ImplCidr(x) IN [cok |-> c.ok, r |-> c.ok /\ ImplHas(c, y)])
Reparse == /\ kind = "RP"
           /\ Done(ImplReparse(x, y))
Trust == /\ kind = "TL"
         /\ Done(ImplTrust(Split(x, Comma), y))
Next == Reparse \/ Trust \/ Parse4 \/ Format4 \/ InNet4 \/ Class4 \/ Parse6 \/ Format6 \/ InNet6 \/ Class6 \/ AnyAddr \/ CidrParse \/ CidrHas
Spec == Init /\ [][Next]_vars

\* ------------------------------------------------------------------ properties
RefRes == CASE kind = "P4" -> Ref4(x)
            [] kind = "F4" -> [out |-> Fmt4(x)]
            [] kind = "N4" -> [r |-> RefIn(y, x, Min(p, 32))]
            [] kind = "C4" -> [priv |-> RefPrivate(x), loop |-> RefLoop4(x)]
            [] kind = "P6" -> Ref6(x)
            [] kind = "F6" -> [out |-> Ref5952(x)]
            [] kind = "N6" -> [r |-> RefIn(y, x, Min(p, 128))]
            [] kind = "C6" -> [loop |-> RefLoop6(x), ll |-> RefLinkLocal(x), ula |-> RefUla(x), m4 |-> RefMapped(x)]
            [] kind = "A" -> RefAny(x)
            [] kind = "CI" -> LET c == RefCidr(x) IN [ok |-> c.ok, fam |-> c.fam, p |-> c.p, str |-> IF c.ok THEN CidrText(c) ELSE <<>>]
            [] kind = "H" -> LET c == RefCidr(x) IN [cok |-> c.ok, r |-> c.ok /\ HasWith(c, y, Ref6)]
            [] kind = "RP" -> RefReparse(x, y)
            [] kind = "TL" -> [n |-> TrustSize(Split(x, Comma)), r |-> TrustHas(Split(x, Comma), y)]
Refines == done => res = RefRes
\* T4 / F6: the text of a value parses back to the value, and an accepted IPv4 text is THE text of its value
RoundTrip == /\ (done /\ kind = "F4") => Ref4(res.out) = [ok |-> TRUE, v |-> x]
             /\ (done /\ kind = "F6") => Ref6(res.out) = [ok |-> TRUE, g |-> x]
             /\ (done /\ kind = "P4" /\ res.ok) => Fmt4(res.v) = x
Progress == ~done => ENABLED Next

\* class of a case (vacuity self-test and evidence)
Cls == CASE kind \in {"P4", "P6", "A", "CI"} -> (IF RefRes.ok THEN "ok" ELSE IF kind \in {"P6", "A"} /\ Len6(x).ok THEN "lenient"
                                                   ELSE IF kind = "CI" /\ LenCidr(x).ok THEN "lenient" ELSE "rej")
         [] kind \in {"N4", "N6"} -> (IF x = y THEN "same" ELSE IF RefRes.r THEN "in" ELSE "out")
         [] kind = "H" -> (IF ~RefRes.cok THEN "badnet" ELSE IF RefRes.r THEN "in" ELSE "out")
         [] kind = "C4" -> (IF RefRes.priv \/ RefRes.loop THEN "special" ELSE "plain")
         [] kind = "C6" -> (IF RefRes.loop \/ RefRes.ll \/ RefRes.ula \/ RefRes.m4 THEN "special" ELSE "plain")
         [] kind = "RP" -> (IF RefRes.ok2 THEN "second" ELSE "failed")
         [] kind = "TL" -> (IF RefRes.r THEN "trusted" ELSE "not")
         [] OTHER -> "fmt"
Emit == ~done \/ PrintT(ToJson([kind |-> kind, x |-> x, y |-> y, p |-> p, res |-> res, cls |-> Cls]))
=============================================================================
