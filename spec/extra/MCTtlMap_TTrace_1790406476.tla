---- MODULE MCTtlMap_TTrace_1790406476 ----
EXTENDS Sequences, TLCExt, Toolbox, Naturals, TLC, MCTtlMap

_expression ==
    LET MCTtlMap_TEExpression == INSTANCE MCTtlMap_TEExpression
    IN MCTtlMap_TEExpression!expression
----

_trace ==
    LET MCTtlMap_TETrace == INSTANCE MCTtlMap_TETrace
    IN MCTtlMap_TETrace!trace
----

_inv ==
    ~(
        TLCGet("level") = Len(_TETrace)
        /\
        st = ([hits |-> 0, misses |-> 0, ev |-> 0, gets |-> 0])
        /\
        hist = (<<[k |-> 1, v |-> 1, op |-> "put", ttl |-> 0], [k |-> 2, v |-> 2, op |-> "put", ttl |-> 0], [k |-> 1, v |-> 3, op |-> "put", ttl |-> 0]>>)
        /\
        truth = (<<[v |-> 3, exp |-> 2], [v |-> 2, exp |-> 2]>>)
        /\
        last = ([k |-> 1, v |-> 3, op |-> "put", hit |-> FALSE, evicted |-> 0, before |-> <<[k |-> 2, v |-> 2, exp |-> 2, la |-> 0], [k |-> 1, v |-> 1, exp |-> 2, la |-> 0]>>])
        /\
        now = (0)
        /\
        nextSweep = (2)
        /\
        lru = (<<[k |-> 2, v |-> 2, exp |-> 2, la |-> 0], [k |-> 1, v |-> 3, exp |-> 2, la |-> 0]>>)
    )
----

_init ==
    /\ nextSweep = _TETrace[1].nextSweep
    /\ truth = _TETrace[1].truth
    /\ now = _TETrace[1].now
    /\ lru = _TETrace[1].lru
    /\ hist = _TETrace[1].hist
    /\ last = _TETrace[1].last
    /\ st = _TETrace[1].st
----

_next ==
    /\ \E i,j \in DOMAIN _TETrace:
        /\ \/ /\ j = i + 1
              /\ i = TLCGet("level")
        /\ nextSweep  = _TETrace[i].nextSweep
        /\ nextSweep' = _TETrace[j].nextSweep
        /\ truth  = _TETrace[i].truth
        /\ truth' = _TETrace[j].truth
        /\ now  = _TETrace[i].now
        /\ now' = _TETrace[j].now
        /\ lru  = _TETrace[i].lru
        /\ lru' = _TETrace[j].lru
        /\ hist  = _TETrace[i].hist
        /\ hist' = _TETrace[j].hist
        /\ last  = _TETrace[i].last
        /\ last' = _TETrace[j].last
        /\ st  = _TETrace[i].st
        /\ st' = _TETrace[j].st

\* Uncomment the ASSUME below to write the states of the error trace
\* to the given file in Json format. Note that you can pass any tuple
\* to `JsonSerialize`. For example, a sub-sequence of _TETrace.
    \* ASSUME
    \*     LET J == INSTANCE Json
    \*         IN J!JsonSerialize("MCTtlMap_TTrace_1790406476.json", _TETrace)

=============================================================================

 Note that you can extract this module `MCTtlMap_TEExpression`
  to a dedicated file to reuse `expression` (the module in the 
  dedicated `MCTtlMap_TEExpression.tla` file takes precedence 
  over the module `MCTtlMap_TEExpression` below).

---- MODULE MCTtlMap_TEExpression ----
EXTENDS Sequences, TLCExt, Toolbox, Naturals, TLC, MCTtlMap

expression == 
    [
        \* To hide variables of the `MCTtlMap` spec from the error trace,
        \* remove the variables below.  The trace will be written in the order
        \* of the fields of this record.
        nextSweep |-> nextSweep
        ,truth |-> truth
        ,now |-> now
        ,lru |-> lru
        ,hist |-> hist
        ,last |-> last
        ,st |-> st
        
        \* Put additional constant-, state-, and action-level expressions here:
        \* ,_stateNumber |-> _TEPosition
        \* ,_nextSweepUnchanged |-> nextSweep = nextSweep'
        
        \* Format the `nextSweep` variable as Json value.
        \* ,_nextSweepJson |->
        \*     LET J == INSTANCE Json
        \*     IN J!ToJson(nextSweep)
        
        \* Lastly, you may build expressions over arbitrary sets of states by
        \* leveraging the _TETrace operator.  For example, this is how to
        \* count the number of times a spec variable changed up to the current
        \* state in the trace.
        \* ,_nextSweepModCount |->
        \*     LET F[s \in DOMAIN _TETrace] ==
        \*         IF s = 1 THEN 0
        \*         ELSE IF _TETrace[s].nextSweep # _TETrace[s-1].nextSweep
        \*             THEN 1 + F[s-1] ELSE F[s-1]
        \*     IN F[_TEPosition - 1]
    ]

=============================================================================



Parsing and semantic processing can take forever if the trace below is long.
 In this case, it is advised to uncomment the module below to deserialize the
 trace from a generated binary file.

\*
\*---- MODULE MCTtlMap_TETrace ----
\*EXTENDS IOUtils, TLC, MCTtlMap
\*
\*trace == IODeserialize("MCTtlMap_TTrace_1790406476.bin", TRUE)
\*
\*=============================================================================
\*

---- MODULE MCTtlMap_TETrace ----
EXTENDS TLC, MCTtlMap

trace == 
    <<
    ([st |-> [hits |-> 0, misses |-> 0, ev |-> 0, gets |-> 0],hist |-> <<>>,truth |-> <<>>,last |-> [k |-> 0, v |-> 0, op |-> "init", hit |-> FALSE, evicted |-> 0, before |-> <<>>],now |-> 0,nextSweep |-> 2,lru |-> <<>>]),
    ([st |-> [hits |-> 0, misses |-> 0, ev |-> 0, gets |-> 0],hist |-> <<[k |-> 1, v |-> 1, op |-> "put", ttl |-> 0]>>,truth |-> <<[v |-> 1, exp |-> 2]>>,last |-> [k |-> 1, v |-> 1, op |-> "put", hit |-> FALSE, evicted |-> 0, before |-> <<>>],now |-> 0,nextSweep |-> 2,lru |-> <<[k |-> 1, v |-> 1, exp |-> 2, la |-> 0]>>]),
    ([st |-> [hits |-> 0, misses |-> 0, ev |-> 0, gets |-> 0],hist |-> <<[k |-> 1, v |-> 1, op |-> "put", ttl |-> 0], [k |-> 2, v |-> 2, op |-> "put", ttl |-> 0]>>,truth |-> <<[v |-> 1, exp |-> 2], [v |-> 2, exp |-> 2]>>,last |-> [k |-> 2, v |-> 2, op |-> "put", hit |-> FALSE, evicted |-> 0, before |-> <<[k |-> 1, v |-> 1, exp |-> 2, la |-> 0]>>],now |-> 0,nextSweep |-> 2,lru |-> <<[k |-> 2, v |-> 2, exp |-> 2, la |-> 0], [k |-> 1, v |-> 1, exp |-> 2, la |-> 0]>>]),
    ([st |-> [hits |-> 0, misses |-> 0, ev |-> 0, gets |-> 0],hist |-> <<[k |-> 1, v |-> 1, op |-> "put", ttl |-> 0], [k |-> 2, v |-> 2, op |-> "put", ttl |-> 0], [k |-> 1, v |-> 3, op |-> "put", ttl |-> 0]>>,truth |-> <<[v |-> 3, exp |-> 2], [v |-> 2, exp |-> 2]>>,last |-> [k |-> 1, v |-> 3, op |-> "put", hit |-> FALSE, evicted |-> 0, before |-> <<[k |-> 2, v |-> 2, exp |-> 2, la |-> 0], [k |-> 1, v |-> 1, exp |-> 2, la |-> 0]>>],now |-> 0,nextSweep |-> 2,lru |-> <<[k |-> 2, v |-> 2, exp |-> 2, la |-> 0], [k |-> 1, v |-> 3, exp |-> 2, la |-> 0]>>])
    >>
----


=============================================================================

---- CONFIG MCTtlMap_TTrace_1790406476 ----
CONSTANTS
    Keys = { 1 , 2 , 3 }
    Ttls = { 0 , 1 , 3 }
    Advances = { 1 , 2 }
    MaxEntries = 2
    DefaultTtl = 2
    SweepInterval = 2
    MaxOps = 5
    MaxTime = 6
    Dev_HitAtExpiry = FALSE
    Dev_RefreshKeepsExpiry = FALSE
    Dev_GetSlidesExpiry = FALSE
    Dev_NoMoveToFront = TRUE
    Dev_EvictFront = FALSE
    Dev_NoSecondChance = FALSE
    Dev_NoEviction = FALSE
    Dev_SweepReapsLive = FALSE
    Dev_GetNoStamp = FALSE

INVARIANT
    _inv

CHECK_DEADLOCK
    \* CHECK_DEADLOCK off because of PROPERTY or INVARIANT above.
    FALSE

INIT
    _init

NEXT
    _next

CONSTANT
    _TETrace <- _trace

ALIAS
    _expression
=============================================================================
\* Generated on Sat Sep 26 07:07:58 UTC 2026