------------------------------ MODULE MCToml ------------------------------
(* A small exhaustive configuration of Toml.tla, run with coverage by checks/X16.py (which generates the same kind of  *)
(* module with all its families for the case generation): all documents of up to 2 lines over (invariant Refines only: coverage is very expensive on the lexeme table)                         *)
(*   a = 1 | a = 2 | b = "x" | x = 1 | [t] | [t.u] | [[r]] | (blank)                                                   *)
EXTENDS Toml
MCFamilies == [scoping |-> [a |-> {"Ka1", "Ka2", "Kbs", "Kx", "Tt", "Ttu", "Ar", "Z"}, n |-> 2, nl |-> {TRUE}]]
=============================================================================
