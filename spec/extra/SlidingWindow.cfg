CONSTANTS Max = 2 Window = 2 MaxTime = 5 MaxOps = 7
SPECIFICATION Spec
INVARIANT AtMostMax
INVARIANT RefusedOnlyWhenFull
CHECK_DEADLOCK FALSE
