------------------------------ MODULE MCBase64 ------------------------------
(* Exhaustive configuration of Base64.tla for the quick tier of X13 (checks/X13.py writes the same module with  *)
(* larger alphabets for the thorough tier).                                                                   *)
(*   encoders: every octet string of length 0..4 over the boundary octets {00 01 3F 40 80 FB FF}              *)
(*   decoder:  every character string of length 0..4 over {A B Q g / + = - SP C1}  (values 0 1 16 32 63 62,   *)
(*             the pad, a URL-alphabet character, white space, a byte >= 0x80), and every string              *)
(*             <first quantum> . <tail of length 0..4 over {A Q / = SP C1}> for the first quanta              *)
(*             "QUJD" (full), "QQ==" and "QUI=" (padded: padding before the end), "////"                      *)
EXTENDS Base64
MCEncBytes == {0, 1, 63, 64, 128, 251, 255}
MCEncInputs == SeqsUpTo(MCEncBytes, 4)
MCDecChars == {65, 66, 81, 103, 47, 43, 61, 45, 32, 193}
MCTailChars == {65, 81, 47, 61, 32, 193}
MCPrefixes == {<<81, 85, 74, 68>>, <<81, 81, 61, 61>>, <<81, 85, 73, 61>>, <<47, 47, 47, 47>>}
MCDecInputs == SeqsUpTo(MCDecChars, 4) \cup {p \o t : p \in MCPrefixes, t \in SeqsUpTo(MCTailChars, 4)}
=============================================================================
