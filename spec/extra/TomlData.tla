------------------------------ MODULE TomlData ------------------------------
(* X16 - the fixed vocabulary of the minimal_toml model: LINE LEXEMES (name -> kind, key / path, value, text).        *)
(* A document is a sequence of line lexemes; its text is the lines joined by "\n" (with or without a final "\n").     *)
(* checks/X16.py lets TLC print this table once and cross-checks the TOML reading of every line (kind, key, value)    *)
(* against Python's tomllib (set-up check), so the text the real parser sees and the semantics the evaluator uses      *)
(* have ONE source.                                                                                                   *)
(*                                                                                                                   *)
(* Values are canonical strings:  i:<decimal>  b:true|false  s:<hex of the octets>  f:<%.17g>  a:[v,v,...]             *)
(*   val   the value the line has in TOML v1.0 ("!" = the line is not valid TOML)                                      *)
(*   asb   the value the as-built parser produces when it deviates from TOML (pdev names the deviation), else = val    *)
(*   rt    the value after serialize -> parse of the as-built code when that is lossy (loss names the deviation)       *)
(* Kinds: kv, tab ([a.b]), aot ([[a.b]]), blank, bad (malformed: must be rejected; the as-built parser rejects too),    *)
(*        multi (two key/value pairs on one line), emptyhdr ([]), dotted (dotted key - valid TOML outside the subset), *)
(*        nokey (a line that starts with something that cannot start a bare key, header or comment),                  *)
(*        open (an unterminated string / array: swallows following lines, generated only as the LAST line)             *)
EXTENDS Integers, Sequences, TLC

KV(key, val, txt) == [k |-> "kv", key |-> key, path |-> <<>>, val |-> val, asb |-> val, pdev |-> "", rt |-> val, loss |-> "", txt |-> txt, kvs |-> <<>>]
KVP(key, val, asb, pdev, txt) == [KV(key, val, txt) EXCEPT !.asb = asb, !.pdev = pdev, !.rt = asb]
KVL(key, val, rt, loss, txt) == [KV(key, val, txt) EXCEPT !.rt = rt, !.loss = loss]
Hd(k, path, txt) == [k |-> k, key |-> "", path |-> path, val |-> "", asb |-> "", pdev |-> "", rt |-> "", loss |-> "", txt |-> txt, kvs |-> <<>>]
Ln(k, txt) == Hd(k, <<>>, txt)

Lx == [
  \* key / value lines of the supported subset
  Ka1  |-> KV("a", "i:1", "a = 1"),                 Ka2  |-> KV("a", "i:2", "a = 2"),
  Kan  |-> KV("a", "i:-7", "a = -7"),               Kap  |-> KV("a", "i:7", "a=+7"),
  Kam  |-> KV("a", "i:9223372036854775807", "a = 9223372036854775807"),
  Kac  |-> KV("a", "i:1", "a = 1 # note"),          Kak  |-> KV("a_b-1", "i:1", "a_b-1 = 1"),
  Kbs  |-> KV("b", "s:78", "b = \"x\""),            Kbe  |-> KV("b", "s:71225c0a09", "b = \"q\\\"\\\\\\n\\t\""),
  Kbz  |-> KV("b", "s:", "b = \"\""),               Kbh  |-> KV("b", "s:2361", "b = \"#a\" # c"),
  Kbt  |-> KV("b", "b:true", "b = true"),           Kbf  |-> KV("b", "b:false", "b=false"),
  Kc   |-> KV("c", "a:[i:1,i:2]", "c = [1, 2]"),    Kce  |-> KV("c", "a:[]", "c = []"),
  Kcm  |-> KV("c", "a:[i:1,s:78]", "c = [\n  1,\n  \"x\",\n]"),
  Kd   |-> KV("d", "f:1.5", "d = 1.5"),             Kdn  |-> KV("d", "f:-0.25", "d = -0.25"),
  Kx   |-> KV("x", "i:1", "x = 1"),                 Kx2  |-> KV("x", "i:2", "  x = 2"),
  Ky   |-> KV("y", "s:76", "y = \"v\""),            Ku   |-> KV("u", "i:1", "u = 1"),
  \* values the as-built serializer does not bring back (loss)
  Kd1  |-> KVL("d", "f:1", "i:1", "FloatIntegralToInt", "d = 1.0"),
  Kde  |-> KVL("d", "f:100", "i:100", "FloatIntegralToInt", "d = 1e2"),
  Kdp  |-> KVL("d", "f:0.30000000000000004", "f:0.29999999999999999", "FloatPrecision15", "d = 0.30000000000000004"),
  Kcd  |-> KVL("c", "a:[f:2,f:2.5]", "a:[i:2,f:2.5]", "FloatIntegralToInt", "c = [2.0, 2.5]"),
  Kcn  |-> KVL("c", "a:[a:[i:1,i:2],a:[i:3]]", "!", "NestedArrayLost", "c = [[1, 2], [3]]"),
  \* lines whose as-built parse differs from TOML (pdev)
  Kn1  |-> KVP("a", "!", "i:1", "NumberPrefixAccepted", "a = 1-2"),
  Kn2  |-> KVP("d", "!", "f:1.2", "NumberPrefixAccepted", "d = 1.2.3"),
  Kl   |-> KVP("b", "s:785c6e", "s:780a", "LiteralStringEscapes", "b = 'x\\n'"),
  Kq   |-> KVP("b", "!", "s:71", "UnknownEscapeKept", "b = \"\\q\""),
  \* headers
  Tt   |-> Hd("tab", <<"t">>, "[t]"),               Ttu  |-> Hd("tab", <<"t", "u">>, "[t.u]"),
  Ta   |-> Hd("tab", <<"a">>, "[a]"),               Tr   |-> Hd("tab", <<"r">>, "[r]"),
  Tc   |-> Hd("tab", <<"c">>, "[c]"),               Ttc  |-> Hd("tab", <<"t">>, "[t] # c"),
  Ar   |-> Hd("aot", <<"r">>, "[[r]]"),             Atr  |-> Hd("aot", <<"t", "r">>, "[[t.r]]"),
  At   |-> Hd("aot", <<"t">>, "[[t]]"),             Ars  |-> Hd("aot", <<"r">>, "[[ r ]]"),
  Aa   |-> Hd("aot", <<"a">>, "[[a]]"),             Ac   |-> Hd("aot", <<"c">>, "[[c]]"),
  \* nothing
  Z    |-> Ln("blank", ""),                         Zc   |-> Ln("blank", "# comment = [1"),
  Zs   |-> Ln("blank", "   "),                      Zt   |-> Ln("blank", "\t# c"),
  \* malformed lines (rejected by TOML and by the as-built parser)
  Bne  |-> Ln("bad", "a 1"),                        Bnv  |-> Ln("bad", "a ="),
  Bh   |-> Ln("bad", "[t"),                         Ba   |-> Ln("bad", "[[r]"),
  Bb   |-> Ln("bad", "b = tru"),                    Bbx  |-> Ln("bad", "b = truex"),
  Bv   |-> Ln("bad", "a = @"),                      Bo   |-> Ln("bad", "a = 9223372036854775808"),
  Bs   |-> Ln("bad", "a = +"),                      Bk   |-> Ln("bad", "a b = 1"),
  Bj   |-> Ln("bad", "a = 1 junk"),
  \* unterminated constructs (LAST line only)
  Os   |-> Ln("open", "b = \"x"),                   Oa   |-> Ln("open", "c = [1, 2"),
  \* lines TOML rejects / reads differently and the as-built parser accepts
  M1   |-> [Ln("multi", "a = 1 b = \"x\"") EXCEPT !.kvs = <<"Ka1", "Kbs">>],
  E1   |-> Ln("emptyhdr", "[]"),
  D1   |-> [Hd("dotted", <<"t", "x">>, "t.x = 1") EXCEPT !.val = "i:1", !.asb = "i:1", !.rt = "i:1", !.key = "t.x"],
  \* lines on which the as-built parser does not terminate
  H1   |-> Ln("nokey", "= 1"),                      H3   |-> Ln("nokey", "!"),
  H2   |-> [Ln("nokey", "\"a\" = 1") EXCEPT !.key = "a", !.val = "i:1", !.asb = "i:1", !.rt = "i:1"]     \* quoted key: valid TOML
]
LexNames == DOMAIN Lx
=============================================================================
