--------------------------- MODULE ServiceRegistry ---------------------------
(* X22 (extra, beyond the listed properties): Impl specification of iora::ServiceRegistry                              *)
(* (include/iora/core/service_registry.hpp), one action per critical section of the code.                              *)
(*                                                                                                                    *)
(* What a user relies on (header comments + tests/web/test_service_registry.cpp, ..._concurrency.cpp):                *)
(*   R1 GetAgrees        get<T>() returns the implementation registered for T at that instant, or nothing - never an  *)
(*                       implementation that has been unregistered, never one registered for another interface.      *)
(*   R2 NoReplace        set<T>() on a registered T fails (runtime_error) and leaves the registered one in place     *)
(*                       ("duplicate-set is a bug, not a silent replace"); a set that reports success IS what get     *)
(*                       returns from then on, until it is unregistered (SetOkRegistered): at most one of two racing  *)
(*                       registrations of the same interface succeeds.                                                *)
(*   R3 Validation       set(nullptr, ..) and set(.., "") throw invalid_argument and change nothing; no entry ever    *)
(*                       carries an empty moduleId (NoOrphan).                                                        *)
(*   R4 UnregTruth       unregister<T>() returns true iff it removed an entry; afterwards T is absent.                *)
(*   R5 ModuleExact      unregisterModule(m) removes ALL and ONLY the entries registered with moduleId m, as one      *)
(*                       atomic step; core-internal entries (set<T>(impl) without moduleId) survive every module.     *)
(*   R6 Lifetime         the registry and every handle returned by get / kept by the registrant share ownership: the  *)
(*                       implementation is never destroyed while it is registered or while a handle exists (Live),    *)
(*                       and it is destroyed - exactly once - as soon as the last of them is gone (NoLeak).           *)
(*   OBSERVATION Obs_DtorUnderLock: the header promises "no user callback is invoked while [the registry mutex] is    *)
(*                       held" (the mutex is a LEAF), but unregister<T>() / unregisterModule() erase the entry inside *)
(*                       the write-locked section, so when the registry holds the last reference the implementation's *)
(*                       destructor (plugin code) runs under the registry write lock.  TRUE = as the code is.         *)
(*                                                                                                                    *)
(* Code shape: set = lock-free validation, then ONE write-locked section (find + emplace); get = one read-locked      *)
(* section; unregister / unregisterModule = one write-locked section each.  Handles are shared_ptr copies.            *)
(* Realistic slips (each must make TLC report a violation):                                                           *)
(*   Dev_SetReplaces      a duplicate set silently replaces (map[key] = ...)            -> NoReplace                  *)
(*   Dev_CheckThenInsert  set checks under a shared lock and inserts in a second critical section (emplace: the loser *)
(*                        of a race is a silent no-op that reports success)             -> SetOkRegistered (2 threads)*)
(*   Dev_ModuleFirstOnly  unregisterModule stops after / skips past the first erase     -> ModuleExact                *)
(*   Dev_ModuleAlsoCore   unregisterModule also sweeps entries it does not own (core)   -> ModuleExact                *)
(*   Dev_WeakEntry        the registry does not share ownership (weak / raw entry)      -> Live                       *)
(*   Dev_NoEmptyCheck     the empty-moduleId validation is missing                      -> NoOrphan                   *)
(*   Dev_UnregAlwaysTrue  unregister reports true although nothing was registered       -> UnregTruth                 *)
EXTENDS Naturals, FiniteSets, TLC
CONSTANTS Procs, Types, Mods, Handles, MaxObjs, MaxOps,
          Dev_SetReplaces, Dev_CheckThenInsert, Dev_ModuleFirstOnly, Dev_ModuleAlsoCore, Dev_WeakEntry,
          Dev_NoEmptyCheck, Dev_UnregAlwaysTrue, Obs_DtorUnderLock
VARIABLES reg,    \* reg[T] = [o |-> implementation (0 = absent), m |-> moduleId]
          slot,   \* slot[t][h] = implementation referenced by handle h of thread t (0 = empty)
          pc,     \* pc[t] = <<"idle">> | <<"insert", T, o, m>> (only with Dev_CheckThenInsert: between the two sections)
          nobj,   \* implementations made so far (ids 1..nobj)
          dead,   \* destroyed implementations
          nops, last
vars == <<reg, slot, pc, nobj, dead, nops, last>>

None == [o |-> 0, m |-> "-"]
Core == "core"                       \* the reserved sentinel moduleId of set<T>(impl)
AllMods == Mods \cup {Core}
Min(S) == CHOOSE x \in S : \A y \in S : x <= y

\* who references implementation o in a state given by (r, s, p)
RegRefs(r) == IF Dev_WeakEntry THEN {} ELSE {r[T].o : T \in Types} \ {0}
SlotRefs(s) == {s[t][h] : t \in Procs, h \in Handles} \ {0}
PcRefs(p) == {p[t][3] : t \in {u \in Procs : p[u][1] = "insert"}}
Refd(r, s, p) == RegRefs(r) \cup SlotRefs(s) \cup PcRefs(p)
\* destruction is not a decision: an implementation dies in the step that removes its last reference
Dies(r, s, p, n) == (1..n) \ (Refd(r, s, p) \cup dead)

Init == /\ reg = [T \in Types |-> None] /\ slot = [t \in Procs |-> [h \in Handles |-> 0]]
        /\ pc = [t \in Procs |-> <<"idle">>] /\ nobj = 0 /\ dead = {} /\ nops = 0
        /\ last = [act |-> "Init", t |-> "-", ty |-> 0, m |-> "-", o |-> 0, ret |-> "-", was |-> None,
                   owned |-> {}, removed |-> {}, inCS |-> {}]

Go(t) == pc[t] = <<"idle">> /\ nops < MaxOps
L(a, t, ty, m, o, ret, was, owned, removed, inCS) ==
    last' = [act |-> a, t |-> t, ty |-> ty, m |-> m, o |-> o, ret |-> ret, was |-> was, owned |-> owned,
             removed |-> removed, inCS |-> inCS]
Keep(t, h, o) == slot' = IF h = 0 THEN slot ELSE [slot EXCEPT ![t][h] = o]

\* set<T>(impl, m) / set<T>(impl): the caller made impl (make_shared) and keeps its own handle h (h = 0: keeps none)
SetCS(t, T, m, h) ==
    /\ Go(t) /\ nobj < MaxObjs /\ (h # 0 => slot[t][h] = 0) /\ nops' = nops + 1 /\ nobj' = nobj + 1
    /\ LET o == nobj + 1 IN
       IF reg[T].o # 0 /\ ~Dev_SetReplaces
       THEN /\ UNCHANGED <<reg, pc>> /\ Keep(t, h, o)
            /\ L("SetCS", t, T, m, o, "dup", reg[T], {}, {}, {})
       ELSE IF Dev_CheckThenInsert
       THEN /\ pc' = [pc EXCEPT ![t] = <<"insert", T, o, m>>] /\ Keep(t, h, o) /\ UNCHANGED reg
            /\ L("SetCS", t, T, m, o, "-", reg[T], {}, {}, {})
       ELSE /\ reg' = [reg EXCEPT ![T] = [o |-> o, m |-> m]] /\ Keep(t, h, o) /\ UNCHANGED pc
            /\ L("SetCS", t, T, m, o, "ok", reg[T], {}, {}, {})
    /\ dead' = dead \cup Dies(reg', slot', pc', nobj')
\* only with Dev_CheckThenInsert: the second critical section; emplace on an occupied key is a silent no-op
SetInsert(t) ==
    /\ pc[t][1] = "insert"
    /\ LET T == pc[t][2]  o == pc[t][3]  m == pc[t][4] IN
       /\ reg' = IF reg[T].o = 0 THEN [reg EXCEPT ![T] = [o |-> o, m |-> m]] ELSE reg
       /\ L("SetInsert", t, T, m, o, "ok", reg[T], {}, {}, {})
    /\ pc' = [pc EXCEPT ![t] = <<"idle">>]
    /\ dead' = dead \cup Dies(reg', slot, pc', nobj)
    /\ UNCHANGED <<slot, nobj, nops>>
\* set<T>(nullptr, m): rejected lock-free, nothing made
SetNull(t, T) ==
    /\ Go(t) /\ nops' = nops + 1 /\ L("SetNull", t, T, "-", 0, "inval", reg[T], {}, {}, {})
    /\ UNCHANGED <<reg, slot, pc, nobj, dead>>
\* set<T>(impl, ""): rejected lock-free; the caller's impl dies when the caller lets go of it
SetEmpty(t, T) ==
    /\ Go(t) /\ nobj < MaxObjs /\ nops' = nops + 1 /\ nobj' = nobj + 1
    /\ IF Dev_NoEmptyCheck /\ reg[T].o = 0
       THEN reg' = [reg EXCEPT ![T] = [o |-> nobj + 1, m |-> ""]] /\ L("SetEmpty", t, T, "", nobj + 1, "ok", reg[T], {}, {}, {})
       ELSE UNCHANGED reg /\ L("SetEmpty", t, T, "", nobj + 1, IF Dev_NoEmptyCheck THEN "dup" ELSE "inval", reg[T], {}, {}, {})
    /\ dead' = dead \cup Dies(reg', slot, pc, nobj')
    /\ UNCHANGED <<slot, pc>>
\* get<T>() into handle h
GetCS(t, T, h) ==
    /\ Go(t) /\ slot[t][h] = 0 /\ nops' = nops + 1
    /\ slot' = [slot EXCEPT ![t][h] = reg[T].o]
    /\ L("GetCS", t, T, "-", reg[T].o, "-", reg[T], {}, {}, {})
    /\ UNCHANGED <<reg, pc, nobj, dead>>
\* a handle is dropped (shared_ptr reset): no registry interaction
Drop(t, h) ==
    /\ Go(t) /\ slot[t][h] # 0 /\ nops' = nops + 1
    /\ slot' = [slot EXCEPT ![t][h] = 0]
    /\ L("Drop", t, 0, "-", slot[t][h], "-", None, {}, {}, {})
    /\ dead' = dead \cup Dies(reg, slot', pc, nobj)
    /\ UNCHANGED <<reg, pc, nobj>>
\* unregister<T>()
UnregCS(t, T) ==
    /\ Go(t) /\ nops' = nops + 1
    /\ reg' = [reg EXCEPT ![T] = None]
    /\ dead' = dead \cup Dies(reg', slot, pc, nobj)
    /\ L("UnregCS", t, T, "-", reg[T].o, IF reg[T].o # 0 \/ Dev_UnregAlwaysTrue THEN "true" ELSE "false", reg[T], {}, {},
         IF Obs_DtorUnderLock THEN Dies(reg', slot, pc, nobj) ELSE {})
    /\ UNCHANGED <<slot, pc, nobj>>
\* unregisterModule(m)
UnmodCS(t, m) ==
    /\ Go(t) /\ nops' = nops + 1
    /\ LET owned == {T \in Types : reg[T].o # 0 /\ reg[T].m = m}
           sweep == IF Dev_ModuleAlsoCore THEN owned \cup {T \in Types : reg[T].o # 0 /\ reg[T].m = Core} ELSE owned
           rem == IF Dev_ModuleFirstOnly /\ sweep # {} THEN {Min(sweep)} ELSE sweep IN
       /\ reg' = [T \in Types |-> IF T \in rem THEN None ELSE reg[T]]
       /\ dead' = dead \cup Dies(reg', slot, pc, nobj)
       /\ L("UnmodCS", t, 0, m, 0, "-", None, owned, rem, IF Obs_DtorUnderLock THEN Dies(reg', slot, pc, nobj) ELSE {})
    /\ UNCHANGED <<slot, pc, nobj>>

Next == \E t \in Procs :
          \/ \E T \in Types : \/ \E m \in AllMods, h \in Handles \cup {0} : SetCS(t, T, m, h)
                              \/ SetNull(t, T) \/ SetEmpty(t, T) \/ UnregCS(t, T)
                              \/ \E h \in Handles : GetCS(t, T, h)
          \/ SetInsert(t)
          \/ \E h \in Handles : Drop(t, h)
          \/ \E m \in Mods : UnmodCS(t, m)
Spec == Init /\ [][Next]_vars

\* ---- properties
Registered == {reg[T].o : T \in Types} \ {0}
GetAgrees == last.act = "GetCS" => last.o = last.was.o
NoReplace == (last.act = "SetCS" /\ last.was.o # 0) => (last.ret = "dup" /\ reg[last.ty] = last.was)
SetOkRegistered == (last.act \in {"SetCS", "SetInsert", "SetEmpty"} /\ last.ret = "ok") => reg[last.ty].o = last.o
Validation == (last.act \in {"SetNull", "SetEmpty"}) => (last.ret = "inval" /\ reg[last.ty] = last.was)
NoOrphan == \A T \in Types : reg[T].o # 0 => reg[T].m # ""
UnregTruth == last.act = "UnregCS" => (reg[last.ty].o = 0 /\ ((last.ret = "true") <=> (last.was.o # 0)))
ModuleExact == last.act = "UnmodCS" => (last.removed = last.owned /\ \A T \in Types : reg[T].o # 0 => reg[T].m # last.m)
OneEntryPerImpl == \A T1, T2 \in Types : (T1 # T2 /\ reg[T1].o # 0) => reg[T1].o # reg[T2].o
Live == (Registered \cup SlotRefs(slot) \cup PcRefs(pc)) \cap dead = {}
NoLeak == (1..nobj) \ (Registered \cup SlotRefs(slot) \cup PcRefs(pc)) \subseteq dead
\* not an invariant of the code as it is (Obs_DtorUnderLock): checked separately, must be violated
NoUserCodeUnderLock == last.inCS = {}
===============================================================================
