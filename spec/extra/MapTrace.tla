------------------------------ MODULE MapTrace ------------------------------
(* Beyond the listed properties: Abs oracle for iora::core::ConcurrentHashMap (core/concurrent_hash_map.hpp).  Every      *)
(* per-key operation is linearizable with respect to a plain map: Call and Ret are recorded, the effect (Lin) takes place  *)
(* at some instant in between, TLC searches for a linearization.  size() is a sum over shards taken one shard at a time,   *)
(* so it is only required to lie between the number of keys present throughout the call and the number present at any       *)
(* time during it (not modelled further: bounded by 0..|Keys|).                                                             *)
EXTENDS TraceBase, FiniteSets, Integers
VARIABLES m, pend
vars == <<l, m, pend>>
Thr == {Log[i].t : i \in {j \in 1..Len(Log) : "t" \in DOMAIN Log[j]}}
Keys == {Log[i].k : i \in {j \in 1..Len(Log) : "k" \in DOMAIN Log[j]}}
None == -1
Idle == [st |-> "idle", op |-> "-", k |-> 0, v |-> 0, ok |-> FALSE, rv |-> None]
Fresh == [t \in Thr |-> Idle]
Init == l = 1 /\ m = [k \in Keys |-> None] /\ pend = Fresh
EvBegin == IsEv("Begin") /\ m' = [k \in Keys |-> None] /\ pend' = Fresh
EvReset == IsEv("Reset") /\ m' = [k \in Keys |-> None] /\ pend' = Fresh
EvCall == /\ IsEv("Call") /\ pend[Ev.t].st = "idle"
          /\ pend' = [pend EXCEPT ![Ev.t] = [st |-> "called", op |-> Ev.op, k |-> Ev.k, v |-> Ev.v, ok |-> FALSE, rv |-> None]]
          /\ UNCHANGED m
Done(t, ok, rv) == pend' = [pend EXCEPT ![t] = [@ EXCEPT !.st = "lin", !.ok = ok, !.rv = rv]]
Lin(t) == /\ pend[t].st = "called"
          /\ LET o == pend[t].op  k == pend[t].k  v == pend[t].v IN
             CASE o = "insert"         -> IF m[k] = None THEN m' = [m EXCEPT ![k] = v] /\ Done(t, TRUE, None) ELSE UNCHANGED m /\ Done(t, FALSE, None)
               [] o = "insertOrAssign" -> m' = [m EXCEPT ![k] = v] /\ Done(t, m[k] = None, None)
               [] o = "erase"          -> m' = [m EXCEPT ![k] = None] /\ Done(t, m[k] # None, None)
               [] o = "find"           -> UNCHANGED m /\ Done(t, m[k] # None, m[k])
               [] o = "contains"       -> UNCHANGED m /\ Done(t, m[k] # None, None)
               [] o = "findOrInsert"   -> IF m[k] = None THEN m' = [m EXCEPT ![k] = v] /\ Done(t, TRUE, v) ELSE UNCHANGED m /\ Done(t, TRUE, m[k])
               [] o = "addOne"         -> IF m[k] = None THEN UNCHANGED m /\ Done(t, FALSE, None) ELSE m' = [m EXCEPT ![k] = @ + 1] /\ Done(t, TRUE, None)
               [] o = "size"           -> UNCHANGED m /\ Done(t, TRUE, None)
               [] OTHER -> FALSE
          /\ UNCHANGED l
EvRet == /\ IsEv("Ret") /\ pend[Ev.t].st = "lin" /\ pend[Ev.t].op = Ev.op
         /\ (Ev.op # "size") => pend[Ev.t].ok = Ev.ok
         /\ (Ev.op \in {"find", "findOrInsert"} /\ Ev.ok) => pend[Ev.t].rv = Ev.rv
         /\ (Ev.op = "size") => (Ev.rv >= 0 /\ Ev.rv <= Cardinality(Keys))
         /\ pend' = [pend EXCEPT ![Ev.t] = Idle] /\ UNCHANGED m
EvEnd == IsEv("End") /\ Ev.outcome # "stuck" /\ UNCHANGED <<m, pend>>
Next == EvBegin \/ EvReset \/ EvCall \/ EvRet \/ EvEnd \/ \E t \in Thr : Lin(t)
Spec == Init /\ [][Next]_vars
=============================================================================
