------------------------------ MODULE DnsTransport ------------------------------
(* Extra X18 (no listed property): iora::network::dns::DnsTransport (network/dns/dns_transport.hpp) - the life of DNS      *)
(* queries against a SCRIPTED server.  What a user of queryAsync()/query() relies on:                                      *)
(*   P1 exactly once   every issued query ends with exactly one completion callback (answer, error or timeout): never two,  *)
(*                     never none - a pending query always has an armed timer, stop() completes what is pending, and a      *)
(*                     well-formed response to a pending query completes it (it is not lost);                               *)
(*   P2 after stop     stop() returns only after every pending query was completed ("Transport stopped") and nothing        *)
(*                     completes afterwards; a query issued on a stopped transport completes at once ("not running");       *)
(*   P3 matching       a completion carries a response the server sent FOR THAT QUERY (same id, same server, same question) *)
(*                     - a response with another id, from another server, or for another question is ignored;               *)
(*   P4 truncation     mode Both: a truncated UDP response (TC=1) is never the final result - the query is re-sent over TCP *)
(*                     exactly once and completes with the TCP response; mode UDP: the truncated response is delivered;     *)
(*                     a TCP query is never sent without a truncated UDP response (mode Both);                              *)
(*   P5 budget         the number of times a query is put on the wire stays within 1 + retryCount (+1 for the TCP fallback);*)
(*   P6 timeouts       a timeout completion is never earlier than config.timeout after the call (checked on the trace only: *)
(*                     this specification is untimed).                                                                       *)
(* The specification is shaped like the code: pendingQueries_ (st), PendingQuery::tcpFallback (fb), activeTimerId (ord),    *)
(* serverSessions_ / sessionToServer_ (usid, tsid, s2s), getNextServer's round robin (rr), one action per branch of         *)
(* processResponse / completeQuery / the timeout timer / stop(), and - when WithCleanup - the 10-second cleanup thread with *)
(* its four phases and retryQuery's retry timer.  The server is a script: every response gets the next tag; the completion  *)
(* records which response caused it, so the properties are local to `done`.                                                *)
(* Slips are CONSTANT Dev_* flags (default FALSE).  Three of them are how the code behaves today (observations O1, O2, O4   *)
(* of checks/X18.meta.json): Dev_NoQuestionCheck, Dev_DupTruncCompletes, Dev_SharedSessionIds (sessionToServer_ is keyed by *)
(* the bare SessionId although the UDP and the TCP Transport both count their sessions from 1: after a TCP fallback to the  *)
(* server whose UDP session has another number, the responses of one UDP session are attributed to the wrong server and     *)
(* dropped).  Dev_CleanupRace is the code's non-atomic cleanup (phase 1 collects, phase 3 erases, phase 4 calls back        *)
(* without re-checking) - reachable only while a timeout timer is late.                                                      *)
EXTENDS Naturals, Sequences, FiniteSets, TLC
CONSTANTS Queries,        \* e.g. {1, 2}
          Modes,          \* subset of {"U", "B", "T"}  (DnsTransportMode UDP / Both / TCP)
          NSrvs,          \* subset of {1, 2}: number of configured servers
          MaxResp,        \* responses the scripted server sends in one script
          Retries,        \* config.retryCount
          WithCleanup,    \* model the cleanup thread + retry timer
          WithStop,       \* stop() may be called
          FifoTimers,     \* all timeout timers have the same duration: they fire in the order they were armed (used for the
                          \* test plan, where the driver keeps the armings apart; FALSE = any armed timer may fire)
          Dev_NoErase, Dev_AcceptAnyId, Dev_NoQuestionCheck, Dev_TimeoutNoPendingCheck, Dev_TruncCompletes,
          Dev_DupTruncCompletes, Dev_StopSkipsPending, Dev_FallbackTwice, Dev_CleanupRace, Dev_RetryOffByOne,
          Dev_FallbackDisarms, Dev_SharedSessionIds

VARIABLES mode, nsrv, running,
          st,      \* [Queries -> {"idle", "udp", "tcp", "done"}]   "udp"/"tcp" = registered in pendingQueries_
          fb,      \* [Queries -> BOOLEAN]     PendingQuery::tcpFallback
          ord,     \* Seq(Queries)             the queries whose timeout timer is armed, in the order of arming
          rtm,     \* [Queries -> BOOLEAN]     a retry timer of the query is armed (cleanup path)
          retr,    \* [Queries -> Nat]         PendingQuery::retryCount
          wire,    \* [Queries -> [udp: Nat, tcp: Nat]]  times the query was put on the wire, per protocol
          nresp,   \* responses sent so far = tag of the last one
          done,    \* [Queries -> Seq([kind, rq, rk])]  completions: kind of completion, query the causing response was built
                   \*                                   for (0: none), kind of that response ("-": none)
          lost,    \* queries for which a completing response was dropped while they were pending
          rr,      \* serverIndex_
          srvOf,   \* [Queries -> server]
          usid, tsid,  \* [server -> session id of the UDP / TCP Transport, 0 = none]   (serverSessions_)
          s2s,     \* [session id -> server, 9 = none]                                   (sessionToServer_, one map for both)
          cl,      \* cleanup thread: set of collected (expired) queries still to be looked at  (phase 2)
          clc,     \* cleanup thread: queries marked for timeout completion (phases 3, 4)
          clpc     \* cleanup thread: "idle" | "phase2" | "phase3"
qvars == <<st, fb, ord, rtm, retr, wire, nresp, done, lost>>
svars == <<rr, srvOf, usid, tsid, s2s>>
cvars == <<cl, clc, clpc>>
vars == <<mode, nsrv, running, qvars, svars, cvars>>
Srvs == {0, 1}

Pending(q) == st[q] \in {"udp", "tcp"}
Armed(q) == \E i \in 1..Len(ord) : ord[i] = q
Without(q) == SelectSeq(ord, LAMBDA x : x # q)           \* TimerService::cancel / the timer fired
ArmSeq(q) == Append(Without(q), q)                       \* scheduleQueryTimeout: cancel the old one, arm a new one
Protos(q) == {p \in {"udp", "tcp"} : wire[q][p] > 0}      \* the server can answer over a protocol it was asked on
Compl(k, rq, rk) == [kind |-> k, rq |-> rq, rk |-> rk]
\* connect() of the UDP / TCP Transport: each numbers its sessions 1, 2, ...
NextSid(f) == Cardinality({s \in Srvs : f[s] > 0}) + 1
Open(f, s) == IF f[s] > 0 THEN f ELSE [f EXCEPT ![s] = NextSid(f)]
Map(f, s) == IF f[s] > 0 THEN s2s ELSE [s2s EXCEPT ![NextSid(f)] = s]
\* handleUdpData / handleTcpData look the server of the session up in sessionToServer_
Routed(q, p) == \/ ~Dev_SharedSessionIds
                \/ s2s[IF p = "udp" THEN usid[srvOf[q]] ELSE tsid[srvOf[q]]] = srvOf[q]

Init == /\ mode = "-" /\ nsrv = 0 /\ running = TRUE
        /\ st = [q \in Queries |-> "idle"] /\ fb = [q \in Queries |-> FALSE] /\ ord = <<>>
        /\ rtm = [q \in Queries |-> FALSE] /\ retr = [q \in Queries |-> 0]
        /\ wire = [q \in Queries |-> [udp |-> 0, tcp |-> 0]] /\ nresp = 0 /\ done = [q \in Queries |-> <<>>] /\ lost = {}
        /\ rr = 0 /\ srvOf = [q \in Queries |-> 0] /\ usid = [s \in Srvs |-> 0] /\ tsid = [s \in Srvs |-> 0]
        /\ s2s = [i \in 1..2 |-> 9]
        /\ cl = {} /\ clc = {} /\ clpc = "idle"

\* completeQuery(): find + erase under queriesMutex_, cancel the active timer, call back
Complete(q, k, rq, rk) ==
  /\ st' = [st EXCEPT ![q] = IF Dev_NoErase THEN @ ELSE "done"]
  /\ ord' = IF Dev_TimeoutNoPendingCheck THEN ord ELSE Without(q)  \* cancel(activeTimerId); a callback already dequeued by the
  /\ done' = [done EXCEPT ![q] = Append(@, Compl(k, rq, rk))]  \* timer thread still runs: its own pending check is the net

\* ---------------------------------------------------------------------------------------------- the caller
\* DnsConfig::transportMode and ::servers, fixed before start()
Configure(m, n) == /\ mode = "-" /\ m \in Modes /\ n \in NSrvs /\ mode' = m /\ nsrv' = n
                   /\ UNCHANGED <<running, qvars, svars, cvars>>
\* queryAsync(): next server (round robin), register, get or create the session, send (UDP unless mode TCP), arm the timer
Query(q) == /\ mode # "-" /\ running /\ st[q] = "idle"
            /\ LET p == IF mode = "T" THEN "tcp" ELSE "udp"
                   s == rr % nsrv IN
               /\ st' = [st EXCEPT ![q] = p] /\ wire' = [wire EXCEPT ![q][p] = @ + 1]
               /\ rr' = rr + 1 /\ srvOf' = [srvOf EXCEPT ![q] = s]
               /\ IF p = "udp" THEN usid' = Open(usid, s) /\ s2s' = Map(usid, s) /\ UNCHANGED tsid
                               ELSE tsid' = Open(tsid, s) /\ s2s' = Map(tsid, s) /\ UNCHANGED usid
            /\ ord' = ArmSeq(q)
            /\ UNCHANGED <<mode, nsrv, running, fb, rtm, retr, nresp, done, lost, cvars>>
\* queryAsync() on a transport that is not running: immediate error callback
QueryStopped(q) == /\ ~running /\ st[q] = "idle"
                   /\ st' = [st EXCEPT ![q] = "done"] /\ done' = [done EXCEPT ![q] = Append(@, Compl("notrunning", 0, "-"))]
                   /\ UNCHANGED <<mode, nsrv, running, fb, ord, rtm, retr, wire, nresp, lost, svars, cvars>>
\* stop(): joins the cleanup thread, stops the transports (no I/O callback afterwards), completes everything pending,
\* stops the timer service (no timer callback afterwards)
Stop == /\ WithStop /\ mode # "-" /\ running /\ clpc = "idle"
        /\ running' = FALSE
        /\ st' = [q \in Queries |-> IF Pending(q) THEN "done" ELSE st[q]]
        /\ done' = [q \in Queries |-> IF Pending(q) /\ ~Dev_StopSkipsPending THEN Append(done[q], Compl("stopped", 0, "-")) ELSE done[q]]
        /\ ord' = <<>> /\ rtm' = [q \in Queries |-> FALSE]
        /\ UNCHANGED <<mode, nsrv, fb, retr, wire, nresp, lost, svars, cvars>>

\* ---------------------------------------------------------------------------------------------- the scripted server
CanRespond(q, p) == running /\ nresp < MaxResp /\ p \in Protos(q)
Tick == nresp' = nresp + 1
Rest == UNCHANGED <<mode, nsrv, running, fb, rtm, retr, wire, lost, svars, cvars>>
Ignored == UNCHANGED <<st, ord, done>>
\* a well-formed answer / NXDOMAIN with the id and question of q: processResponse -> completeQuery(key, result)
RespAnswerHit(q, p) == CanRespond(q, p) /\ Pending(q) /\ Routed(q, p) /\ Tick /\ Complete(q, "ans", q, "ans") /\ Rest
RespAnswerLate(q, p) == CanRespond(q, p) /\ ~Pending(q) /\ Tick /\ Ignored /\ Rest                       \* "unknown query"
RespNxHit(q, p) == CanRespond(q, p) /\ Pending(q) /\ Routed(q, p) /\ Tick /\ Complete(q, "nx", q, "nx") /\ Rest
\* TC=1 over UDP
RespTruncFallback(q) == /\ CanRespond(q, "udp") /\ Pending(q) /\ Routed(q, "udp") /\ mode = "B"
                        /\ (~fb[q] \/ Dev_FallbackTwice) /\ ~Dev_TruncCompletes
                        /\ Tick /\ fb' = [fb EXCEPT ![q] = TRUE] /\ st' = [st EXCEPT ![q] = "tcp"]
                        /\ wire' = [wire EXCEPT ![q].tcp = @ + 1]
                        /\ tsid' = Open(tsid, srvOf[q]) /\ s2s' = Map(tsid, srvOf[q])     \* sendTcpQuery: get or create
                        /\ ord' = IF Dev_FallbackDisarms THEN Without(q) ELSE ArmSeq(q)    \* scheduleQueryTimeout: cancel + re-arm
                        /\ UNCHANGED <<mode, nsrv, running, rtm, retr, done, lost, rr, srvOf, usid, cvars>>
RespTruncDeliver(q) == /\ CanRespond(q, "udp") /\ Pending(q) /\ Routed(q, "udp") /\ (mode = "U" \/ (mode = "B" /\ Dev_TruncCompletes))
                       /\ Tick /\ Complete(q, "trunc", q, "trunc") /\ Rest
\* mode Both, fallback already under way, a second truncated datagram: the code falls through to completeQuery
TruncDup(q) == /\ CanRespond(q, "udp") /\ Pending(q) /\ Routed(q, "udp") /\ mode = "B" /\ fb[q]
               /\ ~Dev_FallbackTwice /\ ~Dev_TruncCompletes
RespTruncDup(q) == TruncDup(q) /\ ~Dev_DupTruncCompletes /\ Tick /\ Rest /\ Ignored
RespTruncDupHit(q) == TruncDup(q) /\ Dev_DupTruncCompletes /\ Tick /\ Rest /\ Complete(q, "trunc", q, "trunc")
RespTruncLate(q) == CanRespond(q, "udp") /\ ~Pending(q) /\ Tick /\ Ignored /\ Rest
\* a response whose id is no pending query's id (same question): ignored
RespWrongId(q, p) == /\ CanRespond(q, p) /\ Tick /\ Rest
                     /\ IF Dev_AcceptAnyId /\ Pending(q) THEN Complete(q, "ans", q, "wrongid") ELSE Ignored
\* a response with q's id but another question
RespWrongQ(q, p) == CanRespond(q, p) /\ ~(Dev_NoQuestionCheck /\ Pending(q) /\ Routed(q, p)) /\ Tick /\ Rest /\ Ignored
RespWrongQHit(q, p) == /\ CanRespond(q, p) /\ Dev_NoQuestionCheck /\ Pending(q) /\ Routed(q, p)
                       /\ Tick /\ Rest /\ Complete(q, "ans", q, "wrongq")
\* the same id arriving from the OTHER configured server: the key (id, server, port) differs - ignored
RespOtherServer(q) == /\ running /\ nresp < MaxResp /\ nsrv = 2 /\ wire[q].udp > 0 /\ Tick /\ Rest /\ Ignored
\* an unparsable message that starts with q's id: completeQuery(key, DnsParseException)
RespMalformedHit(q, p) == CanRespond(q, p) /\ Pending(q) /\ Routed(q, p) /\ Tick /\ Complete(q, "parse", q, "malformed") /\ Rest
RespMalformedLate(q, p) == CanRespond(q, p) /\ ~Pending(q) /\ Tick /\ Ignored /\ Rest
\* Dev_SharedSessionIds: a response (k: "ans", "nx", "trunc", "malformed") of a pending query arrives on a session whose
\* sessionToServer_ entry was overwritten by the other Transport's session of the same number: key mismatch, dropped
RespMisrouted(q, p, k) == /\ CanRespond(q, p) /\ Pending(q) /\ ~Routed(q, p) /\ (k = "trunc" => p = "udp")
                          /\ Tick /\ Ignored /\ lost' = lost \cup {q}
                          /\ UNCHANGED <<mode, nsrv, running, fb, rtm, retr, wire, svars, cvars>>

\* ---------------------------------------------------------------------------------------------- timers
\* the timeout timer (timer thread): still pending? erase, call back with DnsTimeoutException
Timeout(q) == /\ running /\ Armed(q) /\ (FifoTimers => Head(ord) = q) /\ (Pending(q) \/ Dev_TimeoutNoPendingCheck)
              /\ st' = [st EXCEPT ![q] = "done"] /\ ord' = Without(q)
              /\ done' = [done EXCEPT ![q] = Append(@, Compl("timeout", 0, "-"))]
              /\ UNCHANGED <<mode, nsrv, running, fb, rtm, retr, wire, nresp, lost, svars, cvars>>
\* the timer of a query that is no longer pending (only reachable on the retry path, where a timeout timer is orphaned)
TimeoutStale(q) == /\ running /\ Armed(q) /\ (FifoTimers => Head(ord) = q) /\ ~Pending(q) /\ ~Dev_TimeoutNoPendingCheck
                   /\ ord' = Without(q)
                   /\ UNCHANGED <<mode, nsrv, running, st, fb, rtm, retr, wire, nresp, done, lost, svars, cvars>>

\* ---------------------------------------------------------------------------------------------- cleanup thread (10 s)
\* phase 1: under the lock collect the queries whose timeout has elapsed (their timer has not fired yet: it is late)
CleanupCollect == /\ WithCleanup /\ running /\ clpc = "idle"
                  /\ \E S \in SUBSET {q \in Queries : Pending(q) /\ Armed(q)} : S # {} /\ cl' = S
                  /\ clc' = {} /\ clpc' = "phase2"
                  /\ UNCHANGED <<mode, nsrv, running, qvars, svars>>
\* phase 2, no lock: retryQuery (bump retryCount, arm the retry timer - the timeout timer stays armed) or mark for completion
CleanupLook(q) == /\ clpc = "phase2" /\ q \in cl /\ cl' = cl \ {q}
                  /\ IF retr[q] < Retries + (IF Dev_RetryOffByOne THEN 1 ELSE 0)
                     THEN /\ retr' = [retr EXCEPT ![q] = @ + 1] /\ rtm' = [rtm EXCEPT ![q] = TRUE] /\ UNCHANGED clc
                     ELSE /\ clc' = clc \cup {q} /\ UNCHANGED <<retr, rtm>>
                  /\ UNCHANGED <<mode, nsrv, running, st, fb, ord, wire, nresp, done, lost, svars, clpc>>
CleanupPhase3 == /\ clpc = "phase2" /\ cl = {} /\ clpc' = "phase3"
                 /\ UNCHANGED <<mode, nsrv, running, qvars, svars, cl, clc>>
\* phases 3 + 4: erase the marked keys under the lock, then call every marked query back with a timeout -
\* the code does not look whether the query was still registered (Dev_CleanupRace); the repaired form completes only those
CleanupFinish == /\ clpc = "phase3" /\ clpc' = "idle" /\ clc' = {}
                 /\ st' = [q \in Queries |-> IF q \in clc /\ Pending(q) THEN "done" ELSE st[q]]
                 /\ done' = [q \in Queries |-> IF q \in clc /\ (Pending(q) \/ Dev_CleanupRace)
                                               THEN Append(done[q], Compl("timeout", 0, "-")) ELSE done[q]]
                 /\ UNCHANGED <<mode, nsrv, running, fb, ord, rtm, retr, wire, nresp, lost, svars, cl>>
\* the retry timer: still pending? send again over the configured protocol (mode Both sends nothing), re-arm the timeout
RetryFire(q) == /\ running /\ rtm[q] /\ rtm' = [rtm EXCEPT ![q] = FALSE]
                /\ IF Pending(q) /\ mode # "B"
                   THEN /\ wire' = [wire EXCEPT ![q][IF mode = "T" THEN "tcp" ELSE "udp"] = @ + 1]
                        /\ ord' = ArmSeq(q)
                   ELSE UNCHANGED <<wire, ord>>
                /\ UNCHANGED <<mode, nsrv, running, st, fb, retr, nresp, done, lost, svars, cvars>>

Next == \/ \E q \in Queries : Query(q) \/ QueryStopped(q) \/ Timeout(q) \/ TimeoutStale(q) \/ CleanupLook(q) \/ RetryFire(q)
        \/ (\E m \in Modes, n \in NSrvs : Configure(m, n)) \/ Stop \/ CleanupCollect \/ CleanupPhase3 \/ CleanupFinish
        \/ \E q \in Queries : \/ RespTruncFallback(q) \/ RespTruncDeliver(q) \/ RespTruncDup(q) \/ RespTruncDupHit(q)
                              \/ RespTruncLate(q) \/ RespOtherServer(q)
        \/ \E q \in Queries, p \in {"udp", "tcp"} :
             \/ RespAnswerHit(q, p) \/ RespAnswerLate(q, p) \/ RespNxHit(q, p) \/ RespWrongId(q, p) \/ RespWrongQ(q, p)
             \/ RespWrongQHit(q, p) \/ RespMalformedHit(q, p) \/ RespMalformedLate(q, p)
             \/ \E k \in {"ans", "nx", "trunc", "malformed"} : RespMisrouted(q, p, k)
Spec == Init /\ [][Next]_vars

\* ---------------------------------------------------------------------------------------------- properties
AtMostOnce == \A q \in Queries : Len(done[q]) <= 1                                                            \* P1
\* never none: whatever is pending has an armed timer that will complete it (or is about to be completed by the cleanup)
PendingHasTimer == \A q \in Queries : Pending(q) => (Armed(q) \/ rtm[q] \/ q \in cl \cup clc)                   \* P1
NoLostResponse == lost = {}                                                                                   \* P1
StopCompletes == ~running => \A q \in Queries : st[q] # "idle" => (st[q] = "done" /\ Len(done[q]) = 1)         \* P2
DoneHasCompletion == \A q \in Queries : st[q] = "done" => Len(done[q]) >= 1                                    \* P1
Matching == \A q \in Queries : \A i \in 1..Len(done[q]) :                                                      \* P3
              done[q][i].kind \in {"ans", "nx", "trunc", "parse"} =>
                /\ done[q][i].rq = q
                /\ done[q][i].rk = (IF done[q][i].kind = "parse" THEN "malformed" ELSE done[q][i].kind)
TruncNotFinal == mode = "B" => \A q \in Queries : \A i \in 1..Len(done[q]) : done[q][i].kind # "trunc"         \* P4
TcpOnlyAfterTrunc == mode = "B" => \A q \in Queries : wire[q].tcp <= (IF fb[q] THEN 1 ELSE 0)                  \* P4
Budget == \A q \in Queries : wire[q].udp + wire[q].tcp <= 1 + Retries + (IF fb[q] THEN 1 ELSE 0)              \* P5
TypeOK == /\ st \in [Queries -> {"idle", "udp", "tcp", "done"}] /\ mode \in Modes \cup {"-"} /\ nresp \in 0..MaxResp
          /\ clpc \in {"idle", "phase2", "phase3"} /\ s2s \in [1..2 -> {0, 1, 9}]
=================================================================================
