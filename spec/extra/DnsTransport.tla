------------------------------ MODULE DnsTransport ------------------------------
(* Extra X18 (no listed property): iora::network::dns::DnsTransport (network/dns/dns_transport.hpp) - the life of DNS      *)
(* queries against a SCRIPTED server.  What a user of queryAsync()/query() relies on:                                      *)
(*   P1 exactly once   every issued query ends with exactly one completion callback (answer, error or timeout): never two,  *)
(*                     never none - a pending query always has an armed timer, stop() completes what is pending;            *)
(*   P2 after stop     stop() returns only after every pending query was completed ("Transport stopped") and nothing        *)
(*                     completes afterwards; a query issued on a stopped transport completes at once ("not running");       *)
(*   P3 matching       a completion carries a response the server sent FOR THAT QUERY (same id, same server, same question) *)
(*                     - a response with another id, from another server, or for another question is ignored;               *)
(*   P4 truncation     mode Both: a truncated UDP response (TC=1) is never the final result - the query is re-sent over TCP *)
(*                     exactly once and completes with the TCP response; mode UDP: the truncated response is delivered;     *)
(*                     a TCP query is never sent without a truncated UDP response (mode Both);                              *)
(*   P5 budget         the number of times a query is put on the wire stays within 1 + retryCount (+1 for the TCP fallback);*)
(*   P6 timeouts       a timeout completion is never earlier than config.timeout after the call (checked on the trace only: *)
(*                     this specification is untimed).                                                                       *)
(* The specification is shaped like the code: pendingQueries_ (st), PendingQuery::tcpFallback (fb), activeTimerId (tmo),    *)
(* one action per branch of processResponse / completeQuery / the timeout timer / stop(), and - when WithCleanup - the      *)
(* 10-second cleanup thread with its four phases and retryQuery's retry timer.  The server is a script: every response      *)
(* gets the next tag; the completion records which response caused it, so the properties are local to `done`.              *)
(* Slips are CONSTANT Dev_* flags (default FALSE); the two ways the real code is known to depart from P3/P4 are among them  *)
(* (Dev_NoQuestionCheck, Dev_DupTruncCompletes) and Dev_CleanupRace is the code's non-atomic cleanup (phase 1 collects,     *)
(* phase 3 erases, phase 4 calls back without re-checking).                                                                  *)
EXTENDS Naturals, Sequences, FiniteSets, TLC
CONSTANTS Queries,        \* e.g. {1, 2}
          Modes,          \* subset of {"U", "B", "T"}  (DnsTransportMode UDP / Both / TCP); chosen in Init
          MaxResp,        \* responses the scripted server sends in one script
          Retries,        \* config.retryCount
          WithCleanup,    \* model the cleanup thread + retry timer
          WithStop,       \* stop() may be called
          Dev_NoErase, Dev_AcceptAnyId, Dev_NoQuestionCheck, Dev_TimeoutNoPendingCheck, Dev_TruncCompletes,
          Dev_DupTruncCompletes, Dev_StopSkipsPending, Dev_FallbackTwice, Dev_CleanupRace, Dev_RetryOffByOne,
          Dev_FallbackDisarms

VARIABLES mode, running,
          st,      \* [Queries -> {"idle", "udp", "tcp", "done"}]   "udp"/"tcp" = registered in pendingQueries_
          fb,      \* [Queries -> BOOLEAN]     PendingQuery::tcpFallback
          tmo,     \* [Queries -> BOOLEAN]     a timeout timer of the query is armed
          rtm,     \* [Queries -> BOOLEAN]     a retry timer of the query is armed (cleanup path)
          retr,    \* [Queries -> Nat]         PendingQuery::retryCount
          wire,    \* [Queries -> [udp: Nat, tcp: Nat]]  times the query was put on the wire, per protocol
          nresp,   \* responses sent so far = tag of the last one
          done,    \* [Queries -> Seq([kind, rq, rk])]  completions: kind of completion, query the causing response was built
                   \*                                   for (0: none), kind of that response ("-": none)
          cl,      \* cleanup thread: set of collected (expired) queries still to be looked at  (phase 2)
          clc,     \* cleanup thread: queries marked for timeout completion (phases 3, 4)
          clpc     \* cleanup thread: "idle" | "phase2" | "phase3"
vars == <<mode, running, st, fb, tmo, rtm, retr, wire, nresp, done, cl, clc, clpc>>

Pending(q) == st[q] \in {"udp", "tcp"}
Protos(q) == {p \in {"udp", "tcp"} : wire[q][p] > 0}      \* the server can answer over a protocol it was asked on
Compl(k, rq, rk) == [kind |-> k, rq |-> rq, rk |-> rk]

Init == /\ mode \in Modes /\ running = TRUE
        /\ st = [q \in Queries |-> "idle"] /\ fb = [q \in Queries |-> FALSE] /\ tmo = [q \in Queries |-> FALSE]
        /\ rtm = [q \in Queries |-> FALSE] /\ retr = [q \in Queries |-> 0]
        /\ wire = [q \in Queries |-> [udp |-> 0, tcp |-> 0]] /\ nresp = 0 /\ done = [q \in Queries |-> <<>>]
        /\ cl = {} /\ clc = {} /\ clpc = "idle"

\* completeQuery(): find + erase under queriesMutex_, cancel the active timer, call back
Complete(q, k, rq, rk) ==
  /\ st' = [st EXCEPT ![q] = IF Dev_NoErase THEN @ ELSE "done"]
  /\ tmo' = [tmo EXCEPT ![q] = Dev_TimeoutNoPendingCheck]   \* cancel(activeTimerId); a callback already dequeued by the
  /\ done' = [done EXCEPT ![q] = Append(@, Compl(k, rq, rk))]  \* timer thread still runs: its own pending check is the net

\* ---------------------------------------------------------------------------------------------- the caller
\* queryAsync(): register, send (UDP unless mode TCP), arm the timeout timer
Query(q) == /\ running /\ st[q] = "idle"
            /\ LET p == IF mode = "T" THEN "tcp" ELSE "udp" IN
               /\ st' = [st EXCEPT ![q] = p] /\ wire' = [wire EXCEPT ![q][p] = @ + 1]
            /\ tmo' = [tmo EXCEPT ![q] = TRUE]
            /\ UNCHANGED <<mode, running, fb, rtm, retr, nresp, done, cl, clc, clpc>>
\* queryAsync() on a transport that is not running: immediate error callback
QueryStopped(q) == /\ ~running /\ st[q] = "idle"
                   /\ st' = [st EXCEPT ![q] = "done"] /\ done' = [done EXCEPT ![q] = Append(@, Compl("notrunning", 0, "-"))]
                   /\ UNCHANGED <<mode, running, fb, tmo, rtm, retr, wire, nresp, cl, clc, clpc>>
\* stop(): joins the cleanup thread, stops the transports (no I/O callback afterwards), completes everything pending,
\* stops the timer service (no timer callback afterwards)
Stop == /\ WithStop /\ running /\ clpc = "idle"
        /\ running' = FALSE
        /\ st' = [q \in Queries |-> IF Pending(q) THEN "done" ELSE st[q]]
        /\ done' = [q \in Queries |-> IF Pending(q) /\ ~Dev_StopSkipsPending THEN Append(done[q], Compl("stopped", 0, "-")) ELSE done[q]]
        /\ tmo' = [q \in Queries |-> FALSE] /\ rtm' = [q \in Queries |-> FALSE]
        /\ UNCHANGED <<mode, fb, retr, wire, nresp, cl, clc, clpc>>

\* ---------------------------------------------------------------------------------------------- the scripted server
CanRespond(q, p) == running /\ nresp < MaxResp /\ p \in Protos(q)
Tick == nresp' = nresp + 1
Rest == UNCHANGED <<mode, running, fb, rtm, retr, wire, cl, clc, clpc>>
\* a well-formed answer / NXDOMAIN with the id and question of q: processResponse -> completeQuery(key, result)
RespAnswerHit(q, p) == CanRespond(q, p) /\ Pending(q) /\ Tick /\ Complete(q, "ans", q, "ans") /\ Rest
RespAnswerLate(q, p) == CanRespond(q, p) /\ ~Pending(q) /\ Tick /\ UNCHANGED <<st, tmo, done>> /\ Rest   \* "unknown query"
RespNxHit(q, p) == CanRespond(q, p) /\ Pending(q) /\ Tick /\ Complete(q, "nx", q, "nx") /\ Rest
\* TC=1 over UDP
RespTruncFallback(q) == /\ CanRespond(q, "udp") /\ Pending(q) /\ mode = "B" /\ (~fb[q] \/ Dev_FallbackTwice) /\ ~Dev_TruncCompletes
                        /\ Tick /\ fb' = [fb EXCEPT ![q] = TRUE] /\ st' = [st EXCEPT ![q] = "tcp"]
                        /\ wire' = [wire EXCEPT ![q].tcp = @ + 1]
                        /\ tmo' = [tmo EXCEPT ![q] = ~Dev_FallbackDisarms]     \* scheduleQueryTimeout: cancel + re-arm
                        /\ UNCHANGED <<mode, running, rtm, retr, done, cl, clc, clpc>>
RespTruncDeliver(q) == /\ CanRespond(q, "udp") /\ Pending(q) /\ (mode = "U" \/ (mode = "B" /\ Dev_TruncCompletes))
                       /\ Tick /\ Complete(q, "trunc", q, "trunc") /\ Rest
\* mode Both, fallback already under way, a second truncated datagram: the code falls through to completeQuery
RespTruncDup(q) == /\ CanRespond(q, "udp") /\ Pending(q) /\ mode = "B" /\ fb[q] /\ ~Dev_FallbackTwice /\ ~Dev_TruncCompletes
                   /\ Tick /\ Rest
                   /\ IF Dev_DupTruncCompletes THEN Complete(q, "trunc", q, "trunc") ELSE UNCHANGED <<st, tmo, done>>
RespTruncLate(q) == CanRespond(q, "udp") /\ ~Pending(q) /\ Tick /\ UNCHANGED <<st, tmo, done>> /\ Rest
\* a response whose id is no pending query's id (same question): ignored
RespWrongId(q, p) == /\ CanRespond(q, p) /\ Tick /\ Rest
                     /\ IF Dev_AcceptAnyId /\ Pending(q) THEN Complete(q, "ans", q, "wrongid") ELSE UNCHANGED <<st, tmo, done>>
\* a response with q's id but another question
RespWrongQ(q, p) == /\ CanRespond(q, p) /\ Tick /\ Rest
                    /\ IF Dev_NoQuestionCheck /\ Pending(q) THEN Complete(q, "ans", q, "wrongq") ELSE UNCHANGED <<st, tmo, done>>
\* the same id arriving from the OTHER configured server: the key (id, server, port) differs - ignored
RespOtherServer(q) == /\ running /\ nresp < MaxResp /\ wire[q].udp > 0 /\ Tick /\ Rest /\ UNCHANGED <<st, tmo, done>>
\* an unparsable message that starts with q's id: completeQuery(key, DnsParseException)
RespMalformedHit(q, p) == CanRespond(q, p) /\ Pending(q) /\ Tick /\ Complete(q, "parse", q, "malformed") /\ Rest
RespMalformedLate(q, p) == CanRespond(q, p) /\ ~Pending(q) /\ Tick /\ UNCHANGED <<st, tmo, done>> /\ Rest

\* ---------------------------------------------------------------------------------------------- timers
\* the timeout timer (timer thread): still pending? erase, call back with DnsTimeoutException
Timeout(q) == /\ running /\ tmo[q] /\ (Pending(q) \/ Dev_TimeoutNoPendingCheck)
              /\ Complete(q, "timeout", 0, "-")
              /\ UNCHANGED <<mode, running, fb, rtm, retr, wire, nresp, cl, clc, clpc>>
\* the timer of a query that is no longer pending (only reachable on the retry path, where a timeout timer is orphaned)
TimeoutStale(q) == /\ running /\ tmo[q] /\ ~Pending(q) /\ ~Dev_TimeoutNoPendingCheck
                   /\ tmo' = [tmo EXCEPT ![q] = FALSE]
                   /\ UNCHANGED <<mode, running, st, fb, rtm, retr, wire, nresp, done, cl, clc, clpc>>

\* ---------------------------------------------------------------------------------------------- cleanup thread (10 s)
\* phase 1: under the lock collect the queries whose timeout has elapsed (their timer has not fired yet: it is late)
CleanupCollect == /\ WithCleanup /\ running /\ clpc = "idle"
                  /\ \E S \in SUBSET {q \in Queries : Pending(q) /\ tmo[q]} : S # {} /\ cl' = S
                  /\ clc' = {} /\ clpc' = "phase2"
                  /\ UNCHANGED <<mode, running, st, fb, tmo, rtm, retr, wire, nresp, done>>
\* phase 2, no lock: retryQuery (bump retryCount, arm the retry timer - the timeout timer stays armed) or mark for completion
CleanupLook(q) == /\ clpc = "phase2" /\ q \in cl /\ cl' = cl \ {q}
                  /\ IF retr[q] < Retries + (IF Dev_RetryOffByOne THEN 1 ELSE 0)
                     THEN /\ retr' = [retr EXCEPT ![q] = @ + 1] /\ rtm' = [rtm EXCEPT ![q] = TRUE] /\ UNCHANGED clc
                     ELSE /\ clc' = clc \cup {q} /\ UNCHANGED <<retr, rtm>>
                  /\ UNCHANGED <<mode, running, st, fb, tmo, wire, nresp, done, clpc>>
CleanupPhase3 == /\ clpc = "phase2" /\ cl = {} /\ clpc' = "phase3"
                 /\ UNCHANGED <<mode, running, st, fb, tmo, rtm, retr, wire, nresp, done, cl, clc>>
\* phases 3 + 4: erase the marked keys under the lock, then call every marked query back with a timeout -
\* the code does not look whether the query was still registered (Dev_CleanupRace); the repaired form completes only those
CleanupFinish == /\ clpc = "phase3" /\ clpc' = "idle" /\ clc' = {}
                 /\ st' = [q \in Queries |-> IF q \in clc /\ Pending(q) THEN "done" ELSE st[q]]
                 /\ done' = [q \in Queries |-> IF q \in clc /\ (Pending(q) \/ Dev_CleanupRace)
                                               THEN Append(done[q], Compl("timeout", 0, "-")) ELSE done[q]]
                 /\ UNCHANGED <<mode, running, fb, tmo, rtm, retr, wire, nresp, cl>>
\* the retry timer: still pending? send again over the configured protocol (mode Both sends nothing), re-arm the timeout
RetryFire(q) == /\ running /\ rtm[q] /\ rtm' = [rtm EXCEPT ![q] = FALSE]
                /\ IF Pending(q) /\ mode # "B"
                   THEN /\ wire' = [wire EXCEPT ![q][IF mode = "T" THEN "tcp" ELSE "udp"] = @ + 1]
                        /\ tmo' = [tmo EXCEPT ![q] = TRUE]
                   ELSE UNCHANGED <<wire, tmo>>
                /\ UNCHANGED <<mode, running, st, fb, retr, nresp, done, cl, clc, clpc>>

Next == \/ \E q \in Queries : Query(q) \/ QueryStopped(q) \/ Timeout(q) \/ TimeoutStale(q) \/ CleanupLook(q) \/ RetryFire(q)
        \/ Stop \/ CleanupCollect \/ CleanupPhase3 \/ CleanupFinish
        \/ \E q \in Queries : RespTruncFallback(q) \/ RespTruncDeliver(q) \/ RespTruncDup(q) \/ RespTruncLate(q) \/ RespOtherServer(q)
        \/ \E q \in Queries, p \in {"udp", "tcp"} :
             RespAnswerHit(q, p) \/ RespAnswerLate(q, p) \/ RespNxHit(q, p) \/ RespWrongId(q, p) \/ RespWrongQ(q, p)
             \/ RespMalformedHit(q, p) \/ RespMalformedLate(q, p)
Spec == Init /\ [][Next]_vars

\* ---------------------------------------------------------------------------------------------- properties
AtMostOnce == \A q \in Queries : Len(done[q]) <= 1                                                            \* P1
\* never none: whatever is pending has an armed timer that will complete it (or is about to be completed by the cleanup)
PendingHasTimer == \A q \in Queries : Pending(q) => (tmo[q] \/ rtm[q] \/ q \in cl \cup clc)                   \* P1
StopCompletes == ~running => \A q \in Queries : st[q] # "idle" => (st[q] = "done" /\ Len(done[q]) = 1)         \* P2
DoneHasCompletion == \A q \in Queries : st[q] = "done" => Len(done[q]) >= 1                                    \* P1
Matching == \A q \in Queries : \A i \in 1..Len(done[q]) :                                                      \* P3
              done[q][i].kind \in {"ans", "nx", "trunc", "parse"} =>
                /\ done[q][i].rq = q
                /\ done[q][i].rk = (IF done[q][i].kind = "parse" THEN "malformed" ELSE done[q][i].kind)
TruncNotFinal == mode = "B" => \A q \in Queries : \A i \in 1..Len(done[q]) : done[q][i].kind # "trunc"         \* P4
TcpOnlyAfterTrunc == mode = "B" => \A q \in Queries : wire[q].tcp <= (IF fb[q] THEN 1 ELSE 0)                  \* P4
Budget == \A q \in Queries : wire[q].udp + wire[q].tcp <= 1 + Retries + (IF fb[q] THEN 1 ELSE 0)              \* P5
TypeOK == /\ st \in [Queries -> {"idle", "udp", "tcp", "done"}] /\ nresp \in 0..MaxResp /\ clpc \in {"idle", "phase2", "phase3"}
=================================================================================
