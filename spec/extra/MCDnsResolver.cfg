CONSTANTS EmitCases = FALSE MaxQOps = 3
  Dev_us = FALSE Dev_snf = FALSE Dev_a4 = FALSE Dev_afe = FALSE Dev_ord = FALSE Dev_np = FALSE Dev_keep = FALSE Dev_desc = FALSE
SPECIFICATION Spec
INVARIANT ImplIsDocumented
INVARIANT SyncAsyncAgree
INVARIANT EveryTargetResolved
INVARIANT PreferencesRespected
INVARIANT LowestOrderOnly
INVARIANT OrderIsDocumented
INVARIANT Emit
CHECK_DEADLOCK FALSE
