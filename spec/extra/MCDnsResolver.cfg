CONSTANTS EmitCases = FALSE MaxQOps = 3 Full = TRUE
  Dev_us = FALSE Dev_snf = FALSE Dev_a4 = FALSE Dev_afe = FALSE Dev_ca4 = FALSE Dev_ord = FALSE Dev_np = FALSE Dev_keep = FALSE Dev_desc = FALSE
SPECIFICATION Spec
INVARIANT SyncAsyncAgree
INVARIANT CacheIsTransparent
INVARIANT EveryTargetResolved
INVARIANT PreferencesRespected
INVARIANT LowestOrderOnly
INVARIANT OrderIsDocumented
INVARIANT ImplIsDocumented
INVARIANT Emit
CHECK_DEADLOCK FALSE
