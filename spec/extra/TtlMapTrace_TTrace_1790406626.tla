---- MODULE TtlMapTrace_TTrace_1790406626 ----
EXTENDS Sequences, TLCExt, Toolbox, Naturals, TLC, TtlMapTrace

_expression ==
    LET TtlMapTrace_TEExpression == INSTANCE TtlMapTrace_TEExpression
    IN TtlMapTrace_TEExpression!expression
----

_trace ==
    LET TtlMapTrace_TETrace == INSTANCE TtlMapTrace_TETrace
    IN TtlMapTrace_TETrace!trace
----

_inv ==
    ~(
        TLCGet("level") = Len(_TETrace)
        /\
        st = ([hits |-> 0, misses |-> 0, ev |-> 0])
        /\
        cfg = ([max |-> 2, dflt |-> 2000, sweep |-> 2000])
        /\
        now = (0)
        /\
        l = (4)
        /\
        lru = (<<>>)
        /\
        pend = ([a |-> [st |-> "called", op |-> "put", k |-> 1, v |-> 1, ttl |-> 2000, hit |-> FALSE, snap |-> <<>>], main |-> [st |-> "idle", op |-> "-", k |-> 0, v |-> 0, ttl |-> 0, hit |-> FALSE, snap |-> <<>>]])
    )
----

_init ==
    /\ l = _TETrace[1].l
    /\ now = _TETrace[1].now
    /\ pend = _TETrace[1].pend
    /\ lru = _TETrace[1].lru
    /\ st = _TETrace[1].st
    /\ cfg = _TETrace[1].cfg
----

_next ==
    /\ \E i,j \in DOMAIN _TETrace:
        /\ \/ /\ j = i + 1
              /\ i = TLCGet("level")
        /\ l  = _TETrace[i].l
        /\ l' = _TETrace[j].l
        /\ now  = _TETrace[i].now
        /\ now' = _TETrace[j].now
        /\ pend  = _TETrace[i].pend
        /\ pend' = _TETrace[j].pend
        /\ lru  = _TETrace[i].lru
        /\ lru' = _TETrace[j].lru
        /\ st  = _TETrace[i].st
        /\ st' = _TETrace[j].st
        /\ cfg  = _TETrace[i].cfg
        /\ cfg' = _TETrace[j].cfg

\* Uncomment the ASSUME below to write the states of the error trace
\* to the given file in Json format. Note that you can pass any tuple
\* to `JsonSerialize`. For example, a sub-sequence of _TETrace.
    \* ASSUME
    \*     LET J == INSTANCE Json
    \*         IN J!JsonSerialize("TtlMapTrace_TTrace_1790406626.json", _TETrace)

=============================================================================

 Note that you can extract this module `TtlMapTrace_TEExpression`
  to a dedicated file to reuse `expression` (the module in the 
  dedicated `TtlMapTrace_TEExpression.tla` file takes precedence 
  over the module `TtlMapTrace_TEExpression` below).

---- MODULE TtlMapTrace_TEExpression ----
EXTENDS Sequences, TLCExt, Toolbox, Naturals, TLC, TtlMapTrace

expression == 
    [
        \* To hide variables of the `TtlMapTrace` spec from the error trace,
        \* remove the variables below.  The trace will be written in the order
        \* of the fields of this record.
        l |-> l
        ,now |-> now
        ,pend |-> pend
        ,lru |-> lru
        ,st |-> st
        ,cfg |-> cfg
        
        \* Put additional constant-, state-, and action-level expressions here:
        \* ,_stateNumber |-> _TEPosition
        \* ,_lUnchanged |-> l = l'
        
        \* Format the `l` variable as Json value.
        \* ,_lJson |->
        \*     LET J == INSTANCE Json
        \*     IN J!ToJson(l)
        
        \* Lastly, you may build expressions over arbitrary sets of states by
        \* leveraging the _TETrace operator.  For example, this is how to
        \* count the number of times a spec variable changed up to the current
        \* state in the trace.
        \* ,_lModCount |->
        \*     LET F[s \in DOMAIN _TETrace] ==
        \*         IF s = 1 THEN 0
        \*         ELSE IF _TETrace[s].l # _TETrace[s-1].l
        \*             THEN 1 + F[s-1] ELSE F[s-1]
        \*     IN F[_TEPosition - 1]
    ]

=============================================================================



Parsing and semantic processing can take forever if the trace below is long.
 In this case, it is advised to uncomment the module below to deserialize the
 trace from a generated binary file.

\*
\*---- MODULE TtlMapTrace_TETrace ----
\*EXTENDS IOUtils, TLC, TtlMapTrace
\*
\*trace == IODeserialize("TtlMapTrace_TTrace_1790406626.bin", TRUE)
\*
\*=============================================================================
\*

---- MODULE TtlMapTrace_TETrace ----
EXTENDS TLC, TtlMapTrace

trace == 
    <<
    ([st |-> [hits |-> 0, misses |-> 0, ev |-> 0],cfg |-> [max |-> 0, dflt |-> 0, sweep |-> 0],now |-> 0,l |-> 1,lru |-> <<>>,pend |-> [a |-> [st |-> "idle", op |-> "-", k |-> 0, v |-> 0, ttl |-> 0, hit |-> FALSE, snap |-> <<>>], main |-> [st |-> "idle", op |-> "-", k |-> 0, v |-> 0, ttl |-> 0, hit |-> FALSE, snap |-> <<>>]]]),
    ([st |-> [hits |-> 0, misses |-> 0, ev |-> 0],cfg |-> [max |-> 2, dflt |-> 2000, sweep |-> 2000],now |-> 0,l |-> 2,lru |-> <<>>,pend |-> [a |-> [st |-> "idle", op |-> "-", k |-> 0, v |-> 0, ttl |-> 0, hit |-> FALSE, snap |-> <<>>], main |-> [st |-> "idle", op |-> "-", k |-> 0, v |-> 0, ttl |-> 0, hit |-> FALSE, snap |-> <<>>]]]),
    ([st |-> [hits |-> 0, misses |-> 0, ev |-> 0],cfg |-> [max |-> 2, dflt |-> 2000, sweep |-> 2000],now |-> 0,l |-> 3,lru |-> <<>>,pend |-> [a |-> [st |-> "idle", op |-> "-", k |-> 0, v |-> 0, ttl |-> 0, hit |-> FALSE, snap |-> <<>>], main |-> [st |-> "idle", op |-> "-", k |-> 0, v |-> 0, ttl |-> 0, hit |-> FALSE, snap |-> <<>>]]]),
    ([st |-> [hits |-> 0, misses |-> 0, ev |-> 0],cfg |-> [max |-> 2, dflt |-> 2000, sweep |-> 2000],now |-> 0,l |-> 4,lru |-> <<>>,pend |-> [a |-> [st |-> "called", op |-> "put", k |-> 1, v |-> 1, ttl |-> 2000, hit |-> FALSE, snap |-> <<>>], main |-> [st |-> "idle", op |-> "-", k |-> 0, v |-> 0, ttl |-> 0, hit |-> FALSE, snap |-> <<>>]]])
    >>
----


=============================================================================

---- CONFIG TtlMapTrace_TTrace_1790406626 ----

INVARIANT
    _inv

CHECK_DEADLOCK
    \* CHECK_DEADLOCK off because of PROPERTY or INVARIANT above.
    FALSE

INIT
    _init

NEXT
    _next

CONSTANT
    _TETrace <- _trace

ALIAS
    _expression
=============================================================================
\* Generated on Sat Sep 26 07:10:28 UTC 2026