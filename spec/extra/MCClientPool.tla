---- MODULE MCClientPool ----
(* default exhaustive configuration of ClientPool.tla (checks/X09.py generates further programs under build/work) *)
EXTENDS ClientPool
MCProg == ("a" :> <<"get", "rel", "close">> @@ "b" :> <<"get", "tryGet", "rel", "rel">> @@ "c" :> <<"getT", "rel">>)
====
