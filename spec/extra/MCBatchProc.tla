------------------------------ MODULE MCBatchProc ------------------------------
(* Model-checking instance of BatchProc.tla: the configuration table (also read by checks/X11.py, which turns the        *)
(* indices in the action labels Construct(ci, si) / UpdateConfig(ci) into the numbers given to the driver).              *)
(*   1  adaptive, max 4, threshold below the utilisation target: a batch of 50 us is "increase" and "decrease" at once   *)
(*   2  adaptive, max 1: maxBatchSize / 2 = 0 (the constructor's 0 -> 1 guard)                                           *)
(*   3  fixed (adaptive off), max 2, maxBatchDelay 1500 us -> 2 ms wait                                                  *)
(*   4  adaptive, max 2, loadFactor 1/2, high threshold: utilisation decides alone; exactly 1/2 is neither up nor down   *)
(*   5  adaptive, max 8 (starts at 4: the first size where a 25% step differs from a 50% step), 1 ms delay               *)
(*   6  adaptive, max 2, threshold below the target: a FULL batch of 50 us at cur = max is "increase" (impossible) and    *)
(*      "decrease" at once - the code then decreases                                                                     *)
EXTENDS BatchProc
MCCfgs == << [max |-> 4, adaptive |-> TRUE,  delay |-> 100,  thr |-> 25,  lfn |-> 3, lfd |-> 4],
             [max |-> 1, adaptive |-> TRUE,  delay |-> 100,  thr |-> 50,  lfn |-> 3, lfd |-> 4],
             [max |-> 2, adaptive |-> FALSE, delay |-> 1500, thr |-> 50,  lfn |-> 1, lfd |-> 2],
             [max |-> 2, adaptive |-> TRUE,  delay |-> 100,  thr |-> 100, lfn |-> 1, lfd |-> 2],
             [max |-> 8, adaptive |-> TRUE,  delay |-> 1000, thr |-> 100, lfn |-> 1, lfd |-> 2],
             [max |-> 2, adaptive |-> TRUE,  delay |-> 100,  thr |-> 25,  lfn |-> 3, lfd |-> 4] >>
MCSpecialSets == << {}, {3}, {1, 3} >>
\* view of the test-plan graph: history (statistics, last outcome, op counter) projected away, time since the last
\* adjustment point reduced to the classes the 100 ms rule distinguishes
SinceClass == IF since >= Throttle THEN 100000 ELSE IF since >= Throttle - 200 THEN since ELSE 0
PlanView == <<cfg, spc, cur, SinceClass, pend, rq>>
PlanViewQ == <<cfg, cur, SinceClass, pend>>   \* coarser (quick tier): handler set and ready-queue order projected away too
\* state constraint of the deep run without history (TrackHist = FALSE): only executions that spend less than 300 us between
\* two adjustment points unless an Idle step brought them to the 100 ms boundary
SinceSmall == since < 300 \/ since >= Throttle - 100
================================================================================
