---- MODULE MCHostLease ----
(* default exhaustive configuration of HostLease.tla: two hosts, waiters for both parked on the one condition variable - the shape that needs notify_all *)
EXTENDS HostLease
A(h) == [op |-> "acq", h |-> h]
R == [op |-> "rel"]
MCProg == ("a" :> <<A("A"), R>> @@ "b" :> <<A("B"), A("A"), R, R>> @@ "c" :> <<A("B"), R>>)
MCProg2 == ("a" :> <<A("A"), R>> @@ "b" :> <<A("A"), R>> @@ "c" :> <<A("B"), [op |-> "cleanup"], R, A("A")>>)
====
