---- MODULE MCHostLease ----
(* default exhaustive configuration of HostLease.tla: two hosts, two waiters - the shape that needs notify_all *)
EXTENDS HostLease
A(h) == [op |-> "acq", h |-> h]
R == [op |-> "rel"]
MCProg == ("a" :> <<A("A"), R>> @@ "b" :> <<A("B"), R>> @@ "c" :> <<A("A"), R>> @@ "d" :> <<A("B"), R, [op |-> "cleanup"], A("A")>>)
====
