CONSTANTS AllowWrongQ = FALSE AllowDupTrunc = FALSE AllowSidCollision = FALSE AllowCleanupRace = FALSE
SPECIFICATION Spec
INVARIANT TraceChk
POSTCONDITION TracePost
CHECK_DEADLOCK FALSE
