------------------------------ MODULE Htmx ------------------------------
(* X14 (part 2) - iora::web::htmx helpers (include/iora/web/htmx.hpp).  Generator + Impl specification.            *)
(*                                                                                                          *)
(* What a user relies on (Abs, HtmlOps!SetterRefuses / BrowserScheme):                                           *)
(*   X1  a value-taking setter (setRedirect, setPushUrl, setRetarget, setReswap, setTrigger) NEVER writes a value   *)
(*       that contains CR or LF: it throws std::invalid_argument and leaves the response untouched;                *)
(*   X2  the URL-valued setters (setRedirect, setPushUrl) additionally refuse every value a browser would read as   *)
(*       a javascript: / data: / vbscript: URL - leading C0 controls and SP stripped, TAB ignored anywhere in the   *)
(*       scheme, case-insensitive, EXACT scheme (javascript-foo: and a bare "javascript" are fine) - and ONLY those; *)
(*       the other three setters are not scheme-validated;                                                          *)
(*   X3  otherwise exactly one header is written, under the exact HX-* spelling, with the value verbatim;           *)
(*       setRefresh writes HX-Refresh: true;                                                                        *)
(*   X4  inspectors: isHtmx / isBoost are true iff the header is present with exactly "true"; trigger / triggerName  *)
(*       / target return nullopt iff the header is absent (present-but-empty is a value); header names are looked    *)
(*       up case-insensitively and HX-Trigger / HX-Trigger-Name are different headers.                               *)
(*                                                                                                          *)
(* Deviations (default FALSE), each must make TLC report a violation:                                            *)
(*   Dev_NoTabIgnore "java<TAB>script:" passes     Dev_LeadSpaceOnly only SP (not C0 controls) stripped in front    *)
(*   Dev_SchemeCaseSensitive                       Dev_SchemePrefixMatch "javascript-foo:" refused as well          *)
(*   Dev_PushUrlNoScheme setPushUrl lacks the scheme guard     Dev_RetargetNoCrlf setRetarget lacks the CR/LF guard  *)
(*   Dev_WriteBeforeCheck the header is written before the guards run (left behind when the setter throws)          *)
(*   Dev_IsHtmxAnyCase "TRUE" counts              Dev_EmptyIsAbsent present-but-empty header reported as nullopt    *)
EXTENDS HtmlOps, TLC, Json

CONSTANTS Values,          \* values given to the URL-valued setters
          ValuesOther,     \* values given to setRetarget / setReswap / setTrigger
          InspValues,
          Dev_NoTabIgnore, Dev_LeadSpaceOnly, Dev_SchemeCaseSensitive, Dev_SchemePrefixMatch, Dev_PushUrlNoScheme,
          Dev_RetargetNoCrlf, Dev_WriteBeforeCheck, Dev_IsHtmxAnyCase, Dev_EmptyIsAbsent

Setters == {"redirect", "pushurl", "retarget", "reswap", "trigger"}
InspNames == {"HX-Request", "HX-Boosted", "HX-Trigger", "HX-Trigger-Name", "HX-Target"}

VARIABLES kind, setter, val, name, present,        \* the case
          pc, pos, scheme,                         \* the guard's position
          threw, written, insp, res
vars == <<kind, setter, val, name, present, pc, pos, scheme, threw, written, insp, res>>
case == <<kind, setter, val, name, present>>
NoInsp == [htmx |-> FALSE, boost |-> FALSE, trig |-> FALSE, tname |-> FALSE, target |-> FALSE]

Init == /\ \/ kind = "set" /\ setter \in Setters /\ val \in (IF UrlValued(setter) THEN Values ELSE ValuesOther)
              /\ name = "" /\ present = FALSE
           \/ kind = "refresh" /\ setter = "refresh" /\ val = <<>> /\ name = "" /\ present = FALSE
           \/ kind = "insp" /\ setter = "" /\ name \in InspNames /\ present \in BOOLEAN
              /\ val \in (IF present THEN InspValues ELSE {<<>>})
        /\ pc = "start" /\ pos = 1 /\ scheme = <<>> /\ threw = FALSE /\ written = FALSE /\ insp = NoInsp /\ res = "run"

At(p) == res = "run" /\ pc = p
Goto(p) == pc' = p /\ UNCHANGED <<case, pos, scheme, threw, written, insp, res>>
Throw == threw' = TRUE /\ res' = "done" /\ UNCHANGED <<case, pc, pos, scheme, written, insp>>
Write == written' = TRUE /\ res' = "done" /\ UNCHANGED <<case, pc, pos, scheme, threw, insp>>
n == Len(val)

\* ---- rejectCrlf
Early == /\ At("start") /\ kind = "set" /\ Dev_WriteBeforeCheck /\ ~written
         /\ written' = TRUE /\ UNCHANGED <<case, pc, pos, scheme, threw, insp, res>>
Ready == kind = "set" /\ (Dev_WriteBeforeCheck => written)
CrlfGuarded == ~(Dev_RetargetNoCrlf /\ setter = "retarget")
CrlfReject == At("start") /\ Ready /\ CrlfGuarded /\ HasCrLf(val) /\ Throw
CrlfPass == /\ At("start") /\ Ready /\ (~CrlfGuarded \/ ~HasCrLf(val))
            /\ Goto(IF UrlValued(setter) /\ ~(Dev_PushUrlNoScheme /\ setter = "pushurl") THEN "lead" ELSE "write")
\* ---- rejectDangerousScheme: skip leading C0 + SP
RECURSIVE SkipLead(_)
SkipLead(p) == IF p <= n /\ (IF Dev_LeadSpaceOnly THEN val[p] = 32 ELSE val[p] <= 32) THEN SkipLead(p + 1) ELSE p
Lead == /\ At("lead") /\ pos' = SkipLead(1) /\ pc' = "first" /\ UNCHANGED <<case, scheme, threw, written, insp, res>>
EmptyAfterTrim == At("first") /\ pos > n /\ Goto("write")
FirstNotAlpha == At("first") /\ pos <= n /\ ~Alpha(val[pos]) /\ Goto("write")
\* the run: collect scheme characters (folded), ignore TAB, stop at ':' (terminated) or at any other octet / the end
RECURSIVE Run(_, _)
Run(p, acc) == IF p > n THEN [term |-> FALSE, s |-> acc]
               ELSE IF val[p] = 9 /\ ~Dev_NoTabIgnore THEN Run(p + 1, acc)
               ELSE IF val[p] = 58 THEN [term |-> TRUE, s |-> acc]
               ELSE IF ~SchemeChar(val[p]) THEN [term |-> FALSE, s |-> acc]
               ELSE Run(p + 1, Append(acc, IF Dev_SchemeCaseSensitive THEN val[p] ELSE LowerC(val[p])))
Scan == /\ At("first") /\ pos <= n /\ Alpha(val[pos])
        /\ LET r == Run(pos, <<>>) IN
           IF r.term THEN scheme' = r.s /\ pc' = "compare" ELSE scheme' = scheme /\ pc' = "write"
        /\ UNCHANGED <<case, pos, threw, written, insp, res>>
IsDangerous(s) == IF Dev_SchemePrefixMatch THEN \E d \in Dangerous : Len(s) >= Len(d) /\ SubSeq(s, 1, Len(d)) = d ELSE s \in Dangerous
SchemeReject == At("compare") /\ IsDangerous(scheme) /\ Throw
SchemePass == At("compare") /\ ~IsDangerous(scheme) /\ Goto("write")
SetHeader == At("write") /\ Write
Refresh == At("start") /\ kind = "refresh" /\ Write
\* ---- inspectors
True4 == <<116, 114, 117, 101>>
Inspect == /\ At("start") /\ kind = "insp"
           /\ LET isTrue == IF Dev_IsHtmxAnyCase THEN [k \in 1..Len(val) |-> LowerC(val[k])] = True4 ELSE val = True4
                  has(h) == present /\ name = h /\ ~(Dev_EmptyIsAbsent /\ val = <<>>)
              IN insp' = [htmx |-> present /\ name = "HX-Request" /\ isTrue, boost |-> present /\ name = "HX-Boosted" /\ isTrue,
                          trig |-> has("HX-Trigger"), tname |-> has("HX-Trigger-Name"), target |-> has("HX-Target")]
           /\ res' = "done" /\ UNCHANGED <<case, pc, pos, scheme, threw, written>>

Next == Early \/ CrlfReject \/ CrlfPass \/ Lead \/ EmptyAfterTrim \/ FirstNotAlpha \/ Scan \/ SchemeReject \/ SchemePass \/ SetHeader
        \/ Refresh \/ Inspect
Spec == Init /\ [][Next]_vars

\* ------------------------------------------------------------------ properties
AbsInsp == [htmx |-> present /\ name = "HX-Request" /\ val = True4, boost |-> present /\ name = "HX-Boosted" /\ val = True4,
            trig |-> present /\ name = "HX-Trigger", tname |-> present /\ name = "HX-Trigger-Name", target |-> present /\ name = "HX-Target"]
Refines == res = "done" =>
           CASE kind = "set"     -> threw = SetterRefuses(setter, val) /\ written = ~threw
             [] kind = "refresh" -> written /\ ~threw
             [] OTHER            -> insp = AbsInsp
\* X1 as a safety property of every step: nothing with CR/LF is ever written
NeverWritesCrLf == (kind = "set" /\ written) => ~HasCrLf(val)
Progress == res = "run" => ENABLED Next
Emit == res = "run" \/ PrintT(ToJson([kind |-> kind, setter |-> setter, val |-> val, name |-> name, present |-> present,
                                        threw |-> threw, written |-> written, insp |-> insp,
                                        cls |-> IF kind # "set" THEN kind ELSE IF HasCrLf(val) THEN "crlf"
                                                ELSE IF BrowserScheme(val) \in Dangerous THEN "dangerous"
                                                ELSE IF BrowserScheme(val) # <<>> THEN "scheme" ELSE "noscheme"]))
=============================================================================
