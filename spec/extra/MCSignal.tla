---- MODULE MCSignal ----
(* exhaustive configuration of Signal.tla (X06): 2 threads, slot kinds plain / selfdisc / killnext / connector / weak, one     *)
(* weak target, at most 3 connection ids, 4 operations per behaviour (checks/X06.py generates the same module with its tier's  *)
(* constants)                                                                                                                  *)
EXTENDS Signal
====
