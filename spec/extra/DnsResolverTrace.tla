------------------------------ MODULE DnsResolverTrace ------------------------------
(* Abs trace specification of X19 (events of harness/drv_dnsresolver.cpp).  The case (zone, preferences, policy) is in the   *)
(* Begin event; the expected results are computed HERE with the evaluator DnsResolverOps.tla:                                *)
(*   R1  resolveServiceDomain / ...Async: no exception; the targets are, as a set, Eval(zone, ...) - nothing invented,        *)
(*       nothing dropped, each with the addresses of its host in policy order -, without duplicates, sorted by               *)
(*       (NAPTR preference, SRV priority); the asynchronous callback is invoked exactly once (Cb.count = 1);                  *)
(*   R2  the second synchronous call on the same resolver yields the same set and does not ask the server a question         *)
(*       whose answer it has cached (an answer with records, or NXDOMAIN) - the cache is consulted before the network;        *)
(*   R3  resolveHostname: the addresses in the order of the policy, DnsNoRecordsException iff there is none; policy           *)
(*       IPv4Only never asks AAAA, IPv6Only never asks A;                                                                     *)
(*   R4  query / queryAsync: a cached answer is returned without a network query (even though the zone has changed), a miss   *)
(*       asks the server exactly once; answers with records and NXDOMAIN are cached, SERVFAIL / NODATA are not; failure is    *)
(*       reported as DnsResolutionFailedException; every asynchronous call completes exactly once.                            *)
(* The five ways the code is known to depart (meta: observations) are accepted only when their flag is set.                  *)
EXTENDS TraceBase, FiniteSets, Integers, DnsResolverOps
CONSTANTS AllowUs, AllowSnf, AllowA4, AllowAfe, AllowCa4
VARIABLES cs, cur, qc, call, asked, before
vars == <<l, cs, cur, qc, call, asked, before>>
Flags == [us |-> AllowUs, snf |-> AllowSnf, a4 |-> AllowA4, afe |-> AllowAfe, ca4 |-> AllowCa4, ord |-> FALSE, np |-> FALSE, keep |-> FALSE, desc |-> FALSE]
NoCase == [kind |-> "-"]
NoCall == [op |-> "-", api |-> "-", i |-> 0]
NoEntry == [has |-> FALSE]
Init == l = 1 /\ cs = NoCase /\ cur = 1 /\ qc = NoEntry /\ call = NoCall /\ asked = {} /\ before = {}
Canon(c) == cs' = c /\ cur' = 1 /\ qc' = NoEntry /\ call' = NoCall /\ asked' = {} /\ before' = {}
Zone == IF cur = 1 THEN cs.zone ELSE cs.zone2

EvBegin == IsEv("Begin") /\ Canon(Ev)
EvReset == IsEv("Reset") /\ Canon(NoCase)
EvCall == /\ IsEv("Call") /\ cs.kind # "-" /\ call' = [op |-> Ev.op, api |-> Ev.api, i |-> Ev.i]
          \* what this resolver asked in its earlier calls (a fresh resolver for the asynchronous call)
          /\ before' = IF Ev.op = "svc" /\ Ev.api = "sync" /\ Ev.i = 2 THEN asked ELSE {}
          /\ asked' = {} /\ UNCHANGED <<cs, cur, qc>>
EvSrvQuery ==
  /\ IsEv("SrvQuery") /\ call.op # "-"
  /\ LET q == <<Ev.n, Ev.t>> IN
     /\ asked' = asked \cup {q}
     /\ call.op = "svc" => ~(q \in before /\ Cacheable(Lookup(cs.zone, Ev.n, Ev.t)))                              \* R2
     /\ call.op = "host" => ~(cs.policy = "IPv4Only" /\ Ev.t = "AAAA") /\ ~(cs.policy = "IPv6Only" /\ Ev.t = "A")  \* R3
     /\ call.op = "q" => (~qc.has /\ asked = {} /\ q = <<"q.test", "A">>)                                           \* R4
  /\ UNCHANGED <<cs, cur, qc, call, before>>
EvResultSvc ==
  /\ IsEv("Result") /\ Ev.op = "svc" /\ call.op = "svc" /\ call.api = Ev.api /\ call.i = Ev.i
  /\ Ev.exc = "-"
  /\ LET ts == Range(Ev.targets) IN
     /\ Cardinality(ts) = Len(Ev.targets)
     /\ ts = Eval(cs.zone, "d.test", cs.prefs, cs.policy, IF Ev.cached THEN "cached" ELSE Ev.api, Flags)          \* R1, R2
     /\ Sorted(Ev.targets, NoFlags)
  /\ UNCHANGED <<cs, cur, qc, call, asked, before>>
EvResultHost ==
  /\ IsEv("Result") /\ Ev.op = "host" /\ call.op = "host"
  /\ LET exp == Hostname(cs.zone, "h1.test", cs.policy) IN                                                          \* R3
     IF exp = <<>> THEN Ev.exc = "norecords" ELSE Ev.exc = "-" /\ Ev.addrs = exp
  /\ UNCHANGED <<cs, cur, qc, call, asked, before>>
EvResultQ ==
  /\ IsEv("Result") /\ Ev.op = "q" /\ call.op = "q" /\ call.i = Ev.i
  /\ LET e == IF qc.has THEN qc.e ELSE Lookup(Zone, "q.test", "A") IN                                               \* R4
     /\ ~qc.has => asked # {}
     /\ IF Success(e) THEN Ev.exc = "-" /\ Ev.addrs = Addrs(e) ELSE Ev.exc = "failed" /\ Ev.addrs = <<>>
     /\ qc' = IF ~qc.has /\ Cacheable(e) THEN [has |-> TRUE, e |-> e] ELSE qc
  /\ call' = IF call.api = "sync" THEN NoCall ELSE call
  /\ UNCHANGED <<cs, cur, asked, before>>
EvCb == IsEv("Cb") /\ Ev.count = 1 /\ call' = NoCall /\ UNCHANGED <<cs, cur, qc, asked, before>>                     \* R1, R4
EvZoneSwitch == IsEv("ZoneSwitch") /\ cur' = 2 /\ UNCHANGED <<cs, qc, call, asked, before>>
EvEnd == IsEv("End") /\ UNCHANGED <<cs, cur, qc, call, asked, before>>
Next == EvBegin \/ EvReset \/ EvCall \/ EvSrvQuery \/ EvResultSvc \/ EvResultHost \/ EvResultQ \/ EvCb \/ EvZoneSwitch \/ EvEnd
Spec == Init /\ [][Next]_vars
======================================================================================
