------------------------------ MODULE MCHtmlEscape ------------------------------
(* Exhaustive configuration of HtmlEscape.tla for the quick tier of X14.                                              *)
(*   escapeHtml    every string of length 0..4 over  & < > " ' a ; E9                                                *)
(*   url/formDecode every string of length 0..4 over  % 4 1 0 f G +    ("%41" "%4" "%" "%G1" "%0f" ... at every offset) *)
(*   url/formEncode every single octet 0..255 and every pair over the octets at the edges of the unreserved ranges      *)
(*   parseFormBody every sequence of 0..4 pieces from  a b = & + %41 %3D %26 %                                          *)
EXTENDS HtmlEscape
MCEscInputs == SeqsUpTo({38, 60, 62, 34, 39, 97, 59, 233}, 4)
MCDecInputs == SeqsUpTo({37, 52, 49, 48, 102, 71, 43}, 4)
MCEdge == {0, 32, 37, 43, 45, 46, 47, 48, 57, 58, 64, 65, 90, 91, 95, 96, 97, 122, 123, 126, 127, 128, 255}
MCEncInputs == {<<c>> : c \in 0..255} \cup {<<c, d>> : c \in MCEdge, d \in MCEdge} \cup {<<>>}
MCPieces == {<<97>>, <<98>>, <<61>>, <<38>>, <<43>>, <<37, 52, 49>>, <<37, 51, 68>>, <<37, 50, 54>>, <<37>>}   \* a b = & + %41 %3D %26 %
MCFormInputs == {Flat(ps) : ps \in SeqsUpTo(MCPieces, 4)}
=============================================================================
