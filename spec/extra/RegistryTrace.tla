---------------------------- MODULE RegistryTrace ----------------------------
(* X22: Abs oracle for iora::ServiceRegistry as a trace specification (properties R1..R6 of ServiceRegistry.tla).        *)
(* Every registry operation is recorded as Call ... Ret with its effect (Lin) at some instant in between; the            *)
(* implementations log their own destruction.                                                                             *)
(*   Call{t, op, ty, m, o, keep}   Ret{t, op, r, o}                                                                       *)
(*     op: set (o = the implementation the caller just made, ids count up from 1; m = moduleId, "" = empty, "core" = the *)
(*         set<T>(impl) overload; keep = 1: the caller keeps a handle of its own) | setnull | get (Ret.o = id seen        *)
(*         through the returned handle, 0 = nullptr) | unreg (Ret.r "true"/"false") | unmod | drop (a handle on o is      *)
(*         given up)                                                                                                      *)
(*   Dtor{o, lk}   End{outcome}                                                                                           *)
(* State: reg (interface -> implementation, moduleId), refs (handles outstanding per implementation), dead.               *)
(*   set    -> "inval" iff m = "" (nothing changes); else "dup" iff the interface is registered (nothing changes); else  *)
(*             "ok" and the implementation is registered.            setnull -> "inval", nothing changes                  *)
(*   get    -> exactly the implementation registered at the Lin instant (0 if none); the handle is a reference            *)
(*   unreg  -> "true" iff registered at the Lin instant; absent afterwards                                                *)
(*   unmod  -> removes all and only the entries of module m in ONE step                                                   *)
(*   Dtor   -> only of an implementation that is neither registered nor referenced by a handle, never twice (R6 Live);   *)
(*             a reference given up by an operation counts as gone from the operation's Call (drop) / Lin (the caller's   *)
(*             temporary of a set it does not keep), because the destructor runs before that operation returns.          *)
(*   Ret    -> when no other operation is in flight, everything unreferenced and unregistered has been destroyed, and at *)
(*             End everything made has been destroyed exactly once (R6 NoLeak).                                           *)
(* Named deviation accepted and reported (<<"OBS", "DtorUnderLock", line>>): a destructor that ran while the registry     *)
(* write lock was held by the calling registry operation (Dtor.lk = 1).                                                   *)
EXTENDS TraceBase, FiniteSets, Integers
VARIABLES reg, refs, dead, ncreated, pend
vars == <<l, reg, refs, dead, ncreated, pend>>
TY == 1..3
OBJ == 1..24
Thr == {Log[i].t : i \in {j \in 1..Len(Log) : "t" \in DOMAIN Log[j] /\ Log[j].e \in {"Call", "Ret"}}}
None == [o |-> 0, m |-> "-"]
Idle == [st |-> "idle", op |-> "-", ty |-> 0, m |-> "-", o |-> 0, keep |-> 0, res |-> "-"]
Reg0 == [T \in TY |-> None]
Refs0 == [o \in OBJ |-> 0]
Fresh == [t \in Thr |-> Idle]
Init == l = 1 /\ reg = Reg0 /\ refs = Refs0 /\ dead = {} /\ ncreated = 0 /\ pend = Fresh
EvReset == IsEv("Reset") /\ reg' = Reg0 /\ refs' = Refs0 /\ dead' = {} /\ ncreated' = 0 /\ pend' = Fresh

P(t, r) == pend' = [pend EXCEPT ![t] = r]
Registered(r) == {r[T].o : T \in TY} \ {0}

EvCall ==
    /\ IsEv("Call") /\ pend[Ev.t].st = "idle"
    /\ LET t == Ev.t  op == Ev.op
           base == [Idle EXCEPT !.st = "called", !.op = op, !.ty = Fld("ty", 0), !.m = Fld("m", "-"), !.o = Fld("o", 0),
                                !.keep = Fld("keep", 0)] IN
       CASE op = "set" -> /\ Ev.o = ncreated + 1 /\ Ev.o \in OBJ /\ Ev.ty \in TY /\ ncreated' = Ev.o
                          /\ refs' = [refs EXCEPT ![Ev.o] = 1] /\ P(t, base)
         [] op = "drop" -> /\ Ev.o \in OBJ /\ refs[Ev.o] > 0 /\ refs' = [refs EXCEPT ![Ev.o] = @ - 1]
                           /\ P(t, [base EXCEPT !.st = "lin"]) /\ UNCHANGED ncreated
         [] op = "setnull" -> P(t, [base EXCEPT !.st = "lin", !.res = "inval"]) /\ UNCHANGED <<refs, ncreated>>
         [] op \in {"get", "unreg"} -> Ev.ty \in TY /\ P(t, base) /\ UNCHANGED <<refs, ncreated>>
         [] op = "unmod" -> P(t, base) /\ UNCHANGED <<refs, ncreated>>
         [] OTHER -> FALSE
    /\ UNCHANGED <<reg, dead>>

Lin(t) ==
    /\ pend[t].st = "called" /\ UNCHANGED <<l, dead, ncreated>>
    /\ LET p == pend[t]
           letGo == IF p.keep = 0 THEN [refs EXCEPT ![p.o] = @ - 1] ELSE refs IN
       CASE p.op = "set" ->
              /\ refs' = letGo
              /\ IF p.m = "" THEN P(t, [p EXCEPT !.st = "lin", !.res = "inval"]) /\ UNCHANGED reg
                 ELSE IF reg[p.ty].o # 0 THEN P(t, [p EXCEPT !.st = "lin", !.res = "dup"]) /\ UNCHANGED reg
                 ELSE reg' = [reg EXCEPT ![p.ty] = [o |-> p.o, m |-> p.m]] /\ P(t, [p EXCEPT !.st = "lin", !.res = "ok"])
         [] p.op = "get" ->
              LET o == reg[p.ty].o IN
              /\ P(t, [p EXCEPT !.st = "lin", !.o = o])
              /\ refs' = (IF o = 0 THEN refs ELSE [refs EXCEPT ![o] = @ + 1])
              /\ UNCHANGED reg
         [] p.op = "unreg" ->
              /\ P(t, [p EXCEPT !.st = "lin", !.res = IF reg[p.ty].o # 0 THEN "true" ELSE "false"])
              /\ reg' = [reg EXCEPT ![p.ty] = None] /\ UNCHANGED refs
         [] p.op = "unmod" ->
              /\ reg' = [T \in TY |-> IF reg[T].o # 0 /\ reg[T].m = p.m THEN None ELSE reg[T]]
              /\ P(t, [p EXCEPT !.st = "lin"]) /\ UNCHANGED refs
         [] OTHER -> FALSE

\* a destructor: never of a registered implementation, never of one a handle refers to, never twice
EvDtor ==
    /\ IsEv("Dtor") /\ Ev.o \in 1..ncreated /\ Ev.o \notin dead /\ refs[Ev.o] = 0 /\ Ev.o \notin Registered(reg)
    /\ dead' = dead \cup {Ev.o}
    /\ (Fld("lk", 0) = 1) => PrintT(<<"OBS", "DtorUnderLock", l>>)
    /\ UNCHANGED <<reg, refs, ncreated, pend>>

Unowned == {o \in 1..ncreated : refs[o] = 0 /\ o \notin Registered(reg)}
EvRet ==
    /\ IsEv("Ret")
    /\ LET t == Ev.t  p == pend[Ev.t] IN
       /\ p.st = "lin" /\ p.op = Ev.op
       /\ (p.op \in {"set", "setnull", "unreg"}) => Ev.r = p.res
       /\ (p.op = "get") => Ev.o = p.o
       /\ (\A u \in Thr \ {t} : pend[u].st = "idle") => Unowned \subseteq dead
       /\ P(t, Idle)
    /\ UNCHANGED <<reg, refs, dead, ncreated>>

EvEnd == /\ IsEv("End") /\ Ev.outcome = "done" /\ dead = 1..ncreated /\ \A t \in Thr : pend[t].st = "idle"
         /\ UNCHANGED <<reg, refs, dead, ncreated, pend>>
Next == EvReset \/ EvCall \/ EvDtor \/ EvRet \/ EvEnd \/ \E t \in Thr : Lin(t)
Spec == Init /\ [][Next]_vars
=============================================================================
