---- MODULE DnsTransport_TTrace_1790403238 ----
EXTENDS Sequences, TLCExt, Toolbox, DnsTransport, Naturals, TLC

_expression ==
    LET DnsTransport_TEExpression == INSTANCE DnsTransport_TEExpression
    IN DnsTransport_TEExpression!expression
----

_trace ==
    LET DnsTransport_TETrace == INSTANCE DnsTransport_TETrace
    IN DnsTransport_TETrace!trace
----

_inv ==
    ~(
        TLCGet("level") = Len(_TETrace)
        /\
        ord = (<<>>)
        /\
        rr = (1)
        /\
        st = (<<"done", "idle">>)
        /\
        retr = (<<1, 0>>)
        /\
        srvOf = (<<0, 0>>)
        /\
        cl = ({})
        /\
        rtm = (<<TRUE, FALSE>>)
        /\
        tsid = ((0 :> 0 @@ 1 :> 0))
        /\
        done = (<<<<[rq |-> 0, rk |-> "-", kind |-> "timeout"], [rq |-> 0, rk |-> "-", kind |-> "timeout"]>>, <<>>>>)
        /\
        usid = ((0 :> 1 @@ 1 :> 0))
        /\
        running = (TRUE)
        /\
        mode = ("U")
        /\
        wire = (<<[udp |-> 1, tcp |-> 0], [udp |-> 0, tcp |-> 0]>>)
        /\
        clpc = ("idle")
        /\
        s2s = (<<0, 9>>)
        /\
        lost = ({})
        /\
        nsrv = (1)
        /\
        clc = ({})
        /\
        fb = (<<FALSE, FALSE>>)
        /\
        nresp = (0)
    )
----

_init ==
    /\ ord = _TETrace[1].ord
    /\ done = _TETrace[1].done
    /\ wire = _TETrace[1].wire
    /\ tsid = _TETrace[1].tsid
    /\ running = _TETrace[1].running
    /\ nsrv = _TETrace[1].nsrv
    /\ mode = _TETrace[1].mode
    /\ cl = _TETrace[1].cl
    /\ nresp = _TETrace[1].nresp
    /\ retr = _TETrace[1].retr
    /\ clc = _TETrace[1].clc
    /\ srvOf = _TETrace[1].srvOf
    /\ fb = _TETrace[1].fb
    /\ rr = _TETrace[1].rr
    /\ st = _TETrace[1].st
    /\ rtm = _TETrace[1].rtm
    /\ lost = _TETrace[1].lost
    /\ clpc = _TETrace[1].clpc
    /\ s2s = _TETrace[1].s2s
    /\ usid = _TETrace[1].usid
----

_next ==
    /\ \E i,j \in DOMAIN _TETrace:
        /\ \/ /\ j = i + 1
              /\ i = TLCGet("level")
        /\ ord  = _TETrace[i].ord
        /\ ord' = _TETrace[j].ord
        /\ done  = _TETrace[i].done
        /\ done' = _TETrace[j].done
        /\ wire  = _TETrace[i].wire
        /\ wire' = _TETrace[j].wire
        /\ tsid  = _TETrace[i].tsid
        /\ tsid' = _TETrace[j].tsid
        /\ running  = _TETrace[i].running
        /\ running' = _TETrace[j].running
        /\ nsrv  = _TETrace[i].nsrv
        /\ nsrv' = _TETrace[j].nsrv
        /\ mode  = _TETrace[i].mode
        /\ mode' = _TETrace[j].mode
        /\ cl  = _TETrace[i].cl
        /\ cl' = _TETrace[j].cl
        /\ nresp  = _TETrace[i].nresp
        /\ nresp' = _TETrace[j].nresp
        /\ retr  = _TETrace[i].retr
        /\ retr' = _TETrace[j].retr
        /\ clc  = _TETrace[i].clc
        /\ clc' = _TETrace[j].clc
        /\ srvOf  = _TETrace[i].srvOf
        /\ srvOf' = _TETrace[j].srvOf
        /\ fb  = _TETrace[i].fb
        /\ fb' = _TETrace[j].fb
        /\ rr  = _TETrace[i].rr
        /\ rr' = _TETrace[j].rr
        /\ st  = _TETrace[i].st
        /\ st' = _TETrace[j].st
        /\ rtm  = _TETrace[i].rtm
        /\ rtm' = _TETrace[j].rtm
        /\ lost  = _TETrace[i].lost
        /\ lost' = _TETrace[j].lost
        /\ clpc  = _TETrace[i].clpc
        /\ clpc' = _TETrace[j].clpc
        /\ s2s  = _TETrace[i].s2s
        /\ s2s' = _TETrace[j].s2s
        /\ usid  = _TETrace[i].usid
        /\ usid' = _TETrace[j].usid

\* Uncomment the ASSUME below to write the states of the error trace
\* to the given file in Json format. Note that you can pass any tuple
\* to `JsonSerialize`. For example, a sub-sequence of _TETrace.
    \* ASSUME
    \*     LET J == INSTANCE Json
    \*         IN J!JsonSerialize("DnsTransport_TTrace_1790403238.json", _TETrace)

=============================================================================

 Note that you can extract this module `DnsTransport_TEExpression`
  to a dedicated file to reuse `expression` (the module in the 
  dedicated `DnsTransport_TEExpression.tla` file takes precedence 
  over the module `DnsTransport_TEExpression` below).

---- MODULE DnsTransport_TEExpression ----
EXTENDS Sequences, TLCExt, Toolbox, DnsTransport, Naturals, TLC

expression == 
    [
        \* To hide variables of the `DnsTransport` spec from the error trace,
        \* remove the variables below.  The trace will be written in the order
        \* of the fields of this record.
        ord |-> ord
        ,done |-> done
        ,wire |-> wire
        ,tsid |-> tsid
        ,running |-> running
        ,nsrv |-> nsrv
        ,mode |-> mode
        ,cl |-> cl
        ,nresp |-> nresp
        ,retr |-> retr
        ,clc |-> clc
        ,srvOf |-> srvOf
        ,fb |-> fb
        ,rr |-> rr
        ,st |-> st
        ,rtm |-> rtm
        ,lost |-> lost
        ,clpc |-> clpc
        ,s2s |-> s2s
        ,usid |-> usid
        
        \* Put additional constant-, state-, and action-level expressions here:
        \* ,_stateNumber |-> _TEPosition
        \* ,_ordUnchanged |-> ord = ord'
        
        \* Format the `ord` variable as Json value.
        \* ,_ordJson |->
        \*     LET J == INSTANCE Json
        \*     IN J!ToJson(ord)
        
        \* Lastly, you may build expressions over arbitrary sets of states by
        \* leveraging the _TETrace operator.  For example, this is how to
        \* count the number of times a spec variable changed up to the current
        \* state in the trace.
        \* ,_ordModCount |->
        \*     LET F[s \in DOMAIN _TETrace] ==
        \*         IF s = 1 THEN 0
        \*         ELSE IF _TETrace[s].ord # _TETrace[s-1].ord
        \*             THEN 1 + F[s-1] ELSE F[s-1]
        \*     IN F[_TEPosition - 1]
    ]

=============================================================================



Parsing and semantic processing can take forever if the trace below is long.
 In this case, it is advised to uncomment the module below to deserialize the
 trace from a generated binary file.

\*
\*---- MODULE DnsTransport_TETrace ----
\*EXTENDS IOUtils, DnsTransport, TLC
\*
\*trace == IODeserialize("DnsTransport_TTrace_1790403238.bin", TRUE)
\*
\*=============================================================================
\*

---- MODULE DnsTransport_TETrace ----
EXTENDS DnsTransport, TLC

trace == 
    <<
    ([ord |-> <<>>,rr |-> 0,st |-> <<"idle", "idle">>,retr |-> <<0, 0>>,srvOf |-> <<0, 0>>,cl |-> {},rtm |-> <<FALSE, FALSE>>,tsid |-> (0 :> 0 @@ 1 :> 0),done |-> <<<<>>, <<>>>>,usid |-> (0 :> 0 @@ 1 :> 0),running |-> TRUE,mode |-> "-",wire |-> <<[udp |-> 0, tcp |-> 0], [udp |-> 0, tcp |-> 0]>>,clpc |-> "idle",s2s |-> <<9, 9>>,lost |-> {},nsrv |-> 0,clc |-> {},fb |-> <<FALSE, FALSE>>,nresp |-> 0]),
    ([ord |-> <<>>,rr |-> 0,st |-> <<"idle", "idle">>,retr |-> <<0, 0>>,srvOf |-> <<0, 0>>,cl |-> {},rtm |-> <<FALSE, FALSE>>,tsid |-> (0 :> 0 @@ 1 :> 0),done |-> <<<<>>, <<>>>>,usid |-> (0 :> 0 @@ 1 :> 0),running |-> TRUE,mode |-> "U",wire |-> <<[udp |-> 0, tcp |-> 0], [udp |-> 0, tcp |-> 0]>>,clpc |-> "idle",s2s |-> <<9, 9>>,lost |-> {},nsrv |-> 1,clc |-> {},fb |-> <<FALSE, FALSE>>,nresp |-> 0]),
    ([ord |-> <<1>>,rr |-> 1,st |-> <<"udp", "idle">>,retr |-> <<0, 0>>,srvOf |-> <<0, 0>>,cl |-> {},rtm |-> <<FALSE, FALSE>>,tsid |-> (0 :> 0 @@ 1 :> 0),done |-> <<<<>>, <<>>>>,usid |-> (0 :> 1 @@ 1 :> 0),running |-> TRUE,mode |-> "U",wire |-> <<[udp |-> 1, tcp |-> 0], [udp |-> 0, tcp |-> 0]>>,clpc |-> "idle",s2s |-> <<0, 9>>,lost |-> {},nsrv |-> 1,clc |-> {},fb |-> <<FALSE, FALSE>>,nresp |-> 0]),
    ([ord |-> <<1>>,rr |-> 1,st |-> <<"udp", "idle">>,retr |-> <<0, 0>>,srvOf |-> <<0, 0>>,cl |-> {1},rtm |-> <<FALSE, FALSE>>,tsid |-> (0 :> 0 @@ 1 :> 0),done |-> <<<<>>, <<>>>>,usid |-> (0 :> 1 @@ 1 :> 0),running |-> TRUE,mode |-> "U",wire |-> <<[udp |-> 1, tcp |-> 0], [udp |-> 0, tcp |-> 0]>>,clpc |-> "phase2",s2s |-> <<0, 9>>,lost |-> {},nsrv |-> 1,clc |-> {},fb |-> <<FALSE, FALSE>>,nresp |-> 0]),
    ([ord |-> <<1>>,rr |-> 1,st |-> <<"udp", "idle">>,retr |-> <<1, 0>>,srvOf |-> <<0, 0>>,cl |-> {},rtm |-> <<TRUE, FALSE>>,tsid |-> (0 :> 0 @@ 1 :> 0),done |-> <<<<>>, <<>>>>,usid |-> (0 :> 1 @@ 1 :> 0),running |-> TRUE,mode |-> "U",wire |-> <<[udp |-> 1, tcp |-> 0], [udp |-> 0, tcp |-> 0]>>,clpc |-> "phase2",s2s |-> <<0, 9>>,lost |-> {},nsrv |-> 1,clc |-> {},fb |-> <<FALSE, FALSE>>,nresp |-> 0]),
    ([ord |-> <<1>>,rr |-> 1,st |-> <<"udp", "idle">>,retr |-> <<1, 0>>,srvOf |-> <<0, 0>>,cl |-> {},rtm |-> <<TRUE, FALSE>>,tsid |-> (0 :> 0 @@ 1 :> 0),done |-> <<<<>>, <<>>>>,usid |-> (0 :> 1 @@ 1 :> 0),running |-> TRUE,mode |-> "U",wire |-> <<[udp |-> 1, tcp |-> 0], [udp |-> 0, tcp |-> 0]>>,clpc |-> "phase3",s2s |-> <<0, 9>>,lost |-> {},nsrv |-> 1,clc |-> {},fb |-> <<FALSE, FALSE>>,nresp |-> 0]),
    ([ord |-> <<1>>,rr |-> 1,st |-> <<"udp", "idle">>,retr |-> <<1, 0>>,srvOf |-> <<0, 0>>,cl |-> {},rtm |-> <<TRUE, FALSE>>,tsid |-> (0 :> 0 @@ 1 :> 0),done |-> <<<<>>, <<>>>>,usid |-> (0 :> 1 @@ 1 :> 0),running |-> TRUE,mode |-> "U",wire |-> <<[udp |-> 1, tcp |-> 0], [udp |-> 0, tcp |-> 0]>>,clpc |-> "idle",s2s |-> <<0, 9>>,lost |-> {},nsrv |-> 1,clc |-> {},fb |-> <<FALSE, FALSE>>,nresp |-> 0]),
    ([ord |-> <<1>>,rr |-> 1,st |-> <<"udp", "idle">>,retr |-> <<1, 0>>,srvOf |-> <<0, 0>>,cl |-> {1},rtm |-> <<TRUE, FALSE>>,tsid |-> (0 :> 0 @@ 1 :> 0),done |-> <<<<>>, <<>>>>,usid |-> (0 :> 1 @@ 1 :> 0),running |-> TRUE,mode |-> "U",wire |-> <<[udp |-> 1, tcp |-> 0], [udp |-> 0, tcp |-> 0]>>,clpc |-> "phase2",s2s |-> <<0, 9>>,lost |-> {},nsrv |-> 1,clc |-> {},fb |-> <<FALSE, FALSE>>,nresp |-> 0]),
    ([ord |-> <<>>,rr |-> 1,st |-> <<"done", "idle">>,retr |-> <<1, 0>>,srvOf |-> <<0, 0>>,cl |-> {1},rtm |-> <<TRUE, FALSE>>,tsid |-> (0 :> 0 @@ 1 :> 0),done |-> <<<<[rq |-> 0, rk |-> "-", kind |-> "timeout"]>>, <<>>>>,usid |-> (0 :> 1 @@ 1 :> 0),running |-> TRUE,mode |-> "U",wire |-> <<[udp |-> 1, tcp |-> 0], [udp |-> 0, tcp |-> 0]>>,clpc |-> "phase2",s2s |-> <<0, 9>>,lost |-> {},nsrv |-> 1,clc |-> {},fb |-> <<FALSE, FALSE>>,nresp |-> 0]),
    ([ord |-> <<>>,rr |-> 1,st |-> <<"done", "idle">>,retr |-> <<1, 0>>,srvOf |-> <<0, 0>>,cl |-> {},rtm |-> <<TRUE, FALSE>>,tsid |-> (0 :> 0 @@ 1 :> 0),done |-> <<<<[rq |-> 0, rk |-> "-", kind |-> "timeout"]>>, <<>>>>,usid |-> (0 :> 1 @@ 1 :> 0),running |-> TRUE,mode |-> "U",wire |-> <<[udp |-> 1, tcp |-> 0], [udp |-> 0, tcp |-> 0]>>,clpc |-> "phase2",s2s |-> <<0, 9>>,lost |-> {},nsrv |-> 1,clc |-> {1},fb |-> <<FALSE, FALSE>>,nresp |-> 0]),
    ([ord |-> <<>>,rr |-> 1,st |-> <<"done", "idle">>,retr |-> <<1, 0>>,srvOf |-> <<0, 0>>,cl |-> {},rtm |-> <<TRUE, FALSE>>,tsid |-> (0 :> 0 @@ 1 :> 0),done |-> <<<<[rq |-> 0, rk |-> "-", kind |-> "timeout"]>>, <<>>>>,usid |-> (0 :> 1 @@ 1 :> 0),running |-> TRUE,mode |-> "U",wire |-> <<[udp |-> 1, tcp |-> 0], [udp |-> 0, tcp |-> 0]>>,clpc |-> "phase3",s2s |-> <<0, 9>>,lost |-> {},nsrv |-> 1,clc |-> {1},fb |-> <<FALSE, FALSE>>,nresp |-> 0]),
    ([ord |-> <<>>,rr |-> 1,st |-> <<"done", "idle">>,retr |-> <<1, 0>>,srvOf |-> <<0, 0>>,cl |-> {},rtm |-> <<TRUE, FALSE>>,tsid |-> (0 :> 0 @@ 1 :> 0),done |-> <<<<[rq |-> 0, rk |-> "-", kind |-> "timeout"], [rq |-> 0, rk |-> "-", kind |-> "timeout"]>>, <<>>>>,usid |-> (0 :> 1 @@ 1 :> 0),running |-> TRUE,mode |-> "U",wire |-> <<[udp |-> 1, tcp |-> 0], [udp |-> 0, tcp |-> 0]>>,clpc |-> "idle",s2s |-> <<0, 9>>,lost |-> {},nsrv |-> 1,clc |-> {},fb |-> <<FALSE, FALSE>>,nresp |-> 0])
    >>
----


=============================================================================

---- CONFIG DnsTransport_TTrace_1790403238 ----
CONSTANTS
    Queries = { 1 , 2 }
    Modes = { "U" , "B" , "T" }
    NSrvs = { 1 , 2 }
    MaxResp = 2
    Retries = 1
    WithCleanup = TRUE
    WithStop = TRUE
    FifoTimers = FALSE
    Dev_NoErase = FALSE
    Dev_AcceptAnyId = FALSE
    Dev_NoQuestionCheck = FALSE
    Dev_TimeoutNoPendingCheck = FALSE
    Dev_TruncCompletes = FALSE
    Dev_DupTruncCompletes = FALSE
    Dev_StopSkipsPending = FALSE
    Dev_FallbackTwice = FALSE
    Dev_CleanupRace = TRUE
    Dev_RetryOffByOne = FALSE
    Dev_FallbackDisarms = FALSE
    Dev_SharedSessionIds = FALSE

INVARIANT
    _inv

CHECK_DEADLOCK
    \* CHECK_DEADLOCK off because of PROPERTY or INVARIANT above.
    FALSE

INIT
    _init

NEXT
    _next

CONSTANT
    _TETrace <- _trace

ALIAS
    _expression
=============================================================================
\* Generated on Sat Sep 26 06:14:05 UTC 2026