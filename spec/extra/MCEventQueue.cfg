CONSTANTS Producers = {"p1", "p2"} Workers = {"w1", "w2"} Events <- MCEvents
SPECIFICATION Spec
INVARIANT ExactlyOnce
INVARIANT DrainedAtEnd
INVARIANT NoStuck
CHECK_DEADLOCK FALSE
