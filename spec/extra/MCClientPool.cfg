CONSTANTS N = 1 Threads = {"a", "b", "c"} Prog <- MCProg
  Dev_ReturnKeepsLease = FALSE Dev_NoNotifyOnReturn = FALSE Dev_CloseNoWake = FALSE Dev_NoClosedCheck = FALSE Dev_CloseKeepsQueueOpen = FALSE
SPECIFICATION Spec
INVARIANT Exclusive
INVARIANT Conserved
INVARIANT ClosedRefuses
INVARIANT FailOnlyWhenEmptyOrClosed
INVARIANT NoStuck
CHECK_DEADLOCK FALSE
