------------------------------ MODULE MCStateStore ------------------------------
(* Exhaustive configuration of StateStore.tla for X25: 5 spellings of 3 keys ("a" "A", "ab" "Ab", "b"), 2 values,      *)
(* prefixes "a" "A" "Ab" "" "b": 75 reachable stores; every edge of the state graph is replayed on the real object.      *)
EXTENDS StateStore
MCSpellings == {"a", "A", "ab", "Ab", "b"}
MCPrefixes == {"a", "A", "Ab", "", "b"}
MCChars(s) == CASE s = "a" -> <<97>> [] s = "A" -> <<65>> [] s = "ab" -> <<97, 98>> [] s = "Ab" -> <<65, 98>> [] s = "b" -> <<98>> [] s = "" -> <<>>
=============================================================================
