------------------------------ MODULE RateLimiterMap ------------------------------
(* Beyond the listed properties: RateLimiterMap::tryConsume / removeKey (core/rate_limiter.hpp) at shard-lock grain, one    *)
(* key, no time (the bucket arithmetic is TokenBucket.tla's).  tryConsume is THREE critical sections in the code:           *)
(*   Fast(c)        findAndModify(key): bucket there -> consume inside the lock, done; else go to the slow path             *)
(*   SlowInsert(c)  insert(key, full bucket)   (keeps an existing bucket)                                                   *)
(*   SlowConsume(c) findAndModify(key): bucket there -> consume; NOT there -> the call returns false (RetryOnMiss = FALSE,  *)
(*                  the code) or starts over (RetryOnMiss = TRUE, what a repair would do)                                   *)
(* Remove is removeKey(): one critical section.  cleanup(maxIdle) is TWO: CleanupCollect (forEach under shared locks notes   *)
(* the key if its bucket is idle - with maxIdle * rate >= burst an idle bucket is FULL, which is how the untimed model says    *)
(* "idle") and CleanupErase (erases the noted key: unconditionally as the code does, EraseRechecks = FALSE, or only if the     *)
(* bucket is still full, EraseRechecks = TRUE, what a repair would do).                                                         *)
(*   NoBusyEviction     cleanup never erases a bucket that has been drawn from (observation O-26b when violated)               *)
(*   NoSpuriousRefusal  a call asking for 1 <= Burst is refused only if some token of the key was granted before            *)
(*   NeverOverdrawn     tokens never negative / above Burst                                                                 *)
(* With RetryOnMiss = FALSE TLC's counterexample (Fast miss, SlowInsert, Remove, SlowConsume) is the program                *)
(* "a=C1z;b=Rz" that X26 runs on the real map under random schedules (observation O-26a).                                   *)
EXTENDS Naturals, FiniteSets, TLC
CONSTANTS Callers, Burst, MaxRemoves, RetryOnMiss, MaxCleanups, EraseRechecks
VARIABLES bucket, pc, res, granted, removes, noted, cleanups, evictedBusy
vars == <<bucket, pc, res, granted, removes, noted, cleanups, evictedBusy>>
None == Burst + 1
Init == bucket = None /\ pc = [c \in Callers |-> "fast"] /\ res = [c \in Callers |-> "-"] /\ granted = 0 /\ removes = 0 /\ noted = FALSE /\ cleanups = 0 /\ evictedBusy = FALSE
ConsumeIn(c) == IF bucket >= 1 THEN bucket' = bucket - 1 /\ granted' = granted + 1 /\ res' = [res EXCEPT ![c] = "ok"]
                ELSE UNCHANGED <<bucket, granted>> /\ res' = [res EXCEPT ![c] = "refused"]
Fast(c) == /\ pc[c] = "fast"
           /\ IF bucket # None THEN ConsumeIn(c) /\ pc' = [pc EXCEPT ![c] = "done"]
              ELSE pc' = [pc EXCEPT ![c] = "insert"] /\ UNCHANGED <<bucket, granted, res>>
           /\ UNCHANGED <<removes, noted, cleanups, evictedBusy>>
SlowInsert(c) == /\ pc[c] = "insert" /\ bucket' = (IF bucket = None THEN Burst ELSE bucket)
                 /\ pc' = [pc EXCEPT ![c] = "consume"] /\ UNCHANGED <<res, granted, removes, noted, cleanups, evictedBusy>>
SlowConsume(c) == /\ pc[c] = "consume"
                  /\ IF bucket # None THEN ConsumeIn(c) /\ pc' = [pc EXCEPT ![c] = "done"]
                     ELSE IF RetryOnMiss THEN pc' = [pc EXCEPT ![c] = "fast"] /\ UNCHANGED <<bucket, granted, res>>
                     ELSE pc' = [pc EXCEPT ![c] = "done"] /\ res' = [res EXCEPT ![c] = "refused"] /\ UNCHANGED <<bucket, granted>>
                  /\ UNCHANGED <<removes, noted, cleanups, evictedBusy>>
Remove == removes < MaxRemoves /\ removes' = removes + 1 /\ bucket' = None /\ UNCHANGED <<pc, res, granted, noted, cleanups, evictedBusy>>
CleanupCollect == /\ ~noted /\ cleanups < MaxCleanups /\ cleanups' = cleanups + 1 /\ noted' = (bucket = Burst)
                  /\ UNCHANGED <<bucket, pc, res, granted, removes, evictedBusy>>
CleanupErase == /\ noted /\ noted' = FALSE
                /\ IF bucket # None /\ (~EraseRechecks \/ bucket = Burst)
                   THEN bucket' = None /\ evictedBusy' = (evictedBusy \/ bucket < Burst)
                   ELSE UNCHANGED <<bucket, evictedBusy>>
                /\ UNCHANGED <<pc, res, granted, removes, cleanups>>
Next == (\E c \in Callers : Fast(c) \/ SlowInsert(c) \/ SlowConsume(c)) \/ Remove \/ CleanupCollect \/ CleanupErase
Spec == Init /\ [][Next]_vars
NoSpuriousRefusal == \A c \in Callers : res[c] = "refused" => granted >= 1
NoBusyEviction == ~evictedBusy
NeverOverdrawn == bucket \in 0..Burst \cup {None}
===================================================================================
