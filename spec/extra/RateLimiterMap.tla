------------------------------ MODULE RateLimiterMap ------------------------------
(* Beyond the listed properties: RateLimiterMap::tryConsume / removeKey (core/rate_limiter.hpp) at shard-lock grain, one    *)
(* key, no time (the bucket arithmetic is TokenBucket.tla's).  tryConsume is THREE critical sections in the code:           *)
(*   Fast(c)        findAndModify(key): bucket there -> consume inside the lock, done; else go to the slow path             *)
(*   SlowInsert(c)  insert(key, full bucket)   (keeps an existing bucket)                                                   *)
(*   SlowConsume(c) findAndModify(key): bucket there -> consume; NOT there -> the call returns false (RetryOnMiss = FALSE,  *)
(*                  the code) or starts over (RetryOnMiss = TRUE, what a repair would do)                                   *)
(* Remove is removeKey(): one critical section.                                                                             *)
(*   NoSpuriousRefusal  a call asking for 1 <= Burst is refused only if some token of the key was granted before            *)
(*   NeverOverdrawn     tokens never negative / above Burst                                                                 *)
(* With RetryOnMiss = FALSE TLC's counterexample (Fast miss, SlowInsert, Remove, SlowConsume) is the program                *)
(* "a=C1z;b=Rz" that X26 runs on the real map under random schedules (observation O-26a).                                   *)
EXTENDS Naturals, FiniteSets, TLC
CONSTANTS Callers, Burst, MaxRemoves, RetryOnMiss
VARIABLES bucket, pc, res, granted, removes
vars == <<bucket, pc, res, granted, removes>>
None == Burst + 1
Init == bucket = None /\ pc = [c \in Callers |-> "fast"] /\ res = [c \in Callers |-> "-"] /\ granted = 0 /\ removes = 0
ConsumeIn(c) == IF bucket >= 1 THEN bucket' = bucket - 1 /\ granted' = granted + 1 /\ res' = [res EXCEPT ![c] = "ok"]
                ELSE UNCHANGED <<bucket, granted>> /\ res' = [res EXCEPT ![c] = "refused"]
Fast(c) == /\ pc[c] = "fast"
           /\ IF bucket # None THEN ConsumeIn(c) /\ pc' = [pc EXCEPT ![c] = "done"]
              ELSE pc' = [pc EXCEPT ![c] = "insert"] /\ UNCHANGED <<bucket, granted, res>>
           /\ UNCHANGED removes
SlowInsert(c) == /\ pc[c] = "insert" /\ bucket' = (IF bucket = None THEN Burst ELSE bucket)
                 /\ pc' = [pc EXCEPT ![c] = "consume"] /\ UNCHANGED <<res, granted, removes>>
SlowConsume(c) == /\ pc[c] = "consume"
                  /\ IF bucket # None THEN ConsumeIn(c) /\ pc' = [pc EXCEPT ![c] = "done"]
                     ELSE IF RetryOnMiss THEN pc' = [pc EXCEPT ![c] = "fast"] /\ UNCHANGED <<bucket, granted, res>>
                     ELSE pc' = [pc EXCEPT ![c] = "done"] /\ res' = [res EXCEPT ![c] = "refused"] /\ UNCHANGED <<bucket, granted>>
                  /\ UNCHANGED removes
Remove == removes < MaxRemoves /\ removes' = removes + 1 /\ bucket' = None /\ UNCHANGED <<pc, res, granted>>
Next == (\E c \in Callers : Fast(c) \/ SlowInsert(c) \/ SlowConsume(c)) \/ Remove
Spec == Init /\ [][Next]_vars
NoSpuriousRefusal == \A c \in Callers : res[c] = "refused" => granted >= 1
NeverOverdrawn == bucket \in 0..Burst \cup {None}
===================================================================================
