SPECIFICATION Spec
CONSTANTS
  Prods = {"p1", "p2"}
  NMsg = 2
  Flushers = {"p1"}
  UseHandler = TRUE
  WithClear = TRUE
  MinLevel = 2
  Lvls <- MCLvls
  Strong = FALSE
  Dev_LevelOff = FALSE
  Dev_FlushSkipsQueue = FALSE
  Dev_FlushSkipsRaw = FALSE
  Dev_WriteOutsideLock = FALSE
  Dev_NoDrainWait = FALSE
  Dev_ShutdownNoJoin = FALSE
  Dev_WorkerLifo = FALSE
INVARIANT AtMostOnce
INVARIANT LevelOk
INVARIANT OkInv
INVARIANT OrderW
INVARIANT OrderH
INVARIANT TearOut
INVARIANT AfterShut
INVARIANT NoSpin
INVARIANT NoStuck
VIEW View
CHECK_DEADLOCK FALSE
