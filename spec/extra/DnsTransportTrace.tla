------------------------------ MODULE DnsTransportTrace ------------------------------
(* Abs trace specification of X18 (DnsTransport against a scripted server; events of harness/drv_dnstransport.cpp).       *)
(* It states ONLY the properties P1-P6 of DnsTransport.tla over what the server, the caller and the callbacks observed:   *)
(*   P1  at most one Done per query, exactly one at End; a Wait the script placed after a completing response (or, with   *)
(*       the short timeout, anywhere) finds the completion within its generous limit;                                     *)
(*   P2  StopRet only when every issued query has its Done; no Done after StopRet except "not running" of a query issued  *)
(*       afterwards (api = sync logs the Done when query() returns in its own thread: no ordering against StopRet then);  *)
(*   P3  Done(ans|nx|trunc, tag): the server sent exactly that response for exactly that query; Done(parse): the server   *)
(*       sent an unparsable message with the query's id; the completion of a query by a response built for ANOTHER        *)
(*       QUESTION is accepted only as the named deviation AllowWrongQ;                                                     *)
(*   P4  mode Both: a TCP query only after a truncated response; Done(trunc) never - except the named deviation           *)
(*       AllowDupTrunc (a second truncated datagram while the fallback is under way); SrvRecv{ok = FALSE} - the initial   *)
(*       query or the TCP fallback query did not arrive - is never accepted;                                              *)
(*       the named deviation AllowSidCollision (X18-O4): this module mirrors the session bookkeeping the deviation is     *)
(*       about - the UDP and the TCP Transport number their sessions 1, 2, ... in the order the servers were first        *)
(*       contacted (SrvRecv.srv), sessionToServer_ is ONE map over both - and, where the entry of the session a response  *)
(*       travels on names another server, neither the completion (due) nor the TCP fallback query is demanded;            *)
(*       the named deviation AllowCleanupRace (X18-O5), only in the directed probe (Begin.probe = 1) that holds the       *)
(*       cleanup thread between its phases 1 and 3: a SECOND Done of kind timeout for a query that was already completed;    *)
(*   P5  transmissions of one query <= 1 + retryCount (+1 after a truncation in mode Both);                               *)
(*   P6  Done(timeout) carries early = 0 (the driver compares the steady clock with config.timeout: one-sided).           *)
EXTENDS TraceBase, FiniteSets, Integers
CONSTANTS AllowWrongQ, AllowDupTrunc, AllowSidCollision, AllowCleanupRace
VARIABLES probe, mode, api, retries, tclass, issued, late, nd, sent, rcv, due, stopc, stopr,
          srvU, usid, tsid, s2s   \* server of a query, session numbers per server, the shared session -> server map
vars == <<l, probe, mode, api, retries, tclass, issued, late, nd, sent, rcv, due, stopc, stopr, srvU, usid, tsid, s2s>>
Srvs == {0, 1}
QS == {1, 2}
Canon(m, a, r, t) == /\ probe' = (IF Log[l].e = "Begin" THEN Ev.probe ELSE 0) /\ mode' = m /\ api' = a /\ retries' = r /\ tclass' = t /\ issued' = {} /\ late' = {}
                     /\ nd' = [q \in QS |-> 0] /\ sent' = {} /\ rcv' = [q \in QS |-> [udp |-> 0, tcp |-> 0]]
                     /\ due' = {} /\ stopc' = FALSE /\ stopr' = FALSE
                     /\ srvU' = [q \in QS |-> 0] /\ usid' = [s \in Srvs |-> 0] /\ tsid' = [s \in Srvs |-> 0] /\ s2s' = [i \in 1..2 |-> 9]
Init == /\ l = 1 /\ probe = 0 /\ mode = "-" /\ api = "-" /\ retries = 0 /\ tclass = "-" /\ issued = {} /\ late = {} /\ nd = [q \in QS |-> 0]
        /\ sent = {} /\ rcv = [q \in QS |-> [udp |-> 0, tcp |-> 0]] /\ due = {} /\ stopc = FALSE /\ stopr = FALSE
        /\ srvU = [q \in QS |-> 0] /\ usid = [s \in Srvs |-> 0] /\ tsid = [s \in Srvs |-> 0] /\ s2s = [i \in 1..2 |-> 9]
sess == <<srvU, usid, tsid, s2s>>
Same == UNCHANGED <<probe, mode, api, retries, tclass, issued, late, nd, sent, rcv, due, stopc, stopr, sess>>

EvBegin == IsEv("Begin") /\ Canon(Ev.mode, Ev.api, Ev.retries, Ev.tmo)
EvReset == IsEv("Reset") /\ Canon("-", "-", 0, "-")
EvQuery == /\ IsEv("Query") /\ Ev.q \in QS /\ Ev.q \notin issued /\ issued' = issued \cup {Ev.q}
           /\ late' = IF stopr THEN late \cup {Ev.q} ELSE late
           /\ UNCHANGED <<probe, mode, api, retries, tclass, nd, sent, rcv, due, stopc, stopr, sess>>
EvQueryRet == IsEv("QueryRet") /\ Same
TruncSent(q) == \E s \in sent : s.q = q /\ s.kind = "trunc"
Within(q, nu, nt) == nu + nt <= 1 + retries + (IF mode = "B" /\ TruncSent(q) THEN 1 ELSE 0)                     \* P5
ProtoOk(q, p) == IF p = "tcp" THEN mode = "T" \/ (mode = "B" /\ TruncSent(q)) ELSE mode # "T"                   \* P4
NextSid(f) == Cardinality({s \in Srvs : f[s] > 0}) + 1
Open(f, s) == IF f[s] > 0 THEN f ELSE [f EXCEPT ![s] = NextSid(f)]
Map(f, s) == IF f[s] > 0 THEN s2s ELSE [s2s EXCEPT ![NextSid(f)] = s]
Misrouted(q, p) == LET s == srvU[q]
                       sid == IF p = "udp" THEN usid[s] ELSE tsid[s] IN sid > 0 /\ s2s[sid] # s
EvSrvRecv == /\ IsEv("SrvRecv") /\ Ev.ok = TRUE /\ Ev.q \in issued /\ ProtoOk(Ev.q, Ev.proto) /\ Ev.srv \in Srvs
             /\ rcv' = [rcv EXCEPT ![Ev.q][Ev.proto] = Ev.n]
             /\ Within(Ev.q, rcv'[Ev.q].udp, rcv'[Ev.q].tcp)
             /\ srvU' = [srvU EXCEPT ![Ev.q] = Ev.srv]
             /\ IF Ev.proto = "udp" THEN usid' = Open(usid, Ev.srv) /\ s2s' = Map(usid, Ev.srv) /\ UNCHANGED tsid
                                    ELSE tsid' = Open(tsid, Ev.srv) /\ s2s' = Map(tsid, Ev.srv) /\ UNCHANGED usid
             /\ UNCHANGED <<probe, mode, api, retries, tclass, issued, late, nd, sent, due, stopc, stopr>>
\* a transmission the script waited for did not arrive: accepted when the query had completed meanwhile (its timer fired
\* before the transport saw the truncated response) - and, a query still pending, only as the named deviation: the TCP
\* fallback after a truncated response on a misrouted session
EvSrvRecvMissing == /\ IsEv("SrvRecv") /\ Ev.ok = FALSE /\ Ev.q \in issued /\ Same
                    /\ \/ nd[Ev.q] = 1 /\ rcv[Ev.q].udp + rcv[Ev.q].tcp >= 1
                       \/ /\ AllowSidCollision /\ Ev.proto = "tcp" /\ mode = "B" /\ TruncSent(Ev.q) /\ Misrouted(Ev.q, "udp")
EvExtra == /\ IsEv("Extra") /\ Ev.q \in issued /\ ProtoOk(Ev.q, Ev.proto)
           /\ rcv' = [rcv EXCEPT ![Ev.q][Ev.proto] = Ev.n]
           /\ Within(Ev.q, rcv'[Ev.q].udp, rcv'[Ev.q].tcp)
           /\ UNCHANGED <<probe, mode, api, retries, tclass, issued, late, nd, sent, due, stopc, stopr, sess>>
Completing(k) == k \in {"ans", "nx", "malformed"} \/ (k = "trunc" /\ mode = "U")
EvSrvSend == /\ IsEv("SrvSend") /\ sent' = sent \cup {[q |-> Ev.q, kind |-> Ev.kind, tag |-> Ev.tag]}
             /\ due' = IF /\ Completing(Ev.kind) /\ Ev.q \in issued /\ nd[Ev.q] = 0 /\ ~stopc
                          /\ ~(AllowSidCollision /\ Misrouted(Ev.q, Ev.proto))
                       THEN due \cup {Ev.q} ELSE due
             /\ UNCHANGED <<probe, mode, api, retries, tclass, issued, late, nd, rcv, stopc, stopr, sess>>
Caused(q, tag, kinds) == \E s \in sent : s.q = q /\ s.tag = tag /\ s.kind \in kinds
Legit(q, k, tag, early) ==
  CASE k = "ans" -> Caused(q, tag, IF AllowWrongQ THEN {"ans", "wrongq"} ELSE {"ans"})                          \* P3
    [] k = "nx" -> Caused(q, tag, {"nx"})
    [] k = "trunc" -> /\ Caused(q, tag, {"trunc"})                                                              \* P4
                      /\ \/ mode = "U"
                         \/ mode = "B" /\ AllowDupTrunc /\ \E s \in sent : s.q = q /\ s.kind = "trunc" /\ s.tag < tag
    [] k = "parse" -> \E s \in sent : s.q = q /\ s.kind = "malformed"
    [] k = "timeout" -> early = 0 /\ q \notin late                                                              \* P6
    [] k = "stopped" -> stopc /\ (~stopr \/ api = "sync")
    [] k = "notrunning" -> q \in late
    [] OTHER -> FALSE
EvDone == /\ IsEv("Done") /\ Ev.q \in issued /\ nd[Ev.q] = 0                                                     \* P1
          /\ (stopr => (Ev.q \in late \/ api = "sync"))                                                          \* P2
          /\ Legit(Ev.q, Ev.kind, Ev.tag, Ev.early)
          /\ nd' = [nd EXCEPT ![Ev.q] = 1]
          /\ UNCHANGED <<probe, mode, api, retries, tclass, issued, late, sent, rcv, due, stopc, stopr, sess>>
\* lim = 15 (s): after a step that must complete the query, or for the timeout; lim = 2: after a response the as-is model
\* says is dropped (it does not wait for the timer)
\* X18-O5: phase 4 of the cleanup thread calls back a query that a response (or its timer) completed after phase 1
EvDoneAgain == /\ IsEv("Done") /\ AllowCleanupRace /\ probe = 1 /\ Ev.q \in issued /\ nd[Ev.q] = 1 /\ Ev.kind = "timeout"
               /\ Ev.early = 0 /\ ~stopr /\ nd' = [nd EXCEPT ![Ev.q] = 2]
               /\ UNCHANGED <<probe, mode, api, retries, tclass, issued, late, sent, rcv, due, stopc, stopr, sess>>
EvProbe == IsEv("Probe") /\ probe = 1 /\ Same
EvWait == IsEv("Wait") /\ (Ev.got = TRUE \/ (Ev.q \notin due /\ (tclass = "L" \/ Ev.lim < 15))) /\ Same               \* P1
EvFence == IsEv("Fence") /\ Same
EvStopCall == IsEv("StopCall") /\ stopc' = TRUE /\ UNCHANGED <<probe, mode, api, retries, tclass, issued, late, nd, sent, rcv, due, stopr, sess>>
EvStopRet == /\ IsEv("StopRet") /\ stopr' = TRUE /\ (api = "async" => \A q \in issued : nd[q] >= 1)               \* P2
             /\ UNCHANGED <<probe, mode, api, retries, tclass, issued, late, nd, sent, rcv, due, stopc, sess>>
EvEnd == IsEv("End") /\ (\A q \in issued : nd[q] >= 1) /\ Same                                                    \* P1
Next == EvBegin \/ EvReset \/ EvQuery \/ EvQueryRet \/ EvSrvRecv \/ EvSrvRecvMissing \/ EvExtra \/ EvSrvSend \/ EvDone \/ EvDoneAgain \/ EvProbe \/ EvWait \/ EvFence
        \/ EvStopCall \/ EvStopRet \/ EvEnd
Spec == Init /\ [][Next]_vars
======================================================================================
