------------------------------ MODULE ConnHealthTrace ------------------------------
(* Trace specification [X10] for HealthMonitor / ConnectionHealth driven sequentially (harness/drv_s_connhealth.cpp seq):  *)
(* the recorded operations drive the specification's own actions (ConnHealth.tla, ghost history on); after every           *)
(* operation everything the accessors of the real objects return - per id: presence, getState(), getStats() (state,        *)
(* consecutive failures, totals, milliseconds since the last activity, success rate), isHealthy(), needsHeartbeat(),       *)
(* isTimedOut(); of the monitor: getUnhealthyConnections(), getConnectionsNeedingHeartbeat(), getOverallStats() - must be  *)
(* exactly what the specification computes (Match), and every reference property listed in the cfg is evaluated on every   *)
(* recorded state (INVARIANT / PROPERTY lines of ConnHealthTrace.cfg).                                                     *)
(* Dev_StaleState selects the reading of updateConfig: TRUE = the state is not re-evaluated (what the code does),          *)
(* FALSE = strict reading; the check validates with TRUE and falls back to FALSE, anything else is a violation.            *)
EXTENDS TraceBase, ConnHealth
tvars == <<l, vars>>
TInit == l = 1 /\ Init
SeqSet(s) == {s[k] : k \in 1..Len(s)}
IsSetOf(s, S) == Len(s) = Cardinality(S) /\ SeqSet(s) = S
MatchConn(i) == LET o == Ev.v[i]  r == conn'[i] IN
    /\ o.p = r.p
    /\ r.p => /\ o.st = r.st /\ o.st2 = r.st /\ o.cf = r.cf /\ o.ok = r.ok /\ o.ko = r.ko
              /\ o.idle = 1000 * (now' - r.la)
              /\ o.h = IsHealthy(i)' /\ o.hb = NeedsHb(i)' /\ o.to = TimedOut(i)'
              /\ RateIs(o.rm, r.ok, r.ko)
MatchMonitor(e) ==
    /\ IsSetOf(e.un, UnhealthySet') /\ IsSetOf(e.hbl, HbSet')
    /\ e.ov = <<Cardinality(Present'), Count("Healthy")', Count("Warning")', Count("Degraded")', Count("Critical")', Count("Unhealthy")'>>
    /\ RateIs(e.orm, SumOf(Present, "ok")', SumOf(Present, "ko")')
Match == Len(Ev.v) = Cardinality(Ids) /\ (\A i \in Ids : MatchConn(i)) /\ MatchMonitor(Ev)
TAdd == IsEv("Add") /\ Ev.id \in Ids /\ Add(Ev.id) /\ Match
TRemove == IsEv("Remove") /\ Ev.id \in Ids /\ Remove(Ev.id) /\ Match
TActivity == IsEv("Activity") /\ Ev.id \in Ids /\ Activity(Ev.id) /\ Match
TFailure == IsEv("Failure") /\ Ev.id \in Ids /\ Failure(Ev.id) /\ Match
TSuccess == IsEv("Success") /\ Ev.id \in Ids /\ Success(Ev.id) /\ Match
TTick == IsEv("Tick") /\ Tick /\ Match
TUpdateConfig == IsEv("UpdateConfig") /\ Ev.c \in CfgIds /\ UpdateConfig(Ev.c) /\ Match
Canon == conn' = [i \in Ids |-> Absent] /\ mcfg' = 1 /\ now' = 0 /\ ops' = 0 /\ hist' = [i \in Ids |-> <<>>]
\* the driver must have run with the configurations and ids of this specification
TBegin == /\ IsEv("Begin") /\ Canon /\ Ev.n = Cardinality(Ids) /\ Ids = 1..Ev.n /\ Len(Ev.cfgs) = Len(Cfgs)
          /\ \A k \in CfgIds : Ev.cfgs[k] = <<Cfgs[k].hb, Cfgs[k].to, Cfgs[k].max, IF Cfgs[k].en THEN 1 ELSE 0>>
TReset == IsEv("Reset") /\ Canon
TNext == TAdd \/ TRemove \/ TActivity \/ TFailure \/ TSuccess \/ TTick \/ TUpdateConfig \/ TBegin \/ TReset
TSpec == TInit /\ [][TNext]_tvars
TRecovery == [][StepRecovery]_tvars
TIsolation == [][StepIsolation]_tvars
====================================================================================
