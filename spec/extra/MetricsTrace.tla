----------------------------- MODULE MetricsTrace -----------------------------
(* X23: Abs oracle for iora::core::MetricsRegistry / Counter / Gauge / Histogram as a trace specification (properties    *)
(* M1..M5 of Metrics.tla).  Every operation is recorded as Call ... Ret; a record is two instants between them: the        *)
(* get-or-create lookup (Look) and the atomic update of the series (Upd); a read (snapshotJson) is one instant (LinRd).    *)
(*   Begin{max}    Call{t, op, k, v}    Ret{t, op, r}    Series{t, k, ty, v, le, b, sum, n}   Ret{t, op:"rd", n}   End        *)
(*     op: c | cd (counter integer / fractional increment) | g (gauge set) | gi (gauge delta) | h (observe) | rd          *)
(*     r : "ok" | "conflict" (the series exists as another type: nothing changes) | "limit" (a new series would exceed     *)
(*         maxSeries: nothing changes)                                                                                     *)
(* One series per metric name (the driver always names the same label SET, in either order).  A read must show, for every  *)
(* series existing at its instant and for no other, exactly the state recorded so far: counter = sum of the increments,    *)
(* gauge = last set plus later deltas, histogram: boundaries sorted (1, 3, +Inf), bucket counts cumulative with v counted  *)
(* in the first bucket whose bound is >= v, sum, count.  The final read of every execution (main, after the recorders)      *)
(* therefore shows the totals of everything that returned "ok": conservation, no lost update.                              *)
EXTENDS TraceBase, FiniteSets, Integers
VARIABLES ser, max, pend
vars == <<l, ser, max, pend>>
K == 1..3
Bnd == <<1, 3>>
INF == 1000000
Thr == {Log[i].t : i \in {j \in 1..Len(Log) : "t" \in DOMAIN Log[j]}}
None == [ty |-> "-", v |-> 0, b |-> <<0, 0, 0>>, sum |-> 0, n |-> 0]
Ser0 == [k \in K |-> None]
Idle == [st |-> "idle", op |-> "-", k |-> 0, v |-> 0, res |-> "-", snap |-> Ser0, left |-> {}]
Fresh == [t \in Thr |-> Idle]
TypeOf(op) == CASE op \in {"c", "cd"} -> "counter" [] op \in {"g", "gi"} -> "gauge" [] OTHER -> "hist"
Live(s) == {k \in K : s[k].ty # "-"}
Bidx(v) == IF v <= Bnd[1] THEN 1 ELSE IF v <= Bnd[2] THEN 2 ELSE 3

Init == l = 1 /\ ser = Ser0 /\ max = 10000 /\ pend = Fresh
EvReset == IsEv("Reset") /\ ser' = Ser0 /\ max' = 10000 /\ pend' = Fresh
EvBegin == IsEv("Begin") /\ ser' = Ser0 /\ max' = Ev.max /\ pend' = Fresh
P(t, r) == pend' = [pend EXCEPT ![t] = r]

EvCall ==
    /\ IsEv("Call") /\ pend[Ev.t].st = "idle"
    /\ Ev.op \in {"c", "cd", "g", "gi", "h", "rd"}
    /\ (Ev.op # "rd") => Ev.k \in K
    /\ P(Ev.t, [Idle EXCEPT !.st = "called", !.op = Ev.op, !.k = Fld("k", 0), !.v = Fld("v", 0)])
    /\ UNCHANGED <<ser, max>>
\* get-or-create
Look(t) ==
    /\ pend[t].st = "called" /\ pend[t].op # "rd" /\ UNCHANGED <<l, max>>
    /\ LET p == pend[t]  s == ser[p.k] IN
       IF s.ty = "-"
       THEN IF Cardinality(Live(ser)) >= max
            THEN P(t, [p EXCEPT !.st = "lin", !.res = "limit"]) /\ UNCHANGED ser
            ELSE ser' = [ser EXCEPT ![p.k] = [None EXCEPT !.ty = TypeOf(p.op)]] /\ P(t, [p EXCEPT !.st = "got"])
       ELSE IF s.ty # TypeOf(p.op)
            THEN P(t, [p EXCEPT !.st = "lin", !.res = "conflict"]) /\ UNCHANGED ser
            ELSE P(t, [p EXCEPT !.st = "got"]) /\ UNCHANGED ser
\* the atomic update of the series
Upd(t) ==
    /\ pend[t].st = "got" /\ UNCHANGED <<l, max>>
    /\ LET p == pend[t] IN
       /\ ser' = [ser EXCEPT ![p.k] =
                    CASE p.op \in {"c", "cd", "gi"} -> [@ EXCEPT !.v = @ + p.v]
                      [] p.op = "g" -> [@ EXCEPT !.v = p.v]
                      [] OTHER -> [@ EXCEPT !.b[Bidx(p.v)] = @ + 1, !.sum = @ + p.v, !.n = @ + 1]]
       /\ P(t, [p EXCEPT !.st = "lin", !.res = "ok"])
LinRd(t) ==
    /\ pend[t].st = "called" /\ pend[t].op = "rd" /\ UNCHANGED <<l, ser, max>>
    /\ P(t, [pend[t] EXCEPT !.st = "rdlin", !.snap = ser, !.left = Live(ser)])
EvSeries ==
    /\ IsEv("Series") /\ pend[Ev.t].st = "rdlin" /\ Ev.k \in pend[Ev.t].left
    /\ LET s == pend[Ev.t].snap[Ev.k] IN
       /\ Ev.ty = s.ty
       /\ (s.ty # "hist") => Ev.v = s.v
       /\ (s.ty = "hist") => /\ Ev.le = <<Bnd[1], Bnd[2], INF>>
                             /\ Ev.b = <<s.b[1], s.b[1] + s.b[2], s.b[1] + s.b[2] + s.b[3]>>
                             /\ Ev.sum = s.sum /\ Ev.n = s.n
    /\ P(Ev.t, [pend[Ev.t] EXCEPT !.left = @ \ {Ev.k}])
    /\ UNCHANGED <<ser, max>>
EvRet ==
    /\ IsEv("Ret")
    /\ LET p == pend[Ev.t] IN
       /\ p.op = Ev.op
       /\ IF p.op = "rd" THEN p.st = "rdlin" /\ p.left = {} /\ Ev.n = Cardinality(Live(p.snap))
                         ELSE p.st = "lin" /\ Ev.r = p.res
    /\ P(Ev.t, Idle) /\ UNCHANGED <<ser, max>>
EvEnd == IsEv("End") /\ Ev.outcome = "done" /\ (\A t \in Thr : pend[t].st = "idle") /\ UNCHANGED <<ser, max, pend>>
Next == EvReset \/ EvBegin \/ EvCall \/ EvSeries \/ EvRet \/ EvEnd \/ \E t \in Thr : Look(t) \/ Upd(t) \/ LinRd(t)
Spec == Init /\ [][Next]_vars
=============================================================================
