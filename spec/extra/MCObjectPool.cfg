CONSTANTS Procs = {"a", "b"} Handles = {1, 2} Initial = 1 DefaultMax = 100 Maxes = {0, 1} MaxObjs = 3 MaxOps = 6 HasResetter = TRUE
  Dev_NoPop = FALSE Dev_CapOffByOne = FALSE Dev_NoTrim = FALSE Dev_ResetAfterPush = FALSE Dev_CreateWhenFree = FALSE Obs_ClearNotCounted = TRUE
SPECIFICATION Spec
INVARIANT AtMostOneHolder
INVARIANT NeverNull
INVARIANT OnlyWhenEmpty
INVARIANT Capacity
INVARIANT CleanOnAcquire
INVARIANT NoTouchAfterRelease
INVARIANT Conservation
INVARIANT StatsSane
CHECK_DEADLOCK FALSE
