SPECIFICATION Spec
CONSTANTS
  Values <- MCValues
  ValuesOther <- MCValuesOther
  InspValues <- MCInspValues
  Dev_NoTabIgnore = FALSE
  Dev_LeadSpaceOnly = FALSE
  Dev_SchemeCaseSensitive = FALSE
  Dev_SchemePrefixMatch = FALSE
  Dev_PushUrlNoScheme = FALSE
  Dev_RetargetNoCrlf = FALSE
  Dev_WriteBeforeCheck = FALSE
  Dev_IsHtmxAnyCase = FALSE
  Dev_EmptyIsAbsent = FALSE
INVARIANT Refines
INVARIANT NeverWritesCrLf
INVARIANT Progress
INVARIANT Emit
CHECK_DEADLOCK FALSE
