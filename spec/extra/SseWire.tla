------------------------------ MODULE SseWire ------------------------------
(* Extra X12: the REFERENCE side of the Server-Sent-Events wire format - what an EventSource client does with a byte       *)
(* stream (WHATWG HTML, "9.2.6 Interpreting an event stream"), written as pure operators over sequences of byte codes.      *)
(* Used as the Abs oracle for SseStream::formatEvent / formatComment / formatRetry (network/sse_stream.hpp):                *)
(*   lines end with CRLF, CR or LF; an empty line dispatches the pending event (if any data field was seen): data =         *)
(*   the data field values joined by LF, type = the last `event` value or "message"; a line starting with ':' is a          *)
(*   comment; `field: value` strips exactly ONE leading space of the value; unknown fields are ignored; an unfinished        *)
(*   last line / undispatched event at the end of the stream is discarded.                                                   *)
EXTENDS Naturals, Sequences
LF == 10
CR == 13
SP == 32
COLON == 58
FEvent == <<101, 118, 101, 110, 116>>   \* "event"
FData == <<100, 97, 116, 97>>           \* "data"
FId == <<105, 100>>                     \* "id"
FRetry == <<114, 101, 116, 114, 121>>   \* "retry"
Message == <<109, 101, 115, 115, 97, 103, 101>>  \* "message"

\* ---- line splitting: the complete lines of a stream (an unterminated tail is not a line)
RECURSIVE LinesFrom(_, _, _)
LinesFrom(s, i, cur) ==
    IF i > Len(s) THEN <<>>
    ELSE IF s[i] = LF THEN <<cur>> \o LinesFrom(s, i + 1, <<>>)
    ELSE IF s[i] = CR THEN <<cur>> \o LinesFrom(s, IF i + 1 <= Len(s) /\ s[i + 1] = LF THEN i + 2 ELSE i + 1, <<>>)
    ELSE LinesFrom(s, i + 1, Append(cur, s[i]))
Lines(s) == LinesFrom(s, 1, <<>>)

FirstColon(ln) == IF \E i \in 1..Len(ln) : ln[i] = COLON
                  THEN CHOOSE i \in 1..Len(ln) : ln[i] = COLON /\ \A j \in 1..(i - 1) : ln[j] # COLON
                  ELSE 0
FieldName(ln) == IF FirstColon(ln) = 0 THEN ln ELSE SubSeq(ln, 1, FirstColon(ln) - 1)
FieldValue(ln) == IF FirstColon(ln) = 0 THEN <<>>
                  ELSE LET v == SubSeq(ln, FirstColon(ln) + 1, Len(ln)) IN
                       IF v # <<>> /\ v[1] = SP THEN Tail(v) ELSE v
IsDigits(v) == v # <<>> /\ \A i \in 1..Len(v) : v[i] \in 48..57

\* ---- the client: st = [buf (data buffer, each value followed by LF), type, id, retry, events, other (ignored field lines)]
Start == [buf |-> <<>>, type |-> <<>>, id |-> <<>>, retry |-> <<>>, events |-> <<>>, other |-> 0]
Step(st, ln) ==
    IF ln = <<>> THEN
        IF st.buf = <<>> THEN [st EXCEPT !.type = <<>>]
        ELSE [st EXCEPT !.events = Append(@, [type |-> IF st.type = <<>> THEN Message ELSE st.type,
                                              data |-> SubSeq(st.buf, 1, Len(st.buf) - 1)]),
                        !.buf = <<>>, !.type = <<>>]
    ELSE IF ln[1] = COLON THEN st
    ELSE LET f == FieldName(ln)  v == FieldValue(ln) IN
         IF f = FEvent THEN [st EXCEPT !.type = v]
         ELSE IF f = FData THEN [st EXCEPT !.buf = @ \o v \o <<LF>>]
         ELSE IF f = FId THEN [st EXCEPT !.id = v]
         ELSE IF f = FRetry THEN (IF IsDigits(v) THEN [st EXCEPT !.retry = v] ELSE st)
         ELSE [st EXCEPT !.other = @ + 1]
RECURSIVE Run(_, _, _)
Run(st, ls, i) == IF i > Len(ls) THEN st ELSE Run(Step(st, ls[i]), ls, i + 1)
Parse(s) == Run(Start, Lines(s), 1)

\* ---- what the sender means
Strip(s) == SelectSeq(s, LAMBDA c : c # CR /\ c # LF)
RECURSIVE NormBreaks(_)
NormBreaks(s) == IF s = <<>> THEN <<>>
                 ELSE IF s[1] = CR /\ Len(s) >= 2 /\ s[2] = LF THEN <<LF>> \o NormBreaks(SubSeq(s, 3, Len(s)))
                 ELSE IF s[1] = CR THEN <<LF>> \o NormBreaks(Tail(s))
                 ELSE <<s[1]>> \o NormBreaks(Tail(s))
DropFinalBreak(s) == IF s # <<>> /\ s[Len(s)] = LF THEN SubSeq(s, 1, Len(s) - 1) ELSE s
\* the payload as the client must see it: every line break becomes LF, a final line break terminates the last line
Norm(data) == DropFinalBreak(NormBreaks(data))
EvType(name) == IF Strip(name) = <<>> THEN Message ELSE Strip(name)

ProbeBytes == <<100, 97, 116, 97, 58, 32, 122, 10, 10>>     \* "data: z\n\n" - the next event on the same stream
ProbeEvent == [type |-> Message, data |-> <<122>>]
Clean(st) == st.buf = <<>> /\ st.type = <<>> /\ st.id = <<>> /\ st.other = 0
\* formatEvent(name, data): the client dispatches exactly this one event, nothing else is set or injected, and the stream
\* is left at an event boundary (whatever follows is parsed on its own)
EventOk(name, data, out) ==
    LET p == Parse(out)  q == Parse(out \o ProbeBytes) IN
    /\ p.events = <<[type |-> EvType(name), data |-> Norm(data)]>>
    /\ Clean(p) /\ p.retry = <<>>
    /\ q.events = <<[type |-> EvType(name), data |-> Norm(data)]>> \o <<ProbeEvent>>
\* formatComment(text): nothing is dispatched, nothing is set, the stream is at an event boundary
CommentOk(out) ==
    LET p == Parse(out)  q == Parse(out \o ProbeBytes) IN
    /\ p.events = <<>> /\ Clean(p) /\ p.retry = <<>> /\ q.events = <<ProbeEvent>>
    /\ out # <<>> /\ out[Len(out)] = LF
\* formatRetry(ms): only the reconnection time is set
RetryOk(digits, out) ==
    LET p == Parse(out)  q == Parse(out \o ProbeBytes) IN
    /\ p.events = <<>> /\ Clean(p) /\ p.retry = digits /\ q.events = <<ProbeEvent>>
=============================================================================
