SPECIFICATION Spec
CONSTANTS
  EncInputs <- MCEncInputs
  DecInputs <- MCDecInputs
  Dev_NoLenCheck = FALSE
  Dev_NoPadBits = FALSE
  Dev_PadAnyQuantum = FALSE
  Dev_Pad2NoC3 = FALSE
  Dev_UrlAlphabet = FALSE
  Dev_EncNoPad = FALSE
  Dev_EncTail2Short = FALSE
INVARIANT Refines
INVARIANT RoundTrip
INVARIANT NoOob
INVARIANT Progress
INVARIANT Emit
CHECK_DEADLOCK FALSE
