------------------------------ MODULE HttpAuthOps ------------------------------
(* Pure operators shared by HttpAuth.tla (generator / Impl) and HttpAuthTrace.tla (Abs oracle) - X15.           *)
(*                                                                                                          *)
(* Abs reading of an Authorization header value h (octets) for iora::network::requireBasicAuth, i.e. RFC 7617  *)
(* + RFC 9110 11.4 as the header documents them:                                                             *)
(*   credentials = "Basic" 1*SP [ *(SP / HTAB) ] token68 [ *(SP / HTAB) ]       scheme compared case-insensitively *)
(*   token68     = the standard, padded, CANONICAL base64 text of  user-id ":" password  (Base64Ops!AbsDecode)   *)
(*   the user-id is everything before the FIRST ':' (it cannot contain one), the password everything after it    *)
(*   (it may contain ':' and may be empty; the user-id may be empty as well)                                      *)
(* Cred(h) = [wf, user, pass].  Everything that does not match (absent or empty header, another scheme, a scheme   *)
(* that merely starts with "basic", HTAB as the separator, an undecodable token, no ':') is NOT a credential:    *)
(* the request must be challenged (401) and neither verify nor the protected handler may run.                     *)
EXTENDS Base64Ops

SP == 32
HTAB == 9
Colon == 58
Lower(c) == IF c \in 65..90 THEN c + 32 ELSE c
BasicLc == <<98, 97, 115, 105, 99>>                   \* "basic"
IsWs(c) == c = SP \/ c = HTAB

SchemeOk(h) == Len(h) >= 6 /\ [k \in 1..5 |-> Lower(h[k])] = BasicLc /\ h[6] = SP
\* the token: h without the scheme and without the SP/HTAB runs around it (empty if nothing else is left)
Token(h) == LET idx == {k \in 6..Len(h) : ~IsWs(h[k])} IN
            IF idx = {} THEN <<>>
            ELSE LET a == CHOOSE k \in idx : \A j \in idx : k <= j
                     b == CHOOSE k \in idx : \A j \in idx : k >= j
                 IN SubSeq(h, a, b)
FirstColon(s) == LET idx == {k \in 1..Len(s) : s[k] = Colon} IN
                 IF idx = {} THEN 0 ELSE CHOOSE k \in idx : \A j \in idx : k <= j
NotCred == [wf |-> FALSE, user |-> <<>>, pass |-> <<>>]
Cred(present, h) ==
    IF ~present \/ ~SchemeOk(h) THEN NotCred
    ELSE LET d == AbsDecode(Token(h)) IN
         IF ~d.ok \/ FirstColon(d.out) = 0 THEN NotCred
         ELSE [wf |-> TRUE, user |-> SubSeq(d.out, 1, FirstColon(d.out) - 1),
               pass |-> SubSeq(d.out, FirstColon(d.out) + 1, Len(d.out))]

\* verify behaviours used by the driver: returns true / returns false / throws std::runtime_error / throws an int /
\* returns true and the protected handler then throws std::runtime_error
VerifyBehaviours == {"true", "false", "throw", "throw2", "true_ithrow"}

\* expected observable outcome: status, number of verify / inner calls, exception escaping the decorated handler
\* (status 299 is what the driver's protected handler sets; 0 = irrelevant because an exception escaped)
Outcome(c, vb) ==
    IF ~c.wf THEN [status |-> 401, vcalls |-> 0, icalls |-> 0, exc |-> "none"]
    ELSE CASE vb = "true"        -> [status |-> 299, vcalls |-> 1, icalls |-> 1, exc |-> "none"]
           [] vb = "true_ithrow" -> [status |-> 0,   vcalls |-> 1, icalls |-> 1, exc |-> "std"]
           [] vb = "false"       -> [status |-> 401, vcalls |-> 1, icalls |-> 0, exc |-> "none"]
           [] OTHER              -> [status |-> 500, vcalls |-> 1, icalls |-> 0, exc |-> "none"]

\* realm: accepted iff it is a clean quoted-string body: no control octet (< 0x20), no DEL, no '"', no '\'
RealmOk(r) == \A k \in 1..Len(r) : r[k] >= 32 /\ r[k] # 127 /\ r[k] # 34 /\ r[k] # 92
\* 'Basic realm="' realm '"'
Challenge(r) == <<66, 97, 115, 105, 99, 32, 114, 101, 97, 108, 109, 61, 34>> \o r \o <<34>>
Unauthorized == <<85, 110, 97, 117, 116, 104, 111, 114, 105, 122, 101, 100>>
=================================================================================
