---- MODULE DnsTransport_TTrace_1790401577 ----
EXTENDS Sequences, TLCExt, Toolbox, DnsTransport, Naturals, TLC

_expression ==
    LET DnsTransport_TEExpression == INSTANCE DnsTransport_TEExpression
    IN DnsTransport_TEExpression!expression
----

_trace ==
    LET DnsTransport_TETrace == INSTANCE DnsTransport_TETrace
    IN DnsTransport_TETrace!trace
----

_inv ==
    ~(
        TLCGet("level") = Len(_TETrace)
        /\
        st = (<<"idle", "done">>)
        /\
        retr = (<<0, 0>>)
        /\
        cl = ({})
        /\
        rtm = (<<FALSE, FALSE>>)
        /\
        done = (<<<<>>, <<[rq |-> 2, rk |-> "wrongq", kind |-> "ans"]>>>>)
        /\
        running = (TRUE)
        /\
        mode = ("U")
        /\
        wire = (<<[udp |-> 0, tcp |-> 0], [udp |-> 1, tcp |-> 0]>>)
        /\
        clpc = ("idle")
        /\
        tmo = (<<FALSE, FALSE>>)
        /\
        clc = ({})
        /\
        fb = (<<FALSE, FALSE>>)
        /\
        nresp = (1)
    )
----

_init ==
    /\ done = _TETrace[1].done
    /\ wire = _TETrace[1].wire
    /\ tmo = _TETrace[1].tmo
    /\ running = _TETrace[1].running
    /\ mode = _TETrace[1].mode
    /\ cl = _TETrace[1].cl
    /\ nresp = _TETrace[1].nresp
    /\ retr = _TETrace[1].retr
    /\ clc = _TETrace[1].clc
    /\ fb = _TETrace[1].fb
    /\ st = _TETrace[1].st
    /\ rtm = _TETrace[1].rtm
    /\ clpc = _TETrace[1].clpc
----

_next ==
    /\ \E i,j \in DOMAIN _TETrace:
        /\ \/ /\ j = i + 1
              /\ i = TLCGet("level")
        /\ done  = _TETrace[i].done
        /\ done' = _TETrace[j].done
        /\ wire  = _TETrace[i].wire
        /\ wire' = _TETrace[j].wire
        /\ tmo  = _TETrace[i].tmo
        /\ tmo' = _TETrace[j].tmo
        /\ running  = _TETrace[i].running
        /\ running' = _TETrace[j].running
        /\ mode  = _TETrace[i].mode
        /\ mode' = _TETrace[j].mode
        /\ cl  = _TETrace[i].cl
        /\ cl' = _TETrace[j].cl
        /\ nresp  = _TETrace[i].nresp
        /\ nresp' = _TETrace[j].nresp
        /\ retr  = _TETrace[i].retr
        /\ retr' = _TETrace[j].retr
        /\ clc  = _TETrace[i].clc
        /\ clc' = _TETrace[j].clc
        /\ fb  = _TETrace[i].fb
        /\ fb' = _TETrace[j].fb
        /\ st  = _TETrace[i].st
        /\ st' = _TETrace[j].st
        /\ rtm  = _TETrace[i].rtm
        /\ rtm' = _TETrace[j].rtm
        /\ clpc  = _TETrace[i].clpc
        /\ clpc' = _TETrace[j].clpc

\* Uncomment the ASSUME below to write the states of the error trace
\* to the given file in Json format. Note that you can pass any tuple
\* to `JsonSerialize`. For example, a sub-sequence of _TETrace.
    \* ASSUME
    \*     LET J == INSTANCE Json
    \*         IN J!JsonSerialize("DnsTransport_TTrace_1790401577.json", _TETrace)

=============================================================================

 Note that you can extract this module `DnsTransport_TEExpression`
  to a dedicated file to reuse `expression` (the module in the 
  dedicated `DnsTransport_TEExpression.tla` file takes precedence 
  over the module `DnsTransport_TEExpression` below).

---- MODULE DnsTransport_TEExpression ----
EXTENDS Sequences, TLCExt, Toolbox, DnsTransport, Naturals, TLC

expression == 
    [
        \* To hide variables of the `DnsTransport` spec from the error trace,
        \* remove the variables below.  The trace will be written in the order
        \* of the fields of this record.
        done |-> done
        ,wire |-> wire
        ,tmo |-> tmo
        ,running |-> running
        ,mode |-> mode
        ,cl |-> cl
        ,nresp |-> nresp
        ,retr |-> retr
        ,clc |-> clc
        ,fb |-> fb
        ,st |-> st
        ,rtm |-> rtm
        ,clpc |-> clpc
        
        \* Put additional constant-, state-, and action-level expressions here:
        \* ,_stateNumber |-> _TEPosition
        \* ,_doneUnchanged |-> done = done'
        
        \* Format the `done` variable as Json value.
        \* ,_doneJson |->
        \*     LET J == INSTANCE Json
        \*     IN J!ToJson(done)
        
        \* Lastly, you may build expressions over arbitrary sets of states by
        \* leveraging the _TETrace operator.  For example, this is how to
        \* count the number of times a spec variable changed up to the current
        \* state in the trace.
        \* ,_doneModCount |->
        \*     LET F[s \in DOMAIN _TETrace] ==
        \*         IF s = 1 THEN 0
        \*         ELSE IF _TETrace[s].done # _TETrace[s-1].done
        \*             THEN 1 + F[s-1] ELSE F[s-1]
        \*     IN F[_TEPosition - 1]
    ]

=============================================================================



Parsing and semantic processing can take forever if the trace below is long.
 In this case, it is advised to uncomment the module below to deserialize the
 trace from a generated binary file.

\*
\*---- MODULE DnsTransport_TETrace ----
\*EXTENDS IOUtils, DnsTransport, TLC
\*
\*trace == IODeserialize("DnsTransport_TTrace_1790401577.bin", TRUE)
\*
\*=============================================================================
\*

---- MODULE DnsTransport_TETrace ----
EXTENDS DnsTransport, TLC

trace == 
    <<
    ([st |-> <<"idle", "idle">>,retr |-> <<0, 0>>,cl |-> {},rtm |-> <<FALSE, FALSE>>,done |-> <<<<>>, <<>>>>,running |-> TRUE,mode |-> "U",wire |-> <<[udp |-> 0, tcp |-> 0], [udp |-> 0, tcp |-> 0]>>,clpc |-> "idle",tmo |-> <<FALSE, FALSE>>,clc |-> {},fb |-> <<FALSE, FALSE>>,nresp |-> 0]),
    ([st |-> <<"idle", "udp">>,retr |-> <<0, 0>>,cl |-> {},rtm |-> <<FALSE, FALSE>>,done |-> <<<<>>, <<>>>>,running |-> TRUE,mode |-> "U",wire |-> <<[udp |-> 0, tcp |-> 0], [udp |-> 1, tcp |-> 0]>>,clpc |-> "idle",tmo |-> <<FALSE, TRUE>>,clc |-> {},fb |-> <<FALSE, FALSE>>,nresp |-> 0]),
    ([st |-> <<"idle", "done">>,retr |-> <<0, 0>>,cl |-> {},rtm |-> <<FALSE, FALSE>>,done |-> <<<<>>, <<[rq |-> 2, rk |-> "wrongq", kind |-> "ans"]>>>>,running |-> TRUE,mode |-> "U",wire |-> <<[udp |-> 0, tcp |-> 0], [udp |-> 1, tcp |-> 0]>>,clpc |-> "idle",tmo |-> <<FALSE, FALSE>>,clc |-> {},fb |-> <<FALSE, FALSE>>,nresp |-> 1])
    >>
----


=============================================================================

---- CONFIG DnsTransport_TTrace_1790401577 ----
CONSTANTS
    Queries = { 1 , 2 }
    Modes = { "U" , "B" , "T" }
    MaxResp = 3
    Retries = 1
    WithCleanup = TRUE
    WithStop = TRUE
    Dev_NoErase = FALSE
    Dev_AcceptAnyId = FALSE
    Dev_NoQuestionCheck = TRUE
    Dev_TimeoutNoPendingCheck = FALSE
    Dev_TruncCompletes = FALSE
    Dev_DupTruncCompletes = FALSE
    Dev_StopSkipsPending = FALSE
    Dev_FallbackTwice = FALSE
    Dev_CleanupRace = FALSE
    Dev_RetryOffByOne = FALSE
    Dev_FallbackDisarms = FALSE

INVARIANT
    _inv

CHECK_DEADLOCK
    \* CHECK_DEADLOCK off because of PROPERTY or INVARIANT above.
    FALSE

INIT
    _init

NEXT
    _next

CONSTANT
    _TETrace <- _trace

ALIAS
    _expression
=============================================================================
\* Generated on Sat Sep 26 05:46:19 UTC 2026