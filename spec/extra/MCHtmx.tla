------------------------------ MODULE MCHtmx ------------------------------
(* Exhaustive configuration of Htmx.tla for the quick tier of X14: every value made of 0..3 pieces (thorough: 4) from      *)
(*   javascript JaVaScRiPt java script data vbscript http : TAB SP NUL CR LF x / -foo 1                                   *)
(* for setRedirect / setPushUrl (0..2 pieces for the other three); inspectors over  true TRUE True "true " false "" 1  x present/absent.        *)
EXTENDS Htmx
MCPieces == {<<106, 97, 118, 97, 115, 99, 114, 105, 112, 116>>, <<74, 97, 86, 97, 83, 99, 82, 105, 80, 116>>, <<106, 97, 118, 97>>, <<115, 99, 114, 105, 112, 116>>, <<100, 97, 116, 97>>, <<118, 98, 115, 99, 114, 105, 112, 116>>, <<104, 116, 116, 112>>, <<58>>, <<9>>, <<32>>, <<0>>, <<13>>, <<10>>, <<120>>, <<47>>, <<45, 102, 111, 111>>, <<49>>}
MCValues == {Flat(ps) : ps \in SeqsUpTo(MCPieces, 3)}
MCValuesOther == {Flat(ps) : ps \in SeqsUpTo(MCPieces, 2)}
MCInspValues == {<<116, 114, 117, 101>>, <<84, 82, 85, 69>>, <<84, 114, 117, 101>>, <<116, 114, 117, 101, 32>>, <<102, 97, 108, 115, 101>>, <<>>, <<49>>}
=============================================================================
