CONSTANTS Queries = {1, 2} Modes = {"U", "B", "T"} NSrvs = {1, 2} MaxResp = 3 Retries = 1 WithCleanup = TRUE WithStop = TRUE FifoTimers = FALSE
  Dev_NoErase = FALSE Dev_AcceptAnyId = FALSE Dev_NoQuestionCheck = FALSE Dev_TimeoutNoPendingCheck = FALSE
  Dev_TruncCompletes = FALSE Dev_DupTruncCompletes = FALSE Dev_StopSkipsPending = FALSE Dev_FallbackTwice = FALSE
  Dev_CleanupRace = FALSE Dev_RetryOffByOne = FALSE Dev_FallbackDisarms = FALSE Dev_SharedSessionIds = FALSE
SPECIFICATION Spec
INVARIANT TypeOK
INVARIANT AtMostOnce
INVARIANT PendingHasTimer
INVARIANT NoLostResponse
INVARIANT StopCompletes
INVARIANT DoneHasCompletion
INVARIANT Matching
INVARIANT TruncNotFinal
INVARIANT TcpOnlyAfterTrunc
INVARIANT Budget
CHECK_DEADLOCK FALSE
