\* test plan 2: plain state graph, two ids, two configurations
CONSTANTS Ids = {1, 2} Cfgs <- MCCfgs2 MaxOps = 5 MaxTime = 3 KeepHist = FALSE Dev_StaleState = TRUE
  Dev_SuccessResets = FALSE Dev_ThresholdStrict = FALSE Dev_FailureTouchesActivity = FALSE Dev_CriticalGe = FALSE Dev_AddKeepsOld = FALSE Dev_UnknownCreates = FALSE Dev_ActivityKeepsFailures = FALSE
SPECIFICATION Spec
INVARIANT TypeOK
INVARIANT HealthyIffCount
INVARIANT CountZeroIsHealthy
INVARIANT ConfigUniform
INVARIANT CountsAddUp
CHECK_DEADLOCK FALSE
