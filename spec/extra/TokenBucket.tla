------------------------------ MODULE TokenBucket ------------------------------
(* Beyond the listed properties: iora::core::TokenBucket as used through RateLimiterMap (core/rate_limiter.hpp).          *)
(* Impl: the code's LAZY bucket - `tokens` and `lastRefill` change only inside tryConsume (replenish, then test, then     *)
(* subtract).  Abs: an EAGER bucket `abs` that gains Rate tokens at every tick, capped at Burst.  Whole seconds, whole    *)
(* tokens (the driver uses the same grid, on which the code's double arithmetic is exact).                                *)
(*   Refines           the lazy bucket, replenished to `now`, always equals the eager one                                  *)
(*   Bound             in every interval [s, t] the tokens handed out are at most Burst + Rate * (t - s)                   *)
(*   RefusedOnlyShort  a refusal of n happens only when the eager bucket holds fewer than n                                *)
(* Dev_NoCap (self-test): replenish without the min(.., Burst) - Bound and Refines must fail.                             *)
EXTENDS Naturals, Sequences, FiniteSets, TLC
CONSTANTS Rate, Burst, MaxTime, MaxOps, MaxAsk, Dev_NoCap
VARIABLES tokens, lastRefill, now, abs, grants, ops, lastRet
vars == <<tokens, lastRefill, now, abs, grants, ops, lastRet>>
Min(a, b) == IF a < b THEN a ELSE b
Init == tokens = Burst /\ lastRefill = 0 /\ now = 0 /\ abs = Burst /\ grants = <<>> /\ ops = 0 /\ lastRet = <<"-", 0>>
Replenished == IF Dev_NoCap THEN tokens + Rate * (now - lastRefill) ELSE Min(tokens + Rate * (now - lastRefill), Burst)
Consume(n) == /\ ops < MaxOps /\ ops' = ops + 1
              /\ lastRefill' = now
              /\ IF Replenished >= n
                 THEN tokens' = Replenished - n /\ abs' = abs - Min(n, abs) /\ grants' = Append(grants, <<now, n>>) /\ lastRet' = <<"true", n>>
                 ELSE tokens' = Replenished /\ UNCHANGED <<abs, grants>> /\ lastRet' = <<"false", n>>
              /\ UNCHANGED now
Tick == now < MaxTime /\ now' = now + 1 /\ abs' = Min(abs + Rate, Burst) /\ lastRet' = <<"-", 0>> /\ UNCHANGED <<tokens, lastRefill, grants, ops>>
Next == (\E n \in 1..MaxAsk : Consume(n)) \/ Tick
Spec == Init /\ [][Next]_vars
RECURSIVE SumFrom(_, _)
SumFrom(s, i) == IF i > Len(s) THEN 0 ELSE s[i][2] + SumFrom(s, i + 1)
Granted(s, t) == LET sel == SelectSeq(grants, LAMBDA g : g[1] >= s /\ g[1] <= t) IN SumFrom(sel, 1)
Refines == Min(tokens + Rate * (now - lastRefill), Burst) = abs
Bound == \A s \in 0..now : \A t \in s..now : Granted(s, t) <= Burst + Rate * (t - s)
RefusedOnlyShort == lastRet[1] = "false" => abs < lastRet[2]
GrantedOnlyHeld == lastRet[1] = "true" => TRUE
================================================================================
