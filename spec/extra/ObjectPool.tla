------------------------------ MODULE ObjectPool ------------------------------
(* X08 (extra, beyond the listed properties): Impl specification of iora::network::ObjectPool<T> and its RAII wrapper *)
(* PooledObject<T> (include/iora/network/object_pool.hpp), one action per critical section of the code.               *)
(*                                                                                                                    *)
(* What a user of the pool relies on (header + tests/network/iora_test_transport_improvements.cpp):                   *)
(*   P1 AtMostOneHolder   an object handed out by acquire() is held by nobody else and is not in the free list until  *)
(*                        its holder releases it; the free list never holds an object twice, never a destroyed one.   *)
(*   P2 NeverNull         acquire() always returns an object: one from the free list, or - ONLY when the free list is *)
(*                        empty - a new one from the factory ("Pool creates new objects when empty").                 *)
(*   P3 Capacity          the free list never holds more than maxPoolSize objects: release() into a full list         *)
(*                        destroys the object, setMaxPoolSize(n) trims the list to n at once.                         *)
(*   P4 CleanOnAcquire    with a resetter, an object taken from the free list has been reset exactly once since its   *)
(*                        last holder released it, and the reset ran BEFORE the object became available to others.    *)
(*   P5 Conservation      every object the factory made is, at every instant, exactly one of: held, free, destroyed;  *)
(*                        nothing is destroyed twice, nothing leaks when the pool and the holders are gone.           *)
(*   P6 Stats             getStats(): available = length of the free list, totalCreated = factory calls,              *)
(*                        totalAcquired = acquisitions served from the free list, totalReleased = objects put back,   *)
(*                        totalDestroyed = objects the pool destroyed.  StatsIdentity (created - destroyed =          *)
(*                        available + outstanding) is what a leak monitor would compute from them.                    *)
(*   OBSERVATION Obs_ClearNotCounted: clear() destroys the free objects without counting them in totalDestroyed, so   *)
(*                        StatsIdentity fails after clear().  TRUE = as the code is.                                  *)
(*                                                                                                                    *)
(* Code shape: acquire = one critical section (factory called under the mutex); release = resetter OUTSIDE the mutex  *)
(* (ReleaseReset), then one critical section (ReleaseCS); setMaxPoolSize, clear, getStats = one critical section each.*)
(* PooledObject is a holder whose destructor / move-assignment calls release(); it adds no pool state.                *)
(* Realistic slips (must each make TLC report a violation):                                                           *)
(*   Dev_NoPop           acquire returns back() without pop_back           -> AtMostOneHolder                         *)
(*   Dev_CapOffByOne     release keeps the object when size <= max         -> Capacity                                *)
(*   Dev_NoTrim          setMaxPoolSize does not trim                      -> Capacity                                *)
(*   Dev_ResetAfterPush  the resetter runs after the object was put back   -> CleanOnAcquire (needs two threads)      *)
(*   Dev_CreateWhenFree  acquire calls the factory although the list is non-empty -> OnlyWhenEmpty                    *)
EXTENDS Naturals, Sequences, FiniteSets, TLC
CONSTANTS Procs, Handles, Initial, DefaultMax, Maxes, MaxObjs, MaxOps, HasResetter,
          Dev_NoPop, Dev_CapOffByOne, Dev_NoTrim, Dev_ResetAfterPush, Dev_CreateWhenFree, Obs_ClearNotCounted
VARIABLES avail,   \* the free list (sequence of object ids; back = last)
          slot,    \* slot[t][h] = object held by thread t in its handle h, 0 = empty
          pc,      \* pc[t] = <<"idle">> | <<"push", h>> (resetter done, critical section of release pending) | <<"reset", h, o>> (Dev_ResetAfterPush)
          dirty,   \* objects carrying a holder's state
          dead,    \* destroyed objects
          max, nobj, nops, st, last
vars == <<avail, slot, pc, dirty, dead, max, nobj, nops, st, last>>

Range(s) == {s[i] : i \in 1..Len(s)}
Held == {slot[t][h] : t \in Procs, h \in Handles} \ {0}
Min(a, b) == IF a < b THEN a ELSE b

Init == /\ avail = [i \in 1..Initial |-> i] /\ nobj = Initial
        /\ slot = [t \in Procs |-> [h \in Handles |-> 0]] /\ pc = [t \in Procs |-> <<"idle">>]
        /\ dirty = {} /\ dead = {} /\ max = DefaultMax /\ nops = 0
        /\ st = [created |-> Initial, acquired |-> 0, released |-> 0, destroyed |-> 0]
        /\ last = [act |-> "Init", t |-> "-", h |-> 0, o |-> 0, fresh |-> FALSE, wasDirty |-> FALSE, wasFree |-> 0]

Go(t) == pc[t] = <<"idle">> /\ nops < MaxOps
Set(t, h, o) == slot' = [slot EXCEPT ![t][h] = o]
L(a, t, h, o, f, d, w) == last' = [act |-> a, t |-> t, h |-> h, o |-> o, fresh |-> f, wasDirty |-> d, wasFree |-> w]

\* acquire(): lock; free list non-empty ? pop back : factory(); unlock
AcquireCS(t, h) ==
    /\ Go(t) /\ slot[t][h] = 0 /\ nops' = nops + 1
    /\ IF avail # <<>> /\ ~Dev_CreateWhenFree
       THEN LET o == avail[Len(avail)] IN
            /\ avail' = IF Dev_NoPop THEN avail ELSE SubSeq(avail, 1, Len(avail) - 1)
            /\ Set(t, h, o) /\ dirty' = dirty \cup {o}
            /\ st' = [st EXCEPT !.acquired = @ + 1] /\ L("AcquireCS", t, h, o, FALSE, o \in dirty, Len(avail))
            /\ UNCHANGED nobj
       ELSE /\ nobj < MaxObjs /\ nobj' = nobj + 1
            /\ Set(t, h, nobj + 1) /\ dirty' = dirty \cup {nobj + 1}
            /\ st' = [st EXCEPT !.created = @ + 1] /\ L("AcquireCS", t, h, nobj + 1, TRUE, FALSE, Len(avail))
            /\ UNCHANGED avail
    /\ UNCHANGED <<pc, dead, max>>

\* release(obj): resetter(obj) outside the mutex ...
ReleaseReset(t, h) ==
    /\ HasResetter /\ ~Dev_ResetAfterPush /\ Go(t) /\ slot[t][h] # 0
    /\ dirty' = dirty \ {slot[t][h]} /\ pc' = [pc EXCEPT ![t] = <<"push", h>>]
    /\ L("ReleaseReset", t, h, slot[t][h], FALSE, FALSE, 0)
    /\ UNCHANGED <<avail, slot, dead, max, nobj, nops, st>>
\* ... then lock; size < max ? push_back : destroy; unlock
ReleaseCS(t, h) ==
    /\ slot[t][h] # 0 /\ nops < MaxOps
    /\ IF HasResetter /\ ~Dev_ResetAfterPush THEN pc[t] = <<"push", h>> ELSE pc[t] = <<"idle">>
    /\ nops' = nops + 1
    /\ LET o == slot[t][h]
           keep == IF Dev_CapOffByOne THEN Len(avail) <= max ELSE Len(avail) < max IN
       /\ IF keep THEN avail' = Append(avail, o) /\ st' = [st EXCEPT !.released = @ + 1] /\ UNCHANGED dead
                  ELSE dead' = dead \cup {o} /\ st' = [st EXCEPT !.destroyed = @ + 1] /\ UNCHANGED avail
       /\ pc' = [pc EXCEPT ![t] = IF HasResetter /\ Dev_ResetAfterPush /\ keep THEN <<"reset", h, o>> ELSE <<"idle">>]
       /\ L("ReleaseCS", t, h, o, FALSE, FALSE, 0)
    /\ Set(t, h, 0) /\ UNCHANGED <<dirty, max, nobj>>
\* only with Dev_ResetAfterPush: the resetter touches an object that is already back in the free list (or handed out again)
LateReset(t) ==
    /\ pc[t][1] = "reset" /\ dirty' = dirty \ {pc[t][3]} /\ pc' = [pc EXCEPT ![t] = <<"idle">>]
    /\ L("LateReset", t, pc[t][2], pc[t][3], FALSE, FALSE, 0)
    /\ UNCHANGED <<avail, slot, dead, max, nobj, nops, st>>
\* release(nullptr) is a no-op
ReleaseNull(t) ==
    /\ Go(t) /\ nops' = nops + 1 /\ L("ReleaseNull", t, 0, 0, FALSE, FALSE, 0)
    /\ UNCHANGED <<avail, slot, pc, dirty, dead, max, nobj, st>>
\* setMaxPoolSize(n): lock; max = n; trim the back of the free list; unlock
SetMaxCS(t, n) ==
    /\ Go(t) /\ nops' = nops + 1 /\ max' = n
    /\ LET k == IF Dev_NoTrim THEN Len(avail) ELSE Min(n, Len(avail)) IN
       /\ avail' = SubSeq(avail, 1, k)
       /\ dead' = dead \cup {avail[i] : i \in (k + 1)..Len(avail)}
       /\ st' = [st EXCEPT !.destroyed = @ + (Len(avail) - k)]
    /\ L("SetMaxCS", t, n, 0, FALSE, FALSE, 0)
    /\ UNCHANGED <<slot, pc, dirty, nobj>>
ClearCS(t) ==
    /\ Go(t) /\ nops' = nops + 1 /\ avail' = <<>> /\ dead' = dead \cup Range(avail)
    /\ st' = IF Obs_ClearNotCounted THEN st ELSE [st EXCEPT !.destroyed = @ + Len(avail)]
    /\ L("ClearCS", t, 0, 0, FALSE, FALSE, 0)
    /\ UNCHANGED <<slot, pc, dirty, max, nobj>>
StatsCS(t) ==
    /\ Go(t) /\ nops' = nops + 1 /\ L("StatsCS", t, 0, 0, FALSE, FALSE, Len(avail))
    /\ UNCHANGED <<avail, slot, pc, dirty, dead, max, nobj, st>>

Next == \E t \in Procs :
          \/ \E h \in Handles : AcquireCS(t, h) \/ ReleaseReset(t, h) \/ ReleaseCS(t, h)
          \/ LateReset(t) \/ ReleaseNull(t) \/ ClearCS(t) \/ StatsCS(t)
          \/ \E n \in Maxes : SetMaxCS(t, n)
Spec == Init /\ [][Next]_vars

\* ---- properties
Slots == {<<t, h>> : t \in Procs, h \in Handles}
AtMostOneHolder ==
    /\ \A a, b \in Slots : (a # b /\ slot[a[1]][a[2]] # 0) => slot[a[1]][a[2]] # slot[b[1]][b[2]]
    /\ \A i, j \in 1..Len(avail) : i # j => avail[i] # avail[j]
    /\ Held \cap Range(avail) = {}
    /\ dead \cap (Held \cup Range(avail)) = {}
NeverNull == last.act = "AcquireCS" => last.o # 0
OnlyWhenEmpty == (last.act = "AcquireCS" /\ last.fresh) => last.wasFree = 0
Capacity == Len(avail) <= max
CleanOnAcquire == (HasResetter /\ last.act = "AcquireCS" /\ ~last.fresh) => ~last.wasDirty
NoTouchAfterRelease == last.act = "LateReset" => last.o \notin Held    \* a released object belongs to its next holder
Conservation == nobj = Cardinality(Held) + Len(avail) + Cardinality(dead)
StatsSane == st.created = nobj /\ st.destroyed <= Cardinality(dead)
\* not an invariant of the code as it is (Obs_ClearNotCounted): checked separately, must be violated
StatsIdentity == st.created - st.destroyed = Len(avail) + Cardinality(Held)
===============================================================================
