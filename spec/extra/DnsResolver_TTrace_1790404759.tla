---- MODULE DnsResolver_TTrace_1790404759 ----
EXTENDS DnsResolver, Sequences, TLCExt, Toolbox, Naturals, TLC

_expression ==
    LET DnsResolver_TEExpression == INSTANCE DnsResolver_TEExpression
    IN DnsResolver_TEExpression!expression
----

_trace ==
    LET DnsResolver_TETrace == INSTANCE DnsResolver_TETrace
    IN DnsResolver_TETrace!trace
----

_inv ==
    ~(
        TLCGet("level") = Len(_TETrace)
        /\
        ops = (<<>>)
        /\
        stage = ("done")
        /\
        zone = (<<>>)
        /\
        kind = ("S")
        /\
        zone2 = (<<>>)
        /\
        policy = ("IPv4First")
        /\
        prefs = (<<>>)
    )
----

_init ==
    /\ zone = _TETrace[1].zone
    /\ stage = _TETrace[1].stage
    /\ kind = _TETrace[1].kind
    /\ zone2 = _TETrace[1].zone2
    /\ policy = _TETrace[1].policy
    /\ prefs = _TETrace[1].prefs
    /\ ops = _TETrace[1].ops
----

_next ==
    /\ \E i,j \in DOMAIN _TETrace:
        /\ \/ /\ j = i + 1
              /\ i = TLCGet("level")
        /\ zone  = _TETrace[i].zone
        /\ zone' = _TETrace[j].zone
        /\ stage  = _TETrace[i].stage
        /\ stage' = _TETrace[j].stage
        /\ kind  = _TETrace[i].kind
        /\ kind' = _TETrace[j].kind
        /\ zone2  = _TETrace[i].zone2
        /\ zone2' = _TETrace[j].zone2
        /\ policy  = _TETrace[i].policy
        /\ policy' = _TETrace[j].policy
        /\ prefs  = _TETrace[i].prefs
        /\ prefs' = _TETrace[j].prefs
        /\ ops  = _TETrace[i].ops
        /\ ops' = _TETrace[j].ops

\* Uncomment the ASSUME below to write the states of the error trace
\* to the given file in Json format. Note that you can pass any tuple
\* to `JsonSerialize`. For example, a sub-sequence of _TETrace.
    \* ASSUME
    \*     LET J == INSTANCE Json
    \*         IN J!JsonSerialize("DnsResolver_TTrace_1790404759.json", _TETrace)

=============================================================================

 Note that you can extract this module `DnsResolver_TEExpression`
  to a dedicated file to reuse `expression` (the module in the 
  dedicated `DnsResolver_TEExpression.tla` file takes precedence 
  over the module `DnsResolver_TEExpression` below).

---- MODULE DnsResolver_TEExpression ----
EXTENDS DnsResolver, Sequences, TLCExt, Toolbox, Naturals, TLC

expression == 
    [
        \* To hide variables of the `DnsResolver` spec from the error trace,
        \* remove the variables below.  The trace will be written in the order
        \* of the fields of this record.
        zone |-> zone
        ,stage |-> stage
        ,kind |-> kind
        ,zone2 |-> zone2
        ,policy |-> policy
        ,prefs |-> prefs
        ,ops |-> ops
        
        \* Put additional constant-, state-, and action-level expressions here:
        \* ,_stateNumber |-> _TEPosition
        \* ,_zoneUnchanged |-> zone = zone'
        
        \* Format the `zone` variable as Json value.
        \* ,_zoneJson |->
        \*     LET J == INSTANCE Json
        \*     IN J!ToJson(zone)
        
        \* Lastly, you may build expressions over arbitrary sets of states by
        \* leveraging the _TETrace operator.  For example, this is how to
        \* count the number of times a spec variable changed up to the current
        \* state in the trace.
        \* ,_zoneModCount |->
        \*     LET F[s \in DOMAIN _TETrace] ==
        \*         IF s = 1 THEN 0
        \*         ELSE IF _TETrace[s].zone # _TETrace[s-1].zone
        \*             THEN 1 + F[s-1] ELSE F[s-1]
        \*     IN F[_TEPosition - 1]
    ]

=============================================================================



Parsing and semantic processing can take forever if the trace below is long.
 In this case, it is advised to uncomment the module below to deserialize the
 trace from a generated binary file.

\*
\*---- MODULE DnsResolver_TETrace ----
\*EXTENDS DnsResolver, IOUtils, TLC
\*
\*trace == IODeserialize("DnsResolver_TTrace_1790404759.bin", TRUE)
\*
\*=============================================================================
\*

---- MODULE DnsResolver_TETrace ----
EXTENDS DnsResolver, TLC

trace == 
    <<
    ([ops |-> <<>>,stage |-> "start",zone |-> <<>>,kind |-> "S",zone2 |-> <<>>,policy |-> "IPv4First",prefs |-> <<>>]),
    ([ops |-> <<>>,stage |-> "srv",zone |-> <<>>,kind |-> "S",zone2 |-> <<>>,policy |-> "IPv4First",prefs |-> <<>>]),
    ([ops |-> <<>>,stage |-> "host",zone |-> <<>>,kind |-> "S",zone2 |-> <<>>,policy |-> "IPv4First",prefs |-> <<>>]),
    ([ops |-> <<>>,stage |-> "prefs",zone |-> <<>>,kind |-> "S",zone2 |-> <<>>,policy |-> "IPv4First",prefs |-> <<>>]),
    ([ops |-> <<>>,stage |-> "done",zone |-> <<>>,kind |-> "S",zone2 |-> <<>>,policy |-> "IPv4First",prefs |-> <<>>])
    >>
----


=============================================================================

---- CONFIG DnsResolver_TTrace_1790404759 ----
CONSTANTS
    EmitCases = FALSE
    MaxQOps = 3
    Dev_us = FALSE
    Dev_snf = FALSE
    Dev_a4 = FALSE
    Dev_afe = TRUE
    Dev_ord = FALSE
    Dev_np = FALSE
    Dev_keep = FALSE
    Dev_desc = FALSE

INVARIANT
    _inv

CHECK_DEADLOCK
    \* CHECK_DEADLOCK off because of PROPERTY or INVARIANT above.
    FALSE

INIT
    _init

NEXT
    _next

CONSTANT
    _TETrace <- _trace

ALIAS
    _expression
=============================================================================
\* Generated on Sat Sep 26 06:39:21 UTC 2026