CONSTANTS Callers = {a, b} Burst = 2 MaxRemoves = 0 RetryOnMiss = FALSE MaxCleanups = 2 EraseRechecks = FALSE
SPECIFICATION Spec
INVARIANT NeverOverdrawn
INVARIANT NoBusyEviction
CHECK_DEADLOCK FALSE
