------------------------------ MODULE MCConnHealth ------------------------------
(* Model-checking instances of ConnHealth.tla.  The configurations (heartbeatInterval, timeoutThreshold,                 *)
(* maxConsecutiveFailures, enableHeartbeat; seconds) are defined here once: the check reads them from TLC's output        *)
(* (the ASSUME below prints them) and hands them to the driver, whose Begin event is compared with Cfgs again.            *)
(*   1: the shape of the repository's ConnectionHealth test (max = 3: Warning, Degraded, Critical, Unhealthy)             *)
(*   2: the HealthMonitor test's max = 2 (Degraded unreachable), shorter intervals                                        *)
(*   3: max = 1 (the "rapid state changes" test; Critical unreachable: 1 is Warning), heartbeat disabled,                 *)
(*      timeout shorter than the heartbeat interval                                                                       *)
EXTENDS ConnHealth
MCCfgs3 == << [hb |-> 2, to |-> 4, max |-> 3, en |-> TRUE],
              [hb |-> 1, to |-> 3, max |-> 2, en |-> TRUE],
              [hb |-> 3, to |-> 2, max |-> 1, en |-> FALSE] >>
MCCfgs2 == SubSeq(MCCfgs3, 1, 2)
ASSUME PrintT(<<"CFGS", Cfgs>>)
=================================================================================
