CONSTANTS Callers = {a, b} Burst = 1 MaxRemoves = 2 RetryOnMiss = FALSE MaxCleanups = 0 EraseRechecks = FALSE
SPECIFICATION Spec
INVARIANT NeverOverdrawn
INVARIANT NoSpuriousRefusal
CHECK_DEADLOCK FALSE
