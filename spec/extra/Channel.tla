------------------------------ MODULE Channel ------------------------------
(* Extra X12, publish/subscribe half: Impl-level specification of iora::web::SseChannel (web/channel.hpp) together with    *)
(* the close-latch of iora::network::SseStream (network/sse_stream.hpp).  A subscriber is a stream; there is no             *)
(* unsubscribe call on SseChannel: a stream leaves by being closed (explicit close() or the disconnect observer's          *)
(* markClosed()) and is pruned by the next publish / removeClosed().                                                        *)
(*                                                                                                                          *)
(* What a user relies on:                                                                                                   *)
(*   MustDeliver    a publish hands its event to every stream whose subscribe() had returned before the publish began and    *)
(*                  whose close had not begun when the publish returned                                                      *)
(*   AtMostOnce     ... exactly once (a stream subscribed once never gets one publish twice)                                 *)
(*   InOrder        per stream, events of publishes ordered in real time (p1 returned before p2 began; same publisher)       *)
(*                  arrive in that order - follows from "an event is handed over only while its publish is in progress"      *)
(*   NoLateStart    a publish that BEGAN after close()/markClosed() of a stream had returned never writes to it              *)
(*   CloseSessionOnce  the owning server's closeSession(sid) is called at most once per stream, only by an explicit close()  *)
(*                  that won the latch, never when the observer path (markClosed) won it (double close, M-6)                 *)
(*   FiredOnce      the onClose callback fires at most once, and exactly once once both the registration and a close have    *)
(*                  returned (RD-22: registration after the close fires immediately)                                         *)
(* NOT guaranteed by the design (TLC shows the counterexample, the real code shows it too - OBSERVATION LateWrite):          *)
(*   NoWriteAfterCloseReturned  a publish already past its open-check writes to the server for a session whose close()       *)
(*                  has meanwhile RETURNED (snapshot-then-write without a lock; the engine drops such bytes)                 *)
(*                                                                                                                          *)
(* Grain: Sub / Rm / Count = one critical section; PubSnap = prune + snapshot critical section; PubCheck = the relaxed        *)
(* isOpen()/_open reads in front of a write; PubSend = the hand-over to the server (sendRawForSse);                          *)
(* Close1 / Mark1 = the relaxed store _open=false; Latch = the close-latch critical section; CloseSess = closeSession();     *)
(* Fire = the callback outside the latch; OnClose = the registration critical section; FireNow = its immediate fire.         *)
EXTENDS Naturals, Sequences, FiniteSets, TLC
CONSTANTS Threads, Streams, Prog,     \* Prog[t] : sequence of [op, s, m]; op in sub pub close mark onclose rm count
          Dev_PruneInverted,          \* the prune predicate is inverted: open streams are erased
          Dev_MarkKeepsOpen,          \* markClosed() forgets _open=false
          Dev_CloseSessionBeforeLatch,\* close() calls closeSession before (and regardless of) the latch
          Dev_LatchUnlocked,          \* test and set of `_closed` are not one critical section
          Dev_NoImmediateFire         \* onClose() on an already closed stream does not fire

VARIABLES subs, open, closed, cbset, pc, ip, snap, si, won,
          delivered, closeSessions, fired, winner, subDone, closeBegun, closeDone, regDone, must, late, lateWrites, lastRet
vars == <<subs, open, closed, cbset, pc, ip, snap, si, won, delivered, closeSessions, fired, winner, subDone, closeBegun,
          closeDone, regDone, must, late, lateWrites, lastRet>>
ghost == <<delivered, closeSessions, fired, winner, subDone, closeBegun, closeDone, regDone, must, late, lateWrites>>

Op(t) == Prog[t][ip[t]]
None == [t |-> "-", op |-> "-", m |-> 0]
AllMsgs == UNION {{Prog[t][i].m : i \in 1..Len(Prog[t])} : t \in Threads}
Init == /\ subs = <<>> /\ open = [s \in Streams |-> TRUE] /\ closed = [s \in Streams |-> FALSE] /\ cbset = [s \in Streams |-> FALSE]
        /\ pc = [t \in Threads |-> "idle"] /\ ip = [t \in Threads |-> 1]
        /\ snap = [t \in Threads |-> <<>>] /\ si = [t \in Threads |-> 1] /\ won = [t \in Threads |-> FALSE]
        /\ delivered = <<>> /\ closeSessions = [s \in Streams |-> 0] /\ fired = [s \in Streams |-> 0]
        /\ winner = [s \in Streams |-> "-"] /\ subDone = {} /\ closeBegun = {} /\ closeDone = {} /\ regDone = {}
        /\ must = [m \in AllMsgs |-> {}] /\ late = [m \in AllMsgs |-> {}] /\ lateWrites = 0 /\ lastRet = None

Return(t) == /\ ip' = [ip EXCEPT ![t] = @ + 1] /\ pc' = [pc EXCEPT ![t] = "idle"]
             /\ lastRet' = [t |-> t, op |-> Op(t).op, m |-> Op(t).m]
NoRet == UNCHANGED ip /\ lastRet' = None
Ready(t, o) == pc[t] = "idle" /\ ip[t] <= Len(Prog[t]) /\ Op(t).op = o
IsOpen(s) == open[s]
Pruned(v) == SelectSeq(v, LAMBDA s : IF Dev_PruneInverted THEN ~IsOpen(s) ELSE IsOpen(s))
Range(v) == {v[i] : i \in 1..Len(v)}

Sub(t) == /\ Ready(t, "sub")
          /\ subs' = Append(subs, Op(t).s) /\ subDone' = subDone \cup {Op(t).s} /\ Return(t)
          /\ UNCHANGED <<open, closed, cbset, snap, si, won, delivered, closeSessions, fired, winner, closeBegun, closeDone, regDone, must, late, lateWrites>>
Rm(t) == /\ Ready(t, "rm") /\ subs' = Pruned(subs) /\ Return(t)
         /\ UNCHANGED <<open, closed, cbset, snap, si, won, ghost>>
Count(t) == /\ Ready(t, "count") /\ Return(t)
            /\ UNCHANGED <<subs, open, closed, cbset, snap, si, won, ghost>>

\* ---- publish
PubSnap(t) == /\ Ready(t, "pub")
              /\ subs' = Pruned(subs) /\ snap' = [snap EXCEPT ![t] = Pruned(subs)] /\ si' = [si EXCEPT ![t] = 1]
              /\ must' = [must EXCEPT ![Op(t).m] = {s \in Range(subs) : s \in subDone /\ s \notin closeBegun}]
              /\ late' = [late EXCEPT ![Op(t).m] = closeDone]
              /\ IF Pruned(subs) = <<>> THEN Return(t) ELSE pc' = [pc EXCEPT ![t] = "chk"] /\ NoRet
              /\ UNCHANGED <<open, closed, cbset, won, delivered, closeSessions, fired, winner, subDone, closeBegun, closeDone, regDone, lateWrites>>
Advance(t) == IF si[t] + 1 > Len(snap[t]) THEN Return(t) /\ UNCHANGED si
              ELSE si' = [si EXCEPT ![t] = @ + 1] /\ pc' = [pc EXCEPT ![t] = "chk"] /\ NoRet
PubCheck(t) == /\ pc[t] = "chk"
               /\ IF IsOpen(snap[t][si[t]]) THEN pc' = [pc EXCEPT ![t] = "send"] /\ NoRet /\ UNCHANGED si
                  ELSE Advance(t)
               /\ UNCHANGED <<subs, open, closed, cbset, snap, won, ghost>>
PubSend(t) == /\ pc[t] = "send"
              /\ LET s == snap[t][si[t]] IN
                 /\ delivered' = Append(delivered, <<s, Op(t).m>>)
                 /\ lateWrites' = lateWrites + (IF s \in closeDone THEN 1 ELSE 0)
              /\ Advance(t)
              /\ UNCHANGED <<subs, open, closed, cbset, snap, won, closeSessions, fired, winner, subDone, closeBegun, closeDone, regDone, must, late>>

\* ---- close() / markClosed(): relaxed store, latch, [closeSession], callback
Begin(s) == /\ closeBegun' = closeBegun \cup {s}
            /\ must' = [m \in AllMsgs |-> must[m] \ {s}]      \* a publish in progress is no longer obliged to reach s
Close1(t) == /\ (Ready(t, "close") \/ Ready(t, "mark"))
             /\ LET s == Op(t).s IN
                /\ open' = IF Op(t).op = "mark" /\ Dev_MarkKeepsOpen THEN open ELSE [open EXCEPT ![s] = FALSE]
                /\ Begin(s)
                /\ closeSessions' = IF Op(t).op = "close" /\ Dev_CloseSessionBeforeLatch
                                    THEN [closeSessions EXCEPT ![s] = @ + 1] ELSE closeSessions
             /\ pc' = [pc EXCEPT ![t] = IF Dev_LatchUnlocked THEN "test" ELSE "latch"] /\ NoRet
             /\ UNCHANGED <<subs, closed, cbset, snap, si, won, delivered, fired, winner, subDone, closeDone, regDone, late, lateWrites>>
Finish(t, s) == closeDone' = closeDone \cup {s} /\ Return(t)
AfterLatch(t, s) == IF Op(t).op = "close" /\ ~Dev_CloseSessionBeforeLatch THEN "cs" ELSE "fire"
Latch(t) == /\ pc[t] = "latch"
            /\ LET s == Op(t).s IN
               IF closed[s] THEN Finish(t, s) /\ UNCHANGED <<closed, won, winner>>
               ELSE /\ closed' = [closed EXCEPT ![s] = TRUE] /\ won' = [won EXCEPT ![t] = cbset[s]]
                    /\ winner' = [winner EXCEPT ![s] = Op(t).op]
                    /\ pc' = [pc EXCEPT ![t] = AfterLatch(t, s)] /\ NoRet /\ UNCHANGED closeDone
            /\ UNCHANGED <<subs, open, cbset, snap, si, delivered, closeSessions, fired, subDone, closeBegun, regDone, must, late, lateWrites>>
\* the slip: `if (_closed) return;` and `_closed = true; cb = _onClose;` in two critical sections
LatchTest(t) == /\ pc[t] = "test"
                /\ LET s == Op(t).s IN
                   IF closed[s] THEN Finish(t, s) ELSE pc' = [pc EXCEPT ![t] = "set"] /\ NoRet /\ UNCHANGED closeDone
                /\ UNCHANGED <<subs, open, closed, cbset, snap, si, won, delivered, closeSessions, fired, winner, subDone, closeBegun, regDone, must, late, lateWrites>>
LatchSet(t) == /\ pc[t] = "set"
               /\ LET s == Op(t).s IN
                  /\ closed' = [closed EXCEPT ![s] = TRUE] /\ won' = [won EXCEPT ![t] = cbset[s]]
                  /\ winner' = [winner EXCEPT ![s] = Op(t).op]
                  /\ pc' = [pc EXCEPT ![t] = AfterLatch(t, s)] /\ NoRet
               /\ UNCHANGED <<subs, open, cbset, snap, si, delivered, closeSessions, fired, subDone, closeBegun, closeDone, regDone, must, late, lateWrites>>
CloseSess(t) == /\ pc[t] = "cs"
                /\ closeSessions' = [closeSessions EXCEPT ![Op(t).s] = @ + 1]
                /\ pc' = [pc EXCEPT ![t] = "fire"] /\ NoRet
                /\ UNCHANGED <<subs, open, closed, cbset, snap, si, won, delivered, fired, winner, subDone, closeBegun, closeDone, regDone, must, late, lateWrites>>
Fire(t) == /\ pc[t] = "fire"
           /\ fired' = IF won[t] THEN [fired EXCEPT ![Op(t).s] = @ + 1] ELSE fired
           /\ Finish(t, Op(t).s)
           /\ UNCHANGED <<subs, open, closed, cbset, snap, si, won, delivered, closeSessions, winner, subDone, closeBegun, regDone, must, late, lateWrites>>

\* ---- onClose(cb)
OnClose(t) == /\ Ready(t, "onclose")
              /\ LET s == Op(t).s IN
                 IF ~closed[s] THEN cbset' = [cbset EXCEPT ![s] = TRUE] /\ regDone' = regDone \cup {s} /\ Return(t)
                 ELSE IF Dev_NoImmediateFire THEN regDone' = regDone \cup {s} /\ Return(t) /\ UNCHANGED cbset
                 ELSE pc' = [pc EXCEPT ![t] = "firenow"] /\ NoRet /\ UNCHANGED <<cbset, regDone>>
              /\ UNCHANGED <<subs, open, closed, snap, si, won, delivered, closeSessions, fired, winner, subDone, closeBegun, closeDone, must, late, lateWrites>>
FireNow(t) == /\ pc[t] = "firenow"
              /\ fired' = [fired EXCEPT ![Op(t).s] = @ + 1] /\ regDone' = regDone \cup {Op(t).s} /\ Return(t)
              /\ UNCHANGED <<subs, open, closed, cbset, snap, si, won, delivered, closeSessions, winner, subDone, closeBegun, closeDone, must, late, lateWrites>>

Next == \E t \in Threads : Sub(t) \/ Rm(t) \/ Count(t) \/ PubSnap(t) \/ PubCheck(t) \/ PubSend(t) \/ Close1(t) \/ Latch(t)
                           \/ LatchTest(t) \/ LatchSet(t) \/ CloseSess(t) \/ Fire(t) \/ OnClose(t) \/ FireNow(t)
Spec == Init /\ [][Next]_vars

\* ---- properties
Times(s, m) == Cardinality({i \in 1..Len(delivered) : delivered[i] = <<s, m>>})
AtMostOnce == \A s \in Streams, m \in AllMsgs : Times(s, m) <= 1
MustDeliver == (lastRet.op = "pub") => \A s \in must[lastRet.m] : Times(s, lastRet.m) = 1
NoLateStart == \A i \in 1..Len(delivered) : delivered[i][1] \notin late[delivered[i][2]]
CloseSessionOnce == \A s \in Streams : /\ closeSessions[s] <= 1
                                       /\ (winner[s] = "mark" => closeSessions[s] = 0)
AllDone == \A t \in Threads : pc[t] = "idle" /\ ip[t] > Len(Prog[t])
FiredOnce == \A s \in Streams : /\ fired[s] <= 1
                                /\ (AllDone /\ s \in regDone /\ s \in closeDone) => fired[s] = 1
Terminates == (~ENABLED Next) => AllDone
\* not an invariant of the design (see the header): used to obtain the counterexample that is replayed as a probe
NoWriteAfterCloseReturned == lateWrites = 0
============================================================================
