------------------------------ MODULE CacheTrace ------------------------------
(* Abs oracle of X21 as a trace specification: iora::util::ExpiringCache is LINEARIZABLE with respect to a map from key to  *)
(* (value, absolute expiry), with a purge that may run at any moment and eviction notices owed exactly once.               *)
(* The driver (harness/drv_s_expcache.cpp, deterministic scheduler, VIRTUAL time in ms) records                           *)
(*   Begin{ttl,cb} | Call{t,op,k,v,ttl,quiet,vt} | Ret{t,op,hit,rv,vt} | Evict{th,k,v,vt} | DtorCall | DtorRet | End       *)
(* Virtual time moves only while every thread is blocked, so it is constant during a call (the check drops executions in  *)
(* which it was not): expiry = time of the set call + ttl, exactly.                                                       *)
(*   E1 get returns the value of the last set of the key iff that entry's expiry is LATER than now (the boundary instant  *)
(*      counts as expired); never an expired, removed or overwritten value                                                *)
(*   E2 eviction notice: exactly once for every entry taken out by an expired get, by remove, or by the purge - on the     *)
(*      calling thread before the call returns, resp. on the purge thread before the destructor returns; never for an     *)
(*      entry that is live, was overwritten by set, or is still present at destruction; none without a callback           *)
(*   E3 the purge takes out only entries whose expiry has passed; what expired more than one purge period (5 s) before a  *)
(*      quiet size() is gone                                                                                               *)
(*   E4 nothing runs after the destructor returned; no execution ends stuck                                               *)
EXTENDS TraceBase, FiniteSets, Integers
VARIABLES m, pend, owed, cb, dtor
vars == <<l, m, pend, owed, cb, dtor>>
Period == 5000
Thr == {Log[i].t : i \in {j \in 1..Len(Log) : "t" \in DOMAIN Log[j]}}
Keys == {Log[i].k : i \in {j \in 1..Len(Log) : Log[j].e = "Call"}}
None == [v |-> -1, exp |-> 0]
Empty == [k \in Keys |-> None]
Idle == [st |-> "idle", op |-> "-", k |-> "", v |-> -1, exp |-> 0, vt |-> 0, quiet |-> FALSE, hit |-> FALSE, rv |-> -1]
Fresh == [t \in Thr |-> Idle]
Init == l = 1 /\ m = Empty /\ pend = Fresh /\ owed = {} /\ cb = FALSE /\ dtor = "no"
EvBegin == IsEv("Begin") /\ m' = Empty /\ pend' = Fresh /\ owed' = {} /\ cb' = Ev.cb /\ dtor' = "no"
EvReset == IsEv("Reset") /\ m' = Empty /\ pend' = Fresh /\ owed' = {} /\ cb' = FALSE /\ dtor' = "no"
Present == {k \in Keys : m[k].v # -1}
Owe(k, by) == IF cb THEN owed \cup {[k |-> k, v |-> m[k].v, by |-> by]} ELSE owed

EvCall == /\ IsEv("Call") /\ pend[Ev.t].st = "idle" /\ dtor = "no"
          /\ pend' = [pend EXCEPT ![Ev.t] = [Idle EXCEPT !.st = "called", !.op = Ev.op, !.k = Ev.k, !.v = Ev.v,
                                                         !.exp = Ev.vt + Ev.ttl, !.vt = Ev.vt, !.quiet = Ev.quiet]]
          /\ UNCHANGED <<m, owed, cb, dtor>>
Done(t, hit, rv) == pend' = [pend EXCEPT ![t] = [@ EXCEPT !.st = "lin", !.hit = hit, !.rv = rv]]
Lin(t) == /\ pend[t].st = "called"
          /\ LET p == pend[t] k == pend[t].k IN
             CASE p.op = "set"    -> m' = [m EXCEPT ![k] = [v |-> p.v, exp |-> p.exp]] /\ UNCHANGED owed /\ Done(t, FALSE, -1)
               [] p.op = "get"    -> IF m[k].v = -1 THEN UNCHANGED <<m, owed>> /\ Done(t, FALSE, -1)
                                     ELSE IF m[k].exp > p.vt THEN UNCHANGED <<m, owed>> /\ Done(t, TRUE, m[k].v)          \* E1
                                     ELSE m' = [m EXCEPT ![k] = None] /\ owed' = Owe(k, t) /\ Done(t, FALSE, -1)
               [] p.op = "remove" -> IF m[k].v = -1 THEN UNCHANGED <<m, owed>> /\ Done(t, FALSE, -1)
                                     ELSE m' = [m EXCEPT ![k] = None] /\ owed' = Owe(k, t) /\ Done(t, FALSE, -1)
               [] p.op = "size"   -> /\ UNCHANGED <<m, owed>> /\ Done(t, FALSE, Cardinality(Present))
                                     /\ p.quiet => \A x \in Present : m[x].exp + Period >= p.vt                           \* E3
               [] OTHER -> FALSE
          /\ UNCHANGED <<l, cb, dtor>>
\* the purge thread's pass, at some instant not later than the next logged event: everything that has expired by then (E3)
NextVt == IF l <= Len(Log) /\ "vt" \in DOMAIN Log[l] THEN Log[l].vt ELSE 0
Purge == /\ dtor # "done"
         /\ \E th \in {m[k].exp : k \in Present} :
               /\ th <= NextVt
               /\ LET gone == {k \in Present : m[k].exp <= th} IN
                  /\ m' = [k \in Keys |-> IF k \in gone THEN None ELSE m[k]]
                  /\ owed' = IF cb THEN owed \cup {[k |-> k, v |-> m[k].v, by |-> "purge"] : k \in gone} ELSE owed
         /\ UNCHANGED <<l, pend, cb, dtor>>
EvEvict == /\ IsEv("Evict") /\ dtor # "done"
           /\ \E o \in owed : o.k = Ev.k /\ o.v = Ev.v /\ o.by = Ev.th /\ owed' = owed \ {o}                                \* E2
           /\ UNCHANGED <<m, pend, cb, dtor>>
EvRet == /\ IsEv("Ret") /\ pend[Ev.t].st = "lin" /\ pend[Ev.t].op = Ev.op
         /\ LET p == pend[Ev.t] IN
            /\ (Ev.op = "get") => (p.hit = Ev.hit /\ (Ev.hit => p.rv = Ev.rv))
            /\ (Ev.op = "size") => p.rv = Ev.rv
            /\ ~\E o \in owed : o.by = Ev.t                                          \* its own notice was delivered before it returned
         /\ pend' = [pend EXCEPT ![Ev.t] = Idle] /\ UNCHANGED <<m, owed, cb, dtor>>
EvDtorCall == /\ IsEv("DtorCall") /\ dtor = "no" /\ \A t \in Thr : pend[t].st = "idle"
              /\ dtor' = "called" /\ UNCHANGED <<m, pend, owed, cb>>
EvDtorRet == /\ IsEv("DtorRet") /\ dtor = "called" /\ owed = {}                       \* the purge thread was joined: nothing pending
             /\ dtor' = "done" /\ UNCHANGED <<m, pend, owed, cb>>
EvEnd == IsEv("End") /\ Ev.outcome = "done" /\ dtor = "done" /\ owed = {} /\ UNCHANGED <<m, pend, owed, cb, dtor>>
Next == EvBegin \/ EvReset \/ EvCall \/ EvRet \/ EvEvict \/ EvDtorCall \/ EvDtorRet \/ EvEnd \/ Purge \/ \E t \in Thr : Lin(t)
Spec == Init /\ [][Next]_vars
=============================================================================
