---- MODULE MCTtlMap ----
(* exhaustive configuration of TtlMap.tla (X07): 3 keys, capacity 2, default TTL 2 s, explicit TTLs 1 s and 3 s, sweep every *)
(* 2 s, 5 operations (checks/X07.py generates this module with its tier's constants; capacity 9 for the 8-hop bound)       *)
EXTENDS TtlMap
====
