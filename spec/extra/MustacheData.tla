------------------------------ MODULE MustacheData ------------------------------
(* X17 - the fixed vocabulary of the mustache model: template LEXEMES (name -> kind, tag name, key path, text), the  *)
(* DATA context (tagged JSON value) and the PARTIALS (name -> lexeme names).  checks/X17.py lets TLC print this      *)
(* module's tables once (Mustache!Tables) and builds the driver's JSON document / partial map / template texts from *)
(* them, so that the text the real engine sees and the semantics the evaluator uses have ONE source.                *)
(*                                                                                                                *)
(* Lexeme kinds: text (no white space, no newline, no "{{"), ws (spaces), nl ("\n" or "\r\n"), var, raw ({{{x}}} or  *)
(* {{&x}}), open, inv, close, partial, comment, broken (unterminated tag: only generated as the LAST lexeme),        *)
(* setdelim ({{=..=}}: refused by this engine), deep (n nested {{#t}} around "x").                                  *)
EXTENDS Integers, Sequences, TLC

DepthMax == 100           \* iora::parsers::ParseLimits{}.depthMax (json.hpp), used by mustache.hpp::depthLimit()

Lit(k, s) == [k |-> k, nm |-> "", path |-> <<>>, txt |-> s, n |-> 0]
Tag(k, nm, path, s) == [k |-> k, nm |-> nm, path |-> path, txt |-> s, n |-> 0]
RECURSIVE Rep(_, _)
Rep(s, n) == IF n = 0 THEN "" ELSE s \o Rep(s, n - 1)
Deep(n) == [k |-> "deep", nm |-> "t", path |-> <<"t">>, txt |-> Rep("{{#t}}", n) \o "x" \o Rep("{{/t}}", n), n |-> n]

Lx == [
  \* literals
  X    |-> Lit("text", "x"),        Y    |-> Lit("text", "<b>&"),     RB |-> Lit("text", "}}"),   LB |-> Lit("text", "{x"),
  SP   |-> Lit("ws", " "),          W2   |-> Lit("ws", "  "),         NL |-> Lit("nl", "\n"),     CRNL |-> Lit("nl", "\r\n"),
  \* escaped interpolation
  Vs   |-> Tag("var", "s", <<"s">>, "{{s}}"),          Vsp  |-> Tag("var", "s", <<"s">>, "{{ s }}"),
  Vq   |-> Tag("var", "q", <<"q">>, "{{q}}"),          Vk   |-> Tag("var", "k", <<"k">>, "{{k}}"),
  Vos  |-> Tag("var", "o.s", <<"o", "s">>, "{{o.s}}"), Voz  |-> Tag("var", "o.zz", <<"o", "zz">>, "{{o.zz}}"),
  Vso  |-> Tag("var", "s.o", <<"s", "o">>, "{{s.o}}"), Vozs |-> Tag("var", "o.zz.s", <<"o", "zz", "s">>, "{{o.zz.s}}"),
  Vzz  |-> Tag("var", "zz", <<"zz">>, "{{zz}}"),       Vdot |-> Tag("var", ".", <<".">>, "{{.}}"),
  Vi   |-> Tag("var", "i", <<"i">>, "{{i}}"),          Vm   |-> Tag("var", "m", <<"m">>, "{{m}}"),
  Vd   |-> Tag("var", "d", <<"d">>, "{{d}}"),          Vg   |-> Tag("var", "g", <<"g">>, "{{g}}"),
  Vt   |-> Tag("var", "t", <<"t">>, "{{t}}"),          Vf   |-> Tag("var", "f", <<"f">>, "{{f}}"),
  Vn   |-> Tag("var", "n", <<"n">>, "{{n}}"),          Ve   |-> Tag("var", "e", <<"e">>, "{{e}}"),
  Va   |-> Tag("var", "a", <<"a">>, "{{a}}"),          Vo   |-> Tag("var", "o", <<"o">>, "{{o}}"),
  Vnil |-> Tag("var", "", <<"">>, "{{}}"),
  \* unescaped interpolation
  Rq   |-> Tag("raw", "q", <<"q">>, "{{{q}}}"),        Rqsp |-> Tag("raw", "q", <<"q">>, "{{{ q }}}"),
  Aq   |-> Tag("raw", "q", <<"q">>, "{{&q}}"),         Aqsp |-> Tag("raw", "q", <<"q">>, "{{& q }}"),
  Rdot |-> Tag("raw", ".", <<".">>, "{{{.}}}"),        Ri   |-> Tag("raw", "i", <<"i">>, "{{{i}}}"),
  \* sections
  Oo   |-> Tag("open", "o", <<"o">>, "{{#o}}"),        Co   |-> Tag("close", "o", <<"o">>, "{{/o}}"),
  Cosp |-> Tag("close", "o", <<"o">>, "{{/ o }}"),     Oosp |-> Tag("open", "o", <<"o">>, "{{# o }}"),
  Oa   |-> Tag("open", "a", <<"a">>, "{{#a}}"),        Ca   |-> Tag("close", "a", <<"a">>, "{{/a}}"),
  Ol   |-> Tag("open", "l", <<"l">>, "{{#l}}"),        Cl   |-> Tag("close", "l", <<"l">>, "{{/l}}"),
  Ot   |-> Tag("open", "t", <<"t">>, "{{#t}}"),        Ct   |-> Tag("close", "t", <<"t">>, "{{/t}}"),
  Of   |-> Tag("open", "f", <<"f">>, "{{#f}}"),        Cf   |-> Tag("close", "f", <<"f">>, "{{/f}}"),
  On   |-> Tag("open", "n", <<"n">>, "{{#n}}"),        Cn   |-> Tag("close", "n", <<"n">>, "{{/n}}"),
  Oz   |-> Tag("open", "z", <<"z">>, "{{#z}}"),        Cz   |-> Tag("close", "z", <<"z">>, "{{/z}}"),
  Oi   |-> Tag("open", "i", <<"i">>, "{{#i}}"),        Ci   |-> Tag("close", "i", <<"i">>, "{{/i}}"),
  Oe   |-> Tag("open", "e", <<"e">>, "{{#e}}"),        Ce   |-> Tag("close", "e", <<"e">>, "{{/e}}"),
  Os   |-> Tag("open", "s", <<"s">>, "{{#s}}"),        Cs   |-> Tag("close", "s", <<"s">>, "{{/s}}"),
  Ozz  |-> Tag("open", "zz", <<"zz">>, "{{#zz}}"),     Czz  |-> Tag("close", "zz", <<"zz">>, "{{/zz}}"),
  Ool  |-> Tag("open", "o.l", <<"o", "l">>, "{{#o.l}}"), Col |-> Tag("close", "o.l", <<"o", "l">>, "{{/o.l}}"),
  \* inverted sections
  Io   |-> Tag("inv", "o", <<"o">>, "{{^o}}"),         Ia   |-> Tag("inv", "a", <<"a">>, "{{^a}}"),
  It   |-> Tag("inv", "t", <<"t">>, "{{^t}}"),         If   |-> Tag("inv", "f", <<"f">>, "{{^f}}"),
  In   |-> Tag("inv", "n", <<"n">>, "{{^n}}"),         Iz   |-> Tag("inv", "z", <<"z">>, "{{^z}}"),
  Ii   |-> Tag("inv", "i", <<"i">>, "{{^i}}"),         Ie   |-> Tag("inv", "e", <<"e">>, "{{^e}}"),
  Izz  |-> Tag("inv", "zz", <<"zz">>, "{{^zz}}"),      Iozz |-> Tag("inv", "o.zz", <<"o", "zz">>, "{{^o.zz}}"),
  Cozz |-> Tag("close", "o.zz", <<"o", "zz">>, "{{/o.zz}}"),
  \* comments
  K1   |-> Tag("comment", "", <<>>, "{{! note }}"),    K2   |-> Tag("comment", "", <<>>, "{{!}}"),
  K3   |-> Tag("comment", "", <<>>, "{{! a\n b }}"),   K4   |-> Tag("comment", "", <<>>, "{{!{{s}}"),
  \* partials
  Pp   |-> Tag("partial", "p", <<>>, "{{>p}}"),        Ppsp |-> Tag("partial", "p", <<>>, "{{> p }}"),
  Pm   |-> Tag("partial", "m", <<>>, "{{>m}}"),        Pmm  |-> Tag("partial", "mm", <<>>, "{{>mm}}"),
  Pmmc |-> Tag("partial", "mmc", <<>>, "{{>mmc}}"),
  Psec |-> Tag("partial", "sec", <<>>, "{{>sec}}"),    Pout |-> Tag("partial", "outer", <<>>, "{{>outer}}"),
  Prec |-> Tag("partial", "rec", <<>>, "{{>rec}}"),    Pmut |-> Tag("partial", "mut1", <<>>, "{{>mut1}}"),
  Pno  |-> Tag("partial", "nope", <<>>, "{{>nope}}"),  Pbad |-> Tag("partial", "bad", <<>>, "{{>bad}}"),
  Pdp  |-> Tag("partial", "dp", <<>>, "{{>dp}}"),      Pd99 |-> Tag("partial", "d99", <<>>, "{{>d99}}"),
  \* tokenizer errors
  B1   |-> Tag("broken", "", <<>>, "{{s"),             B2   |-> Tag("broken", "", <<>>, "{{{s}}"),
  B3   |-> Tag("broken", "", <<>>, "{{#o"),            B4   |-> Tag("broken", "", <<>>, "{{! c"),
  SD   |-> Tag("setdelim", "", <<>>, "{{=<% %>=}}"),
  \* nesting depth
  D99  |-> Deep(99),  D100 |-> Deep(100),  D101 |-> Deep(101)
]
LexNames == DOMAIN Lx

\* ---- data context: tagged JSON.  str carries its HTML-escaped form (cross-checked by checks/X17.py against the
\* five-character rule of X14), int / dbl carry their text
Str(s, e) == [t |-> "str", v |-> s, esc |-> e]
IntV(s) == [t |-> "int", v |-> s]
DblV(s) == [t |-> "dbl", v |-> s]
Bool(b) == [t |-> "bool", v |-> b]
Null == [t |-> "null"]
Obj(r) == [t |-> "obj", v |-> r]
Arr(q) == [t |-> "arr", v |-> q]
Data == Obj([
  s |-> Str("S", "S"),
  q |-> Str("a&b<c>\"d'", "a&amp;b&lt;c&gt;&quot;d&#39;"),
  e |-> Str("", ""),
  k |-> Str("K", "K"),
  t |-> Bool(TRUE), f |-> Bool(FALSE), n |-> Null,
  i |-> IntV("0"), m |-> IntV("-12"), d |-> DblV("1.5"), g |-> DblV("1e+20"),
  o |-> Obj([s |-> Str("os", "os"), l |-> Arr(<<Str("<", "&lt;"), IntV("7")>>), t |-> Null]),     \* o.t = null shadows t
  a |-> Arr(<<Obj([s |-> Str("1", "1")]), Obj([k |-> Str("2", "2"), n |-> Bool(TRUE)])>>),
  l |-> Arr(<<Str("p", "p"), Str("<", "&lt;")>>),
  z |-> Arr(<<>>)
])

\* ---- partials: name -> lexeme names
Partials == [
  p     |-> <<"LBr", "Vs", "RBr">>,                        \* "[{{s}}]"
  m     |-> <<"Vs", "NL", "Vk", "NL">>,                    \* two lines
  mm    |-> <<"X", "NL", "NL", "X", "NL">>,                \* blank interior line
  mmc   |-> <<"X", "CRNL", "CRNL", "X", "CRNL">>,          \* the same with CRLF line ends
  sec   |-> <<"Oa", "NL", "Vs", "Vk", "NL", "Ca", "NL">>,  \* standalone tags inside a partial
  outer |-> <<"X", "NL", "Pm", "NL", "X", "NL">>,          \* nested standalone partial: indentation composes
  rec   |-> <<"X", "Prec">>,                               \* self recursion -> depth limit
  mut1  |-> <<"Pmut2">>,  mut2 |-> <<"Pmut">>,             \* mutual recursion
  bad   |-> <<"Oo">>,                                      \* unbalanced partial: error only when reached
  dp    |-> <<"D100">>,                                    \* 100 nested sections inside a partial: 1 + 100 > limit
  d99   |-> <<"D99">>                                      \* 1 + 99 = limit: allowed
]
\* lexemes that only occur inside partial sources
LxP == [LBr |-> Lit("text", "["), RBr |-> Lit("text", "]"), Pmut2 |-> Tag("partial", "mut2", <<>>, "{{>mut2}}")]
LxAll == Lx @@ LxP
=================================================================================
