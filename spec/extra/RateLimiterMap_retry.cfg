CONSTANTS Callers = {a, b, c} Burst = 2 MaxRemoves = 3 RetryOnMiss = TRUE
SPECIFICATION Spec
INVARIANT NeverOverdrawn
INVARIANT NoSpuriousRefusal
CHECK_DEADLOCK FALSE
