CONSTANTS Callers = {a, b, c} Burst = 2 MaxRemoves = 2 RetryOnMiss = TRUE MaxCleanups = 2 EraseRechecks = TRUE
SPECIFICATION Spec
INVARIANT NeverOverdrawn
INVARIANT NoSpuriousRefusal
INVARIANT NoBusyEviction
CHECK_DEADLOCK FALSE
