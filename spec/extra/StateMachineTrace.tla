------------------------------ MODULE StateMachineTrace ------------------------------
(* X05: Abs oracle for iora::core::StateMachine as a trace specification (properties P1..P8 of StateMachine.tla, stated   *)
(* declaratively: first passing candidate in insertion order, lazily evaluated guards, exit -> action -> COMMIT -> enter  *)
(* -> observer, return value of the first leg, follow-up legs, forceState, mutual exclusion of legs, atomic reads).        *)
(* The transition table is part of the recorded execution (Begin), so any table can be judged.                             *)
(*   Begin{init, rules:[[from,ev,to,guard,then,act]..], enter:[s..], exit:[s..], fenter:[s..], fexit:[s..], any, ctx}       *)
(*   Call{t, op: fire|force, ev, gv:[guard ids returning true], c: context id, s}   Ret{t, op, ok}                          *)
(*   Cb{t, k: guard|exit|action|enter|any|fexit|fenter, i: rule / registration index, cur: currentState() seen inside,     *)
(*      c: context id received, from, ev, to (observer only)}                                                               *)
(*   Read{t, s}  IsIn{t, s, r}     one event each: the atomic load and the log entry are not separated by a schedule point  *)
(*   ReCall{t}   a callback is about to call processEvent/forceState on the same machine: nothing is specified for that     *)
(*               (the rest of the execution is accepted as it comes); End{outcome = stuck} after it is reported as          *)
(*               <<"OBS", "ReentrantDeadlock", line>>                                                                       *)
(*   End{outcome}  otherwise the execution must finish ("done")                                                             *)
(* A leg: Lin(t) (mutex taken: owner = t, expectations computed from the state at that instant) ; the pre-commit callbacks ; *)
(* Commit(t) ; the post-commit callbacks ; LegEnd(t) (mutex released; a follow-up makes the call pending again).            *)
(* <<"OBS", "ThenNotAtomic", line>>: a callback of another thread's leg was recorded between the two legs of a compound      *)
(* transition (accepted: the header promises only that the mutex is released before the follow-up is processed).            *)
EXTENDS TraceBase, FiniteSets, Integers
VARIABLES tbl, state, owner, pend, chaos
vars == <<l, tbl, state, owner, pend, chaos>>
Thr == {Log[i].t : i \in {j \in 1..Len(Log) : "t" \in DOMAIN Log[j]}}
Idle == [st |-> "idle", op |-> "-", ev |-> 0, gv |-> {}, c |-> 0, first |-> TRUE, ok |-> FALSE, pre |-> <<>>, post |-> <<>>,
         matched |-> FALSE, committed |-> FALSE, to |-> 0, then |-> 0, from |-> 0, rule |-> 0]
Fresh == [t \in Thr |-> Idle]
Tbl0 == [init |-> 0, rules |-> <<>>, enter |-> <<>>, exit |-> <<>>, fenter |-> <<>>, fexit |-> <<>>, any |-> FALSE, ctx |-> FALSE]
Init == l = 1 /\ tbl = Tbl0 /\ state = 0 /\ owner = "-" /\ pend = Fresh /\ chaos = FALSE
EvBegin == /\ IsEv("Begin")
           /\ tbl' = [init |-> Ev.init, rules |-> Ev.rules, enter |-> Ev.enter, exit |-> Ev.exit, fenter |-> Ev.fenter,
                      fexit |-> Ev.fexit, any |-> Ev.any = 1, ctx |-> Ev.ctx = 1]
           /\ state' = Ev.init /\ owner' = "-" /\ pend' = Fresh /\ chaos' = FALSE
EvReset == IsEv("Reset") /\ tbl' = Tbl0 /\ state' = 0 /\ owner' = "-" /\ pend' = Fresh /\ chaos' = FALSE

\* ---- the table, read declaratively.  A rule is <<from, ev, to, guard, then, act>>
Cands(s, e) == SelectSeq([i \in 1..Len(tbl.rules) |-> i], LAMBDA i : tbl.rules[i][1] = s /\ tbl.rules[i][2] = e)
Pass(r, gv) == tbl.rules[r][4] = 0 \/ tbl.rules[r][4] \in gv
FirstPass(c, gv) == LET P == {i \in 1..Len(c) : Pass(c[i], gv)} IN
                    IF P = {} THEN 0 ELSE CHOOSE i \in P : \A j \in P : i <= j       \* position in c, 0 = none
Idx(seq, s) == SelectSeq([i \in 1..Len(seq) |-> i], LAMBDA i : seq[i] = s)
Tag(k, idxs) == [j \in 1..Len(idxs) |-> <<k, idxs[j]>>]
P(t, r) == pend' = [pend EXCEPT ![t] = r]

EvCall ==
    /\ IsEv("Call") /\ ~chaos /\ pend[Ev.t].st = "idle"
    /\ P(Ev.t, [Idle EXCEPT !.st = "called", !.op = Ev.op, !.ev = Fld("ev", 0), !.c = Fld("c", 0), !.to = Fld("s", 0),
                            !.gv = {Fld("gv", <<>>)[i] : i \in 1..Len(Fld("gv", <<>>))}])
    /\ UNCHANGED <<tbl, state, owner, chaos>>

\* the mutex is taken: what this leg must do is fixed by the state at this instant
Lin(t) ==
    /\ ~chaos /\ owner = "-" /\ pend[t].st = "called" /\ owner' = t /\ UNCHANGED <<l, tbl, state, chaos>>
    /\ LET p == pend[t] IN
       IF p.op = "force"
       THEN P(t, [p EXCEPT !.st = "in", !.pre = Tag("fexit", Idx(tbl.fexit, state)), !.post = Tag("fenter", Idx(tbl.fenter, p.to)),
                           !.matched = TRUE, !.committed = FALSE, !.then = 0, !.from = state])
       ELSE LET c == Cands(state, p.ev)
                m == FirstPass(c, p.gv)
                scanned == SubSeq(c, 1, IF m = 0 THEN Len(c) ELSE m)
                guards == Tag("guard", SelectSeq(scanned, LAMBDA r : tbl.rules[r][4] # 0)) IN
            IF m = 0
            THEN P(t, [p EXCEPT !.st = "in", !.pre = guards, !.post = <<>>, !.matched = FALSE, !.committed = FALSE, !.then = 0,
                                !.from = state, !.rule = 0, !.ok = IF p.first THEN FALSE ELSE @])
            ELSE LET r == c[m]  rule == tbl.rules[c[m]] IN
                 P(t, [p EXCEPT !.st = "in", !.matched = TRUE, !.committed = FALSE, !.to = rule[3], !.then = rule[5], !.from = state, !.rule = r,
                                !.ok = IF p.first THEN TRUE ELSE @,
                                !.pre = guards \o Tag("exit", Idx(tbl.exit, state)) \o (IF rule[6] = 1 THEN <<<<"action", r>>>> ELSE <<>>),
                                !.post = Tag("enter", Idx(tbl.enter, rule[3])) \o (IF tbl.any THEN <<<<"any", 0>>>> ELSE <<>>)])

\* a callback: only inside the leg that owns the mutex, exactly the next expected one, seeing the right current state,
\* receiving the context of the call; the observer gets (from, event, to) of this leg
EvCb ==
    /\ IsEv("Cb") /\ ~chaos /\ owner = Ev.t /\ pend[Ev.t].st = "in"
    /\ LET p == pend[Ev.t] IN
       /\ Ev.cur = state
       /\ (tbl.ctx /\ Ev.k \notin {"fexit", "fenter", "any"}) => Ev.c = p.c
       /\ (Ev.k = "any") => (Ev.from = p.from /\ Ev.ev = p.ev /\ Ev.to = p.to)
       /\ IF p.pre # <<>> THEN Head(p.pre) = <<Ev.k, Ev.i>> /\ P(Ev.t, [p EXCEPT !.pre = Tail(@)])
          ELSE p.committed /\ p.post # <<>> /\ Head(p.post) = <<Ev.k, Ev.i>> /\ P(Ev.t, [p EXCEPT !.post = Tail(@)])
    /\ (\E u \in Thr \ {Ev.t} : pend[u].st = "called" /\ ~pend[u].first) => PrintT(<<"OBS", "ThenNotAtomic", l>>)
    /\ UNCHANGED <<tbl, state, owner, chaos>>
Commit(t) ==
    /\ ~chaos /\ owner = t /\ pend[t].st = "in" /\ pend[t].pre = <<>> /\ pend[t].matched /\ ~pend[t].committed
    /\ state' = pend[t].to /\ P(t, [pend[t] EXCEPT !.committed = TRUE]) /\ UNCHANGED <<l, tbl, owner, chaos>>
LegEnd(t) ==
    /\ ~chaos /\ owner = t /\ pend[t].st = "in" /\ pend[t].pre = <<>> /\ (pend[t].matched => (pend[t].committed /\ pend[t].post = <<>>))
    /\ owner' = "-"
    /\ IF pend[t].matched /\ pend[t].then # 0
       THEN P(t, [pend[t] EXCEPT !.st = "called", !.ev = pend[t].then, !.first = FALSE])     \* the follow-up: same call, same context, same guards
       ELSE P(t, [pend[t] EXCEPT !.st = "done"])
    /\ UNCHANGED <<l, tbl, state, chaos>>
EvRet == /\ IsEv("Ret") /\ ~chaos /\ pend[Ev.t].st = "done" /\ pend[Ev.t].op = Ev.op
         /\ (Ev.op = "fire") => (Ev.ok = pend[Ev.t].ok)
         /\ P(Ev.t, Idle) /\ UNCHANGED <<tbl, state, owner, chaos>>
EvRead == IsEv("Read") /\ ~chaos /\ Ev.s = state /\ UNCHANGED <<tbl, state, owner, pend, chaos>>
EvIsIn == IsEv("IsIn") /\ ~chaos /\ Ev.r = (Ev.s = state) /\ UNCHANGED <<tbl, state, owner, pend, chaos>>
\* re-entrancy: unspecified from here on
EvReCall == IsEv("ReCall") /\ chaos' = TRUE /\ UNCHANGED <<tbl, state, owner, pend>>
EvChaos == /\ chaos /\ l <= Len(Log) /\ Log[l].e \notin {"Begin", "Reset", "ReCall"} /\ l' = l + 1
           /\ (Log[l].e = "End" /\ Log[l].outcome = "stuck") => PrintT(<<"OBS", "ReentrantDeadlock", l>>)
           /\ UNCHANGED <<tbl, state, owner, pend, chaos>>
EvEnd == /\ IsEv("End") /\ ~chaos /\ Ev.outcome = "done" /\ owner = "-" /\ \A t \in Thr : pend[t].st = "idle"
         /\ UNCHANGED <<tbl, state, owner, pend, chaos>>
Next == EvBegin \/ EvReset \/ EvCall \/ EvCb \/ EvRet \/ EvRead \/ EvIsIn \/ EvReCall \/ EvChaos \/ EvEnd
        \/ \E t \in Thr : Lin(t) \/ Commit(t) \/ LegEnd(t)
Spec == Init /\ [][Next]_vars
=====================================================================================
