------------------------------ MODULE CircuitTrace ------------------------------
(* Trace specification for the circuit breaker: the specification's own actions, driven by the recorded operations;     *)
(* after every step the object's observable state (state, failure count, success count, request count) and the value    *)
(* allowRequest returned must be exactly what the specification computes.                                                *)
EXTENDS TraceBase, CircuitBreaker
tvars == <<l, vars>>
TInit == l = 1 /\ Init
Match == /\ state' = Ev.state /\ failures' = Ev.failures /\ successes' = Ev.successes /\ requests' = Ev.requests
TAllow == IsEv("Allow") /\ Allow /\ lastRet' = Ev.ret /\ Match
TSuccess == IsEv("Success") /\ Success /\ Match
TFailure == IsEv("Failure") /\ Failure /\ Match
TTick == IsEv("Tick") /\ Tick
TBegin == IsEv("Begin") /\ state' = "Closed" /\ failures' = 0 /\ successes' = 0 /\ requests' = 0 /\ lastFailure' = 0 /\ now' = 0 /\ lastRet' = "-"
TReset == IsEv("Reset") /\ state' = "Closed" /\ failures' = 0 /\ successes' = 0 /\ requests' = 0 /\ lastFailure' = 0 /\ now' = 0 /\ lastRet' = "-"
TNext == TAllow \/ TSuccess \/ TFailure \/ TTick \/ TBegin \/ TReset
TSpec == TInit /\ [][TNext]_tvars
=================================================================================
