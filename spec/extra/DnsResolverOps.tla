------------------------------ MODULE DnsResolverOps ------------------------------
(* X19: the evaluator of iora::network::dns::DnsResolver (network/dns/dns_resolver.hpp) - pure operators shared by the     *)
(* generator (DnsResolver.tla) and by the trace specification (DnsResolverTrace.tla).                                       *)
(* A zone is a sequence of entries [n, t, rc, recs]: what the (recursive) server answers to the question (n, t):            *)
(*   rc = "ok" (recs may be empty: NODATA), "nx" (NXDOMAIN), "fail" (SERVFAIL); a question not in the zone is NXDOMAIN.     *)
(*   NAPTR rec [order, pref, flags, svc, repl, valid, us]   valid: repl is a well-formed domain name, us: it has a '_' label *)
(*   SRV rec   [prio, weight, port, target]          A / AAAA rec [addr]                                                     *)
(* What the resolver documents (class comment: "the complete RFC 3263 chain: NAPTR -> SRV -> A/AAAA ... fallback"):          *)
(*   NAPTR   only the records of the LOWEST order; service known and - if preferences are given - preferred; replacement     *)
(*           a domain name; flag S: the SRV set of the replacement, flag A: the replacement is the host (default port);       *)
(*   no usable NAPTR record: the four default SRV names (_sips._tcp, _sip._tcp, _sip._udp, _sip._sctp); no SRV record at all: *)
(*           the A/AAAA of the domain, one target per preferred transport (default SIP/UDP) on its default port;              *)
(*   every target carries the addresses of its host - addressResolutionPolicy: IPv4First = A then AAAA, ... - and a target    *)
(*   whose host has no address is dropped; the result is sorted by (NAPTR preference, SRV priority).                          *)
(* F is the record of deviation flags (all FALSE = the documented behaviour):                                                *)
(*   us    validateNaptrReplacement refuses a replacement with an underscore label (every SRV owner name has one)   as-is O1  *)
(*   snf   sync only: NAPTR records exist but none is usable -> empty result instead of the SRV fallback            as-is O2  *)
(*   a4    async only: AAAA is asked only when there is no A (policy IPv4First asks for both)                       as-is O3  *)
(*   afe   async only: the A/AAAA fallback returns its targets even when the domain has no address at all           as-is O4  *)
(*   ca4   a result assembled from the cache (api "cached": the second synchronous call, fromCache = true) carries    as-is O5  *)
(*         AAAA only for hosts without A                                                                                      *)
(*   ord   slip: every NAPTR order is used            np    slip: preferences are not applied to NAPTR records                *)
(*   keep  slip: targets without addresses are kept   desc  slip: sorted descending                                           *)
EXTENDS Naturals, Sequences, FiniteSets

NoFlags == [us |-> FALSE, snf |-> FALSE, a4 |-> FALSE, afe |-> FALSE, ca4 |-> FALSE, ord |-> FALSE, np |-> FALSE, keep |-> FALSE, desc |-> FALSE]
Range(s) == {s[i] : i \in 1..Len(s)}
Has(z, n, t) == \E i \in 1..Len(z) : z[i].n = n /\ z[i].t = t
Lookup(z, n, t) == IF Has(z, n, t) THEN z[CHOOSE i \in 1..Len(z) : z[i].n = n /\ z[i].t = t]
                   ELSE [n |-> n, t |-> t, rc |-> "nx", recs |-> <<>>]
Success(e) == e.rc = "ok" /\ Len(e.recs) > 0                       \* DnsResult::isSuccess
Cacheable(e) == Success(e) \/ e.rc = "nx"                           \* DnsResolver::query caches answers and NXDOMAIN

Transport(svc) == CASE svc \in {"SIP+D2U", "sip+d2u"} -> "SIP_UDP"  \* RFC 3403: case-insensitive
                    [] svc = "SIP+D2T" -> "SIP_TCP"
                    [] svc = "SIPS+D2T" -> "SIPS_TLS"
                    [] OTHER -> "Unknown"
DefaultPort(tr) == IF tr = "SIPS_TLS" THEN 5061 ELSE 5060
FlagKind(f) == IF f \in {"s", "S"} THEN "S" ELSE IF f \in {"a", "A"} THEN "A" ELSE "-"
DirectSrv(d) == << <<"_sips._tcp.d.test", "SIPS_TLS">>, <<"_sip._tcp.d.test", "SIP_TCP">>, <<"_sip._udp.d.test", "SIP_UDP">>,
                   <<"_sip._sctp.d.test", "SIP_SCTP">> >>           \* the generator's only domain is d.test

Addrs(e) == IF Success(e) THEN [i \in 1..Len(e.recs) |-> e.recs[i].addr] ELSE <<>>
Addresses(z, h, policy, api, F) ==
  LET v4 == Addrs(Lookup(z, h, "A"))
      v6 == Addrs(Lookup(z, h, "AAAA")) IN
  IF (api = "async" /\ F.a4) \/ (api = "cached" /\ F.ca4) THEN (IF v4 # <<>> THEN v4 ELSE v6)
  ELSE CASE policy = "IPv4Only" -> v4 [] policy = "IPv6Only" -> v6 [] policy = "IPv6First" -> v6 \o v4 [] OTHER -> v4 \o v6

MinOrder(recs) == CHOOSE o \in {r.order : r \in Range(recs)} : \A r \in Range(recs) : o <= r.order
Usable(recs, prefs, F) ==
  {r \in Range(recs) : /\ (F.ord \/ r.order = MinOrder(recs))
                       /\ Transport(r.svc) # "Unknown"
                       /\ (F.np \/ prefs = <<>> \/ Transport(r.svc) \in Range(prefs))
                       /\ r.repl \notin {"", "."} /\ r.valid /\ ~(F.us /\ r.us)
                       /\ FlagKind(r.flags) # "-"}
Target(h, port, tr, prio, w, np, ad) == [h |-> h, port |-> port, tr |-> tr, prio |-> prio, w |-> w, np |-> np, addrs |-> ad]
SrvRaw(z, name, tr, np, policy, api, F) ==
  LET e == Lookup(z, name, "SRV") IN
  IF ~Success(e) THEN {}
  ELSE {Target(s.target, s.port, tr, s.prio, s.weight, np, Addresses(z, s.target, policy, api, F)) : s \in Range(e.recs)}
Resolved(ts, F) == IF F.keep THEN ts ELSE {t \in ts : t.addrs # <<>>}
NaptrTargets(z, use, policy, api, F) ==
  Resolved(UNION {IF FlagKind(r.flags) = "S" THEN SrvRaw(z, r.repl, Transport(r.svc), r.pref, policy, api, F)
                  ELSE {Target(r.repl, DefaultPort(Transport(r.svc)), Transport(r.svc), 0, 0, r.pref, Addresses(z, r.repl, policy, api, F))}
                  : r \in use}, F)
Fallback(z, d, prefs, policy, api, F) ==
  LET ad == Addresses(z, d, policy, api, F) IN
  IF ad = <<>> /\ ~(api = "async" /\ F.afe) THEN {}
  ELSE {Target(d, DefaultPort(tr), tr, 0, 0, 0, ad) : tr \in (IF prefs = <<>> THEN {"SIP_UDP"} ELSE Range(prefs))}
DirectTargets(z, d, prefs, policy, api, F) ==
  LET raw == UNION {SrvRaw(z, DirectSrv(d)[i][1], DirectSrv(d)[i][2], 0, policy, api, F) : i \in 1..4} IN
  IF raw = {} THEN Fallback(z, d, prefs, policy, api, F) ELSE Resolved(raw, F)
\* the set of targets resolveServiceDomain[Async](d, prefs) yields on zone z
Eval(z, d, prefs, policy, api, F) ==
  LET nap == Lookup(z, d, "NAPTR")
      use == IF Success(nap) THEN Usable(nap.recs, prefs, F) ELSE {} IN
  IF use # {} THEN NaptrTargets(z, use, policy, api, F)
  ELSE IF api \in {"sync", "cached"} /\ F.snf /\ Success(nap) THEN {}
  ELSE DirectTargets(z, d, prefs, policy, api, F)
\* the order the result must have: by NAPTR preference, then SRV priority (ties in any order)
Before(a, b, F) == IF F.desc THEN (a.np > b.np \/ (a.np = b.np /\ a.prio >= b.prio)) ELSE (a.np < b.np \/ (a.np = b.np /\ a.prio <= b.prio))
Sorted(s, F) == \A i \in 1..Len(s) : \A j \in 1..Len(s) : i < j => Before(s[i], s[j], F)
\* resolveHostname(h) under a policy: the address list, <<>> = DnsNoRecordsException
Hostname(z, h, policy) == Addresses(z, h, policy, "sync", NoFlags)
====================================================================================
