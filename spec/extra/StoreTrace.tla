------------------------------ MODULE StoreTrace ------------------------------
(* Abs oracle of X25 as a trace specification: iora::storage::ConcreteStateStore is LINEARIZABLE with respect to a plain  *)
(* map from the lower-case key to the value.  The driver (harness/drv_s_statestore.cpp, deterministic scheduler) records  *)
(*   Begin | Call{t,op,k,v} | Ret{t,op,ok,rv,ks,calls} | End{outcome}      k: key text as character codes, v: value id,   *)
(*   ks: the returned keys (array of texts), rv: value id / size, calls: matcher invocations.                             *)
(* The effect of a call (Lin) takes place at some instant between Call and Ret; TLC searches for a linearization.         *)
(*   S1 get/contains see the last set not followed by a remove   S2 one entry per lower-case key, remove tells the truth  *)
(*   S3 size/empty/keys agree; keys() lists each entry once under a spelling it was set with since it was created         *)
(*   S4 findKeysByValue / findKeysMatching exact; the matcher runs once per entry; a throwing matcher skips that key only *)
(*   S5 findKeysWithPrefix = keys starting with the prefix, case-insensitively like every other key comparison;           *)
(*      named deviation Dev_PrefixCaseSensitive (AS BUILT): the stored spelling is compared case-sensitively, so entries   *)
(*      are missing from the answer -> <<"OBS", "Dev_PrefixCaseSensitive", line>>, the check stays green                  *)
(*   no execution ends stuck (deadlock) or with an uncaught exception                                                    *)
EXTENDS TraceBase, FiniteSets, Integers
VARIABLES m, pend
vars == <<l, m, pend>>
Lower(s) == [i \in 1..Len(s) |-> IF s[i] >= 65 /\ s[i] <= 90 THEN s[i] + 32 ELSE s[i]]
StartsWith(s, q) == Len(q) <= Len(s) /\ SubSeq(s, 1, Len(q)) = q
Accepts(lk) == \E i \in 1..Len(lk) : lk[i] = 97
Throws(lk) == Len(lk) > 0 /\ lk[1] = 98
Thr == {Log[i].t : i \in {j \in 1..Len(Log) : "t" \in DOMAIN Log[j]}}
Keys == {Lower(Log[i].k) : i \in {j \in 1..Len(Log) : Log[j].e = "Call" /\ Log[j].op \in {"set", "get", "remove", "contains"}}}
None == [v |-> -1, sp |-> {}]
Empty == [k \in Keys |-> None]
Idle == [st |-> "idle", op |-> "-", ok |-> FALSE, rv |-> -1, want |-> {}, snap |-> Empty, q |-> <<>>]
Fresh == [t \in Thr |-> Idle]
Init == l = 1 /\ m = Empty /\ pend = Fresh
EvBegin == IsEv("Begin") /\ m' = Empty /\ pend' = Fresh
EvReset == IsEv("Reset") /\ m' = Empty /\ pend' = Fresh
Present(mm) == {k \in Keys : mm[k].v # -1}
EvCall == /\ IsEv("Call") /\ pend[Ev.t].st = "idle"
          /\ pend' = [pend EXCEPT ![Ev.t] = [Idle EXCEPT !.st = "called", !.op = Ev.op, !.q = Ev.k, !.rv = Ev.v]]
          /\ UNCHANGED m
Done(t, ok, rv, want) == pend' = [pend EXCEPT ![t] = [@ EXCEPT !.st = "lin", !.ok = ok, !.rv = rv, !.want = want, !.snap = m]]
Lin(t) == /\ pend[t].st = "called"
          /\ LET o == pend[t].op
                 k == pend[t].q
                 lk == Lower(pend[t].q)
                 v == pend[t].rv IN
             CASE o = "set"      -> m' = [m EXCEPT ![lk] = [v |-> v, sp |-> IF @.v = -1 THEN {k} ELSE @.sp \cup {k}]] /\ Done(t, TRUE, -1, {})
               [] o = "get"      -> UNCHANGED m /\ Done(t, m[lk].v # -1, m[lk].v, {})
               [] o = "remove"   -> m' = [m EXCEPT ![lk] = None] /\ Done(t, m[lk].v # -1, -1, {})
               [] o = "contains" -> UNCHANGED m /\ Done(t, m[lk].v # -1, -1, {})
               [] o = "size"     -> UNCHANGED m /\ Done(t, TRUE, Cardinality(Present(m)), {})
               [] o = "empty"    -> UNCHANGED m /\ Done(t, Present(m) = {}, -1, {})
               [] o = "keys"     -> UNCHANGED m /\ Done(t, TRUE, -1, Present(m))
               [] o = "prefix"   -> UNCHANGED m /\ Done(t, TRUE, -1, {x \in Present(m) : StartsWith(x, lk)})
               [] o = "byvalue"  -> UNCHANGED m /\ Done(t, TRUE, -1, {x \in Present(m) : m[x].v = v})
               [] o = "matching" -> UNCHANGED m /\ Done(t, TRUE, Cardinality(Present(m)), {x \in Present(m) : Accepts(x) /\ ~Throws(x)})
               [] o = "reenter"  -> UNCHANGED m /\ Done(t, TRUE, Cardinality(Present(m)), Present(m))
               [] OTHER -> FALSE
          /\ UNCHANGED l
\* the returned key list: no duplicates, exactly the wanted entries, each under a spelling it was set with
Got == {Lower(Ev.ks[i]) : i \in 1..Len(Ev.ks)}
ListOk(p) == /\ Cardinality(Got) = Len(Ev.ks)
             /\ \A i \in 1..Len(Ev.ks) : Lower(Ev.ks[i]) \in Keys /\ Ev.ks[i] \in p.snap[Lower(Ev.ks[i])].sp
EvRet == /\ IsEv("Ret") /\ pend[Ev.t].st = "lin" /\ pend[Ev.t].op = Ev.op
         /\ LET p == pend[Ev.t] IN
            /\ (Ev.op \in {"get", "remove", "contains", "empty"}) => p.ok = Ev.ok
            /\ (Ev.op = "get" /\ Ev.ok) => p.rv = Ev.rv
            /\ (Ev.op = "size") => p.rv = Ev.rv
            /\ (Ev.op \in {"matching", "reenter"}) => p.rv = Ev.calls
            /\ (Ev.op \in {"keys", "byvalue", "matching", "reenter"}) => (ListOk(p) /\ Got = p.want)
            /\ (Ev.op = "prefix") =>
                 /\ ListOk(p)
                 /\ \/ Got = p.want
                    \/ /\ Got \subseteq p.want                              \* as built: case-sensitive on the stored spelling
                       /\ \A i \in 1..Len(Ev.ks) : StartsWith(Ev.ks[i], p.q)
                       /\ \A x \in p.want \ Got : \E s \in p.snap[x].sp : ~StartsWith(s, p.q)
                       /\ PrintT(<<"OBS", "Dev_PrefixCaseSensitive", l>>)
         /\ pend' = [pend EXCEPT ![Ev.t] = Idle] /\ UNCHANGED m
\* named deviation Dev_MatcherUnderLock (AS BUILT): the matcher runs under the store's non-recursive mutex, so a matcher that
\* uses the store never returns once there is an entry to show it (the scheduler reports the execution as stuck)
EvEnd == /\ IsEv("End") /\ UNCHANGED <<m, pend>>
         /\ \/ Ev.outcome = "done"
            \/ /\ Ev.outcome = "stuck"
               /\ \E t \in Thr : pend[t].st = "lin" /\ pend[t].op = "reenter" /\ pend[t].want # {}
               /\ PrintT(<<"OBS", "Dev_MatcherUnderLock", l>>)
Next == EvBegin \/ EvReset \/ EvCall \/ EvRet \/ EvEnd \/ \E t \in Thr : Lin(t)
Spec == Init /\ [][Next]_vars
=============================================================================
