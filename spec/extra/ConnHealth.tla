------------------------------ MODULE ConnHealth ------------------------------
(* Beyond the listed properties [X10]: iora::network::ConnectionHealth / HealthMonitor                                   *)
(* (include/iora/network/connection_health.hpp), transcribed operation by operation.  One action per public operation    *)
(* of HealthMonitor (every one of them is a single critical section of HealthMonitor::mutex_); the per-connection part   *)
(* is ConnectionHealth (recordActivity / recordFailure / recordSuccess / updateState / updateConfig).  Time in whole     *)
(* seconds (steady_clock under the harness' virtual clock).                                                              *)
(*                                                                                                                        *)
(* What a user of the header (and the repository's tests, tests/network/iora_test_transport_improvements.cpp             *)
(* "[health]") relies on - the PROPERTIES below are stated over a ghost history `hist` (the operations applied to an id   *)
(* since its last addConnection) with a reference evaluator, not over the transition code, so a slip in a transition      *)
(* (the Dev_* flags) is caught:                                                                                           *)
(*  P1  consecutiveFailures agrees with the reference fold of the history: +1 per failure, -1 (never below 0) per        *)
(*      success, reset to 0 by activity (and by addConnection, which REPLACES the entry).                                 *)
(*  P2  the state is the level of that count: 0 Healthy, 1 Warning, 1 < n < max Degraded, n = max Critical, n > max       *)
(*      Unhealthy (tests: max=3: W,D,C,U; max=2: third failure Unhealthy; max=1: F,S cycles stay Healthy/Warning) -       *)
(*      StateCurrent: under the configuration currently in force (strict reading);  StateSinceEval: under SOME            *)
(*      configuration in force since the state was last evaluated (weak reading - what the code provides: updateConfig    *)
(*      does not re-evaluate the state; deviation flag Dev_StaleState, see OBSERVATIONS in checks/X10.meta.json).         *)
(*  P3  isHealthy() <=> fewer than two consecutive failures (whatever maxConsecutiveFailures is);                        *)
(*      getUnhealthyConnections() = exactly the monitored ids with >= 2.                                                  *)
(*  P4  Unhealthy only after MORE than max consecutive failures, Critical only at exactly max (>= 2).                     *)
(*  P5  recovery (action property Recovery): activity => Healthy, count 0, lastActivity = now; a success steps the count  *)
(*      down by exactly one; a failure never touches lastActivity; the totals only grow, by one per recorded op.          *)
(*  P6  needsHeartbeat() <=> enableHeartbeat /\ now - lastActivity >= heartbeatInterval;                                   *)
(*      isTimedOut()     <=> now - lastActivity >= timeoutThreshold     (both thresholds inclusive, current config),     *)
(*      lastActivity = time of the last recordActivity, else of addConnection; timing never changes the state.           *)
(*  P7  totalSuccesses / totalFailures count exactly the recorded successes / failures since addConnection.              *)
(*  P8  operations on ids that are not monitored (never added, or removed) change nothing and create nothing;             *)
(*      an operation on one id never changes another id's health (action property Isolation).                             *)
(*  P9  every monitored connection runs under the monitor's current configuration (sequential use).                       *)
(*  P10 getOverallStats(): per-state counts = cardinalities of the per-state sets, they add up to totalConnections;       *)
(*      successRate = successes / (successes + failures), 1.0 when nothing was recorded (checked in the trace spec's      *)
(*      Match against the real object).                                                                                   *)
EXTENDS Integers, Sequences, FiniteSets, TLC
CONSTANTS Ids,      \* session ids used by the environment (a finite set of naturals)
          Cfgs,     \* sequence of configurations [hb, to, max, en]; the monitor is constructed with Cfgs[1]
          MaxOps, MaxTime,
          KeepHist, \* TRUE: maintain the ghost history (reference properties); FALSE: plain state graph (test plan)
          \* --- deviation of the real code from the strict reading of P2 (TRUE = what the code does)
          Dev_StaleState,
          \* --- realistic slips; every one of them must make TLC report a violation (self-test of the properties)
          Dev_SuccessResets, Dev_ThresholdStrict, Dev_FailureTouchesActivity, Dev_CriticalGe, Dev_AddKeepsOld,
          Dev_UnknownCreates, Dev_ActivityKeepsFailures
VARIABLES conn,  \* id -> [p present?, cf consecutiveFailures_, st state_, ok totalSuccesses_, ko totalFailures_, la lastActivity_, c config_]
          mcfg,  \* HealthMonitor::config_ (index into Cfgs)
          now, ops,
          hist   \* ghost: id -> operations since the last Add (<<>> = not monitored)
vars == <<conn, mcfg, now, ops, hist>>
CfgIds == 1..Len(Cfgs)
Absent == [p |-> FALSE, cf |-> 0, st |-> "Healthy", ok |-> 0, ko |-> 0, la |-> 0, c |-> 0]
Fresh(c, t) == [p |-> TRUE, cf |-> 0, st |-> "Healthy", ok |-> 0, ko |-> 0, la |-> t, c |-> c]
Init == /\ conn = [i \in Ids |-> Absent] /\ mcfg = 1 /\ now = 0 /\ ops = 0 /\ hist = [i \in Ids |-> <<>>]

\* ---------------------------------------------------------------- the code
\* ConnectionHealth::updateState(): the order of the tests matters (1 is Warning even when max = 1)
ImplLevel(n, max) == IF n = 0 THEN "Healthy"
                     ELSE IF n = 1 THEN "Warning"
                     ELSE IF n < max THEN "Degraded"
                     ELSE IF (IF Dev_CriticalGe THEN n >= max ELSE n = max) THEN "Critical"
                     ELSE "Unhealthy"
Eval(r) == [r EXCEPT !.st = ImplLevel(r.cf, Cfgs[r.c].max)]
Bump == ops < MaxOps /\ ops' = ops + 1
Ent(o, c) == [op |-> o, c |-> c, t |-> now]
Rec(i, o) == IF KeepHist /\ hist[i] # <<>> THEN [hist EXCEPT ![i] = Append(@, Ent(o, 0))] ELSE hist
\* an operation on an id the map does not hold: find() fails, nothing happens
Unknown(i) == IF Dev_UnknownCreates THEN [conn EXCEPT ![i] = Fresh(mcfg, now)] ELSE conn

Add(i) == /\ Bump      \* connections_[id] = make_unique<ConnectionHealth>(config_)  - replaces an existing entry
          /\ conn' = IF Dev_AddKeepsOld /\ conn[i].p THEN conn ELSE [conn EXCEPT ![i] = Fresh(mcfg, now)]
          /\ hist' = IF KeepHist THEN [hist EXCEPT ![i] = <<Ent("Add", mcfg)>>] ELSE hist
          /\ UNCHANGED <<mcfg, now>>
Remove(i) == /\ Bump /\ conn' = [conn EXCEPT ![i] = Absent] /\ hist' = [hist EXCEPT ![i] = <<>>] /\ UNCHANGED <<mcfg, now>>
Activity(i) == /\ Bump /\ UNCHANGED <<mcfg, now>> /\ hist' = Rec(i, "A")
               /\ LET r == conn[i] IN
                  conn' = IF ~r.p THEN Unknown(i)
                          ELSE IF r.cf > 0
                          THEN [conn EXCEPT ![i] = Eval([r EXCEPT !.la = now, !.cf = IF Dev_ActivityKeepsFailures THEN r.cf ELSE 0])]
                          ELSE [conn EXCEPT ![i] = [r EXCEPT !.la = now]]
Failure(i) == /\ Bump /\ UNCHANGED <<mcfg, now>> /\ hist' = Rec(i, "F")
              /\ LET r == conn[i] IN
                 conn' = IF ~r.p THEN Unknown(i)
                         ELSE [conn EXCEPT ![i] = Eval([r EXCEPT !.cf = r.cf + 1, !.ko = r.ko + 1,
                                                                 !.la = IF Dev_FailureTouchesActivity THEN now ELSE r.la])]
Success(i) == /\ Bump /\ UNCHANGED <<mcfg, now>> /\ hist' = Rec(i, "S")
              /\ LET r == conn[i] IN
                 conn' = IF ~r.p THEN Unknown(i)
                         ELSE IF r.cf > 0
                         THEN [conn EXCEPT ![i] = Eval([r EXCEPT !.ok = r.ok + 1, !.cf = IF Dev_SuccessResets THEN 0 ELSE r.cf - 1])]
                         ELSE [conn EXCEPT ![i] = [r EXCEPT !.ok = r.ok + 1]]
Tick == /\ Bump /\ now < MaxTime /\ now' = now + 1 /\ UNCHANGED <<conn, mcfg, hist>>
\* HealthMonitor::updateConfig = two steps in the code: `config_ = config` (before the lock is taken), then, under the lock,
\* ConnectionHealth::updateConfig for every entry (which stores the configuration and does NOT call updateState)
UCSetDefault(c) == mcfg' = c
UCApply(c) == /\ conn' = [i \in Ids |-> IF ~conn[i].p THEN conn[i]
                                        ELSE IF Dev_StaleState THEN [conn[i] EXCEPT !.c = c] ELSE Eval([conn[i] EXCEPT !.c = c])]
              /\ hist' = [i \in Ids |-> IF KeepHist /\ hist[i] # <<>> THEN Append(hist[i], Ent("U", c)) ELSE hist[i]]
UpdateConfig(c) == Bump /\ UCSetDefault(c) /\ UCApply(c) /\ UNCHANGED now
Next == \/ \E i \in Ids : Add(i) \/ Remove(i) \/ Activity(i) \/ Failure(i) \/ Success(i)
        \/ Tick
        \/ \E c \in CfgIds : UpdateConfig(c)
Spec == Init /\ [][Next]_vars

\* ---------------------------------------------------------------- the observables (what the accessors compute)
Present == {i \in Ids : conn[i].p}
IsHealthy(i) == conn[i].st \in {"Healthy", "Warning"}                 \* state_ <= Warning
Idle(i) == now - conn[i].la
Reached(d, limit) == IF Dev_ThresholdStrict THEN d > limit ELSE d >= limit
NeedsHb(i) == Cfgs[conn[i].c].en /\ Reached(Idle(i), Cfgs[conn[i].c].hb)
TimedOut(i) == Reached(Idle(i), Cfgs[conn[i].c].to)
UnhealthySet == {i \in Present : ~IsHealthy(i)}
HbSet == {i \in Present : NeedsHb(i)}
States == <<"Healthy", "Warning", "Degraded", "Critical", "Unhealthy">>
Count(s) == Cardinality({i \in Present : conn[i].st = s})
RECURSIVE SumOf(_, _)
SumOf(S, f) == IF S = {} THEN 0 ELSE LET x == CHOOSE y \in S : TRUE IN conn[x][f] + SumOf(S \ {x}, f)
Abs(x) == IF x < 0 THEN -x ELSE x
\* a success rate logged in parts per million (rounded) is that of ok successes out of ok + ko records
RateIs(ppm, ok, ko) == IF ok + ko = 0 THEN ppm = 1000000 ELSE Abs(ppm * (ok + ko) - 1000000 * ok) <= ok + ko

\* ---------------------------------------------------------------- the reference (over the ghost history only)
Front(h) == SubSeq(h, 1, Len(h) - 1)
Last(h) == h[Len(h)]
RefLevel(n, max) == CASE n = 0 -> "Healthy" [] n = 1 -> "Warning" [] n > 1 /\ n < max -> "Degraded"
                      [] n > 1 /\ n = max -> "Critical" [] OTHER -> "Unhealthy"
RECURSIVE RefCF(_), RefLast(_), CurCfg(_)
RefCF(h) == IF h = <<>> THEN 0
            ELSE LET n == RefCF(Front(h)) IN
                 CASE Last(h).op = "F" -> n + 1
                   [] Last(h).op = "S" -> IF n > 0 THEN n - 1 ELSE 0
                   [] Last(h).op \in {"A", "Add"} -> 0
                   [] OTHER -> n
RefLast(h) == IF Last(h).op \in {"A", "Add"} THEN Last(h).t ELSE RefLast(Front(h))
CurCfg(h) == IF Last(h).op \in {"U", "Add"} THEN Last(h).c ELSE CurCfg(Front(h))
NumOf(h, o) == Cardinality({k \in 1..Len(h) : h[k].op = o})
\* the configurations in force since the state was last evaluated (= since the last operation other than updateConfig)
LastNonU(h) == CHOOSE k \in 1..Len(h) : h[k].op # "U" /\ \A j \in (k + 1)..Len(h) : h[j].op = "U"
CfgsSinceEval(h) == {CurCfg(SubSeq(h, 1, LastNonU(h)))} \cup {h[j].c : j \in (LastNonU(h) + 1)..Len(h)}

\* ---------------------------------------------------------------- properties over the history (KeepHist = TRUE)
MonitoredIffHist == \A i \in Ids : conn[i].p <=> hist[i] # <<>>                                              \* P8
CountRef == \A i \in Present : conn[i].cf = RefCF(hist[i])                                                 \* P1
StateCurrent == \A i \in Present : conn[i].st = RefLevel(RefCF(hist[i]), Cfgs[CurCfg(hist[i])].max)        \* P2 strict
StateSinceEval == \A i \in Present : \E c \in CfgsSinceEval(hist[i]) : conn[i].st = RefLevel(RefCF(hist[i]), Cfgs[c].max) \* P2 weak
HealthyIff == \A i \in Present : IsHealthy(i) <=> RefCF(hist[i]) <= 1                                      \* P3
UnhealthyListRef == UnhealthySet = {i \in Ids : hist[i] # <<>> /\ RefCF(hist[i]) >= 2}                     \* P3
UnhealthyOnlyBeyondMax == \A i \in Present :                                                                \* P4
    /\ conn[i].st = "Unhealthy" => \E c \in CfgsSinceEval(hist[i]) : RefCF(hist[i]) > Cfgs[c].max
    /\ conn[i].st = "Critical" => \E c \in CfgsSinceEval(hist[i]) : RefCF(hist[i]) = Cfgs[c].max
LastActivityRef == \A i \in Present : conn[i].la = RefLast(hist[i])                                         \* P6
HeartbeatRef == \A i \in Present : LET c == Cfgs[CurCfg(hist[i])] IN                                        \* P6
    /\ NeedsHb(i) <=> (c.en /\ now - RefLast(hist[i]) >= c.hb)
    /\ TimedOut(i) <=> (now - RefLast(hist[i]) >= c.to)
TotalsRef == \A i \in Present : conn[i].ok = NumOf(hist[i], "S") /\ conn[i].ko = NumOf(hist[i], "F")      \* P7
\* action properties
Grown(i) == hist[i] # <<>> /\ Len(hist'[i]) = Len(hist[i]) + 1 /\ Front(hist'[i]) = hist[i]
StepRecovery == \A i \in Ids : Grown(i) =>                                                                  \* P5
    LET o == Last(hist'[i]).op  r == conn[i]  s == conn'[i] IN
    /\ s.p /\ s.ok >= r.ok /\ s.ko >= r.ko
    /\ o = "A" => s.st = "Healthy" /\ s.cf = 0 /\ s.la = now /\ s.ok = r.ok /\ s.ko = r.ko
    /\ o = "S" => s.cf = (IF r.cf > 0 THEN r.cf - 1 ELSE 0) /\ s.ok = r.ok + 1 /\ s.ko = r.ko /\ s.la = r.la
    /\ o = "F" => s.cf = r.cf + 1 /\ s.ko = r.ko + 1 /\ s.ok = r.ok /\ s.la = r.la
    /\ o = "U" => s.cf = r.cf /\ s.ok = r.ok /\ s.ko = r.ko /\ s.la = r.la
StepIsolation == \A i \in Ids : hist'[i] = hist[i] => conn'[i] = conn[i]                                    \* P8
Recovery == [][StepRecovery]_vars
Isolation == [][StepIsolation]_vars

\* ---------------------------------------------------------------- properties of the plain state (any KeepHist)
TypeOK == /\ mcfg \in CfgIds /\ now \in 0..MaxTime /\ ops \in 0..MaxOps
          /\ \A i \in Ids : /\ ~conn[i].p => conn[i] = Absent
                            /\ conn[i].p => /\ conn[i].cf >= 0 /\ conn[i].cf <= conn[i].ko /\ conn[i].la <= now
                                            /\ conn[i].c \in CfgIds /\ conn[i].st \in {States[k] : k \in 1..5}
HealthyIffCount == \A i \in Present : IsHealthy(i) <=> conn[i].cf <= 1                                      \* P3
CountZeroIsHealthy == \A i \in Present : (conn[i].cf = 0 <=> conn[i].st = "Healthy") /\ (conn[i].cf = 1 <=> conn[i].st = "Warning")
ConfigUniform == \A i \in Present : conn[i].c = mcfg                                                        \* P9
CountsAddUp == Count("Healthy") + Count("Warning") + Count("Degraded") + Count("Critical") + Count("Unhealthy") = Cardinality(Present) \* P10
===============================================================================
