CONSTANTS Rate = 2 Burst = 3 MaxTime = 4 MaxOps = 7 MaxAsk = 3 Dev_NoCap = FALSE
SPECIFICATION Spec
INVARIANT Refines
INVARIANT Bound
INVARIANT RefusedOnlyShort
CHECK_DEADLOCK FALSE
