------------------------------ MODULE MustacheTrace ------------------------------
(* Abs oracle of X17 as a trace specification.  One event per template rendered by the real iora::parsers::Mustache    *)
(* against the data context and the partial table of MustacheData (harness/drv_mustache.cpp):                           *)
(*   {"e":"Render","lex":[lexeme names],"res":b,"tmpl":text,"ok":b,"exc":"none"|"mustache"|"other","out":text,           *)
(*    "calls":[partial names asked of the resolver],"mut":b,"again":b}                                                    *)
(* res: a resolver was supplied; mut: the data's dump differs after the render; again: a second render gave the same     *)
(* outcome.  The events are independent; a result the evaluator MustacheOps!Eval (no deviation) does not allow is         *)
(* reported as <<"BAD", line, clause>>.                                                                                  *)
EXTENDS TraceBase, MustacheOps

vars == <<l>>
Init == l = 1
Judge(ok, why) == IF ok THEN TRUE ELSE PrintT(<<"BAD", l, why>>)

\* the observation as a result record; a result that is not the Abs one but exactly the one of the engine's KNOWN deviations
\* (MustacheOps!KnownDevs) is reported as <<"OBS", name, line>> instead of BAD
EvRender == /\ IsEv("Render")
            /\ Judge(\A i \in 1..Len(Ev.lex) : Ev.lex[i] \in LexNames, "set-up: unknown lexeme")
            /\ Judge(Ev.tmpl = Text(Ev.lex), "set-up: template text is not the text of its lexemes")
            /\ LET a == Eval(Ev.lex, Ev.res, {})
                   o == [err |-> ~Ev.ok, out |-> Ev.out, calls |-> Ev.calls]
               IN /\ Judge(Ev.exc # "other", "only MustacheError may escape render")
                  /\ IF o = a THEN TRUE
                     ELSE IF o = Eval(Ev.lex, Ev.res, KnownDevs) THEN PrintT(<<"OBS", "Dev_CrlfBlankIndented", l>>)
                     ELSE /\ Judge(Ev.ok = ~a.err, IF a.err THEN "M4/M5 malformed template, unknown partial or excessive depth must be refused"
                                                             ELSE "well-formed template refused")
                          /\ Judge(Ev.ok => Ev.out = a.out, "M1-M3, M6 rendered text")
                          /\ Judge(Ev.calls = a.calls, "M5 partials resolved only when reached, in order")
            /\ Judge(~Ev.mut /\ Ev.again, "M7 data untouched, render deterministic")
EvCrashed == (IsEv("Crashed") \/ IsEv("Hung")) /\ Judge(FALSE, "crash or hang")
EvReset == IsEv("Reset")
Next == EvRender \/ EvCrashed \/ EvReset
Spec == Init /\ [][Next]_vars
=================================================================================
