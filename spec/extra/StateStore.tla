------------------------------ MODULE StateStore ------------------------------
(* X25 - iora::storage::ConcreteStateStore (include/iora/storage/concrete_state_store.hpp; tests/storage/               *)
(* iora_test_state.cpp): an in-memory string map with CASE-INSENSITIVE keys, every member function one critical         *)
(* section under one std::mutex (no persistence, no interface class: the header is self-contained).                      *)
(*                                                                                                                    *)
(* What a user relies on (Abs = a plain map from the LOWER-CASE key to the value):                                       *)
(*   S1  get(k) returns the value of the LAST set() under any spelling of k that was not followed by a remove();         *)
(*       never a value after remove(), never the value of another key; contains(k) IFF get(k) has a value.               *)
(*   S2  at most ONE entry per lower-case key: set("KeyA") then set("keya") leaves size() = 1 (the entry keeps the       *)
(*       spelling it was created with); remove(k) returns true exactly when an entry was there and removes it.          *)
(*   S3  size() / empty() / keys() describe the same map: keys() has size() elements, one per entry, no duplicates.      *)
(*   S4  findKeysByValue(v) = exactly the keys whose value equals v; findKeysMatching(m) calls m once per entry, returns  *)
(*       exactly the keys m accepted, and an exception thrown by m skips that key only.                                 *)
(*   S5  findKeysWithPrefix(p) = the keys that start with p.  Keys are case-insensitive everywhere else, so the          *)
(*       reference reads "start with" case-insensitively; the code compares the STORED spelling case-sensitively         *)
(*       (Dev_PrefixCaseSensitive, AS BUILT - reported as OBSERVATION).                                                  *)
(*   S6  every operation is atomic: concurrent use is linearizable w.r.t. the Abs map (StoreTrace.tla; the real code     *)
(*       runs under the deterministic scheduler).                                                                      *)
(*                                                                                                                    *)
(* Impl: `store` is the hash table as the code has it - a SET OF ENTRIES with the key spelling kept, looked up with the  *)
(* case-insensitive hash/equality; `abs` is the Abs map kept as a history variable.  One action per member function      *)
(* (= per critical section); each one compares what it returns with what Abs demands and raises `bad`.                  *)
(* Invariants: Unique (S2), Agree (store seen through Lower = abs), RetOk (~bad).                                        *)
(* Deviations (default FALSE; each makes TLC report a violation = self-test):                                           *)
(*   Dev_CaseSensitiveKeys   plain std::hash / == on the key          Dev_SetKeepsOld      emplace instead of operator[] =  *)
(*   Dev_RemoveExactCase     erase() only under the stored spelling   Dev_SizeStale        size() from a counter that       *)
(*   Dev_PrefixCaseSensitive (AS BUILT) see S5                                             remove() does not decrement      *)
EXTENDS Integers, Sequences, FiniteSets, TLC

CONSTANTS Spellings,          \* key spellings used (strings)
          Vals,               \* value ids
          Prefixes,           \* prefixes asked for (strings)
          Chars(_),           \* string -> tuple of character codes
          Dev_CaseSensitiveKeys, Dev_SetKeepsOld, Dev_RemoveExactCase, Dev_SizeStale, Dev_PrefixCaseSensitive

Lower(s) == [i \in 1..Len(s) |-> IF s[i] >= 65 /\ s[i] <= 90 THEN s[i] + 32 ELSE s[i]]
StartsWith(s, q) == Len(q) <= Len(s) /\ SubSeq(s, 1, Len(q)) = q
Low(k) == Lower(Chars(k))
LowKeys == {Low(k) : k \in Spellings}
None == -1
\* the matcher of the conformance driver: accepts keys that contain an 'a' (any case), THROWS on keys that start with 'b'
Accepts(lk) == \E i \in 1..Len(lk) : lk[i] = 97
Throws(lk) == Len(lk) > 0 /\ lk[1] = 98

VARIABLES store, abs, count, bad
vars == <<store, abs, count, bad>>
Init == store = {} /\ abs = [lk \in LowKeys |-> None] /\ count = 0 /\ bad = FALSE

Same(a, b) == IF Dev_CaseSensitiveKeys THEN a = b ELSE Low(a) = Low(b)
Find(k) == {e \in store : Same(e.k, k)}
Present == {lk \in LowKeys : abs[lk] # None}
Check(ret, want) == bad' = (bad \/ ret # want)
Reads == UNCHANGED <<store, abs, count>>

Set(k, v) == /\ store' = IF Find(k) = {} THEN store \cup {[k |-> k, v |-> v]}
                         ELSE IF Dev_SetKeepsOld THEN store
                         ELSE (store \ Find(k)) \cup {[k |-> e.k, v |-> v] : e \in Find(k)}          \* the spelling is kept
             /\ count' = IF Find(k) = {} THEN count + 1 ELSE count
             /\ abs' = [abs EXCEPT ![Low(k)] = v] /\ UNCHANGED bad
Get(k) == Reads /\ Check(IF Find(k) = {} THEN None ELSE (CHOOSE e \in Find(k) : TRUE).v, abs[Low(k)])
Hit(k) == IF Dev_RemoveExactCase THEN {e \in store : e.k = k} ELSE Find(k)
Remove(k) == /\ store' = store \ Hit(k)
             /\ count' = IF Hit(k) # {} /\ ~Dev_SizeStale THEN count - 1 ELSE count
             /\ abs' = [abs EXCEPT ![Low(k)] = None]
             /\ Check(Hit(k) # {}, abs[Low(k)] # None)
Contains(k) == Reads /\ Check(Find(k) # {}, abs[Low(k)] # None)
Size == Reads /\ Check(count, Cardinality(Present))
IsEmpty == Reads /\ Check(store = {}, Present = {})
Keys == Reads /\ Check(<<Cardinality(store), {Low(e.k) : e \in store}>>, <<Cardinality(Present), Present>>)
Prefix(q) == Reads /\ Check({Low(e.k) : e \in {x \in store : IF Dev_PrefixCaseSensitive THEN StartsWith(Chars(x.k), Chars(q))
                                                               ELSE StartsWith(Low(x.k), Low(q))}},
                            {lk \in Present : StartsWith(lk, Low(q))})
ByValue(v) == Reads /\ Check({Low(e.k) : e \in {x \in store : x.v = v}}, {lk \in Present : abs[lk] = v})
Matching == Reads /\ Check({Low(e.k) : e \in {x \in store : ~Throws(Low(x.k)) /\ Accepts(Low(x.k))}},
                           {lk \in Present : Accepts(lk) /\ ~Throws(lk)})
Next == \/ \E k \in Spellings, v \in Vals : Set(k, v)
        \/ \E k \in Spellings : Get(k) \/ Remove(k) \/ Contains(k)
        \/ Size \/ IsEmpty \/ Keys \/ Matching
        \/ \E q \in Prefixes : Prefix(q)
        \/ \E v \in Vals : ByValue(v)
Spec == Init /\ [][Next]_vars

Unique == \A e1, e2 \in store : Low(e1.k) = Low(e2.k) => e1 = e2
Agree == \A lk \in LowKeys : abs[lk] = (IF \E e \in store : Low(e.k) = lk THEN (CHOOSE e \in store : Low(e.k) = lk).v ELSE None)
RetOk == ~bad
=============================================================================
