------------------------------ MODULE EventTrace ------------------------------
(* Abs oracle for the EventQueue extra: every VALID pushed event is handled exactly once by each handler registered    *)
(* for it (the name handler for all; the id handler for event 2), never before its push began, an invalid event is      *)
(* never handled, and destruction returns only after everything pushed has been handled; nothing is handled afterwards. *)
EXTENDS TraceBase, FiniteSets
VARIABLES pushed, handled, closed
vars == <<l, pushed, handled, closed>>
Init == l = 1 /\ pushed = {} /\ handled = {} /\ closed = FALSE
EvBegin == IsEv("Begin") /\ pushed' = {} /\ handled' = {} /\ closed' = FALSE
EvReset == IsEv("Reset") /\ pushed' = {} /\ handled' = {} /\ closed' = FALSE
EvPushCall == IsEv("PushCall") /\ pushed' = pushed \cup {Ev.id} /\ UNCHANGED <<handled, closed>>
EvPushRet == IsEv("PushRet") /\ UNCHANGED <<pushed, handled, closed>>
EvHandled == /\ IsEv("Handled") /\ Ev.id \in pushed /\ Ev.id < 900 /\ <<Ev.id, Ev.h>> \notin handled /\ ~closed
             /\ (Ev.h = "id2") => Ev.id = 2
             /\ handled' = handled \cup {<<Ev.id, Ev.h>>} /\ UNCHANGED <<pushed, closed>>
EvLifeCall == IsEv("LifeCall") /\ UNCHANGED <<pushed, handled, closed>>
Expected == {<<i, "name">> : i \in {j \in pushed : j < 900}} \cup (IF 2 \in pushed THEN {<<2, "id2">>} ELSE {})
EvLifeRet == IsEv("LifeRet") /\ handled = Expected /\ closed' = TRUE /\ UNCHANGED <<pushed, handled>>
EvEnd == IsEv("End") /\ Ev.outcome # "stuck" /\ UNCHANGED <<pushed, handled, closed>>
Next == EvBegin \/ EvReset \/ EvPushCall \/ EvPushRet \/ EvHandled \/ EvLifeCall \/ EvLifeRet \/ EvEnd
Spec == Init /\ [][Next]_vars
===============================================================================
