------------------------------ MODULE EventQueue ------------------------------
(* Beyond the listed properties: Impl-level specification of iora::core::EventQueue (core/event_queue.hpp) at the    *)
(* same synchronisation-operation grain as BlockingQueue.tla.  Producers push events under the mutex and notify_one;  *)
(* N workers wait on the condition variable with the predicate (queue not empty or shutdown), pop under the mutex and  *)
(* dispatch outside it (copying the handler lists under the mutex first); the destructor sets shutdown under the       *)
(* mutex, notify_all, joins.  Checked: every pushed event is dispatched exactly once, in FIFO pop order, and the        *)
(* destructor returns only after the queue has been drained and every dispatch has finished.                           *)
EXTENDS Naturals, Sequences, FiniteSets, TLC
CONSTANTS Producers, Workers, Events   \* Events[p] : sequence of event ids pushed by producer p
Free == "free"
VARIABLES q, shutdown, mutex, ppc, pip, wpc, wev, parked, notified, tokens, dpc, popped, dispatched
vars == <<q, shutdown, mutex, ppc, pip, wpc, wev, parked, notified, tokens, dpc, popped, dispatched>>
Init == /\ q = <<>> /\ shutdown = FALSE /\ mutex = Free
        /\ ppc = [p \in Producers |-> IF Len(Events[p]) = 0 THEN "done" ELSE "lock"] /\ pip = [p \in Producers |-> 1]
        /\ wpc = [w \in Workers |-> "lock"] /\ wev = [w \in Workers |-> 0]
        /\ parked = {} /\ notified = {} /\ tokens = <<>> /\ dpc = "wait" /\ popped = <<>> /\ dispatched = {}
\* ---- producers: lock; push; unlock; notify_one
PLock(p) == /\ ppc[p] = "lock" /\ mutex = Free /\ mutex' = p /\ q' = Append(q, Events[p][pip[p]])
            /\ ppc' = [ppc EXCEPT ![p] = "unlock"]
            /\ UNCHANGED <<shutdown, pip, wpc, wev, parked, notified, tokens, dpc, popped, dispatched>>
PUnlock(p) == /\ ppc[p] = "unlock" /\ mutex = p /\ mutex' = Free /\ ppc' = [ppc EXCEPT ![p] = "signal"]
              /\ UNCHANGED <<q, shutdown, pip, wpc, wev, parked, notified, tokens, dpc, popped, dispatched>>
PSignal(p) == /\ ppc[p] = "signal"
              /\ LET el == parked \ notified IN tokens' = IF el = {} THEN tokens ELSE Append(tokens, el)
              /\ pip' = [pip EXCEPT ![p] = @ + 1]
              /\ ppc' = [ppc EXCEPT ![p] = IF pip[p] + 1 > Len(Events[p]) THEN "done" ELSE "lock"]
              /\ UNCHANGED <<q, shutdown, mutex, wpc, wev, parked, notified, dpc, popped, dispatched>>
\* ---- workers
Drop(w, tk) == SelectSeq([i \in 1..Len(tk) |-> tk[i] \ {w}], LAMBDA s : s # {})
HasTok(w) == \E i \in 1..Len(tokens) : w \in tokens[i]
FirstTok(w) == CHOOSE i \in 1..Len(tokens) : w \in tokens[i] /\ \A j \in 1..(i-1) : w \notin tokens[j]
RemoveAt(s, i) == SubSeq(s, 1, i-1) \o SubSeq(s, i+1, Len(s))
AfterAcquire(w) ==
    IF q # <<>> \/ shutdown
    THEN IF shutdown /\ q = <<>>
         THEN wpc' = [wpc EXCEPT ![w] = "exit_unlock"] /\ UNCHANGED <<q, wev, popped>>
         ELSE /\ wev' = [wev EXCEPT ![w] = Head(q)] /\ q' = Tail(q) /\ popped' = Append(popped, Head(q))
              /\ wpc' = [wpc EXCEPT ![w] = "unlock"]
    ELSE wpc' = [wpc EXCEPT ![w] = "cvwait"] /\ UNCHANGED <<q, wev, popped>>
WLock(w) == /\ wpc[w] = "lock" /\ mutex = Free /\ mutex' = w /\ AfterAcquire(w)
            /\ UNCHANGED <<shutdown, ppc, pip, parked, notified, tokens, dpc, dispatched>>
WCvWait(w) == /\ wpc[w] = "cvwait" /\ mutex = w /\ mutex' = Free /\ parked' = parked \cup {w} /\ wpc' = [wpc EXCEPT ![w] = "parked"]
              /\ UNCHANGED <<q, shutdown, ppc, pip, wev, notified, tokens, dpc, popped, dispatched>>
WWake(w) == /\ wpc[w] = "parked" /\ mutex = Free /\ (w \in notified \/ HasTok(w))
            /\ mutex' = w /\ parked' = parked \ {w}
            /\ IF w \in notified THEN notified' = notified \ {w} /\ tokens' = Drop(w, tokens)
                                 ELSE notified' = notified /\ tokens' = Drop(w, RemoveAt(tokens, FirstTok(w)))
            /\ AfterAcquire(w)
            /\ UNCHANGED <<shutdown, ppc, pip, dpc, dispatched>>
WUnlock(w) == /\ wpc[w] = "unlock" /\ mutex = w /\ mutex' = Free /\ wpc' = [wpc EXCEPT ![w] = "dlock"]
              /\ UNCHANGED <<q, shutdown, ppc, pip, wev, parked, notified, tokens, dpc, popped, dispatched>>
\* dispatch: copy the handler lists under the mutex, then run the handlers outside it
WDispLock(w) == /\ wpc[w] = "dlock" /\ mutex = Free /\ mutex' = w /\ wpc' = [wpc EXCEPT ![w] = "dunlock"]
                /\ UNCHANGED <<q, shutdown, ppc, pip, wev, parked, notified, tokens, dpc, popped, dispatched>>
WDispUnlock(w) == /\ wpc[w] = "dunlock" /\ mutex = w /\ mutex' = Free
                  /\ dispatched' = dispatched \cup {wev[w]} /\ wpc' = [wpc EXCEPT ![w] = "lock"]
                  /\ UNCHANGED <<q, shutdown, ppc, pip, wev, parked, notified, tokens, dpc, popped>>
WExit(w) == /\ wpc[w] = "exit_unlock" /\ mutex = w /\ mutex' = Free /\ wpc' = [wpc EXCEPT ![w] = "exited"]
            /\ UNCHANGED <<q, shutdown, ppc, pip, wev, parked, notified, tokens, dpc, popped, dispatched>>
\* ---- destructor (after the producers are done: destroying while pushing is a caller bug)
DLock == /\ dpc = "wait" /\ \A p \in Producers : ppc[p] = "done" /\ mutex = Free
         /\ mutex' = "d" /\ shutdown' = TRUE /\ dpc' = "unlock"
         /\ UNCHANGED <<q, ppc, pip, wpc, wev, parked, notified, tokens, popped, dispatched>>
DUnlock == /\ dpc = "unlock" /\ mutex = "d" /\ mutex' = Free /\ dpc' = "bcast"
           /\ UNCHANGED <<q, shutdown, ppc, pip, wpc, wev, parked, notified, tokens, popped, dispatched>>
DBcast == /\ dpc = "bcast" /\ notified' = notified \cup parked /\ dpc' = "join"
          /\ UNCHANGED <<q, shutdown, mutex, ppc, pip, wpc, wev, parked, tokens, popped, dispatched>>
DJoin == /\ dpc = "join" /\ \A w \in Workers : wpc[w] = "exited" /\ dpc' = "done"
         /\ UNCHANGED <<q, shutdown, mutex, ppc, pip, wpc, wev, parked, notified, tokens, popped, dispatched>>
Next == \/ \E p \in Producers : PLock(p) \/ PUnlock(p) \/ PSignal(p)
        \/ \E w \in Workers : WLock(w) \/ WCvWait(w) \/ WWake(w) \/ WUnlock(w) \/ WDispLock(w) \/ WDispUnlock(w) \/ WExit(w)
        \/ DLock \/ DUnlock \/ DBcast \/ DJoin
Spec == Init /\ [][Next]_vars
All == UNION {{Events[p][i] : i \in 1..Len(Events[p])} : p \in Producers}
ExactlyOnce == \A i, j \in 1..Len(popped) : i # j => popped[i] # popped[j]
DrainedAtEnd == dpc = "done" => (q = <<>> /\ dispatched = All)
NoStuck == (~ENABLED Next) => dpc = "done"
===============================================================================
