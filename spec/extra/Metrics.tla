------------------------------- MODULE Metrics -------------------------------
(* X23 (extra, beyond the listed properties): Impl specification of iora::core::MetricsRegistry / Counter / Gauge /     *)
(* Histogram (include/iora/core/metrics.hpp), one action per critical section / atomic step of the code.                *)
(*                                                                                                                    *)
(* What a user relies on (header comments + tests/core/test_metrics*.cpp):                                            *)
(*   M1 OneSeriesPerKey  counter()/gauge()/histogram() are get-or-create: the same (name, label SET) always yields the *)
(*                       same series object, whatever the order of the labels and however two first registrations race *)
(*                       (double-checked locking) - so nothing recorded through a returned reference is ever lost.      *)
(*   M2 Conservation     once the recorders are done, the exported value of every series equals what was recorded:      *)
(*                       counter = sum of the increments (integer and fractional path), gauge = last set plus the      *)
(*                       later deltas, histogram count = number of observations, sum = their sum; no lost update under  *)
(*                       any interleaving of recorders and snapshots.  A snapshot taken meanwhile shows a state the     *)
(*                       series really had (ReadAgrees).                                                                *)
(*   M3 BucketLe         boundaries are sorted; observe(v) is counted in the FIRST bucket whose upper bound is >= v     *)
(*                       (v == bound belongs to that bucket, Prometheus 'le'), above all bounds in +Inf; exported bucket *)
(*                       counts are cumulative, non-decreasing, and the +Inf one equals count (Cumulative).             *)
(*   M4 TypeStable       asking for an existing series as another type throws logic_error and changes nothing.          *)
(*   M5 LimitRespected   never more than maxSeries series: the registration that would exceed it throws runtime_error   *)
(*                       and changes nothing; existing series stay usable at the limit.                                 *)
(* Code shape: lookup fast path under a shared lock (FastCS); on a miss the slow path under the unique lock re-checks,  *)
(* enforces the limit and creates (SlowCS); the record itself is an atomic operation on the returned object with no      *)
(* lock (Apply); snapshotJson()/prometheusExport() read everything under the shared lock (ReadCS).                      *)
(* Realistic slips (each must make TLC report a violation):                                                           *)
(*   Dev_NoRecheck      the slow path does not re-check: the loser of a registration race records into an object that   *)
(*                      is not (any more) in the registry                              -> OneSeriesPerKey / Conservation*)
(*   Dev_BucketLT       upper_bound instead of lower_bound (v == bound goes one bucket up)   -> BucketLe                *)
(*   Dev_NotCumulative  the snapshot exports the per-bucket counts                            -> Cumulative              *)
(*   Dev_LimitOffByOne  size > max instead of size >= max                                     -> LimitRespected          *)
(*   Dev_LabelOrder     labels are not sorted: a permutation names another series             -> OneSeriesPerKey         *)
(*   Dev_NoTypeCheck    the fast path returns the series whatever its type                    -> TypeStable              *)
(*   Dev_CounterIntOnly value() forgets the fractional part                                   -> Conservation            *)
EXTENDS Integers, Sequences, FiniteSets, TLC
CONSTANTS Procs, Keys, MaxSeries, Bounds, MaxOps, MaxObjs,
          Dev_NoRecheck, Dev_BucketLT, Dev_NotCumulative, Dev_LimitOffByOne, Dev_LabelOrder, Dev_NoTypeCheck, Dev_CounterIntOnly
VARIABLES objs,   \* series objects ever made: [k, lo, ty, v, f, b, sum, n]  (v: counter integer part / gauge value, f: counter fractional-path part)
          map,    \* map[<<k, lo>>] = index into objs, 0 = absent
          pc,     \* pc[t] = <<"idle">> | <<"slow", op, k, lo, v>> | <<"apply", op, obj, v>>
          ghost,  \* ghost[k] = what has been recorded for key k (reference)
          nops, last
vars == <<objs, map, pc, ghost, nops, last>>

NB == Len(Bounds) + 1
Zero == [i \in 1..NB |-> 0]
TypeOf(op) == CASE op \in {"c", "cd"} -> "counter" [] op \in {"g", "gi"} -> "gauge" [] OTHER -> "hist"
\* op, value pairs a thread may record
Recs == {<<"c", 1>>, <<"c", 2>>, <<"cd", 1>>, <<"g", 1>>, <<"g", 4>>, <<"gi", 2>>, <<"gi", -1>>} \cup {<<"h", v>> : v \in {0, 1, 2, 3, 4}}
MK(k, lo) == <<k, IF Dev_LabelOrder THEN lo ELSE 0>>
MapKeys == Keys \X {0, 1}
Size == Cardinality({mk \in MapKeys : map[mk] # 0})
\* first bucket whose bound is >= v  (le); Dev_BucketLT: > v
Bidx(v) == LET S == {i \in 1..Len(Bounds) : IF Dev_BucketLT THEN v < Bounds[i] ELSE v <= Bounds[i]} IN
           IF S = {} THEN NB ELSE CHOOSE i \in S : \A j \in S : i <= j
BidxRef(v) == LET S == {i \in 1..Len(Bounds) : v <= Bounds[i]} IN IF S = {} THEN NB ELSE CHOOSE i \in S : \A j \in S : i <= j
G0 == [ty |-> "-", v |-> 0, f |-> 0, b |-> Zero, sum |-> 0, n |-> 0]
ApplyTo(r, op, v, bi) ==
    CASE op = "c"  -> [r EXCEPT !.v = @ + v]
      [] op = "cd" -> [r EXCEPT !.f = @ + v]
      [] op = "g"  -> [r EXCEPT !.v = v]
      [] op = "gi" -> [r EXCEPT !.v = @ + v]
      [] op = "h"  -> [r EXCEPT !.b[bi] = @ + 1, !.sum = @ + v, !.n = @ + 1]

Init == /\ objs = <<>> /\ map = [mk \in MapKeys |-> 0] /\ pc = [t \in Procs |-> <<"idle">>]
        /\ ghost = [k \in Keys |-> G0] /\ nops = 0
        /\ last = [act |-> "Init", t |-> "-", op |-> "-", k |-> 0, v |-> 0, ret |-> "-", bi |-> 0, read |-> <<>>, size |-> 0]
L(a, t, op, k, v, ret, bi, rd) == last' = [act |-> a, t |-> t, op |-> op, k |-> k, v |-> v, ret |-> ret, bi |-> bi, read |-> rd, size |-> Size]

\* registry lookup, fast path: shared lock, find
FastCS(t, op, k, lo, v) ==
    /\ pc[t] = <<"idle">> /\ nops < MaxOps /\ nops' = nops + 1 /\ <<op, v>> \in Recs /\ (lo = 1 => op = "c")
    /\ LET o == map[MK(k, lo)] IN
       IF o = 0 THEN pc' = [pc EXCEPT ![t] = <<"slow", op, k, lo, v>>] /\ L("FastCS", t, op, k, v, "miss", 0, <<>>)
       ELSE IF objs[o].ty # TypeOf(op) /\ ~Dev_NoTypeCheck THEN UNCHANGED pc /\ L("FastCS", t, op, k, v, "conflict", 0, <<>>)
       ELSE pc' = [pc EXCEPT ![t] = <<"apply", op, o, v>>] /\ L("FastCS", t, op, k, v, "hit", 0, <<>>)
    /\ UNCHANGED <<objs, map, ghost>>
\* slow path: unique lock, re-check, limit, create
SlowCS(t) ==
    /\ pc[t][1] = "slow"
    /\ LET op == pc[t][2]  k == pc[t][3]  lo == pc[t][4]  v == pc[t][5]  o == map[MK(k, lo)] IN
       IF o # 0 /\ ~Dev_NoRecheck
       THEN /\ IF objs[o].ty # TypeOf(op) THEN pc' = [pc EXCEPT ![t] = <<"idle">>] /\ L("SlowCS", t, op, k, v, "conflict", 0, <<>>)
               ELSE pc' = [pc EXCEPT ![t] = <<"apply", op, o, v>>] /\ L("SlowCS", t, op, k, v, "hit", 0, <<>>)
            /\ UNCHANGED <<objs, map>>
       ELSE IF (IF Dev_LimitOffByOne THEN Size > MaxSeries ELSE Size >= MaxSeries)
       THEN pc' = [pc EXCEPT ![t] = <<"idle">>] /\ L("SlowCS", t, op, k, v, "limit", 0, <<>>) /\ UNCHANGED <<objs, map>>
       ELSE /\ Len(objs) < MaxObjs
            /\ objs' = Append(objs, [G0 EXCEPT !.ty = TypeOf(op)] @@ [k |-> k, lo |-> lo])
            /\ map' = IF o = 0 THEN [map EXCEPT ![MK(k, lo)] = Len(objs) + 1] ELSE map   \* emplace on an occupied key: no-op
            /\ pc' = [pc EXCEPT ![t] = <<"apply", op, Len(objs) + 1, v>>] /\ L("SlowCS", t, op, k, v, "created", 0, <<>>)
    /\ UNCHANGED <<ghost, nops>>
\* the record: one atomic operation (fetch_add / CAS loop) on the object the lookup returned
Apply(t) ==
    /\ pc[t][1] = "apply"
    /\ LET op == pc[t][2]  o == pc[t][3]  v == pc[t][4]  k == objs[o].k IN
       /\ objs' = [objs EXCEPT ![o] = ApplyTo(@, op, v, Bidx(v))]
       /\ ghost' = [ghost EXCEPT ![k] = ApplyTo([@ EXCEPT !.ty = TypeOf(op)], op, v, BidxRef(v))]
       /\ L("Apply", t, op, k, v, "ok", IF op = "h" THEN Bidx(v) ELSE 0, <<>>)
    /\ pc' = [pc EXCEPT ![t] = <<"idle">>] /\ UNCHANGED <<map, nops>>
\* snapshotJson(): shared lock, every series
Cum(b) == [i \in 1..NB |-> IF Dev_NotCumulative THEN b[i] ELSE LET S[j \in 0..NB] == IF j = 0 THEN 0 ELSE S[j - 1] + b[j] IN S[i]]
Export(o) == [k |-> o.k, ty |-> o.ty, v |-> IF o.ty = "counter" /\ ~Dev_CounterIntOnly THEN o.v + o.f ELSE o.v, b |-> Cum(o.b), sum |-> o.sum, n |-> o.n]
ReadCS(t) ==
    /\ pc[t] = <<"idle">> /\ nops < MaxOps /\ nops' = nops + 1
    /\ L("ReadCS", t, "rd", 0, 0, "ok", 0, [mk \in {x \in MapKeys : map[x] # 0} |-> Export(objs[map[mk]])])
    /\ UNCHANGED <<objs, map, pc, ghost>>

Next == \E t \in Procs :
          \/ \E op \in {"c", "cd", "g", "gi", "h"}, k \in Keys, lo \in {0, 1}, v \in -1..4 : FastCS(t, op, k, lo, v)
          \/ SlowCS(t) \/ Apply(t) \/ ReadCS(t)
Spec == Init /\ [][Next]_vars

\* ---- properties
Quiet == \A t \in Procs : pc[t] = <<"idle">>
OneSeriesPerKey ==
    /\ \A t \in Procs : pc[t][1] = "apply" => (\E mk \in MapKeys : map[mk] = pc[t][3])        \* nobody records into a lost object
    /\ \A m1, m2 \in MapKeys : (m1 # m2 /\ map[m1] # 0 /\ map[m2] # 0) => m1[1] # m2[1]        \* one series per (name, label set)
Conservation ==
    Quiet => \A mk \in MapKeys : map[mk] # 0 =>
        LET e == Export(objs[map[mk]])  g == ghost[mk[1]] IN
        /\ e.v = g.v + g.f /\ e.sum = g.sum /\ e.n = g.n
        /\ objs[map[mk]].b = g.b
BucketLe == (last.act = "Apply" /\ last.op = "h") => last.bi = BidxRef(last.v)
Cumulative == last.act = "ReadCS" =>
    \A mk \in DOMAIN last.read : LET e == last.read[mk] IN
        e.ty = "hist" => (e.b[NB] = e.n /\ \A i \in 1..(NB - 1) : e.b[i] <= e.b[i + 1])
TypeStable == \A t \in Procs : pc[t][1] = "apply" => objs[pc[t][3]].ty = TypeOf(pc[t][2])
LimitRespected == Size <= MaxSeries
===============================================================================
