------------------------------ MODULE DnsResolver ------------------------------
(* Extra X19 (no listed property): iora::network::dns::DnsResolver (network/dns/dns_resolver.hpp) - the resolution logic    *)
(* above the transport.  This module is the GENERATOR: its terminal states are the cases (a zone served by the scripted     *)
(* DNS server of harness/drv_dnsresolver.cpp + what the caller asks), built choice by choice from small catalogues so that  *)
(* TLC enumerates every combination; the expected result of a case is computed by the evaluator DnsResolverOps.tla (the     *)
(* same operators judge the recorded executions in DnsResolverTrace.tla).  Three families of cases:                         *)
(*   kind "S"  resolveServiceDomain / resolveServiceDomainAsync on the zone (NAPTR choice x SRV sets x host addresses x      *)
(*             transport preferences): the result is the set Eval(...) sorted by (NAPTR preference, SRV priority); the        *)
(*             callback fires exactly once; a second synchronous call is answered from the cache;                             *)
(*   kind "H"  resolveHostname under each addressResolutionPolicy x which of A / AAAA exist;                                  *)
(*   kind "Q"  query / queryAsync sequences over one question with the cache: the cache is consulted before the network,     *)
(*             answers and NXDOMAIN are cached (the zone changes behind the cache's back: a hit returns the OLD answer),      *)
(*             SERVFAIL / NODATA are asked again, each call completes exactly once.                                           *)
(* What a user relies on is stated in DnsResolverOps.tla (header).  The invariants here are theorems about the documented   *)
(* behaviour, checked over every zone of the universe; each Dev_* flag (a realistic slip of the implementation, or one of   *)
(* the four ways the code is known to behave today) must break one of them - that shows the universe can tell them apart.   *)
EXTENDS Naturals, Sequences, FiniteSets, TLC, Json, DnsResolverOps
CONSTANTS EmitCases, MaxQOps,
          Full,     \* TRUE: the whole universe (43 776 service cases); FALSE: 12 312 (quick tier)
          Dev_us, Dev_snf, Dev_a4, Dev_afe, Dev_ca4, Dev_ord, Dev_np, Dev_keep, Dev_desc
F == [us |-> Dev_us, snf |-> Dev_snf, a4 |-> Dev_a4, afe |-> Dev_afe, ca4 |-> Dev_ca4, ord |-> Dev_ord, np |-> Dev_np, keep |-> Dev_keep, desc |-> Dev_desc]

D == "d.test"
N(order, pref, flags, svc, repl, us) == [order |-> order, pref |-> pref, flags |-> flags, svc |-> svc, repl |-> repl, valid |-> TRUE, us |-> us]
n1 == N(10, 20, "s", "SIP+D2U", "_sip._udp.d.test", TRUE)      \* the usual shape: the replacement is an SRV owner name
n2 == N(10, 10, "S", "SIP+D2T", "srvtcp.d.test", FALSE)        \* upper-case flag, preferred over n1, replacement without '_'
n3 == N(20, 5, "s", "SIPS+D2T", "srvtls.d.test", FALSE)        \* a higher order: ignored whenever a lower one exists
n4 == N(10, 30, "a", "sip+d2u", "h2.test", FALSE)              \* flag A, lower-case service
n5 == N(10, 1, "u", "E2U+sip", ".", FALSE)                     \* not for SIP
NaptrSets == {<<n1>>, <<n2>>, <<n3>>, <<n4>>, <<n5>>, <<n1, n2>>, <<n3, n1>>, <<n1, n4>>, <<n5, n1>>, <<n3, n2>>, <<n4, n2>>,
              <<n2, n5>>, <<n3, n4>>, <<n3, n5>>, <<n4, n5>>, <<n1, n3, n2>>}
E(n, t, rc, recs) == [n |-> n, t |-> t, rc |-> rc, recs |-> recs]
NaptrChoices == {<<>>, <<E(D, "NAPTR", "ok", <<>>)>>, <<E(D, "NAPTR", "fail", <<>>)>>} \cup {<<E(D, "NAPTR", "ok", s)>> : s \in NaptrSets}
S(prio, w, port, tgt) == [prio |-> prio, weight |-> w, port |-> port, target |-> tgt]
SrvChoices ==
  { u \o t \o s \o x :
      u \in {<<>>, <<E("_sip._udp.d.test", "SRV", "ok", <<S(10, 5, 5060, "h1.test")>>)>>,
             <<E("_sip._udp.d.test", "SRV", "ok", <<S(20, 1, 5062, "h1.test"), S(10, 2, 5061, "h2.test")>>)>>},
      t \in {<<>>, <<E("_sip._tcp.d.test", "SRV", "ok", <<S(10, 0, 5070, "h2.test")>>)>>},
      s \in {<<>>, <<E("_sips._tcp.d.test", "SRV", "ok", <<S(5, 0, 5061, "h1.test")>>)>>},
      x \in (IF Full THEN {<<>>} ELSE {}) \cup {<<E("srvtcp.d.test", "SRV", "ok", <<S(7, 0, 5080, "h1.test")>>),
                                                 E("srvtls.d.test", "SRV", "ok", <<S(3, 0, 5081, "h1.test")>>)>>} }
A4(a) == [addr |-> a]
HostOpt(h, a, a6) == {<<>>, <<E(h, "A", "ok", <<A4(a)>>)>>, <<E(h, "AAAA", "ok", <<A4(a6)>>)>>,
                      <<E(h, "A", "ok", <<A4(a)>>), E(h, "AAAA", "ok", <<A4(a6)>>)>>}
AAAAOnly(h, a6) == <<E(h, "AAAA", "ok", <<A4(a6)>>)>>
DualOnly(h, a, a6) == <<E(h, "A", "ok", <<A4(a)>>), E(h, "AAAA", "ok", <<A4(a6)>>)>>
HostChoices == { a \o b \o c : a \in HostOpt("h1.test", "10.0.0.1", "2001:db8::1") \ (IF Full THEN {} ELSE {AAAAOnly("h1.test", "2001:db8::1")}),
                               b \in {<<>>, <<E("h2.test", "A", "ok", <<A4("10.0.0.2")>>)>>},
                               c \in HostOpt(D, "10.0.0.9", "2001:db8::9") \ (IF Full THEN {} ELSE {DualOnly(D, "10.0.0.9", "2001:db8::9")}) }
PrefChoices == {<<>>, <<"SIP_UDP">>, <<"SIP_TCP", "SIP_UDP">>}
Policies == {"IPv4Only", "IPv6Only", "IPv4First", "IPv6First"}
\* kind "Q": what the server answers to (q.test, A) before / after the zone switch
QAnswers == {<<E("q.test", "A", "ok", <<A4("10.0.1.1")>>)>>, <<E("q.test", "A", "ok", <<A4("10.0.1.2")>>)>>, <<>>,
             <<E("q.test", "A", "ok", <<>>)>>, <<E("q.test", "A", "fail", <<>>)>>}
QOps == {"qs", "qa", "sw"}      \* query (sync), queryAsync, switch the zone

VARIABLES kind, stage, zone, zone2, prefs, policy, ops
vars == <<kind, stage, zone, zone2, prefs, policy, ops>>
Init == kind \in {"S", "H", "Q"} /\ stage = "start" /\ zone = <<>> /\ zone2 = <<>> /\ prefs = <<>> /\ policy = "IPv4First" /\ ops = <<>>
\* ---- kind S
PickNaptr == /\ kind = "S" /\ stage = "start" /\ \E c \in NaptrChoices : zone' = c
             /\ stage' = "srv" /\ UNCHANGED <<kind, zone2, prefs, policy, ops>>
PickSrv == /\ stage = "srv" /\ \E c \in SrvChoices : zone' = zone \o c
           /\ stage' = "host" /\ UNCHANGED <<kind, zone2, prefs, policy, ops>>
PickHosts == /\ stage = "host" /\ \E c \in HostChoices : zone' = zone \o c
             /\ stage' = "prefs" /\ UNCHANGED <<kind, zone2, prefs, policy, ops>>
PickPrefs == /\ stage = "prefs" /\ \E c \in PrefChoices : prefs' = c
             /\ stage' = "done" /\ UNCHANGED <<kind, zone, zone2, policy, ops>>
\* ---- kind H
PickHostCase == /\ kind = "H" /\ stage = "start" /\ \E c \in HostOpt("h1.test", "10.0.0.1", "2001:db8::1"), p \in Policies : zone' = c /\ policy' = p
                /\ stage' = "done" /\ UNCHANGED <<kind, zone2, prefs, ops>>
\* ---- kind Q
PickQZones == /\ kind = "Q" /\ stage = "start" /\ \E a \in QAnswers, b \in QAnswers : a # b /\ zone' = a /\ zone2' = b
              /\ stage' = "ops" /\ UNCHANGED <<kind, prefs, policy, ops>>
PickQOp == /\ stage = "ops" /\ Len(ops) < MaxQOps
           /\ \E o \in QOps : (o = "sw" => "sw" \notin Range(ops)) /\ ops' = Append(ops, o)
           /\ UNCHANGED <<kind, stage, zone, zone2, prefs, policy>>
EndQ == stage = "ops" /\ Len(ops) >= 2 /\ stage' = "done" /\ UNCHANGED <<kind, zone, zone2, prefs, policy, ops>>
Next == PickNaptr \/ PickSrv \/ PickHosts \/ PickPrefs \/ PickHostCase \/ PickQZones \/ PickQOp \/ EndQ
Spec == Init /\ [][Next]_vars

Terminal == stage = "done"
Case == [kind |-> kind, zone |-> zone, zone2 |-> zone2, prefs |-> prefs, policy |-> policy, ops |-> ops]
Emit == (EmitCases /\ Terminal) => PrintT(ToJson(Case))

\* ---- theorems about the documented behaviour (kind S, terminal states)
Doc(api) == Eval(zone, D, prefs, policy, api, NoFlags)
Impl(api) == Eval(zone, D, prefs, policy, api, F)
SCase == kind = "S" /\ Terminal
ImplIsDocumented == SCase => \A api \in {"sync", "async", "cached"} : Impl(api) = Doc(api)
SyncAsyncAgree == SCase => Impl("sync") = Impl("async")
CacheIsTransparent == SCase => Impl("cached") = Impl("sync")      \* the second call returns what the first returned
EveryTargetResolved == SCase => \A api \in {"sync", "async"} : \A t \in Impl(api) : t.addrs # <<>>
PreferencesRespected == (SCase /\ prefs # <<>> /\ Has(zone, D, "NAPTR") /\ Usable(Lookup(zone, D, "NAPTR").recs, prefs, NoFlags) # {})
                          => \A t \in Impl("sync") : t.tr \in Range(prefs)
LowestOrderOnly == (SCase /\ Success(Lookup(zone, D, "NAPTR")) /\ Usable(Lookup(zone, D, "NAPTR").recs, prefs, NoFlags) # {})
                     => \A t \in Impl("sync") : \E r \in Range(Lookup(zone, D, "NAPTR").recs) :
                           r.order = MinOrder(Lookup(zone, D, "NAPTR").recs) /\ r.pref = t.np
\* some ordering of the result satisfies the documented order (the sort exists) - and the slip's does not satisfy it
SomeOrder(ts) == CHOOSE s \in [1..Cardinality(ts) -> ts] : Range(s) = ts /\ Sorted(s, F)
OrderIsDocumented == (SCase /\ Cardinality(Impl("sync")) \in 2..3) => Sorted(SomeOrder(Impl("sync")), NoFlags)
=================================================================================
