------------------------------ MODULE HtmlOps ------------------------------
(* Pure operators shared by HtmlEscape.tla / Htmx.tla (generators, Impl) and HtmlTrace.tla (Abs oracle) - X14.   *)
(* Octets are integers 0..255, strings are sequences of octets.                                                 *)
EXTENDS Integers, Sequences, FiniteSets

Amp == 38  Lt == 60  Gt == 62  Quot == 34  Apos == 39  Pct == 37  Plus == 43  Eq == 61  SPc == 32
Specials == {Amp, Lt, Gt, Quot, Apos}
\* ---- escapeHtml: a homomorphism that rewrites EXACTLY five octets
Entity(c) == CASE c = Amp  -> <<38, 97, 109, 112, 59>>            \* &amp;
               [] c = Lt   -> <<38, 108, 116, 59>>                \* &lt;
               [] c = Gt   -> <<38, 103, 116, 59>>                \* &gt;
               [] c = Quot -> <<38, 113, 117, 111, 116, 59>>      \* &quot;
               [] c = Apos -> <<38, 35, 51, 57, 59>>              \* &#39;   (decimal, not &apos; / &#x27;)
               [] OTHER    -> <<c>>
RECURSIVE Flat(_)
Flat(ss) == IF ss = <<>> THEN <<>> ELSE Head(ss) \o Flat(Tail(ss))
Esc(s) == Flat([k \in 1..Len(s) |-> Entity(s[k])])
NoSpecial(s) == \A k \in 1..Len(s) : s[k] \notin Specials
\* the output can be placed in element content and in a single- or double-quoted attribute value: no raw < > " ' and
\* every & begins one of the five references
StartsAt(t, k, p) == k + Len(p) - 1 <= Len(t) /\ SubSeq(t, k, k + Len(p) - 1) = p
ContextSafe(t) == \A k \in 1..Len(t) : /\ t[k] \notin {Lt, Gt, Quot, Apos}
                                       /\ t[k] = Amp => \E c \in Specials : StartsAt(t, k, Entity(c))
\* reference un-escaper (what an HTML parser does with the five references): left inverse of Esc
RECURSIVE Unesc(_)
Unesc(t) == IF t = <<>> THEN <<>>
            ELSE IF Head(t) = Amp /\ \E c \in Specials : StartsAt(t, 1, Entity(c))
                 THEN LET c == CHOOSE c \in Specials : StartsAt(t, 1, Entity(c))
                      IN <<c>> \o Unesc(SubSeq(t, Len(Entity(c)) + 1, Len(t)))
                 ELSE <<Head(t)>> \o Unesc(Tail(t))

\* ---- percent coding (RFC 3986 2.1 / WHATWG application/x-www-form-urlencoded)
HexVal(c) == IF c \in 48..57 THEN c - 48 ELSE IF c \in 97..102 THEN c - 87 ELSE IF c \in 65..70 THEN c - 55 ELSE -1
HexDigit(v) == IF v < 10 THEN 48 + v ELSE 55 + v                 \* upper case
Unreserved(c) == c \in 65..90 \/ c \in 97..122 \/ c \in 48..57 \/ c \in {45, 46, 95, 126}
\* decode, lenient: "%" HEXDIG HEXDIG is replaced left to right, every other octet (a '%' that is not followed by two
\* hex digits included) stands for itself; plus = TRUE additionally reads '+' as SP (form decoding)
RECURSIVE PctDecode(_, _)
PctDecode(s, plus) ==
    IF s = <<>> THEN <<>>
    ELSE IF Head(s) = Pct /\ Len(s) >= 3 /\ HexVal(s[2]) >= 0 /\ HexVal(s[3]) >= 0
         THEN <<(HexVal(s[2]) * 16) + HexVal(s[3])>> \o PctDecode(SubSeq(s, 4, Len(s)), plus)
         ELSE <<IF plus /\ Head(s) = Plus THEN SPc ELSE Head(s)>> \o PctDecode(Tail(s), plus)
PctEncode(s, plus) == Flat([k \in 1..Len(s) |->
                             IF Unreserved(s[k]) THEN <<s[k]>>
                             ELSE IF plus /\ s[k] = SPc THEN <<Plus>>
                             ELSE <<Pct, HexDigit(s[k] \div 16), HexDigit(s[k] % 16)>>])
\* the text produced by the encoders is made of unreserved octets, "%HH" triples with upper-case hex and (form) '+'
RECURSIVE EncodedForm(_, _)
EncodedForm(t, plus) == IF t = <<>> THEN TRUE
                        ELSE IF Head(t) = Pct
                             THEN Len(t) >= 3 /\ t[2] \in (48..57) \cup (65..70) /\ t[3] \in (48..57) \cup (65..70)
                                  /\ EncodedForm(SubSeq(t, 4, Len(t)), plus)
                             ELSE (Unreserved(Head(t)) \/ (plus /\ Head(t) = Plus)) /\ EncodedForm(Tail(t), plus)

\* ---- parseFormBody: fields separated by '&' (empty ones skipped), split at the FIRST '=', both halves form-decoded,
\* a later field with the same decoded key replaces the earlier one.  The value of the body is a set of <<key, value>>.
RECURSIVE SplitOn(_, _)
SplitOn(s, c) == LET idx == {k \in 1..Len(s) : s[k] = c} IN
                 IF idx = {} THEN <<s>>
                 ELSE LET k == CHOOSE k \in idx : \A j \in idx : k <= j
                      IN <<SubSeq(s, 1, k - 1)>> \o SplitOn(SubSeq(s, k + 1, Len(s)), c)
FieldKV(f) == LET idx == {k \in 1..Len(f) : f[k] = Eq} IN
              IF idx = {} THEN <<PctDecode(f, TRUE), <<>>>>
              ELSE LET k == CHOOSE k \in idx : \A j \in idx : k <= j
                   IN <<PctDecode(SubSeq(f, 1, k - 1), TRUE), PctDecode(SubSeq(f, k + 1, Len(f)), TRUE)>>
FormBody(s) == LET fs == SplitOn(s, Amp)
                   live == {k \in 1..Len(fs) : fs[k] # <<>>}
                   kv == [k \in live |-> FieldKV(fs[k])]
               IN {kv[k] : k \in {k \in live : \A j \in live : j > k => kv[j][1] # kv[k][1]}}

\* ---- htmx response setters: what a browser does with a URL-valued header (WHATWG URL parsing, as far as the scheme
\* goes): leading C0 controls and SP are stripped, TAB / LF / CR are removed everywhere, then the value has the scheme
\* ALPHA *( ALPHA / DIGIT / "+" / "-" / "." ) if that run is followed by ':'.
HasCrLf(v) == \E k \in 1..Len(v) : v[k] \in {13, 10}
Alpha(c) == c \in 65..90 \/ c \in 97..122
SchemeChar(c) == Alpha(c) \/ c \in 48..57 \/ c \in {43, 45, 46}
LowerC(c) == IF c \in 65..90 THEN c + 32 ELSE c
RECURSIVE DropLead(_)
DropLead(v) == IF v # <<>> /\ Head(v) <= 32 THEN DropLead(Tail(v)) ELSE v
Without(v, S) == LET idx == {k \in 1..Len(v) : v[k] \notin S}
                     f[k \in 0..Len(v)] == IF k = 0 THEN <<>> ELSE IF k \in idx THEN Append(f[k - 1], v[k]) ELSE f[k - 1]
                 IN f[Len(v)]
\* scheme of v in lower case, or <<>> if v has none
BrowserScheme(v) == LET w == Without(DropLead(v), {9, 10, 13})
                        cs == {k \in 1..Len(w) : w[k] = 58}
                    IN IF cs = {} THEN <<>>
                       ELSE LET k == CHOOSE k \in cs : \A j \in cs : k <= j IN
                            IF k >= 2 /\ Alpha(w[1]) /\ \A j \in 1..(k - 1) : SchemeChar(w[j])
                            THEN [j \in 1..(k - 1) |-> LowerC(w[j])] ELSE <<>>
Dangerous == {<<106, 97, 118, 97, 115, 99, 114, 105, 112, 116>>,      \* javascript
              <<100, 97, 116, 97>>,                                   \* data
              <<118, 98, 115, 99, 114, 105, 112, 116>>}               \* vbscript
UrlValued(setter) == setter \in {"redirect", "pushurl"}
\* a value-taking setter refuses (std::invalid_argument, header NOT written) iff ...
SetterRefuses(setter, v) == HasCrLf(v) \/ (UrlValued(setter) /\ BrowserScheme(v) \in Dangerous)

SeqsUpTo(S, n) == UNION {[1..k -> S] : k \in 0..n}
=============================================================================
