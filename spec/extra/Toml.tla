------------------------------ MODULE Toml ------------------------------
(* X16 - iora::parsers::toml (include/iora/parsers/minimal_toml.hpp; tests/parsers/iora_test_minimal_toml_*.cpp,      *)
(* tests/core/iora_test_config_loader*.cpp).  Generator + Impl specification.                                          *)
(*                                                                                                                   *)
(* What a user relies on (Abs = TomlOps!Eval with F = {}, see there):                                                  *)
(*   T1  a document of the supported subset parses to EXACTLY the tree TOML gives it (scoping by [table] and           *)
(*       [[array of tables]] headers, a new element per [[..]], value types and values, escapes in basic strings);     *)
(*   T2  parse -> serialize -> parse gives the same tree (keys, types, values, empty tables) and serialize is stable;  *)
(*   T3  a key defined twice, a header given twice, a name used for two different kinds, a malformed line, an          *)
(*       invalid value are REJECTED with an exception - never accepted with some other meaning;                        *)
(*   T4  parse terminates on every input; no undefined behaviour (ASan+UBSan).                                          *)
(* The code as built departs from this in the ways listed in TomlOps (KnownDevs).  These are documented observations:  *)
(* the trace oracle accepts exactly the as-built behaviour of the deviations that MATTER for a document and reports it  *)
(* (note OBSERVATION ...); any other difference is a violation.                                                        *)
(*                                                                                                                   *)
(* States are documents: sequences of line-lexeme names over the alphabet of a family, grown one line at a time        *)
(* (action Next) while the document is still accepted by BOTH semantics; every state is a case (Emit2).                *)
(* Each Dev_* flag (default FALSE) must make TLC report a violation of Refines: the first group are the observed ones,  *)
(* the second group are hypothetical slips the check must be able to see (a differing result is then a VIOLATION):      *)
(*   Dev_HeaderNotScoped   keys after a [table] header land in the root table                                          *)
(*   Dev_AotOverwrites     a second [[r]] replaces the first element instead of appending                               *)
(*   Dev_BoolAsInt         true / false are stored as integers 1 / 0                                                    *)
EXTENDS TomlOps, Json

CONSTANTS Families,            \* family name -> [a |-> alphabet (set of lexeme names), n |-> MaxLen, nl |-> set of "final newline" flags]
          Dev_EmptyKeyHang, Dev_InsertOverwrites, Dev_DupTableMerged, Dev_EmptyHeaderIsRoot, Dev_SameLineStatements,
          Dev_NumberPrefixAccepted, Dev_LiteralStringEscapes, Dev_UnknownEscapeKept, Dev_DottedKeyLiteral, Dev_EmptyArrayBecomesAot,
          Dev_EmptyTableDropped, Dev_FloatIntegralToInt, Dev_FloatPrecision15, Dev_NestedArrayLost,
          Dev_HeaderNotScoped, Dev_AotOverwrites, Dev_BoolAsInt

VARIABLES fam, lex, nl
vars == <<fam, lex, nl>>

On(b, name) == IF b THEN {name} ELSE {}
F == On(Dev_EmptyKeyHang, "EmptyKeyHang") \cup On(Dev_InsertOverwrites, "InsertOverwrites") \cup On(Dev_DupTableMerged, "DupTableMerged")
     \cup On(Dev_EmptyHeaderIsRoot, "EmptyHeaderIsRoot") \cup On(Dev_SameLineStatements, "SameLineStatements")
     \cup On(Dev_NumberPrefixAccepted, "NumberPrefixAccepted") \cup On(Dev_LiteralStringEscapes, "LiteralStringEscapes")
     \cup On(Dev_UnknownEscapeKept, "UnknownEscapeKept") \cup On(Dev_DottedKeyLiteral, "DottedKeyLiteral")
     \cup On(Dev_EmptyArrayBecomesAot, "EmptyArrayBecomesAot") \cup On(Dev_EmptyTableDropped, "EmptyTableDropped")
     \cup On(Dev_FloatIntegralToInt, "FloatIntegralToInt") \cup On(Dev_FloatPrecision15, "FloatPrecision15")
     \cup On(Dev_NestedArrayLost, "NestedArrayLost")

\* the hypothetical slips are transformations of the result (they are not part of TomlOps: the oracle must not know them)
Slip(r) == LET unscope(e) == IF Dev_HeaderNotScoped /\ Len(e) = 3 /\ e[1] = "t" /\ e[3] # "{}" THEN <<e[2], e[3]>> ELSE e
               boolint(e) == IF Dev_BoolAsInt /\ Last(e) = "b:true" THEN [e EXCEPT ![Len(e)] = "i:1"] ELSE e
               keep(e) == ~(Dev_AotOverwrites /\ e[1] = "r" /\ Len(e) >= 2 /\ e[2] = "#1")
               tr(t) == {boolint(unscope(e)) : e \in {e \in t : keep(e)}}
           IN [r EXCEPT !.t1 = tr(r.t1), !.t2 = tr(r.t2)]
Impl == Slip(Eval(lex, F))

Init == fam \in DOMAIN Families /\ lex = <<>> /\ nl \in Families[fam].nl
\* a document the as-built semantics has given up on (rejected / hangs) is a case but is not extended (a rejected document
\* stays rejected in both semantics, see AbsLaws); an unterminated construct ends the document
Closed(ls) == \/ Eval(ls, KnownDevs).p1 # "ok"
              \/ \E j \in 1..Len(ls) : Lx[ls[j]].k = "open"
Next == /\ Len(lex) < Families[fam].n /\ ~Closed(lex)
        /\ \E x \in Families[fam].a : lex' = Append(lex, x)
        /\ UNCHANGED <<fam, nl>>
Spec == Init /\ [][Next]_vars

Refines == Impl \in Allowed(lex)
\* laws of the Abs semantics, checked on every generated document
\*   RoundTripLaw  in the Abs semantics the round trip is the identity
\*   Monotone      a document rejected by TOML stays rejected however it is continued (so pruning loses nothing)
AbsLaws == LET a == Eval(lex, {}) IN
           /\ a.p1 = "ok" => (a.p2 = "ok" /\ a.t2 = a.t1)
           /\ a.p1 # "hang"
           /\ (Len(lex) > 0 /\ Eval(Front(lex), {}).p1 = "rej") => a.p1 = "rej"
\* every state is printed as a case: the Abs result and the as-built prediction with the deviations that matter
SetSeq(S) == LET RECURSIVE R(_)
                 R(T) == IF T = {} THEN <<>> ELSE LET x == CHOOSE x \in T : TRUE IN <<x>> \o R(T \ {x})
             IN R(S)
Emit2 == LET a == Eval(lex, {})
             b == Eval(lex, KnownDevs)
         IN PrintT(ToJson([fam |-> fam, lex |-> lex, nl |-> nl, p1 |-> a.p1, t1 |-> SetSeq(a.t1), p2 |-> a.p2,
                           bp1 |-> b.p1, bp2 |-> b.p2, dev |-> SetSeq(IF b \in Allowed(lex) THEN {} ELSE Matters(lex)),
                           unsup |-> Unsupported(lex)]))
Tables == [lexemes |-> [x \in LexNames |-> [k |-> Lx[x].k, key |-> Lx[x].key, path |-> Lx[x].path, val |-> Lx[x].val, txt |-> Lx[x].txt]]]
=============================================================================
