------------------------------ MODULE StateMachine ------------------------------
(* X05 (extra, beyond the listed properties): Impl specification of iora::core::StateMachine<State, Event, Context>   *)
(* (include/iora/core/state_machine.hpp), one action per critical section of the code, for an arbitrary transition     *)
(* table given as a constant (the same table is built on the real class by harness/drv_s_statemachine.cpp).            *)
(*                                                                                                                    *)
(* What a user relies on (header comments + tests/core/iora_test_state_machine.cpp):                                   *)
(*   P1 FirstMatchWins   processEvent(e) in state s takes the FIRST rule, in the order the rules were added to the     *)
(*                       builder, with from = s, event = e whose guard is absent or returns true ("multiple guards -   *)
(*                       insertion order"); guards are evaluated lazily in that order, none after the match.           *)
(*   P2 NoMatchNoEffect  without such a rule processEvent returns false, the state is unchanged and no exit / action / *)
(*                       enter / observer callback runs ("invalid transition").                                        *)
(*   P3 CallbackOrder    a transition runs: every onExit(from) in registration order, the rule's action, THEN the      *)
(*                       state changes, every onEnter(to), onAnyTransition(from, e, to).  Callbacks before the commit  *)
(*                       see currentState() = from, those after it see to.  A self-transition runs exit and enter.     *)
(*   P4 ReturnValue      processEvent returns true iff its FIRST leg matched; the result of a thenEvent leg is ignored.*)
(*   P5 ThenEvent        after a transition whose rule has thenEvent(f) the same thread processes f (with the same     *)
(*                       context) after releasing the mutex, as an ordinary processEvent - "only after" the first leg  *)
(*                       completed, observer called per leg.                                                           *)
(*   P6 Force            forceState(n) runs every onExitForce(current), sets the state, runs every onEnterForce(n) -   *)
(*                       never a regular onEnter/onExit/action/observer, never a guard; works for any n.               *)
(*   P7 Atomicity        ("mutex-protected transitions") the callbacks of one leg / one forceState are never           *)
(*                       interleaved with those of another thread, and every leg starts from the state the previous    *)
(*                       one committed (Chain): the sequence of committed steps is a path.                             *)
(*   P8 AtomicRead       currentState() / isInState() never block and return a state that was current at some instant  *)
(*                       of the call (a value committed by a leg or a forceState, or the initial state).               *)
(*   OBSERVATION Obs_ThenNotAtomic: the two legs of a compound transition are separate critical sections: another      *)
(*                       thread's transition can slip in between and the follow-up is then processed in a different    *)
(*                       state - possibly dropped without any sign (CompoundAtomic is NOT an invariant).               *)
(*   OBSERVATION (re-entrancy, in StateMachineTrace.tla): processEvent / forceState called from inside any callback     *)
(*                       locks the non-recursive mutex again: the thread deadlocks with itself.                         *)
(* Realistic slips (each must make TLC report a violation):                                                            *)
(*   Dev_LastMatchWins      the last passing candidate is taken (e.g. unstable sort / reversed scan) -> FirstMatchWins *)
(*   Dev_EvalAllGuards      every candidate's guard is called                                        -> LazyGuards     *)
(*   Dev_CommitAfterEnter   the state is stored after the onEnter callbacks                          -> CallbackOrder  *)
(*   Dev_NoMatchExits       onExit runs before the match is known                                    -> NoMatchNoEffect*)
(*   Dev_ReturnLastLeg      the result of the thenEvent leg is returned                              -> ReturnValue    *)
(*   Dev_ForceFiresRegular  forceState fires the regular onExit/onEnter                              -> ForceOnly      *)
(*   Dev_StaleState         the current state is read before the mutex is taken                      -> Chain          *)
(*   Dev_FollowUpUnderLock  the follow-up is processed while the mutex is still held                 -> NoSelfDeadlock *)
EXTENDS Naturals, Sequences, FiniteSets, TLC
CONSTANTS Procs, States, Events, GuardVecs,   \* GuardVecs: set of sets of guard ids that return true
          InitState,
          Rules,      \* sequence (insertion order) of [from, ev, to, g (0 = no guard), then (0 = none), act (BOOLEAN)]
          OnEnter, OnExit, ForceEnter, ForceExit,   \* sequences of states (registration order, one entry per callback)
          HasAny, MaxOps,
          Dev_LastMatchWins, Dev_EvalAllGuards, Dev_CommitAfterEnter, Dev_NoMatchExits, Dev_ReturnLastLeg,
          Dev_ForceFiresRegular, Dev_StaleState, Dev_FollowUpUnderLock
VARIABLES state, mutex, pc, ret, nops, hist, last
vars == <<state, mutex, pc, ret, nops, hist, last>>
\* pc[t]: <<"idle">> | <<"stale", ev, gv, s>> (Dev_StaleState: state read, lock pending) | <<"follow", ev, gv>> | <<"stuck">>
\* ret[t]: result of t's first leg;  hist: ghost sequence of committed steps [from, to, t]

RuleIds == 1..Len(Rules)
Cands(s, e) == SelectSeq([i \in RuleIds |-> i], LAMBDA i : Rules[i].from = s /\ Rules[i].ev = e)
Pass(r, gv) == Rules[r].g = 0 \/ Rules[r].g \in gv
Idx(seq, s) == SelectSeq([i \in 1..Len(seq) |-> i], LAMBDA i : seq[i] = s)   \* callbacks registered for state s, in order
Cb(k, i, cur) == [k |-> k, i |-> i, cur |-> cur]
CbSeq(k, idxs, cur) == [j \in 1..Len(idxs) |-> Cb(k, idxs[j], cur)]
Proj(seq) == [j \in 1..Len(seq) |-> seq[j].i]

\* the scan of the candidates as the code does it: <<guards evaluated, matched rule or 0>>
RECURSIVE Scan(_, _, _, _)
Scan(c, gv, evald, best) ==
    IF c = <<>> THEN <<evald, best>>
    ELSE LET r == Head(c)
             ev2 == IF Rules[r].g = 0 THEN evald ELSE Append(evald, r) IN
         IF Pass(r, gv)
         THEN IF Dev_LastMatchWins \/ (Dev_EvalAllGuards /\ best = 0) THEN Scan(Tail(c), gv, ev2, IF Dev_LastMatchWins \/ best = 0 THEN r ELSE best)
              ELSE IF best = 0 THEN <<ev2, r>> ELSE <<ev2, best>>
         ELSE Scan(Tail(c), gv, ev2, best)

\* one leg of processEvent executed in state s: [rule, evald, log (callback sequence with the state each one sees), to]
Leg(s, e, gv) ==
    LET sc == Scan(Cands(s, e), gv, <<>>, 0)
        r == sc[2]
        guards == CbSeq("guard", sc[1], s) IN
    IF r = 0
    THEN [rule |-> 0, evald |-> sc[1], to |-> s,
          log |-> guards \o (IF Dev_NoMatchExits THEN CbSeq("exit", Idx(OnExit, s), s) ELSE <<>>)]
    ELSE LET to == Rules[r].to
             seenByEnter == IF Dev_CommitAfterEnter THEN s ELSE to IN
         [rule |-> r, evald |-> sc[1], to |-> to,
          log |-> guards \o CbSeq("exit", Idx(OnExit, s), s)
                         \o (IF Rules[r].act THEN <<Cb("action", r, s)>> ELSE <<>>)
                         \o CbSeq("enter", Idx(OnEnter, to), seenByEnter)
                         \o (IF HasAny THEN <<Cb("any", r, to)>> ELSE <<>>)]

Init == /\ state = InitState /\ mutex = "-" /\ pc = [t \in Procs |-> <<"idle">>] /\ ret = [t \in Procs |-> FALSE]
        /\ nops = 0 /\ hist = <<>>
        /\ last = [act |-> "Init", t |-> "-", ev |-> 0, gv |-> {}, from |-> InitState, first |-> TRUE, leg |-> Leg(InitState, 0, {}), rb |-> FALSE, done |-> FALSE]

DoLeg(t, e, gv, s, first) ==
    \E lg \in {Leg(s, e, gv)} :        \* (bound once: TLC would re-evaluate a LET definition at every use)
    LET follow == lg.rule # 0 /\ Rules[lg.rule].then # 0 IN
    /\ state' = lg.to
    /\ hist' = IF lg.rule # 0 THEN Append(hist, [from |-> s, to |-> lg.to, t |-> t]) ELSE hist
    /\ ret' = [ret EXCEPT ![t] = IF first \/ Dev_ReturnLastLeg THEN lg.rule # 0 ELSE @]
    /\ pc' = [pc EXCEPT ![t] = IF follow THEN (IF Dev_FollowUpUnderLock THEN <<"stuck">> ELSE <<"follow", Rules[lg.rule].then, gv>>) ELSE <<"idle">>]
    /\ mutex' = IF follow /\ Dev_FollowUpUnderLock THEN t ELSE "-"
    /\ last' = [act |-> "FireCS", t |-> t, ev |-> e, gv |-> gv, from |-> s, first |-> first, leg |-> lg,
                rb |-> ret[t], done |-> ~follow]

\* processEvent(e): lock; read state; scan; callbacks; commit; unlock          (one critical section)
FireCS(t, e, gv) ==
    /\ ~Dev_StaleState /\ pc[t] = <<"idle">> /\ mutex = "-" /\ nops < MaxOps /\ nops' = nops + 1
    /\ DoLeg(t, e, gv, state, TRUE)
\* the thenEvent leg: a second critical section of the same call
FollowCS(t) ==
    /\ pc[t][1] = "follow" /\ mutex = "-" /\ UNCHANGED nops
    /\ DoLeg(t, pc[t][2], pc[t][3], state, FALSE)
\* Dev_StaleState: the state is read before the lock is taken
ReadStale(t, e, gv) ==
    /\ Dev_StaleState /\ pc[t] = <<"idle">> /\ nops < MaxOps /\ nops' = nops + 1
    /\ pc' = [pc EXCEPT ![t] = <<"stale", e, gv, state>>]
    /\ last' = [last EXCEPT !.act = "ReadStale", !.t = t]
    /\ UNCHANGED <<state, mutex, ret, hist>>
FireStaleCS(t) ==
    /\ pc[t][1] = "stale" /\ mutex = "-" /\ UNCHANGED nops
    /\ DoLeg(t, pc[t][2], pc[t][3], pc[t][4], TRUE)
\* forceState(n): lock; onExitForce(current); store; onEnterForce(n); unlock
ForceCS(t, n) ==
    /\ pc[t] = <<"idle">> /\ mutex = "-" /\ nops < MaxOps /\ nops' = nops + 1
    /\ state' = n /\ hist' = Append(hist, [from |-> state, to |-> n, t |-> t])
    /\ last' = [act |-> "ForceCS", t |-> t, ev |-> 0, gv |-> {}, from |-> state, first |-> TRUE, rb |-> FALSE, done |-> TRUE,
                leg |-> [rule |-> 0, evald |-> <<>>, to |-> n,
                         log |-> CbSeq("fexit", Idx(ForceExit, state), state)
                                 \o (IF Dev_ForceFiresRegular THEN CbSeq("exit", Idx(OnExit, state), state) ELSE <<>>)
                                 \o CbSeq("fenter", Idx(ForceEnter, n), n)]]
    /\ UNCHANGED <<mutex, pc, ret>>
\* currentState(): one atomic load, no lock
Read(t) ==
    /\ pc[t] = <<"idle">> /\ nops < MaxOps /\ nops' = nops + 1
    /\ last' = [act |-> "Read", t |-> t, ev |-> 0, gv |-> {}, from |-> state, first |-> TRUE, rb |-> FALSE, done |-> TRUE,
                leg |-> [rule |-> 0, evald |-> <<>>, to |-> state, log |-> <<>>]]
    /\ UNCHANGED <<state, mutex, pc, ret, hist>>

Next == \E t \in Procs :
          \/ \E e \in Events, gv \in GuardVecs : FireCS(t, e, gv) \/ ReadStale(t, e, gv)
          \/ FollowCS(t) \/ FireStaleCS(t) \/ Read(t)
          \/ \E n \in States : ForceCS(t, n)
Spec == Init /\ [][Next]_vars

\* ---- properties (stated on the record of the step just taken and on the ghost history, independently of Scan/Leg)
Fired == last.act = "FireCS"
L == last.leg
Before(c, a, b) == \E i, j \in 1..Len(c) : i < j /\ c[i] = a /\ c[j] = b
FirstMatchWins ==
    Fired => LET c == Cands(last.from, last.ev) IN
             IF L.rule = 0 THEN \A i \in 1..Len(c) : ~Pass(c[i], last.gv)
             ELSE /\ \E i \in 1..Len(c) : c[i] = L.rule
                  /\ Pass(L.rule, last.gv)
                  /\ \A i \in 1..Len(c) : Before(c, c[i], L.rule) => ~Pass(c[i], last.gv)
LazyGuards ==      \* exactly the guarded candidates up to and including the match, in insertion order
    Fired => LET c == Cands(last.from, last.ev)
                 upto == IF L.rule = 0 THEN c ELSE SelectSeq(c, LAMBDA r : r = L.rule \/ Before(c, r, L.rule)) IN
             L.evald = SelectSeq(upto, LAMBDA r : Rules[r].g # 0)
Kinds(k) == SelectSeq(L.log, LAMBDA x : x.k = k)
NoMatchNoEffect == (Fired /\ L.rule = 0) => (L.to = last.from /\ \A i \in 1..Len(L.log) : L.log[i].k = "guard")
CallbackOrder ==
    (Fired /\ L.rule # 0) =>
        /\ L.to = Rules[L.rule].to
        /\ Proj(Kinds("exit")) = Idx(OnExit, last.from)
        /\ Proj(Kinds("enter")) = Idx(OnEnter, L.to)
        /\ Len(Kinds("action")) = (IF Rules[L.rule].act THEN 1 ELSE 0)
        /\ Len(Kinds("any")) = (IF HasAny THEN 1 ELSE 0)
        /\ \A i, j \in 1..Len(L.log) : i < j =>
              LET rank(k) == CASE k = "guard" -> 1 [] k = "exit" -> 2 [] k = "action" -> 3 [] k = "enter" -> 4 [] OTHER -> 5 IN
              rank(L.log[i].k) <= rank(L.log[j].k)
        /\ \A i \in 1..Len(L.log) : L.log[i].cur = (IF L.log[i].k \in {"enter", "any"} THEN L.to ELSE last.from)
ReturnValue == Fired => (ret[last.t] = (IF last.first THEN L.rule # 0 ELSE last.rb))   \* rb: the result the first leg decided
ForceOnly == last.act = "ForceCS" =>
        /\ Proj(Kinds("fexit")) = Idx(ForceExit, last.from)
        /\ Proj(Kinds("fenter")) = Idx(ForceEnter, L.to)
        /\ \A i \in 1..Len(L.log) : L.log[i].k \in {"fexit", "fenter"}
Chain == /\ \A i \in 2..Len(hist) : hist[i].from = hist[i - 1].to
         /\ (hist # <<>> => hist[1].from = InitState /\ hist[Len(hist)].to = state)
NoSelfDeadlock == \A t \in Procs : pc[t] # <<"stuck">>     \* "stuck": waiting for the non-recursive mutex it holds itself
\* NOT an invariant of the code as it is (Obs_ThenNotAtomic): a follow-up leg starts from the state its first leg committed
CompoundAtomic == (Fired /\ ~last.first) => (hist # <<>> /\ \E i \in 1..Len(hist) : hist[i].t = last.t /\ hist[i].to = last.from
                                             /\ \A j \in (i + 1)..Len(hist) : hist[j].t = last.t)
=================================================================================
