------------------------------ MODULE HtmlTrace ------------------------------
(* Abs oracle of X14 as a trace specification.  One event per call on the real code (harness/drv_html.cpp):            *)
(*   Esc  {in,out,out2}                escapeHtml(in), escapeHtml(escapeHtml(in))                                      *)
(*   Dec  {form,in,out}                urlDecode / formDecode                                                          *)
(*   Enc  {form,in,out,back}           urlEncode / formEncode, back = the matching decode of out                       *)
(*   Form {in,pairs}                   parseFormBody; pairs = [[key octets, value octets], ...] (iteration order)      *)
(*   Set  {setter,val,threw,exc,hdrs}  one htmx response setter on a fresh Response; hdrs = all headers afterwards     *)
(*   Insp {name,present,kc,val,htmx,boost,trig,trigv,tname,tnamev,target,targetv}   the five request inspectors         *)
(* Independent events; a result the Abs operators of HtmlOps do not allow is reported as <<"BAD", line, clause>>.       *)
EXTENDS TraceBase, HtmlOps, TLC

vars == <<l>>
Init == l = 1
Judge(ok, why) == IF ok THEN TRUE ELSE PrintT(<<"BAD", l, why>>)

EvEsc == /\ IsEv("Esc")
         /\ Judge(Ev.out = Esc(Ev.in), "H1 exactly five octets rewritten")
         /\ Judge(ContextSafe(Ev.out) /\ Unesc(Ev.out) = Ev.in, "H2 context safe and left-invertible")
         /\ Judge(Ev.out2 = Esc(Ev.out) /\ ((Ev.out2 = Ev.out) = NoSpecial(Ev.in)), "H3 idempotence rule")
EvDec == IsEv("Dec") /\ Judge(Ev.out = PctDecode(Ev.in, Ev.form), "P1 percent decoding")
EvEnc == /\ IsEv("Enc")
         /\ Judge(Ev.out = PctEncode(Ev.in, Ev.form) /\ EncodedForm(Ev.out, Ev.form), "P2 percent encoding")
         /\ Judge(Ev.back = Ev.in, "P2 decode(encode(x)) = x")
EvForm == /\ IsEv("Form")
          /\ LET ps == {Ev.pairs[k] : k \in 1..Len(Ev.pairs)} IN
             Judge(Cardinality(ps) = Len(Ev.pairs) /\ ps = FormBody(Ev.in), "F1 form body")
Key(s) == CASE s = "redirect" -> "HX-Redirect" [] s = "pushurl" -> "HX-Push-Url" [] s = "retarget" -> "HX-Retarget"
            [] s = "reswap" -> "HX-Reswap" [] s = "trigger" -> "HX-Trigger" [] OTHER -> "HX-Refresh"
EvSet == /\ IsEv("Set")
         /\ IF Ev.setter = "refresh"
            THEN Judge(~Ev.threw /\ Ev.hdrs = <<[k |-> "HX-Refresh", v |-> <<116, 114, 117, 101>>]>>, "X3 setRefresh")
            ELSE /\ Judge(HasCrLf(Ev.val) => (Ev.threw /\ Ev.hdrs = <<>>), "X1 CR/LF never written")
                 /\ Judge(Ev.threw = SetterRefuses(Ev.setter, Ev.val), "X2 refused iff CR/LF or (URL setter and dangerous scheme)")
                 /\ Judge(IF Ev.threw THEN Ev.exc = "invalid_argument" /\ Ev.hdrs = <<>>
                          ELSE Ev.hdrs = <<[k |-> Key(Ev.setter), v |-> Ev.val]>>, "X3 exactly one verbatim header or none")
EvInsp == /\ IsEv("Insp")
          /\ LET is(h) == Ev.present /\ Ev.name = h
                 t4 == <<116, 114, 117, 101>>
             IN /\ Judge(Ev.htmx = (is("HX-Request") /\ Ev.val = t4) /\ Ev.boost = (is("HX-Boosted") /\ Ev.val = t4), "X4 isHtmx / isBoost")
                /\ Judge(/\ Ev.trig = is("HX-Trigger") /\ (Ev.trig => Ev.trigv = Ev.val)
                         /\ Ev.tname = is("HX-Trigger-Name") /\ (Ev.tname => Ev.tnamev = Ev.val)
                         /\ Ev.target = is("HX-Target") /\ (Ev.target => Ev.targetv = Ev.val), "X4 optional-valued inspectors")
EvCrashed == (IsEv("Crashed") \/ IsEv("Hung")) /\ Judge(FALSE, "crash or hang")
EvReset == IsEv("Reset")
Next == EvEsc \/ EvDec \/ EvEnc \/ EvForm \/ EvSet \/ EvInsp \/ EvCrashed \/ EvReset
Spec == Init /\ [][Next]_vars
=================================================================================
