------------------------------ MODULE IpUtilsTrace ------------------------------
(* Abs oracle of X24 as a trace specification.  One event per case run on the real iora::network classes             *)
(* (harness/drv_iputils.cpp); texts are arrays of character codes, IPv4 values 4 octets, IPv6 values 8 groups ("g")    *)
(* or 16 bytes ("b", "ip", "net" of N6).  The events are independent: a result the oracle does not allow is printed    *)
(* as <<"BAD", line, clause>> (-> VIOLATION), a result that is exactly a NAMED as-built deviation as                   *)
(* <<"OBS", name, line>> (-> note OBSERVATION, the check stays green).  The evaluators are the declarative             *)
(* definitions of IpOps.tla applied to the LOGGED input - never the Impl model's prediction.                           *)
(*   P4 {in,ok,v,iv}        IPv4::parse / isValid              P6 {in,ok,g,iv}      IPv6::parse / isValid                *)
(*   F4 {v,out}             IPv4::toString                     F6 {g,out}           IPv6::toString                       *)
(*   N4 {ip,net,p,r,sr}     inNetwork(u32) / (strings)         N6 {ip,net,p,r}      IPv6::inNetwork                      *)
(*   C4 {v,priv,loop,spriv} isPrivate / isLoopback             C6 {b,loop,ll,ula,m4}                                     *)
(*   A  {in,ok,fam,str,any} IpAddress + isValidIpAddress       CI {in,ok,fam,p,str,single}  CidrNetwork::parse          *)
(*   H  {c,ip,cok,r}        CidrNetwork(c).contains(ip)        Crashed / Hung {k}   sanitizer abort, exception, no return*)
(*   RP {first,second,ok2,valid,fam,p,str}  two parse() calls on one CidrNetwork    TL {nets,ip,n,r}  TrustedNetworkList       *)
(* Named deviations (as built, see checks/X24.meta.json):                                                              *)
(*   Dev_LenientColon   an IPv6 text with a stray ':' (single ':' first or last, or ":::") is accepted as the text       *)
(*                      without it;   Dev_LenientPrefix   the CIDR prefix is read with strtoul semantics                 *)
(*   Dev_FailedParseMutates  a rejected second parse() leaves the object valid but no longer equal to the first text     *)
(*   Dev_TrustTextualHost    a trusted single IPv6 host is only found under the very text it was added with               *)
EXTENDS TraceBase, IpOps

vars == <<l>>
Init == l = 1
Bad(c) == PrintT(<<"BAD", l, c>>)
Obs(d) == PrintT(<<"OBS", d, l>>)
Judge(ok, c) == IF ok THEN TRUE ELSE Bad(c)

EvP4 == IsEv("P4") /\ LET a == Ref4(Ev.in) IN
                      Judge(Ev.ok = a.ok /\ (Ev.ok => Ev.v = a.v) /\ Ev.iv = Ev.ok /\ (Ev.ok => Fmt4(Ev.v) = Ev.in), "P4")
EvF4 == IsEv("F4") /\ Judge(Ev.out = Fmt4(Ev.v) /\ Ref4(Ev.out) = [ok |-> TRUE, v |-> Ev.v], "T4")
EvN4 == IsEv("N4") /\ Judge(Ev.p > 32 \/ (Ev.r = RefIn(Ev.ip, Ev.net, Ev.p) /\ Ev.sr = Ev.r), "N4")
EvC4 == IsEv("C4") /\ Judge(Ev.priv = RefPrivate(Ev.v) /\ Ev.loop = RefLoop4(Ev.v) /\ Ev.spriv = Ev.priv, "C4")

Stray(s) == Norm(s) # s
EvP6 == IsEv("P6") /\ LET a == Ref6(Ev.in) IN
                      IF Ev.ok = a.ok /\ (Ev.ok => Ev.g = a.g) /\ Ev.iv = Ev.ok THEN TRUE
                      ELSE IF Stray(Ev.in) /\ Ev.ok /\ Ev.iv /\ Ref6(Norm(Ev.in)) = [ok |-> TRUE, g |-> Ev.g] THEN Obs("Dev_LenientColon")
                      ELSE Bad("P6")
EvF6 == IsEv("F6") /\ Judge(Ev.out = Ref5952(Ev.g) /\ Ref6(Ev.out) = [ok |-> TRUE, g |-> Ev.g], "F6")
EvN6 == IsEv("N6") /\ Judge(Ev.p > 128 \/ Ev.r = RefIn(Ev.ip, Ev.net, Ev.p), "N6")
EvC6 == IsEv("C6") /\ Judge(/\ Ev.loop = RefLoop6(Ev.b) /\ Ev.ll = RefLinkLocal(Ev.b)
                            /\ Ev.ula = RefUla(Ev.b) /\ Ev.m4 = RefMapped(Ev.b), "C6")

AnyOf(s, a6(_)) == IF Ref4(s).ok THEN [ok |-> TRUE, fam |-> 4, str |-> Fmt4(Ref4(s).v)]
                   ELSE IF a6(s).ok THEN [ok |-> TRUE, fam |-> 6, str |-> Ref5952(a6(s).g)]
                   ELSE [ok |-> FALSE, fam |-> 0, str |-> <<>>]
SeenAny == [ok |-> Ev.ok, fam |-> IF Ev.ok THEN Ev.fam ELSE 0, str |-> Ev.str]
EvA == IsEv("A") /\ IF SeenAny = AnyOf(Ev.in, Ref6) /\ Ev.any = Ev.ok THEN TRUE
                    ELSE IF Stray(Ev.in) /\ SeenAny = AnyOf(Ev.in, Len6) /\ Ev.any = Ev.ok THEN Obs("Dev_LenientColon")
                    ELSE Bad("A")

View(c) == [ok |-> c.ok, fam |-> c.fam, p |-> c.p, str |-> IF c.ok THEN CidrText(c) ELSE <<>>,
            single |-> c.ok /\ c.p = (IF c.fam = 6 THEN 128 ELSE 32)]
SeenCidr == [ok |-> Ev.ok, fam |-> IF Ev.ok THEN Ev.fam ELSE 0, p |-> IF Ev.ok THEN Ev.p ELSE 0, str |-> Ev.str, single |-> Ev.ok /\ Ev.single]
\* which named deviation explains a leniently accepted CIDR text
DevOf(c) == IF FirstAt(c, Slash) # 0 /\ ~StrictNum(PfxPart(c)).ok THEN "Dev_LenientPrefix" ELSE "Dev_LenientColon"
EvCI == IsEv("CI") /\ IF SeenCidr = View(RefCidr(Ev.in)) THEN TRUE
                      ELSE IF SeenCidr = View(LenCidr(Ev.in)) THEN Obs(DevOf(Ev.in))
                      ELSE Bad("CI")
HasOf(c, ip, a6(_)) == [cok |-> c.ok, r |-> c.ok /\ HasWith(c, ip, a6)]
EvH == IsEv("H") /\ LET seen == [cok |-> Ev.cok, r |-> Ev.r] IN
                    IF seen = HasOf(RefCidr(Ev.c), Ev.ip, Ref6) THEN TRUE
                    ELSE IF seen = HasOf(LenCidr(Ev.c), Ev.ip, Len6)
                         THEN Obs(IF RefCidr(Ev.c) = LenCidr(Ev.c) THEN "Dev_LenientColon" ELSE DevOf(Ev.c))
                    ELSE Bad("H")
\* RP {first,second,ok2,valid,fam,p,str}: c.parse(first); ok2 = c.parse(second); then c.isValid(), family, prefixLength, toString()
ViewC(ok2, c) == [ok2 |-> ok2, valid |-> c.ok, fam |-> c.fam, p |-> c.p, str |-> IF c.ok THEN CidrText(c) ELSE <<>>]
EvRP == IsEv("RP") /\ LET seen == [ok2 |-> Ev.ok2, valid |-> Ev.valid, fam |-> IF Ev.valid THEN Ev.fam ELSE 0, p |-> IF Ev.valid THEN Ev.p ELSE 0,
                                   str |-> IF Ev.valid THEN Ev.str ELSE <<>>]
                          c1 == RefCidr(Ev.first)
                          c2 == RefCidr(Ev.second) IN
                      IF seen = (IF c2.ok THEN ViewC(TRUE, c2) ELSE ViewC(FALSE, c1)) THEN TRUE
                      ELSE IF ~Ev.ok2 /\ ~c2.ok /\ c1.ok /\ Ev.valid /\ AddrPart(Ev.str) = c1.addr THEN Obs("Dev_FailedParseMutates")
                      ELSE Bad("RP")
\* TL {nets,ip,n,r}: a fresh TrustedNetworkList, addCidr of each ','-separated text, then size() and contains(ip)
EvTL == IsEv("TL") /\ LET nets == Split(Ev.nets, Comma)
                          want == TrustHas(nets, Ev.ip)
                          byText == \A k \in TrustAccepted(nets) : HasWith(RefCidr(nets[k]), Ev.ip, Ref6)
                                                                     => (IsHost6(RefCidr(nets[k])) /\ RefCidr(nets[k]).addr # Ev.ip) IN
                      IF Ev.n = TrustSize(nets) /\ Ev.r = want THEN TRUE
                      ELSE IF Ev.n = TrustSize(nets) /\ want /\ ~Ev.r /\ byText THEN Obs("Dev_TrustTextualHost")
                      ELSE Bad("TL")
EvCrashed == (IsEv("Crashed") \/ IsEv("Hung")) /\ Bad("M")
EvReset == IsEv("Reset")
Next == EvP4 \/ EvF4 \/ EvN4 \/ EvC4 \/ EvP6 \/ EvF6 \/ EvN6 \/ EvC6 \/ EvA \/ EvCI \/ EvH \/ EvRP \/ EvTL \/ EvCrashed \/ EvReset
Spec == Init /\ [][Next]_vars
=================================================================================
