CONSTANTS FailureThreshold = 2 Timeout = 2 SuccessThreshold = 2 MinRequests = 4 MaxTime = 5 MaxRequests = 6
SPECIFICATION Spec
INVARIANT OpenRefuses
INVARIANT RefusesOnlyWhenOpen
CHECK_DEADLOCK FALSE
