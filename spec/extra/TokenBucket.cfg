CONSTANTS Rate = 1 Burst = 3 MaxTime = 5 MaxOps = 7 MaxAsk = 2 Dev_NoCap = FALSE
SPECIFICATION Spec
INVARIANT Refines
INVARIANT Bound
INVARIANT RefusedOnlyShort
CHECK_DEADLOCK FALSE
