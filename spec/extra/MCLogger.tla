---- MODULE MCLogger ----
(* exhaustive configuration of Logger.tla: 2 producers x 2 messages (p2's first one is below the level), p1 flushes,   *)
(* external handler installed, the controller clears it and shuts down.  checks/X20.py generates the other variants.   *)
EXTENDS Logger
MCLvls == [p \in Prods |-> IF p = "p1" THEN <<2, 3>> ELSE <<1, 2>>]
====
