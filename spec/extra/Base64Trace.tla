------------------------------ MODULE Base64Trace ------------------------------
(* Abs oracle of X13 as a trace specification.  One event per call on the real iora::util::Base64 / Base64Url:   *)
(*   {"e":"Enc","url":b,"in":[octets],"out":[chars],"vout":[chars]}     encode(ptr,len) and encode(vector)        *)
(*   {"e":"Dec","in":[chars],"ok":b,"out":[octets],"sok":b,"sout":[octets]}   decode and decodeToString           *)
(*   {"e":"Crashed"|"Hung","k":i}                                       sanitizer abort / signal / no return      *)
(* The events are independent, so a result the oracle does not allow does not stop the validation: it is         *)
(* reported as <<"BAD", line>> and checks/X13.py turns every BAD line into a violation.                          *)
(*   E1  out = Enc(in, url) (RFC 4648 on bits) for both overloads                                                *)
(*   D1/D2  ok <=> some octet string encodes to `in`, and then out is that octet string (AbsDecode)              *)
(*   D3  decodeToString agrees with decode                                                                       *)
(*   M1  never a crash (the driver hands over exact-size heap blocks under ASan+UBSan)                           *)
EXTENDS TraceBase, Base64Ops

vars == <<l>>
Init == l = 1
Judge(ok) == IF ok THEN TRUE ELSE PrintT(<<"BAD", l>>)
EvEnc == IsEv("Enc") /\ Judge(Ev.out = Enc(Ev.in, Ev.url) /\ Ev.vout = Ev.out)
EvDec == IsEv("Dec") /\ LET a == AbsDecode(Ev.in) IN
                        Judge(/\ Ev.ok = a.ok
                              /\ Ev.ok => Ev.out = a.out
                              /\ Ev.sok = Ev.ok
                              /\ Ev.ok => Ev.sout = Ev.out)
EvCrashed == (IsEv("Crashed") \/ IsEv("Hung")) /\ Judge(FALSE)
EvReset == IsEv("Reset")
Next == EvEnc \/ EvDec \/ EvCrashed \/ EvReset
Spec == Init /\ [][Next]_vars
=================================================================================
