------------------------------ MODULE TomlTrace ------------------------------
(* Abs oracle of X16 as a trace specification.  One event per document given to the real iora::parsers::toml            *)
(* (harness/drv_toml.cpp): parse, flatten the tree, serialize, parse again, flatten, serialize again:                    *)
(*   {"e":"Toml","lex":[line lexeme names],"nl":b,"doc":text,"p1":"ok"|"rej"|"hang","x1":exception kind,                  *)
(*    "t1":[[key,...,value],...],"ser":"ok"|"throw","p2":"ok"|"rej"|"na","t2":[...],"fix":b}                              *)
(* The events are independent.  A result that TomlOps!Allowed (TOML semantics of the supported subset) does not contain    *)
(* is reported as <<"OBS", "Dev_<name>", line>> for every deviation that matters for the document IF it is exactly the      *)
(* documented as-built behaviour (Eval with KnownDevs), and as <<"BAD", line, clause>> otherwise.                          *)
EXTENDS TraceBase, TomlOps

vars == <<l>>
Init == l = 1
Judge(ok, why) == IF ok THEN TRUE ELSE PrintT(<<"BAD", l, why>>)
ToSet(q) == {q[i] : i \in 1..Len(q)}

EvToml == /\ IsEv("Toml")
          /\ Judge(\A i \in 1..Len(Ev.lex) : Ev.lex[i] \in LexNames, "set-up: unknown lexeme")
          /\ Judge(Ev.doc = DocText(Ev.lex, Ev.nl), "set-up: document text is not the text of its lines")
          /\ Judge(Cardinality(ToSet(Ev.t1)) = Len(Ev.t1) /\ Cardinality(ToSet(Ev.t2)) = Len(Ev.t2), "set-up: duplicate entries in a flattened tree")
          /\ LET o == [p1 |-> Ev.p1, t1 |-> ToSet(Ev.t1), p2 |-> Ev.p2, t2 |-> ToSet(Ev.t2)]
                 a == Eval(Ev.lex, {})
             IN IF o \in Allowed(Ev.lex) THEN Judge(Ev.p2 = "ok" => Ev.fix, "T2 serialize is not stable on the re-parsed tree")
                ELSE IF o = Eval(Ev.lex, KnownDevs)
                THEN IF Matters(Ev.lex) = {} THEN PrintT(<<"OBS", "Dev_Unattributed", l>>)
                     ELSE \A d \in Matters(Ev.lex) : PrintT(<<"OBS", "Dev_" \o d, l>>)
                ELSE IF o.p1 = "hang" \/ o.p2 = "hang" THEN Judge(FALSE, "T4 parse does not terminate")
                ELSE IF o.p1 \notin {"ok", "rej"} THEN Judge(FALSE, "T4 crash / foreign exception")
                ELSE IF o.p1 # a.p1 THEN Judge(FALSE, IF a.p1 = "rej" THEN "T3 invalid document accepted" ELSE "T1 valid document rejected")
                ELSE IF o.t1 # a.t1 THEN Judge(FALSE, "T1 parsed tree differs from the TOML meaning")
                ELSE Judge(FALSE, "T2 round trip changes the tree")
EvCrashed == (IsEv("Crashed") \/ IsEv("Hung")) /\ Judge(FALSE, "T4 crash or hang of the driver case")
EvReset == IsEv("Reset")
Next == EvToml \/ EvCrashed \/ EvReset
Spec == Init /\ [][Next]_vars
=================================================================================
