CONSTANTS AllowUs = FALSE AllowSnf = FALSE AllowA4 = FALSE AllowAfe = FALSE AllowCa4 = FALSE
SPECIFICATION Spec
INVARIANT TraceChk
POSTCONDITION TracePost
CHECK_DEADLOCK FALSE
