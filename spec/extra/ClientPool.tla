------------------------------ MODULE ClientPool ------------------------------
(* Extra X09 (beyond the listed properties): Impl-level specification of iora::network::HttpClientPool and its RAII      *)
(* lease PooledHttpClient (network/http_client_pool.hpp).  The pool is a BlockingQueue of N pre-built clients plus an     *)
(* atomic `closed` flag of its own; a lease is (pool, client) and hands its client back in its destructor / on move      *)
(* assignment through the NON-blocking tryQueue (dropped when the queue is closed or full).                              *)
(*                                                                                                                        *)
(* What a user relies on (checked here as invariants, and on the real object by LeaseTrace.tla):                          *)
(*   Exclusive     a client is never held by two leases at once, never both held and available, never queued twice       *)
(*                 (=> at most N concurrent leases; a lease is returned at most once - a second return would duplicate)   *)
(*   Conserved     while the pool is open every client is either available or held (returned at least once: nothing is   *)
(*                 lost); after close() a returned client is dropped, never re-queued                                     *)
(*   ClosedRefuses an acquisition that BEGAN after close() had returned never succeeds, and a client given back after    *)
(*                 close() had returned is never handed out again (close() wakes the blocked acquirers: they fail)        *)
(*   FailOnly...   tryGet fails only when nothing is available (or closed); get() fails only when closed                  *)
(*   NoStuck       every blocked get()/get(timeout) is woken by a return or by close(): when nothing can move every        *)
(*                 thread has finished (programs release whatever they acquire)                                           *)
(* Waiters are served through a condition variable: wake-up order is NOT first-come-first-served (neither the code nor    *)
(* its documentation promise it); only "eventually" is specified.                                                         *)
(*                                                                                                                        *)
(* Grain: one action per critical section / decision step.  Begin = the lock-free read (or exchange) of the pool's own    *)
(* closed flag; Deq = the dequeue critical section (predicate evaluation + pop or park: parking releases the mutex          *)
(* atomically, nobody can slip in between); Wake / Timeout = the re-evaluation after a wake-up / a wait_for deadline;       *)
(* Ret = the tryQueue critical section of a return; Notify = its notify_one AFTER the unlock; QClose = the queue's close   *)
(* critical section; Bcast = its notify_all.  Condition variables as in BlockingQueue.tla: notify_one leaves a token any  *)
(* thread parked at that moment may consume, notify_all marks all parked threads.                                         *)
(* Realistic slips are CONSTANT Dev_* flags (default FALSE); each one must make TLC report a violation (self-test).        *)
EXTENDS Naturals, Sequences, FiniteSets, TLC
CONSTANTS N,                 \* pool size; clients are 1..N
          Threads, Prog,     \* Prog[t] : sequence of "get" | "getT" | "tryGet" | "rel" | "mv" | "close"
          Dev_ReturnKeepsLease,  \* returnToPool does not invalidate the lease: the client can be returned twice
          Dev_NoNotifyOnReturn,  \* a return does not notify the not-empty condition
          Dev_CloseNoWake,       \* close() sets the flags but does not notify_all
          Dev_NoClosedCheck,     \* acquisition does not look at the pool's closed flag
          Dev_CloseKeepsQueueOpen \* close() only sets the pool's flag: the queue stays open, nobody is woken

VARIABLES q, qclosed, pclosed, pc, ip, held, parked, tokens, notified,
          dropped, closeDone, late, lateOk, stale, lastRet
vars == <<q, qclosed, pclosed, pc, ip, held, parked, tokens, notified, dropped, closeDone, late, lateOk, stale, lastRet>>

Clients == 1..N
Op(t) == Prog[t][ip[t]]
IsAcq(o) == o \in {"get", "getT", "tryGet"}

Init == /\ q = [i \in 1..N |-> i] /\ qclosed = FALSE /\ pclosed = FALSE
        /\ pc = [t \in Threads |-> "idle"] /\ ip = [t \in Threads |-> 1]
        /\ held = [t \in Threads |-> <<>>]
        /\ parked = {} /\ tokens = <<>> /\ notified = {}
        /\ dropped = {} /\ closeDone = FALSE /\ late = [t \in Threads |-> FALSE] /\ lateOk = FALSE
        /\ stale = {}      \* clients given back after close() had returned: they must never be handed out again
        /\ lastRet = [t |-> "-", op |-> "-", ok |-> TRUE]   \* the call that returned in the step just taken

Return(t, ok) == /\ ip' = [ip EXCEPT ![t] = @ + 1] /\ pc' = [pc EXCEPT ![t] = "idle"]
                 /\ lastRet' = [t |-> t, op |-> Op(t), ok |-> ok]

None == [t |-> "-", op |-> "-", ok |-> TRUE]
NoRet == UNCHANGED ip /\ lastRet' = None        \* a step inside a call: nothing returned in this step

Drop(t, tk) == SelectSeq([i \in 1..Len(tk) |-> tk[i] \ {t}], LAMBDA s : s # {})
HasTok(t) == \E i \in 1..Len(tokens) : t \in tokens[i]
FirstTok(t) == CHOOSE i \in 1..Len(tokens) : t \in tokens[i] /\ \A j \in 1..(i-1) : t \notin tokens[j]
RemoveAt(s, i) == SubSeq(s, 1, i-1) \o SubSeq(s, i+1, Len(s))

\* ---- the lock-free first step of every call
Begin(t) ==
    /\ pc[t] = "idle" /\ ip[t] <= Len(Prog[t])
    /\ LET o == Op(t) IN
       CASE IsAcq(o) ->
              /\ late' = [late EXCEPT ![t] = closeDone]
              /\ IF pclosed /\ ~Dev_NoClosedCheck
                 THEN Return(t, FALSE)
                 ELSE pc' = [pc EXCEPT ![t] = "deq"] /\ NoRet
              /\ UNCHANGED <<pclosed, closeDone>>
         [] o = "rel" ->
              /\ IF held[t] = <<>> THEN Return(t, TRUE) ELSE pc' = [pc EXCEPT ![t] = "ret"] /\ NoRet
              /\ UNCHANGED <<late, pclosed, closeDone>>
         [] o = "mv" ->
              /\ IF Len(held[t]) < 2 THEN Return(t, TRUE) ELSE pc' = [pc EXCEPT ![t] = "ret"] /\ NoRet
              /\ UNCHANGED <<late, pclosed, closeDone>>
         [] o = "close" ->
              /\ IF pclosed THEN Return(t, TRUE) /\ UNCHANGED <<pclosed, closeDone>>
                 ELSE IF Dev_CloseKeepsQueueOpen THEN pclosed' = TRUE /\ closeDone' = TRUE /\ Return(t, TRUE)
                 ELSE pclosed' = TRUE /\ pc' = [pc EXCEPT ![t] = "qclose"] /\ NoRet /\ UNCHANGED closeDone
              /\ UNCHANGED late
    /\ UNCHANGED <<q, qclosed, held, parked, tokens, notified, dropped, lateOk, stale>>

\* ---- what runs with the queue mutex held inside dequeue / dequeue(timeout) / tryDequeue
\* timedOut: wait_for ended by its deadline - the predicate's value decides, no further wait
Take(t) == /\ held' = [held EXCEPT ![t] = Append(@, Head(q))] /\ q' = Tail(q)
           /\ lateOk' = (lateOk \/ late[t] \/ Head(q) \in stale)
           /\ Return(t, TRUE)
AfterAcquire(t, timedOut) ==
    IF q # <<>> THEN Take(t) /\ UNCHANGED parked
    ELSE IF Op(t) = "tryGet" \/ qclosed \/ timedOut
         THEN Return(t, FALSE) /\ UNCHANGED <<q, held, lateOk, parked>>
         ELSE /\ parked' = parked \cup {t} /\ pc' = [pc EXCEPT ![t] = "parked"]
              /\ UNCHANGED <<q, held, lateOk>> /\ NoRet

Deq(t) == /\ pc[t] = "deq"
          /\ AfterAcquire(t, FALSE)
          /\ UNCHANGED <<qclosed, pclosed, tokens, notified, dropped, closeDone, late, stale>>

Wake(t) == /\ pc[t] = "parked" /\ (t \in notified \/ HasTok(t))
           /\ IF t \in notified THEN notified' = notified \ {t} /\ tokens' = Drop(t, tokens)
                                ELSE notified' = notified /\ tokens' = Drop(t, RemoveAt(tokens, FirstTok(t)))
           /\ IF q # <<>> THEN Take(t) /\ parked' = parked \ {t}
              ELSE IF qclosed THEN Return(t, FALSE) /\ parked' = parked \ {t} /\ UNCHANGED <<q, held, lateOk>>
              ELSE UNCHANGED <<q, held, lateOk, parked, pc>> /\ NoRet          \* predicate false: parks again
           /\ UNCHANGED <<qclosed, pclosed, dropped, closeDone, late, stale>>

Timeout(t) == /\ pc[t] = "parked" /\ Op(t) = "getT"
              /\ notified' = notified \ {t} /\ tokens' = Drop(t, tokens) /\ parked' = parked \ {t}
              /\ IF q # <<>> THEN Take(t) ELSE Return(t, FALSE) /\ UNCHANGED <<q, held, lateOk>>
              /\ UNCHANGED <<qclosed, pclosed, dropped, closeDone, late, stale>>

\* ---- a lease gives its client back: rel = destructor of the oldest lease; mv = oldest = std::move(newest)
Ret(t) ==
    /\ pc[t] = "ret"
    /\ LET c == Head(held[t])
           rest == IF Op(t) = "mv" THEN <<held[t][Len(held[t])]>> \o SubSeq(held[t], 2, Len(held[t]) - 1)
                   ELSE IF Dev_ReturnKeepsLease THEN Append(Tail(held[t]), c) ELSE Tail(held[t])
       IN /\ held' = [held EXCEPT ![t] = rest]
          /\ stale' = IF closeDone THEN stale \cup {c} ELSE stale
          /\ IF qclosed \/ Len(q) >= N
             THEN /\ dropped' = dropped \cup {c} /\ Return(t, TRUE) /\ UNCHANGED q
             ELSE /\ q' = Append(q, c) /\ pc' = [pc EXCEPT ![t] = "notify"] /\ UNCHANGED dropped /\ NoRet
    /\ UNCHANGED <<qclosed, pclosed, parked, tokens, notified, closeDone, late, lateOk>>

Notify(t) == /\ pc[t] = "notify"
             /\ LET el == parked \ notified IN
                tokens' = IF el = {} \/ Dev_NoNotifyOnReturn THEN tokens ELSE Append(tokens, el)
             /\ Return(t, TRUE)
             /\ UNCHANGED <<q, qclosed, pclosed, held, parked, notified, dropped, closeDone, late, lateOk, stale>>

\* ---- close(): pool flag (in Begin), then the queue's close critical section, then notify_all
QClose(t) == /\ pc[t] = "qclose" /\ qclosed' = TRUE /\ pc' = [pc EXCEPT ![t] = "bcast"]
             /\ NoRet /\ UNCHANGED <<q, pclosed, held, parked, tokens, notified, dropped, closeDone, late, lateOk, stale>>
Bcast(t) == /\ pc[t] = "bcast"
            /\ notified' = IF Dev_CloseNoWake THEN notified ELSE notified \cup parked
            /\ closeDone' = TRUE /\ Return(t, TRUE)
            /\ UNCHANGED <<q, qclosed, pclosed, held, parked, tokens, dropped, late, lateOk, stale>>

Next == \E t \in Threads : Begin(t) \/ Deq(t) \/ Wake(t) \/ Timeout(t) \/ Ret(t) \/ Notify(t) \/ QClose(t) \/ Bcast(t)
Spec == Init /\ [][Next]_vars

\* ---- properties
Range(s) == {s[i] : i \in 1..Len(s)}
HeldBy(t) == Range(held[t])
AllHeld == UNION {HeldBy(t) : t \in Threads}
Leases == LET RECURSIVE Sum(_) Sum(S) == IF S = {} THEN 0 ELSE LET x == CHOOSE y \in S : TRUE IN Len(held[x]) + Sum(S \ {x})
          IN Sum(Threads)
\* a client is in exactly one place: queued once, or held by one lease, or dropped after close
Exclusive == /\ Len(q) = Cardinality(Range(q))
             /\ Leases = Cardinality(AllHeld)
             /\ Range(q) \cap AllHeld = {}
             /\ Leases <= N
Conserved == /\ Range(q) \cup AllHeld \cup dropped = Clients
             /\ (dropped # {} => qclosed)
             /\ dropped \cap Range(q) = {}
ClosedRefuses == ~lateOk
\* (the failing step leaves q unchanged, so q here is the queue the decision saw)
FailOnlyWhenEmptyOrClosed == (lastRet.t # "-" /\ ~lastRet.ok /\ IsAcq(lastRet.op)) =>
                                (pclosed \/ (lastRet.op # "get" /\ q = <<>>))
Done(t) == pc[t] = "idle" /\ ip[t] > Len(Prog[t])
NoStuck == (~ENABLED Next) => \A t \in Threads : Done(t)
===============================================================================
