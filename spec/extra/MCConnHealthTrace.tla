------------------------------ MODULE MCConnHealthTrace ------------------------------
(* ConnHealthTrace with the configurations of MCConnHealth.tla (cfg files cannot hold records). *)
EXTENDS ConnHealthTrace
MCCfgs3 == << [hb |-> 2, to |-> 4, max |-> 3, en |-> TRUE],
              [hb |-> 1, to |-> 3, max |-> 2, en |-> TRUE],
              [hb |-> 3, to |-> 2, max |-> 1, en |-> FALSE] >>
======================================================================================
