CONSTANTS Procs = {"a", "b"} Types = {1, 2} Mods = {"m1", "m2"} Handles = {1, 2} MaxObjs = 3 MaxOps = 5
  Dev_SetReplaces = FALSE Dev_CheckThenInsert = FALSE Dev_ModuleFirstOnly = FALSE Dev_ModuleAlsoCore = FALSE
  Dev_WeakEntry = FALSE Dev_NoEmptyCheck = FALSE Dev_UnregAlwaysTrue = FALSE Obs_DtorUnderLock = TRUE
SPECIFICATION Spec
INVARIANT GetAgrees
INVARIANT NoReplace
INVARIANT SetOkRegistered
INVARIANT NoOrphan
INVARIANT Validation
INVARIANT UnregTruth
INVARIANT ModuleExact
INVARIANT OneEntryPerImpl
INVARIANT Live
INVARIANT NoLeak
CHECK_DEADLOCK FALSE
