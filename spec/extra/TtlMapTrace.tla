------------------------------ MODULE TtlMapTrace ------------------------------
(* X07: Abs oracle for iora::util::TtlMap as a trace specification: the sequential reference TtlMapOps.tla (hit iff present  *)
(* and exp > now, re-put refreshes value + expiry + position, documented approximate-LRU eviction, exact counters), each     *)
(* operation taking effect (Lin) at one instant between Call and Ret, the sweeper as an internal step that may remove the    *)
(* expired entries at any instant (WHEN it runs is the TimerService's business, property C08) but must have run within a     *)
(* sweep interval of idle time (Settle).                                                                                    *)
(* Every event carries t = virtual time (seconds * 1000 + nanoseconds); every change of the virtual clock is followed by an   *)
(* event of the thread that caused it before any other thread runs (Tick), so `now` is exact at every Lin.                    *)
(*   Begin{max, dflt, sweep}  Tick{t}  Call{t, th, op, k, v, ttl}  Ret{t, th, op, hit, v, size, hits, misses, ev}              *)
(*   Settle{t, fair, size, hits, misses, ev}: only the sweeper has been running for three sweep intervals; fair = 1: the        *)
(*                  scheduler never let the clock jump while the sweeper's thread could run (otherwise it owes nothing yet)     *)
(*   Life{t, op}  End{outcome}                                                                                                 *)
EXTENDS TraceBase, TtlMapOps, Integers
VARIABLES lru, now, st, pend, cfg
vars == <<l, lru, now, st, pend, cfg>>
Unit == 1000
Thr == {Log[i].th : i \in {j \in 1..Len(Log) : "th" \in DOMAIN Log[j]}}
Idle == [st |-> "idle", op |-> "-", k |-> 0, v |-> 0, ttl |-> 0, hit |-> FALSE, snap |-> <<>>]
Fresh == [t \in Thr |-> Idle]
St0 == [hits |-> 0, misses |-> 0, ev |-> 0]
Cfg0 == [max |-> 0, dflt |-> 0, sweep |-> 0]
Init == l = 1 /\ lru = <<>> /\ now = 0 /\ st = St0 /\ pend = Fresh /\ cfg = Cfg0
EvBegin == IsEv("Begin") /\ lru' = <<>> /\ now' = 0 /\ st' = St0 /\ pend' = Fresh
           /\ cfg' = [max |-> Ev.max, dflt |-> Ev.dflt * Unit, sweep |-> Ev.sweep * Unit]
EvReset == IsEv("Reset") /\ lru' = <<>> /\ now' = 0 /\ st' = St0 /\ pend' = Fresh /\ cfg' = Cfg0
Time == Ev.t >= now /\ now' = Ev.t
EvTick == IsEv("Tick") /\ Time /\ UNCHANGED <<lru, st, pend, cfg>>
EvLife == IsEv("Life") /\ Time /\ UNCHANGED <<lru, st, pend, cfg>>
EvCall == /\ IsEv("Call") /\ Time /\ pend[Ev.th].st = "idle"
          /\ pend' = [pend EXCEPT ![Ev.th] = [Idle EXCEPT !.st = "called", !.op = Ev.op, !.k = Fld("k", 0), !.v = Fld("v", 0),
                                                            !.ttl = IF Fld("ttl", 0) = 0 THEN cfg.dflt ELSE Fld("ttl", 0) * Unit]]
          /\ UNCHANGED <<lru, st, cfg>>
P(t, r) == pend' = [pend EXCEPT ![t] = r]
Lin(t) ==
    /\ pend[t].st = "called" /\ UNCHANGED <<l, now, cfg>>
    /\ LET p == pend[t] IN
       CASE p.op = "put" -> LET r == PutOp(lru, now, p.k, p.v, p.ttl, cfg.max, cfg.sweep) IN
                            /\ lru' = r[1] /\ st' = (IF r[2] # 0 THEN [st EXCEPT !.ev = @ + 1] ELSE st) /\ P(t, [p EXCEPT !.st = "lin"])
         [] p.op = "get" -> IF GetHit(lru, now, p.k)
                            THEN /\ lru' = Touch(lru, now, p.k) /\ st' = [st EXCEPT !.hits = @ + 1]
                                 /\ P(t, [p EXCEPT !.st = "lin", !.hit = TRUE, !.v = GetVal(lru, p.k)])
                            ELSE /\ st' = [st EXCEPT !.misses = @ + 1] /\ P(t, [p EXCEPT !.st = "lin", !.hit = FALSE, !.v = 0]) /\ UNCHANGED lru
         [] p.op = "inv" -> lru' = InvOp(lru, p.k) /\ P(t, [p EXCEPT !.st = "lin"]) /\ UNCHANGED st
         [] p.op = "clear" -> lru' = <<>> /\ P(t, [p EXCEPT !.st = "lin"]) /\ UNCHANGED st
         [] p.op = "stats" -> P(t, [p EXCEPT !.st = "lin", !.snap = <<Len(lru), st.hits, st.misses, st.ev>>]) /\ UNCHANGED <<lru, st>>
         [] OTHER -> FALSE
\* the sweeper: removes exactly the expired entries, at any instant (only when there is something to remove)
Sweep == /\ lru' = SweepOp(lru, now) /\ lru' # lru /\ UNCHANGED <<l, now, st, pend, cfg>>
EvRet == /\ IsEv("Ret") /\ Time /\ pend[Ev.th].st = "lin" /\ pend[Ev.th].op = Ev.op
         /\ (Ev.op = "get") => (Ev.hit = pend[Ev.th].hit /\ (Ev.hit => Ev.v = pend[Ev.th].v))
         /\ (Ev.op = "stats") => <<Ev.size, Ev.hits, Ev.misses, Ev.ev>> = pend[Ev.th].snap
         /\ P(Ev.th, Idle) /\ UNCHANGED <<lru, st, cfg>>
\* after three idle sweep intervals: nothing that has been expired for a whole interval is still there; the counters agree
EvSettle == /\ IsEv("Settle") /\ Time
            /\ (Ev.fair = 1) => \A i \in 1..Len(lru) : lru[i].exp + cfg.sweep > Ev.t
            /\ Ev.size = Len(lru) /\ Ev.hits = st.hits /\ Ev.misses = st.misses /\ Ev.ev = st.ev
            /\ UNCHANGED <<lru, st, pend, cfg>>
EvEnd == IsEv("End") /\ Ev.outcome = "done" /\ (\A t \in Thr : pend[t].st = "idle") /\ UNCHANGED <<lru, now, st, pend, cfg>>
Next == EvBegin \/ EvReset \/ EvTick \/ EvLife \/ EvCall \/ EvRet \/ EvSettle \/ EvEnd \/ Sweep \/ \E t \in Thr : Lin(t)
Spec == Init /\ [][Next]_vars
\* the property, on every step of every recorded execution: the size bound
SizeBound == Len(lru) <= cfg.max
================================================================================
