------------------------------ MODULE HttpAuthTrace ------------------------------
(* Abs oracle of X15 as a trace specification.  One event per request given to a handler built by the real           *)
(* iora::network::requireBasicAuth (see harness/drv_httpauth.cpp for the fields).  The events are independent:        *)
(* a result the Abs specification (HttpAuthOps) does not allow is reported as <<"BAD", line, clause>>.                *)
(*   A1 guard    verify <= 1 call and only for a credential of the grammar; the protected handler <= 1 call and only  *)
(*               after verify returned true                                                                           *)
(*   A2 split    verify received exactly (user, pass) = decoded octets split at the FIRST ':'                          *)
(*   A3 outcome  status / escaping exception as Outcome(Cred(header), verify behaviour); every 401 carries            *)
(*               WWW-Authenticate: Basic realm="<realm>" and the body "Unauthorized"; no challenge header otherwise   *)
(*   A4 realm    construction throws std::invalid_argument iff the realm is not a clean quoted-string body            *)
EXTENDS TraceBase, HttpAuthOps, TLC

vars == <<l>>
Init == l = 1
Bad(why) == PrintT(<<"BAD", l, why>>)
Judge(ok, why) == IF ok THEN TRUE ELSE Bad(why)

EvAuth == /\ IsEv("Auth")
          /\ LET c == Cred(Ev.present, Ev.hdr)
                 o == Outcome(c, Ev.vb)
             IN /\ Judge(/\ Ev.vcalls <= 1 /\ Ev.icalls <= 1
                         /\ Ev.vcalls = 1 => c.wf
                         /\ Ev.icalls = 1 => (Ev.vcalls = 1 /\ Ev.vb \in {"true", "true_ithrow"}), "A1 guard")
                /\ Judge(Ev.vcalls = 1 => (Ev.user = c.user /\ Ev.pass = c.pass), "A2 split at the first colon")
                /\ Judge(Ev.status = o.status /\ Ev.vcalls = o.vcalls /\ Ev.icalls = o.icalls /\ Ev.exc = o.exc, "A3 outcome")
                /\ Judge(IF Ev.exc = "none" /\ Ev.status = 401
                         THEN Ev.haswww /\ Ev.www = Challenge(Ev.realm) /\ Ev.body = Unauthorized
                         ELSE ~Ev.haswww, "A3 challenge")
EvRealm == /\ IsEv("Realm")
           /\ Judge(Ev.threw = ~RealmOk(Ev.realm) /\ Ev.exc = "none", "A4 realm")
           /\ Judge(Ev.threw \/ (Ev.status = 401 /\ Ev.haswww /\ Ev.www = Challenge(Ev.realm) /\ Ev.vcalls = 0 /\ Ev.icalls = 0),
                    "A4 realm quoted verbatim")
EvCrashed == (IsEv("Crashed") \/ IsEv("Hung")) /\ Bad("crash or hang")
EvReset == IsEv("Reset")
Next == EvAuth \/ EvRealm \/ EvCrashed \/ EvReset
Spec == Init /\ [][Next]_vars
=================================================================================
