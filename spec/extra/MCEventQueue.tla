---- MODULE MCEventQueue ----
EXTENDS EventQueue
MCEvents == ("p1" :> <<1, 2>> @@ "p2" :> <<3>>)
====
