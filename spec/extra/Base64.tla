------------------------------ MODULE Base64 ------------------------------
(* X13 - iora::util::Base64 / Base64Url (include/iora/util/base64.hpp).  Generator + Impl specification.       *)
(*                                                                                                          *)
(* What a user relies on (Abs, stated in Base64Ops on bits and by inversion - RFC 4648):                      *)
(*   E1  Base64::encode(b) is EXACTLY the RFC 4648 section 4 text of b ('+', '/', padded with '=' to 4k);      *)
(*       Base64Url::encode(b) is exactly the section 5 text ('-', '_') WITHOUT padding.                       *)
(*   D1  Base64::decode(s) returns b  ONLY IF  encode(b) = s   (never a best-effort result), and              *)
(*   D2  it returns a value FOR EVERY s that is some encode(b)  (round trip: decode(encode(b)) = b),          *)
(*       hence "at most one text per octet string is accepted": wrong length, a foreign byte (white space,    *)
(*       the URL alphabet, bytes >= 0x80), '=' anywhere but in the last one or two places and non-zero        *)
(*       discarded bits are ALL rejected (nullopt, no exception).                                             *)
(*   D3  decodeToString agrees with decode byte for byte (embedded NUL kept).                                 *)
(*   M1  neither function reads outside [data, data+len) (judged by ASan on exact-size heap blocks).          *)
(*                                                                                                          *)
(* Init enumerates every input of the configured families (see MCBase64.tla); the actions are the decision    *)
(* steps of the code: one encoder loop iteration / tail form, one decoder quantum with each of its exits.     *)
(* A terminal state (res # "run") is one conformance case; Emit prints it with the result the Impl model      *)
(* predicts and its Abs class.  Invariants: Refines (Impl result = Abs result), RoundTrip, NoOob.             *)
(* Deviations (default FALSE) - each one must make TLC report a violation (self-test of checks/X13.py):       *)
(*   Dev_NoLenCheck     n % 4 is not checked                     -> a short last quantum is read out of bounds *)
(*   Dev_NoPadBits      discarded bits are not required to be 0  -> "QR==" accepted (malleable)               *)
(*   Dev_PadAnyQuantum  '=' accepted in a non-final quantum      -> "QQ==QQ==" accepted                       *)
(*   Dev_Pad2NoC3       c2 = '=' does not demand c3 = '='        -> "QQ=A" accepted                           *)
(*   Dev_UrlAlphabet    '-' '_' decode like '+' '/'              -> second text for the same octets           *)
(*   Dev_EncNoPad       the standard encoder forgets the padding                                              *)
(*   Dev_EncTail2Short  two remaining octets are encoded like one (third character dropped)                   *)
EXTENDS Base64Ops, TLC, Json

CONSTANTS EncInputs,          \* set of octet strings given to both encoders
          DecInputs,          \* set of character strings given to the decoder
          Dev_NoLenCheck, Dev_NoPadBits, Dev_PadAnyQuantum, Dev_Pad2NoC3, Dev_UrlAlphabet, Dev_EncNoPad, Dev_EncTail2Short

VARIABLES mode, inp, i, out, res
vars == <<mode, inp, i, out, res>>

n == Len(inp)
Init == /\ \/ mode \in {"enc", "url"} /\ inp \in EncInputs
           \/ mode = "dec" /\ inp \in DecInputs
        /\ i = 0 /\ out = <<>> /\ res = "run"

Running(m) == res = "run" /\ (IF m = "dec" THEN mode = "dec" ELSE mode # "dec")
Finish(r, o) == res' = r /\ out' = o /\ UNCHANGED <<mode, inp, i>>
Url == mode = "url"

\* ------------------------------------------------------------------ encoders (the two share their shape)
EncTriple == /\ Running("enc") /\ i + 3 <= n
             /\ LET v == (inp[i + 1] * 65536) + (inp[i + 2] * 256) + inp[i + 3] IN
                out' = out \o <<Ch(v \div 262144, Url), Ch((v \div 4096) % 64, Url), Ch((v \div 64) % 64, Url), Ch(v % 64, Url)>>
             /\ i' = i + 3 /\ UNCHANGED <<mode, inp, res>>
EncTail1 == /\ Running("enc") /\ n - i = 1
            /\ LET v == inp[i + 1] * 65536 IN
               Finish("ok", out \o <<Ch(v \div 262144, Url), Ch((v \div 4096) % 64, Url)>>
                            \o (IF Url \/ Dev_EncNoPad THEN <<>> ELSE <<Pad, Pad>>))
EncTail2 == /\ Running("enc") /\ n - i = 2
            /\ LET v == (inp[i + 1] * 65536) + (inp[i + 2] * 256) IN
               Finish("ok", out \o <<Ch(v \div 262144, Url), Ch((v \div 4096) % 64, Url)>>
                            \o (IF Dev_EncTail2Short THEN <<>> ELSE <<Ch((v \div 64) % 64, Url)>>)
                            \o (IF Url \/ Dev_EncNoPad THEN <<>> ELSE IF Dev_EncTail2Short THEN <<Pad, Pad>> ELSE <<Pad>>))
EncEnd == Running("enc") /\ n - i = 0 /\ Finish("ok", out)

\* ------------------------------------------------------------------ decoder
Val(c) == IF Dev_UrlAlphabet /\ c = 45 THEN 62 ELSE IF Dev_UrlAlphabet /\ c = 95 THEN 63 ELSE StdVal(c)
C(k) == inp[i + k]                         \* k = 1..4, the characters of the current quantum
Last == i + 4 = n
InQuantum == Running("dec") /\ n > 0 /\ (n % 4 = 0 \/ Dev_NoLenCheck) /\ i < n /\ i + 4 <= n
B1 == (Val(C(1)) * 4) + (Val(C(2)) \div 16)
B2 == ((Val(C(2)) % 16) * 16) + (Val(C(3)) \div 4)
B3 == ((Val(C(3)) % 4) * 64) + Val(C(4))
Advance(bytes) == out' = out \o bytes /\ i' = i + 4 /\ UNCHANGED <<mode, inp, res>>

DecEmpty == Running("dec") /\ n = 0 /\ Finish("ok", <<>>)
DecBadLen == Running("dec") /\ n % 4 # 0 /\ ~Dev_NoLenCheck /\ Finish("rej", <<>>)
\* only reachable with Dev_NoLenCheck: the loop "for (i = 0; i < n; i += 4)" reads input[i+3] beyond the view
DecOob == Running("dec") /\ n > 0 /\ Dev_NoLenCheck /\ i < n /\ i + 4 > n /\ Finish("oob", <<>>)
DecBadHead == InQuantum /\ (Val(C(1)) < 0 \/ Val(C(2)) < 0) /\ Finish("rej", <<>>)
HeadOk == InQuantum /\ Val(C(1)) >= 0 /\ Val(C(2)) >= 0
DecPad2Misplaced == /\ HeadOk /\ C(3) = Pad
                    /\ (~Last /\ ~Dev_PadAnyQuantum) \/ (C(4) # Pad /\ ~Dev_Pad2NoC3)
                    /\ Finish("rej", <<>>)
Pad2Placed == HeadOk /\ C(3) = Pad /\ (Last \/ Dev_PadAnyQuantum) /\ (C(4) = Pad \/ Dev_Pad2NoC3)
DecPad2Bits == Pad2Placed /\ Val(C(2)) % 16 # 0 /\ ~Dev_NoPadBits /\ Finish("rej", <<>>)
DecPad2 == Pad2Placed /\ (Val(C(2)) % 16 = 0 \/ Dev_NoPadBits) /\ Advance(<<B1>>)
DecBadThird == HeadOk /\ C(3) # Pad /\ Val(C(3)) < 0 /\ Finish("rej", <<>>)
ThirdOk == HeadOk /\ C(3) # Pad /\ Val(C(3)) >= 0
DecPad1Misplaced == ThirdOk /\ C(4) = Pad /\ ~Last /\ ~Dev_PadAnyQuantum /\ Finish("rej", <<>>)
Pad1Placed == ThirdOk /\ C(4) = Pad /\ (Last \/ Dev_PadAnyQuantum)
DecPad1Bits == Pad1Placed /\ Val(C(3)) % 4 # 0 /\ ~Dev_NoPadBits /\ Finish("rej", <<>>)
DecPad1 == Pad1Placed /\ (Val(C(3)) % 4 = 0 \/ Dev_NoPadBits) /\ Advance(<<B1, B2>>)
DecBadFourth == ThirdOk /\ C(4) # Pad /\ Val(C(4)) < 0 /\ Finish("rej", <<>>)
DecFull == ThirdOk /\ C(4) # Pad /\ Val(C(4)) >= 0 /\ Advance(<<B1, B2, B3>>)
DecDone == Running("dec") /\ n > 0 /\ (n % 4 = 0 \/ Dev_NoLenCheck) /\ i >= n /\ Finish("ok", out)

Next == EncTriple \/ EncTail1 \/ EncTail2 \/ EncEnd
        \/ DecEmpty \/ DecBadLen \/ DecOob \/ DecBadHead \/ DecPad2Misplaced \/ DecPad2Bits \/ DecPad2 \/ DecBadThird
        \/ DecPad1Misplaced \/ DecPad1Bits \/ DecPad1 \/ DecBadFourth \/ DecFull \/ DecDone
Spec == Init /\ [][Next]_vars

\* ------------------------------------------------------------------ properties
Refines == res = "run" \/
           IF mode = "dec"
           THEN LET a == AbsDecode(inp) IN (res = "ok" /\ a.ok /\ out = a.out) \/ (res = "rej" /\ ~a.ok)
           ELSE res = "ok" /\ out = Enc(inp, Url)
\* the standard text of every octet string decodes back to it (and only canonical texts are produced)
RoundTrip == (res = "ok" /\ mode = "enc") => AbsDecode(out) = [ok |-> TRUE, out |-> inp]
NoOob == res # "oob"
Progress == res = "run" => ENABLED Next

\* Abs class of a decoder input (for the vacuity self-test and the evidence)
DecClass(s) == IF AbsDecode(s).ok THEN "canon"
               ELSE IF Len(s) % 4 # 0 THEN "len"
               ELSE IF \E k \in 1..Len(s) : s[k] # Pad /\ StdVal(s[k]) < 0 THEN "alpha"
               ELSE IF \E k \in 1..(Len(s) - TailPads(s)) : s[k] = Pad THEN "pad"
               ELSE IF Len(s) >= 3 /\ s[Len(s) - 2] = Pad THEN "pad"
               ELSE "bits"
Emit == res = "run" \/ PrintT(ToJson([mode |-> mode, inp |-> inp, res |-> res, out |-> out,
                                       cls |-> IF mode = "dec" THEN DecClass(inp) ELSE "enc"]))
=============================================================================
