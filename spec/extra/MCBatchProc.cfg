CONSTANTS
  Fds = {1, 2, 3}
  Cfgs <- MCCfgs
  SpecialSets <- MCSpecialSets
  Waits = {0, 50}
  Costs = {0, 25}
  IdleDurs = {99950, 100000}
  Fixes = {1, 3}
  MaxPend = 2
  MaxOps = 6
  TrackHist = TRUE
  Dev_FixedIgnored = FALSE
  Dev_UpdateZero = FALSE
  Dev_LimitIgnoresAdaptive = FALSE
  Dev_SpecialAlsoGeneral = FALSE
  Dev_NoThrottle = FALSE
  Dev_StatsOnEmpty = FALSE
  Dev_MinNeverSet = FALSE
  Dev_CallbackOnEmpty = FALSE
  Dev_EintrThrows = FALSE
  Dev_DecreaseHalf = FALSE
SPECIFICATION Spec
INVARIANT Inv_Env
INVARIANT Inv_CurRange
INVARIANT Inv_Bound
INVARIANT Inv_LimitAdaptive
INVARIANT Inv_FixedHonoured
INVARIANT Inv_Timeout
INVARIANT Inv_DispatchOnce
INVARIANT Inv_Callback
INVARIANT Inv_Errors
INVARIANT Inv_Stats
INVARIANT Inv_Throttle
INVARIANT Inv_AdjStep
INVARIANT Inv_NoBatchNoChange
CHECK_DEADLOCK FALSE
