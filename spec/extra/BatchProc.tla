------------------------------ MODULE BatchProc ------------------------------
(* Extra X11 (beyond the listed properties): iora::network::EventBatchProcessor (network/event_batch_processor.hpp).    *)
(*                                                                                                                      *)
(* The class is a single-threaded wrapper around ::epoll_wait (there is NO submit()/stop()/flush in it: "submitting an  *)
(* event" is the ENVIRONMENT making a descriptor ready).  One call of processBatch                                      *)
(*      limit   = current batch size                      (maxBatchSize when adaptive sizing is off)                    *)
(*      timeout = max(1, ceil(maxBatchDelay / 1 ms))                                                                    *)
(*      n = epoll_wait(epfd, events, limit, timeout)                                                                    *)
(*      n < 0: EINTR -> return silently, otherwise throw std::system_error;   n = 0: return (no statistics, no callback)*)
(*      for the n events in epoll order: special(fd, mask); consumed if it returns true, otherwise queued               *)
(*      general(fd, mask) for every queued event, in order                                                              *)
(*      statistics; adaptive adjustment of the batch size (at most once per 100 ms); onBatchComplete(n, elapsed)        *)
(* The ENVIRONMENT (epoll) is part of this specification and is scripted by it: level-triggered readiness, every        *)
(* descriptor f has pend[f] unread tokens, it sits in the ready queue rq while pend[f] > 0, epoll_wait reports the first *)
(* min(limit, |rq|) descriptors and moves them to the tail; a handler invocation that takes an event (special returning *)
(* true, or general) reads one token and costs c microseconds of (virtual) time; the wait itself may cost w us before   *)
(* the events arrive, and a wait on an empty queue lasts the whole timeout.  maxevents <= 0 is EINVAL (as in Linux).     *)
(*                                                                                                                      *)
(* PROPERTIES a user relies on (invariants below; `last` is the observable outcome of the last processBatch):           *)
(*  P1 Inv_Bound         never more than limit <= maxBatchSize events are taken per batch; 1 <= limit                   *)
(*  P2 Inv_LimitAdaptive with adaptive sizing the limit IS the current batch size, Inv_CurRange 1 <= cur <= maxBatchSize*)
(*  P3 Inv_FixedHonoured setFixedBatchSize(k) ("force a specific batch size") makes the limit min(k, maxBatchSize)      *)
(*  P4 Inv_Timeout       the wait is ceil(maxBatchDelay/1ms), at least 1 ms (never a busy spin, never longer)           *)
(*  P5 Inv_DispatchOnce  every event returned by epoll is offered to the special handler exactly once, in epoll order;  *)
(*                       it reaches the general handler iff the special handler declined it, exactly once, order kept;  *)
(*                       hence each returned event is taken by exactly one handler (Inv_Tokens: one token read each)    *)
(*  P6 Inv_Callback      onBatchComplete is called exactly once per non-empty batch, with n and the elapsed time,       *)
(*                       never for an empty / interrupted / failed wait                                                 *)
(*  P7 Inv_Errors        EINTR is swallowed (no throw, no handler, no statistics); any other error throws               *)
(*  P8 Inv_Stats         totalBatches = number of non-empty batches since resetStats, totalEvents = sum of their n,     *)
(*                       totalBatchTime = sum of their elapsed, maxBatchSize / minBatchSize = max / min n (0 = none),   *)
(*                       adaptiveAdjustments = number of batch-size changes  (recomputed from the ghost history `hist`) *)
(*  P9 Inv_Throttle      the batch size changes only when >= 100 ms passed since the last adjustment point              *)
(*                       (construction, resetStats, or the last time the 100 ms test passed)                            *)
(*  P10 Inv_AdjStep      a change is by max(1, cur/4), clipped to [1, maxBatchSize]; up only after a FULL batch whose    *)
(*                       utilisation elapsed/maxBatchDelay is below loadFactor; down only when elapsed >                *)
(*                       adaptiveThreshold or utilisation > loadFactor                                                  *)
(*  Drain (trace spec)   after processBatch has been repeated until a wait came back empty, no token is left: every      *)
(*                       submitted event was handled exactly once.                                                      *)
(*                                                                                                                      *)
(* Dev_* = realistic slips, default FALSE; each one set TRUE must make TLC report the named invariant (self-test of the *)
(* check).  Two of them are what the CODE DOES TODAY (observations, see checks/X11.meta.json):                          *)
(*   Dev_FixedIgnored  getCurrentBatchSize() returns config_.maxBatchSize whenever adaptive sizing is off, so the size   *)
(*                     set by setFixedBatchSize is never used                                      (breaks P3)          *)
(*   Dev_UpdateZero    updateConfig lacks the constructor's 0 -> 1 guard: maxBatchSize = 1 with adaptive sizing gives    *)
(*                     cur = 0, epoll_wait(maxevents = 0) = EINVAL, processBatch throws for ever   (breaks P2)          *)
(* Time is in microseconds; `since` = time since the last adjustment point, capped at Throttle (all tests are >=).      *)
(* loadFactor is the rational lfn/lfd (1/2, 3/4: exact doubles; elapsed and delay are small integers, so the C++ double  *)
(* comparisons agree with the integer cross-multiplication used here).                                                  *)
EXTENDS Integers, Sequences, FiniteSets, TLC

CONSTANTS Fds,          \* scripted descriptors
          Cfgs,         \* sequence of configuration records [max, adaptive, delay, thr, lfn, lfd]
          SpecialSets,  \* sequence of subsets of Fds: the descriptors the special handler takes
          Waits, Costs, \* us the wait / one handler invocation may cost (0 must be in both)
          IdleDurs,     \* us an Idle step lasts
          Fixes,        \* arguments of setFixedBatchSize
          MaxPend, MaxOps,
          TrackHist,    \* FALSE: statistics / history / op counter frozen (deep exploration of everything else)
          Dev_FixedIgnored, Dev_UpdateZero,
          Dev_LimitIgnoresAdaptive, Dev_SpecialAlsoGeneral, Dev_NoThrottle, Dev_StatsOnEmpty, Dev_MinNeverSet,
          Dev_CallbackOnEmpty, Dev_EintrThrows, Dev_DecreaseHalf

VARIABLES cfg,    \* config_
          spc,    \* descriptors the special handler takes (a property of the caller's handler, fixed per execution)
          cur,    \* currentBatchSize_
          fixed,  \* ghost: argument of the last setFixedBatchSize still in force (0 = none)
          since,  \* min(now - lastAdjustment_, Throttle)
          st,     \* stats_
          hist,   \* ghost: <<n, elapsed, changed>> of every non-empty batch since resetStats
          pend, rq, \* environment: unread tokens per descriptor, ready queue
          last,   \* observable outcome of the last operation (NoLast unless it was a processBatch)
          nops
vars == <<cfg, spc, cur, fixed, since, st, hist, pend, rq, last, nops>>

Min(a, b) == IF a < b THEN a ELSE b
Max(a, b) == IF a > b THEN a ELSE b
Throttle == 100000
NoCfg == [max |-> 0, adaptive |-> FALSE, delay |-> 1, thr |-> 0, lfn |-> 0, lfd |-> 1]
ZeroStats == [tb |-> 0, te |-> 0, mx |-> 0, mn |-> 0, adj |-> 0, tt |-> 0]
NoLast == [op |-> "none", res |-> "-", limit |-> 0, timeout |-> 0, ret |-> <<>>, sp |-> <<>>, gen |-> <<>>, cb |-> -1,
           el |-> 0, thrown |-> FALSE, curBefore |-> 0, sinceAdj |-> 0, adj |-> 0]
Count(s, f) == Cardinality({i \in DOMAIN s : s[i] = f})
Range(s) == {s[i] : i \in DOMAIN s}

\* ---------------------------------------------------------------------------------------------- the code's decisions
InitCur(c, guard) == LET h == IF c.adaptive THEN c.max \div 2 ELSE c.max IN IF guard /\ h = 0 THEN 1 ELSE h
LimitOf(c, k, honourFixed) == IF c.adaptive \/ honourFixed THEN k ELSE c.max
TimeoutMs(c) == Max(1, (c.delay + 999) \div 1000)
StatsAfter(s, n, el) == [s EXCEPT !.tb = @ + 1, !.te = @ + n, !.tt = @ + el, !.mx = Max(@, n),
                                  !.mn = IF (@ = 0 /\ ~Dev_MinNeverSet) \/ n < @ THEN n ELSE @]
UtilBelow(c, el) == el * c.lfd < c.lfn * c.delay
UtilAbove(c, el) == el * c.lfd > c.lfn * c.delay
\* adjustBatchSize (only called with adaptive sizing on): [cur, since, adj, total]
Adjust(c, k, snc, n, el) ==
  LET total == Min(snc + el, Throttle)
      inc == n = k /\ UtilBelow(c, el)
      dec == el > c.thr \/ UtilAbove(c, el)
      step == Max(1, k \div 4)
      down == IF Dev_DecreaseHalf THEN Max(1, k \div 2) ELSE step
  IN IF ~c.adaptive THEN [cur |-> k, since |-> total, adj |-> 0, total |-> total]
     ELSE IF total < Throttle /\ ~Dev_NoThrottle THEN [cur |-> k, since |-> total, adj |-> 0, total |-> total]
     ELSE IF inc /\ k < c.max THEN [cur |-> Min(c.max, k + step), since |-> 0, adj |-> 1, total |-> total]
     ELSE IF dec /\ k > 1 THEN [cur |-> Max(1, k - down), since |-> 0, adj |-> 1, total |-> total]
     ELSE [cur |-> k, since |-> 0, adj |-> 0, total |-> total]

\* ---------------------------------------------------------------------------------------------- the environment
EnvTake(q, lim) == SubSeq(q, 1, Min(lim, Len(q)))

Init == /\ cfg = NoCfg /\ spc = {} /\ cur = 0 /\ fixed = 0 /\ since = 0 /\ st = ZeroStats /\ hist = <<>>
        /\ pend = [f \in Fds |-> 0] /\ rq = <<>> /\ last = NoLast /\ nops = 0

\* ---------------------------------------------------------------------------------------------- steps (unguarded cores)
ConstructCore(c, s) == /\ cfg' = c /\ spc' = s /\ cur' = InitCur(c, TRUE) /\ fixed' = 0 /\ since' = 0 /\ st' = ZeroStats
                       /\ hist' = <<>> /\ last' = NoLast
SubmitCore(f) == /\ pend' = [pend EXCEPT ![f] = @ + 1] /\ rq' = IF pend[f] = 0 THEN Append(rq, f) ELSE rq
                 /\ last' = NoLast /\ UNCHANGED <<cfg, spc, cur, fixed, since, st, hist>>
IdleCore(d) == since' = Min(since + d, Throttle) /\ last' = NoLast /\ UNCHANGED <<cfg, spc, cur, fixed, st, hist, pend, rq>>
UpdateConfigCore(c, guard) == /\ cfg' = c /\ cur' = InitCur(c, guard) /\ fixed' = 0 /\ last' = NoLast
                              /\ UNCHANGED <<spc, since, st, hist, pend, rq>>
SetFixedCore(k) == /\ cfg' = [cfg EXCEPT !.adaptive = FALSE] /\ cur' = Min(k, cfg.max) /\ fixed' = k /\ last' = NoLast
                   /\ UNCHANGED <<spc, since, st, hist, pend, rq>>
ResetStatsCore == /\ st' = ZeroStats /\ hist' = <<>> /\ since' = 0 /\ last' = NoLast
                  /\ UNCHANGED <<cfg, spc, cur, fixed, pend, rq>>

LimitNow(honourFixed) == IF Dev_LimitIgnoresAdaptive THEN cfg.max ELSE LimitOf(cfg, cur, honourFixed)

\* one processBatch.  mode: what the environment does to the wait ("ok", "eintr", "ebadf"); ret: the descriptors it
\* reports (in the model EnvTake(rq, limit); in the trace specification the recorded answer); w, c: costs in us
BatchCore(mode, ret, w, c, honourFixed) ==
  LET lim == LimitNow(honourFixed)
      tmo == TimeoutMs(cfg)
      n == Len(ret)
      res == IF lim <= 0 THEN "einval" ELSE IF mode # "ok" THEN mode ELSE IF n = 0 THEN "empty" ELSE "ok"
      taken == SelectSeq(ret, LAMBDA f : f \in spc)                      \* consumed by the special handler
      gen == IF Dev_SpecialAlsoGeneral THEN ret ELSE SelectSeq(ret, LAMBDA f : f \notin spc)
      el == w + c * (Len(taken) + Len(gen))
      base == [NoLast EXCEPT !.op = "batch", !.res = res, !.limit = lim, !.timeout = tmo, !.curBefore = cur]
  IN CASE res = "ok" ->
            LET a == Adjust(cfg, cur, since, n, el)
                np == [f \in Fds |-> Max(0, pend[f] - Count(taken, f) - Count(gen, f))]
            IN /\ pend' = np
               /\ rq' = SelectSeq(SelectSeq(rq, LAMBDA f : f \notin Range(ret)) \o ret, LAMBDA f : np[f] > 0)
               /\ st' = IF TrackHist THEN [StatsAfter(st, n, el) EXCEPT !.adj = @ + a.adj] ELSE st
               /\ hist' = IF TrackHist THEN Append(hist, <<n, el, a.adj>>) ELSE hist
               /\ cur' = a.cur /\ since' = a.since
               /\ last' = [base EXCEPT !.ret = ret, !.sp = ret, !.gen = gen, !.cb = n, !.el = el, !.sinceAdj = a.total, !.adj = a.adj]
               /\ UNCHANGED <<cfg, spc, fixed>>
       [] res = "empty" ->
            /\ since' = Min(since + 1000 * tmo, Throttle)                \* the wait lasted the whole timeout
            /\ st' = IF Dev_StatsOnEmpty /\ TrackHist THEN StatsAfter(st, 0, 1000 * tmo) ELSE st
            /\ last' = [base EXCEPT !.cb = IF Dev_CallbackOnEmpty THEN 0 ELSE -1, !.el = 1000 * tmo]
            /\ UNCHANGED <<cfg, spc, cur, fixed, hist, pend, rq>>
       [] res = "eintr" ->
            /\ last' = [base EXCEPT !.thrown = Dev_EintrThrows]
            /\ UNCHANGED <<cfg, spc, cur, fixed, since, st, hist, pend, rq>>
       [] OTHER ->                                                       \* "ebadf", "einval": std::system_error
            /\ last' = [base EXCEPT !.thrown = TRUE]
            /\ UNCHANGED <<cfg, spc, cur, fixed, since, st, hist, pend, rq>>

\* ---------------------------------------------------------------------------------------------- Impl actions
Alive == cfg.max > 0 /\ nops < MaxOps
Tick == nops' = IF TrackHist THEN nops + 1 ELSE nops
Construct(ci, si) == cfg.max = 0 /\ ConstructCore(Cfgs[ci], SpecialSets[si]) /\ UNCHANGED <<pend, rq, nops>>
Submit(f) == Alive /\ pend[f] < MaxPend /\ SubmitCore(f) /\ Tick
Batch(w, c) == /\ Alive
               /\ (rq = <<>> \/ LimitNow(~Dev_FixedIgnored) <= 0) => (w = 0 /\ c = 0)
               /\ BatchCore("ok", EnvTake(rq, LimitNow(~Dev_FixedIgnored)), w, c, ~Dev_FixedIgnored) /\ Tick
BatchIntr == Alive /\ BatchCore("eintr", <<>>, 0, 0, ~Dev_FixedIgnored) /\ Tick
BatchFail == Alive /\ BatchCore("ebadf", <<>>, 0, 0, ~Dev_FixedIgnored) /\ Tick
Idle(d) == Alive /\ IdleCore(d) /\ Tick
UpdateConfig(ci) == Alive /\ UpdateConfigCore(Cfgs[ci], ~Dev_UpdateZero) /\ Tick
SetFixed(k) == Alive /\ SetFixedCore(k) /\ Tick
ResetStats == Alive /\ ResetStatsCore /\ Tick

Next == \/ \E ci \in DOMAIN Cfgs, si \in DOMAIN SpecialSets : Construct(ci, si)
        \/ \E f \in Fds : Submit(f)
        \/ \E w \in Waits, c \in Costs : Batch(w, c)
        \/ BatchIntr \/ BatchFail
        \/ \E d \in IdleDurs : Idle(d)
        \/ \E ci \in DOMAIN Cfgs : UpdateConfig(ci)
        \/ \E k \in Fixes : SetFixed(k)
        \/ ResetStats
Spec == Init /\ [][Next]_vars

\* ---------------------------------------------------------------------------------------------- properties
IsBatch == last.op = "batch"
Inv_Env == /\ \A f \in Fds : pend[f] >= 0 /\ (pend[f] > 0 <=> f \in Range(rq))
           /\ \A i, j \in DOMAIN rq : i # j => rq[i] # rq[j]
Inv_CurRange == cfg.max > 0 => (1 <= cur /\ cur <= cfg.max)
Inv_Bound == IsBatch => (last.limit >= 1 /\ last.limit <= cfg.max /\ Len(last.ret) <= last.limit)
Inv_LimitAdaptive == (IsBatch /\ cfg.adaptive) => last.limit = last.curBefore
Inv_FixedHonoured == IsBatch => last.limit = (IF fixed # 0 THEN Min(fixed, cfg.max) ELSE IF cfg.adaptive THEN last.curBefore ELSE cfg.max)
Inv_Timeout == IsBatch => /\ last.timeout >= 1 /\ 1000 * last.timeout >= cfg.delay
                          /\ (last.timeout > 1 => 1000 * (last.timeout - 1) < cfg.delay)
Inv_DispatchOnce == IsBatch => /\ last.sp = last.ret
                               /\ last.gen = SelectSeq(last.ret, LAMBDA f : f \notin spc)
                               /\ \A f \in Fds : Count(SelectSeq(last.sp, LAMBDA g : g \in spc), f) + Count(last.gen, f) = Count(last.ret, f)
                               /\ (last.res # "ok" => last.ret = <<>>)
Inv_Callback == IsBatch => last.cb = (IF last.res = "ok" THEN Len(last.ret) ELSE -1)
Inv_Errors == IsBatch => /\ (last.res = "eintr" => ~last.thrown)
                         /\ (last.res \in {"ebadf", "einval"} <=> last.thrown)
RECURSIVE SumAt(_, _)
SumAt(h, k) == IF h = <<>> THEN 0 ELSE Head(h)[k] + SumAt(Tail(h), k)
RECURSIVE MaxN(_)
MaxN(h) == IF h = <<>> THEN 0 ELSE Max(Head(h)[1], MaxN(Tail(h)))
RECURSIVE MinN(_)
MinN(h) == IF h = <<>> THEN 0 ELSE IF Tail(h) = <<>> THEN Head(h)[1] ELSE Min(Head(h)[1], MinN(Tail(h)))
Inv_Stats == /\ st.tb = Len(hist) /\ st.te = SumAt(hist, 1) /\ st.tt = SumAt(hist, 2) /\ st.adj = SumAt(hist, 3)
             /\ st.mx = MaxN(hist) /\ st.mn = MinN(hist)
Inv_Throttle == (IsBatch /\ last.adj = 1) => last.sinceAdj >= Throttle
Inv_AdjStep == (IsBatch /\ last.res = "ok") =>
                 LET k == last.curBefore  step == Max(1, k \div 4)  n == Len(last.ret)
                 IN /\ last.adj = 0 => cur = k
                    /\ last.adj = 1 => /\ cfg.adaptive /\ cur # k
                                       /\ cur > k => (cur = Min(cfg.max, k + step) /\ n = k /\ UtilBelow(cfg, last.el))
                                       /\ cur < k => (cur = Max(1, k - step) /\ (last.el > cfg.thr \/ UtilAbove(cfg, last.el)))
Inv_NoBatchNoChange == (IsBatch /\ last.res # "ok") => cur = last.curBefore
==============================================================================
