SPECIFICATION Spec
CONSTANTS
  EscInputs <- MCEscInputs
  DecInputs <- MCDecInputs
  EncInputs <- MCEncInputs
  FormInputs <- MCFormInputs
  Dev_EscAposNamed = FALSE
  Dev_EscNoQuot = FALSE
  Dev_EscAmpLast = FALSE
  Dev_DecBoundTight = FALSE
  Dev_DecBoundLoose = FALSE
  Dev_DecPlusInUrl = FALSE
  Dev_DecUpperOnly = FALSE
  Dev_EncLowerHex = FALSE
  Dev_EncTildeEscaped = FALSE
  Dev_FormFirstWins = FALSE
  Dev_FormLastEq = FALSE
  Dev_FormDecodeFirst = FALSE
INVARIANT Refines
INVARIANT EscLaws
INVARIANT EncLaws
INVARIANT NoOob
INVARIANT Progress
INVARIANT Emit
CHECK_DEADLOCK FALSE
