---- MODULE MCStateMachine ----
(* exhaustive configuration of StateMachine.tla (X05): the transition table T1 that checks/X05.py also builds on the real *)
(* class (checks/X05.py regenerates this module from its own table, so the two cannot drift apart).                        *)
(*   insertion order deliberately not sorted by (from, event); two guarded candidates + an unguarded fallback + a rule       *)
(*   made unreachable by the fallback for (1, e1); a chain 3 -e1-> 2 -e2-> 3 -e3-> 1 of two follow-ups; a follow-up that      *)
(*   finds no rule (2 -e1-> 1 then e2); guarded and unguarded self-transitions; several callbacks per state.                 *)
EXTENDS StateMachine
R(f, e, t, g, th, a) == [from |-> f, ev |-> e, to |-> t, g |-> g, then |-> th, act |-> a]
MCRules == << R(2, 2, 3, 0, 3, TRUE), R(1, 1, 2, 1, 0, TRUE), R(3, 3, 1, 0, 0, FALSE), R(1, 1, 3, 2, 0, FALSE),
              R(3, 1, 2, 0, 2, TRUE), R(1, 1, 1, 0, 0, FALSE), R(2, 3, 2, 1, 0, TRUE), R(1, 1, 2, 0, 0, TRUE),
              R(2, 1, 1, 0, 2, FALSE) >>
MCGuardVecs == {{}, {1}, {2}, {1, 2}}
MCOnEnter == <<2, 3, 2>>
MCOnExit == <<1, 2, 1>>
MCForceEnter == <<1, 3>>
MCForceExit == <<2>>
====
