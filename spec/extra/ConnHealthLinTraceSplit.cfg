\* the code as it is: updateConfig = default configuration at the call, connections at the linearization point
CONSTANTS Ids = {1, 2} Cfgs <- MCCfgs3 MaxOps = 1000000 MaxTime = 1000000 KeepHist = TRUE Thr = {"a", "b", "c"}
  Dev_SuccessResets = FALSE Dev_ThresholdStrict = FALSE Dev_FailureTouchesActivity = FALSE Dev_CriticalGe = FALSE Dev_AddKeepsOld = FALSE Dev_UnknownCreates = FALSE Dev_ActivityKeepsFailures = FALSE Dev_StaleState = TRUE Dev_SplitUpdateConfig = TRUE
SPECIFICATION LSpec
INVARIANT TraceChk
INVARIANT TypeOK
INVARIANT MonitoredIffHist
INVARIANT CountRef
INVARIANT StateSinceEval
INVARIANT HealthyIff
INVARIANT UnhealthyListRef
INVARIANT UnhealthyOnlyBeyondMax
INVARIANT LastActivityRef
INVARIANT HeartbeatRef
INVARIANT TotalsRef
INVARIANT CountsAddUp
PROPERTY LRecovery
PROPERTY LIsolation
POSTCONDITION TracePost
CHECK_DEADLOCK FALSE
