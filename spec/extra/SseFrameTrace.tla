------------------------------ MODULE SseFrameTrace ------------------------------
(* Abs oracle of extra X12 (framing half): every case is the name / payload the generator SseFrame.tla produced and the      *)
(* bytes the REAL SseStream::formatEvent / formatComment / formatRetry returned for it; the client-side reference             *)
(* SseWire.tla decides: exactly the intended event is dispatched (type, data with normalised line breaks), nothing is         *)
(* injected, the stream is left at an event boundary.  The exact wire bytes are NOT demanded here (any framing an            *)
(* EventSource decodes correctly is accepted); disagreement with the Impl model's bytes is reported as model drift only.     *)
EXTENDS TraceBase, SseWire
VARIABLES cases
vars == <<l, cases>>
Init == l = 1 /\ cases = 0
EvCase == /\ IsEv("Case")
          /\ CASE Ev.kind = "event" -> EventOk(Ev.name, Ev.data, Ev.out)
               [] Ev.kind = "comment" -> CommentOk(Ev.out)
               [] Ev.kind = "retry" -> RetryOk(Ev.data, Ev.out)
          /\ cases' = cases + 1
EvReset == IsEv("Reset") /\ cases' = 0
Next == EvCase \/ EvReset
Spec == Init /\ [][Next]_vars
==================================================================================
