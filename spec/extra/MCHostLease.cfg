CONSTANTS Threads = {"a", "b", "c"} Hosts = {"A", "B"} Prog <- MCProg Timed = FALSE
  Dev_NotifyOne = FALSE Dev_RelNoNotify = FALSE Dev_NoClosingCheck = FALSE Dev_NotExclusive = FALSE
SPECIFICATION Spec
INVARIANT Exclusive
INVARIANT ClosedRefuses
INVARIANT FailOnlyWhenLeasedOrClosing
INVARIANT NoStuck
CHECK_DEADLOCK FALSE
