------------------------------ MODULE BatchProcTrace ------------------------------
(* Trace specification of X11 (EventBatchProcessor): the recorded operations drive the specification's own steps         *)
(* (BatchProc.tla, unguarded *Core actions); what the ENVIRONMENT answered (the descriptors epoll_wait reported, the     *)
(* scripted costs) is taken from the log, everything the CODE decided must be exactly what the specification computes:  *)
(* the arguments of epoll_wait (maxevents = batch limit, timeout), the sequence of special / general handler calls,     *)
(* the callback (n, elapsed), whether processBatch threw, the virtual time it took, every statistics field and the      *)
(* configuration read back after each operation.  The invariants of BatchProc.tla are checked on the reconstructed      *)
(* state as well.  End: after the final drain (processBatch repeated until a wait came back empty) no token is left.    *)
(*                                                                                                                      *)
(* Observed deviations of the code from its documentation (AcceptObserved = TRUE): the step may also be taken the way   *)
(* the code does it today; TLC then prints <<"OBS", name, line>> and the check reports OBSERVATION ... (green).         *)
(*   FixedIgnored   a batch after setFixedBatchSize(k), k < maxBatchSize, asks epoll for maxBatchSize events            *)
(*   UpdateZero     updateConfig(maxBatchSize = 1, adaptive) left the batch size 0: epoll_wait(maxevents = 0) = EINVAL,  *)
(*                  processBatch throws; pending events are never delivered (End with tokens left)                       *)
(* With AcceptObserved = FALSE only the promised behaviour is accepted (self-test: those executions must be rejected).  *)
(* Anything else that differs is a rejection = VIOLATION.                                                               *)
EXTENDS TraceBase, BatchProc
CONSTANT AcceptObserved
tvars == <<l, vars>>
Choices == IF AcceptObserved THEN BOOLEAN ELSE {TRUE}
SetOf(a) == {a[i] : i \in DOMAIN a}
EvCfg == [max |-> Ev.max, adaptive |-> Ev.ad, delay |-> Ev.delay, thr |-> Ev.thr, lfn |-> Ev.lfn, lfd |-> Ev.lfd]
ZeroPend == [f \in Fds |-> 0]
MatchStats == /\ st'.tb = Ev.tb /\ st'.te = Ev.te /\ st'.mx = Ev.mx /\ st'.mn = Ev.mn /\ st'.adj = Ev.adj /\ st'.tt = Ev.tt
              /\ Ev.avg = (IF st'.tb = 0 THEN 0 ELSE st'.tt \div st'.tb)
MatchCfg == Ev.cmax = cfg'.max /\ Ev.cad = cfg'.adaptive /\ Ev.cdelay = cfg'.delay

TInit == l = 1 /\ Init
TBegin == /\ IsEv("Begin") /\ ConstructCore(EvCfg, SetOf(Ev.special)) /\ pend' = ZeroPend /\ rq' = <<>>
          /\ MatchStats /\ MatchCfg /\ UNCHANGED nops
TReset == /\ IsEv("Reset") /\ cfg' = NoCfg /\ spc' = {} /\ cur' = 0 /\ fixed' = 0 /\ since' = 0 /\ st' = ZeroStats /\ hist' = <<>>
          /\ pend' = ZeroPend /\ rq' = <<>> /\ last' = NoLast /\ UNCHANGED nops
TSubmit == IsEv("Submit") /\ Ev.fd \in Fds /\ SubmitCore(Ev.fd) /\ UNCHANGED nops
TIdle == IsEv("Idle") /\ IdleCore(Ev.d) /\ UNCHANGED nops
TBatch == /\ IsEv("Batch")
          /\ \E h \in Choices :
               /\ (~h) => (LimitOf(cfg, cur, TRUE) # LimitOf(cfg, cur, FALSE))
               /\ BatchCore(Ev.mode, Ev.ret, Ev.w, Ev.c, h)
               /\ Ev.calls = 1 /\ last'.limit = Ev.maxev /\ last'.timeout = Ev.timeout /\ last'.res = Ev.res
               /\ last'.ret = Ev.ret /\ last'.sp = Ev.sp /\ last'.gen = Ev.gen
               /\ last'.cb = Ev.cb /\ (Ev.cb >= 0 => Ev.cbel = last'.el)
               /\ last'.thrown = Ev.thrown /\ Ev.errc = (IF last'.res = "ebadf" THEN 9 ELSE IF last'.res = "einval" THEN 22 ELSE 0)
               /\ Ev.dt = (IF last'.res \in {"ok", "empty"} THEN last'.el ELSE 0)
               /\ MatchStats /\ MatchCfg
               /\ (~h) => PrintT(<<"OBS", "FixedIgnored", l>>)
               /\ (last'.res = "einval") => PrintT(<<"OBS", "UpdateZero", l>>)
          /\ UNCHANGED nops
TUpdateConfig == /\ IsEv("UpdateConfig")
                 /\ \E g \in Choices : /\ (~g) => (InitCur(EvCfg, TRUE) # InitCur(EvCfg, FALSE))
                                       /\ UpdateConfigCore(EvCfg, g)
                 /\ MatchStats /\ MatchCfg /\ UNCHANGED nops
TSetFixed == IsEv("SetFixed") /\ SetFixedCore(Ev.k) /\ MatchStats /\ MatchCfg /\ UNCHANGED nops
TResetStats == IsEv("ResetStats") /\ ResetStatsCore /\ MatchStats /\ MatchCfg /\ UNCHANGED nops
RECURSIVE SumPend(_)
SumPend(S) == IF S = {} THEN 0 ELSE LET f == CHOOSE x \in S : TRUE IN pend[f] + SumPend(S \ {f})
TEnd == /\ IsEv("End") /\ Ev.left = SumPend(Fds)
        /\ \/ Ev.left = 0
           \/ AcceptObserved /\ Ev.left > 0 /\ cur = 0 /\ PrintT(<<"OBS", "UpdateZeroStuck", l>>)
        /\ UNCHANGED vars
TNext == TBegin \/ TReset \/ TSubmit \/ TIdle \/ TBatch \/ TUpdateConfig \/ TSetFixed \/ TResetStats \/ TEnd
TSpec == TInit /\ [][TNext]_tvars
===================================================================================
