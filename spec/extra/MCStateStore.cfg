SPECIFICATION Spec
CONSTANTS
  Spellings <- MCSpellings
  Prefixes <- MCPrefixes
  Chars <- MCChars
  Vals = {1, 2}
  Dev_CaseSensitiveKeys = FALSE
  Dev_SetKeepsOld = FALSE
  Dev_RemoveExactCase = FALSE
  Dev_SizeStale = FALSE
  Dev_PrefixCaseSensitive = FALSE
INVARIANT Unique
INVARIANT Agree
INVARIANT RetOk
CHECK_DEADLOCK FALSE
