------------------------------ MODULE SignalTrace ------------------------------
(* X06: Abs oracle for iora::core::Signal / ScopedConnection as a trace specification (P1..P7 of Signal.tla).                *)
(* State: the abstract slot list `slots` (sequence of [id, w]); connect / disconnect / disconnectAll / connectionCount /      *)
(* setExceptionHandler take effect (Lin) at one instant between Call and Ret; an emit x takes ONE snapshot of the list         *)
(* (Snap(x)) between its Call and its first slot, then must invoke exactly the slots of that snapshot, in order, skipping a     *)
(* weak slot iff its target has expired by its turn, before it returns.  Nested calls (a slot body calling the signal) are     *)
(* ordinary calls of the same thread: operations are keyed by a call id `c`, emits by `x`, not by thread.                      *)
(*   Begin                                                                                                                     *)
(*   Call{t, c, op: connect|disconnect|disconnectAll|count|sethandler, id, g, w, on}   Ret{t, c, op, id, n}                     *)
(*       ScopedConnection operations are logged as what they must amount to: scoped connect = connect; destructor / reset() /   *)
(*       the left side of a move-assignment = disconnect(id held) (id 0 = holds nothing: no effect); release() = nothing        *)
(*   EmitCall{t, x}  Slot{t, x, g | w, thr}  Handler{t, x}  EmitRet{t, x}      g: tag given at connect (w: weak target);        *)
(*                                                                             thr = 1: the slot body throws after logging      *)
(*   Expire{w}   the weak target w has been destroyed          End{outcome}                                                     *)
(* Accepted and reported: <<"OBS", "CallAfterDisconnect", line>> - a slot ran although a disconnect() of its id had already       *)
(* RETURNED (snapshot semantics: the emit had taken its snapshot before).                                                       *)
EXTENDS TraceBase, FiniteSets, Integers
VARIABLES slots, nid, alive, handler, pend, em, gone
vars == <<l, slots, nid, alive, handler, pend, em, gone>>
CallIds == {Log[i].c : i \in {j \in 1..Len(Log) : "c" \in DOMAIN Log[j]}}
EmitIds == {Log[i].x : i \in {j \in 1..Len(Log) : "x" \in DOMAIN Log[j]}}
Weak == {Log[i].w : i \in {j \in 1..Len(Log) : "w" \in DOMAIN Log[j]}} \ {0}
Idle == [st |-> "idle", op |-> "-", id |-> 0, g |-> 0, w |-> 0, n |-> 0, on |-> FALSE]
NoEm == [st |-> "idle", snap |-> <<>>, pos |-> 0, saw |-> FALSE, pruned |-> FALSE, overlap |-> FALSE, h |-> FALSE, hs |-> FALSE, owe |-> FALSE]
Fresh == [c \in CallIds |-> Idle]
FreshEm == [x \in EmitIds |-> NoEm]
Init == l = 1 /\ slots = <<>> /\ nid = 1 /\ alive = Weak /\ handler = FALSE /\ pend = Fresh /\ em = FreshEm /\ gone = {}
Clean == slots' = <<>> /\ nid' = 1 /\ alive' = Weak /\ handler' = FALSE /\ pend' = Fresh /\ em' = FreshEm /\ gone' = {}
EvBegin == IsEv("Begin") /\ Clean
EvReset == IsEv("Reset") /\ Clean
Active == {x \in EmitIds : em[x].st \in {"called", "iter"}}
Expired(sl) == sl.w # 0 /\ sl.w \notin alive

EvCall == /\ IsEv("Call") /\ pend[Ev.c].st = "idle"
          /\ pend' = [pend EXCEPT ![Ev.c] = [st |-> "called", op |-> Ev.op, id |-> Fld("id", 0), g |-> Fld("g", 0), w |-> Fld("w", 0), n |-> 0, on |-> Fld("on", 0) = 1]]
          /\ UNCHANGED <<slots, nid, alive, handler, em, gone>>
Lin(c) ==
    /\ pend[c].st = "called" /\ UNCHANGED <<l, alive, em, gone>>
    /\ LET p == pend[c] IN
       CASE p.op = "connect" -> /\ slots' = Append(slots, [id |-> nid, g |-> p.g, w |-> p.w]) /\ nid' = nid + 1
                                /\ pend' = [pend EXCEPT ![c] = [p EXCEPT !.st = "lin", !.id = nid]] /\ UNCHANGED handler
         [] p.op = "disconnect" -> /\ slots' = SelectSeq(slots, LAMBDA sl : sl.id # p.id)
                                   /\ pend' = [pend EXCEPT ![c].st = "lin"] /\ UNCHANGED <<nid, handler>>
         [] p.op = "disconnectAll" -> /\ slots' = <<>> /\ pend' = [pend EXCEPT ![c] = [p EXCEPT !.st = "lin", !.n = Len(slots)]]
                                      /\ UNCHANGED <<nid, handler>>
         [] p.op = "count" -> pend' = [pend EXCEPT ![c] = [p EXCEPT !.st = "lin", !.n = Len(slots)]] /\ UNCHANGED <<slots, nid, handler>>
         [] p.op = "sethandler" -> handler' = p.on /\ pend' = [pend EXCEPT ![c].st = "lin"] /\ UNCHANGED <<slots, nid>>
         [] OTHER -> FALSE
EvRet == /\ IsEv("Ret") /\ pend[Ev.c].st = "lin" /\ pend[Ev.c].op = Ev.op
         /\ (Ev.op = "connect") => (Ev.id = pend[Ev.c].id /\ Ev.id # 0)
         /\ (Ev.op = "count") => Ev.n = pend[Ev.c].n
         /\ gone' = IF Ev.op = "disconnect" THEN gone \cup {pend[Ev.c].id} ELSE gone
         /\ pend' = [pend EXCEPT ![Ev.c] = Idle] /\ UNCHANGED <<slots, nid, alive, handler, em>>
EvExpire == IsEv("Expire") /\ alive' = alive \ {Ev.w} /\ UNCHANGED <<slots, nid, handler, pend, em, gone>>

\* ---- emit
EvEmitCall == /\ IsEv("EmitCall") /\ em[Ev.x].st = "idle"
              /\ em' = [y \in EmitIds |-> IF y = Ev.x THEN [NoEm EXCEPT !.st = "called", !.overlap = Active # {}]
                                          ELSE IF y \in Active THEN [em[y] EXCEPT !.overlap = TRUE] ELSE em[y]]
              /\ UNCHANGED <<slots, nid, alive, handler, pend, gone>>
Snap(x) == /\ em[x].st = "called" /\ em' = [em EXCEPT ![x] = [@ EXCEPT !.st = "iter", !.snap = slots]]
           /\ UNCHANGED <<l, slots, nid, alive, handler, pend, gone>>
\* the handler is loaded right after the list (a second atomic load)
SnapH(x) == /\ em[x].st = "iter" /\ ~em[x].hs /\ em[x].pos = 0 /\ em' = [em EXCEPT ![x] = [@ EXCEPT !.hs = TRUE, !.h = handler]]
            /\ UNCHANGED <<l, slots, nid, alive, handler, pend, gone>>
\* an expired weak slot is passed over at its turn
Skip(x) == /\ em[x].st = "iter" /\ em[x].hs /\ ~em[x].owe /\ em[x].pos < Len(em[x].snap) /\ Expired(em[x].snap[em[x].pos + 1])
           /\ em' = [em EXCEPT ![x] = [@ EXCEPT !.pos = @ + 1, !.saw = TRUE]]
           /\ UNCHANGED <<l, slots, nid, alive, handler, pend, gone>>
EvSlot == /\ IsEv("Slot") /\ em[Ev.x].st = "iter" /\ em[Ev.x].hs /\ ~em[Ev.x].owe /\ em[Ev.x].pos < Len(em[Ev.x].snap)
          /\ LET sl == em[Ev.x].snap[em[Ev.x].pos + 1] IN
             /\ (IF Fld("w", 0) # 0 THEN sl.w = Ev.w ELSE sl.g = Ev.g) /\ ~Expired(sl)
             /\ (sl.id \in gone) => PrintT(<<"OBS", "CallAfterDisconnect", l>>)
          /\ em' = [em EXCEPT ![Ev.x] = [@ EXCEPT !.pos = @ + 1, !.owe = (Fld("thr", 0) = 1 /\ em[Ev.x].h)]]
          /\ UNCHANGED <<slots, nid, alive, handler, pend, gone>>
EvHandler == /\ IsEv("Handler") /\ em[Ev.x].st = "iter" /\ em[Ev.x].owe /\ em' = [em EXCEPT ![Ev.x].owe = FALSE]
             /\ UNCHANGED <<slots, nid, alive, handler, pend, gone>>
\* the emit that met an expired slot removes the expired slots (unless another emit is pruning at the same time)
Prune(x) == /\ em[x].st = "iter" /\ em[x].hs /\ ~em[x].owe /\ em[x].pos = Len(em[x].snap) /\ em[x].saw /\ ~em[x].pruned
            /\ slots' = SelectSeq(slots, LAMBDA sl : ~Expired(sl)) /\ em' = [em EXCEPT ![x].pruned = TRUE]
            /\ UNCHANGED <<l, nid, alive, handler, pend, gone>>
EvEmitRet == /\ IsEv("EmitRet") /\ em[Ev.x].st = "iter" /\ ~em[Ev.x].owe /\ em[Ev.x].pos = Len(em[Ev.x].snap)
             /\ (em[Ev.x].saw /\ ~em[Ev.x].overlap) => em[Ev.x].pruned
             /\ em' = [em EXCEPT ![Ev.x].st = "done"]
             /\ UNCHANGED <<slots, nid, alive, handler, pend, gone>>
EvEnd == /\ IsEv("End") /\ Ev.outcome = "done" /\ Active = {} /\ \A c \in CallIds : pend[c].st = "idle"
         /\ UNCHANGED <<slots, nid, alive, handler, pend, em, gone>>
Next == EvBegin \/ EvReset \/ EvCall \/ EvRet \/ EvExpire \/ EvEmitCall \/ EvSlot \/ EvHandler \/ EvEmitRet \/ EvEnd
        \/ \E c \in CallIds : Lin(c)
        \/ \E x \in EmitIds : Snap(x) \/ SnapH(x) \/ Skip(x) \/ Prune(x)
Spec == Init /\ [][Next]_vars
===============================================================================
